package main

// Concurrency facts (T1, DESIGN.md §5.1): goroutine roots, and per root the struct fields it reads / writes and the
// channel operations it performs, over the module's own packages.
//
//	roots     found, not listed: the callee of every `go` statement, the function passed to every time.AfterFunc,
//	          the ServeMsg method of every handler type passed to nl.Mux.PushHandler, plus the start-up root
//	          (pkg/app UpfApp.Run, which is also where the shutdown path runs)
//	reach     from each root over static calls, interface calls resolved to the module's implementers (class
//	          hierarchy), and module functions / closures passed as arguments to non-module functions (callbacks
//	          run by the callee), without following `go` statements and AfterFunc arguments (those start other roots)
//	access    FieldAddr/Field on a struct type of the module: load = rd, store / map update / delete = wr;
//	          send / recv / close / range on a channel held in such a field; selsend / selrecv for the cases of a select
//
// The analysis is an over-approximation of who can touch what (reflection, unsafe and cgo are not followed).

import (
	"fmt"
	"go/constant"
	"go/token"
	"go/types"
	"os"
	"sort"
	"strings"

	"golang.org/x/tools/go/packages"
	"golang.org/x/tools/go/ssa"
	"golang.org/x/tools/go/ssa/ssautil"
)

const modPath = "github.com/free5gc/go-upf"

type concFact struct {
	root, fn, loc, kind string
}

func inModule(f *ssa.Function) bool {
	if f == nil {
		return false
	}
	if f.Pkg != nil {
		return strings.HasPrefix(f.Pkg.Pkg.Path(), modPath)
	}
	// closures and wrappers: by parent / object
	if f.Parent() != nil {
		return inModule(f.Parent())
	}
	if o := f.Object(); o != nil && o.Pkg() != nil {
		return strings.HasPrefix(o.Pkg().Path(), modPath)
	}
	return false
}

func shortName(f *ssa.Function) string {
	s := f.String()
	s = strings.ReplaceAll(s, modPath+"/internal/forwarder/", "")
	s = strings.ReplaceAll(s, modPath+"/internal/", "")
	s = strings.ReplaceAll(s, modPath+"/pkg/", "")
	s = strings.ReplaceAll(s, modPath+"/", "")
	s = strings.ReplaceAll(s, "(*", "")
	s = strings.ReplaceAll(s, ")", "")
	s = strings.ReplaceAll(s, "(", "")
	return s
}

func namedStruct(t types.Type) (string, bool) {
	if p, ok := t.Underlying().(*types.Pointer); ok {
		t = p.Elem()
	}
	n, ok := t.(*types.Named)
	if !ok {
		return "", false
	}
	if n.Obj().Pkg() == nil || !strings.HasPrefix(n.Obj().Pkg().Path(), modPath) {
		return "", false
	}
	if _, ok := n.Underlying().(*types.Struct); !ok {
		return "", false
	}
	return n.Obj().Pkg().Name() + "." + n.Obj().Name(), true
}

// fieldLoc: "pkg.Type.field" for a FieldAddr/Field on a module struct
func fieldLoc(x ssa.Value, idx int) (string, bool) {
	t := x.Type()
	name, ok := namedStruct(t)
	if !ok {
		return "", false
	}
	if p, ok := t.Underlying().(*types.Pointer); ok {
		t = p.Elem()
	}
	st := t.Underlying().(*types.Struct)
	return name + "." + st.Field(idx).Name(), true
}

// originField: the module field a value was loaded from (through loads and index/lookup chains), if any
func originField(v ssa.Value, depth int) (string, bool) {
	if depth > 6 {
		return "", false
	}
	switch x := v.(type) {
	case *ssa.UnOp:
		if x.Op == token.MUL {
			return originField(x.X, depth+1)
		}
	case *ssa.FieldAddr:
		return fieldLoc(x.X, x.Field)
	case *ssa.Field:
		return fieldLoc(x.X, x.Field)
	case *ssa.Phi:
		for _, e := range x.Edges {
			if l, ok := originField(e, depth+1); ok {
				return l, true
			}
		}
	case *ssa.ChangeType:
		return originField(x.X, depth+1)
	case *ssa.MakeInterface:
		return originField(x.X, depth+1)
	}
	return "", false
}

// chanFieldsByElem: channel-typed struct fields of the module, by element type ("perio.Event" -> ["perio.Server.evtCh"])
var chanFieldsByElem = map[string][]string{}

// chanLoc: the field a channel value comes from; a channel that reaches the function as a parameter or captured
// variable is attributed to the module's only channel field of that element type, if there is exactly one
func chanLoc(v ssa.Value) (string, bool) {
	if l, ok := originField(v, 0); ok {
		return l, true
	}
	if ct, ok := v.Type().Underlying().(*types.Chan); ok {
		if fs := chanFieldsByElem[types.TypeString(ct.Elem(), func(p *types.Package) string { return p.Name() })]; len(fs) == 1 {
			return fs[0], true
		}
	}
	return "", false
}

type concAnalysis struct {
	prog    *ssa.Program
	impls   map[string][]*ssa.Function // interface method key -> module implementers
	roots   map[*ssa.Function]string
	allFns  map[*ssa.Function]bool
	caps    map[string]int
	rootPos []string
}

func calleesOf(a *concAnalysis, instr ssa.CallInstruction) (sync []*ssa.Function) {
	c := instr.Common()
	if c.IsInvoke() {
		// interface method call: every module type implementing the method
		key := c.Method.Name()
		for _, f := range a.impls[key] {
			recvT := f.Signature.Recv().Type()
			if types.Implements(recvT, c.Value.Type().Underlying().(*types.Interface)) ||
				types.Implements(types.NewPointer(recvT), c.Value.Type().Underlying().(*types.Interface)) {
				sync = append(sync, f)
			}
		}
		return
	}
	if f := c.StaticCallee(); f != nil {
		if inModule(f) {
			sync = append(sync, f)
		} else {
			// a module function or closure handed to foreign code is run by it (sort.Slice, sync.Once.Do, ...)
			isAfterFunc := f.Pkg != nil && f.Pkg.Pkg.Path() == "time" && f.Name() == "AfterFunc"
			if !isAfterFunc {
				for _, arg := range c.Args {
					switch g := arg.(type) {
					case *ssa.MakeClosure:
						if fn, ok := g.Fn.(*ssa.Function); ok && inModule(fn) {
							sync = append(sync, fn)
						}
					case *ssa.Function:
						if inModule(g) {
							sync = append(sync, g)
						}
					}
				}
			}
		}
		return
	}
	// dynamic call of a function value: a closure made in the module
	switch g := c.Value.(type) {
	case *ssa.MakeClosure:
		if fn, ok := g.Fn.(*ssa.Function); ok && inModule(fn) {
			sync = append(sync, fn)
		}
	default:
		// a function-typed struct field or variable: every module function with that signature that is ever stored
		// is a candidate; we resolve the one pattern the code base has (perio.Server.queryURR = Gtp5g.psQueryURR) by
		// taking all module functions/methods whose signature is identical and whose address is taken
		sig, ok := c.Value.Type().Underlying().(*types.Signature)
		if ok {
			for f := range a.allFns {
				if !inModule(f) || f.Signature.Recv() != nil && f.Synthetic == "" {
					// bound method closures appear as synthetic "bound method wrapper" functions
				}
				if f.Synthetic != "" && strings.Contains(f.Synthetic, "bound method") && types.Identical(f.Signature, sig) {
					sync = append(sync, f)
				}
			}
		}
	}
	return
}

func writeConc(pkgs []*packages.Package, byPath map[string]*packages.Package, path string) int {
	prog, _ := ssautil.AllPackages(pkgs, ssa.InstantiateGenerics)
	prog.Build()
	a := &concAnalysis{prog: prog, impls: map[string][]*ssa.Function{}, roots: map[*ssa.Function]string{}, caps: map[string]int{}}
	a.allFns = ssautil.AllFunctions(prog)
	for f := range a.allFns {
		if inModule(f) && f.Signature.Recv() != nil && f.Synthetic == "" {
			a.impls[f.Name()] = append(a.impls[f.Name()], f)
		}
	}
	for _, p := range pkgs {
		if p.Types == nil || !strings.HasPrefix(p.PkgPath, modPath) {
			continue
		}
		sc := p.Types.Scope()
		for _, n := range sc.Names() {
			tn, ok := sc.Lookup(n).(*types.TypeName)
			if !ok {
				continue
			}
			st, ok := tn.Type().Underlying().(*types.Struct)
			if !ok {
				continue
			}
			for i := 0; i < st.NumFields(); i++ {
				if ct, ok := st.Field(i).Type().Underlying().(*types.Chan); ok {
					k := types.TypeString(ct.Elem(), func(p *types.Package) string { return p.Name() })
					chanFieldsByElem[k] = append(chanFieldsByElem[k], p.Types.Name()+"."+tn.Name()+"."+st.Field(i).Name())
				}
			}
		}
	}
	// ---- roots
	for f := range a.allFns {
		if !inModule(f) || f.Blocks == nil {
			continue
		}
		if strings.Contains(f.String(), "cmd/verifharness") {
			continue
		}
		for _, b := range f.Blocks {
			for _, ins := range b.Instrs {
				switch x := ins.(type) {
				case *ssa.Go:
					for _, g := range rootTargets(a, x.Common()) {
						a.roots[g] = shortName(g)
					}
				case *ssa.Call:
					c := x.Common()
					if sc := c.StaticCallee(); sc != nil && sc.Pkg != nil {
						if sc.Pkg.Pkg.Path() == "time" && sc.Name() == "AfterFunc" && len(c.Args) == 2 {
							switch g := c.Args[1].(type) {
							case *ssa.MakeClosure:
								if fn, ok := g.Fn.(*ssa.Function); ok {
									a.roots[fn] = shortName(fn)
								}
							case *ssa.Function:
								a.roots[g] = shortName(g)
							}
						}
						if sc.Name() == "PushHandler" && strings.HasSuffix(sc.Pkg.Pkg.Path(), "go-nl") && len(c.Args) == 3 {
							// args: mux, conn, handler(interface)
							if mi, ok := c.Args[2].(*ssa.MakeInterface); ok {
								for _, m := range a.impls["ServeMsg"] {
									if types.Identical(m.Signature.Recv().Type(), mi.X.Type()) ||
										types.Identical(types.NewPointer(m.Signature.Recv().Type()), mi.X.Type()) ||
										types.Identical(m.Signature.Recv().Type(), types.NewPointer(mi.X.Type())) {
										a.roots[m] = shortName(m)
									}
								}
							}
						}
					}
				}
			}
		}
	}
	// start-up / shutdown root
	if app := byPath[modPath+"/pkg/app"]; app != nil {
		sp := prog.Package(app.Types)
		if sp != nil {
			for _, mem := range sp.Members {
				if t, ok := mem.(*ssa.Type); ok {
					ms := prog.MethodSets.MethodSet(types.NewPointer(t.Type()))
					for i := 0; i < ms.Len(); i++ {
						if ms.At(i).Obj().Name() == "Run" || ms.At(i).Obj().Name() == "Start" || ms.At(i).Obj().Name() == "Terminate" {
							if f := prog.MethodValue(ms.At(i)); f != nil {
								a.roots[f] = "app.main"
							}
						}
					}
				}
			}
		}
	}

	// ---- reachability + facts
	var facts []concFact
	seenFact := map[concFact]bool{}
	add := func(root string, fn *ssa.Function, loc, kind string) {
		cf := concFact{root, shortName(fn), loc, kind}
		if !seenFact[cf] {
			seenFact[cf] = true
			facts = append(facts, cf)
		}
	}
	type rootEntry struct {
		name string
		fns  []*ssa.Function
	}
	byName := map[string][]*ssa.Function{}
	for f, n := range a.roots {
		byName[n] = append(byName[n], f)
	}
	var names []string
	for n := range byName {
		names = append(names, n)
	}
	sort.Strings(names)
	for _, rn := range names {
		seen := map[*ssa.Function]bool{}
		var work []*ssa.Function
		for _, f := range byName[rn] {
			work = append(work, f)
		}
		for len(work) > 0 {
			f := work[len(work)-1]
			work = work[:len(work)-1]
			if seen[f] || f.Blocks == nil {
				continue
			}
			seen[f] = true
			for _, b := range f.Blocks {
				for _, ins := range b.Instrs {
					switch x := ins.(type) {
					case *ssa.Go:
						// starts another root
					case *ssa.Defer:
						for _, g := range calleesOf(a, x) {
							work = append(work, g)
						}
						scanBuiltin(x.Common(), func(loc, kind string) { add(rn, f, loc, kind) })
					case *ssa.Call:
						for _, g := range calleesOf(a, x) {
							work = append(work, g)
						}
						scanBuiltin(x.Common(), func(loc, kind string) { add(rn, f, loc, kind) })
					case *ssa.Store:
						if fa, ok := x.Addr.(*ssa.FieldAddr); ok {
							if loc, ok := fieldLoc(fa.X, fa.Field); ok {
								add(rn, f, loc, "wr")
							}
						}
					case *ssa.UnOp:
						if x.Op == token.MUL {
							if fa, ok := x.X.(*ssa.FieldAddr); ok {
								if loc, ok := fieldLoc(fa.X, fa.Field); ok {
									add(rn, f, loc, "rd")
								}
							}
						}
						if x.Op == token.ARROW {
							if loc, ok := chanLoc(x.X); ok {
								add(rn, f, loc, "recv")
							}
						}
					case *ssa.Field:
						if loc, ok := fieldLoc(x.X, x.Field); ok {
							add(rn, f, loc, "rd")
						}
					case *ssa.MapUpdate:
						if loc, ok := originField(x.Map, 0); ok {
							add(rn, f, loc, "wr")
						}
					case *ssa.Lookup:
						if loc, ok := originField(x.X, 0); ok {
							add(rn, f, loc, "rd")
						}
					case *ssa.Range:
						if loc, ok := originField(x.X, 0); ok {
							if _, isChan := x.X.Type().Underlying().(*types.Chan); isChan {
								add(rn, f, loc, "recv")
							} else {
								add(rn, f, loc, "rd")
							}
						}
					case *ssa.Send:
						if loc, ok := chanLoc(x.Chan); ok {
							add(rn, f, loc, "send")
						}
					case *ssa.Select:
						for _, st := range x.States {
							if loc, ok := chanLoc(st.Chan); ok {
								if st.Dir == types.SendOnly {
									add(rn, f, loc, "selsend")
								} else {
									add(rn, f, loc, "selrecv")
								}
							}
						}
					case *ssa.MakeChan:
						// capacity of a channel stored into a field
						if c, ok := x.Size.(*ssa.Const); ok && c.Value != nil {
							if n, ok := constant.Int64Val(c.Value); ok {
								for _, ref := range *x.Referrers() {
									if st, ok := ref.(*ssa.Store); ok {
										if fa, ok := st.Addr.(*ssa.FieldAddr); ok {
											if loc, ok := fieldLoc(fa.X, fa.Field); ok {
												a.caps[loc] = int(n)
											}
										}
									}
								}
							}
						}
					}
				}
			}
			// closures defined here and called later through variables: follow anonymous functions that are called
			for _, an := range f.AnonFuncs {
				_ = an
			}
		}
	}
	// channel capacities are also needed from constructors not reached from any root body scan above
	for f := range a.allFns {
		if !inModule(f) || f.Blocks == nil {
			continue
		}
		for _, b := range f.Blocks {
			for _, ins := range b.Instrs {
				if x, ok := ins.(*ssa.MakeChan); ok {
					if c, ok := x.Size.(*ssa.Const); ok && c.Value != nil {
						if n, ok := constant.Int64Val(c.Value); ok {
							for _, ref := range *x.Referrers() {
								if st, ok := ref.(*ssa.Store); ok {
									if fa, ok := st.Addr.(*ssa.FieldAddr); ok {
										if loc, ok := fieldLoc(fa.X, fa.Field); ok {
											a.caps[loc] = int(n)
										}
									}
								}
							}
						}
					}
				}
			}
		}
	}

	sort.Slice(facts, func(i, j int) bool {
		x, y := facts[i], facts[j]
		if x.root != y.root {
			return x.root < y.root
		}
		if x.loc != y.loc {
			return x.loc < y.loc
		}
		if x.kind != y.kind {
			return x.kind < y.kind
		}
		return x.fn < y.fn
	})
	var b strings.Builder
	b.WriteString("/- REGENERATED by /verif/tools/extract (go/ssa) from /repo's working tree on every check run. Do not edit.\n")
	b.WriteString("   roots: callees of `go` statements, time.AfterFunc callbacks, nl.Mux handlers, and app.main (start-up/shutdown).\n")
	b.WriteString("   access root fn loc kind: `fn`, reachable from `root` without crossing a `go` statement, performs `kind` on `loc`. -/\n")
	b.WriteString("namespace UpfVerif.Gen.Conc\n\n")
	b.WriteString("structure Access where\n  root : String\n  fn : String\n  typ : String\n  field : String\n  kind : String\nderiving Repr, DecidableEq\n\n")
	b.WriteString("def roots : List String := [")
	for i, n := range names {
		if i > 0 {
			b.WriteString(", ")
		}
		b.WriteString(leanString(n))
	}
	b.WriteString("]\n\n")
	var ck []string
	for k := range a.caps {
		ck = append(ck, k)
	}
	sort.Strings(ck)
	// synchronisation primitives of package sync / sync/atomic used by the module, other than sync.WaitGroup: the
	// ownership-and-channels model of C17 / C18 is complete only if there are none
	otherSync := map[string]bool{}
	for _, p := range pkgs {
		if p.Types == nil || p.TypesInfo == nil || !strings.HasPrefix(p.PkgPath, modPath) || strings.Contains(p.PkgPath, "cmd/verifharness") {
			continue
		}
		for _, obj := range p.TypesInfo.Uses {
			if obj == nil || obj.Pkg() == nil {
				continue
			}
			pp := obj.Pkg().Path()
			if pp != "sync" && pp != "sync/atomic" {
				continue
			}
			name := obj.Name()
			if fn, ok := obj.(*types.Func); ok {
				if sig, ok := fn.Type().(*types.Signature); ok && sig.Recv() != nil {
					rt := sig.Recv().Type()
					if pt, ok := rt.(*types.Pointer); ok {
						rt = pt.Elem()
					}
					if nt, ok := rt.(*types.Named); ok {
						name = nt.Obj().Name() + "." + name
					}
				}
			}
			if name == "WaitGroup" || strings.HasPrefix(name, "WaitGroup.") {
				continue
			}
			otherSync[p.Types.Name()+": "+obj.Pkg().Name()+"."+name] = true
		}
	}
	var osk []string
	for k := range otherSync {
		osk = append(osk, k)
	}
	sort.Strings(osk)
	b.WriteString("/-- uses of package sync / sync/atomic other than sync.WaitGroup (mutexes, pools, atomics, Once, Cond …) -/\n")
	b.WriteString("def otherSync : List String := [")
	for i, k := range osk {
		if i > 0 {
			b.WriteString(", ")
		}
		b.WriteString(leanString(k))
	}
	b.WriteString("]\n\n")
	b.WriteString("def chanCaps : List (String × Nat) := [")
	for i, k := range ck {
		if i > 0 {
			b.WriteString(", ")
		}
		fmt.Fprintf(&b, "(%s, %d)", leanString(k), a.caps[k])
	}
	b.WriteString("]\n\n")
	// split the table in chunks so that no single definition is huge
	const chunk = 120
	nchunks := 0
	for i := 0; i < len(facts); i += chunk {
		j := i + chunk
		if j > len(facts) {
			j = len(facts)
		}
		fmt.Fprintf(&b, "def accesses%d : List Access := [\n", nchunks)
		for k := i; k < j; k++ {
			f := facts[k]
			sep := ","
			if k == j-1 {
				sep = ""
			}
			li := strings.LastIndex(f.loc, ".")
			fmt.Fprintf(&b, "  ⟨%s, %s, %s, %s, %s⟩%s\n", leanString(f.root), leanString(f.fn), leanString(f.loc[:li]), leanString(f.loc[li+1:]), leanString(f.kind), sep)
		}
		b.WriteString("]\n\n")
		nchunks++
	}
	b.WriteString("def accesses : List Access := ")
	if nchunks == 0 {
		b.WriteString("[]")
	}
	for i := 0; i < nchunks; i++ {
		if i > 0 {
			b.WriteString(" ++ ")
		}
		fmt.Fprintf(&b, "accesses%d", i)
	}
	b.WriteString("\n\nend UpfVerif.Gen.Conc\n")
	must(os.WriteFile(path, []byte(b.String()), 0o644))
	return len(facts)
}

func rootTargets(a *concAnalysis, c *ssa.CallCommon) []*ssa.Function {
	var out []*ssa.Function
	if c.IsInvoke() {
		return a.impls[c.Method.Name()]
	}
	if f := c.StaticCallee(); f != nil {
		if inModule(f) {
			out = append(out, f)
		}
		return out
	}
	if mc, ok := c.Value.(*ssa.MakeClosure); ok {
		if fn, ok := mc.Fn.(*ssa.Function); ok {
			out = append(out, fn)
		}
	}
	return out
}

func scanBuiltin(c *ssa.CallCommon, add func(loc, kind string)) {
	b, ok := c.Value.(*ssa.Builtin)
	if !ok {
		return
	}
	switch b.Name() {
	case "close":
		if len(c.Args) == 1 {
			if loc, ok := originField(c.Args[0], 0); ok {
				add(loc, "close")
			}
		}
	case "delete":
		if len(c.Args) >= 1 {
			if loc, ok := originField(c.Args[0], 0); ok {
				add(loc, "wr")
			}
		}
	}
}
