//go:build verif

package perio

import (
	"fmt"
	"sort"
	"strings"
	"time"

	"github.com/free5gc/go-upf/internal/report"
)

// VerifTick injects a ticker expiry for `period` (what the ticker goroutine posts).
func VerifTick(s *Server, period time.Duration) {
	s.evtCh <- Event{eType: TYPE_PERIO_TIMEOUT, period: period}
}

func VerifQueueLen(s *Server) int { return len(s.evtCh) }

// VerifSync returns once every event posted before the call has been handled completely: two events of no type are
// posted (the server's switch ignores them); when the second has been taken off the channel, the first, and with it
// everything before it, has been handled.
func VerifSync(s *Server) {
	for k := 0; k < 2; k++ {
		s.evtCh <- Event{}
		for len(s.evtCh) > 0 {
			time.Sleep(5 * time.Microsecond)
		}
	}
}

// VerifDump: groups as "period:seid/urr+urr,seid/urr;period:..." (call only while the server is idle).
func VerifDump(s *Server) string {
	var gs []string
	for p, g := range s.perioList {
		var ss []string
		for seid, us := range g.urrids {
			var ids []int
			for u := range us {
				ids = append(ids, int(u))
			}
			sort.Ints(ids)
			var is []string
			for _, i := range ids {
				is = append(is, fmt.Sprint(i))
			}
			ss = append(ss, fmt.Sprintf("%x/%s", seid, strings.Join(is, "+")))
		}
		sort.Strings(ss)
		gs = append(gs, fmt.Sprintf("%d:%s", int64(p/time.Second), strings.Join(ss, ",")))
	}
	sort.Strings(gs)
	if len(gs) == 0 {
		return "_"
	}
	return strings.Join(gs, ";")
}

// VerifClear removes every registration (through the server's own DEL events) and waits until it is done.
func VerifClear(s *Server) {
	VerifSync(s)
	type pair struct {
		seid uint64
		urr  uint32
	}
	var ps []pair
	for _, g := range s.perioList {
		for seid, us := range g.urrids {
			for u := range us {
				ps = append(ps, pair{seid, u})
			}
		}
	}
	for _, p := range ps {
		s.DelPeriodReportTimer(p.seid, p.urr)
	}
	VerifSync(s)
}

// VerifQuery runs the query callback the driver registered (Handle)
func VerifQuery(s *Server, m map[uint64][]uint32) (map[uint64][]report.USAReport, error) {
	return s.queryURR(m)
}
