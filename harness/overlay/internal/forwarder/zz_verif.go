//go:build verif

// In-package constructor for the verification harness: a real Gtp5g around a simulated kernel
// (mapped in by -overlay; add-only; compiled only with the `verif` build tag).
package forwarder

import (
	"net"
	"reflect"
	"sync"
	"unsafe"

	"github.com/khirono/go-nl"

	"github.com/free5gc/go-gtp5gnl"
	"github.com/free5gc/go-upf/internal/forwarder/buffnetlink"
	"github.com/free5gc/go-upf/internal/forwarder/perio"
	"github.com/free5gc/go-upf/internal/logger"
	"github.com/free5gc/go-upf/internal/report"
	logger_util "github.com/free5gc/util/logger"
)

// VerifNewGtp5g assembles the driver the way OpenGtp5g does, with the netlink sockets replaced by
// the given connections (simulated kernel) and the GTP-U socket by `udp`.
func VerifNewGtp5g(wg *sync.WaitGroup, mux *nl.Mux, conn, psConn nl.Conner, family int, ifindex int, udp *net.UDPConn) (*Gtp5g, error) {
	g := &Gtp5g{
		log: logger.FwderLog.WithField(logger_util.FieldCategory, "Gtp5g"),
		mux: mux,
	}
	g.client = &gtp5gnl.Client{Client: nl.NewClient(conn, mux), ID: family}
	// the periodic server's own netlink client, if the driver has one (set by name, so that the harness still builds —
	// and can then look for a failing input — when a change does away with it)
	verifSet(g, "psClient", &gtp5gnl.Client{Client: nl.NewClient(psConn, mux), ID: family})
	g.link = &Gtp5gLink{mux: mux, link: &gtp5gnl.Link{Index: ifindex, Name: "upfgtp"}, conn: udp, log: g.log}
	g.bsnl = buffnetlink.VerifNewServer()
	ps, err := perio.OpenServer(wg)
	if err != nil {
		return nil, err
	}
	g.ps = ps
	return g, nil
}

func VerifCheckVersion(g *Gtp5g) error { return g.checkVersion() }

func VerifBuffServer(g *Gtp5g) *buffnetlink.Server { return g.bsnl }
func VerifPerio(g *Gtp5g) *perio.Server            { return g.ps }

// VerifClosePerio stops the periodic server only (the netlink side is the harness's own).
func VerifClosePerio(g *Gtp5g) { g.ps.Close() }

func VerifQueryMulti(g *Gtp5g, m map[uint64][]uint32) (map[uint64][]report.USAReport, error) {
	// through the callback the driver registered with the periodic server (whatever it is called)
	return perio.VerifQuery(g.ps, m)
}

// VerifNewFlowDesc returns the packed flow-description attributes (as they go into the netlink request)
// newFlowDesc builds for the rule string `s`.
func VerifNewFlowDesc(s string, swap bool) ([]byte, error) {
	g := &Gtp5g{}
	attrs, err := g.newFlowDesc(s, swap)
	if err != nil {
		return nil, err
	}
	b := make([]byte, attrs.Len())
	if _, err := attrs.Encode(b); err != nil {
		return nil, err
	}
	return b, nil
}

// verifSet sets the unexported field `name` of *obj, if there is such a field of a fitting type
func verifSet(obj interface{}, name string, val interface{}) bool {
	f := reflect.ValueOf(obj).Elem().FieldByName(name)
	if !f.IsValid() || !reflect.TypeOf(val).AssignableTo(f.Type()) {
		return false
	}
	reflect.NewAt(f.Type(), unsafe.Pointer(f.UnsafeAddr())).Elem().Set(reflect.ValueOf(val))
	return true
}
