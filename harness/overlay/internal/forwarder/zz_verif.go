//go:build verif

// In-package constructor for the verification harness: a real Gtp5g around a simulated kernel
// (mapped in by -overlay; add-only; compiled only with the `verif` build tag).
package forwarder

import (
	"net"
	"sync"

	"github.com/khirono/go-nl"

	"github.com/free5gc/go-gtp5gnl"
	"github.com/free5gc/go-upf/internal/forwarder/buffnetlink"
	"github.com/free5gc/go-upf/internal/forwarder/perio"
	"github.com/free5gc/go-upf/internal/logger"
	"github.com/free5gc/go-upf/internal/report"
	logger_util "github.com/free5gc/util/logger"
)

// VerifNewGtp5g assembles the driver the way OpenGtp5g does, with the netlink sockets replaced by
// the given connections (simulated kernel) and the GTP-U socket by `udp`.
func VerifNewGtp5g(wg *sync.WaitGroup, mux *nl.Mux, conn, psConn nl.Conner, family int, ifindex int, udp *net.UDPConn) (*Gtp5g, error) {
	g := &Gtp5g{
		log: logger.FwderLog.WithField(logger_util.FieldCategory, "Gtp5g"),
		mux: mux,
	}
	g.client = &gtp5gnl.Client{Client: nl.NewClient(conn, mux), ID: family}
	g.psClient = &gtp5gnl.Client{Client: nl.NewClient(psConn, mux), ID: family}
	g.link = &Gtp5gLink{mux: mux, link: &gtp5gnl.Link{Index: ifindex, Name: "upfgtp"}, conn: udp, log: g.log}
	g.bsnl = buffnetlink.VerifNewServer()
	ps, err := perio.OpenServer(wg)
	if err != nil {
		return nil, err
	}
	g.ps = ps
	return g, nil
}

func VerifCheckVersion(g *Gtp5g) error { return g.checkVersion() }

func VerifBuffServer(g *Gtp5g) *buffnetlink.Server { return g.bsnl }
func VerifPerio(g *Gtp5g) *perio.Server          { return g.ps }

// VerifClosePerio stops the periodic server only (the netlink side is the harness's own).
func VerifClosePerio(g *Gtp5g) { g.ps.Close() }

func VerifQueryMulti(g *Gtp5g, m map[uint64][]uint32) (map[uint64][]report.USAReport, error) {
	return g.psQueryURR(m)
}

// VerifNewFlowDesc returns the packed flow-description attributes (as they go into the netlink request)
// newFlowDesc builds for the rule string `s`.
func VerifNewFlowDesc(s string, swap bool) ([]byte, error) {
	g := &Gtp5g{}
	attrs, err := g.newFlowDesc(s, swap)
	if err != nil {
		return nil, err
	}
	b := make([]byte, attrs.Len())
	if _, err := attrs.Encode(b); err != nil {
		return nil, err
	}
	return b, nil
}
