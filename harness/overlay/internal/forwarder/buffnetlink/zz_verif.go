//go:build verif

package buffnetlink

// VerifNewServer: a listener without sockets; ServeMsg is called directly by the harness.
func VerifNewServer() *Server { return &Server{} }
