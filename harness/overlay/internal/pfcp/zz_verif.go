//go:build verif

// In-package accessors for the verification harness (mapped in by -overlay; add-only;
// compiled only with the `verif` build tag).
package pfcp

import (
	"fmt"
	"net"
	"reflect"
	"sort"
	"strings"
	"time"

	"github.com/wmnsk/go-pfcp/message"

	"github.com/free5gc/go-upf/pkg/factory"
)

func VerifSrLen(s *PfcpServer) int          { return len(s.srCh) }
func VerifToLen(s *PfcpServer) int          { return len(s.trToCh) }
func VerifRcvLen(s *PfcpServer) int         { return len(s.rcvCh) }
func VerifSetTxSeq(s *PfcpServer, v uint32) { s.txSeq = v }
func VerifTxSeq(s *PfcpServer) uint32       { return s.txSeq }

// VerifDump: canonical dump of the control-plane tables (call only while the loop is idle).
//
//	free=<ids in free-list order> slots=<n> sess=<S|S|...> nodes=<id>addr#n,...> rx=<keys> tx=<key/count,...> txseq=<hex>
//	S = <up>;<cp>;<node id>@<node addr>;P=<id/u+u,...>;F=<ids>;Q=<ids>;U=<id/seqn/ref/removed/durat/volum/mnop,...>;B=<ids>;K=<pdr/len,...>
func VerifDump(s *PfcpServer) string {
	dash := func(xs []string) string {
		if len(xs) == 0 {
			return "_"
		}
		return strings.Join(xs, ",")
	}
	b2i := func(b bool) int {
		if b {
			return 1
		}
		return 0
	}
	var free []string
	for _, f := range s.lnode.free {
		free = append(free, fmt.Sprintf("%x", f))
	}
	var sess []string
	for _, x := range s.lnode.sess {
		if x == nil {
			continue
		}
		var pd, fa, qe, ur, ba, qs []string
		var pk []int
		for k := range x.PDRIDs {
			pk = append(pk, int(k))
		}
		sort.Ints(pk)
		for _, k := range pk {
			var us []int
			for u := range x.PDRIDs[uint16(k)].RelatedURRIDs {
				us = append(us, int(u))
			}
			sort.Ints(us)
			var uss []string
			for _, u := range us {
				uss = append(uss, fmt.Sprint(u))
			}
			pd = append(pd, fmt.Sprintf("%d/%s", k, strings.Join(uss, "+")))
		}
		var ks []int
		for k := range x.FARIDs {
			ks = append(ks, int(k))
		}
		sort.Ints(ks)
		for _, k := range ks {
			fa = append(fa, fmt.Sprint(k))
		}
		ks = nil
		for k := range x.QERIDs {
			ks = append(ks, int(k))
		}
		sort.Ints(ks)
		for _, k := range ks {
			qe = append(qe, fmt.Sprint(k))
		}
		ks = nil
		for k := range x.URRIDs {
			ks = append(ks, int(k))
		}
		sort.Ints(ks)
		for _, k := range ks {
			u := x.URRIDs[uint32(k)]
			ur = append(ur, fmt.Sprintf("%d/%d/%d/%d/%d/%d/%d", k, u.SEQN, u.refPdrNum, b2i(verifRemoved(u)), b2i(u.DURAT), b2i(u.VOLUM), b2i(u.MNOP)))
		}
		ks = nil
		for k := range x.BARIDs {
			ks = append(ks, int(k))
		}
		sort.Ints(ks)
		for _, k := range ks {
			ba = append(ba, fmt.Sprint(k))
		}
		ks = nil
		for k := range x.q {
			ks = append(ks, int(k))
		}
		sort.Ints(ks)
		for _, k := range ks {
			qs = append(qs, fmt.Sprintf("%d/%d", k, verifLen(x.q[uint16(k)])))
		}
		nid := "?"
		if x.rnode != nil {
			nid = x.rnode.ID + "@" + x.rnode.addr.String()
		}
		sess = append(sess, fmt.Sprintf("%x;%x;%s;P=%s;F=%s;Q=%s;U=%s;B=%s;K=%s", x.LocalID, x.RemoteID, nid,
			dash(pd), dash(fa), dash(qe), dash(ur), dash(ba), dash(qs)))
	}
	var rx, tx, rxu []string
	for k, t := range s.rxTrans {
		rx = append(rx, k)
		// no retention timer running: nothing will ever release the entry
		if t == nil || t.timer == nil {
			rxu = append(rxu, k)
		}
	}
	sort.Strings(rxu)
	for k, t := range s.txTrans {
		armed := "a" // a retransmission timer is running: the request will be retried or abandoned
		if t.timer == nil {
			armed = "-"
		}
		tx = append(tx, fmt.Sprintf("%s/%d/%s", k, t.retransCount, armed))
	}
	sort.Strings(rx)
	sort.Strings(tx)
	var nodes []string
	for k, n := range s.rnodes {
		var ss []int
		for x := range n.sess {
			ss = append(ss, int(x))
		}
		sort.Ints(ss)
		var sss []string
		for _, x := range ss {
			sss = append(sss, fmt.Sprintf("%x", x))
		}
		nodes = append(nodes, fmt.Sprintf("%s>%s>%s#%s", k, n.ID, n.addr, strings.Join(sss, "+")))
	}
	sort.Strings(nodes)
	sj := "_"
	if len(sess) > 0 {
		sj = strings.Join(sess, "|")
	}
	return fmt.Sprintf("free=%s slots=%d sess=%s nodes=%s rx=%s tx=%s txseq=%x rxu=%s", dash(free), len(s.lnode.sess), sj, dash(nodes), dash(rx), dash(tx), s.txSeq, dash(rxu))
}

// VerifClassify: how the event loop classifies a datagram (message.Parse, isRequest, isResponse).
func VerifClassify(b []byte) string {
	if len(b) == 0 {
		return "stop"
	}
	msg, err := message.Parse(b)
	if err != nil {
		return "undecodable"
	}
	if isRequest(msg) {
		return fmt.Sprintf("request:%d:%d", msg.MessageType(), msg.Sequence())
	}
	if isResponse(msg) {
		return fmt.Sprintf("response:%d:%d", msg.MessageType(), msg.Sequence())
	}
	return "neither"
}

// VerifRxRetention: the retention window a receive transaction is created with, for a given configuration.
func VerifRxRetention(t time.Duration, maxRetrans uint8) (d time.Duration) {
	cfg := &factory.Config{Pfcp: &factory.Pfcp{Addr: "127.0.0.1", NodeID: "127.0.0.1", RetransTimeout: t, MaxRetrans: maxRetrans}}
	s := NewPfcpServer(cfg, nil)
	rx := NewRxTransaction(s, &net.UDPAddr{IP: net.IPv4(127, 0, 0, 1), Port: 8805}, 1)
	if rx.timer != nil {
		rx.timer.Stop()
	}
	return rx.timeout
}

// direct access to the session table for the C04 table stream
type VerifTable struct{ n LocalNode }

func (t *VerifTable) New(rSeid uint64) uint64 { return t.n.NewSess(rSeid, 1).LocalID }
func (t *VerifTable) Lookup(x uint64) (res string) {
	defer func() {
		if p := recover(); p != nil {
			res = "panic"
		}
	}()
	s, err := t.n.Sess(x)
	if err != nil {
		return "none"
	}
	return fmt.Sprintf("%x/%x", s.LocalID, s.RemoteID)
}
func (t *VerifTable) Delete(x uint64) (res string) {
	defer func() {
		if p := recover(); p != nil {
			res = "panic"
		}
	}()
	// DeleteSess logs through the session's logger and closes it through its node: give it both
	if x != 0 && int(x)-1 < len(t.n.sess) && int(x)-1 >= 0 && t.n.sess[int(x)-1] != nil {
		sess := t.n.sess[int(x)-1]
		if sess.log == nil {
			cfg := &factory.Config{Pfcp: &factory.Pfcp{Addr: "127.0.0.1", NodeID: "127.0.0.1"}}
			sess.log = NewPfcpServer(cfg, nil).log
		}
	}
	_, err := t.n.DeleteSess(x)
	if err != nil {
		return "none"
	}
	return "ok"
}
func (t *VerifTable) Dump() string {
	var free []string
	for _, f := range t.n.free {
		free = append(free, fmt.Sprintf("%x", f))
	}
	if len(free) == 0 {
		free = []string{"_"}
	}
	return fmt.Sprintf("slots=%d free=%s", len(t.n.sess), strings.Join(free, ","))
}

// VerifFireTxTimer puts the transmit transaction `id` into the state "its retransmission timer has fired, the
// timeout event has not been delivered yet": the timer is replaced by one that has already run (and posts nothing —
// the harness delivers the timeout event itself).  To be called between events only (the loop is idle).
func VerifFireTxTimer(s *PfcpServer, id string) bool {
	tx, ok := s.txTrans[id]
	if !ok || tx.timer == nil {
		return false
	}
	tx.timer.Stop()
	ran := make(chan struct{})
	t := time.AfterFunc(time.Nanosecond, func() { close(ran) })
	<-ran
	tx.timer = t
	return true
}

// verifLen: number of packets held by a PDR's queue, whatever represents it (a channel today; anything with Len())
func verifLen(q interface{}) int {
	v := reflect.ValueOf(q)
	switch v.Kind() {
	case reflect.Chan, reflect.Slice, reflect.Map:
		return v.Len()
	}
	if m := v.MethodByName("Len"); m.IsValid() && m.Type().NumIn() == 0 && m.Type().NumOut() == 1 {
		return int(m.Call(nil)[0].Int())
	}
	return -1
}

// verifRemoved: the removed mark of a URR, if the structure carries one (read by name, so that the dump does not depend on
// how the mark is represented)
func verifRemoved(u *URRInfo) bool {
	if u == nil {
		return false
	}
	f := reflect.ValueOf(u).Elem().FieldByName("removed")
	if f.IsValid() && f.Kind() == reflect.Bool {
		return f.Bool()
	}
	return false
}
