//go:build verif

package main

import (
	"fmt"
	"net"
	"os"
	"strings"
	"syscall"
	"time"

	"github.com/wmnsk/go-pfcp/ie"
	"github.com/wmnsk/go-pfcp/message"

	"github.com/free5gc/go-upf/internal/pfcp"
	"github.com/free5gc/go-upf/internal/report"
)

// S-tmoburst (C09): REAL retransmission timers.  Many Session Report Requests are outstanding and unanswered; the event loop
// is held inside a data-plane call for several timeout periods, so that all their timers expire while nothing drains the
// timeout queue (64).  Afterwards every request must still have been transmitted exactly 1 + N times and then abandoned.
//
//	T tmoburst n=<requests> maxretrans=<N> rto=<ms> stall=<ms> = tx=<entries left> sent=<datagrams> distinct=<sequence numbers>
func init() { register("tmoburst", runTmoBurst) }

func runTmoBurst(c *ctx) {
	netn := 4
	for _, a := range c.args {
		if strings.HasPrefix(a, "net=") {
			fmt.Sscan(a[4:], &netn)
		}
		if strings.Contains(a, "/") {
			var sh, n int
			fmt.Sscanf(a, "%d/%d", &sh, &n)
			netn += sh
		}
	}
	type sc struct {
		n, maxRetrans, rtoMs, stallMs int
	}
	scen := []sc{{100, 1, 200, 600}, {150, 2, 150, 500}}
	if c.thorough() {
		scen = append(scen, sc{40, 1, 200, 600}, sc{64, 1, 200, 600}, sc{65, 1, 200, 600}, sc{300, 1, 250, 800}, sc{200, 3, 150, 700})
	}
	for _, x := range scen {
		e := newCtlEnv(c, netn, []int{1})
		e.startServerT(uint8(x.maxRetrans), 0, 1, 0, time.Duration(x.rtoMs)*time.Millisecond)
		smf := e.peers[1]
		// the simulated SMF must not be the one that loses datagrams: a large receive buffer, and the socket is read all along
		if rc, err := smf.SyscallConn(); err == nil {
			rc.Control(func(fd uintptr) {
				if syscall.SetsockoptInt(int(fd), syscall.SOL_SOCKET, 33 /* SO_RCVBUFFORCE */, 32<<20) != nil {
					syscall.SetsockoptInt(int(fd), syscall.SOL_SOCKET, syscall.SO_RCVBUF, 32<<20)
				}
			})
		}
		seq := uint32(0)
		rpc := func(m message.Message) message.Message {
			b := make([]byte, m.MarshalLen())
			if err := m.MarshalTo(b); err != nil {
				fmt.Fprintln(os.Stderr, "harness: marshal:", err)
				die(3)
			}
			smf.WriteToUDP(b, e.srvAddr)
			buf := make([]byte, 65536)
			smf.SetReadDeadline(time.Now().Add(5 * time.Second))
			for {
				n, _, err := smf.ReadFromUDP(buf)
				if err != nil {
					fmt.Fprintln(os.Stderr, "harness: no response:", err)
					die(3)
				}
				r, err := message.Parse(buf[:n])
				if err == nil && r.Sequence() == m.Sequence() && r.MessageType() != message.MsgTypeSessionReportRequest {
					smf.SetReadDeadline(time.Time{})
					return r
				}
			}
		}
		seq++
		rpc(message.NewAssociationSetupRequest(seq, ie.NewNodeID(e.ip(1), "", ""), ie.NewRecoveryTimeStamp(time.Unix(1700000000, 0))))
		var ups []uint64
		for i := 0; i < x.n; i++ {
			seq++
			r := rpc(message.NewSessionEstablishmentRequest(0, 0, 0, seq, 0, ie.NewNodeID(e.ip(1), "", ""),
				ie.NewFSEID(uint64(0x7000+i), net.ParseIP(e.ip(1)), nil),
				ie.NewCreateFAR(ie.NewFARID(1), ie.NewApplyAction(0x0c))))
			er, ok := r.(*message.SessionEstablishmentResponse)
			if !ok || er.UPFSEID == nil {
				fmt.Fprintln(os.Stderr, "harness: establishment refused")
				die(3)
			}
			fs, _ := er.UPFSEID.FSEID()
			ups = append(ups, fs.SEID)
		}
		// one downlink-data notification per session: n Session Report Requests, none of them answered
		counts := map[uint32]int{}
		total := 0
		collect := func() {
			buf := make([]byte, 65536)
			for {
				n, ok := recvNow(smf, buf)
				if !ok {
					return
				}
				if m, err := message.Parse(buf[:n]); err == nil && m.MessageType() == message.MsgTypeSessionReportRequest {
					counts[m.Sequence()]++
					total++
				}
			}
		}
		for _, up := range ups {
			e.srv.NotifySessReport(report.SessReport{SEID: up, Reports: []report.Report{report.DLDReport{PDRID: 1, Action: report.APPLY_ACT_BUFF | report.APPLY_ACT_NOCP}}})
			collect()
		}
		// hold the loop inside a data-plane call while the timers expire
		e.drv.mu.Lock()
		e.drv.stall = time.Duration(x.stallMs) * time.Millisecond
		e.drv.mu.Unlock()
		seq++
		hold := message.NewSessionEstablishmentRequest(0, 0, 0, seq, 0, ie.NewNodeID(e.ip(1), "", ""),
			ie.NewFSEID(uint64(0x7fff), net.ParseIP(e.ip(1)), nil), ie.NewCreateFAR(ie.NewFARID(1), ie.NewApplyAction(0x02)))
		hb := make([]byte, hold.MarshalLen())
		hold.MarshalTo(hb)
		smf.WriteToUDP(hb, e.srvAddr)
		// everything that is going to happen has happened after the stall plus (N + 1) timeouts; some slack on top
		end := time.Now().Add(time.Duration(x.stallMs+(x.maxRetrans+2)*x.rtoMs+1500) * time.Millisecond)
		for time.Now().Before(end) {
			collect()
			time.Sleep(500 * time.Microsecond)
		}
		e.fence(2 * time.Second)
		collect()
		left := 0
		for _, f := range strings.Fields(pfcp.VerifDump(e.srv)) {
			if strings.HasPrefix(f, "tx=") && f != "tx=_" {
				left = len(strings.Split(f[3:], ","))
			}
		}
		c.count(fmt.Sprintf("tmoburst.n=%d", x.n))
		c.emit("T tmoburst n=%d maxretrans=%d rto=%d stall=%d = tx=%d sent=%d distinct=%d", x.n, x.maxRetrans, x.rtoMs, x.stallMs, left, total, len(counts))
		e.stopServer()
		for _, conn := range e.peers {
			conn.Close()
		}
		netn++
	}
}
