//go:build verif

package main

import (
	"encoding/hex"
	"fmt"
	"io"
	"net"
	"os"
	"runtime"
	"sort"
	"strconv"
	"strings"
	"sync"
	"sync/atomic"
	"time"

	gopfcp "github.com/wmnsk/go-pfcp"
	"github.com/wmnsk/go-pfcp/ie"
	"github.com/wmnsk/go-pfcp/message"

	"github.com/free5gc/go-upf/internal/logger"
	"github.com/free5gc/go-upf/internal/pfcp"
	"github.com/free5gc/go-upf/internal/report"
	"github.com/free5gc/go-upf/pkg/factory"
)

// ---------------------------------------------------------------------------
// reference data plane (Spec.DataPlane): table keyed (seid, kind, id); create fails on a
// duplicate, update/remove/query of an absent rule fail; create/update/query may also fail
// by the keyed fault oracle; remove never fails by fault.  Every call is logged.
// ---------------------------------------------------------------------------

type dpKey struct {
	seid uint64
	kind string
	id   uint64
}

type mockDriver struct {
	mu       sync.Mutex
	tab      map[dpKey]bool
	log      []string
	occ      map[string]int
	seed     uint64
	faultPct int
	handler  report.Handler
	stall    time.Duration // latency of the next call (set by a scenario, consumed once)
}

func newMockDriver(seed uint64, faultPct int) *mockDriver {
	return &mockDriver{tab: map[dpKey]bool{}, occ: map[string]int{}, seed: seed, faultPct: faultPct}
}

func mix(h uint64, v uint64) uint64 {
	h ^= v + 0x9e3779b97f4a7c15 + (h << 6) + (h >> 2)
	h *= 0xff51afd7ed558ccd
	h ^= h >> 33
	return h
}

func (d *mockDriver) keyed(op, kind string, seid, id uint64) uint64 {
	k := fmt.Sprintf("%s/%s/%x/%d", op, kind, seid, id)
	n := d.occ[k]
	d.occ[k] = n + 1
	h := d.seed
	for _, c := range []byte(k) {
		h = mix(h, uint64(c))
	}
	return mix(h, uint64(n))
}

func (d *mockDriver) genReports(h uint64, urr uint32) []report.USAReport {
	n := 1
	switch h % 10 {
	case 0:
		n = 0
	case 1:
		n = 2
	}
	var out []report.USAReport
	for i := 0; i < n; i++ {
		h = mix(h, uint64(i)+1)
		r := &rng{s: h | 1}
		u := report.USAReport{URRID: urr}
		if r.intn(8) == 0 {
			u.URRID = urr + 1 // a report for a URR the session may not know
		}
		switch r.intn(6) {
		case 0:
			u.USARTrigger.Flags = report.USAR_TRIG_START
		case 1:
			u.USARTrigger.Flags = report.USAR_TRIG_VOLTH
		case 2:
			u.USARTrigger.Flags = uint32(r.bits(22))
		}
		u.VolumMeasure = report.VolumeMeasure{TotalVolume: r.bits(64), UplinkVolume: r.bits(64), DownlinkVolume: r.bits(64),
			TotalPktNum: r.bits(64), UplinkPktNum: r.bits(64), DownlinkPktNum: r.bits(64)}
		st := 1000000000 + int64(r.intn(1000000000))
		u.StartTime = time.Unix(st, 0)
		u.EndTime = time.Unix(st+int64(r.intn(100000)), 0)
		u.DuratMeasure.DurationValue = uint64(r.intn(1<<31)) * 1000000000
		out = append(out, u)
	}
	return out
}

func fmtReports(rs []report.USAReport) string {
	if len(rs) == 0 {
		return "_"
	}
	var out []string
	for _, u := range rs {
		out = append(out, fmt.Sprintf("u:%d:%x:%d+%d+%d+%d+%d+%d+%d+%d+%d", u.URRID, u.USARTrigger.Flags,
			u.VolumMeasure.TotalVolume, u.VolumMeasure.UplinkVolume, u.VolumMeasure.DownlinkVolume,
			u.VolumMeasure.TotalPktNum, u.VolumMeasure.UplinkPktNum, u.VolumMeasure.DownlinkPktNum,
			u.StartTime.Unix(), u.EndTime.Unix(), u.DuratMeasure.DurationValue/1000000000))
	}
	return strings.Join(out, ";")
}

func (d *mockDriver) call(op, kind string, seid, id uint64, withReports bool) ([]report.USAReport, error) {
	d.mu.Lock()
	defer d.mu.Unlock()
	if d.stall > 0 {
		// data-plane call latency, once: the event loop is held inside this call
		st := d.stall
		d.stall = 0
		time.Sleep(st)
	}
	h := d.keyed(op, kind, seid, id)
	k := dpKey{seid, kind, id}
	ok := true
	switch op {
	case "create":
		if d.tab[k] || int(h%100) < d.faultPct {
			ok = false
		} else {
			d.tab[k] = true
		}
	case "update", "query":
		if !d.tab[k] || int(h%100) < d.faultPct {
			ok = false
		}
	case "remove":
		if !d.tab[k] {
			ok = false
		} else {
			delete(d.tab, k)
		}
	}
	var rs []report.USAReport
	if ok && withReports {
		rs = d.genReports(mix(h, 77), uint32(id))
	}
	res := "err"
	if ok {
		res = "ok"
	}
	d.log = append(d.log, fmt.Sprintf("O dp %x %s %s %d %s %s", seid, op, kind, id, res, fmtReports(rs)))
	if !ok {
		return nil, fmt.Errorf("mock: %s %s failed", op, kind)
	}
	return rs, nil
}

func (d *mockDriver) dump() string {
	d.mu.Lock()
	defer d.mu.Unlock()
	var ks []string
	for k := range d.tab {
		ks = append(ks, fmt.Sprintf("%x/%s/%d", k.seid, k.kind, k.id))
	}
	sort.Strings(ks)
	if len(ks) == 0 {
		return "_"
	}
	return strings.Join(ks, ",")
}

func (d *mockDriver) take() []string {
	d.mu.Lock()
	defer d.mu.Unlock()
	l := d.log
	d.log = nil
	return l
}

// ids are taken from the IE the way gtp5g.go does (value of the id child, 0 if there is none)
func firstChild(i *ie.IE, t uint16) *ie.IE {
	for _, x := range i.ChildIEs {
		if x.Type == t {
			return x
		}
	}
	return nil
}
func idOf(i *ie.IE, t uint16) uint64 {
	var v uint64
	for _, x := range i.ChildIEs { // last one wins, as in the gtp5g loops
		if x.Type != t {
			continue
		}
		switch t {
		case ie.PDRID:
			u, _ := x.PDRID()
			v = uint64(u)
		case ie.FARID:
			u, _ := x.FARID()
			v = uint64(u)
		case ie.QERID:
			u, _ := x.QERID()
			v = uint64(u)
		case ie.URRID:
			u, _ := x.URRID()
			v = uint64(u)
		case ie.BARID:
			u, _ := x.BARID()
			v = uint64(u)
		}
	}
	return v
}

func (d *mockDriver) Close() {}
func (d *mockDriver) CreatePDR(s uint64, i *ie.IE) error {
	_, err := d.call("create", "pdr", s, idOf(i, ie.PDRID), false)
	return err
}
func (d *mockDriver) UpdatePDR(s uint64, i *ie.IE) error {
	_, err := d.call("update", "pdr", s, idOf(i, ie.PDRID), false)
	return err
}
func (d *mockDriver) RemovePDR(s uint64, i *ie.IE) error {
	_, err := d.call("remove", "pdr", s, idOf(i, ie.PDRID), false)
	return err
}
func (d *mockDriver) CreateFAR(s uint64, i *ie.IE) error {
	_, err := d.call("create", "far", s, idOf(i, ie.FARID), false)
	return err
}
func (d *mockDriver) UpdateFAR(s uint64, i *ie.IE) error {
	_, err := d.call("update", "far", s, idOf(i, ie.FARID), false)
	return err
}
func (d *mockDriver) RemoveFAR(s uint64, i *ie.IE) error {
	_, err := d.call("remove", "far", s, idOf(i, ie.FARID), false)
	return err
}
func (d *mockDriver) CreateQER(s uint64, i *ie.IE) error {
	_, err := d.call("create", "qer", s, idOf(i, ie.QERID), false)
	return err
}
func (d *mockDriver) UpdateQER(s uint64, i *ie.IE) error {
	_, err := d.call("update", "qer", s, idOf(i, ie.QERID), false)
	return err
}
func (d *mockDriver) RemoveQER(s uint64, i *ie.IE) error {
	_, err := d.call("remove", "qer", s, idOf(i, ie.QERID), false)
	return err
}
func (d *mockDriver) CreateURR(s uint64, i *ie.IE) error {
	_, err := d.call("create", "urr", s, idOf(i, ie.URRID), false)
	return err
}
func (d *mockDriver) UpdateURR(s uint64, i *ie.IE) ([]report.USAReport, error) {
	return d.call("update", "urr", s, idOf(i, ie.URRID), true)
}
func (d *mockDriver) RemoveURR(s uint64, i *ie.IE) ([]report.USAReport, error) {
	return d.call("remove", "urr", s, idOf(i, ie.URRID), true)
}
func (d *mockDriver) QueryURR(s uint64, id uint32) ([]report.USAReport, error) {
	return d.call("query", "urr", s, uint64(id), true)
}
func (d *mockDriver) CreateBAR(s uint64, i *ie.IE) error {
	_, err := d.call("create", "bar", s, idOf(i, ie.BARID), false)
	return err
}
func (d *mockDriver) UpdateBAR(s uint64, i *ie.IE) error {
	_, err := d.call("update", "bar", s, idOf(i, ie.BARID), false)
	return err
}
func (d *mockDriver) RemoveBAR(s uint64, i *ie.IE) error {
	_, err := d.call("remove", "bar", s, idOf(i, ie.BARID), false)
	return err
}
func (d *mockDriver) HandleReport(h report.Handler) { d.handler = h }

// ---------------------------------------------------------------------------
// server + simulated SMFs on loopback
// ---------------------------------------------------------------------------

type ctlEnv struct {
	c        *ctx
	net      int
	peers    map[int]*net.UDPConn
	srvAddr  *net.UDPAddr
	srv      *pfcp.PfcpServer
	wg       *sync.WaitGroup
	drv      *mockDriver
	fatal    int32
	fenceSeq uint32
	tsFirst  string
	dead     bool
	quiet    bool // execute events without writing E/O/D lines (valid prefixes of the malformed stream)
}

type quietCtx struct{ *ctx }

const fencePeer = 100

func (e *ctlEnv) ip(k int) string { return fmt.Sprintf("127.0.%d.%d", e.net, k) }

func newCtlEnv(c *ctx, netn int, peerIDs []int) *ctlEnv {
	// one CPU per harness process: keeps loopback delivery in send order (see pin.go)
	pinToCPU(netn % runtime.NumCPU())
	e := &ctlEnv{c: c, net: netn, peers: map[int]*net.UDPConn{}}
	gopfcp.DisableLogging()
	logger.Log.SetOutput(io.Discard)
	logger.Log.ExitFunc = func(int) { atomic.StoreInt32(&e.fatal, 1) }
	for _, k := range append(peerIDs, fencePeer) {
		a := &net.UDPAddr{IP: net.ParseIP(e.ip(k)), Port: 8805}
		if k > 10 && k < fencePeer {
			// peer 10+n: a second PFCP entity on peer n's host — same IP address, another UDP port
			a = &net.UDPAddr{IP: net.ParseIP(e.ip(k - 10)), Port: 8806}
		}
		conn, err := net.ListenUDP("udp4", a)
		if err != nil {
			fmt.Fprintln(os.Stderr, "harness: cannot bind", a, err)
			die(3)
		}
		e.peers[k] = conn
	}
	e.srvAddr = &net.UDPAddr{IP: net.ParseIP(e.ip(8)), Port: 8805}
	return e
}

func (e *ctlEnv) startServer(maxRetrans uint8, txSeq uint32, seed uint64, faultPct int) {
	e.startServerT(maxRetrans, txSeq, seed, faultPct, time.Hour)
}

// startServerT: with the retransmission timeout given (the lock-step stream uses one hour: timers are injected events there)
func (e *ctlEnv) startServerT(maxRetrans uint8, txSeq uint32, seed uint64, faultPct int, rto time.Duration) {
	cfg := &factory.Config{Pfcp: &factory.Pfcp{Addr: e.ip(8), NodeID: e.ip(8), RetransTimeout: rto, MaxRetrans: maxRetrans}}
	e.drv = newMockDriver(seed, faultPct)
	e.srv = pfcp.NewPfcpServer(cfg, e.drv)
	e.drv.HandleReport(e.srv)
	pfcp.VerifSetTxSeq(e.srv, txSeq)
	e.wg = &sync.WaitGroup{}
	atomic.StoreInt32(&e.fatal, 0)
	e.dead = false
	e.tsFirst = ""
	e.srv.Start(e.wg)
	// wait until the socket answers
	for i := 0; i < 200; i++ {
		if e.fence(50 * time.Millisecond) {
			e.drain()
			return
		}
	}
	fmt.Fprintln(os.Stderr, "harness: server did not come up")
	die(3)
}

func (e *ctlEnv) stopServer() {
	e.srv.Stop()
	done := make(chan struct{})
	go func() { e.wg.Wait(); close(done) }()
	select {
	case <-done:
	case <-time.After(5 * time.Second):
		fmt.Fprintln(os.Stderr, "harness: server did not stop")
		die(3)
	}
	e.drain()
}

// fence: a Heartbeat from the fence peer; its response proves that everything queued earlier on the
// server socket has been processed (the loop is sequential, loopback keeps per-socket order).
func (e *ctlEnv) fence(timeout time.Duration) bool {
	e.fenceSeq = (e.fenceSeq + 1) & 0xffffff
	if e.fenceSeq == 0 {
		e.fenceSeq = 1
	}
	req := message.NewHeartbeatRequest(e.fenceSeq, ie.NewRecoveryTimeStamp(time.Unix(1700000000, 0)), nil)
	b, _ := req.Marshal()
	conn := e.peers[fencePeer]
	conn.WriteToUDP(b, e.srvAddr)
	buf := make([]byte, 2048)
	deadline := time.Now().Add(timeout)
	for {
		conn.SetReadDeadline(deadline)
		n, _, err := conn.ReadFromUDP(buf)
		if err != nil {
			return false
		}
		m, err := message.Parse(buf[:n])
		if err == nil && m.Sequence() == e.fenceSeq {
			// retire the fence's receive transaction so that the tables only hold the case's own entries
			e.srv.NotifyTransTimeout(pfcp.RX, fmt.Sprintf("%s-%d", conn.LocalAddr(), e.fenceSeq))
			for pfcp.VerifToLen(e.srv) > 0 {
				time.Sleep(20 * time.Microsecond)
			}
			// an empty queue only says the loop has TAKEN the item; a second, no-op timeout (unknown key:
			// a look-up and a log line) behind it is taken only after the first has been handled completely
			e.srv.NotifyTransTimeout(pfcp.RX, "verif-barrier-0")
			for pfcp.VerifToLen(e.srv) > 0 {
				time.Sleep(20 * time.Microsecond)
			}
			return true
		}
	}
}

// drain: everything the peers have received since the last call (non-blocking)
func (e *ctlEnv) drain() map[int][][]byte {
	out := map[int][][]byte{}
	buf := make([]byte, 65536)
	for k, conn := range e.peers {
		if k == fencePeer {
			continue
		}
		for {
			n, ok := recvNow(conn, buf)
			if !ok {
				break
			}
			out[k] = append(out[k], append([]byte(nil), buf[:n]...))
		}
	}
	return out
}

// ---------------------------------------------------------------------------
// building datagrams from abstract events
// ---------------------------------------------------------------------------

func (e *ctlEnv) nodeIE(node string) *ie.IE {
	switch {
	case strings.HasPrefix(node, "4:p"):
		k, _ := strconv.Atoi(node[3:])
		if k == 7 {
			// a node whose address is not reachable from the UPF's (loopback) socket: sendto fails for it
			return ie.NewNodeID(unreachableIP, "", "")
		}
		return ie.NewNodeID(e.ip(k), "", "")
	case strings.HasPrefix(node, "6:"):
		return ie.NewNodeID("", node[2:], "")
	default:
		return ie.NewNodeID("", "", strings.TrimPrefix(node, "f:"))
	}
}

func methBits(m string) (int, int) {
	d, v := 0, 0
	if len(m) == 2 {
		if m[0] == '1' {
			d = 1
		}
		if m[1] == '1' {
			v = 1
		}
	}
	return d, v
}

func buildRule(key string, r rule) *ie.IE {
	var ch []*ie.IE
	op := key[:len(key)-3] // "" (est) | c | r | u | q
	kind := ruleKindOf(key)
	switch kind {
	case "far":
		if r.id >= 0 {
			ch = append(ch, ie.NewFARID(uint32(r.id)))
		}
		switch op {
		case "", "c":
			ch = append(ch, ie.NewApplyAction(0x02))
			return ie.NewCreateFAR(ch...)
		case "u":
			ch = append(ch, ie.NewApplyAction(0x02))
			return ie.NewUpdateFAR(ch...)
		default:
			return ie.NewGroupedIE(ie.RemoveFAR, ch...)
		}
	case "qer":
		if r.id >= 0 {
			ch = append(ch, ie.NewQERID(uint32(r.id)))
		}
		switch op {
		case "", "c":
			ch = append(ch, ie.NewGateStatus(0, 0))
			return ie.NewCreateQER(ch...)
		case "u":
			ch = append(ch, ie.NewGateStatus(1, 1))
			return ie.NewUpdateQER(ch...)
		default:
			return ie.NewGroupedIE(ie.RemoveQER, ch...)
		}
	case "bar":
		if r.id >= 0 {
			ch = append(ch, ie.NewBARID(uint8(r.id)))
		}
		switch op {
		case "", "c":
			return ie.NewCreateBAR(ch...)
		case "u":
			return ie.NewUpdateBARWithinSessionModificationRequest(ch...)
		default:
			return ie.NewGroupedIE(ie.RemoveBAR, ch...)
		}
	case "urr":
		if r.id >= 0 {
			ch = append(ch, ie.NewURRID(uint32(r.id)))
		}
		if r.meth != "" {
			d, v := methBits(r.meth)
			ch = append(ch, ie.NewMeasurementMethod(0, v, d))
		}
		if r.mnop != "" {
			f := uint8(0)
			if r.mnop == "1" {
				f = 0x10
			}
			ch = append(ch, ie.NewMeasurementInformation(f))
		}
		switch op {
		case "", "c":
			ch = append(ch, ie.NewReportingTriggers(0x02, 0x00, 0x00))
			return ie.NewCreateURR(ch...)
		case "u":
			return ie.NewUpdateURR(ch...)
		case "q":
			return ie.NewGroupedIE(ie.QueryURR, ch...)
		default:
			return ie.NewGroupedIE(ie.RemoveURR, ch...)
		}
	case "pdr":
		if r.id >= 0 && !r.idLast {
			ch = append(ch, ie.NewPDRID(uint16(r.id)))
		}
		finish := func(xs []*ie.IE) []*ie.IE {
			if r.id >= 0 && r.idLast {
				return append(xs, ie.NewPDRID(uint16(r.id)))
			}
			return xs
		}
		switch op {
		case "", "c", "u":
			if op != "u" {
				ch = append(ch, ie.NewPrecedence(255))
				pdi := []*ie.IE{ie.NewSourceInterface(ie.SrcInterfaceCore)}
				if len(r.ueip) == 4 {
					pdi = append(pdi, ie.NewUEIPAddress(2, net.IP(r.ueip).String(), "", 0, 0))
				}
				ch = append(ch, ie.NewPDI(pdi...))
			}
			for _, u := range r.urrs {
				ch = append(ch, ie.NewURRID(u))
			}
			if op == "u" {
				return ie.NewUpdatePDR(finish(ch)...)
			}
			return ie.NewCreatePDR(finish(ch)...)
		default:
			return ie.NewGroupedIE(ie.RemovePDR, finish(ch)...)
		}
	}
	return nil
}

func (e *ctlEnv) buildDatagram(ev *event) []byte {
	var m message.Message
	ts := ie.NewRecoveryTimeStamp(time.Unix(1700000000, 0))
	switch ev.kind {
	case "hb":
		m = message.NewHeartbeatRequest(ev.seq, ts, nil)
	case "assoc":
		var ies []*ie.IE
		if ev.node != "" {
			ies = append(ies, e.nodeIE(ev.node))
		}
		if ev.rts != 0 {
			ies = append(ies, ie.NewRecoveryTimeStamp(time.Unix(1700000000+int64(ev.rts), 0)))
		} else {
			ies = append(ies, ts)
		}
		m = message.NewAssociationSetupRequest(ev.seq, ies...)
	case "est":
		var ies []*ie.IE
		if ev.node != "" {
			ies = append(ies, e.nodeIE(ev.node))
		}
		if ev.cp != nil {
			ies = append(ies, ie.NewFSEID(*ev.cp, net.ParseIP(e.ip(ev.peer)), nil))
		}
		for _, k := range estKeys {
			for _, r := range ev.lists[k] {
				ies = append(ies, buildRule(k, r))
			}
		}
		m = message.NewSessionEstablishmentRequest(0, 0, 0, ev.seq, 0, ies...)
	case "mod":
		var ies []*ie.IE
		if ev.node != "" {
			ies = append(ies, e.nodeIE(ev.node))
		}
		for _, k := range modKeys {
			for _, r := range ev.lists[k] {
				ies = append(ies, buildRule(k, r))
			}
		}
		m = message.NewSessionModificationRequest(0, 0, ev.seid, ev.seq, 0, ies...)
	case "del":
		m = message.NewSessionDeletionRequest(0, 0, ev.seid, ev.seq, 0)
	case "srrsp":
		if ev.fired {
			pfcp.VerifFireTxTimer(e.srv, fmt.Sprintf("%s:8805-%d", e.ip(ev.peer), ev.seq))
		}
		m = message.NewSessionReportResponse(0, 0, ev.seid, ev.seq, 0, ie.NewCause(ie.CauseRequestAccepted))
	case "other":
		switch ev.mtype {
		case int(message.MsgTypeAssociationUpdateRequest):
			m = message.NewAssociationUpdateRequest(ev.seq, e.nodeIE("4:p1"))
		case int(message.MsgTypeAssociationReleaseRequest):
			m = message.NewAssociationReleaseRequest(ev.seq, e.nodeIE("4:p1"))
		case int(message.MsgTypePFDManagementRequest):
			m = message.NewPFDManagementRequest(ev.seq)
		case int(message.MsgTypeNodeReportRequest):
			m = message.NewNodeReportRequest(ev.seq, e.nodeIE("4:p1"))
		case int(message.MsgTypeSessionSetDeletionRequest):
			m = message.NewSessionSetDeletionRequest(ev.seq, e.nodeIE("4:p1"), nil)
		default:
			m = message.NewSessionReportRequest(0, 0, 1, ev.seq, 0, ie.NewReportType(0, 0, 1, 0))
		}
	case "orsp":
		switch ev.mtype {
		case int(message.MsgTypeHeartbeatResponse):
			m = message.NewHeartbeatResponse(ev.seq, ts)
		case int(message.MsgTypeAssociationSetupResponse):
			m = message.NewAssociationSetupResponse(ev.seq, e.nodeIE("4:p1"), ie.NewCause(1))
		case int(message.MsgTypeSessionEstablishmentResponse):
			m = message.NewSessionEstablishmentResponse(0, 0, 1, ev.seq, 0, ie.NewCause(1))
		case int(message.MsgTypeSessionModificationResponse):
			m = message.NewSessionModificationResponse(0, 0, 1, ev.seq, 0, ie.NewCause(1))
		default:
			m = message.NewSessionDeletionResponse(0, 0, 1, ev.seq, 0, ie.NewCause(1))
		}
	case "junk":
		return ev.raw
	}
	b := make([]byte, m.MarshalLen())
	err := m.MarshalTo(b)
	if err != nil {
		fmt.Fprintln(os.Stderr, "harness: marshal:", err)
		die(3)
	}
	return b
}

// ---------------------------------------------------------------------------
// canonical rendering of what the UPF sent
// ---------------------------------------------------------------------------

func (e *ctlEnv) tsTok(i *ie.IE) string {
	if i == nil {
		return "-"
	}
	h := hex.EncodeToString(i.Payload)
	if e.tsFirst == "" {
		e.tsFirst = h
	}
	if h == e.tsFirst {
		return "same"
	}
	return "diff"
}

func (e *ctlEnv) nodeTok(i *ie.IE) string {
	if i == nil {
		return "0"
	}
	v, err := i.NodeID()
	if err != nil || v != e.ip(8) {
		return "bad"
	}
	return "1"
}

func causeTok(i *ie.IE) string {
	if i == nil {
		return "-"
	}
	v, err := i.Cause()
	if err != nil {
		return "bad"
	}
	return strconv.Itoa(int(v))
}

func ntpToUnix(i *ie.IE) int64 {
	if i == nil || len(i.Payload) < 4 {
		return -1
	}
	v := uint32(i.Payload[0])<<24 | uint32(i.Payload[1])<<16 | uint32(i.Payload[2])<<8 | uint32(i.Payload[3])
	return int64(v) - 2208988800
}

func usarTok(groups []*ie.IE) string {
	if len(groups) == 0 {
		return "_"
	}
	var out []string
	for _, g := range groups {
		var urr, seqn, trig, times, vol, dur = "?", "?", "?", "-", "-", "-"
		var st, en *ie.IE
		for _, x := range g.ChildIEs {
			switch x.Type {
			case ie.URRID:
				v, _ := x.URRID()
				urr = strconv.FormatUint(uint64(v), 10)
			case ie.URSEQN:
				v, _ := x.URSEQN()
				seqn = strconv.FormatUint(uint64(v), 10)
			case ie.UsageReportTrigger:
				trig = hex.EncodeToString(x.Payload)
			case ie.StartTime:
				st = x
			case ie.EndTime:
				en = x
			case ie.VolumeMeasurement:
				f, err := x.VolumeMeasurement()
				if err != nil {
					vol = "bad"
				} else {
					vol = fmt.Sprintf("%02x:%d+%d+%d+%d+%d+%d", f.Flags, f.TotalVolume, f.UplinkVolume, f.DownlinkVolume,
						f.TotalNumberOfPackets, f.UplinkNumberOfPackets, f.DownlinkNumberOfPackets)
				}
			case ie.DurationMeasurement:
				if len(x.Payload) >= 4 {
					dur = strconv.FormatUint(uint64(x.Payload[0])<<24|uint64(x.Payload[1])<<16|uint64(x.Payload[2])<<8|uint64(x.Payload[3]), 10)
				}
			}
		}
		if st != nil || en != nil {
			times = fmt.Sprintf("%d+%d", ntpToUnix(st), ntpToUnix(en))
		}
		out = append(out, fmt.Sprintf("%s/%s/%s/%s/%s/%s", urr, seqn, trig, times, vol, dur))
	}
	return strings.Join(out, ";")
}

func (e *ctlEnv) renderMsg(b []byte) string {
	m, err := message.Parse(b)
	if err != nil {
		return "unparsable hex=" + hex.EncodeToString(b)
	}
	switch r := m.(type) {
	case *message.HeartbeatResponse:
		return fmt.Sprintf("hbrsp seq=%d ts=%s", r.Sequence(), e.tsTok(r.RecoveryTimeStamp))
	case *message.AssociationSetupResponse:
		return fmt.Sprintf("assocrsp seq=%d node=%s cause=%s ts=%s", r.Sequence(), e.nodeTok(r.NodeID), causeTok(r.Cause), e.tsTok(r.RecoveryTimeStamp))
	case *message.SessionEstablishmentResponse:
		fseid := "-"
		if r.UPFSEID != nil {
			f, err := r.UPFSEID.FSEID()
			if err == nil {
				ipok := "ipbad"
				if f.IPv4Address != nil && f.IPv4Address.String() == e.ip(8) {
					ipok = "ipok"
				}
				fseid = fmt.Sprintf("%x/%s", f.SEID, ipok)
			}
		}
		var cr []string
		for _, c := range r.CreatedPDR {
			id, ip := "?", "?"
			for _, x := range c.ChildIEs {
				switch x.Type {
				case ie.PDRID:
					v, _ := x.PDRID()
					id = strconv.Itoa(int(v))
				case ie.UEIPAddress:
					f, err := x.UEIPAddress()
					if err == nil && f.IPv4Address != nil {
						ip = hex.EncodeToString(f.IPv4Address.To4())
					}
				}
			}
			cr = append(cr, id+"/"+ip)
		}
		crs := "_"
		if len(cr) > 0 {
			crs = strings.Join(cr, ",")
		}
		return fmt.Sprintf("estrsp seq=%d seid=%x node=%s cause=%s fseid=%s created=%s", r.Sequence(), r.SEID(), e.nodeTok(r.NodeID), causeTok(r.Cause), fseid, crs)
	case *message.SessionModificationResponse:
		return fmt.Sprintf("modrsp seq=%d seid=%x cause=%s usar=%s", r.Sequence(), r.SEID(), causeTok(r.Cause), usarTok(r.UsageReport))
	case *message.SessionDeletionResponse:
		rt := "-"
		for _, x := range r.IEs {
			if x.Type == ie.ReportType && len(x.Payload) > 0 {
				rt = strconv.Itoa(int(x.Payload[0]))
			}
		}
		return fmt.Sprintf("delrsp seq=%d seid=%x cause=%s rt=%s usar=%s", r.Sequence(), r.SEID(), causeTok(r.Cause), rt, usarTok(r.UsageReport))
	case *message.SessionReportRequest:
		rt, dl := "-", "-"
		if r.ReportType != nil && len(r.ReportType.Payload) > 0 {
			rt = strconv.Itoa(int(r.ReportType.Payload[0]))
		}
		if r.DownlinkDataReport != nil {
			for _, x := range r.DownlinkDataReport.ChildIEs {
				if x.Type == ie.PDRID {
					v, _ := x.PDRID()
					dl = strconv.Itoa(int(v))
				}
			}
		}
		return fmt.Sprintf("srreq seq=%d seid=%x rt=%s dldr=%s usar=%s", r.Sequence(), r.SEID(), rt, dl, usarTok(r.UsageReport))
	default:
		return fmt.Sprintf("othermsg type=%d seq=%d hex=%s", m.MessageType(), m.Sequence(), hex.EncodeToString(b))
	}
}

// abstractAddrs: 127.0.<net>.<k>:8805 -> p<k>, 127.0.<net>.<k> -> 4:p<k> (peer names of the abstract world)
const unreachableIP = "203.0.113.7" // TEST-NET-3

func (e *ctlEnv) abstractAddrs(s string) string {
	s = strings.ReplaceAll(s, unreachableIP+":8805", "p7")
	s = strings.ReplaceAll(s, unreachableIP, "4:p7")
	pre := fmt.Sprintf("127.0.%d.", e.net)
	var b strings.Builder
	for {
		i := strings.Index(s, pre)
		if i < 0 {
			b.WriteString(s)
			break
		}
		b.WriteString(s[:i])
		rest := s[i+len(pre):]
		j := 0
		for j < len(rest) && rest[j] >= '0' && rest[j] <= '9' {
			j++
		}
		if strings.HasPrefix(rest[j:], ":8805") {
			b.WriteString("p" + rest[:j])
			s = rest[j+5:]
		} else if strings.HasPrefix(rest[j:], ":8806") {
			b.WriteString("p1" + rest[:j]) // peer 10+n (n = 1..9)
			s = rest[j+5:]
		} else {
			b.WriteString("4:p" + rest[:j])
			s = rest[j:]
		}
	}
	return b.String()
}

// resortTrans: the transaction lists of a dump are sorted by the raw "<ip>:<port>-<seq>" keys; after the addresses have been
// replaced by peer names they are sorted again, by those names (the order the model prints)
func resortTrans(d string) string {
	fs := strings.Fields(d)
	for i, f := range fs {
		for _, k := range []string{"rx=", "tx=", "rxu=", "nodes="} {
			if strings.HasPrefix(f, k) && f != k+"_" {
				xs := strings.Split(f[len(k):], ",")
				sort.Strings(xs)
				fs[i] = k + strings.Join(xs, ",")
			}
		}
	}
	return strings.Join(fs, " ")
}

// ---------------------------------------------------------------------------
// executing one event in lock-step
// ---------------------------------------------------------------------------

type emitter interface{ emit(string, ...interface{}) }
type nullEmitter struct{}

func (nullEmitter) emit(string, ...interface{}) {}

func (e *ctlEnv) exec(ev *event) (sends map[int][]string, rawSends map[int][][]byte) {
	var c emitter = e.c
	if e.quiet {
		c = nullEmitter{}
	}
	c.emit("%s", ev.render())
	sends = map[int][]string{}
	rawSends = map[int][][]byte{}
	if e.dead {
		c.emit("O fault dead")
		c.emit("X")
		return
	}
	switch ev.typ {
	case "recv":
		b := e.buildDatagram(ev)
		e.peers[ev.peer].WriteToUDP(b, e.srvAddr) // also when b is empty: a zero-length datagram is ignored by the UPF
	case "report":
		var reps []report.Report
		for _, it := range ev.items {
			if it.usar {
				u := report.USAReport{URRID: it.urr}
				u.USARTrigger.Flags = it.trig
				u.VolumMeasure = report.VolumeMeasure{TotalVolume: it.meas[0], UplinkVolume: it.meas[1], DownlinkVolume: it.meas[2],
					TotalPktNum: it.meas[3], UplinkPktNum: it.meas[4], DownlinkPktNum: it.meas[5]}
				u.StartTime = time.Unix(int64(it.meas[6]), 0)
				u.EndTime = time.Unix(int64(it.meas[7]), 0)
				u.DuratMeasure.DurationValue = it.meas[8] * 1000000000
				reps = append(reps, u)
			} else {
				reps = append(reps, report.DLDReport{PDRID: it.pdr, Action: it.action, BufPkt: it.pkt})
			}
		}
		e.srv.NotifySessReport(report.SessReport{SEID: ev.seid, Reports: reps})
		for i := 0; pfcp.VerifSrLen(e.srv) > 0 && i < 100000; i++ {
			time.Sleep(20 * time.Microsecond)
		}
	case "tmo":
		tt := pfcp.TX
		if ev.tk == "rx" {
			tt = pfcp.RX
		}
		if ev.peer == 7 {
			e.srv.NotifyTransTimeout(tt, fmt.Sprintf("%s:8805-%d", unreachableIP, ev.seq))
		} else if ev.peer > 10 && ev.peer < fencePeer {
			e.srv.NotifyTransTimeout(tt, fmt.Sprintf("%s:8806-%d", e.ip(ev.peer-10), ev.seq))
		} else {
			e.srv.NotifyTransTimeout(tt, fmt.Sprintf("%s:8805-%d", e.ip(ev.peer), ev.seq))
		}
		for i := 0; pfcp.VerifToLen(e.srv) > 0 && i < 100000; i++ {
			time.Sleep(20 * time.Microsecond)
		}
	}
	ok := e.fence(2 * time.Second)
	for _, l := range e.drv.take() {
		c.emit("%s", l)
	}
	got := e.drain()
	// second line of defence against reordering across sockets: let the loopback path settle and look again
	time.Sleep(150 * time.Microsecond)
	for k, v := range e.drain() {
		got[k] = append(got[k], v...)
	}
	var ks []int
	for k := range got {
		ks = append(ks, k)
	}
	sort.Ints(ks)
	for _, k := range ks {
		for _, b := range got[k] {
			s := e.renderMsg(b)
			sends[k] = append(sends[k], s)
			rawSends[k] = append(rawSends[k], b)
			c.emit("O send p=%d %s", k, s)
		}
	}
	if !ok || atomic.LoadInt32(&e.fatal) != 0 {
		e.dead = true
		if atomic.LoadInt32(&e.fatal) != 0 {
			c.emit("O fault panic")
		} else {
			c.emit("O fault noanswer")
		}
		c.emit("X")
		return
	}
	c.emit("D %s dp=%s", resortTrans(e.abstractAddrs(pfcp.VerifDump(e.srv))), e.drv.dump())
	c.emit("X")
	return
}
