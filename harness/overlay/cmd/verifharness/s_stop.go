//go:build verif

package main

import (
	"bytes"
	"fmt"
	"net"
	"os"
	"os/exec"
	"path/filepath"
	"runtime"
	"strings"
	"sync"
	"sync/atomic"
	"time"

	"github.com/wmnsk/go-pfcp/ie"
	"github.com/wmnsk/go-pfcp/message"

	"github.com/free5gc/go-upf/internal/forwarder"
	"github.com/free5gc/go-upf/internal/forwarder/perio"
	"github.com/free5gc/go-upf/internal/pfcp"
	"github.com/free5gc/go-upf/internal/report"
	"github.com/free5gc/go-upf/pkg/factory"
)

// S-stop (C17): what a stopped or stopping server does with late notifications, and a stress of the whole stack under
// the race detector with a Stop placed at a random point.
//
//	T stop.after <report|timeout> = ok | panic:<message>          notification after the event loop has ended
//	T stop.stress <child seed> stopms=<n> = races=<n> crash=<0|1> exited=<0|1> [first=<top frames of the first race>]
//
// Each stress run is a child process of this binary (its own race log, its own crash), started with
// GORACE=log_path=…; the child runs the real PfcpServer + Gtp5g driver + periodic server with 2-3 SMFs sending
// unsynchronised traffic, 2-4 report producers, millisecond transaction timers, injected periodic ticks, then Stop
// (PfcpServer.Stop, then the driver's periodic server Close — the order pkg/app uses) and waits for the goroutines.
func init() { register("stop", runStop); register("stop-child", runStopChild) }

var usageSRRs int64

func runStop(c *ctx) {
	netn := 230
	shard := 0
	for _, a := range c.args {
		if strings.HasPrefix(a, "net=") {
			fmt.Sscan(a[4:], &netn)
		}
		if strings.Contains(a, "/") {
			var n int
			fmt.Sscanf(a, "%d/%d", &shard, &n)
		}
	}
	netn += shard
	c.emit("T conc.facts = ok")
	// deterministic part: notifications after the loop has ended
	for _, what := range []string{"report", "timeout", "report", "timeout"} {
		e := newBufEnv(c, netn)
		e.start()
		e.srv.Stop()
		done := make(chan struct{})
		go func() { e.wg.Wait(); close(done) }()
		select {
		case <-done:
		case <-time.After(5 * time.Second):
		}
		res := guard(func() string {
			fin := make(chan struct{})
			var pmsg atomic.Value
			go func() {
				defer close(fin)
				defer func() {
					if p := recover(); p != nil {
						pmsg.Store(fmt.Sprint(p))
					}
				}()
				if what == "report" {
					e.srv.NotifySessReport(report.SessReport{SEID: 1})
				} else {
					e.srv.NotifyTransTimeout(pfcp.TX, "127.0.0.1:8805-1")
				}
			}()
			select {
			case <-fin:
			case <-time.After(2 * time.Second):
				return "blocked"
			}
			if m := pmsg.Load(); m != nil {
				return "panic:" + strings.ReplaceAll(m.(string), " ", "_")
			}
			return "ok"
		})
		c.count("after." + what)
		c.emit("T stop.after %s = %s", what, res)
		e.smf.Close()
		e.fence.Close()
		e.sink.Close()
		e.d.udp.Close()
	}
	// pipelined bursts from two peers: every request is answered exactly once, with its own sequence number, to its sender
	for rep := 0; rep < 3; rep++ {
		e := newBufEnv(c, netn)
		e.start()
		n := 300
		peers := []*net.UDPConn{e.smf, e.fence}
		type res struct {
			got     map[uint32]int
			foreign int
		}
		out := make([]res, len(peers))
		var wgb sync.WaitGroup
		for k, conn := range peers {
			wgb.Add(1)
			go func(k int, conn *net.UDPConn) {
				defer wgb.Done()
				base := uint32(0x10000 * (k + 1))
				out[k].got = map[uint32]int{}
				var recvd int32
				go func() {
					for i := 0; i < n; i++ {
						// pipelined, but never more in flight than the socket buffers hold (loss there is not the UPF's)
						for w := 0; int32(i)-atomic.LoadInt32(&recvd) >= 48 && w < 2000; w++ {
							time.Sleep(100 * time.Microsecond)
						}
						b, _ := message.NewHeartbeatRequest(base+uint32(i), ie.NewRecoveryTimeStamp(time.Unix(1700000000, 0)), nil).Marshal()
						conn.WriteToUDP(b, e.srvA)
					}
				}()
				buf := make([]byte, 2048)
				deadline := time.Now().Add(6 * time.Second)
				for len(out[k].got) < n && time.Now().Before(deadline) {
					conn.SetReadDeadline(time.Now().Add(300 * time.Millisecond))
					m, _, err := conn.ReadFromUDP(buf)
					if err != nil {
						continue
					}
					atomic.AddInt32(&recvd, 1)
					if msg, err := message.Parse(buf[:m]); err == nil {
						sq := msg.Sequence()
						if sq < base || sq >= base+uint32(n) {
							out[k].foreign++
						} else {
							out[k].got[sq]++
						}
					}
				}
			}(k, conn)
		}
		wgb.Wait()
		unanswered, dup, foreign := 0, 0, 0
		for k := range peers {
			unanswered += n - len(out[k].got)
			foreign += out[k].foreign
			for _, v := range out[k].got {
				if v > 1 {
					dup++
				}
			}
		}
		r := "ok"
		if unanswered+dup+foreign > 0 {
			r = fmt.Sprintf("unanswered=%d,twice=%d,foreign=%d", unanswered, dup, foreign)
		}
		c.count("burst")
		c.emit("T stop.burst peers=%d n=%d = %s", len(peers), n, r)
		e.stop()
		e.smf.Close()
		e.fence.Close()
		e.sink.Close()
		e.d.udp.Close()
	}
	// stress under the race detector
	runs := 12
	if c.thorough() {
		runs = 300
	}
	self, _ := os.Executable()
	dir, _ := os.MkdirTemp("", "verifstop")
	defer os.RemoveAll(dir)
	for i := 0; i < runs; i++ {
		seed := c.rng.u64() >> 1
		stopms := 5 + c.rng.intn(80)
		if i%3 == 2 {
			// long enough for periodic ticks to report several sessions while everything else goes on
			stopms = 250 + c.rng.intn(200)
		}
		logp := filepath.Join(dir, fmt.Sprintf("race%d", i))
		cmd := exec.Command(self, "-seed", fmt.Sprint(seed), "-out", "-", "stop-child", fmt.Sprintf("net=%d", netn), fmt.Sprintf("stopms=%d", stopms))
		cmd.Env = append(os.Environ(), "GORACE=log_path="+logp+" exitcode=0 halt_on_error=0")
		var eb, ob bytes.Buffer
		cmd.Stderr = &eb
		cmd.Stdout = &ob
		err := cmd.Run()
		exited := 0
		if strings.Contains(ob.String(), "CHILD exited=1") {
			exited = 1
		}
		crash := 0
		first := ""
		if err != nil || !strings.Contains(ob.String(), "CHILD ") {
			crash = 1
			for _, ln := range strings.Split(eb.String(), "\n") {
				if strings.HasPrefix(ln, "panic:") || strings.HasPrefix(ln, "fatal error:") {
					first = strings.ReplaceAll(strings.TrimSpace(ln), " ", "_")
					break
				}
			}
		}
		races := 0
		if fs, _ := filepath.Glob(logp + ".*"); len(fs) > 0 {
			for _, f := range fs {
				b, _ := os.ReadFile(f)
				races += strings.Count(string(b), "WARNING: DATA RACE")
				if first == "" && races > 0 {
					// top frames of the two conflicting accesses
					var fr []string
					for _, ln := range strings.Split(string(b), "\n") {
						t := strings.TrimSpace(ln)
						if strings.HasPrefix(t, "github.com/free5gc/go-upf/") && !strings.Contains(t, "cmd/verifharness") {
							fr = append(fr, strings.TrimSuffix(strings.TrimPrefix(t, "github.com/free5gc/go-upf/internal/"), "()"))
							if len(fr) == 2 {
								break
							}
						}
					}
					first = strings.Join(fr, "|")
				}
				os.Remove(f)
			}
		}
		c.count("stress")
		line := fmt.Sprintf("T stop.stress %d stopms=%d = races=%d crash=%d exited=%d", seed, stopms, races, crash, exited)
		if first != "" {
			line += " first=" + first
		}
		c.emit("%s", line)
	}
}

func runStopChild(c *ctx) {
	netn, stopms := 230, 20
	for _, a := range c.args {
		if strings.HasPrefix(a, "net=") {
			fmt.Sscan(a[4:], &netn)
		}
		if strings.HasPrefix(a, "stopms=") {
			fmt.Sscan(a[7:], &stopms)
		}
	}
	r := c.rng
	e := newBufEnv(c, netn)
	cfg := &factory.Config{Pfcp: &factory.Pfcp{Addr: e.ip(8), NodeID: e.ip(8), RetransTimeout: time.Duration(1+r.intn(3)) * time.Millisecond, MaxRetrans: uint8(1 + r.intn(3))}}
	e.srv = pfcp.NewPfcpServer(cfg, e.d.g)
	e.d.g.HandleReport(e.srv)
	// the kernel answers every usage query: a periodic tick then hands one report per session to the event loop
	e.d.pk.reports = func(cmd uint8, seid uint64, urr uint32) [][]byte { return [][]byte{usaReportAttr(seid, urr)} }
	e.wg = &sync.WaitGroup{}
	e.srv.Start(e.wg)
	for i := 0; i < 200 && !e.doFence(50*time.Millisecond); i++ {
	}
	var stop int32
	var bg sync.WaitGroup
	quiet := func(f func()) {
		defer func() { recover() }()
		f()
	}
	// SMFs: unsynchronised traffic; each owns sessions it established
	nsmf := 2 + r.intn(2)
	for k := 0; k < nsmf; k++ {
		conn := e.smf
		if k > 0 {
			a := &net.UDPAddr{IP: net.ParseIP(e.ip(10 + k)), Port: 8805}
			cc, err := net.ListenUDP("udp4", a)
			if err != nil {
				continue
			}
			conn = cc
		}
		rk := newRng(r.u64())
		me := conn.LocalAddr().(*net.UDPAddr).IP.String()
		bg.Add(1)
		go func(conn *net.UDPConn, rk *rng, me string, k int) {
			defer bg.Done()
			seq := uint32(1)
			send := func(m message.Message) {
				b := make([]byte, m.MarshalLen())
				if m.MarshalTo(b) == nil {
					conn.WriteToUDP(b, e.srvA)
					if rk.chance(15) {
						conn.WriteToUDP(b, e.srvA) // duplicate
					}
				}
			}
			send(message.NewAssociationSetupRequest(seq, ie.NewNodeID(me, "", ""), ie.NewRecoveryTimeStamp(time.Unix(1700000000, 0))))
			buf := make([]byte, 65536)
			var ups []uint64
			for atomic.LoadInt32(&stop) == 0 {
				seq++
				switch x := rk.intn(10); {
				case x < 4:
					cp := uint64(k)<<32 | uint64(seq)
					send(message.NewSessionEstablishmentRequest(0, 0, 0, seq, 0,
						ie.NewNodeID(me, "", ""), ie.NewFSEID(cp, net.ParseIP(me), nil),
						e.farIE(false, 1, []byte{0x0c}, 0x100, true),
						ie.NewCreateURR(ie.NewURRID(1), ie.NewMeasurementMethod(0, 1, 0), ie.NewReportingTriggers(0x01, 0x00), ie.NewMeasurementPeriod(time.Hour)),
						ie.NewCreateQER(ie.NewQERID(1), ie.NewGateStatus(0, 0), ie.NewQFI(9)),
						pdrIE(1, 1, []uint32{1})))
				case x < 7 && len(ups) > 0:
					up := ups[rk.intn(len(ups))]
					send(message.NewSessionModificationRequest(0, 0, up, seq, 0, e.farIE(true, 1, []byte{byte(1 + rk.intn(12))}, -1, rk.chance(50))))
				case x < 8 && len(ups) > 0:
					i := rk.intn(len(ups))
					send(message.NewSessionDeletionRequest(0, 0, ups[i], seq, 0))
					ups = append(ups[:i], ups[i+1:]...)
				default:
					send(message.NewHeartbeatRequest(seq, ie.NewRecoveryTimeStamp(time.Unix(1700000000, 0)), nil))
				}
				// read whatever came back (responses, report requests) without waiting long
				for {
					conn.SetReadDeadline(time.Now().Add(200 * time.Microsecond))
					n, _, err := conn.ReadFromUDP(buf)
					if err != nil {
						break
					}
					if m, err := message.Parse(buf[:n]); err == nil {
						if sr, ok := m.(*message.SessionReportRequest); ok && len(sr.UsageReport) > 0 {
							atomic.AddInt64(&usageSRRs, 1)
						}
						if er, ok := m.(*message.SessionEstablishmentResponse); ok && er.UPFSEID != nil {
							if f, err := er.UPFSEID.FSEID(); err == nil {
								ups = append(ups, f.SEID)
							}
						}
					}
				}
			}
		}(conn, rk, me, k)
	}
	// report producers: the buffering listener's entry point, from several goroutines
	nprod := 2 + r.intn(3)
	for k := 0; k < nprod; k++ {
		rk := newRng(r.u64())
		bg.Add(1)
		go func(rk *rng) {
			defer bg.Done()
			bs := forwarder.VerifBuffServer(e.d.g)
			for atomic.LoadInt32(&stop) < 2 {
				// leave room in the loop's report queue: with it permanently full the periodic server (one more
				// producer) hardly ever gets a slot and the periodic path would go unexercised.  After Stop the
				// producers run unthrottled (late notifications are the point then).
				if atomic.LoadInt32(&stop) == 0 && pfcp.VerifSrLen(e.srv) > 64 {
					time.Sleep(100 * time.Microsecond)
					continue
				}
				quiet(func() { bs.ServeMsg(bufferMsg(uint64(1+rk.intn(6)), 1, 0x0c, rk.bytes(20), true, rk.chance(30))) })
				if rk.chance(30) {
					time.Sleep(time.Duration(rk.intn(300)) * time.Microsecond)
				}
			}
		}(rk)
	}
	// periodic ticks (injected in place of the ticker goroutines, which the periodic server stops before it closes
	// its queue: the injector stops before Close for the same reason)
	var tg sync.WaitGroup
	tg.Add(1)
	go func() {
		defer tg.Done()
		ps := forwarder.VerifPerio(e.d.g)
		for atomic.LoadInt32(&stop) < 1 {
			// a tick is a netlink round trip; ticks posted faster than they are served only queue up in front of the
			// registrations the loop posts, and every tick would then see one session at most
			if perio.VerifQueueLen(ps) < 3 {
				quiet(func() { perio.VerifTick(ps, time.Hour) })
			}
			time.Sleep(500 * time.Microsecond)
		}
	}()
	time.Sleep(time.Duration(stopms) * time.Millisecond)
	if os.Getenv("VERIF_DEBUG") != "" {
		fmt.Fprintln(os.Stderr, "child dump:", pfcp.VerifDump(e.srv)[:400], " perio:", perio.VerifDump(forwarder.VerifPerio(e.d.g)), "qlen", perio.VerifQueueLen(forwarder.VerifPerio(e.d.g)))
		buf := make([]byte, 1<<20)
		n := runtime.Stack(buf, true)
		for _, g := range strings.Split(string(buf[:n]), "\n\n") {
			if strings.Contains(g, "perio.(*Server).Serve") {
				fmt.Fprintln(os.Stderr, g)
			}
		}
	}
	// the order pkg/app uses: stop the PFCP server, then close the driver (its periodic server)
	atomic.StoreInt32(&stop, 1)
	e.srv.Stop()
	tg.Wait()
	quiet(func() { forwarder.VerifClosePerio(e.d.g) })
	time.Sleep(time.Duration(r.intn(3000)) * time.Microsecond)
	done := make(chan struct{})
	go func() { e.wg.Wait(); close(done) }()
	exited := 0
	select {
	case <-done:
		exited = 1
	case <-time.After(30 * time.Second): // generous: under load the loop first works off its backlog
	}
	time.Sleep(5 * time.Millisecond) // late timer callbacks and producers meet the stopped server
	atomic.StoreInt32(&stop, 2)
	bgDone := make(chan struct{})
	go func() { bg.Wait(); close(bgDone) }()
	select {
	case <-bgDone:
	case <-time.After(30 * time.Second): // generous: under load the loop first works off its backlog
		exited = 0 // a producer is stuck on the stopped server
	}
	fmt.Fprintf(os.Stderr, "child: %d Session Report Request(s) with usage reports reached the SMFs\n", atomic.LoadInt64(&usageSRRs))
	fmt.Printf("CHILD exited=%d\n", exited)
	os.Stdout.Sync()
	os.Exit(0)
}
