//go:build verif

package main

import (
	"encoding/hex"
	"fmt"
	"sort"
	"strconv"
	"strings"
)

// ---------------------------------------------------------------------------
// Abstract events of the S-ctl stream and their line syntax (DESIGN.md §5.3).
//
//	E recv p=<k> kind=hb seq=<n>
//	E recv p=<k> kind=assoc seq=<n> node=<nodeid|->
//	E recv p=<k> kind=est seq=<n> node=<nodeid|-> cp=<hex|-> far=<L> qer=<L> urr=<U> bar=<L> pdr=<P>
//	E recv p=<k> kind=mod seq=<n> seid=<hex> node=<nodeid|-> cfar= cqer= curr= cbar= cpdr= rfar= rqer= rurr= rbar= rpdr= ufar= uqer= uurr= ubar= updr= qurr=
//	E recv p=<k> kind=del seq=<n> seid=<hex>
//	E recv p=<k> kind=other seq=<n> type=<msgtype>      request type without handler
//	E recv p=<k> kind=srrsp seq=<n> seid=<hex>          Session Report Response
//	E recv p=<k> kind=orsp seq=<n> type=<msgtype>       any other response type
//	E recv p=<k> kind=junk hex=<bytes>                  undecodable / neither request nor response
//	E report seid=<hex> items=<I;I;...>                 NotifySessReport
//	E tmo k=<tx|rx> p=<k> seq=<n>                       NotifyTransTimeout
//
//	L (id list)  : `_` (empty) or comma separated ids, `-` = rule IE without id child
//	U (URR list) : `_` or comma separated `<id|->/<dv|->/<m|->`  (d,v,m ∈ {0,1}: DURAT, VOLUM, MNOP; `-` = IE absent)
//	P (PDR list) : `_` or comma separated `<id|->/<u1+u2+..|>/<ueip hex|>[/L]` (L: the PDR ID child comes last)
//	I (report)   : `u:<urr>:<trig hex>:<m0+...+m8>`  or  `d:<pdr>:<action hex>:<pkt hex|->`
//	nodeid       : `4:p<k>` (IPv4 address of peer k), `6:<text>` (IPv6 literal), `f:<text>` (FQDN)
// ---------------------------------------------------------------------------

type rule struct {
	id   int64 // -1: no id child
	urrs []uint32
	meth string // "" absent, else two chars d v
	mnop string // "" absent, else "0"/"1"
	ueip []byte
	// PDR: the PDR ID child comes last in the grouped IE (after the PDI) instead of first — the order of the children of a
	// grouped IE is free
	idLast bool
}

type repItem struct {
	usar   bool
	urr    uint32
	trig   uint32
	meas   [9]uint64 // tv uv dv tp up dp start end dur
	pdr    uint16
	action uint16
	pkt    []byte
}

type event struct {
	typ   string // recv | report | tmo
	peer  int
	kind  string
	seq   uint32
	seid  uint64
	node  string // "" = absent
	cp    *uint64
	mtype int
	raw   []byte
	lists map[string][]rule
	items []repItem
	tk    string // tx|rx
	rts   int    // assoc: offset of the peer's Recovery Time Stamp (0 = the usual one; a restarted peer comes with another)
	fired bool   // srrsp: the request's retransmission timer has already fired when the response is processed
}

var estKeys = []string{"far", "qer", "urr", "bar", "pdr"}
var modKeys = []string{"cfar", "cqer", "curr", "cbar", "cpdr", "rfar", "rqer", "rurr", "rbar", "rpdr", "ufar", "uqer", "uurr", "ubar", "updr", "qurr"}

func ruleKindOf(key string) string { return key[len(key)-3:] } // far qer urr bar pdr

func idStr(id int64) string {
	if id < 0 {
		return "-"
	}
	return strconv.FormatInt(id, 10)
}

func renderRules(key string, rs []rule) string {
	if len(rs) == 0 {
		return "_"
	}
	var out []string
	for _, r := range rs {
		switch {
		case ruleKindOf(key) == "pdr":
			var us []string
			for _, u := range r.urrs {
				us = append(us, strconv.FormatUint(uint64(u), 10))
			}
			t := fmt.Sprintf("%s/%s/%s", idStr(r.id), strings.Join(us, "+"), hex.EncodeToString(r.ueip))
			if r.idLast {
				t += "/L"
			}
			out = append(out, t)
		case ruleKindOf(key) == "urr" && (key == "urr" || key == "curr" || key == "uurr"):
			m, n := r.meth, r.mnop
			if m == "" {
				m = "-"
			}
			if n == "" {
				n = "-"
			}
			out = append(out, fmt.Sprintf("%s/%s/%s", idStr(r.id), m, n))
		default:
			out = append(out, idStr(r.id))
		}
	}
	return strings.Join(out, ",")
}

func parseID(s string) int64 {
	if s == "-" {
		return -1
	}
	v, _ := strconv.ParseInt(s, 10, 64)
	return v
}

func parseRules(key, s string) []rule {
	if s == "_" || s == "" {
		return nil
	}
	var out []rule
	for _, it := range strings.Split(s, ",") {
		f := strings.Split(it, "/")
		r := rule{id: parseID(f[0])}
		switch {
		case ruleKindOf(key) == "pdr":
			if len(f) > 1 && f[1] != "" {
				for _, u := range strings.Split(f[1], "+") {
					v, _ := strconv.ParseUint(u, 10, 32)
					r.urrs = append(r.urrs, uint32(v))
				}
			}
			if len(f) > 2 && f[2] != "" {
				r.ueip, _ = hex.DecodeString(f[2])
			}
			if len(f) > 3 && f[3] == "L" {
				r.idLast = true
			}
		case ruleKindOf(key) == "urr" && (key == "urr" || key == "curr" || key == "uurr"):
			if len(f) > 1 && f[1] != "-" {
				r.meth = f[1]
			}
			if len(f) > 2 && f[2] != "-" {
				r.mnop = f[2]
			}
		}
		out = append(out, r)
	}
	return out
}

func (e *event) render() string {
	var b strings.Builder
	switch e.typ {
	case "recv":
		fmt.Fprintf(&b, "E recv p=%d kind=%s", e.peer, e.kind)
		switch e.kind {
		case "hb":
			fmt.Fprintf(&b, " seq=%d", e.seq)
		case "assoc":
			fmt.Fprintf(&b, " seq=%d node=%s", e.seq, dashIfEmpty(e.node))
			if e.rts != 0 {
				fmt.Fprintf(&b, " rts=%d", e.rts)
			}
		case "est":
			cp := "-"
			if e.cp != nil {
				cp = fmt.Sprintf("%x", *e.cp)
			}
			fmt.Fprintf(&b, " seq=%d node=%s cp=%s", e.seq, dashIfEmpty(e.node), cp)
			for _, k := range estKeys {
				fmt.Fprintf(&b, " %s=%s", k, renderRules(k, e.lists[k]))
			}
		case "mod":
			fmt.Fprintf(&b, " seq=%d seid=%x node=%s", e.seq, e.seid, dashIfEmpty(e.node))
			for _, k := range modKeys {
				fmt.Fprintf(&b, " %s=%s", k, renderRules(k, e.lists[k]))
			}
		case "del", "srrsp":
			fmt.Fprintf(&b, " seq=%d seid=%x", e.seq, e.seid)
			if e.fired {
				b.WriteString(" fired=1")
			}
		case "other", "orsp":
			fmt.Fprintf(&b, " seq=%d type=%d", e.seq, e.mtype)
		case "junk":
			fmt.Fprintf(&b, " hex=%s", hexOrDash(e.raw))
		}
	case "report":
		var its []string
		for _, it := range e.items {
			if it.usar {
				var ms []string
				for _, m := range it.meas {
					ms = append(ms, strconv.FormatUint(m, 10))
				}
				its = append(its, fmt.Sprintf("u:%d:%x:%s", it.urr, it.trig, strings.Join(ms, "+")))
			} else {
				its = append(its, fmt.Sprintf("d:%d:%x:%s", it.pdr, it.action, hexOrDash(it.pkt)))
			}
		}
		s := strings.Join(its, ";")
		if s == "" {
			s = "_"
		}
		fmt.Fprintf(&b, "E report seid=%x items=%s", e.seid, s)
	case "tmo":
		fmt.Fprintf(&b, "E tmo k=%s p=%d seq=%d", e.tk, e.peer, e.seq)
	}
	return b.String()
}

func dashIfEmpty(s string) string {
	if s == "" {
		return "-"
	}
	return s
}

func kv(fields []string) map[string]string {
	m := map[string]string{}
	for _, f := range fields {
		if i := strings.IndexByte(f, '='); i > 0 {
			m[f[:i]] = f[i+1:]
		}
	}
	return m
}

func parseEvent(line string) (*event, error) {
	f := strings.Fields(line)
	if len(f) < 2 || f[0] != "E" {
		return nil, fmt.Errorf("not an event line: %q", line)
	}
	m := kv(f[2:])
	e := &event{typ: f[1], lists: map[string][]rule{}}
	u64 := func(k string, base int) uint64 {
		v, _ := strconv.ParseUint(m[k], base, 64)
		return v
	}
	switch e.typ {
	case "recv":
		e.peer = int(u64("p", 10))
		e.kind = m["kind"]
		e.seq = uint32(u64("seq", 10))
		e.seid = u64("seid", 16)
		if n, ok := m["node"]; ok && n != "-" {
			e.node = n
		}
		if cp, ok := m["cp"]; ok && cp != "-" {
			v, _ := strconv.ParseUint(cp, 16, 64)
			e.cp = &v
		}
		e.mtype = int(u64("type", 10))
		e.fired = m["fired"] == "1"
		e.rts = int(u64("rts", 10))
		if h, ok := m["hex"]; ok && h != "-" {
			e.raw, _ = hex.DecodeString(h)
		}
		for _, k := range append(append([]string{}, estKeys...), modKeys...) {
			if v, ok := m[k]; ok {
				e.lists[k] = parseRules(k, v)
			}
		}
	case "report":
		e.seid = u64("seid", 16)
		if m["items"] != "_" && m["items"] != "" {
			for _, it := range strings.Split(m["items"], ";") {
				p := strings.Split(it, ":")
				if len(p) < 4 {
					return nil, fmt.Errorf("bad report item %q", it)
				}
				var ri repItem
				if p[0] == "u" {
					ri.usar = true
					v, _ := strconv.ParseUint(p[1], 10, 32)
					ri.urr = uint32(v)
					v, _ = strconv.ParseUint(p[2], 16, 32)
					ri.trig = uint32(v)
					for i, ms := range strings.Split(p[3], "+") {
						if i < 9 {
							ri.meas[i], _ = strconv.ParseUint(ms, 10, 64)
						}
					}
				} else {
					v, _ := strconv.ParseUint(p[1], 10, 16)
					ri.pdr = uint16(v)
					v, _ = strconv.ParseUint(p[2], 16, 16)
					ri.action = uint16(v)
					if p[3] != "-" {
						ri.pkt, _ = hex.DecodeString(p[3])
					}
				}
				e.items = append(e.items, ri)
			}
		}
	case "tmo":
		e.tk = m["k"]
		e.peer = int(u64("p", 10))
		e.seq = uint32(u64("seq", 10))
	default:
		return nil, fmt.Errorf("unknown event type %q", e.typ)
	}
	return e, nil
}

func sortedKeys(m map[string]int) []string {
	ks := make([]string, 0, len(m))
	for k := range m {
		ks = append(ks, k)
	}
	sort.Strings(ks)
	return ks
}
