//go:build verif

package main

import (
	"bufio"
	"fmt"
	"os"
	"strconv"
	"strings"

	"github.com/wmnsk/go-pfcp/message"

	"github.com/free5gc/go-upf/internal/pfcp"
)

// S-ctl: the real PfcpServer over loopback UDP + reference-data-plane mock driver, driven in lock-step
// by generated histories (or by the C/E lines of a replay file).
//
//	C <case#> maxretrans=<n> txseq=<hex> faultpct=<n> dpseed=<n>
//	E ... / O ... / D ... / X      (see ctl_types.go, ctl_exec.go)
func init() {
	register("ctl", runCtl)
	register("ctlreplay", runCtlReplay)
}

type sessShadow struct {
	peer int
	cp   uint64
	up   uint64
	urrs map[uint32]bool
	pdrs map[uint16]bool
}

type ctlGen struct {
	e      *ctlEnv
	r      *rng
	c      *ctx
	seq    map[int]uint32
	sess   []*sessShadow
	outst  []outSRR
	sent   []*event // requests sent so far (for duplicates / key collisions / rx expiry)
	prof   map[string]int
	peers  []int
	forced *event // the next event, decided by the previous one
	alt    bool   // peers 11..13 (second PFCP entity on the host of peers 1..3) are bound
	queue  []*event // events still to come, decided earlier (before `forced`)
	maxRetrans int
	p7     bool // the node 4:p7 (address not reachable from the UPF) has associated in this history
	dark   []uint64 // sessions established under that node
}

type outSRR struct {
	peer int
	seq  uint32
	seid uint64
}

var profiles = map[string]map[string]int{
	// weights of event kinds
	"mix": {"assoc": 6, "est": 14, "mod": 26, "del": 6, "hb": 3, "dup": 6, "collide": 3, "other": 2, "report": 12,
		"srrsp": 8, "orsp": 2, "junk": 2, "tmotx": 5, "tmorx": 4, "takeover": 2, "abandon": 2},
	// transactions: duplicates, expiries, responses
	"trans": {"assoc": 5, "est": 8, "mod": 8, "del": 3, "hb": 8, "dup": 18, "collide": 8, "other": 4, "report": 12,
		"srrsp": 12, "orsp": 4, "junk": 1, "tmotx": 12, "tmorx": 12, "takeover": 0, "abandon": 4},
	// usage reporting inside one or two sessions
	"urr": {"assoc": 2, "est": 6, "mod": 45, "del": 5, "hb": 1, "dup": 2, "collide": 0, "other": 0, "report": 25,
		"srrsp": 6, "orsp": 0, "junk": 0, "tmotx": 2, "tmorx": 1, "takeover": 0, "abandon": 5},
	// several nodes, coinciding ids, re-association, takeover, SEID-0 responses
	"nodes": {"assoc": 14, "est": 20, "mod": 14, "del": 8, "hb": 1, "dup": 2, "collide": 1, "other": 1, "report": 14,
		"srrsp": 14, "orsp": 1, "junk": 1, "tmotx": 2, "tmorx": 2, "takeover": 6, "abandon": 1},
}

func (g *ctlGen) pickKind() string {
	tot := 0
	ks := sortedKeys(g.prof)
	for _, k := range ks {
		tot += g.prof[k]
	}
	x := g.r.intn(tot)
	for _, k := range ks {
		x -= g.prof[k]
		if x < 0 {
			return k
		}
	}
	return "hb"
}

func (g *ctlGen) nextSeq(p int) uint32 {
	// small sequence space per peer so that equal numbers across peers are the rule, not the exception
	s := g.seq[p] & 0xffffff
	g.seq[p] = s + 1
	if g.r.chance(5) {
		return uint32(g.r.bits(24))
	}
	return s
}

func (g *ctlGen) peer() int { return g.peers[g.r.intn(len(g.peers))] }

func (g *ctlGen) nodeID() string {
	switch g.r.intn(12) {
	case 0:
		return "6:fd00::" + strconv.Itoa(1+g.r.intn(2))
	case 1:
		if g.r.chance(50) {
			return "4:p7" // an IPv4 node id whose address the UPF cannot reach (sendto fails): reports for its sessions are lost on the way
		}
		return "4:p9" // an IPv4 node id nobody associated / another address
	default:
		return "4:p" + strconv.Itoa(g.peer())
	}
}

func (g *ctlGen) ruleID(kind string) int64 {
	if g.r.chance(3) {
		return -1
	}
	var max int64 = 0xffffffff
	switch kind {
	case "pdr":
		max = 0xffff
	case "bar":
		max = 0xff
	}
	switch g.r.intn(12) {
	case 0:
		return 0
	case 1:
		return max
	default:
		return int64(1 + g.r.intn(4))
	}
}

func (g *ctlGen) urrList() []uint32 {
	n := 0
	switch g.r.intn(6) {
	case 0, 1:
		n = 0
	case 2, 3:
		n = 1
	case 4:
		n = 2
	default:
		n = 3
	}
	seen := map[uint32]bool{}
	var out []uint32
	for i := 0; i < n; i++ {
		u := uint32(1 + g.r.intn(4))
		if g.r.chance(5) {
			u = 0xffffffff
		}
		if seen[u] {
			continue
		}
		seen[u] = true
		out = append(out, u)
	}
	// "arbitrary URR lists": now and then the same URR ID child twice (the PDR still refers to that URR once)
	if len(out) > 0 && g.r.chance(12) {
		out = append(out, out[g.r.intn(len(out))])
	}
	return out
}

func (g *ctlGen) rules(key string, maxn int) []rule {
	kind := ruleKindOf(key)
	n := 0
	if g.r.chance(45) {
		n = 1 + g.r.intn(maxn)
	}
	if kind == "bar" && n > 1 {
		n = 1
	}
	var out []rule
	for i := 0; i < n; i++ {
		r := rule{id: g.ruleID(kind)}
		if kind == "pdr" && key != "rpdr" {
			r.urrs = g.urrList()
			if (key == "pdr" || key == "cpdr") && g.r.chance(50) {
				r.ueip = []byte{10, byte(g.r.intn(4)), 0, byte(1 + g.r.intn(250))}
			}
			if key != "rpdr" && g.r.chance(30) {
				r.idLast = true
			}
		}
		if kind == "urr" && (key == "urr" || key == "curr" || key == "uurr") {
			if key != "uurr" || g.r.chance(50) {
				r.meth = g.r.pick("00", "01", "10", "11", "01", "11")
			}
			if g.r.chance(60) {
				r.mnop = g.r.pick("0", "1")
			}
		}
		out = append(out, r)
	}
	return out
}

func (g *ctlGen) anySeid() uint64 {
	if len(g.sess) > 0 && g.r.chance(85) {
		return g.sess[g.r.intn(len(g.sess))].up
	}
	switch g.r.intn(9) {
	case 0:
		return 0
	case 1:
		return 1 << 63
	case 2:
		return 1<<63 + 1
	case 3:
		return ^uint64(0)
	case 4:
		return 1 << 32
	case 5:
		return uint64(len(g.sess) + 1 + g.r.intn(3))
	default:
		return uint64(1 + g.r.intn(6))
	}
}

func (g *ctlGen) gen() *event {
	r := g.r
	if len(g.queue) > 0 {
		ev := g.queue[0]
		g.queue = g.queue[1:]
		return ev
	}
	if g.forced != nil {
		ev := g.forced
		g.forced = nil
		return ev
	}
	ev := &event{typ: "recv", lists: map[string][]rule{}}
	k := g.pickKind()
	if k == "abandon" {
		// an outstanding Session Report Request runs out of retries (every expiry in a row), then the same session reports
		// again: numbering, ownership and bookkeeping go on as if the lost request had been delivered
		if len(g.outst) == 0 {
			k = "report"
		} else {
			o := g.outst[r.intn(len(g.outst))]
			for i := 0; i <= g.maxRetrans; i++ {
				g.queue = append(g.queue, &event{typ: "tmo", tk: "tx", peer: o.peer, seq: o.seq, lists: map[string][]rule{}})
			}
			save := g.prof
			g.prof = map[string]int{"report": 1}
			rep := g.gen2()
			g.prof = save
			rep.seid = o.seid
			g.queue = append(g.queue, rep)
			ev := g.queue[0]
			g.queue = g.queue[1:]
			return ev
		}
	}
	return g.genOf(ev, k)
}

// gen2: one generated event, bypassing the queue (used while the queue is being filled)
func (g *ctlGen) gen2() *event {
	ev := &event{typ: "recv", lists: map[string][]rule{}}
	return g.genOf(ev, g.pickKind())
}

func (g *ctlGen) genOf(ev *event, k string) *event {
	r := g.r
	switch k {
	case "hb":
		ev.peer, ev.kind = g.peer(), "hb"
		ev.seq = g.nextSeq(ev.peer)
	case "assoc":
		ev.peer, ev.kind = g.peer(), "assoc"
		ev.seq = g.nextSeq(ev.peer)
		if r.chance(30) {
			ev.rts = 1 + r.intn(5) // the peer has restarted: another Recovery Time Stamp
		}
		if !r.chance(4) {
			if r.chance(80) {
				ev.node = "4:p" + strconv.Itoa(ev.peer)
			} else {
				ev.node = g.nodeID()
			}
		}
	case "est":
		ev.peer, ev.kind = g.peer(), "est"
		ev.seq = g.nextSeq(ev.peer)
		if !r.chance(4) {
			if r.chance(85) {
				ev.node = "4:p" + strconv.Itoa(ev.peer)
			} else {
				ev.node = g.nodeID()
			}
			if g.p7 && r.chance(12) {
				ev.node = "4:p7"
			}
		}
		if !r.chance(4) {
			cp := uint64(1 + r.intn(3)) // deliberately coinciding control-plane SEIDs across peers
			if r.chance(10) {
				cp = r.bits(64)
			}
			ev.cp = &cp
		}
		for _, key := range estKeys {
			ev.lists[key] = g.rules(key, 3)
		}
	case "mod", "takeover":
		ev.peer, ev.kind = g.peer(), "mod"
		ev.seid = g.anySeid()
		for _, s := range g.sess {
			if s.up == ev.seid && r.chance(80) {
				ev.peer = s.peer
			}
		}
		ev.seq = g.nextSeq(ev.peer)
		if k == "takeover" {
			ev.node = g.nodeID()
			for ev.node == "4:p7" {
				ev.node = g.nodeID() // (the unreachable node gets its sessions by establishing them)
			}
		}
		nkeys := 1 + r.intn(4)
		for i := 0; i < nkeys; i++ {
			key := modKeys[r.intn(len(modKeys))]
			ev.lists[key] = g.rules(key, 3)
			if len(ev.lists[key]) == 0 {
				ev.lists[key] = g.rules(key, 2)
			}
		}
	case "del":
		ev.peer, ev.kind = g.peer(), "del"
		ev.seid = g.anySeid()
		for _, s := range g.sess {
			if s.up == ev.seid && r.chance(80) {
				ev.peer = s.peer
			}
		}
		ev.seq = g.nextSeq(ev.peer)
	case "dup":
		if len(g.sent) == 0 {
			return g.gen()
		}
		// the very same request again (same peer, same sequence number, same bytes)
		old := g.sent[len(g.sent)-1-r.intn(min(len(g.sent), 6))]
		cp := *old
		return &cp
	case "collide":
		if len(g.sent) == 0 {
			return g.gen()
		}
		// a different request with the sequence number of an earlier one: from the same peer (treated as
		// a retransmission by the UPF) or from another peer (must not be)
		old := g.sent[len(g.sent)-1-r.intn(min(len(g.sent), 6))]
		if g.alt && old.peer < 10 && r.chance(25) {
			// … or from another PFCP entity on the SAME host (same IP address, another UDP port): a transaction is the
			// sender's address — IP and port — and sequence number; this is a first copy and is answered at its own port
			ev = g.genKind("hb")
			ev.seq = old.seq
			ev.peer = old.peer + 10
			return ev
		}
		ev = g.genKind(r.pick("hb", "est", "mod", "del", "assoc"))
		ev.seq = old.seq
		if r.chance(50) {
			ev.peer = old.peer
		}
		return ev
	case "other":
		ev.peer, ev.kind = g.peer(), "other"
		ev.seq = g.nextSeq(ev.peer)
		ts := []uint8{message.MsgTypeAssociationUpdateRequest, message.MsgTypeAssociationReleaseRequest, message.MsgTypePFDManagementRequest,
			message.MsgTypeNodeReportRequest, message.MsgTypeSessionSetDeletionRequest, message.MsgTypeSessionReportRequest}
		ev.mtype = int(ts[r.intn(len(ts))])
	case "report":
		ev.typ = "report"
		ev.seid = g.anySeid()
		if len(g.dark) > 0 && r.chance(35) {
			// a packet handed up for a session whose SMF cannot be reached: the notification is lost on the way (sendto fails),
			// the packet is held all the same
			ev.seid = g.dark[r.intn(len(g.dark))]
			it := repItem{pdr: uint16(1 + r.intn(3)), action: uint16([]int{0x0c, 0x0c, 0x04}[r.intn(3)]), pkt: r.bytes(1 + r.intn(40))}
			ev.items = append(ev.items, it)
			return ev
		}
		n := 1 + r.intn(3)
		dl := r.chance(30)
		for i := 0; i < n; i++ {
			var it repItem
			if dl {
				it.pdr = uint16(1 + r.intn(3))
				it.action = uint16([]int{0x04, 0x0c, 0x08, 0x0c, 0x02, 0x0c, 0x1c, 0x00}[r.intn(8)])
				if r.chance(85) {
					it.pkt = r.bytes(1 + r.intn(40))
				}
			} else {
				it.usar = true
				it.urr = uint32(1 + r.intn(4))
				if r.chance(5) {
					it.urr = 0xffffffff
				}
				switch r.intn(5) {
				case 0:
					it.trig = 0x10 // START: no start/end time IEs
				case 1:
					it.trig = uint32(r.bits(22))
				default:
					it.trig = 1 << uint(r.intn(22))
				}
				for j := 0; j < 6; j++ {
					it.meas[j] = r.bits(64)
				}
				it.meas[6] = 1000000000 + uint64(r.intn(1000000000))
				it.meas[7] = it.meas[6] + uint64(r.intn(100000))
				it.meas[8] = uint64(r.intn(1 << 31))
			}
			ev.items = append(ev.items, it)
		}
	case "srrsp":
		ev.kind = "srrsp"
		if len(g.outst) > 0 && r.chance(85) {
			i := r.intn(len(g.outst))
			o := g.outst[i]
			ev.peer, ev.seq = o.peer, o.seq
			switch r.intn(10) {
			case 0, 1, 2:
				ev.seid = 0 // "no such session on the CP side"
			case 3:
				ev.peer = g.peer() // possibly the wrong peer
				ev.seid = o.seid
			case 4:
				ev.seq = (o.seq + 1) & 0xffffff // matches nothing (or another request)
				ev.seid = o.seid
			default:
				ev.seid = o.seid
			}
			// the response overtakes the timeout event of a retransmission timer that has just fired: the stale
			// timeout is delivered right after the response
			if r.chance(25) {
				ev.fired = true
				g.forced = &event{typ: "tmo", tk: "tx", peer: o.peer, seq: o.seq, lists: map[string][]rule{}}
			}
			if r.chance(80) {
				g.outst = append(g.outst[:i], g.outst[i+1:]...)
			}
		} else {
			ev.peer, ev.seq, ev.seid = g.peer(), uint32(r.bits(24)), g.anySeid()
		}
	case "orsp":
		ev.peer, ev.kind = g.peer(), "orsp"
		ev.seq = uint32(r.intn(8))
		if len(g.outst) > 0 && r.chance(50) {
			o := g.outst[r.intn(len(g.outst))]
			ev.peer, ev.seq = o.peer, o.seq
		}
		ts := []uint8{message.MsgTypeHeartbeatResponse, message.MsgTypeAssociationSetupResponse, message.MsgTypeSessionEstablishmentResponse,
			message.MsgTypeSessionModificationResponse, message.MsgTypeSessionDeletionResponse}
		ev.mtype = int(ts[r.intn(len(ts))])
	case "junk":
		ev.peer, ev.kind = g.peer(), "junk"
		switch r.intn(5) {
		case 4:
			ev.raw = nil // zero-length datagram
		case 0:
			ev.raw = r.bytes(1 + r.intn(12))
		case 1:
			ev.raw = []byte{0x20, 0x63, 0x00, 0x04, 0, 0, 1, 0} // unknown message type 99: neither request nor response
		case 2:
			ev.raw = []byte{0x21, 0x32, 0x00} // truncated header
		default:
			ev.raw = []byte{0x20, 0x01, 0xff, 0xff, 0, 0, 1, 0} // length field lies
		}
		// the abstract event `junk` means: ignored by the loop before any table is consulted
		if cl := pfcp.VerifClassify(ev.raw); cl != "undecodable" && cl != "neither" && cl != "stop" {
			ev.raw = []byte{0x20, 0x63, 0x00, 0x04, 0, 0, 1, 0}
		}
	case "tmotx":
		ev.typ, ev.tk = "tmo", "tx"
		if len(g.outst) > 0 && r.chance(90) {
			o := g.outst[r.intn(len(g.outst))]
			ev.peer, ev.seq = o.peer, o.seq
		} else if len(g.sent) > 0 && r.chance(60) {
			// a stale transmit timeout whose "<address>-<sequence>" also names a request RECEIVED from that peer (the two
			// kinds of transaction share the key format): the retained response must survive it — a duplicate follows
			o := g.sent[len(g.sent)-1-r.intn(min(len(g.sent), 6))]
			ev.peer, ev.seq = o.peer, o.seq
			if r.chance(70) {
				cp := *o
				g.forced = &cp
			}
		} else {
			ev.peer, ev.seq = g.peer(), uint32(r.intn(8))
		}
	case "tmorx":
		ev.typ, ev.tk = "tmo", "rx"
		if len(g.sent) > 0 && r.chance(80) {
			o := g.sent[len(g.sent)-1-r.intn(min(len(g.sent), 8))]
			ev.peer, ev.seq = o.peer, o.seq
		} else if len(g.outst) > 0 && r.chance(70) {
			// a stale retention expiry whose "<address>-<sequence>" also names an OUTSTANDING request to that peer: the request
			// must be neither retried nor abandoned by it
			o := g.outst[r.intn(len(g.outst))]
			ev.peer, ev.seq = o.peer, o.seq
		} else {
			ev.peer, ev.seq = g.peer(), uint32(r.intn(8))
		}
	}
	return ev
}

func (g *ctlGen) genKind(kind string) *event {
	save := g.prof
	g.prof = map[string]int{kind: 1}
	ev := g.gen()
	g.prof = save
	return ev
}

// note what the UPF sent: issued SEIDs, outstanding Session Report Requests
func (g *ctlGen) observe(ev *event, sends map[int][]string) {
	if ev.typ == "recv" && ev.kind != "srrsp" && ev.kind != "orsp" && ev.kind != "junk" {
		g.sent = append(g.sent, ev)
	}
	for p, ss := range sends {
		for _, s := range ss {
			f := strings.Fields(s)
			m := kv(f[1:])
			switch f[0] {
			case "estrsp":
				if fs, ok := m["fseid"]; ok && fs != "-" {
					up, _ := strconv.ParseUint(strings.Split(fs, "/")[0], 16, 64)
					cp, _ := strconv.ParseUint(m["seid"], 16, 64)
					g.sess = append(g.sess, &sessShadow{peer: p, cp: cp, up: up})
					if ev.kind == "est" && ev.node == "4:p7" {
						g.dark = append(g.dark, up)
					}
				}
			case "srreq":
				seq, _ := strconv.ParseUint(m["seq"], 10, 32)
				seid, _ := strconv.ParseUint(m["seid"], 16, 64)
				dup := false
				for _, o := range g.outst {
					if o.peer == p && o.seq == uint32(seq) {
						dup = true
					}
				}
				if !dup {
					g.outst = append(g.outst, outSRR{p, uint32(seq), seid})
				}
			}
		}
	}
}

func argMap(args []string) map[string]string {
	m := map[string]string{}
	for _, a := range args {
		if i := strings.IndexByte(a, '='); i > 0 {
			m[a[:i]] = a[i+1:]
		}
	}
	return m
}

func atoiDef(s string, d int) int {
	if v, err := strconv.Atoi(s); err == nil {
		return v
	}
	return d
}

func runCtl(c *ctx) {
	am := argMap(c.args)
	netn := atoiDef(am["net"], 31)
	ncases := atoiDef(am["cases"], 40)
	nevents := atoiDef(am["events"], 40)
	profName := am["profile"]
	if profName == "" {
		profName = "mix"
	}
	shard, nshard := 0, 1
	if len(c.args) > 0 {
		fmt.Sscanf(c.args[0], "%d/%d", &shard, &nshard)
	}
	netn += shard
	peers := []int{1, 2, 3}
	e := newCtlEnv(c, netn, append(append([]int{}, peers...), 9, 11, 12, 13))
	// the corpus of the profile (minimised past failures, witnesses of known findings) runs first, on shard 0
	if am["corpus"] != "" && shard == 0 {
		if f, err := os.Open(am["corpus"]); err == nil {
			replayCases(c, e, f)
			f.Close()
		}
	}
	for cn := 0; cn < ncases; cn++ {
		r := newRng(c.rng.u64() ^ uint64(cn)<<32 ^ uint64(shard)<<48)
		maxRetrans := []int{0, 1, 2, 3, 3, 1}[r.intn(6)]
		txSeq := []uint32{0, 0, 0, 0xfffffe, 0xffffff, 0x1000000, 0x1000001, 0xffffffff, 0xfffffffe, uint32(r.u64())}[r.intn(10)]
		faultPct := []int{0, 0, 10, 30}[r.intn(4)]
		if am["faultpct"] != "" {
			faultPct = atoiDef(am["faultpct"], 0)
		}
		dpseed := r.u64() >> 1
		c.emit("C %d maxretrans=%d txseq=%x faultpct=%d dpseed=%d profile=%s", cn, maxRetrans, txSeq, faultPct, dpseed, profName)
		e.startServer(uint8(maxRetrans), txSeq, dpseed, faultPct)
		g := &ctlGen{e: e, r: r, c: c, seq: map[int]uint32{}, prof: profiles[profName], peers: peers, alt: true, maxRetrans: maxRetrans}
		if g.prof == nil {
			g.prof = profiles["mix"]
		}
		n := nevents/2 + r.intn(nevents)
		// most histories start with the peers associating
		for _, p := range peers {
			if r.chance(85) {
				ev := &event{typ: "recv", kind: "assoc", peer: p, seq: g.nextSeq(p), node: "4:p" + strconv.Itoa(p), lists: map[string][]rule{}}
				s, _ := e.exec(ev)
				g.observe(ev, s)
			}
		}
		// now and then a node whose address the UPF cannot reach associates too (from peer 1's socket)
		if r.chance(20) {
			ev := &event{typ: "recv", kind: "assoc", peer: 1, seq: g.nextSeq(1), node: "4:p7", lists: map[string][]rule{}}
			s, _ := e.exec(ev)
			g.observe(ev, s)
			g.p7 = true
		}
		for i := 0; i < n && !e.dead; i++ {
			ev := g.gen()
			c.count("ev." + ev.typ + "." + ev.kind + ev.tk)
			s, _ := e.exec(ev)
			g.observe(ev, s)
		}
		c.emit("Z %d", cn)
		e.stopServer()
	}
}

// ctlreplay <file>: re-executes the C / E lines of a trace or replay file
func runCtlReplay(c *ctx) {
	if len(c.args) < 1 {
		fmt.Fprintln(os.Stderr, "ctlreplay needs a file")
		os.Exit(2)
	}
	am := argMap(c.args[1:])
	netn := atoiDef(am["net"], 47)
	f, err := os.Open(c.args[0])
	if err != nil {
		fmt.Fprintln(os.Stderr, err)
		os.Exit(2)
	}
	defer f.Close()
	e := newCtlEnv(c, netn, []int{1, 2, 3, 9, 11, 12, 13})
	replayCases(c, e, f)
}

// replayCases re-executes cases written one per line (C and E lines joined by " ;; ") or one line per C / E
func replayCases(c *ctx, e *ctlEnv, f *os.File) {
	started := false
	sc := bufio.NewScanner(f)
	sc.Buffer(make([]byte, 1<<20), 1<<24)
	cn := 0
	var lines []string
	for sc.Scan() {
		// a replay file carries one case per line, its C and E lines joined by " ;; "
		if strings.HasPrefix(sc.Text(), "#") {
			continue // header of a replay file (may quote a shortened case)
		}
		for _, l := range strings.Split(sc.Text(), " ;; ") {
			lines = append(lines, strings.TrimSpace(l))
		}
	}
	for _, line := range lines {
		switch {
		case strings.HasPrefix(line, "C "):
			if started {
				c.emit("Z %d", cn)
				e.stopServer()
			}
			fs := strings.Fields(line)
			m := kv(fs[2:])
			cn = atoiDef(fs[1], 0)
			mr := atoiDef(m["maxretrans"], 3)
			ts, _ := strconv.ParseUint(m["txseq"], 16, 32)
			fp := atoiDef(m["faultpct"], 0)
			ds, _ := strconv.ParseUint(m["dpseed"], 10, 64)
			c.emit("%s", line)
			e.startServer(uint8(mr), uint32(ts), ds, fp)
			started = true
		case strings.HasPrefix(line, "E "):
			if !started {
				c.emit("C 0 maxretrans=3 txseq=0 faultpct=0 dpseed=1 profile=replay")
				e.startServer(3, 0, 1, 0)
				started = true
			}
			ev, err := parseEvent(line)
			if err != nil {
				fmt.Fprintln(os.Stderr, err)
				os.Exit(2)
			}
			c.count("corpus.event")
			e.exec(ev)
		}
	}
	if started {
		c.emit("Z %d", cn)
		e.stopServer()
	}
}
