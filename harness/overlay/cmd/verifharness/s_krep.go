//go:build verif

package main

import (
	"fmt"
	"net"
	"sort"
	"strings"
	"time"

	"github.com/khirono/go-nl"
	"github.com/wmnsk/go-pfcp/ie"
	"github.com/wmnsk/go-pfcp/message"

	"github.com/free5gc/go-gtp5gnl"
	"github.com/free5gc/go-upf/internal/forwarder"
)

// S-full (kernel usage reports): REPORT multicasts of the gtp5g module — one message carrying usage reports of several
// sessions — through the real buffnetlink listener, the running PfcpServer, to the simulated SMF.
//
//	T krep.reset = ok
//	T krep.est <cpseid hex> urr=<id+id> = <upseid hex|err>
//	T krep.del <upseid hex> = <cause>
//	T krep.report <upseid hex>:<urr>:<total volume>:<reporting trigger word hex> ... = <srr>|<srr>…   (sorted)
//	   srr = <cpseid hex>/<urr>.<ur-seqn>.<total volume>.<usage report trigger octets hex>+…        (IEs in message order)
func init() { register("krep", runKrep) }

func reportMsg(items [][4]uint64) *nl.Msg {
	var inner []byte
	for _, it := range items {
		var p []byte
		p = append(p, encAttr(gtp5gnl.UR_URRID, u32b(uint32(it[1])))...)
		p = append(p, encAttr(gtp5gnl.UR_USAGE_REPORT_TRIGGER, u32b(uint32(it[3])))...)
		vm := encAttr(gtp5gnl.UR_VOLUME_MEASUREMENT_TOVOL, u64b(it[2]))
		p = append(p, encAttr(gtp5gnl.UR_VOLUME_MEASUREMENT|0x8000, vm)...)
		p = append(p, encAttr(gtp5gnl.UR_START_TIME, u64b(1700000000000000000))...)
		p = append(p, encAttr(gtp5gnl.UR_END_TIME, u64b(1700000001000000000))...)
		p = append(p, encAttr(gtp5gnl.UR_SEID, u64b(it[0]))...)
		inner = append(inner, encAttr(gtp5gnl.UR|0x8000, p)...)
	}
	body := append([]byte{gtp5gnl.CMD_BUFFER_GTPU, 0, 0, 0}, encAttr(gtp5gnl.REPORT|0x8000, inner)...)
	return &nl.Msg{Body: body}
}

func (e *bufEnv) srrs(upOf map[uint64]uint64) string {
	var out []string
	for _, b := range drainConn(e.smf) {
		m, err := message.Parse(b)
		if err != nil {
			out = append(out, "unparsable")
			continue
		}
		sr, ok := m.(*message.SessionReportRequest)
		if !ok {
			continue
		}
		var rs []string
		for _, u := range sr.UsageReport {
			ch, err := u.UsageReport()
			if err != nil {
				rs = append(rs, "?")
				continue
			}
			var urr, seqn uint32
			var vol uint64
			trig := ""
			for _, c := range ch {
				switch c.Type {
				case ie.URRID:
					urr, _ = c.URRID()
				case ie.URSEQN:
					seqn, _ = c.URSEQN()
				case ie.UsageReportTrigger:
					trig = fmt.Sprintf("%x", c.Payload)
				case ie.VolumeMeasurement:
					if v, err := c.VolumeMeasurement(); err == nil {
						vol = v.TotalVolume
					}
				}
			}
			rs = append(rs, fmt.Sprintf("%d.%d.%d.%s", urr, seqn, vol, trig))
		}
		body := "-"
		if len(rs) > 0 {
			body = strings.Join(rs, "+")
		}
		out = append(out, fmt.Sprintf("%x/%s", sr.SEID(), body))
		rsp := message.NewSessionReportResponse(0, 0, upOf[sr.SEID()], sr.Sequence(), 0, ie.NewCause(ie.CauseRequestAccepted))
		rb, _ := rsp.Marshal()
		e.smf.WriteToUDP(rb, e.srvA)
	}
	if len(out) == 0 {
		return "-"
	}
	sort.Strings(out)
	return strings.Join(out, "|")
}

func runKrep(c *ctx) {
	netn := 250
	shard := 0
	for _, a := range c.args {
		if strings.HasPrefix(a, "net=") {
			fmt.Sscan(a[4:], &netn)
		}
		if strings.Contains(a, "/") {
			var n int
			fmt.Sscanf(a, "%d/%d", &shard, &n)
		}
	}
	netn += shard
	r := c.rng
	e := newBufEnv(c, netn)
	cases, evs := 12, 40
	if c.thorough() {
		cases, evs = 150, 60
	}
	trigs := []uint32{0x0100, 0x0200, 0x0400, 0x0800, 0x1000, 0x0001, 0x010000, 0x0300, 0, 0x8000}
	for cs := 0; cs < cases; cs++ {
		e.start()
		c.emit("T krep.reset = ok")
		var pend [][]byte
		e.rpc(message.NewAssociationSetupRequest(e.nextSeq(), ie.NewNodeID(e.ip(1), "", ""), ie.NewRecoveryTimeStamp(time.Unix(1700000000, 0))), &pend)
		upOf := map[uint64]uint64{}
		var ups []uint64
		cpNext := uint64(0x2000 * (cs + 1))
		est := func() {
			cp := cpNext
			cpNext++
			n := 1 + r.intn(3)
			var ids []string
			ies := []*ie.IE{ie.NewNodeID(e.ip(1), "", ""), ie.NewFSEID(cp, net.ParseIP(e.ip(1)), nil)}
			for u := 1; u <= n; u++ {
				ies = append(ies, ie.NewCreateURR(ie.NewURRID(uint32(u)), ie.NewMeasurementMethod(0, 1, 0), ie.NewReportingTriggers(0x02, 0x00)))
				ids = append(ids, fmt.Sprint(u))
			}
			rsp := e.rpc(message.NewSessionEstablishmentRequest(0, 0, 0, e.nextSeq(), 0, ies...), &pend)
			res := "err"
			if er, ok := rsp.(*message.SessionEstablishmentResponse); ok && causeOf(rsp) == "1" && er.UPFSEID != nil {
				if f, err := er.UPFSEID.FSEID(); err == nil {
					res = fmt.Sprintf("%x", f.SEID)
					upOf[cp] = f.SEID
					ups = append(ups, f.SEID)
				}
			}
			c.count("est")
			c.emit("T krep.est %x urr=%s = %s", cp, strings.Join(ids, "+"), res)
		}
		est()
		est()
		for ev := 0; ev < evs; ev++ {
			switch x := r.intn(100); {
			case x < 75 && len(ups) > 0:
				// one multicast with 1-6 reports over 1-3 sessions (live, and sometimes an unknown one)
				k := 1 + r.intn(6)
				var items [][4]uint64
				var toks []string
				for i := 0; i < k; i++ {
					up := ups[r.intn(len(ups))]
					if r.chance(7) {
						up = 0x7777
					}
					urr := uint64(1 + r.intn(4))
					vol := []uint64{0, 1, 1 << 32, ^uint64(0), r.bits(64)}[r.intn(5)]
					tr := uint64(trigs[r.intn(len(trigs))])
					items = append(items, [4]uint64{up, urr, vol, tr})
					toks = append(toks, fmt.Sprintf("%x:%d:%d:%x", up, urr, vol, tr))
				}
				c.count("report")
				c.count(fmt.Sprintf("report.sessions=%d", func() int {
					s := map[uint64]bool{}
					for _, it := range items {
						s[it[0]] = true
					}
					return len(s)
				}()))
				forwarder.VerifBuffServer(e.d.g).ServeMsg(reportMsg(items))
				e.settle()
				c.emit("T krep.report %s = %s", strings.Join(toks, " "), e.srrs(upOf))
			case x < 79 && len(ups) > 0:
				// a burst of single-report notifications for one URR while the loop is held inside a data-plane call (an
				// establishment whose Create FAR takes 250-450 ms): more of them than the report queue (128) holds wait their
				// turn — every one must still reach the SMF
				up := ups[r.intn(len(ups))]
				urr := uint64(1 + r.intn(4))
				n := 140 + r.intn(120)
				lat := time.Duration(250+r.intn(200)) * time.Millisecond
				e.d.k.mu.Lock()
				e.d.k.delay = map[uint8]time.Duration{gtp5gnl.CMD_ADD_FAR: lat}
				e.d.k.mu.Unlock()
				done := make(chan message.Message, 1)
				cpb := uint64(0x5000 + ev)
				go func() {
					done <- e.rpc(message.NewSessionEstablishmentRequest(0, 0, 0, e.nextSeq(), 0, ie.NewNodeID(e.ip(1), "", ""),
						ie.NewFSEID(cpb, net.ParseIP(e.ip(1)), nil), ie.NewCreateFAR(ie.NewFARID(9), ie.NewApplyAction(0x02))), &pend)
				}()
				time.Sleep(10 * time.Millisecond)
				bsrv := forwarder.VerifBuffServer(e.d.g)
				for k := 0; k < n; k++ {
					bsrv.ServeMsg(reportMsg([][4]uint64{{up, urr, uint64(k), 0x100}}))
				}
				rsp := <-done
				e.d.k.mu.Lock()
				e.d.k.delay = nil
				e.d.k.mu.Unlock()
				e.settle()
				time.Sleep(20 * time.Millisecond)
				e.settle()
				got := 0
				for _, b := range append(pend, drainConn(e.smf)...) {
					if m, err := message.Parse(b); err == nil {
						if sr, ok := m.(*message.SessionReportRequest); ok {
							got += len(sr.UsageReport)
						}
					}
				}
				pend = nil
				bres := "err"
				if er, ok := rsp.(*message.SessionEstablishmentResponse); ok && causeOf(rsp) == "1" && er.UPFSEID != nil {
					if f, err := er.UPFSEID.FSEID(); err == nil {
						bres = fmt.Sprintf("%x", f.SEID)
						upOf[cpb] = f.SEID
						ups = append(ups, f.SEID)
					}
				}
				c.count("burst")
				c.emit("T krep.burst %x %d %d %x = %s n=%d", up, urr, n, cpb, bres, got)
			case x < 85 && len(ups) > 0:
				i := r.intn(len(ups))
				rsp := e.rpc(message.NewSessionDeletionRequest(0, 0, ups[i], e.nextSeq(), 0), &pend)
				c.count("del")
				c.emit("T krep.del %x = %s", ups[i], causeOf(rsp))
				ups = append(ups[:i], ups[i+1:]...)
			default:
				if len(ups) < 4 {
					est()
				}
			}
		}
		e.stop()
		drainConn(e.smf)
	}
}
