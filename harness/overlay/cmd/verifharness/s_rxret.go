//go:build verif

package main

import (
	"time"

	"github.com/free5gc/go-upf/internal/pfcp"
)

// S-pure / rx retention (C06): the retention window a receive transaction is created with.
//
//	T rx.retention <timeout ns> <maxRetrans> = <window ns>
func init() { register("rxret", runRxRet) }

func runRxRet(c *ctx) {
	ts := []time.Duration{time.Millisecond, 3 * time.Second, time.Hour, 1, 12345678901}
	for i := 0; i < 6; i++ {
		ts = append(ts, time.Duration(1+c.rng.intn(1<<40)))
	}
	for _, t := range ts {
		for n := 0; n < 256; n++ { // every value the configuration accepts
			c.count("retention")
			c.emit("T rx.retention %d %d = %d", int64(t), n, int64(pfcp.VerifRxRetention(t, uint8(n))))
		}
	}
}
