//go:build verif

package main

import (
	"bytes"
	"fmt"
	"os"
	"runtime/pprof"
	"sort"
	"strings"
	"sync"
	"time"

	"github.com/free5gc/go-gtp5gnl"
	"github.com/free5gc/go-upf/internal/forwarder"
	"github.com/free5gc/go-upf/internal/forwarder/perio"
	"github.com/free5gc/go-upf/internal/logger"
	"github.com/free5gc/go-upf/internal/report"
)

// S-perio: the real perio.Server with injected events, a recording query callback and a recording handler.
//
//	T perio.reset = ok                                                   a fresh server
//	T perio.add <seid hex> <urr> <period s> = g=<groups> t=<tickers>
//	T perio.del <seid hex> <urr> = g=<groups> t=<tickers>
//	T perio.tick <period s> <all|none|err|part> <flags hex> = q=<pairs|-> n=<notifications|-> g=<groups> t=<tickers>
//	T perio.close = g=<groups> t=<tickers>
//	T perio.batch <N> <seid hex>:<count> ... = <s/u,s/u|s/u,...>         GET_MULTI_REPORTS requests of one query
//
// groups: "period:seid/urr+urr,seid/urr;period:…" sorted; pairs: "seid/urr,…" sorted; notifications: "seid:urr.flags+…,…"
// sorted by seid (one entry per NotifySessReport call). Periods are hours, so no real ticker fires during a run.
func init() { register("perio", runPerio) }

type perioRec struct {
	mu     sync.Mutex
	q      []string // queries made (canonical), since last take
	n      []string // notifications
	held   []report.SessReport
	mode   string
	flags  uint32
	nquery int
}

// NotifySessReport keeps the notification as handed over and reads it only when the tick is over — as the
// PFCP server does, which queues it for the event loop: what a session is told must not depend on what the
// periodic server does after the hand-over.
func (p *perioRec) NotifySessReport(sr report.SessReport) {
	p.mu.Lock()
	defer p.mu.Unlock()
	p.held = append(p.held, sr)
}

func (p *perioRec) render() {
	for _, sr := range p.held {
		var rs []string
		for _, r := range sr.Reports {
			u, ok := r.(report.USAReport)
			if !ok {
				rs = append(rs, "?")
				continue
			}
			rs = append(rs, fmt.Sprintf("%d.%x", u.URRID, u.USARTrigger.Flags))
		}
		p.n = append(p.n, fmt.Sprintf("%x:%s", sr.SEID, strings.Join(rs, "+")))
	}
	p.held = nil
}

func (p *perioRec) PopBufPkt(uint64, uint16) ([]byte, bool) { return nil, false }

func (p *perioRec) query(m map[uint64][]uint32) (map[uint64][]report.USAReport, error) {
	p.mu.Lock()
	defer p.mu.Unlock()
	var pairs []string
	for seid, us := range m {
		for _, u := range us {
			pairs = append(pairs, fmt.Sprintf("%x/%d", seid, u))
		}
	}
	sort.Strings(pairs)
	if len(pairs) == 0 {
		p.q = append(p.q, "empty")
	} else {
		p.q = append(p.q, strings.Join(pairs, ","))
	}
	switch p.mode {
	case "err":
		return nil, fmt.Errorf("scripted failure")
	case "none":
		return nil, nil
	}
	out := map[uint64][]report.USAReport{}
	for seid, us := range m {
		us2 := append([]uint32(nil), us...)
		sort.Slice(us2, func(i, j int) bool { return us2[i] < us2[j] })
		for k, u := range us2 {
			if p.mode == "part" && k%2 == 1 {
				continue // the data plane reports only every other URR
			}
			r := report.USAReport{URRID: u}
			r.USARTrigger.Flags = p.flags
			out[seid] = append(out[seid], r)
		}
	}
	return out, nil
}

func (p *perioRec) take() (string, string) {
	p.mu.Lock()
	defer p.mu.Unlock()
	q, n := "-", "-"
	if len(p.q) > 0 {
		q = strings.Join(p.q, "|")
	}
	p.render()
	if len(p.n) > 0 {
		sort.Strings(p.n)
		n = strings.Join(p.n, ",")
	}
	p.q, p.n = nil, nil
	return q, n
}

// tickerGoroutines counts the goroutines running a period ticker.
func tickerGoroutines() int {
	var b bytes.Buffer
	pprof.Lookup("goroutine").WriteTo(&b, 2)
	return strings.Count(b.String(), "perio.(*PERIOGroup).newTicker.func1")
}

// settledTickers waits (briefly) for stopped ticker goroutines to leave, then reports the count.
func settledTickers(want int) int {
	n := tickerGoroutines()
	for i := 0; i < 200 && n != want; i++ {
		time.Sleep(100 * time.Microsecond)
		n = tickerGoroutines()
	}
	return n
}

func runPerio(c *ctx) {
	logger.Log.SetOutput(devNull{})
	r := c.rng
	cases := 40
	evs := 60
	if c.thorough() {
		cases = 1500
		evs = 120
	}
	for cs := 0; cs < cases; cs++ {
		wg := &sync.WaitGroup{}
		ps, err := perio.OpenServer(wg)
		if err != nil {
			fmt.Fprintln(os.Stderr, "harness: perio:", err)
			die(3)
		}
		rec := &perioRec{}
		ps.Handle(rec, rec.query)
		c.emit("T perio.reset = ok")
		// pools; registered[(seid,urr)] = period (the hypothesis of C15: a URR is registered at most once at a time)
		nSeid, nUrr, nPer := 1+r.intn(4), 1+r.intn(5), 1+r.intn(3)
		seids := make([]uint64, nSeid)
		for i := range seids {
			seids[i] = []uint64{1, 2, 1 << 32, ^uint64(0), r.bits(64)}[r.intn(5)] + uint64(i)
		}
		reg := map[[2]uint64]int{}
		groupsN := func() int {
			s := map[int]bool{}
			for _, p := range reg {
				s[p] = true
			}
			return len(s)
		}
		closed := false
		state := func() string {
			perio.VerifSync(ps)
			return fmt.Sprintf("g=%s t=%d", perio.VerifDump(ps), settledTickers(groupsN()))
		}
		for e := 0; e < evs && !closed; e++ {
			seid := seids[r.intn(nSeid)]
			urr := uint64(1 + r.intn(nUrr))
			per := 3600 * (1 + r.intn(nPer))
			k := [2]uint64{seid, urr}
			switch x := r.intn(100); {
			case x < 40:
				if old, ok := reg[k]; ok {
					per = old // re-adding a registered URR: only with its own period (idempotent)
				}
				reg[k] = per
				c.count("add")
				ps.AddPeriodReportTimer(seid, uint32(urr), time.Duration(per)*time.Second)
				c.emit("T perio.add %x %d %d = %s", seid, urr, per, state())
			case x < 70:
				if _, ok := reg[k]; ok {
					c.count("del.registered")
				} else {
					c.count("del.unknown")
				}
				delete(reg, k)
				ps.DelPeriodReportTimer(seid, uint32(urr))
				c.emit("T perio.del %x %d = %s", seid, urr, state())
			case x < 98:
				rec.mode = []string{"all", "all", "all", "part", "none", "err"}[r.intn(6)]
				rec.flags = uint32(r.bits(32)) &^ 1
				if r.chance(20) {
					rec.flags |= 1
				}
				if r.chance(15) {
					per = 3600 * (nPer + 1 + r.intn(2)) // a period nobody uses (stale tick)
				}
				c.count("tick." + rec.mode)
				perio.VerifTick(ps, time.Duration(per)*time.Second)
				st := state()
				q, n := rec.take()
				c.emit("T perio.tick %d %s %x = q=%s n=%s %s", per, rec.mode, rec.flags, q, n, st)
			default:
				// close: queue a tick behind the close; it must never be served
				c.count("close")
				ps.Close()
				wg.Wait()
				closed = true
				reg = map[[2]uint64]int{}
				c.emit("T perio.close = g=%s t=%d", perio.VerifDump(ps), settledTickers(0))
			}
		}
		if !closed {
			ps.Close()
			wg.Wait()
			c.emit("T perio.close = g=%s t=%d", perio.VerifDump(ps), settledTickers(0))
		}
	}

	// batching of one multi-URR query by the real driver
	e := newDrvEnv()
	N := gtp5gnl.MaxNetlinkUsageReportNum()
	nb := 60
	if c.thorough() {
		nb = 1500
	}
	for i := 0; i < nb; i++ {
		total := []int{0, 1, N - 1, N, N + 1, 2*N - 1, 2 * N, 2*N + 1, 3 * N, r.intn(4*N + 2), r.intn(12 * N)}[r.intn(11)]
		ns := 1 + r.intn(6)
		m := map[uint64][]uint32{}
		var toks []string
		left := total
		for s := 0; s < ns; s++ {
			cnt := left
			if s < ns-1 {
				cnt = r.intn(left + 1)
			}
			left -= cnt
			seid := uint64(1000 + s)
			if r.chance(20) {
				seid = ^uint64(0) - uint64(s)
			}
			if cnt == 0 && r.chance(50) {
				continue
			}
			var us []uint32
			for u := 0; u < cnt; u++ {
				us = append(us, uint32(u+1))
			}
			m[seid] = us
			toks = append(toks, fmt.Sprintf("%x:%d", seid, cnt))
		}
		c.count(fmt.Sprintf("batch.total/N=%d", total/N))
		e.reqs()
		// the data plane answers with one report per URR asked for: what the query hands back must hold each registered URR's
		// report once — also when the number of URRs is an exact multiple of the batch size
		for _, kk := range []*simKernel{e.k, e.pk} {
			kk.mu.Lock()
			kk.reports = func(cmd uint8, seid uint64, urr uint32) [][]byte { return [][]byte{usaReportAttr(seid, urr)} }
			kk.mu.Unlock()
		}
		got, qerr := forwarder.VerifQueryMulti(e.g, m)
		nret, ndup, nforeign := 0, 0, 0
		seen := map[[2]uint64]int{}
		for sd, rs := range got {
			for _, rp := range rs {
				nret++
				k2 := [2]uint64{sd, uint64(rp.URRID)}
				seen[k2]++
				if seen[k2] == 2 {
					ndup++
				}
				known := false
				for _, u := range m[sd] {
					if u == rp.URRID {
						known = true
					}
				}
				if !known {
					nforeign++
				}
			}
		}
		ret := fmt.Sprintf("ret=%d/%d/%d", nret, ndup, nforeign)
		if qerr != nil {
			ret = "ret=err"
		}
		var bs []string
		for _, l := range append(e.k.takeLog(), e.pk.takeLog()...) {
			parts := strings.Split(l, "/")
			if len(parts) != 4 || parts[0] != fmt.Sprint(gtp5gnl.CMD_GET_MULTI_REPORTS) {
				bs = append(bs, "?"+parts[0])
				continue
			}
			bs = append(bs, parts[3])
		}
		res := "-"
		if len(bs) > 0 {
			res = strings.Join(bs, "|")
		}
		c.emit("T perio.batch %d %s = %s %s", N, strings.Join(toks, " "), res, ret)
	}
}
