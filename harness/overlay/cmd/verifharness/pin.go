//go:build verif

package main

import (
	"os"
	"strconv"
	"syscall"
	"unsafe"
)

// pinToCPU binds every thread of this process (and hence every thread created later) to one CPU.
// On a single CPU the loopback receive path runs in the sender's own syscall, so datagrams sent by the UPF to
// different sockets are queued in the order they were sent — the lock-step protocol of the S-ctl stream
// (response first, then the fence's answer) relies on that order.
func pinToCPU(cpu int) {
	var mask [16]uint64
	mask[cpu/64] = 1 << uint(cpu%64)
	ents, err := os.ReadDir("/proc/self/task")
	if err != nil {
		return
	}
	for _, e := range ents {
		tid, err := strconv.Atoi(e.Name())
		if err != nil {
			continue
		}
		syscall.RawSyscall(syscall.SYS_SCHED_SETAFFINITY, uintptr(tid), uintptr(len(mask)*8), uintptr(unsafe.Pointer(&mask[0])))
	}
}
