//go:build verif

package main

import (
	"context"
	"fmt"
	"net"
	"os"
	"os/exec"
	"path/filepath"
	"strings"
	"sync"
	"time"

	"github.com/free5gc/go-upf/internal/forwarder"
	"github.com/free5gc/go-upf/internal/logger"
	"github.com/free5gc/go-upf/pkg/factory"
)

// S-config: the real factory.ReadConfig / forwarder.NewDriver pre-checks on generated YAML documents, and the real
// Gtp5g.checkVersion against the simulated kernel's GET_VERSION reply.
//
//	T cfg.start version=<c> description=<c> pfcp=<sec> gtpu=<sec> dnnList=<list> logger=<sec> resolves=<0|1> = read=<ok|err> drv=<open|pre|-> vals=<same|differ|->
//	T cfg.version <x.y.z | x.y | raw:<hex>> = ok|err
//
// field classes: A absent, E explicit zero value, B present but violating the validator, G good, T wrong YAML shape.
// sections: A absent, N null, T wrong shape, {k=c,...}; lists: A, N, T, [k=c.k=c|k=c.k=c] ([] = empty list).
func init() { register("config", runConfig); register("config-drv", runConfigDrv) }

// config-drv <file>: ReadConfig + NewDriver in a fresh process; prints "DRV open|pre|started|readerr".
func runConfigDrv(c *ctx) {
	logger.Log.SetOutput(devNull{})
	res := "readerr"
	if len(c.args) > 0 {
		if cfg, err := factory.ReadConfig(c.args[0]); err == nil {
			wg := &sync.WaitGroup{}
			_, derr := forwarder.NewDriver(wg, cfg)
			switch {
			case derr == nil:
				res = "started"
			case strings.Contains(derr.Error(), "open Gtp5g"):
				res = "open"
			default:
				res = "pre"
			}
		}
	}
	fmt.Println("DRV " + res)
	os.Stdout.Sync()
	os.Exit(0)
}

type cfgGen struct {
	r *rng
}

type fval struct {
	class string // A E B G T
	yaml  string // rendered scalar (for E B G T), unused for A
	want  string // canonical value expected in the running configuration (for G / E)
}

func (g *cfgGen) str(goods, bads []string, class string) fval {
	switch class {
	case "A":
		return fval{class: "A"}
	case "E":
		return fval{class: "E", yaml: `""`, want: ""}
	case "B":
		v := bads[g.r.intn(len(bads))]
		return fval{class: "B", yaml: fmt.Sprintf("%q", v), want: v}
	case "T":
		return fval{class: "T", yaml: g.r.pick("{a: 1}", "[1, 2]")}
	}
	v := goods[g.r.intn(len(goods))]
	return fval{class: "G", yaml: fmt.Sprintf("%q", v), want: v}
}

func (g *cfgGen) num(goods []string, class string, badTyped []string) fval {
	switch class {
	case "A":
		return fval{class: "A"}
	case "E":
		return fval{class: "E", yaml: "0", want: "0"}
	case "T":
		return fval{class: "T", yaml: badTyped[g.r.intn(len(badTyped))]}
	}
	v := goods[g.r.intn(len(goods))]
	return fval{class: "G", yaml: v, want: v}
}

func (g *cfgGen) boolean(class string) fval {
	switch class {
	case "A":
		return fval{class: "A"}
	case "E":
		return fval{class: "E", yaml: "false", want: "false"}
	case "T":
		return fval{class: "T", yaml: g.r.pick(`"maybe"`, "[true]")}
	}
	return fval{class: "G", yaml: "true", want: "true"}
}

// pickClass: mostly good; `faulty` forces a fault class among the allowed ones.
func (g *cfgGen) pickClass(allowed string, faultPct int) string {
	if g.r.chance(faultPct) {
		return string(allowed[g.r.intn(len(allowed))])
	}
	return "G"
}

type cfgDoc struct {
	yaml  []string
	toks  []string
	want  []string // canonical "path=value" of what the running configuration must hold
	node  string
	fault int
}

func (d *cfgDoc) field(indent, key string, v fval, path string) string {
	if v.class != "A" {
		d.yaml = append(d.yaml, fmt.Sprintf("%s%s: %s", indent, key, v.yaml))
	}
	if v.class == "G" || v.class == "E" || v.class == "B" {
		d.want = append(d.want, path+"="+v.want)
	}
	if v.class != "G" {
		d.fault++
	}
	return key + "=" + v.class
}

func (g *cfgGen) doc(fp int, force string) *cfgDoc {
	d := &cfgDoc{}
	f := func(allowed string) string {
		if force != "" {
			return "G"
		}
		return g.pickClass(allowed, fp)
	}
	secClass := func() string {
		if force != "" || !g.r.chance(fp) {
			return "P"
		}
		return g.r.pick("A", "N", "T")
	}
	hostsGood := []string{"127.0.0.8", "10.200.200.101", "upf.example.org", "localhost"}
	hostsBad := []string{"not a host", "a..b", "-x-.example", "256.1.1.1.1/x"}
	d.toks = append(d.toks, d.field("", "version", g.str([]string{"1.0.3"}, []string{"1.0.2", "1.0.30", "2.0.0"}, f("AEBT")), "version"))
	d.toks = append(d.toks, d.field("", "description", g.str([]string{"UPF configuration"}, nil, f("AET")), "description"))
	// pfcp
	switch sc := secClass(); sc {
	case "A":
		d.toks = append(d.toks, "pfcp=A")
		d.fault++
	case "N":
		d.yaml = append(d.yaml, "pfcp: "+g.r.pick("null", "~", ""))
		d.toks = append(d.toks, "pfcp=N")
		d.fault++
	case "T":
		d.yaml = append(d.yaml, "pfcp: "+g.r.pick("5", `"text"`, "[1]"))
		d.toks = append(d.toks, "pfcp=T")
		d.fault++
	default:
		d.yaml = append(d.yaml, "pfcp:")
		var ts []string
		ts = append(ts, d.field("  ", "addr", g.str(hostsGood, hostsBad, f("AEBT")), "pfcp.addr"))
		nodeGood := []string{"127.0.0.8", "127.0.0.8", "localhost", "::1", "2001:db8::77", "unresolvable-node.invalid"}
		nv := g.str(nodeGood, hostsBad, f("AEBT"))
		if nv.class == "G" {
			d.node = nv.want
		}
		ts = append(ts, d.field("  ", "nodeID", nv, "pfcp.nodeID"))
		rt := g.num([]string{"1s", "500ms", "3000000000"}, f("AET"), []string{`"soon"`, "[1]", "{a: 1}"})
		if rt.class == "E" {
			rt.yaml = g.r.pick("0", "0s")
		}
		ts = append(ts, d.field("  ", "retransTimeout", rt, "pfcp.retransTimeout"))
		ts = append(ts, d.field("  ", "maxRetrans", g.num([]string{"3", "1", "255"}, f("AET"), []string{"256", "-1", `"many"`}), "pfcp.maxRetrans"))
		d.toks = append(d.toks, "pfcp={"+strings.Join(ts, ",")+"}")
	}
	// gtpu
	switch sc := secClass(); sc {
	case "A":
		d.toks = append(d.toks, "gtpu=A")
		d.fault++
	case "N":
		d.yaml = append(d.yaml, "gtpu: "+g.r.pick("null", "~", ""))
		d.toks = append(d.toks, "gtpu=N")
		d.fault++
	case "T":
		d.yaml = append(d.yaml, "gtpu: "+g.r.pick("5", `"gtp5g"`))
		d.toks = append(d.toks, "gtpu=T")
		d.fault++
	default:
		d.yaml = append(d.yaml, "gtpu:")
		var ts []string
		ts = append(ts, d.field("  ", "forwarder", g.str([]string{"gtp5g"}, []string{"dpdk", "gtp5", "GTP5G"}, f("AEBT")), "gtpu.forwarder"))
		switch lc := func() string {
			if force != "" || !g.r.chance(fp) {
				return "P"
			}
			return g.r.pick("A", "N", "T", "0")
		}(); lc {
		case "A":
			ts = append(ts, "ifList=A")
			d.fault++
		case "N":
			d.yaml = append(d.yaml, "  ifList: "+g.r.pick("null", "~"))
			ts = append(ts, "ifList=N")
			d.fault++
		case "T":
			d.yaml = append(d.yaml, "  ifList: "+g.r.pick("5", `"N3"`, "{addr: 1.2.3.4}"))
			ts = append(ts, "ifList=T")
			d.fault++
		case "0":
			d.yaml = append(d.yaml, "  ifList: []")
			ts = append(ts, "ifList=[]")
			d.fault++
		default:
			d.yaml = append(d.yaml, "  ifList:")
			n := 1 + g.r.intn(3)
			var es []string
			for i := 0; i < n; i++ {
				p := fmt.Sprintf("gtpu.ifList[%d].", i)
				var fs []string
				// first key carries the dash; an entry needs at least one key: addr is rendered even when "absent" would drop it
				av := g.str([]string{"10.200.200.102", "127.0.0.8", "gnb-side.example.org"}, hostsBad, f("EBT"))
				d.yaml = append(d.yaml, "    - addr: "+av.yaml)
				if av.class != "T" {
					d.want = append(d.want, p+"addr="+av.want)
				}
				if av.class != "G" {
					d.fault++
				}
				fs = append(fs, "addr="+av.class)
				fs = append(fs, d.field("      ", "type", g.str([]string{"N3", "N9"}, []string{"N6", "n3", "N3 "}, f("AEBT")), p+"type"))
				fs = append(fs, d.field("      ", "name", g.str([]string{"upf.5gc.nctu.me"}, nil, f("AET")), p+"name"))
				fs = append(fs, d.field("      ", "ifname", g.str([]string{"gtpif"}, nil, f("AET")), p+"ifname"))
				fs = append(fs, d.field("      ", "mtu", g.num([]string{"1400", "9000", "4294967295"}, f("AET"), []string{"4294967296", `"big"`, "-5"}), p+"mtu"))
				es = append(es, strings.Join(fs, "."))
			}
			ts = append(ts, "ifList=["+strings.Join(es, "|")+"]")
		}
		d.toks = append(d.toks, "gtpu={"+strings.Join(ts, ",")+"}")
	}
	// dnnList
	switch lc := func() string {
		if force != "" || !g.r.chance(fp) {
			return "P"
		}
		return g.r.pick("A", "N", "T", "0")
	}(); lc {
	case "A":
		d.toks = append(d.toks, "dnnList=A")
		d.fault++
	case "N":
		d.yaml = append(d.yaml, "dnnList: "+g.r.pick("null", "~"))
		d.toks = append(d.toks, "dnnList=N")
		d.fault++
	case "T":
		d.yaml = append(d.yaml, "dnnList: "+g.r.pick("5", `"internet"`, "{dnn: internet}"))
		d.toks = append(d.toks, "dnnList=T")
		d.fault++
	case "0":
		d.yaml = append(d.yaml, "dnnList: []")
		d.toks = append(d.toks, "dnnList=[]")
		d.fault++
	default:
		d.yaml = append(d.yaml, "dnnList:")
		n := 1 + g.r.intn(3)
		var es []string
		for i := 0; i < n; i++ {
			p := fmt.Sprintf("dnnList[%d].", i)
			var fs []string
			cv := g.str([]string{"10.60.0.0/16", "10.61.0.0/24", "0.0.0.0/0", "2001:db8::/32"}, []string{"10.60.0.0/33", "10.60.0.0", "internet", "10.60.0/16"}, f("EBT"))
			d.yaml = append(d.yaml, "  - cidr: "+cv.yaml)
			if cv.class != "T" {
				d.want = append(d.want, p+"cidr="+cv.want)
			}
			if cv.class != "G" {
				d.fault++
			}
			fs = append(fs, d.field("    ", "dnn", g.str([]string{"internet", "ims"}, nil, f("AET")), p+"dnn"))
			fs = append(fs, "cidr="+cv.class)
			fs = append(fs, d.field("    ", "natifname", g.str([]string{"eth0"}, nil, f("AET")), p+"natifname"))
			es = append(es, strings.Join(fs, "."))
		}
		d.toks = append(d.toks, "dnnList=["+strings.Join(es, "|")+"]")
	}
	// logger
	switch sc := secClass(); sc {
	case "A":
		d.toks = append(d.toks, "logger=A")
		d.fault++
	case "N":
		d.yaml = append(d.yaml, "logger: "+g.r.pick("null", "~", ""))
		d.toks = append(d.toks, "logger=N")
		d.fault++
	case "T":
		d.yaml = append(d.yaml, "logger: "+g.r.pick("info", "[1]"))
		d.toks = append(d.toks, "logger=T")
		d.fault++
	default:
		d.yaml = append(d.yaml, "logger:")
		var ts []string
		ts = append(ts, d.field("  ", "enable", g.boolean(f("AET")), "logger.enable"))
		ts = append(ts, d.field("  ", "level", g.str([]string{"trace", "debug", "info", "warn", "error", "fatal", "panic"}, []string{"verbose", "INFO", "warning", "inf"}, f("AEBT")), "logger.level"))
		ts = append(ts, d.field("  ", "reportCaller", g.boolean(f("AET")), "logger.reportCaller"))
		d.toks = append(d.toks, "logger={"+strings.Join(ts, ",")+"}")
	}
	return d
}

func cfgValues(c *factory.Config) map[string]string {
	m := map[string]string{}
	m["version"] = c.Version
	m["description"] = c.Description
	if c.Pfcp != nil {
		m["pfcp.addr"] = c.Pfcp.Addr
		m["pfcp.nodeID"] = c.Pfcp.NodeID
		m["pfcp.retransTimeout"] = c.Pfcp.RetransTimeout.String()
		m["pfcp.maxRetrans"] = fmt.Sprint(c.Pfcp.MaxRetrans)
	}
	if c.Gtpu != nil {
		m["gtpu.forwarder"] = c.Gtpu.Forwarder
		for i, e := range c.Gtpu.IfList {
			p := fmt.Sprintf("gtpu.ifList[%d].", i)
			m[p+"addr"], m[p+"type"], m[p+"name"], m[p+"ifname"], m[p+"mtu"] = e.Addr, e.Type, e.Name, e.IfName, fmt.Sprint(e.MTU)
		}
	}
	for i, e := range c.DnnList {
		p := fmt.Sprintf("dnnList[%d].", i)
		m[p+"dnn"], m[p+"cidr"], m[p+"natifname"] = e.Dnn, e.Cidr, e.NatIfName
	}
	if c.Logger != nil {
		m["logger.enable"] = fmt.Sprint(c.Logger.Enable)
		m["logger.level"] = c.Logger.Level
		m["logger.reportCaller"] = fmt.Sprint(c.Logger.ReportCaller)
	}
	return m
}

func durCanon(s string) string {
	// the generator writes durations as "1s", "500ms" or plain nanoseconds
	if d, err := time.ParseDuration(s); err == nil {
		return d.String()
	}
	var n int64
	if _, err := fmt.Sscan(s, &n); err == nil {
		return time.Duration(n).String()
	}
	return s
}

var resolveCache = map[string]bool{}

// resolves: the environment's answer for the node id (the harness's own look-up, bounded in time)
func resolves(host string) bool {
	if host == "" {
		return false
	}
	if v, ok := resolveCache[host]; ok {
		return v
	}
	ctx, cancel := context.WithTimeout(context.Background(), 3*time.Second)
	defer cancel()
	ips, err := net.DefaultResolver.LookupIP(ctx, "ip4", host)
	v := err == nil && len(ips) > 0
	resolveCache[host] = v
	return v
}

func runConfig(c *ctx) {
	logger.Log.SetOutput(devNull{})
	r := c.rng
	g := &cfgGen{r: r}
	dir, err := os.MkdirTemp("", "verifcfg")
	if err != nil {
		fmt.Fprintln(os.Stderr, "harness:", err)
		die(3)
	}
	defer os.RemoveAll(dir)
	n := 1200
	if c.thorough() {
		n = 40000
	}
	for i := 0; i < n; i++ {
		var d *cfgDoc
		switch {
		case i%6 == 0:
			d = g.doc(0, "valid")
		case i%6 <= 3:
			d = g.doc(4, "") // about one fault
		default:
			d = g.doc(15, "") // several faults
		}
		path := filepath.Join(dir, "upfcfg.yaml")
		if err := os.WriteFile(path, []byte(strings.Join(d.yaml, "\n")+"\n"), 0o600); err != nil {
			fmt.Fprintln(os.Stderr, "harness:", err)
			die(3)
		}
		res := 0
		if d.node != "" && resolves(d.node) {
			res = 1
		}
		switch {
		case d.fault == 0:
			c.count("doc.valid")
		case d.fault == 1:
			c.count("doc.1fault")
		default:
			c.count("doc.multifault")
		}
		out := guard(func() string {
			cfg, err := factory.ReadConfig(path)
			if err != nil {
				return "read=err drv=- vals=-"
			}
			vals := "same"
			got := cfgValues(cfg)
			for _, w := range d.want {
				k, v, _ := strings.Cut(w, "=")
				if strings.HasSuffix(k, "retransTimeout") {
					v = durCanon(v)
				}
				if got[k] != v {
					vals = "differ:" + k
					break
				}
			}
			// NewDriver opens (and on failure closes) netlink sockets and an epoll mux; run it in a process of its own so
			// that its descriptor handling cannot disturb this one
			drv := "?"
			self, _ := os.Executable()
			cmd := exec.Command(self, "-out", "-", "config-drv", path)
			var eb strings.Builder
			cmd.Stderr = &eb
			b, err := cmd.Output()
			for _, ln := range strings.Split(string(b), "\n") {
				if strings.HasPrefix(ln, "DRV ") {
					drv = strings.TrimPrefix(ln, "DRV ")
				}
			}
			if err != nil || drv == "?" {
				// the start-up code itself went down (panic / fatal): an observation about go-upf, not a harness error
				first := strings.SplitN(strings.TrimSpace(eb.String()), "\n", 2)[0]
				drv = "crash:" + strings.ReplaceAll(first, " ", "_")
			}
			return fmt.Sprintf("read=ok drv=%s vals=%s", drv, vals)
		})
		c.emit("T cfg.start %s resolves=%d yaml=%x = %s", strings.Join(d.toks, " "), res, strings.Join(d.yaml, "\n")+"\n", out)
	}

	// gtp5g version window through the real checkVersion and the simulated GET_VERSION
	e := newDrvEnv()
	seg := func() uint64 {
		switch r.intn(6) {
		case 0:
			return uint64(r.intn(3))
		case 1:
			return 8 + uint64(r.intn(4))
		case 2:
			return uint64(r.intn(12))
		case 3:
			return 1 << 32
		default:
			return uint64(r.intn(100))
		}
	}
	nv := 400
	if c.thorough() {
		nv = 6000
	}
	for i := 0; i < nv; i++ {
		var v, tok string
		switch x := r.intn(20); {
		case x == 0:
			raw := r.pick("abc", "", "x.y.z", "0.9.", ".9.5", "0,9,5")
			v, tok = raw, fmt.Sprintf("raw:%x", raw)
			if raw == "" {
				tok = "raw:-"
			}
		case x == 1:
			a, b := seg(), seg()
			v = fmt.Sprintf("%d.%d", a, b)
			tok = v
		case x < 8:
			// the grid around both bounds
			v = fmt.Sprintf("0.%d.%d", 8+r.intn(4), r.intn(12))
			tok = v
		default:
			v = fmt.Sprintf("%d.%d.%d", seg()%3, seg(), seg())
			tok = v
		}
		e.k.mu.Lock()
		e.k.version = v
		e.k.mu.Unlock()
		c.count("version")
		res := guard(func() string { return resStr(forwarder.VerifCheckVersion(e.g)) })
		e.reqs()
		c.emit("T cfg.version %s = %s", tok, res)
	}
}
