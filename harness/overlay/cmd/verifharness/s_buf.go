//go:build verif

package main

import (
	"encoding/hex"
	"fmt"
	"io"
	"net"
	"os"
	"runtime"
	"sort"
	"strings"
	"sync"
	"sync/atomic"
	"syscall"
	"time"

	"github.com/khirono/go-nl"
	gopfcp "github.com/wmnsk/go-pfcp"
	"github.com/wmnsk/go-pfcp/ie"
	"github.com/wmnsk/go-pfcp/message"

	"github.com/free5gc/go-gtp5gnl"
	"github.com/free5gc/go-upf/internal/forwarder"
	"github.com/free5gc/go-upf/internal/logger"
	"github.com/free5gc/go-upf/internal/pfcp"
	"github.com/free5gc/go-upf/pkg/factory"
)

// S-full (buffering): the real PfcpServer (event loop running) with the real Gtp5g driver around the simulated kernel,
// a simulated SMF on loopback, BUFFER multicasts fed to the real buffnetlink listener, a UDP sink as gNB.
//
//	T buf.reset = ok
//	T buf.est <cpseid hex> far=<id:aa:teid|...> qer=<id:qfi|...> pdr=<id:far:qer+qer|...> = <upseid hex|err>
//	T buf.pkt <upseid hex> <pdr> <action hex> <payload hex|-> n=<count> = dldr=<cpseid/pdr,...|-> q=<pdr/len,...|-> (queues of that session)
//	T buf.far <upseid hex> <farid> <aa hex|-> <teid|-> <idfirst|aafirst> = <cause> gtpu=<hex,hex,...|-> q=<…> k=<far:action:teid,…>   (FARs the data plane holds)
//	T buf.rmpdr <upseid hex> <pdr> = <cause> q=<…>
//	T buf.addpdr <upseid hex> <pdr> <far> <qer+qer|-> = <cause> q=<…>
//	T buf.del <upseid hex> = <cause> gtpu=<…>
//
// aa: apply-action octets; teid: the FAR's outer header creation goes to the sink (127.0.N.2:2152) with that TEID, `-` = no
// forwarding parameters. n>1 sends the same notification n times with the payload's first octet counting up (bursts).
func init() { register("buf", runBuf) }

type bufEnv struct {
	c     *ctx
	net   int
	smf   *net.UDPConn
	fence *net.UDPConn
	sink  *net.UDPConn
	srv   *pfcp.PfcpServer
	srvA  *net.UDPAddr
	d     *drvEnv
	wg    *sync.WaitGroup
	seq   uint32
	fatal int32
}

func (e *bufEnv) ip(k int) string { return fmt.Sprintf("127.0.%d.%d", e.net, k) }

func newBufEnv(c *ctx, netn int) *bufEnv {
	pinToCPU(netn % runtime.NumCPU())
	e := &bufEnv{c: c, net: netn}
	gopfcp.DisableLogging()
	logger.Log.SetOutput(io.Discard)
	if f := os.Getenv("VERIF_UPFLOG"); f != "" {
		if w, err := os.Create(f); err == nil {
			logger.Log.SetOutput(w)
		}
	}
	logger.Log.ExitFunc = func(int) { atomic.StoreInt32(&e.fatal, 1) }
	bind := func(k, port int) *net.UDPConn {
		a := &net.UDPAddr{IP: net.ParseIP(e.ip(k)), Port: port}
		if a.IP == nil {
			fmt.Fprintln(os.Stderr, "harness: not an address:", e.ip(k), "(net argument beyond 255?)")
			die(2)
		}
		conn, err := net.ListenUDP("udp4", a)
		for try := 0; err != nil && try < 180; try++ {
			// another process of this machine may hold the port for a while (a wildcard bind of go-upf's own forwarder
			// tests, which hang for up to two minutes without the kernel module)
			time.Sleep(time.Second)
			conn, err = net.ListenUDP("udp4", a)
		}
		if err != nil {
			fmt.Fprintln(os.Stderr, "harness: cannot bind", a, err)
			die(3)
		}
		// a release can be a burst of hundreds of datagrams written in one loop turn: make room for all of them
		if rc, err := conn.SyscallConn(); err == nil {
			rc.Control(func(fd uintptr) {
				if syscall.SetsockoptInt(int(fd), syscall.SOL_SOCKET, 33 /* SO_RCVBUFFORCE */, 32<<20) != nil {
					syscall.SetsockoptInt(int(fd), syscall.SOL_SOCKET, syscall.SO_RCVBUF, 32<<20)
				}
			})
		}
		return conn
	}
	e.smf = bind(1, 8805)
	e.fence = bind(100, 8805)
	e.sink = bind(2, 2152)
	e.srvA = &net.UDPAddr{IP: net.ParseIP(e.ip(8)), Port: 8805}
	e.d = newDrvEnv()
	return e
}

func (e *bufEnv) start() {
	cfg := &factory.Config{Pfcp: &factory.Pfcp{Addr: e.ip(8), NodeID: e.ip(8), RetransTimeout: time.Hour, MaxRetrans: 1}}
	e.srv = pfcp.NewPfcpServer(cfg, e.d.g)
	e.d.g.HandleReport(e.srv)
	e.wg = &sync.WaitGroup{}
	e.srv.Start(e.wg)
	for i := 0; i < 200; i++ {
		if e.doFence(50 * time.Millisecond) {
			return
		}
	}
	fmt.Fprintln(os.Stderr, "harness: server did not come up")
	die(3)
}

func (e *bufEnv) stop() {
	e.srv.Stop()
	done := make(chan struct{})
	go func() { e.wg.Wait(); close(done) }()
	select {
	case <-done:
	case <-time.After(5 * time.Second):
		fmt.Fprintln(os.Stderr, "harness: server did not stop")
		die(3)
	}
	// fresh kernel tables for the next case
	for _, k := range []*simKernel{e.d.k, e.d.pk} {
		k.mu.Lock()
		k.objs = map[string][]simAttr{}
		k.mu.Unlock()
	}
	e.d.reqs()
}

func (e *bufEnv) nextSeq() uint32 {
	e.seq = (e.seq + 1) & 0xffffff
	if e.seq == 0 {
		e.seq = 1
	}
	return e.seq
}

func (e *bufEnv) doFence(timeout time.Duration) bool {
	seq := e.nextSeq()
	req := message.NewHeartbeatRequest(seq, ie.NewRecoveryTimeStamp(time.Unix(1700000000, 0)), nil)
	b, _ := req.Marshal()
	e.fence.WriteToUDP(b, e.srvA)
	buf := make([]byte, 2048)
	deadline := time.Now().Add(timeout)
	for {
		e.fence.SetReadDeadline(deadline)
		n, _, err := e.fence.ReadFromUDP(buf)
		if err != nil {
			return false
		}
		m, err := message.Parse(buf[:n])
		if err == nil && m.Sequence() == seq {
			return true
		}
	}
}

// settle: every report notified so far has been taken off the queue and handled
func (e *bufEnv) settle() {
	for i := 0; i < 20000 && pfcp.VerifSrLen(e.srv) > 0; i++ {
		time.Sleep(20 * time.Microsecond)
	}
	ok := false
	for try := 0; try < 6 && !ok; try++ {
		// a fence datagram can be dropped by a full socket buffer after a burst: ask again
		ok = e.doFence(time.Second)
	}
	if !ok {
		fmt.Fprintln(os.Stderr, "harness: fence lost (server wedged?) fatal=", atomic.LoadInt32(&e.fatal))
		e.c.out.Flush()
		if os.Getenv("VERIF_STACKS") != "" {
			buf := make([]byte, 1<<20)
			n := runtime.Stack(buf, true)
			os.Stderr.Write(buf[:n])
		}
		die(3)
	}
}

// request/response in lock-step with the SMF socket; other datagrams that arrive meanwhile (Session Report Requests) are kept
func (e *bufEnv) rpc(m message.Message, pending *[][]byte) message.Message {
	b := make([]byte, m.MarshalLen())
	if err := m.MarshalTo(b); err != nil {
		fmt.Fprintln(os.Stderr, "harness: marshal:", err)
		die(3)
	}
	e.smf.WriteToUDP(b, e.srvA)
	buf := make([]byte, 65536)
	deadline := time.Now().Add(5 * time.Second)
	for {
		e.smf.SetReadDeadline(deadline)
		n, _, err := e.smf.ReadFromUDP(buf)
		if err != nil {
			return nil
		}
		r, err := message.Parse(buf[:n])
		if err == nil && r.Sequence() == m.Sequence() && r.MessageType() == m.MessageType()+1 {
			return r
		}
		*pending = append(*pending, append([]byte(nil), buf[:n]...))
	}
}

func drainConn(conn *net.UDPConn) [][]byte {
	var out [][]byte
	buf := make([]byte, 65536)
	for {
		n, ok := recvNow(conn, buf)
		if !ok {
			return out
		}
		out = append(out, append([]byte(nil), buf[:n]...))
	}
}

func (e *bufEnv) dldrs(pending [][]byte, upOf map[uint64]uint64) string {
	var out []string
	for _, b := range append(pending, drainConn(e.smf)...) {
		m, err := message.Parse(b)
		if err != nil {
			out = append(out, "unparsable")
			continue
		}
		sr, ok := m.(*message.SessionReportRequest)
		if !ok {
			out = append(out, fmt.Sprintf("type%d", m.MessageType()))
			continue
		}
		pdr := "?"
		if sr.DownlinkDataReport != nil {
			if v, err := sr.DownlinkDataReport.PDRID(); err == nil {
				pdr = fmt.Sprint(v)
			}
		}
		out = append(out, fmt.Sprintf("%x/%s", sr.SEID(), pdr))
		// answer it, so that the transmit transaction is retired
		rsp := message.NewSessionReportResponse(0, 0, upOf[sr.SEID()], sr.Sequence(), 0, ie.NewCause(ie.CauseRequestAccepted))
		rb, _ := rsp.Marshal()
		e.smf.WriteToUDP(rb, e.srvA)
		if len(out)%32 == 0 {
			time.Sleep(200 * time.Microsecond)
		}
	}
	if len(out) == 0 {
		return "-"
	}
	return strings.Join(out, ",")
}

func (e *bufEnv) gtpus() string {
	var out []string
	for _, b := range drainConn(e.sink) {
		out = append(out, hex.EncodeToString(b))
	}
	if len(out) == 0 {
		return "-"
	}
	return strings.Join(out, ",")
}

// queues of one session from the server's dump: K=<pdr/len,...>
func (e *bufEnv) queues(up uint64) string {
	d := pfcp.VerifDump(e.srv)
	i := strings.Index(d, " sess=")
	j := strings.Index(d, " nodes=")
	if i < 0 || j < 0 {
		return "?"
	}
	for _, s := range strings.Split(d[i+6:j], "|") {
		if strings.HasPrefix(s, fmt.Sprintf("%x;", up)) {
			k := strings.LastIndex(s, ";K=")
			if k >= 0 {
				q := s[k+3:]
				if q == "_" {
					return "-"
				}
				return q
			}
		}
	}
	return "gone"
}

// kfars: the FARs the simulated data plane holds for a session: "<id>:<apply action word>:<outer header TEID|->,…" (sorted)
func (e *bufEnv) kfars(up uint64) string {
	e.d.k.mu.Lock()
	defer e.d.k.mu.Unlock()
	var out []string
	prefix := fmt.Sprintf("far/%x/", up)
	for key, attrs := range e.d.k.objs {
		if !strings.HasPrefix(key, prefix) {
			continue
		}
		act, teid := uint64(0), "-"
		for _, a := range attrs {
			switch a.typ & 0x3fff {
			case gtp5gnl.FAR_APPLY_ACTION:
				act = readUint(a.val)
			case gtp5gnl.FAR_FORWARDING_PARAMETER:
				for _, f := range parseAttrs(a.val) {
					if f.typ&0x3fff == gtp5gnl.FORWARDING_PARAMETER_OUTER_HEADER_CREATION {
						for _, o := range parseAttrs(f.val) {
							if o.typ&0x3fff == gtp5gnl.OUTER_HEADER_CREATION_O_TEID {
								teid = fmt.Sprint(readUint(o.val))
							}
						}
					}
				}
			}
		}
		out = append(out, fmt.Sprintf("%s:%d:%s", strings.TrimPrefix(key, prefix), act, teid))
	}
	if len(out) == 0 {
		return "-"
	}
	sort.Slice(out, func(i, j int) bool {
		var a, b int
		fmt.Sscan(strings.SplitN(out[i], ":", 2)[0], &a)
		fmt.Sscan(strings.SplitN(out[j], ":", 2)[0], &b)
		return a < b
	})
	return strings.Join(out, ",")
}

func causeOf(m message.Message) string {
	if m == nil {
		return "noanswer"
	}
	var c *ie.IE
	switch r := m.(type) {
	case *message.SessionEstablishmentResponse:
		c = r.Cause
	case *message.SessionModificationResponse:
		c = r.Cause
	case *message.SessionDeletionResponse:
		c = r.Cause
	case *message.AssociationSetupResponse:
		c = r.Cause
	}
	if c == nil {
		return "nocause"
	}
	v, err := c.Cause()
	if err != nil {
		return "badcause"
	}
	return fmt.Sprint(v)
}

func (e *bufEnv) farIE(update bool, id uint32, aa []byte, teid int64, idFirst bool) *ie.IE {
	var ch []*ie.IE
	idIE := ie.NewFARID(id)
	var rest []*ie.IE
	if aa != nil {
		rest = append(rest, ie.NewApplyAction(aa...))
	}
	if teid >= 0 {
		ohc := ie.NewOuterHeaderCreation(0x0100, uint32(teid), e.ip(2), "", 0, 0, 0)
		if update {
			rest = append(rest, ie.NewUpdateForwardingParameters(ie.NewDestinationInterface(0), ohc))
		} else {
			rest = append(rest, ie.NewForwardingParameters(ie.NewDestinationInterface(0), ohc))
		}
	}
	if idFirst {
		ch = append([]*ie.IE{idIE}, rest...)
	} else {
		ch = append(rest, idIE)
	}
	if update {
		return ie.NewUpdateFAR(ch...)
	}
	return ie.NewCreateFAR(ch...)
}

func pdrIE(id uint16, far uint32, qers []uint32) *ie.IE {
	ch := []*ie.IE{ie.NewPDRID(id), ie.NewPrecedence(255), ie.NewPDI(ie.NewSourceInterface(ie.SrcInterfaceCore)), ie.NewFARID(far)}
	for _, q := range qers {
		ch = append(ch, ie.NewQERID(q))
	}
	return ie.NewCreatePDR(ch...)
}

// bufferMsg: the multicast gtp5g sends for a packet it hands up
func bufferMsg(seid uint64, pdr uint16, action uint16, pkt []byte, withPkt bool, pad bool) *nl.Msg {
	var inner []byte
	inner = append(inner, encAttr(gtp5gnl.BUFFER_ID, u16b(pdr))...)
	inner = append(inner, encAttr(gtp5gnl.BUFFER_ACTION, u16b(action))...)
	if pad {
		// nla_put_u64_64bit aligns the 64-bit value with an empty PAD attribute where the architecture needs it
		inner = append(inner, encAttr(gtp5gnl.BUFFER_PAD, nil)...)
	}
	inner = append(inner, encAttr(gtp5gnl.BUFFER_SEID, u64b(seid))...)
	if withPkt {
		inner = append(inner, encAttr(gtp5gnl.BUFFER_PACKET, pkt)...)
	}
	body := append([]byte{gtp5gnl.CMD_BUFFER_GTPU, 0, 0, 0}, encAttr(gtp5gnl.BUFFER|0x8000, inner)...)
	return &nl.Msg{Body: body}
}

type bufSess struct {
	up      uint64
	cp      uint64
	pdrs    []uint16
	fars    []uint32
	pdr1far uint32
}

func runBuf(c *ctx) {
	netn := 212
	shard, nshard := 0, 1
	for _, a := range c.args {
		if strings.HasPrefix(a, "net=") {
			fmt.Sscan(a[4:], &netn)
		}
		if strings.Contains(a, "/") {
			fmt.Sscanf(a, "%d/%d", &shard, &nshard)
		}
	}
	netn += shard
	r := c.rng
	e := newBufEnv(c, netn)
	cases, evs := 16, 60
	if c.thorough() {
		cases, evs = 150, 70
	}
	aaPool := [][]byte{{0x02}, {0x04}, {0x0c}, {0x01}, {0x06}, {0x04, 0x00}, {0x08}, {0x03}, {0x02}, {0x01}, {0x04}}
	estPool := [][]byte{{0x04}, {0x0c}, {0x04}, {0x0c, 0x00}, {0x02}, {0x06}}
	for cs := 0; cs < cases; cs++ {
		e.start()
		c.emit("T buf.reset = ok")
		var pend [][]byte
		asr := e.rpc(message.NewAssociationSetupRequest(e.nextSeq(), ie.NewNodeID(e.ip(1), "", ""),
			ie.NewRecoveryTimeStamp(time.Unix(1700000000, 0))), &pend)
		if causeOf(asr) != "1" {
			fmt.Fprintln(os.Stderr, "harness: association refused:", causeOf(asr))
			die(3)
		}
		var sess []*bufSess
		upOf := map[uint64]uint64{}
		cpNext := uint64(0x1000 * (cs + 1))
		est := func() {
			cp := cpNext
			cpNext++
			nf := 1 + r.intn(2)
			// every fourth session: one FAR shared by a PDR without a QoS flow and a PDR with one, so that a
			// release re-injects packets of both forms back to back
			mixed := r.chance(25)
			if mixed {
				nf = 1
			}
			var farT, qerT, pdrT []string
			var ies []*ie.IE
			s := &bufSess{cp: cp}
			for f := 1; f <= nf; f++ {
				aa := estPool[r.intn(len(estPool))]
				teid := int64(0x100*f + r.intn(200))
				if r.chance(15) {
					teid = -1
				}
				ies = append(ies, e.farIE(false, uint32(f), aa, teid, r.chance(70)))
				t := "-"
				if teid >= 0 {
					t = fmt.Sprint(teid)
				}
				farT = append(farT, fmt.Sprintf("%d:%s:%s", f, hex.EncodeToString(aa), t))
				s.fars = append(s.fars, uint32(f))
			}
			nq := r.intn(3)
			if mixed && nq == 0 {
				nq = 1
			}
			for q := 1; q <= nq; q++ {
				qfi := uint8([]int{0, 9, 63, 1, 0}[r.intn(5)])
				if mixed && q == 1 {
					qfi = uint8([]int{9, 63, 1, 33}[r.intn(4)])
				}
				qies := []*ie.IE{ie.NewQERID(uint32(q)), ie.NewGateStatus(0, 0), ie.NewQFI(qfi)}
				// the other optional marking IEs of a QER (paging policy indicator, reflective QoS): nothing of them belongs
				// into the re-injected G-PDU, whose container carries the QFI and nothing else
				if r.chance(40) {
					qies = append(qies, ie.NewPagingPolicyIndicator(uint8(1+r.intn(7))))
				}
				if r.chance(20) {
					qies = append(qies, ie.NewRQI(1))
				}
				ies = append(ies, ie.NewCreateQER(qies...))
				qerT = append(qerT, fmt.Sprintf("%d:%d", q, qfi))
			}
			np := 1 + r.intn(3)
			if mixed && np < 2 {
				np = 2
			}
			for p := 1; p <= np; p++ {
				far := uint32(1 + r.intn(nf))
				var qs []uint32
				var qss []string
				for q := 1; q <= 2; q++ {
					if r.chance(50) {
						qs = append(qs, uint32(q))
						qss = append(qss, fmt.Sprint(q))
					}
				}
				if mixed && p == 1 {
					qs, qss = nil, nil
				}
				if mixed && p == 2 {
					qs, qss = []uint32{1}, []string{"1"}
				}
				ies = append(ies, pdrIE(uint16(p), far, qs))
				qt := "-"
				if len(qss) > 0 {
					qt = strings.Join(qss, "+")
				}
				pdrT = append(pdrT, fmt.Sprintf("%d:%d:%s", p, far, qt))
				s.pdrs = append(s.pdrs, uint16(p))
				if p == 1 {
					s.pdr1far = far
				}
			}
			all := append([]*ie.IE{ie.NewNodeID(e.ip(1), "", ""), ie.NewFSEID(cp, net.ParseIP(e.ip(1)), nil)}, ies...)
			rsp := e.rpc(message.NewSessionEstablishmentRequest(0, 0, 0, e.nextSeq(), 0, all...), &pend)
			res := "err"
			if er, ok := rsp.(*message.SessionEstablishmentResponse); ok && causeOf(rsp) == "1" && er.UPFSEID != nil {
				if f, err := er.UPFSEID.FSEID(); err == nil {
					s.up = f.SEID
					res = fmt.Sprintf("%x", f.SEID)
					sess = append(sess, s)
					upOf[cp] = f.SEID
				}
			}
			c.count("est")
			qj := "-"
			if len(qerT) > 0 {
				qj = strings.Join(qerT, "|")
			}
			c.emit("T buf.est %x far=%s qer=%s pdr=%s = %s", cp, strings.Join(farT, "|"), qj, strings.Join(pdrT, "|"), res)
		}
		est()
		// most cases dwell on one queue (PDR 1 of the first session): several buffering periods and releases of
		// different lengths on the SAME queue, so that what one period leaves behind meets the next
		focus := r.chance(65)
		forceForw := false
		for ev := 0; ev < evs; ev++ {
			if len(sess) == 0 {
				est()
				continue
			}
			s := sess[r.intn(len(sess))]
			dwell := focus && r.chance(55)
			if dwell || forceForw {
				s = sess[0]
			}
			x := r.intn(100)
			if forceForw {
				x = 50 // a FAR update
			}
			if dwell && s.pdr1far != 0 && r.chance(12) && !forceForw {
				// a burst handed up while the loop is busy (inside an Update FAR whose data-plane calls take a while): more
				// notifications than the loop's report queue holds wait their turn — and must be taken in arrival order
				c.count("busyburst")
				qBefore := e.queues(s.up) // an update to BUFF releases nothing: the queues after it are the queues before it
				e.d.k.mu.Lock()
				// (the loop stays busy for 60 ms, 240 ms or 400 ms: short and long against any patience a producer might have)
				lat := time.Duration([]int{30, 120, 200}[r.intn(3)]) * time.Millisecond
				e.d.k.delay = map[uint8]time.Duration{gtp5gnl.CMD_GET_FAR: lat, gtp5gnl.CMD_ADD_FAR: lat}
				e.d.k.mu.Unlock()
				done := make(chan message.Message, 1)
				go func() {
					done <- e.rpc(message.NewSessionModificationRequest(0, 0, s.up, e.nextSeq(), 0, e.farIE(true, s.pdr1far, []byte{0x04}, -1, true)), &pend)
				}()
				time.Sleep(5 * time.Millisecond)
				n := 140 + r.intn(260)
				pay := r.bytes(20)
				bs := forwarder.VerifBuffServer(e.d.g)
				for k := 0; k < n; k++ {
					p := append([]byte(nil), pay...)
					p[0], p[1] = byte(k), byte(k>>8)
					bs.ServeMsg(bufferMsg(s.up, 1, 0x04, p, true, false))
				}
				rsp := <-done
				e.d.k.mu.Lock()
				e.d.k.delay = nil
				e.d.k.mu.Unlock()
				e.settle()
				c.emit("T buf.far %x %d 04 - idfirst = %s gtpu=%s q=%s k=%s", s.up, s.pdr1far, causeOf(rsp), e.gtpus(), qBefore, e.kfars(s.up))
				e.settle()
				c.emit("T buf.pkt %x 1 4 %s n=%d = dldr=- q=%s", s.up, hex.EncodeToString(pay), n, e.queues(s.up))
				forceForw = true
				continue
			}
			switch {
			case x < 45:
				// buffer notifications
				up := s.up
				if r.chance(8) {
					up = []uint64{0, 77, 1 << 40, ^uint64(0)}[r.intn(4)]
				}
				pdr := uint16(1 + r.intn(3))
				if r.chance(10) {
					pdr = 4
				}
				action := []uint16{0x04, 0x0c, 0x04, 0x0c, 0x08, 0x02, 0x0e, 0x00}[r.intn(8)]
				if dwell {
					up, pdr, action = s.up, 1, []uint16{0x04, 0x0c}[r.intn(2)]
				}
				// incl. inner packets at and around the MTU: the encapsulation (12 or 16 octets) comes on top
				plen := []int{1, 20, 60, 1400, 1484, 1485, 1488, 1489, 1500, 2000}[r.intn(10)]
				if r.chance(6) {
					plen = 0
				}
				n := 1
				if r.chance(25) {
					n = 2 + r.intn(6)
				}
				if r.chance(8) {
					n = 15 + r.intn(60) // a second buffering period longer than what an earlier release left behind
				}
				if r.chance(4) {
					n = 500 + r.intn(120) // beyond the queue capacity
				}
				pay := r.bytes(plen)
				pad := r.chance(25)
				padT := ""
				if pad {
					padT = " pad"
				}
				c.count("pkt")
				if n > 100 {
					c.count("pkt.burst")
				}
				bs := forwarder.VerifBuffServer(e.d.g)
				var got []string
				for k := 0; k < n; k++ {
					p := append([]byte(nil), pay...)
					if len(p) > 0 {
						p[0] = byte(k)
						if len(p) > 1 {
							p[1] = byte(k >> 8)
						}
					}
					bs.ServeMsg(bufferMsg(up, pdr, action, p, true, pad))
					if k%32 == 31 {
						// keep below the capacities of the report queue and of the SMF's socket buffer: wedging and
						// datagram loss under bursts are C18's subject, not this stream's
						e.settle()
						if d := e.dldrs(nil, upOf); d != "-" {
							got = append(got, d)
						}
					}
				}
				e.settle()
				ph := "-"
				if plen > 0 {
					ph = hex.EncodeToString(pay)
				}
				if d := e.dldrs(pend, upOf); d != "-" {
					got = append(got, d)
				}
				dl := "-"
				if len(got) > 0 {
					dl = strings.Join(got, ",")
				}
				// the answers just sent to the Session Report Requests are still being handled by the loop (they retire
				// transmit transactions): wait for that before looking at the server's tables from this goroutine
				e.settle()
				c.emit("T buf.pkt %x %d %x %s n=%d%s = dldr=%s q=%s", up, pdr, action, ph, n, padT, dl, e.queues(up))
				pend = nil
			case x < 75:
				far := s.fars[r.intn(len(s.fars))]
				if r.chance(6) {
					far = 9
				}
				var aa []byte
				aat := "-"
				if r.chance(90) {
					aa = aaPool[r.intn(len(aaPool))]
					aat = hex.EncodeToString(aa)
				}
				if dwell && s.pdr1far != 0 {
					far = s.pdr1far
					aa = [][]byte{{0x02}, {0x02}, {0x01}, {0x04}}[r.intn(4)]
					aat = hex.EncodeToString(aa)
				}
				if forceForw && s.pdr1far != 0 {
					far, aa, aat = s.pdr1far, []byte{0x02}, "02"
					forceForw = false
				}
				teid := int64(-1)
				tt := "-"
				if r.chance(40) {
					teid = int64(0x5000 + r.intn(1000))
					tt = fmt.Sprint(teid)
				}
				idFirst := r.chance(60)
				ord := "aafirst"
				if idFirst {
					ord = "idfirst"
				}
				c.count("far." + ord)
				rsp := e.rpc(message.NewSessionModificationRequest(0, 0, s.up, e.nextSeq(), 0, e.farIE(true, far, aa, teid, idFirst)), &pend)
				e.settle()
				c.emit("T buf.far %x %d %s %s %s = %s gtpu=%s q=%s k=%s", s.up, far, aat, tt, ord, causeOf(rsp), e.gtpus(), e.queues(s.up), e.kfars(s.up))
			case x < 81:
				pdr := uint16(1 + r.intn(4))
				c.count("rmpdr")
				rsp := e.rpc(message.NewSessionModificationRequest(0, 0, s.up, e.nextSeq(), 0, ie.NewRemovePDR(ie.NewPDRID(pdr))), &pend)
				e.settle()
				c.emit("T buf.rmpdr %x %d = %s q=%s", s.up, pdr, causeOf(rsp), e.queues(s.up))
			case x < 88:
				pdr := uint16(1 + r.intn(4))
				far := s.fars[r.intn(len(s.fars))]
				var qs []uint32
				var qss []string
				for q := 1; q <= 2; q++ {
					if r.chance(50) {
						qs = append(qs, uint32(q))
						qss = append(qss, fmt.Sprint(q))
					}
				}
				qt := "-"
				if len(qss) > 0 {
					qt = strings.Join(qss, "+")
				}
				c.count("addpdr")
				rsp := e.rpc(message.NewSessionModificationRequest(0, 0, s.up, e.nextSeq(), 0, pdrIE(pdr, far, qs)), &pend)
				e.settle()
				c.emit("T buf.addpdr %x %d %d %s = %s q=%s", s.up, pdr, far, qt, causeOf(rsp), e.queues(s.up))
			case x < 92:
				c.count("del")
				rsp := e.rpc(message.NewSessionDeletionRequest(0, 0, s.up, e.nextSeq(), 0), &pend)
				e.settle()
				c.emit("T buf.del %x = %s gtpu=%s", s.up, causeOf(rsp), e.gtpus())
				var keep []*bufSess
				for _, t := range sess {
					if t != s {
						keep = append(keep, t)
					}
				}
				sess = keep
			default:
				if len(sess) < 3 {
					est()
				}
			}
		}
		sort.Slice(sess, func(i, j int) bool { return sess[i].up < sess[j].up })
		e.stop()
		drainConn(e.smf)
		drainConn(e.sink)
	}
}
