//go:build verif

package main

import (
	"encoding/hex"
	"fmt"

	"github.com/free5gc/go-upf/internal/gtpv1"
)

// S-pure / gtpu: Message.Encode for the header form WritePacket emits.
//
//	T gtpu.encode <teid hex> <none | pt,qfi> <payload hex|-> = <bytes hex | panic>
func init() { register("gtpu", runGtpu) }

func gtpuEncode(teid uint32, ext bool, pt, qfi uint8, payload []byte) (res string) {
	defer func() {
		if p := recover(); p != nil {
			res = "panic"
		}
	}()
	msg := gtpv1.Message{Flags: 0x34, Type: gtpv1.MsgTypeTPDU, TEID: teid, Payload: payload}
	if ext {
		msg.Exts = []gtpv1.Encoder{gtpv1.PDUSessionContainer{PDUType: pt, QoSFlowID: qfi}}
	}
	b := make([]byte, msg.Len())
	n, err := msg.Encode(b)
	if err != nil {
		return "err"
	}
	if n != len(b) {
		return fmt.Sprintf("badlen:%d:%d", n, len(b))
	}
	return hex.EncodeToString(b)
}

func hexOrDash(b []byte) string {
	if len(b) == 0 {
		return "-"
	}
	return hex.EncodeToString(b)
}

func runGtpu(c *ctx) {
	one := func(teid uint32, ext bool, pt, qfi uint8, payload []byte) {
		e := "none"
		if ext {
			e = fmt.Sprintf("%d,%d", pt, qfi)
			c.count("ext")
		} else {
			c.count("noext")
		}
		c.count(fmt.Sprintf("paylen%%4=%d", len(payload)%4))
		c.emit("T gtpu.encode %08x %s %s = %s", teid, e, hexOrDash(payload), gtpuEncode(teid, ext, pt, qfi, payload))
	}
	// payload lengths: all boundaries around 4-byte alignment, plus sampled (quick) or all (thorough)
	var lens []int
	if c.thorough() {
		for l := 0; l <= 1500; l++ {
			lens = append(lens, l)
		}
	} else {
		lens = []int{0, 1, 2, 3, 4, 5, 7, 8, 9, 63, 64, 65, 1399, 1400, 1499, 1500}
		for i := 0; i < 8; i++ {
			lens = append(lens, c.rng.intn(1501))
		}
	}
	teids := []uint32{0, 1, 0xffffffff, 0x80000000, 0x01020304}
	// exhaustive QFI 0..63 x PDU type 0..15 x with/without, for every length class
	for li, l := range lens {
		// in the thorough tier the full grid is run for every 25th length and the boundary ones; the others get a sampled grid
		full := !c.thorough() || l < 16 || l%25 == 0 || l >= 1496
		for qfi := 0; qfi < 64; qfi++ {
			for pt := 0; pt < 16; pt++ {
				if !full && c.rng.intn(16) != 0 {
					continue
				}
				teid := teids[(li+qfi+pt)%len(teids)]
				if c.rng.chance(50) {
					teid = uint32(c.rng.bits(32))
				}
				one(teid, true, uint8(pt), uint8(qfi), c.rng.bytes(l))
			}
		}
		one(uint32(c.rng.bits(32)), false, 0, 0, c.rng.bytes(l))
	}
	// out-of-range QFI / PDU type values: model and code must still agree (masking / shifting)
	for i := 0; i < 64; i++ {
		one(uint32(c.rng.bits(32)), true, uint8(c.rng.bits(8)), uint8(c.rng.bits(8)), c.rng.bytes(c.rng.intn(64)))
	}
}
