//go:build verif

package main

// xorshift64*: every random choice of a run derives from this one state.
type rng struct{ s uint64 }

func newRng(seed uint64) *rng {
	if seed == 0 {
		seed = 0x9e3779b97f4a7c15
	}
	r := &rng{s: seed ^ 0x2545f4914f6cdd1d}
	for i := 0; i < 8; i++ {
		r.u64()
	}
	return r
}

func (r *rng) u64() uint64 {
	r.s ^= r.s >> 12
	r.s ^= r.s << 25
	r.s ^= r.s >> 27
	return r.s * 0x2545f4914f6cdd1d
}

func (r *rng) intn(n int) int {
	if n <= 0 {
		return 0
	}
	return int(r.u64() % uint64(n))
}

func (r *rng) chance(pct int) bool { return r.intn(100) < pct }

func (r *rng) bytes(n int) []byte {
	b := make([]byte, n)
	for i := range b {
		b[i] = byte(r.u64())
	}
	return b
}

// boundary-biased value of the given bit width
func (r *rng) bits(w uint) uint64 {
	var max uint64 = ^uint64(0)
	if w < 64 {
		max = (uint64(1) << w) - 1
	}
	switch r.intn(10) {
	case 0:
		return 0
	case 1:
		return 1
	case 2:
		return max
	case 3:
		return max - 1
	case 4:
		k := uint(r.intn(int(w)))
		return (uint64(1) << k) & max
	case 5:
		k := uint(r.intn(int(w)))
		return ((uint64(1) << k) - 1) & max
	default:
		return r.u64() & max
	}
}

func (r *rng) pick(xs ...string) string { return xs[r.intn(len(xs))] }

func (r *rng) perm(n int) []int {
	p := make([]int, n)
	for i := range p {
		p[i] = i
	}
	for i := n - 1; i > 0; i-- {
		j := r.intn(i + 1)
		p[i], p[j] = p[j], p[i]
	}
	return p
}
