//go:build verif

package main

import (
	"encoding/hex"
	"fmt"
	"strconv"
	"strings"

	"github.com/free5gc/go-upf/internal/forwarder"
)

// S-pure / flowdesc (C16): ParseFlowDesc on grammar-generated strings, near misses and arbitrary bytes.
//
//	T fd.parse <input hex|-> = err | panic | <dir> <proto> <srcip>/<srcmask> <dstip>/<dstmask> <sports|_> <dports|_>
func init() { register("flowdesc", runFlowDesc) }

func portsStr(ps [][]uint16) string {
	if len(ps) == 0 {
		return "_"
	}
	var out []string
	for _, p := range ps {
		switch len(p) {
		case 1:
			out = append(out, strconv.Itoa(int(p[0])))
		case 2:
			out = append(out, fmt.Sprintf("%d-%d", p[0], p[1]))
		default:
			out = append(out, "?")
		}
	}
	return strings.Join(out, ",")
}

func fdParse(s string) string {
	return guard(func() string {
		fd, err := forwarder.ParseFlowDesc(s)
		if err != nil {
			return "err"
		}
		return fmt.Sprintf("%s %d %s/%s %s/%s %s %s", fd.Dir, fd.Proto, hex.EncodeToString(fd.Src.IP), hex.EncodeToString(fd.Src.Mask),
			hex.EncodeToString(fd.Dst.IP), hex.EncodeToString(fd.Dst.Mask), portsStr(fd.SrcPorts), portsStr(fd.DstPorts))
	})
}

type fdGen struct{ r *rng }

func (g *fdGen) num(max uint64) string {
	r := g.r
	var v uint64
	switch r.intn(8) {
	case 0:
		v = 0
	case 1:
		v = max
	case 2:
		v = max + 1 // just out of range
	case 3:
		v = max - 1
	default:
		v = r.u64() % (max + 1)
	}
	s := strconv.FormatUint(v, 10)
	if r.chance(10) {
		s = strings.Repeat("0", 1+r.intn(3)) + s // leading zeros
	}
	return s
}

func (g *fdGen) octet() string {
	r := g.r
	switch r.intn(10) {
	case 0:
		return "0"
	case 1:
		return "255"
	case 2:
		return "256"
	case 3:
		return "0" + strconv.Itoa(r.intn(10)) // leading zero: rejected by netip
	default:
		return strconv.Itoa(r.intn(256))
	}
}

func (g *fdGen) addr() string {
	r := g.r
	switch r.intn(10) {
	case 0:
		return "any"
	case 1:
		return "assigned"
	}
	ip := g.octet() + "." + g.octet() + "." + g.octet() + "." + g.octet()
	switch r.intn(12) {
	case 0:
		ip = g.octet() + "." + g.octet() + "." + g.octet() // too short
	case 1:
		ip += "." + g.octet() // too long
	case 2:
		ip = strings.Replace(ip, ".", "..", 1)
	}
	if r.chance(55) {
		pl := strconv.Itoa(r.intn(33))
		switch r.intn(10) {
		case 0:
			pl = "33"
		case 1:
			pl = "0" + pl
		case 2:
			pl = ""
		}
		return ip + "/" + pl
	}
	return ip
}

func (g *fdGen) ports() string {
	r := g.r
	n := 1 + r.intn(4)
	if r.chance(10) {
		n = 8
	}
	var items []string
	for i := 0; i < n; i++ {
		if r.chance(40) {
			items = append(items, g.num(65535)+"-"+g.num(65535))
		} else {
			items = append(items, g.num(65535))
		}
	}
	s := strings.Join(items, ",")
	switch r.intn(20) {
	case 0:
		s += ","
	case 1:
		s = strings.Replace(s, "-", "--", 1)
	case 2:
		s += "-1"
	}
	return s
}

func (g *fdGen) sp() string {
	r := g.r
	if r.chance(80) {
		return " "
	}
	ws := []string{" ", "\t", "\n", "\r", "\v", "\f"}
	n := 1 + r.intn(3)
	s := ""
	for i := 0; i < n; i++ {
		s += ws[r.intn(len(ws))]
	}
	return s
}

func (g *fdGen) rule() string {
	r := g.r
	toks := []string{"permit", r.pick("in", "out", "out", "in", "both"), "", "from", g.addr()}
	if r.chance(15) {
		toks[2] = "ip"
	} else {
		toks[2] = g.num(255)
	}
	if r.chance(3) {
		toks[0] = r.pick("deny", "Permit", "permit ")
	}
	if r.chance(45) {
		toks = append(toks, g.ports())
	}
	toks = append(toks, "to", g.addr())
	if r.chance(45) {
		toks = append(toks, g.ports())
	}
	if r.chance(5) {
		toks = append(toks, r.pick("extra", "80", "x,y"))
	}
	// near misses: drop / duplicate / swap a token
	switch r.intn(25) {
	case 0:
		i := r.intn(len(toks))
		toks = append(toks[:i], toks[i+1:]...)
	case 1:
		i := r.intn(len(toks))
		toks = append(toks[:i+1], toks[i:]...)
	case 2:
		i, j := r.intn(len(toks)), r.intn(len(toks))
		toks[i], toks[j] = toks[j], toks[i]
	}
	var b strings.Builder
	if r.chance(10) {
		b.WriteString(g.sp())
	}
	for i, t := range toks {
		if i > 0 {
			b.WriteString(g.sp())
		}
		b.WriteString(t)
	}
	if r.chance(10) {
		b.WriteString(g.sp())
	}
	return b.String()
}

// ruleAbs: a rule of the supported grammar together with its abstract syntax
//
//	<in|out>,<ip|digits>,<addr>,<ports|->,<addr>,<ports|->   addr = any | assigned | a.b.c.d | a.b.c.d/l ; ports = item;item ; item = digits | digits-digits
//
// numerals are spelled with random leading zeros, tokens are separated by random runs of Go white space
func (g *fdGen) ruleAbs() (string, string) {
	r := g.r
	numeral := func(max int) string {
		v := []int{0, 1, max, max - 1, r.intn(max + 1), r.intn(max + 1)}[r.intn(6)]
		s := strconv.Itoa(v)
		if r.chance(20) {
			s = strings.Repeat("0", 1+r.intn(3)) + s
		}
		return s
	}
	addr := func() string {
		switch r.intn(6) {
		case 0:
			return "any"
		case 1:
			return "assigned"
		}
		oct := func() int { return []int{0, 255, r.intn(256), r.intn(256)}[r.intn(4)] }
		ip := fmt.Sprintf("%d.%d.%d.%d", oct(), oct(), oct(), oct())
		if r.chance(55) {
			return ip + "/" + strconv.Itoa(r.intn(33))
		}
		return ip
	}
	ports := func() (string, string) {
		if !r.chance(50) {
			return "", "-"
		}
		n := 1 + r.intn(4)
		var it []string
		for i := 0; i < n; i++ {
			if r.chance(40) {
				it = append(it, numeral(65535)+"-"+numeral(65535))
			} else {
				it = append(it, numeral(65535))
			}
		}
		return strings.Join(it, ","), strings.Join(it, ";")
	}
	dir := r.pick("in", "out")
	proto := "ip"
	if r.chance(80) {
		proto = numeral(255)
	}
	src, dst := addr(), addr()
	sp, spA := ports()
	dp, dpA := ports()
	toks := []string{"permit", dir, proto, "from", src}
	if sp != "" {
		toks = append(toks, sp)
	}
	toks = append(toks, "to", dst)
	if dp != "" {
		toks = append(toks, dp)
	}
	var b strings.Builder
	if r.chance(15) {
		b.WriteString(g.sp())
	}
	for i, t := range toks {
		if i > 0 {
			b.WriteString(g.sp())
		}
		b.WriteString(t)
	}
	if r.chance(15) {
		b.WriteString(g.sp())
	}
	return b.String(), strings.Join([]string{dir, proto, src, spA, dst, dpA}, ",")
}

func fdPack(s string, swap bool) (res string) {
	defer func() {
		if r := recover(); r != nil {
			res = "panic"
		}
	}()
	b, err := forwarder.VerifNewFlowDesc(s, swap)
	if err != nil {
		return "err"
	}
	return hexOrDash(b)
}

func runFlowDesc(c *ctx) {
	g := &fdGen{r: c.rng}
	n := 20000
	if c.thorough() {
		n = 600000
	}
	one := func(s string) {
		c.emit("T fd.parse %s = %s", hexOrDash([]byte(s)), fdParse(s))
	}
	// every protocol number 0..300 and 'ip'; every prefix length 0..40
	for p := 0; p <= 300; p++ {
		one(fmt.Sprintf("permit out %d from 10.1.2.3 to 10.9.8.7", p))
	}
	for l := 0; l <= 40; l++ {
		one(fmt.Sprintf("permit in ip from 255.254.253.252/%d to any", l))
	}
	for _, p := range []string{"0", "65535", "65536", "00080", "1-2", "2-1", "65535-65536", "1,2,3,4,5,6,7,8", "", "-", "1-", "-1", "1-2-3", "+1", "0x10", "1_0"} {
		one("permit out 17 from any " + p + " to assigned " + p)
	}
	for i := 0; i < n; i++ {
		c.count("grammar")
		one(g.rule())
	}
	// rules of the grammar with their abstract syntax: here the specification says what the answer must be
	for i := 0; i < n/2; i++ {
		c.count("rule")
		s, abs := g.ruleAbs()
		c.emit("T fd.rule %s %s = %s", hexOrDash([]byte(s)), abs, fdParse(s))
	}
	// the packed form handed to the data plane, for downlink and (source / destination exchanged) uplink PDRs
	for i := 0; i < n/4; i++ {
		c.count("pack")
		s, abs := g.ruleAbs()
		swap := c.rng.chance(50)
		sw := "0"
		if swap {
			sw = "1"
		}
		c.emit("T fd.pack %s %s %s = %s", hexOrDash([]byte(s)), abs, sw, fdPack(s, swap))
		if c.rng.chance(30) {
			// the same text again, in the same and in the other direction: packing is a function of text and direction
			c.emit("T fd.pack %s %s %s = %s", hexOrDash([]byte(s)), abs, sw, fdPack(s, swap))
			c.emit("T fd.pack %s %s %s = %s", hexOrDash([]byte(s)), abs, map[bool]string{true: "0", false: "1"}[swap], fdPack(s, !swap))
		}
	}
	// arbitrary ASCII and arbitrary bytes (incl. ':' / non-ASCII: outside the model, only "no fault" is claimed)
	for i := 0; i < n/10; i++ {
		c.count("arbitrary")
		b := c.rng.bytes(c.rng.intn(40))
		if c.rng.chance(70) {
			for k := range b {
				b[k] = " \tpermitnoufrag0123456789./,-:"[int(b[k])%30]
			}
		}
		one(string(b))
	}
	for _, s := range []string{"permit out ip from 2001:db8::1 to any", "permit out ip from ::1/128 to fe80::/10", "permit out ip from any to any", "permit out ip from 1.2.3.4%eth0 to any", "permit out 6 from ::ffff:1.2.3.4 to any"} {
		one(s)
	}
}
