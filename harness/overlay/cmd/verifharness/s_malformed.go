//go:build verif

package main

import (
	"fmt"
	"strconv"
	"sync/atomic"
	"time"
)

// S-full / malformed (C07): structure-aware mutations of valid PFCP datagrams, delivered after valid prefixes
// that create and delete sessions; after every mutated datagram the UPF must still answer a Heartbeat Request.
//
//	T mal.send <peer> <datagram hex> = alive | panic | noanswer
func init() { register("malformed", runMalformed) }

func mutate(r *rng, b []byte) []byte {
	out := append([]byte(nil), b...)
	if len(out) == 0 {
		return []byte{0x20}
	}
	n := 1 + r.intn(3)
	for i := 0; i < n; i++ {
		if len(out) == 0 {
			break // an empty datagram is a case of its own
		}
		switch r.intn(11) {
		case 0: // truncate
			out = out[:r.intn(len(out)+1)]
		case 1: // flip one byte
			if len(out) > 0 {
				out[r.intn(len(out))] ^= byte(1 << uint(r.intn(8)))
			}
		case 2: // header length field
			if len(out) >= 4 {
				v := []uint16{0, 1, 4, 0xffff, uint16(len(out)), uint16(len(out) - 3), uint16(len(out) + 1)}[r.intn(7)]
				out[2], out[3] = byte(v>>8), byte(v)
			}
		case 3: // an IE length field somewhere after the header: 0, 1, huge
			if len(out) > 20 {
				p := 8 + r.intn(len(out)-12)
				v := []uint16{0, 1, 2, 0xffff, 0x7fff, 5}[r.intn(6)]
				out[p], out[p+1] = byte(v>>8), byte(v)
			}
		case 4: // message type
			if len(out) >= 2 {
				out[1] = byte(r.bits(8))
			}
		case 5: // flags octet (version, S flag, MP)
			out[0] = byte(r.bits(8))
		case 6: // random byte value
			if len(out) > 0 {
				out[r.intn(len(out))] = byte(r.bits(8))
			}
		case 7: // insert random bytes
			p := r.intn(len(out) + 1)
			ins := r.bytes(1 + r.intn(6))
			out = append(out[:p], append(ins, out[p:]...)...)
		case 8: // delete a chunk
			if len(out) > 4 {
				p := r.intn(len(out) - 1)
				q := p + 1 + r.intn(min(8, len(out)-p-1)+1)
				if q > len(out) {
					q = len(out)
				}
				out = append(out[:p], out[q:]...)
			}
		case 9: // duplicate the tail (repeated IEs)
			if len(out) > 16 {
				p := 12 + r.intn(len(out)-12)
				out = append(out, out[p:]...)
			}
		case 10: // SEID / id fields at boundary values: overwrite 8 bytes after the fixed header
			if len(out) >= 12 {
				v := []uint64{0, 1, 1 << 63, 1<<63 + 1, ^uint64(0)}[r.intn(5)]
				for k := 0; k < 8; k++ {
					out[4+k] = byte(v >> uint(56-8*k))
				}
			}
		}
		if len(out) > 60000 {
			out = out[:60000]
		}
	}
	return out
}

func runMalformed(c *ctx) {
	am := argMap(c.args)
	netn := atoiDef(am["net"], 200)
	shard, nshard := 0, 1
	if len(c.args) > 0 {
		if n, _ := fmt.Sscanf(c.args[0], "%d/%d", &shard, &nshard); n == 2 {
			netn += shard
		}
	}
	ncases, nev := 6, 120
	if c.thorough() {
		ncases, nev = 60, 400
	}
	peers := []int{1, 2, 3}
	e := newCtlEnv(c, netn, append(append([]int{}, peers...), 9))
	for cn := 0; cn < ncases; cn++ {
		r := newRng(c.rng.u64() ^ uint64(cn)<<32 ^ uint64(shard)<<48)
		e.startServer(uint8(r.intn(4)), 0, r.u64()>>1, []int{0, 10}[r.intn(2)])
		g := &ctlGen{e: e, r: r, c: c, seq: map[int]uint32{}, prof: profiles["mix"], peers: peers}
		e.quiet = true
		for _, p := range peers {
			ev := &event{typ: "recv", kind: "assoc", peer: p, seq: g.nextSeq(p), node: "4:p" + strconv.Itoa(p), lists: map[string][]rule{}}
			s, _ := e.exec(ev)
			g.observe(ev, s)
		}
		emptyAt := r.intn(nev)
		for i := 0; i < nev && !e.dead; i++ {
			ev := g.gen()
			if ev.typ == "recv" && ev.kind != "junk" && (r.chance(55) || i == emptyAt) {
				// a mutated copy of a valid datagram
				b := mutate(r, e.buildDatagram(ev))
				if i == emptyAt {
					b = nil // the zero-length datagram
				}
				c.count("mutated." + ev.kind)
				e.peers[ev.peer].WriteToUDP(b, e.srvAddr) // b may be empty: a zero-length UDP datagram
				ok := e.fence(2 * time.Second)
				e.drv.take()
				e.drain()
				res := "alive"
				if atomic.LoadInt32(&e.fatal) != 0 {
					res = "panic"
				} else if !ok {
					res = "noanswer"
				}
				c.emit("T mal.send %d %s = %s", ev.peer, hexOrDash(b), res)
				if res != "alive" {
					e.dead = true
				}
				continue
			}
			c.count("valid." + ev.typ + ev.kind)
			s, _ := e.exec(ev)
			g.observe(ev, s)
		}
		e.quiet = false
		e.stopServer()
	}
}
