//go:build verif

// verifharness: runs the real go-upf code on generated inputs and writes one trace line
// per evaluation; the Lean driver (upfdrv) recomputes every line with the model and
// evaluates the property predicates on what the implementation produced.
//
// This file is mapped into /repo by `go build -overlay`; nothing is written into /repo.
package main

import (
	"bufio"
	"flag"
	"fmt"
	"os"
	"sort"
)

type stream struct {
	name string
	run  func(c *ctx)
}

var streams = map[string]func(c *ctx){}

func register(name string, f func(c *ctx)) { streams[name] = f }

type ctx struct {
	rng   *rng
	tier  string
	out   *bufio.Writer
	n     int            // lines written
	stats map[string]int // generator histogram (goes into the evidence)
	args  []string
}

func (c *ctx) thorough() bool { return c.tier == "thorough" }

func (c *ctx) emit(format string, a ...interface{}) {
	fmt.Fprintf(c.out, format, a...)
	c.out.WriteByte('\n')
	c.n++
}

// intent notes, on disk, what is about to be handed to the implementation ("H doing …"): when the process is brought down
// by a fault in a goroutine of the implementation that nothing guards, the last such line is the input that did it
func (c *ctx) intent(format string, a ...interface{}) {
	c.out.WriteString("H doing ")
	fmt.Fprintf(c.out, format, a...)
	c.out.WriteByte('\n')
	c.out.Flush()
}

func (c *ctx) count(key string) { c.stats[key]++ }

// die ends the harness after writing out what has been observed so far (complete lines only are ever buffered)
var dieFlush func()

func die(code int) {
	if dieFlush != nil {
		dieFlush()
	}
	os.Exit(code)
}

func main() {
	seed := flag.Uint64("seed", 1, "PRNG seed")
	tier := flag.String("tier", "quick", "quick|thorough")
	outp := flag.String("out", "-", "trace file")
	statp := flag.String("stats", "", "stats file (key count per line)")
	flag.Parse()
	if flag.NArg() < 1 {
		fmt.Fprintln(os.Stderr, "usage: verifharness [flags] <stream> [args]")
		os.Exit(2)
	}
	f, ok := streams[flag.Arg(0)]
	if !ok {
		fmt.Fprintln(os.Stderr, "unknown stream", flag.Arg(0))
		os.Exit(2)
	}
	var w *os.File = os.Stdout
	if *outp != "-" {
		var err error
		w, err = os.Create(*outp)
		if err != nil {
			fmt.Fprintln(os.Stderr, err)
			os.Exit(2)
		}
		defer w.Close()
	}
	c := &ctx{rng: newRng(*seed), tier: *tier, out: bufio.NewWriterSize(w, 1<<20), stats: map[string]int{}, args: flag.Args()[1:]}
	dieFlush = func() { c.out.Flush() }
	c.emit("H stream=%s seed=%d tier=%s", flag.Arg(0), *seed, *tier)
	f(c)
	c.out.Flush()
	if *statp != "" {
		sf, err := os.Create(*statp)
		if err == nil {
			keys := make([]string, 0, len(c.stats))
			for k := range c.stats {
				keys = append(keys, k)
			}
			sort.Strings(keys)
			for _, k := range keys {
				fmt.Fprintf(sf, "%s %d\n", k, c.stats[k])
			}
			fmt.Fprintf(sf, "lines %d\n", c.n)
			sf.Close()
		}
	}
}
