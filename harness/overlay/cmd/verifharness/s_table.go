//go:build verif

package main

import (
	"fmt"

	"github.com/free5gc/go-upf/internal/pfcp"
)

// S-ctl / direct table stream (C04): LocalNode.{NewSess, Sess, DeleteSess} with SEIDs of every class.
//
//	T tbl.reset = ok
//	T tbl.new <cp hex> = <up hex>
//	T tbl.lookup <x hex> = none | <up>/<cp> | panic
//	T tbl.delete <x hex> = ok | none | panic
//	T tbl.dump = slots=<n> free=<ids>
func init() { register("table", runTable) }

func runTable(c *ctx) {
	r := c.rng
	ncases := 60
	nops := 120
	if c.thorough() {
		ncases, nops = 1500, 400
	}
	for cn := 0; cn < ncases; cn++ {
		t := &pfcp.VerifTable{}
		c.emit("T tbl.reset = ok")
		var issued []uint64
		seidOf := func() uint64 {
			switch r.intn(14) {
			case 0:
				return 0
			case 1:
				return 1 << 63
			case 2:
				return 1<<63 + 1
			case 3:
				return ^uint64(0)
			case 4:
				return ^uint64(0) - 1
			case 5:
				return 1<<63 - 1
			case 6:
				return uint64(len(issued) + 1 + r.intn(3))
			case 7:
				return 1 << 32
			case 8:
				return r.bits(64)
			default:
				if len(issued) > 0 {
					return issued[r.intn(len(issued))]
				}
				return uint64(1 + r.intn(4))
			}
		}
		for i := 0; i < nops; i++ {
			switch r.intn(10) {
			case 0, 1, 2:
				cp := r.bits(64)
				if r.chance(50) {
					cp = uint64(1 + r.intn(3))
				}
				up := t.New(cp)
				issued = append(issued, up)
				c.count("new")
				c.emit("T tbl.new %x = %x", cp, up)
			case 3, 4:
				x := seidOf()
				c.count("delete")
				c.emit("T tbl.delete %x = %s", x, t.Delete(x))
			default:
				x := seidOf()
				c.count(fmt.Sprintf("lookup.%s", seidClass(x, len(issued))))
				c.emit("T tbl.lookup %x = %s", x, t.Lookup(x))
			}
			if i%16 == 15 {
				c.emit("T tbl.dump = %s", t.Dump())
			}
		}
		c.emit("T tbl.dump = %s", t.Dump())
	}
}

func seidClass(x uint64, n int) string {
	switch {
	case x == 0:
		return "zero"
	case x >= 1<<63:
		return "ge2^63"
	case x > uint64(n):
		return "beyond"
	default:
		return "intable"
	}
}
