//go:build verif

package main

import (
	"encoding/hex"
	"fmt"
	"net"
	"os"
	"runtime/debug"
	"strings"
	"sync"
	"time"

	"github.com/khirono/go-nl"
	"github.com/wmnsk/go-pfcp/ie"

	"github.com/free5gc/go-upf/internal/forwarder"
	"github.com/free5gc/go-upf/internal/forwarder/perio"
	"github.com/free5gc/go-upf/internal/logger"
	"github.com/free5gc/go-upf/internal/report"
)

// S-drv: the real Gtp5g driver methods around a simulated netlink kernel.
//
//	T drv.<kind>.<create|update> <seid hex> <child token> ... = <ok|err> <req>;<req>;... [| perio=<dump>]
//	T drv.<kind>.remove <seid hex> <id> = <ok|err> <req>;...
//	  req = <genl cmd>/<nlmsg type>/<nlmsg flags hex>/<attribute bytes hex|->
//
// child tokens (in IE order), see DESIGN.md §5.3:
//
//	PDR  pdrid:N prec:N ohr:N farid:N qerid:N urrid:N pdi(srcif:N;fteid:TEID/IP;ueip:IP;sdf:FDHEX/BID;netinst;appid)
//	FAR  farid:N aa:HEX barid:N fp(dstif:N;ohc:DESC/TEID/IP/PORT;fpol:HEX;smreq:N;netinst)   (ufp(...) in Update FAR)
//	QER  qerid:N corr:N gate:N mbr:UL/DL gbr:UL/DL qfi:N rqi:N ppi:N
//	URR  urrid:N mm:N rt:HEX mp:SECONDS mi:N vth:FLAGS/TV/UV/DV vqu:FLAGS/TV/UV/DV
//	BAR  barid:N ddnd:N sbpc:N
func init() { register("drv", runDrv) }

type drvEnv struct {
	k, pk *simKernel
	mux   *nl.Mux
	g     *forwarder.Gtp5g
	wg    *sync.WaitGroup
	udp   *net.UDPConn
}

type nullHandler struct{}

func (nullHandler) NotifySessReport(report.SessReport)      {}
func (nullHandler) PopBufPkt(uint64, uint16) ([]byte, bool) { return nil, false }

func newDrvEnv() *drvEnv {
	logger.Log.SetOutput(devNull{})
	e := &drvEnv{wg: &sync.WaitGroup{}}
	mux, err := nl.NewMux()
	if err != nil {
		fmt.Fprintln(os.Stderr, "harness: mux:", err)
		die(3)
	}
	e.mux = mux
	go mux.Serve()
	e.k = newSimKernel(31)
	e.pk = newSimKernel(31)
	udp, err := net.ListenUDP("udp4", &net.UDPAddr{IP: net.IPv4(127, 0, 0, 1), Port: 0})
	if err != nil {
		fmt.Fprintln(os.Stderr, "harness: udp:", err)
		die(3)
	}
	e.udp = udp
	g, err := forwarder.VerifNewGtp5g(e.wg, mux, e.k, e.pk, 31, 7, udp)
	if err != nil {
		fmt.Fprintln(os.Stderr, "harness: gtp5g:", err)
		die(3)
	}
	g.HandleReport(nullHandler{})
	e.g = g
	return e
}

type devNull struct{}

func (devNull) Write(p []byte) (int, error) { return len(p), nil }

// ---------------------------------------------------------------------------
// generation of abstract rule IEs (tokens) together with the real go-pfcp IE
// ---------------------------------------------------------------------------

type tokIE struct {
	tok string
	ie  *ie.IE
}

func shuffle(r *rng, xs []tokIE) []tokIE {
	p := r.perm(len(xs))
	out := make([]tokIE, len(xs))
	for i, j := range p {
		out[i] = xs[j]
	}
	return out
}

func joinToks(xs []tokIE, sep string) (string, []*ie.IE) {
	var ts []string
	var is []*ie.IE
	for _, x := range xs {
		ts = append(ts, x.tok)
		is = append(is, x.ie)
	}
	return strings.Join(ts, sep), is
}

func ip4(r *rng) net.IP {
	return net.IPv4(byte(r.bits(8)), byte(r.bits(8)), byte(r.bits(8)), byte(r.bits(8))).To4()
}

func (g *fdGen) validRule() string {
	r := g.r
	addr := func() string {
		switch r.intn(6) {
		case 0:
			return "any"
		case 1:
			return "assigned"
		case 2:
			return fmt.Sprintf("%d.%d.%d.%d", r.intn(256), r.intn(256), r.intn(256), r.intn(256))
		default:
			return fmt.Sprintf("%d.%d.%d.%d/%d", r.intn(256), r.intn(256), r.intn(256), r.intn(256), r.intn(33))
		}
	}
	ports := func() string {
		n := 1 + r.intn(3)
		var it []string
		for i := 0; i < n; i++ {
			if r.chance(40) {
				it = append(it, fmt.Sprintf("%d-%d", r.bits(16), r.bits(16)))
			} else {
				it = append(it, fmt.Sprintf("%d", r.bits(16)))
			}
		}
		return strings.Join(it, ",")
	}
	proto := "ip"
	if r.chance(80) {
		proto = fmt.Sprint(r.intn(256))
	}
	s := "permit " + r.pick("in", "out") + " " + proto + " from " + addr()
	if r.chance(45) {
		s += " " + ports()
	}
	s += " to " + addr()
	if r.chance(45) {
		s += " " + ports()
	}
	return s
}

func genPDR(r *rng, update bool) []tokIE {
	var ch []tokIE
	add := func(t string, i *ie.IE) { ch = append(ch, tokIE{t, i}) }
	id := uint16(r.bits(16))
	add(fmt.Sprintf("pdrid:%d", id), ie.NewPDRID(id))
	if r.chance(80) {
		v := uint32(r.bits(32))
		add(fmt.Sprintf("prec:%d", v), ie.NewPrecedence(v))
	}
	if r.chance(85) {
		var pd []tokIE
		srcif := uint8(r.intn(4))
		pd = append(pd, tokIE{fmt.Sprintf("srcif:%d", srcif), ie.NewSourceInterface(srcif)})
		if r.chance(60) {
			teid, ip := uint32(r.bits(32)), ip4(r)
			pd = append(pd, tokIE{fmt.Sprintf("fteid:%08x/%s", teid, hex.EncodeToString(ip)), ie.NewFTEID(0x01, teid, ip, nil, 0)})
		}
		if r.chance(60) {
			ip := ip4(r)
			pd = append(pd, tokIE{fmt.Sprintf("ueip:%s", hex.EncodeToString(ip)), ie.NewUEIPAddress(0x02, ip.String(), "", 0, 0)})
		}
		fg := &fdGen{r: r}
		for n := r.intn(4); n > 0; n-- {
			fd := fg.validRule()
			if r.chance(8) {
				fd = fg.rule() // possibly invalid: the filter is then skipped by the driver
			}
			bid := uint32(0)
			bs := "-"
			if r.chance(40) {
				bid = uint32(1 + r.intn(1000))
				bs = fmt.Sprint(bid)
			}
			pd = append(pd, tokIE{fmt.Sprintf("sdf:%s/%s", hex.EncodeToString([]byte(fd)), bs), ie.NewSDFFilter(fd, "", "", "", bid)})
		}
		if r.chance(20) {
			pd = append(pd, tokIE{"netinst", ie.NewNetworkInstance("internet")})
		}
		if r.chance(10) {
			pd = append(pd, tokIE{"appid", ie.NewApplicationID("app")})
		}
		pd = shuffle(r, pd)
		t, is := joinToks(pd, ";")
		add("pdi("+t+")", ie.NewPDI(is...))
	}
	if r.chance(50) {
		v := uint8(r.intn(7))
		add(fmt.Sprintf("ohr:%d", v), ie.NewOuterHeaderRemoval(v, 0))
	}
	if r.chance(85) {
		v := uint32(r.bits(32))
		add(fmt.Sprintf("farid:%d", v), ie.NewFARID(v))
	}
	for n := r.intn(4); n > 0; n-- {
		v := uint32(r.bits(32))
		add(fmt.Sprintf("qerid:%d", v), ie.NewQERID(v))
	}
	for n := r.intn(4); n > 0; n-- {
		v := uint32(r.bits(32))
		add(fmt.Sprintf("urrid:%d", v), ie.NewURRID(v))
	}
	return shuffle(r, ch)
}

func genFwdParams(r *rng) []tokIE {
	var fp []tokIE
	if r.chance(70) {
		v := uint8(r.intn(4))
		fp = append(fp, tokIE{fmt.Sprintf("dstif:%d", v), ie.NewDestinationInterface(v)})
	}
	if r.chance(7) {
		// Outer Header Creation carrying a C-TAG / S-TAG (TS 29.244 8.2.56): outside the forms gtp5g supports; the driver
		// must skip or refuse it, not fault on it
		var pay []byte
		switch r.intn(3) {
		case 0:
			pay = append([]byte{0x01, 0x40}, r.bytes(4+4+3)...)
		case 1:
			pay = append([]byte{0x01, 0x80}, r.bytes(4+4+3)...)
		default:
			pay = append([]byte{0x00, 0x40}, r.bytes(3+r.intn(2))...)
		}
		fp = append(fp, tokIE{"ohctag:" + hex.EncodeToString(pay), ie.New(ie.OuterHeaderCreation, pay)})
	} else if r.chance(80) {
		desc := []uint16{0x0100, 0x0400, 0x1000, 0x0500}[r.intn(4)]
		teid, ip, port := uint32(r.bits(32)), ip4(r), uint16(r.bits(16))
		fp = append(fp, tokIE{fmt.Sprintf("ohc:%04x/%08x/%s/%d", desc, teid, hex.EncodeToString(ip), port),
			ie.NewOuterHeaderCreation(desc, teid, ip.String(), "", port, 0, 0)})
	}
	if r.chance(30) {
		pol := []string{"p1", "mainPolicy", "x"}[r.intn(3)]
		fp = append(fp, tokIE{"fpol:" + hex.EncodeToString([]byte(pol)), ie.NewForwardingPolicy(pol)})
	}
	if r.chance(20) {
		v := uint8(r.intn(8))
		fp = append(fp, tokIE{fmt.Sprintf("smreq:%d", v), ie.NewPFCPSMReqFlags(v)})
	}
	if r.chance(20) {
		fp = append(fp, tokIE{"netinst", ie.NewNetworkInstance("internet")})
	}
	return shuffle(r, fp)
}

func genFAR(r *rng, update bool) []tokIE {
	var ch []tokIE
	add := func(t string, i *ie.IE) { ch = append(ch, tokIE{t, i}) }
	id := uint32(r.bits(32))
	add(fmt.Sprintf("farid:%d", id), ie.NewFARID(id))
	if r.chance(85) {
		b := []byte{byte(r.bits(8))}
		if r.chance(50) {
			b = append(b, byte(r.bits(8)))
		}
		add("aa:"+hex.EncodeToString(b), ie.NewApplyAction(b...))
	}
	if r.chance(75) {
		fp := genFwdParams(r)
		t, is := joinToks(fp, ";")
		if update {
			add("ufp("+t+")", ie.NewUpdateForwardingParameters(is...))
		} else {
			add("fp("+t+")", ie.NewForwardingParameters(is...))
		}
	}
	if r.chance(40) {
		v := uint8(r.bits(8))
		add(fmt.Sprintf("barid:%d", v), ie.NewBARID(v))
	}
	return shuffle(r, ch)
}

func genQER(r *rng) []tokIE {
	var ch []tokIE
	add := func(t string, i *ie.IE) { ch = append(ch, tokIE{t, i}) }
	id := uint32(r.bits(32))
	add(fmt.Sprintf("qerid:%d", id), ie.NewQERID(id))
	if r.chance(50) {
		v := uint32(r.bits(32))
		add(fmt.Sprintf("corr:%d", v), ie.NewQERCorrelationID(v))
	}
	if r.chance(85) {
		v := uint8(r.intn(16))
		add(fmt.Sprintf("gate:%d", v), ie.NewGateStatus(v>>2, v&3))
	}
	if r.chance(70) {
		ul, dl := r.bits(40), r.bits(40)
		add(fmt.Sprintf("mbr:%d/%d", ul, dl), ie.NewMBR(ul, dl))
	}
	if r.chance(50) {
		ul, dl := r.bits(40), r.bits(40)
		add(fmt.Sprintf("gbr:%d/%d", ul, dl), ie.NewGBR(ul, dl))
	}
	if r.chance(70) {
		v := uint8(r.bits(8))
		add(fmt.Sprintf("qfi:%d", v), ie.NewQFI(v))
	}
	if r.chance(40) {
		v := uint8(r.bits(8))
		add(fmt.Sprintf("rqi:%d", v), ie.NewRQI(v))
	}
	if r.chance(40) {
		v := uint8(r.bits(8))
		add(fmt.Sprintf("ppi:%d", v), ie.NewPagingPolicyIndicator(v))
	}
	return shuffle(r, ch)
}

func genURR(r *rng, update bool) []tokIE {
	var ch []tokIE
	add := func(t string, i *ie.IE) { ch = append(ch, tokIE{t, i}) }
	id := uint32(r.bits(32))
	add(fmt.Sprintf("urrid:%d", id), ie.NewURRID(id))
	if r.chance(85) {
		v := r.intn(8)
		add(fmt.Sprintf("mm:%d", v), ie.NewMeasurementMethod(v>>2&1, v>>1&1, v&1))
	}
	perio := false
	if r.chance(90) {
		b := []byte{byte(r.bits(8)), byte(r.bits(8))}
		if r.chance(60) {
			b = append(b, byte(r.bits(8)))
		}
		if r.chance(50) {
			b[0] &^= 1
		}
		perio = b[0]&1 != 0
		add("rt:"+hex.EncodeToString(b), ie.NewReportingTriggers(b...))
	}
	if perio || r.chance(30) {
		sec := uint32(1 + r.intn(100))
		if r.chance(10) {
			sec = uint32(r.bits(32))
		}
		if r.chance(5) {
			sec = 0
		}
		add(fmt.Sprintf("mp:%d", sec), ie.NewMeasurementPeriod(time.Duration(sec)*time.Second))
	}
	if r.chance(60) {
		v := uint8(r.bits(8))
		add(fmt.Sprintf("mi:%d", v), ie.NewMeasurementInformation(v))
	}
	vol := func(name string, mk func(uint8, uint64, uint64, uint64) *ie.IE) {
		f := uint8(r.intn(8))
		tv, uv, dv := r.bits(64), r.bits(64), r.bits(64)
		add(fmt.Sprintf("%s:%02x/%d/%d/%d", name, f, tv, uv, dv), mk(f, tv, uv, dv))
	}
	if r.chance(60) {
		vol("vth", ie.NewVolumeThreshold)
	}
	if r.chance(50) {
		vol("vqu", ie.NewVolumeQuota)
	}
	return shuffle(r, ch)
}

func genBAR(r *rng) []tokIE {
	var ch []tokIE
	add := func(t string, i *ie.IE) { ch = append(ch, tokIE{t, i}) }
	id := uint8(r.bits(8))
	add(fmt.Sprintf("barid:%d", id), ie.NewBARID(id))
	if r.chance(70) {
		v := uint8(r.bits(8))
		add(fmt.Sprintf("ddnd:%d", v), ie.NewDownlinkDataNotificationDelay(time.Duration(v)*50*time.Millisecond))
	}
	if r.chance(70) {
		v := uint8(r.bits(8))
		add(fmt.Sprintf("sbpc:%d", v), ie.NewSuggestedBufferingPacketsCount(v))
	}
	return shuffle(r, ch)
}

func seidOf(r *rng) uint64 {
	switch r.intn(6) {
	case 0:
		return []uint64{0, 1, 1 << 32, 1 << 63, ^uint64(0)}[r.intn(5)]
	default:
		return r.bits(64)
	}
}

func (e *drvEnv) reqs() string {
	l := append(e.k.takeLog(), e.pk.takeLog()...)
	if len(l) == 0 {
		return "_"
	}
	return strings.Join(l, ";")
}

func resStr(err error) string {
	if err != nil {
		return "err"
	}
	return "ok"
}

func runDrv(c *ctx) {
	r := c.rng
	e := newDrvEnv()
	n := 3000
	if c.thorough() {
		n = 150000
	}
	perioOf := func() string {
		// let the periodic server drain its queue, then look at its groups
		ps := forwarder.VerifPerio(e.g)
		perio.VerifSync(ps)
		return perio.VerifDump(ps)
	}
	// damaged IEs that once made the driver fault run first
	for _, a := range c.args {
		if strings.HasPrefix(a, "corpus=") && (len(c.args) == 0 || !strings.Contains(c.args[0], "/") || strings.HasPrefix(c.args[0], "0/")) {
			replayDrvmal(c, e, a[7:], false)
		}
	}
	for i := 0; i < n; i++ {
		seid := seidOf(r)
		kind := []string{"pdr", "far", "qer", "urr", "bar"}[r.intn(5)]
		update := r.chance(35)
		if update {
			// Update on a rule the simulated kernel holds: create it first (quietly) so that REPLACE succeeds
		}
		var ch []tokIE
		switch kind {
		case "pdr":
			ch = genPDR(r, update)
		case "far":
			ch = genFAR(r, update)
		case "qer":
			ch = genQER(r)
		case "urr":
			ch = genURR(r, update)
		case "bar":
			ch = genBAR(r)
		}
		toks, ies := joinToks(ch, " ")
		op := "create"
		if update {
			op = "update"
		}
		c.count(kind + "." + op)
		// the translation of a rule is a function of the rule alone: now and then the same IE is handed over a second time
		// (and must come out the same — nothing of an earlier translation may leak into a later one)
		reps := 1
		if r.chance(25) {
			reps = 2
			c.count("repeat")
		}
		for rep := 0; rep < reps; rep++ {
			// a fresh kernel table for every operation; an Update finds the rule it addresses (created quietly with its id only)
			e.k.mu.Lock()
			e.k.objs = map[string][]simAttr{}
			e.k.mu.Unlock()
			if update {
				idTok := ch[0]
				for _, x := range ch {
					if strings.HasPrefix(x.tok, kind+"id:") {
						idTok = x
					}
				}
				switch kind {
				case "pdr":
					e.g.CreatePDR(seid, ie.NewCreatePDR(idTok.ie))
				case "far":
					e.g.CreateFAR(seid, ie.NewCreateFAR(idTok.ie))
				case "qer":
					e.g.CreateQER(seid, ie.NewCreateQER(idTok.ie))
				case "urr":
					e.g.CreateURR(seid, ie.NewCreateURR(idTok.ie))
				case "bar":
					e.g.CreateBAR(seid, ie.NewCreateBAR(idTok.ie))
				}
				e.reqs()
			}
			c.intent("drv.%s.%s %x %s", kind, op, seid, toks)
			res := guard(func() string {
				var err error
				switch kind + "." + op {
				case "pdr.create":
					err = e.g.CreatePDR(seid, ie.NewCreatePDR(ies...))
				case "pdr.update":
					err = e.g.UpdatePDR(seid, ie.NewUpdatePDR(ies...))
				case "far.create":
					err = e.g.CreateFAR(seid, ie.NewCreateFAR(ies...))
				case "far.update":
					err = e.g.UpdateFAR(seid, ie.NewUpdateFAR(ies...))
				case "qer.create":
					err = e.g.CreateQER(seid, ie.NewCreateQER(ies...))
				case "qer.update":
					err = e.g.UpdateQER(seid, ie.NewUpdateQER(ies...))
				case "urr.create":
					err = e.g.CreateURR(seid, ie.NewCreateURR(ies...))
				case "urr.update":
					_, err = e.g.UpdateURR(seid, ie.NewUpdateURR(ies...))
				case "bar.create":
					err = e.g.CreateBAR(seid, ie.NewCreateBAR(ies...))
				case "bar.update":
					err = e.g.UpdateBAR(seid, ie.NewUpdateBARWithinSessionModificationRequest(ies...))
				}
				return resStr(err)
			})
			line := fmt.Sprintf("T drv.%s.%s %x %s = %s %s", kind, op, seid, toks, res, e.reqs())
			if kind == "urr" {
				line += " perio=" + perioOf()
				// now and then the same Create URR arrives a second time while the rule is live: the data plane refuses it
				// (EEXIST) and the live URR must stay registered for periodic querying exactly as it was
				if op == "create" && res == "ok" && r.chance(30) {
					c.count("urr.create.again")
					guard(func() string {
						return resStr(e.g.CreateURR(seid, ie.NewCreateURR(ies...)))
					})
					e.reqs()
					line += " again=" + perioOf()
				}
				// unregister again (Remove URR always unregisters), so that the groups of the next line start empty.  Now and
				// then the data plane has lost the rule and refuses the removal (ENOENT): the periodic registration must go all
				// the same — a removed URR, or one of an ended session, is not queried any more
				refuse := r.chance(40)
				if refuse {
					e.k.mu.Lock()
					e.k.objs = map[string][]simAttr{}
					e.k.mu.Unlock()
				}
				for _, x := range ch {
					if strings.HasPrefix(x.tok, "urrid:") {
						e.g.RemoveURR(seid, ie.NewRemoveURR(x.ie))
					}
				}
				after := perioOf()
				if refuse {
					line += " rm=" + after
				}
				e.reqs()
			}
			c.emit("%s", line)
		}
		// the same rule IE with its content damaged (truncated, bytes flipped, lengths changed …): whatever arrives, the
		// driver's walk over it must refuse or skip, never fault (C07, layer 2 on the gtp5g path)
		if r.chance(40) {
			var grp *ie.IE
			switch kind + "." + op {
			case "pdr.create":
				grp = ie.NewCreatePDR(ies...)
			case "pdr.update":
				grp = ie.NewUpdatePDR(ies...)
			case "far.create":
				grp = ie.NewCreateFAR(ies...)
			case "far.update":
				grp = ie.NewUpdateFAR(ies...)
			case "qer.create":
				grp = ie.NewCreateQER(ies...)
			case "qer.update":
				grp = ie.NewUpdateQER(ies...)
			case "urr.create":
				grp = ie.NewCreateURR(ies...)
			case "urr.update":
				grp = ie.NewUpdateURR(ies...)
			case "bar.create":
				grp = ie.NewCreateBAR(ies...)
			case "bar.update":
				grp = ie.NewUpdateBARWithinSessionModificationRequest(ies...)
			}
			if b, err := grp.Marshal(); err == nil && len(b) > 4 {
				pay := mutate(r, b[4:])
				x := ie.New(grp.Type, pay)
				c.count("damaged." + kind)
				e.k.mu.Lock()
				e.k.objs = map[string][]simAttr{}
				e.k.mu.Unlock()
				c.intent("drvmal %s.%s %x %s", kind, op, seid, hexOrDash(pay))
				res := guard(func() string {
					var err error
					switch kind + "." + op {
					case "pdr.create":
						err = e.g.CreatePDR(seid, x)
					case "pdr.update":
						err = e.g.UpdatePDR(seid, x)
					case "far.create":
						err = e.g.CreateFAR(seid, x)
					case "far.update":
						err = e.g.UpdateFAR(seid, x)
					case "qer.create":
						err = e.g.CreateQER(seid, x)
					case "qer.update":
						err = e.g.UpdateQER(seid, x)
					case "urr.create":
						err = e.g.CreateURR(seid, x)
					case "urr.update":
						_, err = e.g.UpdateURR(seid, x)
					case "bar.create":
						err = e.g.CreateBAR(seid, x)
					case "bar.update":
						err = e.g.UpdateBAR(seid, x)
					}
					return resStr(err)
				})
				e.reqs()
				if kind == "urr" {
					// whatever got registered with the periodic server (under whatever id the damaged IE carried) goes again
					perio.VerifClear(forwarder.VerifPerio(e.g))
					e.reqs()
				}
				c.emit("T drvmal %s.%s %x %s = %s", kind, op, seid, hexOrDash(pay), res)
			}
		}
	}
}

// drvmal-replay <file>: re-runs the `T drvmal` lines of a trace / replay file and prints the stack of any fault
func init() { register("drvmal-replay", runDrvmalReplay) }

func runDrvmalReplay(c *ctx) {
	if len(c.args) < 1 {
		die(2)
	}
	if !replayDrvmal(c, newDrvEnv(), c.args[0], true) {
		die(2)
	}
}

// replayDrvmal hands the damaged IEs of `T drvmal` lines (a trace, a replay file, the corpus) to the real driver again
func replayDrvmal(c *ctx, e *drvEnv, file string, stacks bool) bool {
	b, err := os.ReadFile(file)
	if err != nil {
		return false
	}
	for _, ln := range strings.Split(string(b), "\n") {
		f := strings.Fields(ln)
		if len(f) < 5 || f[0] != "T" || f[1] != "drvmal" {
			continue
		}
		var seid uint64
		fmt.Sscanf(f[3], "%x", &seid)
		pay, _ := hex.DecodeString(f[4])
		typ := map[string]uint16{"pdr.create": ie.CreatePDR, "pdr.update": ie.UpdatePDR, "far.create": ie.CreateFAR, "far.update": ie.UpdateFAR,
			"qer.create": ie.CreateQER, "qer.update": ie.UpdateQER, "urr.create": ie.CreateURR, "urr.update": ie.UpdateURR,
			"bar.create": ie.CreateBAR, "bar.update": ie.UpdateBARWithinSessionReportResponse}[f[2]]
		x := ie.New(typ, pay)
		res := func() (res string) {
			defer func() {
				if p := recover(); p != nil {
					res = fmt.Sprintf("panic: %v\n%s", p, debug.Stack())
				}
			}()
			var err error
			switch f[2] {
			case "pdr.create":
				err = e.g.CreatePDR(seid, x)
			case "pdr.update":
				err = e.g.UpdatePDR(seid, x)
			case "far.create":
				err = e.g.CreateFAR(seid, x)
			case "far.update":
				err = e.g.UpdateFAR(seid, x)
			case "qer.create":
				err = e.g.CreateQER(seid, x)
			case "qer.update":
				err = e.g.UpdateQER(seid, x)
			case "urr.create":
				err = e.g.CreateURR(seid, x)
			case "urr.update":
				_, err = e.g.UpdateURR(seid, x)
			case "bar.create":
				err = e.g.CreateBAR(seid, x)
			case "bar.update":
				err = e.g.UpdateBAR(seid, x)
			}
			return resStr(err)
		}()
		e.reqs()
		first := strings.SplitN(res, "\n", 2)[0]
		if strings.HasPrefix(first, "panic") {
			first = "panic"
		}
		c.count("damaged.corpus")
		c.emit("T drvmal %s %x %s = %s", f[2], seid, f[4], first)
		if stacks && strings.HasPrefix(res, "panic") {
			fmt.Fprintln(os.Stderr, res)
		}
	}
	return true
}
