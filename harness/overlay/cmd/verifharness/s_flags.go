//go:build verif

package main

import (
	"encoding/hex"
	"fmt"
	"strings"

	"github.com/free5gc/go-upf/internal/report"
)

// S-pure / flags: report.ApplyAction, ReportingTrigger, UsageReportTrigger, VolumeMeasure.
//
//	T flags.apply <octets|-> = err | <flags16>:<13 accessor bits in TS 29.244 table order>
//	T flags.rpt <octets|-> = err | <flags32>:<18 accessor bits>:<IE() payload>
//	T flags.usar <flags32> = <22 accessor bits>:<IE() payload>
//	T flags.setrpt <flags32> <r32> = <flags32>
//	T flags.vol <flags8> <mnop> <tv> <uv> <dv> <tp> <up> <dp> = <flags8 after SetFlags>:<IE() payload>
func init() { register("flags", runFlags) }

func bits(bs ...bool) string {
	var sb strings.Builder
	for _, b := range bs {
		if b {
			sb.WriteByte('1')
		} else {
			sb.WriteByte('0')
		}
	}
	return sb.String()
}

func guard(f func() string) (res string) {
	defer func() {
		if p := recover(); p != nil {
			res = "panic"
		}
	}()
	return f()
}

func flagsApply(b []byte) string {
	return guard(func() string {
		var a report.ApplyAction
		if err := a.Unmarshal(b); err != nil {
			return "err"
		}
		return fmt.Sprintf("%04x:%s", a.Flags, bits(a.DROP(), a.FORW(), a.BUFF(), a.NOCP(), a.DUPL(), a.IPMA(), a.IPMD(),
			a.DFRT(), a.EDRT(), a.BDPN(), a.DDPN(), a.FSSM(), a.MBSU()))
	})
}

func flagsRpt(b []byte) string {
	return guard(func() string {
		var r report.ReportingTrigger
		if err := r.Unmarshal(b); err != nil {
			return "err"
		}
		return fmt.Sprintf("%08x:%s:%s", r.Flags, bits(r.PERIO(), r.VOLTH(), r.TIMTH(), r.QUHTI(), r.START(), r.STOPT(),
			r.DROTH(), r.LIUSA(), r.VOLQU(), r.TIMQU(), r.ENVCL(), r.MACAR(), r.EVETH(), r.EVEQU(), r.IPMJL(), r.QUVTI(),
			r.REEMR(), r.UPINT()), hex.EncodeToString(r.IE().Payload))
	})
}

func flagsUsar(f uint32) string {
	return guard(func() string {
		t := report.UsageReportTrigger{Flags: f}
		return fmt.Sprintf("%s:%s", bits(t.PERIO(), t.VOLTH(), t.TIMTH(), t.QUHTI(), t.START(), t.STOPT(), t.DROTH(),
			t.IMMER(), t.VOLQU(), t.TIMQU(), t.LIUSA(), t.TERMR(), t.MONIT(), t.ENVCL(), t.MACAR(), t.EVETH(), t.EVEQU(),
			t.TEBUR(), t.IPMJL(), t.QUVTI(), t.EMRRE(), t.UPINT()), hex.EncodeToString(t.IE().Payload))
	})
}

func flagsSetRpt(f, r uint32) string {
	return guard(func() string {
		t := report.UsageReportTrigger{Flags: f}
		t.SetReportingTrigger(r)
		return fmt.Sprintf("%08x", t.Flags)
	})
}

func flagsVol(f uint8, mnop bool, v [6]uint64) string {
	return guard(func() string {
		m := report.VolumeMeasure{Flags: f, TotalVolume: v[0], UplinkVolume: v[1], DownlinkVolume: v[2],
			TotalPktNum: v[3], UplinkPktNum: v[4], DownlinkPktNum: v[5]}
		m.SetFlags(mnop)
		return fmt.Sprintf("%02x:%s", m.Flags, hex.EncodeToString(m.IE().Payload))
	})
}

// volume IE for an arbitrary flag octet without SetFlags (all 64 subsets and the spare bits)
func flagsVolIE(f uint8, v [6]uint64) string {
	return guard(func() string {
		m := report.VolumeMeasure{Flags: f, TotalVolume: v[0], UplinkVolume: v[1], DownlinkVolume: v[2],
			TotalPktNum: v[3], UplinkPktNum: v[4], DownlinkPktNum: v[5]}
		return hex.EncodeToString(m.IE().Payload)
	})
}

func runFlags(c *ctx) {
	r := c.rng
	apply := func(b []byte) {
		c.count(fmt.Sprintf("apply.len%d", len(b)))
		c.emit("T flags.apply %s = %s", hexOrDash(b), flagsApply(b))
	}
	rpt := func(b []byte) {
		c.count(fmt.Sprintf("rpt.len%d", len(b)))
		c.emit("T flags.rpt %s = %s", hexOrDash(b), flagsRpt(b))
	}
	// Apply Action: too short, every 1-octet value, every 2-octet value, longer forms
	apply(nil)
	for v := 0; v < 256; v++ {
		apply([]byte{byte(v)})
	}
	for v := 0; v < 65536; v++ {
		apply([]byte{byte(v), byte(v >> 8)})
	}
	for i := 0; i < 256; i++ {
		apply(r.bytes(3 + r.intn(3)))
	}
	// Reporting Triggers: short inputs, every 2-octet value, 3-octet: single bits, pairs, random (quick) / all 2^24 (thorough, sharded by caller)
	rpt(nil)
	for v := 0; v < 256; v += 17 {
		rpt([]byte{byte(v)})
	}
	for v := 0; v < 65536; v++ {
		rpt([]byte{byte(v), byte(v >> 8)})
	}
	w3 := func(v uint32) { rpt([]byte{byte(v), byte(v >> 8), byte(v >> 16)}) }
	if c.thorough() {
		lo, hi := shardRange(c, 1<<24)
		for v := lo; v < hi; v++ {
			w3(uint32(v))
		}
	} else {
		w3(0)
		for i := 0; i < 24; i++ {
			w3(1 << uint(i))
			for j := i + 1; j < 24; j++ {
				w3(1<<uint(i) | 1<<uint(j))
			}
		}
		for i := 0; i < 65536; i++ {
			w3(uint32(r.u64()))
		}
	}
	for i := 0; i < 256; i++ {
		rpt(r.bytes(4 + r.intn(3)))
	}
	// Usage Report Trigger: every single bit of the 32-bit word, all pairs, random words
	usar := func(f uint32) { c.count("usar"); c.emit("T flags.usar %08x = %s", f, flagsUsar(f)) }
	usar(0)
	for i := 0; i < 32; i++ {
		usar(1 << uint(i))
		for j := i + 1; j < 32; j++ {
			usar(1<<uint(i) | 1<<uint(j))
		}
	}
	nr := 20000
	if c.thorough() {
		nr = 300000
	}
	for i := 0; i < nr; i++ {
		usar(uint32(r.u64()))
	}
	// cause mapping: every single bit, all pairs, zero, random words, onto empty and random flag sets
	setrpt := func(f, x uint32) { c.count("setrpt"); c.emit("T flags.setrpt %08x %08x = %s", f, x, flagsSetRpt(f, x)) }
	for _, f := range []uint32{0, 0xffffffff, uint32(r.u64())} {
		setrpt(f, 0)
		for i := 0; i < 32; i++ {
			setrpt(f, 1<<uint(i))
			for j := i + 1; j < 32; j++ {
				setrpt(f, 1<<uint(i)|1<<uint(j))
			}
		}
	}
	for i := 0; i < nr; i++ {
		setrpt(uint32(r.bits(32)), uint32(r.bits(32)))
	}
	// Volume Measurement: all 256 flag octets x MNOP, counters boundary + random
	for f := 0; f < 256; f++ {
		for _, mnop := range []bool{false, true} {
			var v [6]uint64
			for k := range v {
				v[k] = r.bits(64)
			}
			mn := 0
			if mnop {
				mn = 1
			}
			c.count("vol")
			c.emit("T flags.vol %02x %d %016x %016x %016x %016x %016x %016x = %s", f, mn, v[0], v[1], v[2], v[3], v[4], v[5], flagsVol(uint8(f), mnop, v))
			c.emit("T flags.volie %02x %016x %016x %016x %016x %016x %016x = %s", f, v[0], v[1], v[2], v[3], v[4], v[5], flagsVolIE(uint8(f), v))
		}
	}
}

// shardRange: "<i>/<n>" as first stream argument splits [0,total) evenly; default whole range.
func shardRange(c *ctx, total int) (int, int) {
	if len(c.args) > 0 {
		var i, n int
		if _, err := fmt.Sscanf(c.args[0], "%d/%d", &i, &n); err == nil && n > 0 && i < n {
			return total / n * i, map[bool]int{true: total, false: total / n * (i + 1)}[i == n-1]
		}
	}
	return 0, total
}
