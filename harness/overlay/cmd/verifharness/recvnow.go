//go:build verif

package main

import (
	"net"
	"syscall"
	"time"
)

// recvNow takes one datagram off the socket's queue if there is one, without waiting.  No deadline
// arithmetic is involved: a goroutine descheduled under load cannot make a queued datagram look absent
// (a read deadline of a few hundred microseconds that has already passed when the read starts fails
// before the socket is looked at).
func recvNow(conn *net.UDPConn, buf []byte) (int, bool) {
	conn.SetReadDeadline(time.Time{})
	rc, err := conn.SyscallConn()
	if err != nil {
		return 0, false
	}
	n := -1
	rc.Read(func(fd uintptr) bool {
		m, _, e := syscall.Recvfrom(int(fd), buf, syscall.MSG_DONTWAIT)
		if e == nil {
			n = m
		}
		return true
	})
	return n, n >= 0
}
