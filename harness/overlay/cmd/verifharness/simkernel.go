//go:build verif

package main

import (
	"encoding/binary"
	"encoding/hex"
	"fmt"
	"sort"
	"sync"
	"syscall"
	"time"
	"unsafe"

	gtp5gnl "github.com/free5gc/go-gtp5gnl"
)

// simKernel: a stand-in for the gtp5g kernel module behind an nl.Conner.  Requests written by
// go-nl are handled synchronously and the replies are queued on a Unix datagram socketpair whose
// read end is what the real nl.Mux polls.  Every request is logged (command, nlmsg flags, attribute
// bytes) — the log is what the Lean netlink model decodes.
type simKernel struct {
	mu      sync.Mutex
	rfd     int
	wfd     int
	seq     int
	family  uint16
	log     []string
	objs    map[string][]simAttr // "<kind>/<seid>/<id>" -> top-level attributes as stored
	version string
	// scripted usage reports: returned (and consumed round-robin) for GET_REPORT / DEL_URR / URR update / multi
	reports func(cmd uint8, seid uint64, urr uint32) [][]byte // each element: one UR attribute payload
	failCmd map[uint8]int32                                   // command -> errno to answer with (once)
	delay   map[uint8]time.Duration                           // command -> data-plane call latency
}

type simAttr struct {
	typ uint16
	val []byte // payload (without header, without padding)
}

func newSimKernel(family uint16) *simKernel {
	fds, err := syscall.Socketpair(syscall.AF_UNIX, syscall.SOCK_DGRAM|syscall.SOCK_CLOEXEC, 0)
	if err != nil {
		panic(err)
	}
	return &simKernel{rfd: fds[0], wfd: fds[1], seq: 1, family: family, objs: map[string][]simAttr{}, version: "0.9.5", failCmd: map[uint8]int32{}}
}

func (k *simKernel) Fd() int { return k.rfd }
func (k *simKernel) Close()  { syscall.Close(k.rfd); syscall.Close(k.wfd) }
func (k *simKernel) Read(b []byte) (int, error) {
	n, err := syscall.Read(k.rfd, b)
	return n, err
}
func (k *simKernel) Write(b []byte) (int, error) {
	k.handle(append([]byte(nil), b...))
	return len(b), nil
}
func (k *simKernel) Writev(iovs []syscall.Iovec) (int, error) {
	var b []byte
	for _, iov := range iovs {
		if iov.Len == 0 {
			continue
		}
		b = append(b, unsafe.Slice(iov.Base, int(iov.Len))...)
	}
	k.handle(b)
	return len(b), nil
}
func (k *simKernel) TakeSeq() int {
	k.mu.Lock()
	defer k.mu.Unlock()
	s := k.seq
	k.seq++
	return s
}

func (k *simKernel) takeLog() []string {
	k.mu.Lock()
	defer k.mu.Unlock()
	l := k.log
	k.log = nil
	return l
}

func parseAttrs(b []byte) []simAttr {
	var out []simAttr
	for len(b) >= 4 {
		l := int(binary.LittleEndian.Uint16(b[0:2]))
		t := binary.LittleEndian.Uint16(b[2:4])
		if l < 4 || l > len(b) {
			break
		}
		out = append(out, simAttr{typ: t, val: append([]byte(nil), b[4:l]...)})
		al := (l + 3) &^ 3
		if al > len(b) {
			break
		}
		b = b[al:]
	}
	return out
}

func encAttr(t uint16, val []byte) []byte {
	l := 4 + len(val)
	b := make([]byte, (l+3)&^3)
	binary.LittleEndian.PutUint16(b[0:2], uint16(l))
	binary.LittleEndian.PutUint16(b[2:4], t)
	copy(b[4:], val)
	return b
}

func u16b(v uint16) []byte { b := make([]byte, 2); binary.LittleEndian.PutUint16(b, v); return b }
func u32b(v uint32) []byte { b := make([]byte, 4); binary.LittleEndian.PutUint32(b, v); return b }
func u64b(v uint64) []byte { b := make([]byte, 8); binary.LittleEndian.PutUint64(b, v); return b }

func (k *simKernel) msg(typ uint16, seq uint32, payload []byte) []byte {
	l := 16 + len(payload)
	b := make([]byte, (l+3)&^3)
	binary.LittleEndian.PutUint32(b[0:4], uint32(len(b)))
	binary.LittleEndian.PutUint16(b[4:6], typ)
	binary.LittleEndian.PutUint16(b[6:8], 0)
	binary.LittleEndian.PutUint32(b[8:12], seq)
	binary.LittleEndian.PutUint32(b[12:16], 4711) // pid != 0
	copy(b[16:], payload)
	return b
}

func (k *simKernel) ack(seq uint32, errno int32, reqHdr []byte) []byte {
	p := make([]byte, 4+16)
	binary.LittleEndian.PutUint32(p[0:4], uint32(-errno))
	copy(p[4:], reqHdr)
	return k.msg(syscall.NLMSG_ERROR, seq, p)
}

type objKind struct {
	name          string
	idAttr, seidA uint16
	idWidth       int
}

func kindOfCmd(cmd uint8) (objKind, string) {
	switch cmd {
	case gtp5gnl.CMD_ADD_PDR:
		return objKind{"pdr", gtp5gnl.PDR_ID, gtp5gnl.PDR_SEID, 2}, "add"
	case gtp5gnl.CMD_DEL_PDR:
		return objKind{"pdr", gtp5gnl.PDR_ID, gtp5gnl.PDR_SEID, 2}, "del"
	case gtp5gnl.CMD_GET_PDR:
		return objKind{"pdr", gtp5gnl.PDR_ID, gtp5gnl.PDR_SEID, 2}, "get"
	case gtp5gnl.CMD_ADD_FAR:
		return objKind{"far", gtp5gnl.FAR_ID, gtp5gnl.FAR_SEID, 4}, "add"
	case gtp5gnl.CMD_DEL_FAR:
		return objKind{"far", gtp5gnl.FAR_ID, gtp5gnl.FAR_SEID, 4}, "del"
	case gtp5gnl.CMD_GET_FAR:
		return objKind{"far", gtp5gnl.FAR_ID, gtp5gnl.FAR_SEID, 4}, "get"
	case gtp5gnl.CMD_ADD_QER:
		return objKind{"qer", gtp5gnl.QER_ID, gtp5gnl.QER_SEID, 4}, "add"
	case gtp5gnl.CMD_DEL_QER:
		return objKind{"qer", gtp5gnl.QER_ID, gtp5gnl.QER_SEID, 4}, "del"
	case gtp5gnl.CMD_GET_QER:
		return objKind{"qer", gtp5gnl.QER_ID, gtp5gnl.QER_SEID, 4}, "get"
	case gtp5gnl.CMD_ADD_URR:
		return objKind{"urr", gtp5gnl.URR_ID, gtp5gnl.URR_SEID, 4}, "add"
	case gtp5gnl.CMD_DEL_URR:
		return objKind{"urr", gtp5gnl.URR_ID, gtp5gnl.URR_SEID, 4}, "del"
	case gtp5gnl.CMD_ADD_BAR:
		return objKind{"bar", gtp5gnl.BAR_ID, gtp5gnl.BAR_SEID, 1}, "add"
	case gtp5gnl.CMD_DEL_BAR:
		return objKind{"bar", gtp5gnl.BAR_ID, gtp5gnl.BAR_SEID, 1}, "del"
	}
	return objKind{}, ""
}

func readUint(b []byte) uint64 {
	switch {
	case len(b) >= 8:
		return binary.LittleEndian.Uint64(b)
	case len(b) >= 4:
		return uint64(binary.LittleEndian.Uint32(b))
	case len(b) >= 2:
		return uint64(binary.LittleEndian.Uint16(b))
	case len(b) >= 1:
		return uint64(b[0])
	}
	return 0
}

func (k *simKernel) handle(req []byte) {
	if len(req) >= 20 {
		k.mu.Lock()
		d := k.delay[req[16]]
		k.mu.Unlock()
		if d > 0 {
			time.Sleep(d)
		}
	}
	k.mu.Lock()
	defer k.mu.Unlock()
	if len(req) < 20 {
		return
	}
	typ := binary.LittleEndian.Uint16(req[4:6])
	flags := binary.LittleEndian.Uint16(req[6:8])
	seq := binary.LittleEndian.Uint32(req[8:12])
	cmd := req[16]
	attrsB := req[20:]
	k.log = append(k.log, fmt.Sprintf("%d/%x/%x/%s", cmd, typ, flags, hexOrDash(attrsB)))
	attrs := parseAttrs(attrsB)
	var replies [][]byte
	errno := int32(0)
	genl := func(c uint8, payload []byte) []byte {
		return k.msg(k.family, seq, append([]byte{c, 0, 0, 0}, payload...))
	}
	if e, ok := k.failCmd[cmd]; ok {
		delete(k.failCmd, cmd)
		errno = e
	} else {
		kind, op := kindOfCmd(cmd)
		switch {
		case cmd == gtp5gnl.CMD_GET_VERSION:
			replies = append(replies, genl(cmd, encAttr(1, append([]byte(k.version), 0))))
		case cmd == gtp5gnl.CMD_GET_REPORT:
			var seid uint64
			var urr uint32
			for _, a := range attrs {
				switch a.typ {
				case gtp5gnl.URR_ID:
					urr = uint32(readUint(a.val))
				case gtp5gnl.URR_SEID:
					seid = readUint(a.val)
				}
			}
			if _, ok := k.objs[fmt.Sprintf("urr/%x/%d", seid, urr)]; !ok {
				errno = int32(syscall.ENOENT)
			} else {
				var p []byte
				if k.reports != nil {
					for _, r := range k.reports(cmd, seid, urr) {
						p = append(p, encAttr(gtp5gnl.UR, r)...)
					}
				}
				replies = append(replies, genl(cmd, p))
			}
		case cmd == gtp5gnl.CMD_GET_MULTI_REPORTS:
			var p []byte
			for _, a := range attrs {
				if a.typ&0x3fff == gtp5gnl.URR_MULTI_SEID_URRID {
					var seid uint64
					var urr uint32
					for _, x := range parseAttrs(a.val) {
						switch x.typ {
						case gtp5gnl.URR_ID:
							urr = uint32(readUint(x.val))
						case gtp5gnl.URR_SEID:
							seid = readUint(x.val)
						}
					}
					if k.reports != nil {
						for _, r := range k.reports(cmd, seid, urr) {
							p = append(p, encAttr(gtp5gnl.UR, r)...)
						}
					}
				}
			}
			replies = append(replies, genl(cmd, p))
		case op != "":
			var id, seid uint64
			for _, a := range attrs {
				if a.typ == kind.idAttr {
					id = readUint(a.val)
				}
				if a.typ == kind.seidA {
					seid = readUint(a.val)
				}
			}
			key := fmt.Sprintf("%s/%x/%d", kind.name, seid, id)
			old, exists := k.objs[key]
			switch op {
			case "add":
				if flags&syscall.NLM_F_REPLACE != 0 {
					if !exists {
						errno = int32(syscall.ENOENT)
					} else {
						// merge: attribute types present in the request replace the stored ones
						present := map[uint16]bool{}
						for _, a := range attrs {
							present[a.typ&0x3fff] = true
						}
						var merged []simAttr
						for _, a := range old {
							if !present[a.typ&0x3fff] {
								merged = append(merged, a)
							}
						}
						k.objs[key] = append(merged, attrs...)
						if kind.name == "urr" && k.reports != nil {
							var p []byte
							for _, r := range k.reports(cmd, seid, uint32(id)) {
								p = append(p, encAttr(gtp5gnl.UR, r)...)
							}
							if len(p) > 0 {
								replies = append(replies, genl(cmd, p))
							}
						}
					}
				} else {
					if exists {
						errno = int32(syscall.EEXIST)
					} else {
						k.objs[key] = attrs
					}
				}
			case "del":
				if !exists {
					errno = int32(syscall.ENOENT)
				} else {
					delete(k.objs, key)
					if kind.name == "urr" {
						var p []byte
						if k.reports != nil {
							for _, r := range k.reports(cmd, seid, uint32(id)) {
								p = append(p, encAttr(gtp5gnl.UR, r)...)
							}
						}
						replies = append(replies, genl(cmd, p))
					}
				}
			case "get":
				if !exists {
					errno = int32(syscall.ENOENT)
				} else {
					var p []byte
					for _, a := range old {
						if a.typ&0x3fff == gtp5gnl.LINK {
							continue
						}
						p = append(p, encAttr(a.typ, a.val)...)
					}
					if kind.name == "far" {
						// FAR_RELATED_TO_PDR: ids of the PDRs of this session that name the FAR
						var ids []int
						for ok, oa := range k.objs {
							var ps uint64
							var pid, far uint64
							isP := false
							if _, err := fmt.Sscanf(ok, "pdr/%x/%d", &ps, &pid); err == nil {
								isP = true
							}
							if !isP || ps != seid {
								continue
							}
							hasFar := false
							for _, a := range oa {
								if a.typ&0x3fff == gtp5gnl.PDR_FAR_ID {
									far = readUint(a.val)
									hasFar = true
								}
							}
							if hasFar && far == id {
								ids = append(ids, int(pid))
							}
						}
						sort.Ints(ids)
						var rel []byte
						for _, i := range ids {
							rel = append(rel, u16b(uint16(i))...)
						}
						if len(rel) > 0 {
							p = append(p, encAttr(gtp5gnl.FAR_RELATED_TO_PDR, rel)...)
						}
					}
					replies = append(replies, genl(cmd, p))
				}
			}
		default:
			errno = int32(syscall.EOPNOTSUPP)
		}
	}
	var out []byte
	if errno == 0 {
		for _, r := range replies {
			out = append(out, r...)
		}
	}
	out = append(out, k.ack(seq, errno, req[:16])...)
	syscall.Write(k.wfd, out)
}

func (k *simKernel) dump() string {
	k.mu.Lock()
	defer k.mu.Unlock()
	var ks []string
	for key := range k.objs {
		ks = append(ks, key)
	}
	sort.Strings(ks)
	return fmt.Sprint(ks)
}

var _ = hex.EncodeToString
