//go:build verif

package main

import (
	"fmt"
	"net"
	"os"
	"strings"
	"time"

	"github.com/wmnsk/go-pfcp/ie"
	"github.com/wmnsk/go-pfcp/message"

	"github.com/free5gc/go-gtp5gnl"
	"github.com/free5gc/go-upf/internal/forwarder"
	"github.com/free5gc/go-upf/internal/forwarder/perio"
)

// S-wedge (C18): bursts against the running stack — many sessions with periodic URRs, a tick that reports them all, and a
// bulk removal (re-association of the node) in the same moment, with data-plane call latency.
//
//	T conc.facts = ok                                      trigger: the driver evaluates the regenerated concurrency facts
//	T wedge.run sessions=<n> urrs=<k> latus=<µs> = alive | wedged:<goroutine states>
//
// "alive": the heartbeat sent after the burst is answered within the deadline.
func init() { register("wedge", runWedge) }

func usaReportAttr(seid uint64, urr uint32) []byte {
	var p []byte
	p = append(p, encAttr(gtp5gnl.UR_URRID, u32b(urr))...)
	p = append(p, encAttr(gtp5gnl.UR_USAGE_REPORT_TRIGGER, u32b(0))...)
	p = append(p, encAttr(gtp5gnl.UR_SEID, u64b(seid))...)
	return p
}

func runWedge(c *ctx) {
	netn := 240
	for _, a := range c.args {
		if strings.HasPrefix(a, "net=") {
			fmt.Sscan(a[4:], &netn)
		}
		if strings.Contains(a, "/") {
			var sh, n int
			fmt.Sscanf(a, "%d/%d", &sh, &n)
			netn += sh
		}
	}
	c.emit("T conc.facts = ok")
	type sc struct{ sessions, urrs, latus int }
	// below the queue sizes (must stay alive) and beyond both of them (512 timer events in one loop turn, 128 sessions in one tick)
	scen := []sc{{20, 1, 0}, {100, 2, 50}, {200, 1, 100}, {250, 2, 20}, {300, 2, 200}}
	if c.thorough() {
		scen = append(scen, sc{700, 2, 200}, sc{700, 2, 0}, sc{400, 2, 500}, sc{1200, 1, 100})
	}
	for _, x := range scen {
		e := newBufEnv(c, netn)
		e.start()
		var pend [][]byte
		asr := e.rpc(message.NewAssociationSetupRequest(e.nextSeq(), ie.NewNodeID(e.ip(1), "", ""), ie.NewRecoveryTimeStamp(time.Unix(1700000000, 0))), &pend)
		if causeOf(asr) != "1" {
			fmt.Fprintln(os.Stderr, "harness: association refused")
			die(3)
		}
		// the data plane answers a multi-URR query with one report per URR
		e.d.pk.mu.Lock()
		e.d.pk.reports = func(cmd uint8, seid uint64, urr uint32) [][]byte { return [][]byte{usaReportAttr(seid, urr)} }
		e.d.pk.mu.Unlock()
		for i := 0; i < x.sessions; i++ {
			ies := []*ie.IE{ie.NewNodeID(e.ip(1), "", ""), ie.NewFSEID(uint64(0x9000+i), net.ParseIP(e.ip(1)), nil)}
			for u := 1; u <= x.urrs; u++ {
				ies = append(ies, ie.NewCreateURR(ie.NewURRID(uint32(u)), ie.NewMeasurementMethod(0, 1, 0), ie.NewReportingTriggers(0x01, 0x00), ie.NewMeasurementPeriod(time.Hour)))
			}
			rsp := e.rpc(message.NewSessionEstablishmentRequest(0, 0, 0, e.nextSeq(), 0, ies...), &pend)
			if causeOf(rsp) != "1" {
				fmt.Fprintln(os.Stderr, "harness: establishment refused:", causeOf(rsp))
				die(3)
			}
		}
		e.settle()
		drainConn(e.smf)
		// latency of the data plane on URR removal: the bulk removal keeps the loop inside one turn for a while
		e.d.k.mu.Lock()
		e.d.k.delay = map[uint8]time.Duration{gtp5gnl.CMD_DEL_URR: time.Duration(x.latus) * time.Microsecond}
		e.d.k.mu.Unlock()
		// re-association: every session of the node is removed in one loop turn …
		b, _ := message.NewAssociationSetupRequest(e.nextSeq(), ie.NewNodeID(e.ip(1), "", ""), ie.NewRecoveryTimeStamp(time.Unix(1700000001, 0))).Marshal()
		e.smf.WriteToUDP(b, e.srvA)
		// … and a tick of the common period lands inside it
		time.Sleep(time.Duration(200+x.latus) * time.Microsecond)
		go perio.VerifTick(forwarder.VerifPerio(e.d.g), time.Hour)
		// keep the SMF's socket drained (reports, the association response)
		res := "alive"
		deadline := time.Now().Add(time.Duration(4+x.sessions/100) * time.Second)
		ok := false
		for time.Now().Before(deadline) && !ok {
			drainConn(e.smf)
			ok = e.doFence(300 * time.Millisecond)
		}
		if !ok {
			res = "wedged"
		}
		c.count("wedge." + res)
		c.emit("T wedge.run sessions=%d urrs=%d latus=%d = %s", x.sessions, x.urrs, x.latus, res)
		if ok {
			e.d.k.mu.Lock()
			e.d.k.delay = nil
			e.d.k.mu.Unlock()
			e.stop()
		}
		// a wedged server cannot be stopped: leave it and move to fresh sockets and a fresh driver
		e.smf.Close()
		e.fence.Close()
		e.sink.Close()
		netn++
	}
	// bulk CREATION: one establishment with several hundred periodic URRs (fewer than the periodic server's queue holds) while
	// a tick reports more sessions than the report queue holds.  One timer event per created URR fits; the loop finishes its
	// turn, drains the reports, and everything goes on.
	type cs struct{ sessions, urrs, latus int }
	cscen := []cs{{140, 400, 200}}
	if c.thorough() {
		cscen = append(cscen, cs{150, 300, 100}, cs{200, 450, 300}, cs{140, 500, 50})
	}
	for _, x := range cscen {
		e := newBufEnv(c, netn)
		e.start()
		var pend [][]byte
		asr := e.rpc(message.NewAssociationSetupRequest(e.nextSeq(), ie.NewNodeID(e.ip(1), "", ""), ie.NewRecoveryTimeStamp(time.Unix(1700000000, 0))), &pend)
		if causeOf(asr) != "1" {
			fmt.Fprintln(os.Stderr, "harness: association refused")
			die(3)
		}
		e.d.pk.mu.Lock()
		e.d.pk.reports = func(cmd uint8, seid uint64, urr uint32) [][]byte { return [][]byte{usaReportAttr(seid, urr)} }
		e.d.pk.mu.Unlock()
		for i := 0; i < x.sessions; i++ {
			rsp := e.rpc(message.NewSessionEstablishmentRequest(0, 0, 0, e.nextSeq(), 0, ie.NewNodeID(e.ip(1), "", ""),
				ie.NewFSEID(uint64(0xa000+i), net.ParseIP(e.ip(1)), nil),
				ie.NewCreateURR(ie.NewURRID(1), ie.NewMeasurementMethod(0, 1, 0), ie.NewReportingTriggers(0x01, 0x00), ie.NewMeasurementPeriod(time.Hour))), &pend)
			if causeOf(rsp) != "1" {
				fmt.Fprintln(os.Stderr, "harness: establishment refused:", causeOf(rsp))
				die(3)
			}
		}
		e.settle()
		drainConn(e.smf)
		e.d.k.mu.Lock()
		e.d.k.delay = map[uint8]time.Duration{gtp5gnl.CMD_ADD_URR: time.Duration(x.latus) * time.Microsecond}
		e.d.k.mu.Unlock()
		ies := []*ie.IE{ie.NewNodeID(e.ip(1), "", ""), ie.NewFSEID(uint64(0xafff), net.ParseIP(e.ip(1)), nil)}
		for u := 1; u <= x.urrs; u++ {
			ies = append(ies, ie.NewCreateURR(ie.NewURRID(uint32(u)), ie.NewMeasurementMethod(0, 1, 0), ie.NewReportingTriggers(0x01, 0x00), ie.NewMeasurementPeriod(2*time.Hour)))
		}
		big := message.NewSessionEstablishmentRequest(0, 0, 0, e.nextSeq(), 0, ies...)
		bb := make([]byte, big.MarshalLen())
		if err := big.MarshalTo(bb); err != nil {
			fmt.Fprintln(os.Stderr, "harness: marshal:", err)
			die(3)
		}
		// the big establishment first; a moment into it the tick: the periodic server reports the sessions, parks on the full
		// report queue (the loop is busy), and the rest of the establishment's timer events must still fit its queue
		e.smf.WriteToUDP(bb, e.srvA)
		time.Sleep(time.Duration(10+x.latus/50) * time.Millisecond)
		go perio.VerifTick(forwarder.VerifPerio(e.d.g), time.Hour)
		res := "alive"
		deadline := time.Now().Add(8 * time.Second)
		ok := false
		for time.Now().Before(deadline) && !ok {
			drainConn(e.smf)
			ok = e.doFence(300 * time.Millisecond)
		}
		if !ok {
			res = "wedged"
		}
		c.count("create." + res)
		c.emit("T wedge.create sessions=%d urrs=%d latus=%d = %s", x.sessions, x.urrs, x.latus, res)
		if ok {
			e.d.k.mu.Lock()
			e.d.k.delay = nil
			e.d.k.mu.Unlock()
			e.stop()
		}
		e.smf.Close()
		e.fence.Close()
		e.sink.Close()
		netn++
	}
	// a tick still queued when its period's last URR disappears: the periodic server is busy with a slow query when a second
	// tick is queued behind it; the session is deleted meanwhile (its removal events queue behind that tick).  Whatever the
	// stale tick finds, the next registration of a periodic URR (the control loop calls into the periodic server for it) and
	// the requests after it must still be served.
	rounds := 3
	if c.thorough() {
		rounds = 12
	}
	for i := 0; i < rounds; i++ {
		urrs := 1 + i%3
		latms := 40 + 30*(i%4)
		e := newBufEnv(c, netn)
		e.start()
		var pend [][]byte
		asr := e.rpc(message.NewAssociationSetupRequest(e.nextSeq(), ie.NewNodeID(e.ip(1), "", ""), ie.NewRecoveryTimeStamp(time.Unix(1700000000, 0))), &pend)
		if causeOf(asr) != "1" {
			fmt.Fprintln(os.Stderr, "harness: association refused")
			die(3)
		}
		e.d.pk.mu.Lock()
		e.d.pk.reports = func(cmd uint8, seid uint64, urr uint32) [][]byte { return [][]byte{usaReportAttr(seid, urr)} }
		e.d.pk.mu.Unlock()
		est := func(cp uint64) message.Message {
			ies := []*ie.IE{ie.NewNodeID(e.ip(1), "", ""), ie.NewFSEID(cp, net.ParseIP(e.ip(1)), nil)}
			for u := 1; u <= urrs; u++ {
				ies = append(ies, ie.NewCreateURR(ie.NewURRID(uint32(u)), ie.NewMeasurementMethod(0, 1, 0), ie.NewReportingTriggers(0x01, 0x00), ie.NewMeasurementPeriod(time.Hour)))
			}
			return message.NewSessionEstablishmentRequest(0, 0, 0, e.nextSeq(), 0, ies...)
		}
		rsp := e.rpc(est(0x9000), &pend)
		er, isEst := rsp.(*message.SessionEstablishmentResponse)
		if !isEst || causeOf(rsp) != "1" || er.UPFSEID == nil {
			fmt.Fprintln(os.Stderr, "harness: establishment refused:", causeOf(rsp))
			die(3)
		}
		fs, _ := er.UPFSEID.FSEID()
		e.settle()
		drainConn(e.smf)
		ps := forwarder.VerifPerio(e.d.g)
		e.d.pk.mu.Lock()
		e.d.pk.delay = map[uint8]time.Duration{gtp5gnl.CMD_GET_MULTI_REPORTS: time.Duration(latms) * time.Millisecond}
		e.d.pk.mu.Unlock()
		perio.VerifTick(ps, time.Hour) // taken at once: the server is now inside the slow query
		time.Sleep(5 * time.Millisecond)
		perio.VerifTick(ps, time.Hour) // stays queued
		e.rpc(message.NewSessionDeletionRequest(0, 0, fs.SEID, e.nextSeq(), 0), &pend)
		time.Sleep(time.Duration(2*latms+40) * time.Millisecond)
		e.d.pk.mu.Lock()
		e.d.pk.delay = nil
		e.d.pk.mu.Unlock()
		// the next periodic URR: the loop registers it with the periodic server
		m2 := est(0x9001)
		b := make([]byte, m2.MarshalLen())
		if err := m2.MarshalTo(b); err == nil {
			e.smf.WriteToUDP(b, e.srvA)
		}
		ok := false
		deadline := time.Now().Add(4 * time.Second)
		for time.Now().Before(deadline) && !ok {
			drainConn(e.smf)
			ok = e.doFence(300 * time.Millisecond)
		}
		res := "alive"
		if !ok {
			res = "wedged"
		}
		c.count("tickrace." + res)
		c.emit("T wedge.tickrace urrs=%d latms=%d = %s", urrs, latms, res)
		if ok {
			e.stop()
		}
		e.smf.Close()
		e.fence.Close()
		e.sink.Close()
		netn++
	}
	// the real ticker goroutine (period 1 s) against a periodic query that takes longer than the period: a tick expires while
	// the server is busy, the session holding the period's last URR is deleted meanwhile.  Afterwards periodic reporting must
	// still work: the next session with a periodic URR gets its periodic reports, and requests are answered.
	rt := 4
	if c.thorough() {
		rt = 8
	}
	for i := 0; i < rt; i++ {
		e := newBufEnv(c, netn)
		e.start()
		var pend [][]byte
		asr := e.rpc(message.NewAssociationSetupRequest(e.nextSeq(), ie.NewNodeID(e.ip(1), "", ""), ie.NewRecoveryTimeStamp(time.Unix(1700000000, 0))), &pend)
		if causeOf(asr) != "1" {
			fmt.Fprintln(os.Stderr, "harness: association refused")
			die(3)
		}
		e.d.pk.mu.Lock()
		e.d.pk.reports = func(cmd uint8, seid uint64, urr uint32) [][]byte { return [][]byte{usaReportAttr(seid, urr)} }
		e.d.pk.mu.Unlock()
		est := func(cp uint64) message.Message {
			return message.NewSessionEstablishmentRequest(0, 0, 0, e.nextSeq(), 0,
				ie.NewNodeID(e.ip(1), "", ""), ie.NewFSEID(cp, net.ParseIP(e.ip(1)), nil),
				ie.NewCreateURR(ie.NewURRID(1), ie.NewMeasurementMethod(0, 1, 0), ie.NewReportingTriggers(0x01, 0x00), ie.NewMeasurementPeriod(time.Second)))
		}
		e.d.pk.mu.Lock()
		e.d.pk.delay = map[uint8]time.Duration{gtp5gnl.CMD_GET_MULTI_REPORTS: time.Duration(1250+50*i) * time.Millisecond}
		e.d.pk.mu.Unlock()
		rsp := e.rpc(est(0x9100), &pend)
		er, isEst := rsp.(*message.SessionEstablishmentResponse)
		if !isEst || causeOf(rsp) != "1" || er.UPFSEID == nil {
			fmt.Fprintln(os.Stderr, "harness: establishment refused:", causeOf(rsp))
			die(3)
		}
		fs, _ := er.UPFSEID.FSEID()
		// tick 1 at 1 s (slow query until ~2.3 s), tick 2 at 2 s finds the server busy
		time.Sleep(2100 * time.Millisecond)
		drainConn(e.smf)
		e.rpc(message.NewSessionDeletionRequest(0, 0, fs.SEID, e.nextSeq(), 0), &pend)
		e.d.pk.mu.Lock()
		e.d.pk.delay = nil
		e.d.pk.mu.Unlock()
		time.Sleep(1500 * time.Millisecond)
		drainConn(e.smf)
		// the next periodic URR and its reports
		m2 := est(0x9101)
		b := make([]byte, m2.MarshalLen())
		if err := m2.MarshalTo(b); err == nil {
			e.smf.WriteToUDP(b, e.srvA)
		}
		periodic := 0
		alive := false
		deadline := time.Now().Add(4500 * time.Millisecond)
		for time.Now().Before(deadline) && !(alive && periodic > 0) {
			for _, d := range drainConn(e.smf) {
				if msg, err := message.Parse(d); err == nil {
					if sr, ok := msg.(*message.SessionReportRequest); ok && len(sr.UsageReport) > 0 {
						periodic++
						// answer it, so that the request does not sit in the retransmission table
						ans, _ := message.NewSessionReportResponse(0, 0, sr.SEID(), sr.Sequence(), 0, ie.NewCause(ie.CauseRequestAccepted)).Marshal()
						e.smf.WriteToUDP(ans, e.srvA)
					}
				}
			}
			if !alive {
				alive = e.doFence(300 * time.Millisecond)
			} else {
				time.Sleep(50 * time.Millisecond)
			}
		}
		res := "alive"
		if !alive {
			res = "wedged"
		} else if periodic == 0 {
			res = "noperiodic"
		}
		c.count("realtick." + res)
		c.emit("T wedge.realtick qms=%d = %s", 1250+50*i, res)
		if alive && periodic > 0 {
			e.stop()
		}
		e.smf.Close()
		e.fence.Close()
		e.sink.Close()
		netn++
	}
}
