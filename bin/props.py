# per-property configuration of bin/check: theorem module, correspondence streams, evidence texts
PROPS = {
    "C14": dict(
        module="UpfVerif.Props.C14",
        streams=[dict(name="gtpu")],
        rule="grid QFI 0..63 x PDU type 0..15 x with/without container x payload lengths (alignment boundaries, "
             "sampled lengths; all 0..1500 in the thorough tier) + out-of-range QFI/PDU-type bytes; distinct = distinct input lines",
        exhaustive_quick=True, exhaustive_thorough=True,
        trusted_base=["TS 29.281 §5 / TS 38.415 §5.5.2 reference decoder Spec/GtpuRef.lean (hand-transcribed)",
                      "model Model/Gtpu.lean of internal/gtpv1/msg.go, tied by exhaustive differential stream 'gtpu'"],
        level_text="Kernel-checked theorems (Props/C14.lean): for every TEID, payload (length+8 <= 65535), QFI < 64, PDU type < 16 the "
                   "model of Message.Encode yields bytes the independent TS 29.281/38.415 reference decoder reads back exactly; the model is "
                   "tied to internal/gtpv1/msg.go by an exhaustive differential run over the QFI x PDU-type x container grid and payload lengths, "
                   "and the reference decoder is also run on the implementation's own bytes.",
        level_note="Trusted: Lean kernel; the hand-written reference decoder (reading of TS 29.281 §5.1, TS 38.415 §5.5.2); the hand-written model "
                   "of msg.go (checked against the implementation on every run, not proved equal); harness + upfdrv. WritePacket's socket write is not modelled.",
        assumptions=["payload length + 8 <= 65535 (16-bit length field)", "header form 0x34 as emitted by WritePacket"],
    ),
    "C19": dict(
        module="UpfVerif.Props.C19",
        streams=[dict(name="flags", shards_thorough=16, timeout_thorough=3000)],
        rule="exhaustive: all 2^16 apply-action words in 1- and 2-octet form, all 2^16 2-octet reporting-trigger words, too-short inputs, "
             "all 256 volume flag octets x MNOP; 3-octet reporting triggers: all single bits, all pairs, 2^16 random words (quick) / all 2^24 (thorough, 16 shards); "
             "usage-report trigger and cause mapping: zero, all 32 single bits, all pairs, random words; distinct = distinct input lines",
        exhaustive_quick=False, exhaustive_thorough=True,
        trusted_base=["bit tables Spec/TS29244Bits.lean transcribed by hand from TS 29.244 §8.2.26, §8.2.19, §8.2.41, §8.2.13",
                      "Gen/Consts.lean regenerated from /repo by tools/extract (go/types constant values)",
                      "model Model/Flags.lean of internal/report/report.go (which accessor tests which constant; the switch of SetReportingTrigger), "
                      "tied by the exhaustive differential stream 'flags'"],
        level_text="Kernel-checked theorems (Props/C19.lean) over all octet values: the regenerated constants equal the TS 29.244 bit positions; "
                   "Apply Action / Reporting Triggers decode (every permitted length), Reporting/Usage-Report-Trigger encode, 3-octet re-encode identity, "
                   "cause mapping (same name and no other; any non-single-cause word maps to nothing), Volume Measurement SetFlags and IE round trip for every "
                   "flag subset and all 64-bit counters. Tie: constants regenerated each run (T1) and exhaustive/large differential sweeps on the real accessors (T2); "
                   "the spec tables are also evaluated directly on the implementation's outputs.",
        level_note="Trusted: Lean kernel; hand-transcribed spec tables; extractor; the model's accessor-name↦constant table and switch table (checked against the "
                   "implementation by the sweeps, not proved equal). go-pfcp's NewVolumeMeasurement/NewReportingTriggers are exercised through IE() but not verified beyond the sweep.",
        assumptions=["little-endian flag words as in report.go", "IE payload octet 5 is the first payload octet"],
    ),
}

# properties not claimed yet (kept current; every property has a planned executable model, see DESIGN.md)
NOT_APPLICABLE = {}
for _i in range(1, 21):
    _k = "C%02d" % _i
    if _k not in PROPS:
        NOT_APPLICABLE[_k] = "check not built yet in this round (planned, see DESIGN.md §7); not a limit of the technique"
