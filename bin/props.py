# per-property configuration of bin/check: theorem module, correspondence streams, evidence texts
PROPS = {
    "C14": dict(
        module="UpfVerif.Props.C14",
        streams=[dict(name="gtpu")],
        rule="grid QFI 0..63 x PDU type 0..15 x with/without container x payload lengths (alignment boundaries, "
             "sampled lengths; all 0..1500 in the thorough tier) + out-of-range QFI/PDU-type bytes; distinct = distinct input lines",
        exhaustive_quick=True, exhaustive_thorough=True,
        trusted_base=["TS 29.281 §5 / TS 38.415 §5.5.2 reference decoder Spec/GtpuRef.lean (hand-transcribed)",
                      "model Model/Gtpu.lean of internal/gtpv1/msg.go, tied by exhaustive differential stream 'gtpu'"],
        level_text="Kernel-checked theorems (Props/C14.lean): for every TEID, payload (length+8 <= 65535), QFI < 64, PDU type < 16 the "
                   "model of Message.Encode yields bytes the independent TS 29.281/38.415 reference decoder reads back exactly; the model is "
                   "tied to internal/gtpv1/msg.go by an exhaustive differential run over the QFI x PDU-type x container grid and payload lengths, "
                   "and the reference decoder is also run on the implementation's own bytes.",
        level_note="Trusted: Lean kernel; the hand-written reference decoder (reading of TS 29.281 §5.1, TS 38.415 §5.5.2); the hand-written model "
                   "of msg.go (checked against the implementation on every run, not proved equal); harness + upfdrv. WritePacket's socket write is not modelled.",
        assumptions=["payload length + 8 <= 65535 (16-bit length field)", "header form 0x34 as emitted by WritePacket"],
    ),
}

# properties not claimed yet (kept current; every property has a planned executable model, see DESIGN.md)
NOT_APPLICABLE = {}
for _i in range(1, 21):
    _k = "C%02d" % _i
    if _k not in PROPS:
        NOT_APPLICABLE[_k] = "check not built yet in this round (planned, see DESIGN.md §7); not a limit of the technique"
