# per-property configuration of bin/check: theorem module, correspondence streams, evidence texts
PROPS = {
    "C14": dict(
        module="UpfVerif.Props.C14",
        streams=[dict(name="gtpu"),
                 dict(name="buf", args=["net=250"], shards=2, shards_thorough=6, seed_per_shard=True, timeout=900, timeout_thorough=3000)],
        rule="grid QFI 0..63 x PDU type 0..15 x with/without container x payload lengths (alignment boundaries, "
             "sampled lengths; all 0..1500 in the thorough tier) + out-of-range QFI/PDU-type bytes; distinct = distinct input lines",
        exhaustive_quick=True, exhaustive_thorough=True,
        trusted_base=["TS 29.281 §5 / TS 38.415 §5.5.2 reference decoder Spec/GtpuRef.lean (hand-transcribed)",
                      "model Model/Gtpu.lean of internal/gtpv1/msg.go, tied by exhaustive differential stream 'gtpu'"],
        level_text="Kernel-checked theorems (Props/C14.lean): for every TEID, payload (length+8 <= 65535), QFI < 64, PDU type < 16 the "
                   "model of Message.Encode yields bytes the independent TS 29.281/38.415 reference decoder reads back exactly; the model is "
                   "tied to internal/gtpv1/msg.go by an exhaustive differential run over the QFI x PDU-type x container grid and payload lengths, "
                   "and the reference decoder is also run on the implementation's own bytes. writePacket_length — the datagram is the payload plus exactly 12 (no QoS flow) or 16 octets, for every payload length (nothing rounded, nothing cut off); container_qfi_only — the container is four octets with length field 1 and carries the six-bit QFI only (PPP / RQI clear), whatever else the QER says.",
        level_note="Trusted: Lean kernel; the hand-written reference decoder (reading of TS 29.281 §5.1, TS 38.415 §5.5.2); the hand-written model "
                   "of msg.go (checked against the implementation on every run, not proved equal); harness + upfdrv. "
                   "The message WritePacket assembles is observed on the wire: the S-full 'buf' stream (real Gtp5g.WritePacket, UDP sink as gNB) compares every re-injected datagram "
                   "with the model's bytes and runs the reference decoder on it (sequences mixing packets with and without a QoS flow).",
        assumptions=["payload length + 8 <= 65535 (16-bit length field)", "header form 0x34 as emitted by WritePacket"],
    ),
    "C19": dict(
        module="UpfVerif.Props.C19",
        streams=[dict(name="flags", shards_thorough=16, timeout_thorough=3000)],
        rule="exhaustive: all 2^16 apply-action words in 1- and 2-octet form, all 2^16 2-octet reporting-trigger words, too-short inputs, "
             "all 256 volume flag octets x MNOP; 3-octet reporting triggers: all single bits, all pairs, 2^16 random words (quick) / all 2^24 (thorough, 16 shards); "
             "usage-report trigger and cause mapping: zero, all 32 single bits, all pairs, random words; distinct = distinct input lines",
        exhaustive_quick=False, exhaustive_thorough=True,
        trusted_base=["bit tables Spec/TS29244Bits.lean transcribed by hand from TS 29.244 §8.2.26, §8.2.19, §8.2.41, §8.2.13",
                      "Gen/Consts.lean regenerated from /repo by tools/extract (go/types constant values)",
                      "model Model/Flags.lean of internal/report/report.go (which accessor tests which constant; the switch of SetReportingTrigger), "
                      "tied by the exhaustive differential stream 'flags'"],
        level_text="Kernel-checked theorems (Props/C19.lean) over all octet values: the regenerated constants equal the TS 29.244 bit positions; "
                   "Apply Action / Reporting Triggers decode (every permitted length), Reporting/Usage-Report-Trigger encode, 3-octet re-encode identity, "
                   "cause mapping (same name and no other; any non-single-cause word maps to nothing), Volume Measurement SetFlags and IE round trip for every "
                   "flag subset and all 64-bit counters. Tie: constants regenerated each run (T1) and exhaustive/large differential sweeps on the real accessors (T2); "
                   "the spec tables are also evaluated directly on the implementation's outputs.",
        level_note="Trusted: Lean kernel; hand-transcribed spec tables; extractor; the model's accessor-name↦constant table and switch table (checked against the "
                   "implementation by the sweeps, not proved equal). go-pfcp's NewVolumeMeasurement/NewReportingTriggers are exercised through IE() but not verified beyond the sweep.",
        assumptions=["little-endian flag words as in report.go", "IE payload octet 5 is the first payload octet"],
    ),
}

# ---- properties served by the S-ctl stream (real PfcpServer over loopback + reference data plane) ----
def _ctl(k, profile, cases=24, events=40, tcases=250, tevents=60, extra=()):
    base = 32 + 12 * k
    return dict(name="ctl", args=["net=%d" % base, "profile=" + profile, "cases=%d" % cases, "events=%d" % events,
                                  "corpus=/verif/corpus/%s.cases" % profile],
                thorough_args=["cases=%d" % tcases, "events=%d" % tevents], shards=4, shards_thorough=12,
                seed_per_shard=True, timeout=600, timeout_thorough=3000)

_CTL_TB = ["model Model/Core.lean of internal/pfcp (handlers, Sess methods, tables, transactions), hand-written, "
           "tied by the S-ctl differential stream: real PfcpServer over loopback UDP in lock-step, every driver call, datagram and table dump compared",
           "reference data plane (mock forwarder.Driver) and simulated SMFs in /verif/harness; go-pfcp as encoder/decoder of the harness"]
_CTL_ASSUME = ["single event loop (handlers run sequentially)", "map iteration order and driver answers are environment inputs (any order, any answer stream)",
               "timers are events (real timers set to 1 h)", "fewer than 2^64 sessions"]

# C19 also over the S-ctl stream: messages carrying several usage reports with different triggers (the flag octets of each
# report on the wire against the word the data plane produced it with)
PROPS["C19"]["streams"].append(_ctl(13, "urr", cases=12, tcases=120))
# … and over the kernel-report path: a REPORT multicast through the real buffnetlink listener entry, where the data plane's
# cause word (Reporting Triggers layout) is mapped to the Usage Report Trigger by name
PROPS["C19"]["streams"].append(dict(name="krep", args=["net=12"], shards=2, shards_thorough=8, seed_per_shard=True, timeout=900, timeout_thorough=3000))
PROPS["C19"]["trusted_base"] = PROPS["C19"]["trusted_base"] + _CTL_TB + [
    "external predicate (Driver/CtlProps.lean): the Usage Report Trigger octets of every usage report in a response / Session Report Request decode to the word the reference data plane produced that report with (TERMR / IMMER apart)"]

PROPS["C04"] = dict(
    module="UpfVerif.Props.C04",
    streams=[dict(name="table"), _ctl(0, "nodes")],
    rule="table stream: random op sequences new/lookup/delete on the real LocalNode with SEIDs of every class (0, live, released, beyond, 2^32, "
         ">= 2^63, 2^64-1); ctl stream profile 'nodes': histories over 3 peers with establishment, deletion, re-association, SEID-0 responses; "
         "distinct = distinct input lines",
    trusted_base=_CTL_TB, assumptions=_CTL_ASSUME,
    level_text="Kernel-checked (Props/C04.lean): TableWF invariant of LocalNode{sess,free}; lookup exact for all 2^64 SEIDs (hit ⇒ the session carrying that SEID; "
               "miss ⇔ zero / beyond / released); allocation returns a fresh non-zero SEID and frames every other entry; release frees exactly one entry; "
               "the invariant holds in every reachable table (induction over all op sequences). Tie: direct table stream on the real LocalNode + S-ctl histories; "
               "the abstract map is also evaluated against the implementation's answers.",
    level_note="Trusted: Lean kernel; model of node.go:612-690 (checked against the code each run); handlers' use of the table is covered by the S-ctl "
               "correspondence and predicates, the handler-level 'no side effect on a miss' theorem is stated over Core.step in Props/C08.",
)
PROPS["C06"] = dict(
    module="UpfVerif.Props.C06",
    streams=[dict(name="rxret"), _ctl(1, "trans")],
    rule="rxret: retention window for all 256 maxRetrans values x 11 timeouts; ctl profile 'trans': duplicates, same sequence number from other peers, "
         "different request under an old key, rx expiries at random points, over 3 peers",
    trusted_base=_CTL_TB, assumptions=_CTL_ASSUME + ["RetransTimeout x 256 fits int64"],
    level_text="Kernel-checked (Props/C06.lean) over Core.step: a request hitting a receive transaction is never dispatched (state unchanged, no driver call, output = "
               "cached response or nothing); keys differing in address or sequence never alias; expiry releases the entry; retention = T x (N+1) for all N in 0..255. "
               "Tie: S-ctl 'trans' histories + exhaustive retention sweep on the real NewRxTransaction. retained_survives_tx_timeout — the retained response survives the expiry of a TRANSMIT transaction carrying the same address-sequence key (the two kinds share the key format). dups_replayed — ANY number of copies inside the window (beyond the retry count too) are answered from the cache, none executed, the transaction stays. retained_untouched / dup_after_any_history — no event other than a copy of the request itself or its own retention expiry (requests of other peers or other sequence numbers, whatever they do, responses, expiries of any other timer, reports) touches the retained response, so after ANY history of such events a copy is still answered with the very response the first copy got.",
    level_note="Trusted: Lean kernel; model of the loop body and transaction.go (checked against the code each run). Real timers are replaced by injected expiry events; "
               "'byte-identical' is modelled as 'the cached message' and checked on the wire by the harness (identical rendering of the replayed datagram).",
)
PROPS["C09"] = dict(
    module="UpfVerif.Props.C09",
    streams=[_ctl(2, "trans"), dict(name="tmoburst", args=["net=4"], timeout=600, timeout_thorough=1200)],
    rule="ctl profile 'trans' with the request counter positioned at 0, 2^24-2, 2^24-1, 2^24, 2^24+1, 2^32-2, 2^32-1, random; retry counts 0..3; "
         "matching / wrong-peer / wrong-sequence / duplicate / other-type responses; tx expiries at random points",
    trusted_base=_CTL_TB, assumptions=_CTL_ASSUME,
    level_text="Kernel-checked (Props/C09.lean) over Core.step/sendReq for every 32-bit counter value: wire sequence = low 24 bits = transaction key, so the response "
               "carrying the request's sequence number always matches; requests < 2^24 apart have distinct sequence numbers; expiry retransmits the identical message "
               "while count < N, then abandons; at most 1+N transmissions; matching response releases; unmatched responses and stale expiries change nothing. Tie: S-ctl. answered_then_stale_timeout — when the response overtakes the queued timeout of a timer that has fired, the request is retired and the stale timeout does nothing (no retransmission after the answer); tx_timeout_keeps_rx; rx_timeout_keeps_tx / rx_timeouts_keep_tx — no run of retention expiries, whatever keys they carry, retries or abandons a request or sends anything (external predicate on the implementation: an expiry concerns the kind of transaction its timer was started for). outstanding_untouched / outstanding_after_any_history — nothing but its own response and its own timer expiry touches an outstanding request (requests received, whatever they do, other requests' responses and expiries, retention expiries leave message and retry count as they were). S-tmoburst runs the REAL timers: 100-300 unanswered requests whose timers all expire while the loop is held in a data-plane call; each is transmitted exactly 1+N times and then abandoned.",
    level_note="Trusted: Lean kernel; model of pfcp.go:273-283,153-175 and transaction.go:57-109 (checked against the code each run); timers are injected events.",
)

PROPS["C01"] = dict(
    module="UpfVerif.Props.C01",
    streams=[_ctl(3, "mix"), _ctl(11, "nodes", cases=12, tcases=120)],
    rule="ctl profile 'mix': histories over 3 peers (association, establishment, modification with all 16 rule lists, deletion, report "
         "responses incl. SEID 0, reports, duplicates, expiries) with rule ids from small colliding pools incl. 0/max/missing id, and a keyed "
         "fault oracle (0/10/30 % of create, update, query calls fail); the data-plane table of the reference driver is dumped after every event",
    trusted_base=_CTL_TB + ["Spec/DataPlane.lean: reference data plane and the fault model (a remove fails only when the rule is absent)"],
    assumptions=_CTL_ASSUME,
    level_text="Kernel-checked (Props/C01.lean, Lemmas/CoreDP|CoreClose|CoreInv): for EVERY history, iteration order and driver answer stream respecting the "
               "fault model, every data-plane rule belongs to a live session that has it recorded (run_inv, induction over all event lists); Update/Remove/Query "
               "reach the driver only for recorded ids; Sess.Close withdraws every rule of the session whatever failed before (close_withdraws_all), hence "
               "deletion / re-association / SEID-0 keep the invariant. Tie: S-ctl differential stream with per-event data-plane dumps + predicates on the implementation. reassociation_withdraws_rules — after RemoteNode.Reset no rule of any session of the node's set is left in the data plane (invariant + C05 reset_sweeps); the same is checked on the implementation by the specification-side predicate at every accepted re-association.",
    level_note="Trusted: Lean kernel; hand-written model Model/Core.lean (checked against the real PfcpServer on every run, not proved equal); "
               "Spec.DataPlane as the meaning of 'present in the data plane'; 'requested by a Create IE' is carried by the structure of the model "
               "(ids enter the maps only in the Create methods).",
)
PROPS["C05"] = dict(
    module="UpfVerif.Props.C05",
    streams=[_ctl(4, "nodes"), dict(name="perio", shards=2, shards_thorough=6, seed_per_shard=True, timeout=600, timeout_thorough=3000)],
    rule="ctl profile 'nodes': several nodes and sessions with deliberately coinciding rule ids and CP SEIDs, SEID reuse after deletion, re-association, "
         "takeover (Modification with Node ID), SEID-0 report responses, reports",
    trusted_base=_CTL_TB + ["below the driver seam: the real perio.Server of the 'perio' stream (injected ticks), with the predicate 'removing one session's periodic URR leaves the registrations of every other session' (Driver/Perio.lean checkOthers)"], assumptions=_CTL_ASSUME,
    level_text="Kernel-checked (Props/C05.lean): driver calls of a Modification/Deletion Request carry the addressed SEID; the request rewrites only that session's "
               "slot (every other SEID resolves to the same value: rules, counters, queues); re-association touches only SEIDs in the node's own set; SEID-0 removal "
               "matches CP SEID and node address. Tie: S-ctl 'nodes' + frame predicates on the implementation's dumps. seid0_complete — the SEID-0 search finds a session with the answered request's control-plane SEID and the responder's address whenever one is live, however many sessions of other nodes carry the same control-plane SEID and wherever they sit in the table. del_unresolves — after a Session Deletion Request for a live session its SEID resolves to nothing; reset_sweeps — after a re-association every SEID of the node's own set resolves to nothing, whatever order the sessions are closed in and whatever the data plane answers (with reset_frame: and no other SEID is touched).",
    level_note="Trusted: as C01. The frame theorems are about the node OBJECT registered under an id (what the code keys on). The external ownership predicate reads the statement by the requests: a session "
               "belongs to the node id of its Establishment Request, later to the node id of a Modification Request that takes THAT session over; re-association of N must remove exactly those. "
               "The code's takeover renames the whole node object and can orphan a registered node: known finding takeoverNode (signature only in histories that contain a takeover; corpus/nodes.cases witnesses it on every run; Props/C05.takeover_orphans proves the witness on the model by evaluation).",
)
PROPS["C08"] = dict(
    module="UpfVerif.Props.C08",
    streams=[_ctl(5, "mix")],
    rule="ctl profile 'mix' incl. requests for unknown nodes/sessions, missing Node ID / F-SEID, equal CP SEIDs, Create PDR with and without UE IP",
    trusted_base=_CTL_TB, assumptions=_CTL_ASSUME,
    level_text="Kernel-checked (Props/C08.lean): every datagram caused by a request goes to the requester with its sequence number (invariant over all histories); "
               "Modification/Deletion Responses carry the session's CP SEID or SEID 0 + cause 65; misses and unanswered requests leave no trace; the Establishment "
               "Response's F-SEID resolves to the new session. Tie: S-ctl, datagrams decoded by the harness. hb_answered, assoc_answered — a first copy of a Heartbeat Request, and of an Association Setup Request naming its node, is always answered (to the sender, its sequence number), whatever the node's history and whatever the data plane answers while its old sessions are withdrawn. est_created_exact — an accepted establishment is answered with the new session's F-SEID, cause accepted and exactly one Created PDR IE per PDR of the request that carries a UE IP address (its id and that address, in request order); the ctl stream builds Create PDRs with the PDR ID first or last and compares the Created PDR IEs with the request on the specification side.",
    level_note="Trusted: as C01. The recovery time stamp is compared for equality across all responses of a run by the harness (ts=same); that the field is written "
               "once is a source fact, not a theorem.",
)
PROPS["C10"] = dict(
    module="UpfVerif.Props.C10",
    streams=[_ctl(6, "urr"), _ctl(10, "nodes", cases=12, tcases=120), dict(name="krep", args=["net=200"], shards=2, shards_thorough=8, seed_per_shard=True, timeout=900, timeout_thorough=3000)],
    rule="krep: gtp5g REPORT multicasts (1-6 usage reports over 1-5 sessions in one message, 64-bit volumes at boundaries, every single-cause trigger word and non-mapped words, "
         "unknown sessions / URRs) through the real buffnetlink listener and the running server to the SMF; ctl profile 'urr': report batches (1-3 usage reports, 64-bit counters at boundaries, single-cause and arbitrary triggers, START) for live / unknown / ended "
         "sessions and known / unknown URRs with every measurement-method x MNOP combination; node ids IPv4 and IPv6",
    trusted_base=_CTL_TB, assumptions=_CTL_ASSUME,
    level_text="Kernel-checked (Props/C10.lean): a usage batch for a live session is answered by exactly one Session Report Request to the owner with the peer's SEID; "
               "each IE carries URR id, trigger and measured values unchanged, measurement IEs selected by method/MNOP; each_ie_from_its_report / ies_le_reports — in a message carrying any number "
               "of usage reports every IE has the id, trigger word (plus the carrier's flag only), counters, times and duration of ONE of the reports handed over, and there are no more IEs than reports; "
               "update_keeps_absent — an Update URR changes the method / information it carries and nothing else (so later reports keep the IE selection last asked for); report_goes_to_owner — whatever a notification carries (downlink-data reports and usage reports in any number and order) every datagram it causes goes to the destination of the node owning the reporting session at that moment, none elsewhere; "
               "unknown sessions/URRs dropped without touching the rest; groups_keys_nodup / mem_seids / groups_own / groupOf_other / groups_total — for every REPORT multicast (any number of reports, sessions interleaved in any way) "
               "each session with a report gets exactly one notification carrying exactly its own reports in message order, independent of the other sessions' reports, nothing lost or doubled "
               "(Model/Krep.lean, the function the krep driver runs). External predicate on the ctl stream: every usage report sent is one the data plane produced for that session in this event, "
               "carried as measured (URR id, trigger, times, counters, duration; IEs by method/MNOP), none missing in a Session Report Request; and a Session Report Request goes to the node that owns the session "
               "(the address its IPv4 node id names, or the address an IPv6 / FQDN node id associated from), also after a takeover (ctl 'nodes' profile; for a takeover by an IPv6 / FQDN node id the renamed node object keeps the old address — known finding takeoverNode, shared with C05). Tie: S-ctl 'urr' (handlers) + S-full 'krep' (kernel REPORT multicast decoded by the real buffnetlink listener, queued, served by the running loop, "
               "Session Report Requests decoded at the SMF).",
    level_note="Trusted: as C01; go-pfcp's IE encoders (harness decodes what was sent). Repaired (fix 90a7329): reports for sessions whose node id is an IPv6 address / FQDN were dropped (and the packet handed up for buffering not queued); they now go to the address the node associated from — dest_total, non_ipv4_node_falls_back; corpus case 9007.",
)
PROPS["C11"] = dict(
    module="UpfVerif.Props.C11",
    streams=[_ctl(7, "urr")],
    rule="ctl profile 'urr': kernel-originated reports, Query/Update/Remove URR, PDR removal, session deletion over several URRs and sessions, several reports per URR in one message",
    trusted_base=_CTL_TB, assumptions=_CTL_ASSUME + ["fewer than 2^32 reports per URR (uint32 counter)"],
    level_text="Kernel-checked (Props/C11.lean): an emitted IE carries the URR's counter and the counter then moves by exactly one; within a batch a URR's IEs carry "
               "n..n+k-1 in order; other URRs untouched; re-creation resets to 0; no other method touches the counter; numbering_history — for EVERY history mixing report batches on any carrier with Create/Update/Remove/Query URR and "
               "Create/Update/Remove PDR (any driver answers, any iteration order) in which URR u is neither re-created nor removed, the UR-SEQN values emitted for u over the whole history are n, n+1, n+2, … "
               "one per report (Lemmas/CoreSeq.lean: no rule operation moves another URR's counter or mark). Tie: S-ctl 'urr' + numbering predicate on the datagrams. timeout_keeps_numbering — no timer expiry (retry, giving a request up, retention) changes any session: a counter is never rewound because a report may not have been delivered.",
    level_note="Trusted: as C01.",
)
PROPS["C12"] = dict(
    module="UpfVerif.Props.C12",
    streams=[_ctl(8, "urr")],
    rule="corpus/urr.cases first (witness of known finding recreatePdrLive; minimised histories of the three repaired C12 defects; shared URRs through Update PDR and deletion), "
         "then ctl profile 'urr': Create/Update/Remove PDR with arbitrary URR lists (shared URRs, repeated URR ids, attach by Update PDR, URRs created after the PDRs naming them, "
         "live ids re-used), Create/Remove/Query URR, deletion, data-plane faults",
    trusted_base=_CTL_TB, assumptions=_CTL_ASSUME,
    level_text="Kernel-checked (Props/C12.lean, Lemmas/CoreRef.lean): count_is_refs — after ANY history of Create/Update/Remove/Query URR and Create/Update/Remove PDR (arbitrary URR lists, any driver "
               "answers, any map-iteration order) in which no Create PDR re-uses a live PDR id, the recorded count of every known URR equals the number of PDRs whose current list names it; "
               "remove_pdr_final_once / update_pdr_final_once — hence a Remove / Update PDR the data plane accepts queries exactly the URRs that lose their last referring PDR, once each, in whatever "
               "order the map iteration takes (diassociateAll_ref by a loop invariant over the environment-chosen order); detach_last / detach_not_last / detach_at_zero_silent, remove_flags_termr, "
               "query_flags_immer for the flags; recreate_live_pdr_breaks — the negation for a Create PDR on a live id (known finding). "
               "urr_outlives_last_pdr — a Remove / Update PDR that takes a URR's last referring PDR away leaves the set of URRs the session knows unchanged (external predicate (d) checks the same on every table dump). Session deletion (Lemmas/CoreDel.lean): deletion_final_once — after ANY such history (no freshness hypothesis) Sess.Close issues exactly one REMOVE_URR for every URR the session knows and none "
               "for any other id, for every iteration order and answer stream (the URR table never holds an id twice: run_keys); deletion_all_termr — every report deletion hands back is flagged TERMR; close_allRemoved + deletion_response_once — the Session Deletion Response carries exactly one usage-report IE per URR that had anything to report, however many records the data plane returned for it. "
               "Tie: S-ctl 'urr' in lock-step, with two external predicates on the implementation's own output: (a) a URR that loses its last referring PDR in a request (as the accepted requests say) "
               "is queried exactly once and its reports come back flagged TERMR; (b) in every table dump the recorded count of each URR equals the number of PDRs whose recorded list names it.",
    level_note="PARTIAL in one respect: the history theorem needs 'no Create PDR for a live PDR id' — without it the property is false of the code (known finding recreatePdrLive, witnessed on every run "
               "by the corpus). Remove URR / session deletion: removed_reported_once — in a response carrier a URR marked removed gets exactly one usage-report IE if the session knew it and the data plane returned anything for it, however many reports there are (removal answer, dissociation query of a PDR removed in the same request), none otherwise; that the handlers mark the URR and collect the answers is the lock-step tie.",
)
PROPS["C07"] = dict(
    module="UpfVerif.Props.C07",
    streams=[_ctl(9, "mix"), dict(name="malformed", args=["net=220"], shards=4, shards_thorough=12, seed_per_shard=True, timeout=600, timeout_thorough=3000),
             dict(name="drv", args=["corpus=/verif/corpus/drvmal.lines"], shards=2, shards_thorough=4, seed_per_shard=True)],
    rule="ctl 'mix' (junk, truncated, unknown-type datagrams inside valid histories, SEIDs at all boundary classes) + malformed stream: structure-aware mutations of "
         "valid PFCP messages (header fields, IE lengths, nested IEs, flag octets, ids) after valid prefixes, liveness probe after each datagram; drv: rule IEs (well-formed, C-TAG/S-TAG outer header creation, damaged copies) through the real gtp5g driver",
    trusted_base=_CTL_TB + ["Gen/Guards.lean regenerated from /repo by tools/extract (go/ast): per exported *Gtp5g method handed a *ie.IE, whether its body starts with `defer ieFault(&<named error result>)`; "
                            "whether ieFault calls recover() in its own body and stores the error — Go's defer / recover semantics as modelled by `guarded` are trusted"],
    assumptions=_CTL_ASSUME,
    level_text="PARTIAL. Kernel-checked layer 1 (Props/C07.lean): all table accesses in range for every SEID in every reachable state, step total, heartbeat always answered, "
               "unaddressed sessions intact. Layer 2 (go-pfcp decoding) is searched, not proved: malformed-datagram stream with panic/exit hooks and heartbeat probe. "
               "Layer 2 on the gtp5g driver path is structural: over facts regenerated from the source on every run, every entry point that walks the content of a rule IE (Create*/Update* of PDR/FAR/QER/URR/BAR) "
               "starts with the recovering guard (driver_walks_guarded, guard_is_a_guard), the only unguarded ones read the rule id only (unguarded_read_id_only), and a guarded call never hands a fault to the event loop "
               "(guarded_never_faults, under the modelled defer/recover semantics); the damaged-IE stream observes the same on the real driver.",
    level_note="Not proved: go-pfcp message/IE decoders and go-gtp5gnl (third-party). The gtp5g driver's IE walk is searched too: S-drv hands the real Gtp5g.Create*/Update* every rule IE of its generator, "
               "Outer Header Creation IEs with C-TAG / S-TAG, and a damaged copy (truncated, flipped, lengths changed) of 40% of the rule IEs — a fault there is a C07 failure. "
               "Repaired (fix 715caca): go-pfcp's OuterHeaderCreation accessor panics on a C-TAG / S-TAG field; one Create FAR took the UPF down.",
)

PROPS["C16"] = dict(
    module="UpfVerif.Props.C16",
    streams=[dict(name="flowdesc", shards_thorough=8, seed_per_shard=True, timeout_thorough=3000),
             dict(name="drv", args=["corpus=/verif/corpus/drvmal.lines"], shards=2, shards_thorough=4, seed_per_shard=True)],
    rule="grammar-generated rules (every protocol 0..300 and 'ip', every prefix length 0..40 once; then random rules: hosts, prefixes, any/assigned, port lists "
         "of 1..8 items with ports/ranges at boundaries 0/65535/65536, leading zeros, arbitrary Go white-space runs) + near misses (dropped/duplicated/swapped "
         "tokens, bad octets, empty fields) + arbitrary ASCII and arbitrary bytes + IPv6 literals (outside the model: only 'no fault'); distinct = distinct input strings",
    trusted_base=["Spec/IPFilterRule.lean: abstract syntax, rendering and denotation of the supported IPFilterRule form",
                  "Model/FlowDesc.lean: model of flowdesc.go and of the Go library functions it uses (strings.Fields, ParseUint, net.ParseCIDR/ParseIP for IPv4), "
                  "tied by the differential stream 'flowdesc' on the real ParseFlowDesc",
                  "Model/Xlate.lean flowDescAttrs: model of newFlowDesc (gtp5g.go), tied by the fd.pack lines on the real newFlowDesc (hook VerifNewFlowDesc)"],
    assumptions=["ASCII input without ':' / '%' in address tokens is modelled; IPv6 literals are only checked for 'no fault' on the implementation"],
    level_text="Kernel-checked (Props/C16.lean): parse_render — for every rule of the grammar, every decimal spelling of its numerals and every spacing, "
               "the model of ParseFlowDesc returns exactly the filter the rule denotes (addresses incl. masking, all 256 octets and 33 prefix lengths by evaluation, "
               "ports by induction over digit lists and item lists); parse_total; pack_unpack for the port words; packed_decodes — for every such rule, spelling and spacing the "
               "attribute list newFlowDesc builds, read by the independent reader of the gtp5g rule format (Spec/Gtp5gRead.lean), is the filter the rule denotes with source and destination exchanged for uplink PDRs. "
               "Tie: 20k (quick) / 5M (thorough) strings on the real parser; fd.rule lines (the specification's denotation of the rule against the implementation's answer) and "
               "fd.pack lines (the bytes of the real newFlowDesc, decoded by the Lean netlink reader, against the denotation, both directions).",
    level_note="Trusted: Lean kernel; the grammar/denotation spec; the model of the Go standard-library functions (checked against Go on every run, not proved equal). "
               "The attribute numbers of the gtp5g flow-description format are transcribed by hand (Spec/Gtp5gRead.lean) and compared with go-gtp5gnl's constants by the regenerated Gen/Consts.lean; "
               "packed_decodes is at the level of the attribute tree (the byte layer is C02's decodeTree_encList, for attribute lists within the 16-bit netlink length).",
)


# ---- properties served by the S-drv stream (real Gtp5g driver around a simulated netlink kernel) ----
_DRV_TB = ["model Model/Xlate.lean of internal/forwarder/gtp5g.go (Create/Update PDR, FAR, QER, URR, BAR: child-IE loop to netlink attribute list), hand-written, "
           "tied by the S-drv differential stream: the real Gtp5g methods run against a simulated netlink kernel (fake nl.Conner under the real nl.Mux and gtp5gnl client), "
           "every request compared byte for byte with the model's",
           "Spec/Gtp5gRead.lean: independent reader of the gtp5g netlink rule format (attribute numbers and value widths transcribed by hand from gtp5g's genl headers); "
           "Spec/Rules.lean: the content of each grouped IE and the rule it must produce; Spec/Arrange.lean: which child lists carry a content",
           "Gen/Consts.lean regenerated from the pinned go-gtp5gnl / go-pfcp (attribute and command numbers) — consts_* theorems re-checked each run",
           "go-pfcp IE accessors (the harness builds IEs with go-pfcp constructors; the driver reads them with go-pfcp accessors); go-nl attribute encoding (modelled in Wire/Netlink.lean, compared on every request)"]
_DRV_ASSUME = ["IPv4 variants of F-TEID / UE IP address / outer header creation; SDF filters with flow description and filter id (TTC/SPI/FL branches write placeholder constants in the source and are outside 'the IE set the driver supports')",
               "each nested attribute fits the 16-bit netlink length (hypothesis wfList of the *_bytes theorems; checked on every generated request)",
               "little-endian host (go-nl uses native endianness)"]
PROPS["C02"] = dict(
    module="UpfVerif.Props.C02",
    streams=[dict(name="drv", args=["corpus=/verif/corpus/drvmal.lines"], shards=4, shards_thorough=16, seed_per_shard=True, timeout=600, timeout_thorough=3000),
             dict(name="buf", args=["net=244"], shards=2, shards_thorough=6, seed_per_shard=True, timeout=900, timeout_thorough=3000)],
    rule="S-drv: random Create/Update PDR/FAR grouped IEs built with go-pfcp: every field boundary+random, 0-3 QER ids / URR ids / SDF filters (grammar-generated flow descriptions, "
         "8% possibly invalid), PDI children and top-level children shuffled, all four source interfaces, OHC descriptions GTP-U/UDP/IPv4, SEIDs incl. 0, 1, 2^32, 2^63, 2^64-1; "
         "the request bytes are compared with the model and read back by the Lean reader against the IE's content; plus the S-full buffering stream: after every Update FAR "
         "against a data plane that holds buffering FARs with related PDRs and QERs, the FAR table of the simulated kernel is compared with the IE's content under its own (SEID, FAR id); "
         "distinct = distinct input lines",
    trusted_base=_DRV_TB, assumptions=_DRV_ASSUME,
    level_text="Kernel-checked (Props/C02.lean): for EVERY PDR/FAR content and EVERY arrangement of it as child IEs (any order, ignored children anywhere, any 64-bit SEID) the request "
               "built by the model of gtp5g.go, read by the independent gtp5g reader, is exactly the IE's content under its own (SEID, id): ids, precedence, source interface, F-TEID, UE address, "
               "SDF filters (src/dst and ports exchanged iff uplink, decided after all PDI children), OHR, FAR/QER/URR ids in order, apply-action word, OHC (TEID, peer, port), policy, BAR id; "
               "order independence; the look-ups of Update FAR address the FAR the IE names; decodeTree(encList) = id for all well-formed attribute trees (bytes level). "
               "Tie: S-drv byte-for-byte correspondence + the reader evaluated on the implementation's own bytes.",
    level_note="Trusted: Lean kernel; Spec/Gtp5gRead.lean as the gtp5g format; hand-written Model/Xlate.lean (checked against the real driver each run, not proved equal); "
               "go-pfcp accessors; flow description text → filter is C16's theorem (parseFlowDesc), used here as the meaning of the text.",
)
PROPS["C03"] = dict(
    module="UpfVerif.Props.C03",
    streams=[dict(name="drv", args=["corpus=/verif/corpus/drvmal.lines"], shards=4, shards_thorough=16, seed_per_shard=True, timeout=600, timeout_thorough=3000),
             _ctl(-1, "mix", cases=16, tcases=160),
             dict(name="perio", shards=2, shards_thorough=6, seed_per_shard=True, timeout=600, timeout_thorough=3000)],   # the session layer above the driver: every Update IE for a rule the session has reaches the data plane
    rule="S-drv: random Create/Update QER/URR/BAR grouped IEs: rates over the full 40-bit range (UL != DL), all gate/QFI/RQI/PPI octets, 2- and 3-octet trigger words, "
         "measurement periods incl. 0 and 2^32-1 s, 64-bit volumes with every flag subset, children shuffled; periodic registration read from the real perio.Server after each URR operation",
    trusted_base=_DRV_TB, assumptions=_DRV_ASSUME + ["Measurement Period as a kernel attribute is outside the statement (the periodic server, not the kernel, times the reports)"],
    level_text="Kernel-checked (Props/C03.lean): for EVERY QER/URR/BAR content and every arrangement the request reads back exactly: gate, 40-bit MBR/GBR (rate_split: high32*256+low8 = rate, "
               "UL under UL, DL under DL), QFI, RQI, PPI, correlation id; method, info, trigger word (little-endian widening of 2/3 octets), threshold/quota flags with each volume under its flag; "
               "BAR delay and packet count; Create URR registers (seid, urr, period) with the periodic server iff PERIO is set; create_again_keeps_registration — the same Create URR arriving again while the rule is live (refused by the kernel) leaves the periodic server's state, and what every tick queries, unchanged. update_reaches_data_plane / update_twice_two_calls — the session layer hands every Update IE for a rule the session has to the data plane (one call under the session's SEID with the rule id; the same Update twice gives two calls). Tie: S-drv + reader on the implementation's bytes + perio dump (also after a second, refused Create URR); S-ctl mix with the predicate 'every Update QER/URR/BAR IE for a rule the session has reaches the data plane, once per IE'.",
    level_note="Trusted: as C02. Known finding (recorded): Update URR never changes the periodic registration. Fixed: BAR delay truncation.",
)


PROPS["C15"] = dict(
    module="UpfVerif.Props.C15",
    streams=[dict(name="perio", shards=2, shards_thorough=12, seed_per_shard=True, timeout=600, timeout_thorough=3000),
             dict(name="drv", args=["corpus=/verif/corpus/drvmal.lines"], shards=2, shards_thorough=4, seed_per_shard=True)],
    rule="S-perio: histories on the real perio.Server (1-4 sessions x 1-5 URRs x 1-3 periods of hours, so no real ticker fires): ADD / DEL (registered and unknown) / "
         "injected TIMEOUT events (used and stale periods; query callback answering all / every other URR / nothing / error) / CLOSE, group dump and ticker-goroutine "
         "count after every event; then multi-URR queries through the real Gtp5g.queryMultiURR against the simulated kernel with totals at 0, 1, N-1, N, N+1, 2N-1 ... 12N "
         "over 1-6 sessions, the GET_MULTI_REPORTS requests decoded by the Lean netlink reader; distinct = distinct input lines",
    trusted_base=["model Model/Perio.lean of internal/forwarder/perio/server.go (event handling of the single server goroutine; groups as pair sets) and of queryMultiURR's batching loop, "
                  "hand-written, tied by the S-perio differential stream",
                  "the specification state of the driver-side predicate: registrations implied by the ADD/DEL/CLOSE history (Props/C15.specStep, proved equal to the model's groups)",
                  "harness: events injected through the server's own channel (in-package overlay file), ticker goroutines counted from the goroutine profile"],
    assumptions=["each URR is registered with at most one period at a time (the property's hypothesis; Hyp in the theorems; the generator respects it)",
                 "real tickers are replaced by injected TIMEOUT events (periods of hours)", "go-gtp5gnl's MaxNetlinkUsageReportNum() is taken as evaluated by the harness (56 here)"],
    level_text="Kernel-checked (Props/C15.lean): over EVERY history satisfying the hypothesis the server's groups are exactly the registrations the history implies (run_refines, "
               "induction over all event lists; ADD/DEL change exactly the addressed registration; invariants: one group per period, no empty group, no pair twice); a tick of period p queries "
               "exactly the URRs registered with p, each once, and nothing when there are none (tick_exact_run); a period's ticker exists iff a URR uses it; CLOSE releases all; "
               "batching: for every list and every limit n>0 the requests are non-empty, at most n long and concatenate to the list; each returned report is delivered once to its own "
               "session flagged PERIO. Tie: S-perio on the real server and the real driver batching; the spec-level predicate is evaluated on the implementation's own queries. batched_answers_each_once — when the data plane answers each request with one report per URR it names, the concatenation of the answers is one report per registered URR, in order, for every number of URRs (exact multiples of the batch size included).",
    level_note="Trusted: Lean kernel; hand-written Model/Perio.lean (checked against the real server each run, not proved equal); timers as events. "
               "Outside the hypothesis (same URR under two periods) DEL removes the pair from one group only, chosen by map order — noted, not claimed.",
)


PROPS["C20"] = dict(
    module="UpfVerif.Props.C20",
    streams=[dict(name="config", shards=2, shards_thorough=12, seed_per_shard=True, timeout=900, timeout_thorough=3000)],
    rule="S-config: YAML documents generated from the valid configuration by deleting / zeroing / null-ing / mistyping / validator-violating replacement of any subset of fields "
         "(1/6 valid incl. optional-field variants, 1/2 about one fault, 1/3 several faults; 1-3 interface and DNN entries; node ids IPv4, FQDN, localhost, IPv6 literals, unresolvable names), "
         "run through the real factory.ReadConfig and (in a process of its own) forwarder.NewDriver up to OpenGtp5g; accepted values compared with the document; "
         "version strings x.y.z on a grid around both bounds, big segments, two-segment and unparsable strings through the real checkVersion and the simulated GET_VERSION",
    trusted_base=["model Model/Config.lean of pkg/factory/factory.go ReadConfig (decode / govalidator tag interpretation / node-id resolution), forwarder.NewDriver's pre-checks and Gtp5g.checkVersion, "
                  "hand-written, tied by the S-config differential stream; Gen/ConfigTags.lean and the version bounds regenerated from /repo each run (T1)",
                  "Spec/ConfigSpec.lean: the acceptable documents written out field by field without reference to tags; the abstraction of a document to field classes "
                  "(the harness renders each class to concrete YAML; which concrete strings are 'a host', 'a CIDR' is govalidator's / net's decision, exercised but not modelled)",
                  "yaml.v2, govalidator (host / cidr regexes, required/optional semantics), hashicorp/go-version beyond numeric x.y.z, DNS: environment"],
    assumptions=["node-id resolution is an environment input (the harness asks the same resolver)", "numeric module versions of two or three segments"],
    level_text="Kernel-checked (Props/C20.lean): startup_iff_spec — for EVERY abstract document (any number of entries, every class of every field) the start-up checks as coded "
               "(decode, govalidator over the regenerated tags, node-id resolution, NewDriver pre-checks) accept exactly the documents Spec.ConfigSpec lists; per-field lemmas and the in(...) "
               "value lists are evaluated by the kernel on the regenerated tag table; version_window — for all naturals x y z, x.y.z accepted iff 0.9.5 <= x.y.z < 0.10.0 with the regenerated bounds. "
               "Tie: T1 tags + bounds; S-config on the real ReadConfig / NewDriver / checkVersion, with the spec evaluated on the implementation's verdicts and the accepted values compared.",
    level_note="Trusted: Lean kernel; the class abstraction and the harness's rendering of classes; yaml.v2 / govalidator / go-version as libraries (exercised, not modelled). "
               "'accepted values appear unchanged' is checked by the harness on every accepted document (not a theorem: it is a statement about yaml.v2).",
)


PROPS["C13"] = dict(
    module="UpfVerif.Props.C13",
    streams=[dict(name="buf", args=["net=232"], shards=3, shards_thorough=12, seed_per_shard=True, timeout=900, timeout_thorough=3000),
             _ctl(12, "nodes", cases=12, tcases=120)],
    rule="S-full buffering stream: the real PfcpServer (event loop running) with the real Gtp5g driver around the simulated kernel, a simulated SMF, BUFFER multicasts fed to the real "
         "buffnetlink listener (with and without the 64-bit alignment PAD attribute), a UDP sink as gNB: sessions with 1-2 FARs (BUFF / BUFF|NOCP / FORW ...), 0-2 QERs (QFI 0, 1, 9, 63), 1-3 PDRs; "
         "notifications for live / unknown / ended sessions and known / unknown PDRs, action words BUFF, NOCP, both, neither, payloads of 0..1400 octets, bursts of 2-7 and of 500-620 packets "
         "(beyond the capacity 512); Update FAR among FORW/DROP/BUFF/NOCP combinations with FAR ID before or after Apply Action, with and without new forwarding parameters, unknown FAR; "
         "Remove PDR / Create PDR re-using the id; session deletion and SEID re-use; every datagram at the sink and every Session Report Request at the SMF compared",
    trusted_base=["model Model/Buf.lean of the buffering path across internal/forwarder/buffnetlink/server.go, internal/pfcp/report.go + node.go (Push/Pop/Close/RemovePDR), "
                  "internal/forwarder/gtp5g.go applyAction/WritePacket over the data-plane tables, hand-written, tied by the S-full buffering stream",
                  "simulated gtp5g kernel of the harness (GET_FAR / GET_PDR / GET_QER answers, FAR_RELATED_TO_PDR ascending), loopback UDP; "
                  "Spec/GtpuRef.lean (independent TS 29.281 decoder) for the datagram contents (C14)",
                  "for 'towards the owning SMF' across several SMFs and takeovers: " + _CTL_TB[0] + "; external predicate (Driver/CtlProps.lean): a downlink-data "
                  "notification goes to the peer that owns the session by the requests seen so far; a packet handed up for buffering is held (queue length in the dump) whether or not the notification could be delivered — node 4:p7 of the stream cannot be reached"],
    assumptions=["'the FAR's peer' = the outer header creation the data plane holds for the FAR when the switch happens (the code reads the FAR back before applying the update); "
                 "the stricter reading (the parameters carried by the same Update FAR) is not claimed",
                 "the data plane holds one PDR per (session, id) (hypothesis of applyAction_forw / _drop; maintained by establish / addPdr in the model)",
                 "bursts are paced below the report queue capacity (overflow / wedging is C18)"],
    level_text="Kernel-checked (Props/C13.lean): queue_prefix — after ANY sequence of pushes a PDR's queue is the first `cap` arrivals in order (the new packet is dropped when full, never an older one); "
               "notify_spec — queued iff BUFF & payload & live session, Downlink Data Report iff NOCP & live; drain_exact / applyAction_forw / _drop — a release emits, PDR by PDR over exactly the PDRs "
               "related to the FAR, every queued packet in order exactly once with the FAR's TEID and the PDR's QFI and leaves those queues empty (drain_idem: a second release emits nothing), other "
               "queues untouched; datagram_wellformed (via C14) — each datagram is a G-PDU read back exactly; updateFar_frame; no_ghost / establish_fresh / removePdr_drops — nothing of an ended "
               "session or a removed PDR can be emitted, also after SEID or PDR id re-use. Tie: S-full buffering stream on the real server + driver. periods_exact — for EVERY history of pushes and releases on one queue (any number of buffering periods of any lengths, overflowing or not) each release emits exactly the packets accepted since the previous release, once each, in arrival order (G-PDUs with the release's TEID and the PDR's QFI; nothing for a drop), against a counter-only specification (a packet is accepted iff fewer than 512 are waiting since the last release). held_whatever_the_notification (control-plane side) — a packet handed up with BUFF and a payload is appended to its PDR's queue before and independently of the Session Report Request: the queues after the report are those of push, NOCP or not, wherever the notification goes; notification_goes_to_owner.",
    level_note="Trusted: Lean kernel; hand-written Model/Buf.lean (checked against the real stack each run); simulated kernel. Fixed: stale queue after Remove PDR; Update FAR order dependence.",
)


_CONC_TB = ["Gen/Conc.lean regenerated from /repo by tools/extract (go/ssa): goroutine roots (go statements, time.AfterFunc callbacks, nl.Mux handlers, app start-up/shutdown), and per root the struct "
            "fields read / written and the channel operations reachable without crossing a go statement (class-hierarchy call resolution inside the module; an over-approximation: reflection, unsafe, cgo not followed)",
            "Spec/ConcRules.lean: the ownership rule, constructor list, hand-over channels and the listed exceptions; the waits-for graph construction"]
PROPS["C17"] = dict(
    module="UpfVerif.Props.C17",
    streams=[dict(name="stop", args=["net=208"], race=True, shards=2, shards_thorough=8, seed_per_shard=True, timeout=900, timeout_thorough=3000)],
    rule="T1: the regenerated access table (about 750 facts, 10 goroutine roots) evaluated by the kernel and again by the driver; S-stop under `go build -race`: notifications after the loop has ended "
         "(deterministic), and stress runs, each a child process with its own race log: the real PfcpServer + Gtp5g driver + periodic server, 2-3 SMFs with unsynchronised valid traffic and duplicates, "
         "2-4 report producers, 1-3 ms transaction timers with 1-3 retransmissions, injected periodic ticks, Stop at a random point (5-85 ms) followed by the driver's Close as pkg/app does; "
         "observed: data-race reports, crashes, goroutines that do not end",
    trusted_base=_CONC_TB + ["the Go race detector and runtime (supporting search, not proof)", "abstract stop-protocol transition system Props/C17 (notifyNew / loopEnd) as the reading of select-with-done"],
    assumptions=["sound over-approximation of reachability by the extractor", "a serving UPF: Stop after the socket is bound (the start-up race on PfcpServer.conn is a listed exception)"],
    level_text="PARTIAL (a data race is a run-time fact; the discipline that excludes it is what is proved). Kernel-checked (Props/C17.lean) on the REGENERATED facts: owner_table — every read/write of PfcpServer, "
               "LocalNode, RemoteNode, Sess, PDRInfo, URRInfo, Tx/RxTransaction state reachable from any goroutine root other than the event loop is a hand-over channel, a constructor write, a read of a "
               "constructor-only field or a listed exception (same for the periodic server and its goroutine); confined_no_conflict — confinement excludes every conflicting pair for every schedule; "
               "producers_guarded / no_close_under_senders — every foreign send into the loop's queues is a select with the loop's done channel and no channel with foreign senders is closed; "
               "stop_no_fault / stop_releases_producers — in the stop-protocol transition system no notification faults and none stays blocked once the loop has ended, for every interleaving "
               "(old_protocol_faults: the pre-repair protocol has a faulting one); fifo_exactly_once. Tie: T1 each run + S-stop stress under the race detector. no_other_synchronisation — on the regenerated facts the module uses no mutex, atomic, sync.Pool, Once or Cond (only sync.WaitGroup): ownership and channel hand-over are the whole synchronisation story the table has to cover.",
    level_note="Trusted: Lean kernel; the extractor's call-graph over-approximation; the rule file; the race detector only supports the search. Fixed: send on closed channel after Stop (two sites). "
               "Not covered: races inside go-nl / go-pfcp / logrus.",
)
PROPS["C18"] = dict(
    module="UpfVerif.Props.C18",
    streams=[dict(name="wedge", args=["net=216"], timeout=900, timeout_thorough=3000)],
    rule="T1: the waits-for graph of blocking sends computed from the regenerated facts (10 edges over 10 roots); S-wedge: the running stack with 20 / 100 / 300 (thorough: up to 1200) sessions of 1-2 periodic URRs, "
         "a tick of the common period injected inside the re-association that removes them all, data-plane latency 0-500 us on URR removal; liveness = a heartbeat answered after the burst",
    trusted_base=_CONC_TB + ["two-process abstraction of loop and periodic server (Props/C18 Step) as the reading of the two bounded queues"],
    assumptions=["the receiver of a channel is the only goroutine that can unblock its senders (no timeouts on the sends)"],
    level_text="Kernel-checked (Props/C18.lean): acyclic_progress — with an acyclic waits-for relation some process can always move; on the REGENERATED topology graph_has_cycle / ticker_cycle exhibit the two "
               "cycles (event loop <-> periodic server over evtCh/srCh; periodic server <-> ticker goroutine over stopCh/evtCh) and only_known_cycle proves the rest of the graph acyclic; "
               "wedge_stuck / wedge_reachable — for ALL capacities E, R the two-process system reaches a state in which both are blocked for ever (schedule constructed from E and R); "
               "loop_idle_releases — with the loop at its select a blocked periodic server is always released. THE PROPERTY DOES NOT HOLD OF THE CODE: recorded as known findings; the S-wedge scenario replays it. blocking_is_channels_only — on the regenerated facts the module has no mutex, read-write lock or condition variable: the channel waits-for graph is complete as a model of blocking.",
    level_note="Known findings (not repaired: design change): perioLoopCycle, perioTickerCycle. The check alarms on any OTHER cycle, any other wedge, or when the facts stop matching.",
)

# properties not claimed yet (kept current; every property has a planned executable model, see DESIGN.md)
NOT_APPLICABLE = {}
for _i in range(1, 21):
    _k = "C%02d" % _i
    if _k not in PROPS:
        NOT_APPLICABLE[_k] = "check not built yet in this round (planned, see DESIGN.md §7); not a limit of the technique"
