import UpfVerif.Driver.Gtpu
import UpfVerif.Driver.Flags
open UpfVerif UpfVerif.Driver

/-- stateless evaluators, by function name -/
def evalT (fn : String) (args : List String) (impl : String) : Option Verdict :=
  match fn with
  | "gtpu.encode" => evalGtpu args impl
  | _ =>
    if fn.startsWith "flags." then evalFlags fn args impl
    else none

structure Counters where
  lines : Nat := 0
  checked : Nat := 0
  diffs : Nat := 0
  propfails : Nat := 0
  bad : Nat := 0

def words (s : String) : List String :=
  (s.split (· == ' ')).toList.map (·.toString) |>.filter (· ≠ "")

partial def loop (h : IO.FS.Stream) (c : Counters) : IO Counters := do
  let line ← h.getLine
  if line.isEmpty then return c
  let line := (line.dropEndWhile (fun ch => ch == '\n' || ch == '\r')).toString
  let c := { c with lines := c.lines + 1 }
  match words line with
  | "T" :: fn :: rest =>
    -- split at "="
    let args := rest.takeWhile (· ≠ "=")
    let res := String.intercalate " " ((rest.dropWhile (· ≠ "=")).drop 1)
    match evalT fn args res with
    | none =>
      IO.println s!"BADLINE {c.lines} :: {line}"
      loop h { c with bad := c.bad + 1 }
    | some v =>
      let mut c := { c with checked := c.checked + 1 }
      if v.model ≠ res then
        IO.println s!"DIFF {c.lines} {fn} model={v.model} impl={res} :: {line}"
        c := { c with diffs := c.diffs + 1 }
      for f in v.propFails do
        IO.println s!"PROPFAIL {c.lines} {f} :: {line}"
        c := { c with propfails := c.propfails + 1 }
      loop h c
  | "H" :: _ => loop h c
  | [] => loop h c
  | _ =>
    IO.println s!"BADLINE {c.lines} :: {line}"
    loop h { c with bad := c.bad + 1 }

def main (_args : List String) : IO UInt32 := do
  let stdin ← IO.getStdin
  let c ← loop stdin {}
  IO.println s!"SUMMARY lines={c.lines} checked={c.checked} diffs={c.diffs} propfails={c.propfails} bad={c.bad}"
  return 0
