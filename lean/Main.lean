import UpfVerif.Driver.Gtpu
import UpfVerif.Driver.Flags
import UpfVerif.Driver.FlowDesc
import UpfVerif.Driver.Drv
import UpfVerif.Driver.Ctl
import UpfVerif.Driver.CtlProps
import UpfVerif.Driver.Perio
import UpfVerif.Driver.Config
import UpfVerif.Driver.Buf
import UpfVerif.Driver.Conc
import UpfVerif.Driver.Krep
open UpfVerif UpfVerif.Driver

/-- stateless evaluators, by function name -/
def evalT (fn : String) (args : List String) (impl : String) : Option Verdict :=
  if fn.startsWith "drv." then
    -- C07: whatever the IE, the driver's walk over it must not fault (in the event loop a fault ends the process)
    (Drv.eval fn args impl).map fun v =>
      let v := if impl.startsWith "panic" then
          { v with propFails := v.propFails ++ [s!"C07 {fn}: the gtp5g driver faulted while translating this rule IE; in the event loop this takes the UPF down"] }
        else v
      -- C16: the packed flow descriptions of a PDR's SDF filters, source and destination exchanged exactly for uplink PDRs
      -- (whatever the order of the PDI's children), are part of what the PDR predicate reads back
      if fn.startsWith "drv.pdr" && (args.any fun a => (a.splitOn "sdf").length > 1) && (v.propFails.any (·.startsWith "C02")) then
        { v with propFails := v.propFails ++ [s!"C16 {fn}: a PDR with SDF filters reached the data plane differently from what its IEs say (flow description as packed, or the uplink exchange of source and destination)"] }
      else v
  else
  if fn.startsWith "cfg." then ConfigD.eval fn args impl else
  if fn.startsWith "stop." || fn.startsWith "conc." || fn.startsWith "wedge." then ConcD.eval fn args impl else
  match fn with
  | "gtpu.encode" => evalGtpu args impl
  | "fd.parse" => evalFlowDesc args impl
  | "fd.rule" => evalFlowRule args impl
  | "fd.pack" => evalFlowPack args impl
  | "drvmal" =>
    -- a damaged rule IE through the real gtp5g driver: only "no fault" is claimed
    some { model := impl,
           propFails := if impl.startsWith "panic" then
             [s!"C07 the gtp5g driver faulted on a damaged {args.headD "?"} IE ({(args.getD 2 "").length / 2} octets); in the event loop this takes the UPF down"] else [] }
  | "tmoburst" =>
    -- real timers: n unanswered Session Report Requests whose timers all expire while the loop is held in a data-plane call
    let num (k : String) : Nat := (args.findSome? fun a => if a.startsWith (k ++ "=") then ((a.drop (k.length + 1)).toString).toNat? else none).getD 0
    let n := num "n"
    let r := num "maxretrans"
    let want := s!"tx=0 sent={n * (1 + r)} distinct={n}"
    some { model := want,
           propFails := if impl == want then [] else
             [s!"C09 {n} unanswered Session Report Requests, retry count {r}, all timers expiring while the event loop was busy: afterwards '{impl}'; each request is due exactly {1 + r} transmission(s) and must then be abandoned ('{want}')"] }
  | "proc.died" =>
    -- the process running the real code was brought down by a fault in one of the implementation's own goroutines, outside
    -- every guard, while (or right after) it was handed this input: in the UPF that is the end of the process
    some { model := "alive",
           propFails := [s!"C07 handed {String.intercalate " " (args.take 3)} …, the process died: {impl} — a fault in a goroutine of the implementation that no recover covers ends the UPF"] }
  | "mal.send" =>
    some { model := "alive",
           propFails := if impl == "alive" then [] else
             [s!"C07 the UPF did not survive this datagram ({impl}): no Heartbeat Response afterwards"] }
  | "rx.retention" =>
    match args with
    | [t, n] =>
      let tv := (t.toNat?.getD 0 : Int)
      let want := tv * ((n.toNat?.getD 0 : Nat) + 1 : Int)
      some { model := toString want,
             propFails := if impl == toString want then [] else
               [s!"C06 retention window for timeout {t} and maxRetrans {n} must be {want}, implementation uses {impl}"] }
    | _ => none
  | _ =>
    if fn.startsWith "flags." then evalFlags fn args impl
    else none

structure Counters where
  ctl : Ctl.DrvState := {}
  tbl : Ctl.TblState := {}
  ps : CtlProps.PState := {}
  perio : PerioD.DState := {}
  buf : Buf.St := {}
  krep : KrepD.KSt := {}
  lines : Nat := 0
  checked : Nat := 0
  diffs : Nat := 0
  propfails : Nat := 0
  bad : Nat := 0

def words (s : String) : List String :=
  (s.split (· == ' ')).toList.map (·.toString) |>.filter (· ≠ "")

partial def loop (h : IO.FS.Stream) (c : Counters) : IO Counters := do
  let line ← h.getLine
  if line.isEmpty then return c
  let line := (line.dropEndWhile (fun ch => ch == '\n' || ch == '\r')).toString
  let c := { c with lines := c.lines + 1 }
  match words line with
  | "T" :: fn :: rest =>
    -- split at "="
    let args := rest.takeWhile (· ≠ "=")
    let res := String.intercalate " " ((rest.dropWhile (· ≠ "=")).drop 1)
    let r : Option (Counters × Verdict) :=
      if fn.startsWith "tbl." then (Ctl.evalTbl c.tbl fn args res).map fun (t, v) => ({ c with tbl := t }, v)
      else if fn.startsWith "buf." then (BufD.eval c.buf fn args res).map fun (t, v) => ({ c with buf := t }, v)
      else if fn.startsWith "krep." then (KrepD.eval c.krep fn args res).map fun (t, v) => ({ c with krep := t }, v)
      else if fn.startsWith "perio." then (PerioD.eval c.perio fn args res).map fun (t, v) => ({ c with perio := t }, v)
      else (evalT fn args res).map fun v => (c, v)
    match r with
    | none =>
      IO.println s!"BADLINE {c.lines} :: {line}"
      loop h { c with bad := c.bad + 1 }
    | some (c, v) =>
      let mut c := { c with checked := c.checked + 1 }
      if v.model ≠ res then
        IO.println s!"DIFF {c.lines} {fn} model={v.model} impl={res} :: {line}"
        c := { c with diffs := c.diffs + 1 }
      for f in v.propFails do
        IO.println s!"PROPFAIL {c.lines} {f} :: {line}"
        c := { c with propfails := c.propfails + 1 }
      loop h c
  | "H" :: _ => loop h c
  | [] => loop h c
  | tag :: _ =>
    if tag ∈ ["C", "E", "O", "D", "X", "Z"] then
      let (ctl', msgs0) := Ctl.feed c.ctl line
      let mut msgs := msgs0
      let mut ps := c.ps
      if tag == "C" then
        ps := { maxRetrans := Ctl.natD (Ctl.lookD (Ctl.kvs (words line)) "maxretrans" "3"),
                faultPct := Ctl.natD (Ctl.lookD (Ctl.kvs (words line)) "faultpct" "0") }
      if tag == "X" then
        let p := c.ctl.pend
        if p.ev.isSome then
          let (ps', fails) := CtlProps.check ps p.evLine p.obs p.fault p.dump
          ps := ps'
          let hist := String.intercalate " ;; " (c.ctl.caseLine :: c.ctl.history.reverse)
          msgs := msgs ++ fails.map fun f => s!"PROPFAIL {c.lines} {f} :: {hist}"
      let mut c := { c with ctl := ctl', ps := ps }
      if tag == "X" then c := { c with checked := c.checked + 1 }
      for m in msgs do
        IO.println m
        if m.startsWith "DIFF" then c := { c with diffs := c.diffs + 1 }
        else if m.startsWith "PROPFAIL" then c := { c with propfails := c.propfails + 1 }
        else if m.startsWith "BADLINE" then c := { c with bad := c.bad + 1 }
      loop h c
    else do
      IO.println s!"BADLINE {c.lines} :: {line}"
      loop h { c with bad := c.bad + 1 }

def main (_args : List String) : IO UInt32 := do
  let stdin ← IO.getStdin
  let c ← loop stdin {}
  IO.println s!"SUMMARY lines={c.lines} checked={c.checked} diffs={c.diffs} propfails={c.propfails} bad={c.bad}"
  return 0
