import UpfVerif.Basic
/-
M-Wire / netlink: generic-netlink attribute trees as go-nl encodes them (`nl.Attr.Encode`, `nl.AttrList`,
`AttrU8/U16/U32/U64/Bytes/String`): little-endian host, 4-byte alignment, `NLA_F_NESTED` on nested attributes;
and the generic decoder a kernel applies (`nla_parse`).
-/
namespace UpfVerif.Netlink

inductive Attr
  | leaf (typ : Nat) (val : Bytes)
  | nest (typ : Nat) (children : List Attr)
deriving Repr, Inhabited

def le16 (n : Nat) : Bytes := [BitVec.ofNat 8 n, BitVec.ofNat 8 (n / 256)]
def le32 (n : Nat) : Bytes := [BitVec.ofNat 8 n, BitVec.ofNat 8 (n / 256), BitVec.ofNat 8 (n / 65536), BitVec.ofNat 8 (n / 16777216)]
def le64 (n : Nat) : Bytes := le32 n ++ le32 (n / 4294967296)

/-- value constructors of go-nl -/
def u8 (t : Nat) (v : Nat) : Attr := .leaf t [BitVec.ofNat 8 v]
def u16 (t : Nat) (v : Nat) : Attr := .leaf t (le16 v)
def u32 (t : Nat) (v : Nat) : Attr := .leaf t (le32 v)
def u64 (t : Nat) (v : Nat) : Attr := .leaf t (le64 v)
def bytes (t : Nat) (v : Bytes) : Attr := .leaf t v
def str (t : Nat) (s : Bytes) : Attr := .leaf t (s ++ [0#8])

def padLen (n : Nat) : Nat := (4 - n % 4) % 4
def pad (n : Nat) : Bytes := List.replicate (padLen n) 0#8

def nestedFlag : Nat := 0x8000

mutual
/-- `nl.Attr.Encode`: length (header + payload, unpadded), type, payload, padding -/
def Attr.enc : Attr → Bytes
  | .leaf t v => le16 (4 + v.length) ++ le16 t ++ v ++ pad v.length
  | .nest t cs => le16 (4 + (encList cs).length) ++ le16 (t + nestedFlag) ++ encList cs
def encList : List Attr → Bytes
  | [] => []
  | a :: rest => a.enc ++ encList rest
end

/-! ### decoding (what the kernel's `nla_parse` sees): a flat list of (type with flags, payload) -/

def rd16 (b : Bytes) : Nat := (b.getD 0 0).toNat + 256 * (b.getD 1 0).toNat
def rd32 (b : Bytes) : Nat := rd16 b + 65536 * rd16 (b.drop 2)
def rd64 (b : Bytes) : Nat := rd32 b + 4294967296 * rd32 (b.drop 4)

/-- split a byte string into attributes; `none` on a malformed length. Fuel = number of bytes. -/
def decFlat : Nat → Bytes → Option (List (Nat × Bytes))
  | 0, b => if b.isEmpty then some [] else none
  | fuel + 1, b =>
    if b.isEmpty then some [] else
    if b.length < 4 then none else
    let l := rd16 b
    if l < 4 || l > b.length then none else
    let t := rd16 (b.drop 2)
    let v := (b.drop 4).take (l - 4)
    let al := l + padLen l
    match decFlat fuel (b.drop al) with
    | some rest => some ((t, v) :: rest)
    | none => none

def decode (b : Bytes) : Option (List (Nat × Bytes)) := decFlat b.length b

def typeOf (t : Nat) : Nat := t % 0x4000            -- NLA_TYPE_MASK
def isNested (t : Nat) : Bool := t / 0x8000 % 2 == 1

/-- first attribute of (masked) type `t` -/
def find (as : List (Nat × Bytes)) (t : Nat) : Option Bytes := (as.find? fun a => typeOf a.1 == t).map (·.2)
/-- all attributes of (masked) type `t`, in order -/
def findAll (as : List (Nat × Bytes)) (t : Nat) : List Bytes := (as.filter fun a => typeOf a.1 == t).map (·.2)

end UpfVerif.Netlink
