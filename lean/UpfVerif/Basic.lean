/- Shared basic types: bytes as `BitVec 8`, hex printing/parsing (driver only). -/
namespace UpfVerif

abbrev Byte := BitVec 8
abbrev Bytes := List Byte

def hexDigit (n : Nat) : Char :=
  if n < 10 then Char.ofNat (48 + n) else Char.ofNat (87 + n)

def Byte.toHex (b : Byte) : String :=
  String.mk [hexDigit (b.toNat / 16), hexDigit (b.toNat % 16)]

def Bytes.toHex (bs : Bytes) : String :=
  String.join (bs.map Byte.toHex)

def hexVal (c : Char) : Option Nat :=
  if '0' ≤ c ∧ c ≤ '9' then some (c.toNat - 48)
  else if 'a' ≤ c ∧ c ≤ 'f' then some (c.toNat - 87)
  else if 'A' ≤ c ∧ c ≤ 'F' then some (c.toNat - 55)
  else none

def parseHexBytes (s : String) : Option Bytes :=
  let rec go : List Char → Option Bytes
    | [] => some []
    | [_] => none
    | a :: b :: rest =>
      match hexVal a, hexVal b, go rest with
      | some x, some y, some bs => some (BitVec.ofNat 8 (x * 16 + y) :: bs)
      | _, _, _ => none
  go s.toList

def parseHexNat (s : String) : Option Nat :=
  if s.isEmpty then none else
  s.toList.foldl (fun acc c => match acc, hexVal c with
    | some a, some v => some (a * 16 + v)
    | _, _ => none) (some 0)

end UpfVerif
