import UpfVerif.Model.FlowDesc
import UpfVerif.Lemmas.FlowDesc
/-
Spec: the supported IPFilterRule form (RFC 6733 §4.3.1 subset used by TS 29.244 §8.2.5)
  permit in|out <protocol|ip> from <address> [ports] to <address> [ports]
as an abstract syntax with its rendering (any spelling of the numerals, any non-empty white-space runs between
tokens) and its denotation (the filter the string means).  Written independently of the parser.
-/
namespace UpfVerif.Spec.IPFilter
open UpfVerif.FlowDesc

/-- canonical decimal spelling of a number below 1000 (dotted-quad fields and prefix lengths) -/
def decStr (n : Nat) : Str :=
  let d (k : Nat) : Char := Char.ofNat (48 + k % 10)
  if n < 10 then [d n] else if n < 100 then [d (n / 10), d n] else [d (n / 100), d (n / 10), d n]

inductive Addr
  | any
  | assigned
  | host (a b c d : Fin 256)
  | net (a b c d : Fin 256) (len : Fin 33)
deriving DecidableEq, Repr

/-- a decimal numeral as a non-empty digit list — every spelling, leading zeros included -/
structure Numeral where
  ds : List (Fin 10)
  ne : ds ≠ []

def Numeral.val (n : Numeral) : Nat := digitsVal n.ds
def Numeral.str (n : Numeral) : Str := digitsStr n.ds

inductive PortItem
  | one (p : Numeral)
  | range (lo hi : Numeral)

structure Rule where
  dirIn  : Bool                     -- in / out
  proto  : Option Numeral           -- none = "ip"
  src    : Addr
  sports : List PortItem            -- [] = no port token
  dst    : Addr
  dports : List PortItem

def ipStr (a b c d : Fin 256) : Str := joinSep '.' [decStr a, decStr b, decStr c, decStr d]

def Addr.str : Addr → Str
  | .any => kwAny
  | .assigned => kwAssigned
  | .host a b c d => ipStr a b c d
  | .net a b c d l => ipStr a b c d ++ '/' :: decStr l

def PortItem.str : PortItem → Str
  | .one p => p.str
  | .range lo hi => lo.str ++ '-' :: hi.str

def portsStr (ps : List PortItem) : Str := joinSep ',' (ps.map PortItem.str)

def Rule.dirTok (r : Rule) : Str := if r.dirIn then kwIn else kwOut
def Rule.protoTok (r : Rule) : Str := match r.proto with
  | none => kwIp
  | some n => n.str
def Rule.protoVal (r : Rule) : Nat := match r.proto with
  | none => 255
  | some n => n.val

/-- the tokens of a rule, in order -/
def Rule.tokens (r : Rule) : List Str :=
  [kwPermit, r.dirTok, r.protoTok, kwFrom, r.src.str] ++
  (if r.sports.isEmpty then [] else [portsStr r.sports]) ++
  [kwTo, r.dst.str] ++
  (if r.dports.isEmpty then [] else [portsStr r.dports])

/-- what the rule means: direction, protocol number (255 = any IP), networks as address / mask octets, port ranges -/
def Addr.denote : Addr → IPNet
  | .any => { ip := List.replicate 16 0, mask := List.replicate 16 0 }
  | .assigned => { ip := List.replicate 16 0, mask := List.replicate 16 0 }
  | .host a b c d => { ip := [a.val, b.val, c.val, d.val], mask := [255, 255, 255, 255] }
  | .net a b c d l =>
    let m := cidrMask l.val
    { ip := ([a.val, b.val, c.val, d.val].zip m).map fun (x, y) => x &&& y, mask := m }

def PortItem.denote : PortItem → List Nat
  | .one p => [p.val]
  | .range lo hi => [lo.val, hi.val]

def Rule.denote (r : Rule) : FlowDesc :=
  { dir := r.dirTok,
    proto := r.protoVal,
    src := r.src.denote, dst := r.dst.denote,
    sports := r.sports.map PortItem.denote, dports := r.dports.map PortItem.denote }

/-- numerals in range: protocol below 256, ports below 65536 -/
def PortItem.WF : PortItem → Prop
  | .one p => p.val < 65536
  | .range lo hi => lo.val < 65536 ∧ hi.val < 65536

def Rule.WF (r : Rule) : Prop :=
  (∀ n, r.proto = some n → n.val < 256) ∧ (∀ p ∈ r.sports, p.WF) ∧ (∀ p ∈ r.dports, p.WF)

end UpfVerif.Spec.IPFilter
