import UpfVerif.Model.Xlate
import UpfVerif.Spec.Rules
/-
Spec: when does a list of child IEs *carry* a rule content?  `Arranges… cs p`: the children of each kind, in the order
they appear, are exactly what `p` names (one id; at most one of each single-valued IE; repeated IEs in `p`'s order).
Children the driver ignores (Network Instance, Application ID, Destination Interface) may stand anywhere.  Every
permutation of the children that keeps the relative order of the repeated ones arranges the same `p`.
-/
namespace UpfVerif.Arrange
open UpfVerif.Netlink UpfVerif.Rules UpfVerif.Xlate UpfVerif.FlowDesc

def PdiChild.srcif? : PdiChild → Option Nat | .srcif v => some v | _ => none
def PdiChild.fteid? : PdiChild → Option (Nat × Bytes) | .fteid t ip => some (t, ip) | _ => none
def PdiChild.ueip? : PdiChild → Option Bytes | .ueip ip => some ip | _ => none
def PdiChild.sdf? : PdiChild → Option (Str × Option Nat) | .sdf fd bid => some (fd, bid) | _ => none
structure ArrangesPdi (cs : List PdiChild) (q : PdiSpec) : Prop where
  srcif : cs.filterMap PdiChild.srcif? = q.srcIf.toList
  fteid : cs.filterMap PdiChild.fteid? = q.fteid.toList
  ueip : cs.filterMap PdiChild.ueip? = q.ueip.toList
  sdfs : cs.filterMap PdiChild.sdf? = q.sdfs

def PdrChild.pdrid? : PdrChild → Option Nat | .pdrid v => some v | _ => none
def PdrChild.prec? : PdrChild → Option Nat | .prec v => some v | _ => none
def PdrChild.ohr? : PdrChild → Option Nat | .ohr v => some v | _ => none
def PdrChild.farid? : PdrChild → Option Nat | .farid v => some v | _ => none
def PdrChild.qerid? : PdrChild → Option Nat | .qerid v => some v | _ => none
def PdrChild.urrid? : PdrChild → Option Nat | .urrid v => some v | _ => none
def PdrChild.pdi? : PdrChild → Option (List PdiChild) | .pdi cs => some cs | _ => none
structure ArrangesPdr (cs : List PdrChild) (p : PdrSpec) : Prop where
  id : cs.filterMap PdrChild.pdrid? = [p.id]
  prec : cs.filterMap PdrChild.prec? = p.prec.toList
  ohr : cs.filterMap PdrChild.ohr? = p.ohr.toList
  farid : cs.filterMap PdrChild.farid? = p.farId.toList
  qerids : cs.filterMap PdrChild.qerid? = p.qerIds
  urrids : cs.filterMap PdrChild.urrid? = p.urrIds
  pdi : ∃ pss, cs.filterMap PdrChild.pdi? = pss ∧ pss.length = p.pdi.toList.length ∧
        ∀ ps ∈ pss, ∀ q, p.pdi = some q → ArrangesPdi ps q

def FpChild.ohc? : FpChild → Option OhcSpec | .ohc d t ip p => some ⟨d, t, ip, p⟩ | _ => none
def FpChild.fpol? : FpChild → Option Bytes | .fpol s => some s | _ => none
def FpChild.smreq? : FpChild → Option Nat | .smreq v => some v | _ => none
structure ArrangesFwd (cs : List FpChild) (f : FwdSpec) : Prop where
  ohc : cs.filterMap FpChild.ohc? = f.ohc.toList
  fpol : cs.filterMap FpChild.fpol? = f.policy.toList
  smreq : cs.filterMap FpChild.smreq? = f.smReq.toList

def FarChild.farid? : FarChild → Option Nat | .farid v => some v | _ => none
def FarChild.aa? : FarChild → Option Bytes | .aa b => some b | _ => none
def FarChild.fp? : FarChild → Option (List FpChild) | .fp cs => some cs | _ => none
def FarChild.barid? : FarChild → Option Nat | .barid v => some v | _ => none
structure ArrangesFar (cs : List FarChild) (p : FarSpec) : Prop where
  id : cs.filterMap FarChild.farid? = [p.id]
  aa : cs.filterMap FarChild.aa? = p.applyAction.toList
  barid : cs.filterMap FarChild.barid? = p.barId.toList
  fp : ∃ fss, cs.filterMap FarChild.fp? = fss ∧ fss.length = p.fwd.toList.length ∧
        ∀ fs ∈ fss, ∀ f, p.fwd = some f → ArrangesFwd fs f

def QerChild.qerid? : QerChild → Option Nat | .qerid v => some v | _ => none
def QerChild.corr? : QerChild → Option Nat | .corr v => some v | _ => none
def QerChild.gate? : QerChild → Option Nat | .gate v => some v | _ => none
def QerChild.mbr? : QerChild → Option (Nat × Nat) | .mbr u d => some (u, d) | _ => none
def QerChild.gbr? : QerChild → Option (Nat × Nat) | .gbr u d => some (u, d) | _ => none
def QerChild.qfi? : QerChild → Option Nat | .qfi v => some v | _ => none
def QerChild.rqi? : QerChild → Option Nat | .rqi v => some v | _ => none
def QerChild.ppi? : QerChild → Option Nat | .ppi v => some v | _ => none
structure ArrangesQer (cs : List QerChild) (p : QerSpec) : Prop where
  id : cs.filterMap QerChild.qerid? = [p.id]
  corr : cs.filterMap QerChild.corr? = p.corrId.toList
  gate : cs.filterMap QerChild.gate? = p.gate.toList
  mbr : cs.filterMap QerChild.mbr? = p.mbr.toList
  gbr : cs.filterMap QerChild.gbr? = p.gbr.toList
  qfi : cs.filterMap QerChild.qfi? = p.qfi.toList
  rqi : cs.filterMap QerChild.rqi? = p.rqi.toList
  ppi : cs.filterMap QerChild.ppi? = p.ppi.toList

def UrrChild.urrid? : UrrChild → Option Nat | .urrid v => some v | _ => none
def UrrChild.mm? : UrrChild → Option Nat | .mm v => some v | _ => none
def UrrChild.rt? : UrrChild → Option Bytes | .rt b => some b | _ => none
def UrrChild.mp? : UrrChild → Option Nat | .mp s => some s | _ => none
def UrrChild.mi? : UrrChild → Option Nat | .mi v => some v | _ => none
def UrrChild.vth? : UrrChild → Option VolSpec | .vth f t u d => some ⟨f, t, u, d⟩ | _ => none
def UrrChild.vqu? : UrrChild → Option VolSpec | .vqu f t u d => some ⟨f, t, u, d⟩ | _ => none
structure ArrangesUrr (cs : List UrrChild) (p : UrrSpec) : Prop where
  id : cs.filterMap UrrChild.urrid? = [p.id]
  mm : cs.filterMap UrrChild.mm? = p.method.toList
  rt : cs.filterMap UrrChild.rt? = p.triggers.toList
  mp : cs.filterMap UrrChild.mp? = p.period.toList
  mi : cs.filterMap UrrChild.mi? = p.info.toList
  vth : cs.filterMap UrrChild.vth? = p.threshold.toList
  vqu : cs.filterMap UrrChild.vqu? = p.quota.toList

def BarChild.barid? : BarChild → Option Nat | .barid v => some v | _ => none
def BarChild.ddnd? : BarChild → Option Nat | .ddnd v => some v | _ => none
def BarChild.sbpc? : BarChild → Option Nat | .sbpc v => some v | _ => none
structure ArrangesBar (cs : List BarChild) (p : BarSpec) : Prop where
  id : cs.filterMap BarChild.barid? = [p.id]
  ddnd : cs.filterMap BarChild.ddnd? = p.delay.toList
  sbpc : cs.filterMap BarChild.sbpc? = p.pktCount.toList

/-! ### the content a child list carries (executable; used by the driver to evaluate the property on the implementation's
     own request bytes).  `none` when the list is not an arrangement of any content (two ids, two precedences, …). -/

def atMostOne {α : Type} (l : List α) : Option (Option α) :=
  match l with
  | [] => some none
  | [a] => some (some a)
  | _ => none

def specPdi (cs : List PdiChild) : Option PdiSpec := do
  let s ← atMostOne (cs.filterMap PdiChild.srcif?)
  let f ← atMostOne (cs.filterMap PdiChild.fteid?)
  let u ← atMostOne (cs.filterMap PdiChild.ueip?)
  pure { srcIf := s, fteid := f, ueip := u, sdfs := cs.filterMap PdiChild.sdf? }

def specPdr (cs : List PdrChild) : Option PdrSpec := do
  let id ← match cs.filterMap PdrChild.pdrid? with | [i] => some i | _ => none
  let pr ← atMostOne (cs.filterMap PdrChild.prec?)
  let oh ← atMostOne (cs.filterMap PdrChild.ohr?)
  let fa ← atMostOne (cs.filterMap PdrChild.farid?)
  let pd ← atMostOne (cs.filterMap PdrChild.pdi?)
  let q ← match pd with
    | none => some none
    | some ps => (specPdi ps).map some
  pure { id := id, prec := pr, ohr := oh, farId := fa, qerIds := cs.filterMap PdrChild.qerid?,
         urrIds := cs.filterMap PdrChild.urrid?, pdi := q }

def FpChild.isOhcTag : FpChild → Bool | .ohctag _ => true | _ => false

def specFwd (cs : List FpChild) : Option FwdSpec := do
  -- an Outer Header Creation with C-TAG / S-TAG is outside the supported forms (the UPF skips it): no specification
  if cs.any FpChild.isOhcTag then none
  let o ← atMostOne (cs.filterMap FpChild.ohc?)
  let p ← atMostOne (cs.filterMap FpChild.fpol?)
  let s ← atMostOne (cs.filterMap FpChild.smreq?)
  pure { ohc := o, policy := p, smReq := s }

def specFar (cs : List FarChild) : Option FarSpec := do
  let id ← match cs.filterMap FarChild.farid? with | [i] => some i | _ => none
  let aa ← atMostOne (cs.filterMap FarChild.aa?)
  let ba ← atMostOne (cs.filterMap FarChild.barid?)
  let fp ← atMostOne (cs.filterMap FarChild.fp?)
  let f ← match fp with
    | none => some none
    | some fs => (specFwd fs).map some
  pure { id := id, applyAction := aa, fwd := f, barId := ba }

def specQer (cs : List QerChild) : Option QerSpec := do
  let id ← match cs.filterMap QerChild.qerid? with | [i] => some i | _ => none
  pure { id := id, corrId := ← atMostOne (cs.filterMap QerChild.corr?), gate := ← atMostOne (cs.filterMap QerChild.gate?),
         mbr := ← atMostOne (cs.filterMap QerChild.mbr?), gbr := ← atMostOne (cs.filterMap QerChild.gbr?),
         qfi := ← atMostOne (cs.filterMap QerChild.qfi?), rqi := ← atMostOne (cs.filterMap QerChild.rqi?),
         ppi := ← atMostOne (cs.filterMap QerChild.ppi?) }

def specUrr (cs : List UrrChild) : Option UrrSpec := do
  let id ← match cs.filterMap UrrChild.urrid? with | [i] => some i | _ => none
  pure { id := id, method := ← atMostOne (cs.filterMap UrrChild.mm?), triggers := ← atMostOne (cs.filterMap UrrChild.rt?),
         period := ← atMostOne (cs.filterMap UrrChild.mp?), info := ← atMostOne (cs.filterMap UrrChild.mi?),
         threshold := ← atMostOne (cs.filterMap UrrChild.vth?), quota := ← atMostOne (cs.filterMap UrrChild.vqu?) }

def specBar (cs : List BarChild) : Option BarSpec := do
  let id ← match cs.filterMap BarChild.barid? with | [i] => some i | _ => none
  pure { id := id, delay := ← atMostOne (cs.filterMap BarChild.ddnd?), pktCount := ← atMostOne (cs.filterMap BarChild.sbpc?) }

/-! decidable versions of the well-formedness side conditions (field ranges are guaranteed by the Go types of the
    harness's generator; the structural ones are checked) -/
def PdrSpec.wfb (p : PdrSpec) : Bool :=
  match p.pdi with
  | none => true
  | some q => q.srcIf.isSome
def FarSpec.wfb (p : FarSpec) : Bool :=
  (match p.applyAction with | some [] => false | _ => true) &&
  (match p.fwd with
   | none => true
   | some f => (f.ohc.isSome || f.policy.isSome || f.smReq.isSome) &&
               (match f.policy with | some s => s.all (· ≠ 0#8) | none => true))
def volWfb (v : Option VolSpec) : Bool := match v with | none => true | some v => v.flags < 8 && v.flags ≠ 0
def UrrSpec.wfb (p : UrrSpec) : Bool :=
  (match p.triggers with | some b => b.length == 2 || b.length == 3 | none => true) && volWfb p.threshold && volWfb p.quota
def QerSpec.wfb (p : QerSpec) : Bool := match p.ppi with | some v => v < 8 | none => true

end UpfVerif.Arrange
