import UpfVerif.Spec.Gtp5gRead
import UpfVerif.Model.FlowDesc
/-
Spec: what the SMF *means* by a Create/Update PDR, FAR, QER, URR or BAR grouped IE (the content of the IE, independent of
the order of its children), and the rule the gtp5g data plane must therefore end up holding (`expect…`), stated with the
views of `Spec/Gtp5gRead.lean`.  The flow description of an SDF filter is the text of the IE; what it denotes is given by
`FlowDesc.parseFlowDesc`, which `Props/C16.lean` proves equal to the grammar's denotation.
-/
namespace UpfVerif.Rules
open UpfVerif.Gtp5gRead UpfVerif.FlowDesc

/-! ### PDR -/

structure PdiSpec where
  srcIf : Option Nat
  fteid : Option (Nat × Bytes)          -- TEID, IPv4 address
  ueip : Option Bytes
  sdfs : List (Str × Option Nat)        -- flow description text, SDF filter id
deriving DecidableEq, Repr

structure PdrSpec where
  id : Nat
  prec : Option Nat
  ohr : Option Nat
  farId : Option Nat
  qerIds : List Nat
  urrIds : List Nat
  pdi : Option PdiSpec
deriving DecidableEq, Repr

/-- TS 29.244 8.2.2: Source Interface value 0 is Access — an uplink PDR -/
def srcIfAccess : Nat := 0
def PdiSpec.uplink (q : PdiSpec) : Bool := q.srcIf.getD 0 == srcIfAccess

def ipBytes (l : List Nat) : Bytes := l.map (BitVec.ofNat 8)

/-- a port item of the flow description as a range -/
def portRange : List Nat → Nat × Nat
  | [a] => (a, a)
  | [a, b] => (a, b)
  | _ => (0, 0)

/-- the filter the kernel must hold for a flow description; source and destination exchanged for an uplink PDR -/
def expectFlow (f : FlowDesc) (uplink : Bool) : FlowView :=
  let src := if uplink then f.dst else f.src
  let dst := if uplink then f.src else f.dst
  let sp := if uplink then f.dports else f.sports
  let dp := if uplink then f.sports else f.dports
  { action := some 1, direction := some (if f.dir == kwIn then 1 else 2), proto := some f.proto,
    srcIp := some (ipBytes src.ip), srcMask := some (ipBytes src.mask),
    dstIp := some (ipBytes dst.ip), dstMask := some (ipBytes dst.mask),
    srcPorts := sp.map portRange, dstPorts := dp.map portRange }

/-- filters whose flow description the parser rejects are not installed -/
def expectSdf (uplink : Bool) (s : Str × Option Nat) : Option SdfView :=
  (parseFlowDesc s.1).map fun f => { fd := some (expectFlow f uplink), filterId := s.2 }

def expectPdi (q : PdiSpec) : PdiView :=
  { srcIntf := q.srcIf, fteid := q.fteid.map fun (t, ip) => (some t, some ip), ueAddr := q.ueip,
    sdfs := q.sdfs.filterMap (expectSdf q.uplink) }

def expectPdr (link seid : Nat) (p : PdrSpec) : PdrView :=
  { link := some link, seid := some seid, id := some p.id, precedence := p.prec, ohr := p.ohr, farId := p.farId,
    qerIds := p.qerIds, urrIds := p.urrIds, pdi := p.pdi.map expectPdi }

/-- field ranges of the IEs (TS 29.244 8.2.x) -/
def PdiSpec.WF (q : PdiSpec) : Prop :=
  q.srcIf.isSome ∧ (∀ v, q.srcIf = some v → v < 256) ∧ (∀ t ip, q.fteid = some (t, ip) → t < 2 ^ 32) ∧
  (∀ s ∈ q.sdfs, ∀ b, s.2 = some b → b < 2 ^ 32)
def PdrSpec.WF (p : PdrSpec) : Prop :=
  p.id < 2 ^ 16 ∧ (∀ v, p.prec = some v → v < 2 ^ 32) ∧ (∀ v, p.ohr = some v → v < 256) ∧
  (∀ v, p.farId = some v → v < 2 ^ 32) ∧ (∀ v ∈ p.qerIds, v < 2 ^ 32) ∧ (∀ v ∈ p.urrIds, v < 2 ^ 32) ∧
  (∀ q, p.pdi = some q → q.WF)

/-! ### FAR -/

structure OhcSpec where
  desc : Nat             -- Outer Header Creation Description, 16 bits (first octet in the high byte)
  teid : Nat
  ip : Bytes
  port : Nat
deriving DecidableEq, Repr

structure FwdSpec where
  ohc : Option OhcSpec
  policy : Option Bytes
  smReq : Option Nat
deriving DecidableEq, Repr

structure FarSpec where
  id : Nat
  applyAction : Option Bytes     -- the IE's octets (1 or 2 significant)
  fwd : Option FwdSpec
  barId : Option Nat
deriving DecidableEq, Repr

/-- TS 29.244 8.2.56 description bits (octet 5 is the high byte of the 16-bit description):
    bit 1 GTP-U/UDP/IPv4, bit 2 GTP-U/UDP/IPv6, bit 3 UDP/IPv4, bit 4 UDP/IPv6, bit 5 IPv4 -/
def OhcSpec.gtpu (o : OhcSpec) : Bool := o.desc / 0x100 % 2 == 1 || o.desc / 0x200 % 2 == 1
def OhcSpec.v4 (o : OhcSpec) : Bool := o.desc / 0x100 % 2 == 1 || o.desc / 0x400 % 2 == 1 || o.desc / 0x1000 % 2 == 1
def OhcSpec.udp (o : OhcSpec) : Bool := o.desc / 0x400 % 2 == 1 || o.desc / 0x800 % 2 == 1

/-- GTP-U goes to port 2152 (TS 29.281 4.4.2); plain UDP encapsulation to the IE's port -/
def expectOhc (o : OhcSpec) : OhcView :=
  { desc := some o.desc, teid := if o.gtpu then some o.teid else none,
    peer := if o.v4 then some o.ip else none,
    port := some (if o.gtpu then 2152 else if o.udp then o.port else 0) }

def expectFwd (f : FwdSpec) : FwdView :=
  { ohc := f.ohc.map expectOhc, policy := f.policy, smReq := f.smReq }

/-- Apply Action flags: octet 5 in bits 0-7, octet 6 (if present) in bits 8-15 -/
def aaWord : Bytes → Nat
  | [] => 0
  | [b0] => b0.toNat
  | b0 :: b1 :: _ => b0.toNat + 256 * b1.toNat

def expectFar (link seid : Nat) (p : FarSpec) : FarView :=
  { link := some link, seid := some seid, id := some p.id, applyAction := p.applyAction.map aaWord,
    fwd := p.fwd.map expectFwd, barId := p.barId }

def OhcSpec.WF (o : OhcSpec) : Prop := o.desc < 2 ^ 16 ∧ o.teid < 2 ^ 32 ∧ o.port < 2 ^ 16
def FwdSpec.WF (f : FwdSpec) : Prop :=
  (∀ o, f.ohc = some o → o.WF) ∧ (∀ s, f.policy = some s → ∀ c ∈ s, c ≠ 0#8) ∧ (∀ v, f.smReq = some v → v < 256) ∧
  /- Forwarding Parameters that name nothing the driver hands over produce no nested attribute -/
  (f.ohc.isSome ∨ f.policy.isSome ∨ f.smReq.isSome)
def FarSpec.WF (p : FarSpec) : Prop :=
  p.id < 2 ^ 32 ∧ (∀ b, p.applyAction = some b → b ≠ []) ∧ (∀ f, p.fwd = some f → f.WF) ∧ (∀ v, p.barId = some v → v < 256)

/-! ### QER -/

structure QerSpec where
  id : Nat
  corrId : Option Nat
  gate : Option Nat
  mbr : Option (Nat × Nat)       -- uplink, downlink (40-bit, kbps)
  gbr : Option (Nat × Nat)
  qfi : Option Nat
  rqi : Option Nat
  ppi : Option Nat
deriving DecidableEq, Repr

def expectRate (r : Nat × Nat) : RateView := { ul := some r.1, dl := some r.2 }

def expectQer (link seid : Nat) (p : QerSpec) : QerView :=
  { link := some link, seid := some seid, id := some p.id, corrId := p.corrId, gate := p.gate,
    mbr := p.mbr.map expectRate, gbr := p.gbr.map expectRate, qfi := p.qfi, rqi := p.rqi, ppi := p.ppi }

def QerSpec.WF (p : QerSpec) : Prop :=
  p.id < 2 ^ 32 ∧ (∀ v, p.corrId = some v → v < 2 ^ 32) ∧ (∀ v, p.gate = some v → v < 256) ∧
  (∀ r, p.mbr = some r → r.1 < 2 ^ 40 ∧ r.2 < 2 ^ 40) ∧ (∀ r, p.gbr = some r → r.1 < 2 ^ 40 ∧ r.2 < 2 ^ 40) ∧
  (∀ v, p.qfi = some v → v < 256) ∧ (∀ v, p.rqi = some v → v < 256) ∧ (∀ v, p.ppi = some v → v < 8)

/-! ### URR -/

structure VolSpec where
  flags : Nat          -- bit 0 TOVOL, bit 1 ULVOL, bit 2 DLVOL
  total : Nat
  uplink : Nat
  downlink : Nat
deriving DecidableEq, Repr

structure UrrSpec where
  id : Nat
  method : Option Nat
  triggers : Option Bytes       -- the IE's 2 or 3 octets
  period : Option Nat           -- seconds
  info : Option Nat
  threshold : Option VolSpec
  quota : Option VolSpec
deriving DecidableEq, Repr

def expectVol (v : VolSpec) : VolView :=
  { flag := some v.flags, total := if v.flags % 2 == 1 then some v.total else none,
    uplink := if v.flags / 2 % 2 == 1 then some v.uplink else none,
    downlink := if v.flags / 4 % 2 == 1 then some v.downlink else none }

/-- Reporting Triggers flag word: octet 5 in bits 0-7, octet 6 in bits 8-15, octet 7 (if present) in bits 16-23 -/
def trigWord : Bytes → Nat
  | [b0, b1] => b0.toNat + 256 * b1.toNat
  | [b0, b1, b2] => b0.toNat + 256 * b1.toNat + 65536 * b2.toNat
  | b0 :: b1 :: b2 :: b3 :: _ => b0.toNat + 256 * b1.toNat + 65536 * b2.toNat + 16777216 * b3.toNat
  | _ => 0

def expectUrr (link seid : Nat) (p : UrrSpec) : UrrView :=
  { link := some link, seid := some seid, id := some p.id, method := p.method, trigger := p.triggers.map trigWord,
    info := p.info, threshold := p.threshold.map expectVol, quota := p.quota.map expectVol }

/-- PERIO is bit 1 of octet 5 (TS 29.244 8.2.19) -/
def UrrSpec.periodic (p : UrrSpec) : Bool := match p.triggers with
  | some (b0 :: _) => b0.toNat % 2 == 1
  | _ => false

def VolSpec.WF (v : VolSpec) : Prop :=
  v.flags < 8 ∧ v.flags ≠ 0 ∧ v.total < 2 ^ 64 ∧ v.uplink < 2 ^ 64 ∧ v.downlink < 2 ^ 64
def UrrSpec.WF (p : UrrSpec) : Prop :=
  p.id < 2 ^ 32 ∧ (∀ v, p.method = some v → v < 256) ∧ (∀ b, p.triggers = some b → b.length = 2 ∨ b.length = 3) ∧
  (∀ v, p.info = some v → v < 256) ∧ (∀ v, p.threshold = some v → v.WF) ∧ (∀ v, p.quota = some v → v.WF)

/-! ### BAR -/

structure BarSpec where
  id : Nat
  delay : Option Nat          -- Downlink Data Notification Delay, the IE's octet (multiples of 50 ms)
  pktCount : Option Nat
deriving DecidableEq, Repr

def expectBar (link seid : Nat) (p : BarSpec) : BarView :=
  { link := some link, seid := some seid, id := some p.id, delay := p.delay, pktCount := p.pktCount }

def BarSpec.WF (p : BarSpec) : Prop :=
  p.id < 256 ∧ (∀ v, p.delay = some v → v < 256) ∧ (∀ v, p.pktCount = some v → v < 256)

end UpfVerif.Rules
