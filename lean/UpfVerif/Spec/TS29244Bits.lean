/-
Bit layouts transcribed by hand from 3GPP TS 29.244 (Release 16/17):
  §8.2.26 Apply Action, §8.2.19 Reporting Triggers, §8.2.41 Usage Report Trigger,
  §8.2.13 Volume Measurement (flag octet).
An entry `(name, octet, bit)` says: flag `name` is bit `bit` (1 = least significant) of
octet `octet` of the IE (octet 5 is the first octet after the 4-octet IE header).
This file does not look at the code.
-/
namespace UpfVerif.Spec

structure BitPos where
  name  : String
  octet : Nat
  bit   : Nat
deriving Repr, DecidableEq

/-- §8.2.26 Apply Action -/
def applyAction : List BitPos := [
  ⟨"DROP", 5, 1⟩, ⟨"FORW", 5, 2⟩, ⟨"BUFF", 5, 3⟩, ⟨"NOCP", 5, 4⟩,
  ⟨"DUPL", 5, 5⟩, ⟨"IPMA", 5, 6⟩, ⟨"IPMD", 5, 7⟩, ⟨"DFRT", 5, 8⟩,
  ⟨"EDRT", 6, 1⟩, ⟨"BDPN", 6, 2⟩, ⟨"DDPN", 6, 3⟩, ⟨"FSSM", 6, 4⟩, ⟨"MBSU", 6, 5⟩ ]

/-- §8.2.19 Reporting Triggers -/
def reportingTriggers : List BitPos := [
  ⟨"PERIO", 5, 1⟩, ⟨"VOLTH", 5, 2⟩, ⟨"TIMTH", 5, 3⟩, ⟨"QUHTI", 5, 4⟩,
  ⟨"START", 5, 5⟩, ⟨"STOPT", 5, 6⟩, ⟨"DROTH", 5, 7⟩, ⟨"LIUSA", 5, 8⟩,
  ⟨"VOLQU", 6, 1⟩, ⟨"TIMQU", 6, 2⟩, ⟨"ENVCL", 6, 3⟩, ⟨"MACAR", 6, 4⟩,
  ⟨"EVETH", 6, 5⟩, ⟨"EVEQU", 6, 6⟩, ⟨"IPMJL", 6, 7⟩, ⟨"QUVTI", 6, 8⟩,
  ⟨"REEMR", 7, 1⟩, ⟨"UPINT", 7, 2⟩ ]

/-- §8.2.41 Usage Report Trigger -/
def usageReportTrigger : List BitPos := [
  ⟨"PERIO", 5, 1⟩, ⟨"VOLTH", 5, 2⟩, ⟨"TIMTH", 5, 3⟩, ⟨"QUHTI", 5, 4⟩,
  ⟨"START", 5, 5⟩, ⟨"STOPT", 5, 6⟩, ⟨"DROTH", 5, 7⟩, ⟨"IMMER", 5, 8⟩,
  ⟨"VOLQU", 6, 1⟩, ⟨"TIMQU", 6, 2⟩, ⟨"LIUSA", 6, 3⟩, ⟨"TERMR", 6, 4⟩,
  ⟨"MONIT", 6, 5⟩, ⟨"ENVCL", 6, 6⟩, ⟨"MACAR", 6, 7⟩, ⟨"EVETH", 6, 8⟩,
  ⟨"EVEQU", 7, 1⟩, ⟨"TEBUR", 7, 2⟩, ⟨"IPMJL", 7, 3⟩, ⟨"QUVTI", 7, 4⟩,
  ⟨"EMRRE", 7, 5⟩, ⟨"UPINT", 7, 6⟩ ]

/-- §8.2.13 Volume Measurement, flag octet -/
def volumeMeasurement : List BitPos := [
  ⟨"TOVOL", 5, 1⟩, ⟨"ULVOL", 5, 2⟩, ⟨"DLVOL", 5, 3⟩,
  ⟨"TONOP", 5, 4⟩, ⟨"ULNOP", 5, 5⟩, ⟨"DLNOP", 5, 6⟩ ]

/-- the flag as the specification reads it from the IE's octets (absent octets read 0) -/
def BitPos.read (p : BitPos) (octets : List (BitVec 8)) : Bool :=
  (octets.getD (p.octet - 5) 0#8).getLsbD (p.bit - 1)

/-- position of the flag in the little-endian flag word the code keeps -/
def BitPos.index (p : BitPos) : Nat := 8 * (p.octet - 5) + (p.bit - 1)

/-- big-endian number of an octet string -/
def beNat (bs : List (BitVec 8)) : Nat := bs.foldl (fun acc b => acc * 256 + b.toNat) 0

/-- §8.2.13: after the flag octet come, in table order, 8-octet counters for exactly the flags
    that are set; `n` rows of the table remain, the next one is bit `i`. -/
def volDecodeFields (flags : BitVec 8) : Nat → Nat → List (BitVec 8) → Option (List (Option Nat))
  | _, 0, _ => some []
  | i, n + 1, rest =>
    if flags.getLsbD i then
      if rest.length < 8 then none
      else (volDecodeFields flags (i + 1) n (rest.drop 8)).map (some (beNat (rest.take 8)) :: ·)
    else (volDecodeFields flags (i + 1) n rest).map (none :: ·)

def volDecode (payload : List (BitVec 8)) : Option (BitVec 8 × List (Option Nat)) :=
  match payload with
  | [] => none
  | flags :: rest => (volDecodeFields flags 0 6 rest).map (flags, ·)

end UpfVerif.Spec
