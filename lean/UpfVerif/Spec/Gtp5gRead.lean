import UpfVerif.Wire.Netlink
/-
Spec: the gtp5g generic-netlink rule format, read the way the kernel module reads it — by attribute type, values in
host (little-endian) order, `nla_for_each` over repeated attributes — transcribed by hand from gtp5g's `include/genl_*.h`
and `src/genl/genl_{pdr,far,qer,urr,bar}.c`.  Nothing here mentions go-upf or go-gtp5gnl: the attribute numbers are
literals, and `Props/C02.lean` / `Props/C03.lean` prove that the constants the translation uses (regenerated from the
pinned go-gtp5gnl on every run) are these numbers.

A *view* is what the kernel ends up holding for a rule.  Readers work on attribute trees (`List Attr`);
`Lemmas/Netlink.lean` proves that the tree is recovered from the request bytes.
-/
namespace UpfVerif.Gtp5gRead
open UpfVerif.Netlink

/-! ### attribute numbers (gtp5g `genl_pdr.h`, `genl_far.h`, `genl_qer.h`, `genl_urr.h`, `genl_bar.h`, `genl.h`) -/
namespace A
def link : Nat := 1
-- PDR
def pdrId : Nat := 3
def pdrPrecedence : Nat := 4
def pdrPdi : Nat := 5
def pdrOhr : Nat := 6
def pdrFarId : Nat := 7
def pdrSockPath : Nat := 9
def pdrQerId : Nat := 10
def pdrSeid : Nat := 11
def pdrUrrId : Nat := 12
def pdiUeAddr : Nat := 1
def pdiFteid : Nat := 2
def pdiSdf : Nat := 3
def pdiSrcIntf : Nat := 4
def fteidTeid : Nat := 1
def fteidAddr : Nat := 2
def sdfFlowDesc : Nat := 1
def sdfFilterId : Nat := 5
def fdAction : Nat := 1
def fdDirection : Nat := 2
def fdProtocol : Nat := 3
def fdSrcIp : Nat := 4
def fdSrcMask : Nat := 5
def fdDstIp : Nat := 6
def fdDstMask : Nat := 7
def fdSrcPort : Nat := 8
def fdDstPort : Nat := 9
-- FAR
def farId : Nat := 3
def farApplyAction : Nat := 4
def farFwdParam : Nat := 5
def farSeid : Nat := 7
def farBarId : Nat := 8
def fpOhc : Nat := 1
def fpPolicy : Nat := 2
def fpSmReq : Nat := 3
def ohcDesc : Nat := 1
def ohcTeid : Nat := 2
def ohcPeer : Nat := 3
def ohcPort : Nat := 4
-- QER
def qerId : Nat := 3
def qerGate : Nat := 4
def qerMbr : Nat := 5
def qerGbr : Nat := 6
def qerCorrId : Nat := 7
def qerRqi : Nat := 8
def qerQfi : Nat := 9
def qerPpi : Nat := 10
def qerSeid : Nat := 13
def rateUlHigh : Nat := 1
def rateUlLow : Nat := 2
def rateDlHigh : Nat := 3
def rateDlLow : Nat := 4
-- URR
def urrId : Nat := 3
def urrMethod : Nat := 4
def urrTrigger : Nat := 5
def urrPeriod : Nat := 6
def urrInfo : Nat := 7
def urrSeid : Nat := 8
def urrVolThreshold : Nat := 9
def urrVolQuota : Nat := 10
def volFlag : Nat := 1
def volTotal : Nat := 2
def volUplink : Nat := 3
def volDownlink : Nat := 4
-- BAR
def barId : Nat := 3
def barDelay : Nat := 4
def barPktCount : Nat := 5
def barSeid : Nat := 6
end A

/-! commands (gtp5g `genl.h`) -/
namespace Cmd
def addPdr : Nat := 1
def addFar : Nat := 2
def addQer : Nat := 3
def addUrr : Nat := 10
def addBar : Nat := 11
end Cmd

/-! ### reading primitives -/

def leafOf (t : Nat) : Attr → Option Bytes
  | .leaf t' v => if t' = t then some v else none
  | .nest _ _ => none

def nestOf (t : Nat) : Attr → Option (List Attr)
  | .nest t' cs => if t' = t then some cs else none
  | .leaf _ _ => none

/-- all leaf attributes of type `t`, in order (`nla_for_each_attr`) -/
def leaves (as : List Attr) (t : Nat) : List Bytes := as.filterMap (leafOf t)
/-- all nested attributes of type `t`, in order -/
def nests (as : List Attr) (t : Nat) : List (List Attr) := as.filterMap (nestOf t)
/-- the attribute of type `t` (`info->attrs[t]`; for a repeated type we take the first) -/
def leaf1 (as : List Attr) (t : Nat) : Option Bytes := (leaves as t).head?
def nest1 (as : List Attr) (t : Nat) : Option (List Attr) := (nests as t).head?

def rd8 (b : Bytes) : Nat := (b.getD 0 0).toNat

/-- a `u32[]` payload as words -/
def words : Nat → Bytes → List Nat
  | 0, _ => []
  | n + 1, b => if b.length < 4 then [] else rd32 b :: words n (b.drop 4)

/-- NUL-terminated string payload -/
def cstr (b : Bytes) : Bytes := b.takeWhile (· ≠ 0#8)

/-! ### views -/

structure FlowView where
  action : Option Nat
  direction : Option Nat
  proto : Option Nat
  srcIp : Option Bytes
  srcMask : Option Bytes
  dstIp : Option Bytes
  dstMask : Option Bytes
  /-- port ranges `(low, high)`: each word is `low << 16 | high` -/
  srcPorts : List (Nat × Nat)
  dstPorts : List (Nat × Nat)
deriving DecidableEq, Repr

structure SdfView where
  fd : Option FlowView
  filterId : Option Nat
deriving DecidableEq, Repr

structure PdiView where
  srcIntf : Option Nat
  fteid : Option (Option Nat × Option Bytes)
  ueAddr : Option Bytes
  sdfs : List SdfView
deriving DecidableEq, Repr

structure PdrView where
  link : Option Nat
  seid : Option Nat
  id : Option Nat
  precedence : Option Nat
  ohr : Option Nat
  farId : Option Nat
  qerIds : List Nat
  urrIds : List Nat
  pdi : Option PdiView
deriving DecidableEq, Repr

def portRanges (b : Option Bytes) : List (Nat × Nat) :=
  match b with
  | none => []
  | some b => (words b.length b).map fun w => (w / 65536, w % 65536)

def readFlow (as : List Attr) : FlowView :=
  { action := (leaf1 as A.fdAction).map rd8, direction := (leaf1 as A.fdDirection).map rd8,
    proto := (leaf1 as A.fdProtocol).map rd8,
    srcIp := leaf1 as A.fdSrcIp, srcMask := leaf1 as A.fdSrcMask,
    dstIp := leaf1 as A.fdDstIp, dstMask := leaf1 as A.fdDstMask,
    srcPorts := portRanges (leaf1 as A.fdSrcPort), dstPorts := portRanges (leaf1 as A.fdDstPort) }

def readSdf (as : List Attr) : SdfView :=
  { fd := (nest1 as A.sdfFlowDesc).map readFlow, filterId := (leaf1 as A.sdfFilterId).map rd32 }

def readFteid (as : List Attr) : Option Nat × Option Bytes :=
  ((leaf1 as A.fteidTeid).map rd32, leaf1 as A.fteidAddr)

def readPdi (as : List Attr) : PdiView :=
  { srcIntf := (leaf1 as A.pdiSrcIntf).map rd8, fteid := (nest1 as A.pdiFteid).map readFteid,
    ueAddr := leaf1 as A.pdiUeAddr, sdfs := (nests as A.pdiSdf).map readSdf }

def readPdr (as : List Attr) : PdrView :=
  { link := (leaf1 as A.link).map rd32, seid := (leaf1 as A.pdrSeid).map rd64, id := (leaf1 as A.pdrId).map rd16,
    precedence := (leaf1 as A.pdrPrecedence).map rd32, ohr := (leaf1 as A.pdrOhr).map rd8,
    farId := (leaf1 as A.pdrFarId).map rd32,
    qerIds := (leaves as A.pdrQerId).map rd32, urrIds := (leaves as A.pdrUrrId).map rd32,
    pdi := (nest1 as A.pdrPdi).map readPdi }

structure OhcView where
  desc : Option Nat
  teid : Option Nat
  peer : Option Bytes
  port : Option Nat
deriving DecidableEq, Repr

structure FwdView where
  ohc : Option OhcView
  policy : Option Bytes
  smReq : Option Nat
deriving DecidableEq, Repr

structure FarView where
  link : Option Nat
  seid : Option Nat
  id : Option Nat
  applyAction : Option Nat
  fwd : Option FwdView
  barId : Option Nat
deriving DecidableEq, Repr

def readOhc (as : List Attr) : OhcView :=
  { desc := (leaf1 as A.ohcDesc).map rd16, teid := (leaf1 as A.ohcTeid).map rd32, peer := leaf1 as A.ohcPeer,
    port := (leaf1 as A.ohcPort).map rd16 }

def readFwd (as : List Attr) : FwdView :=
  { ohc := (nest1 as A.fpOhc).map readOhc, policy := (leaf1 as A.fpPolicy).map cstr, smReq := (leaf1 as A.fpSmReq).map rd8 }

def readFar (as : List Attr) : FarView :=
  { link := (leaf1 as A.link).map rd32, seid := (leaf1 as A.farSeid).map rd64, id := (leaf1 as A.farId).map rd32,
    applyAction := (leaf1 as A.farApplyAction).map rd16, fwd := (nest1 as A.farFwdParam).map readFwd,
    barId := (leaf1 as A.farBarId).map rd8 }

/-- a 40-bit rate as the kernel recombines it: `high32 << 8 | low8` -/
structure RateView where
  ul : Option Nat
  dl : Option Nat
deriving DecidableEq, Repr

def comb (hi lo : Option Bytes) : Option Nat :=
  match hi, lo with
  | some h, some l => some (rd32 h * 256 + rd8 l)
  | _, _ => none

def readRate (as : List Attr) : RateView :=
  { ul := comb (leaf1 as A.rateUlHigh) (leaf1 as A.rateUlLow), dl := comb (leaf1 as A.rateDlHigh) (leaf1 as A.rateDlLow) }

structure QerView where
  link : Option Nat
  seid : Option Nat
  id : Option Nat
  corrId : Option Nat
  gate : Option Nat
  mbr : Option RateView
  gbr : Option RateView
  qfi : Option Nat
  rqi : Option Nat
  ppi : Option Nat
deriving DecidableEq, Repr

def readQer (as : List Attr) : QerView :=
  { link := (leaf1 as A.link).map rd32, seid := (leaf1 as A.qerSeid).map rd64, id := (leaf1 as A.qerId).map rd32,
    corrId := (leaf1 as A.qerCorrId).map rd32, gate := (leaf1 as A.qerGate).map rd8,
    mbr := (nest1 as A.qerMbr).map readRate, gbr := (nest1 as A.qerGbr).map readRate,
    qfi := (leaf1 as A.qerQfi).map rd8, rqi := (leaf1 as A.qerRqi).map rd8, ppi := (leaf1 as A.qerPpi).map rd8 }

structure VolView where
  flag : Option Nat
  total : Option Nat
  uplink : Option Nat
  downlink : Option Nat
deriving DecidableEq, Repr

def readVol (as : List Attr) : VolView :=
  { flag := (leaf1 as A.volFlag).map rd8, total := (leaf1 as A.volTotal).map rd64,
    uplink := (leaf1 as A.volUplink).map rd64, downlink := (leaf1 as A.volDownlink).map rd64 }

structure UrrView where
  link : Option Nat
  seid : Option Nat
  id : Option Nat
  method : Option Nat
  trigger : Option Nat
  info : Option Nat
  threshold : Option VolView
  quota : Option VolView
deriving DecidableEq, Repr

def readUrr (as : List Attr) : UrrView :=
  { link := (leaf1 as A.link).map rd32, seid := (leaf1 as A.urrSeid).map rd64, id := (leaf1 as A.urrId).map rd32,
    method := (leaf1 as A.urrMethod).map rd8, trigger := (leaf1 as A.urrTrigger).map rd32,
    info := (leaf1 as A.urrInfo).map rd64,
    threshold := (nest1 as A.urrVolThreshold).map readVol, quota := (nest1 as A.urrVolQuota).map readVol }

structure BarView where
  link : Option Nat
  seid : Option Nat
  id : Option Nat
  delay : Option Nat
  pktCount : Option Nat
deriving DecidableEq, Repr

def readBar (as : List Attr) : BarView :=
  { link := (leaf1 as A.link).map rd32, seid := (leaf1 as A.barSeid).map rd64, id := (leaf1 as A.barId).map rd8,
    delay := (leaf1 as A.barDelay).map rd8, pktCount := (leaf1 as A.barPktCount).map rd16 }

end UpfVerif.Gtp5gRead
