import UpfVerif.Basic
/-
Independent reference decoder for GTPv1-U (TS 29.281 §5.1, §5.2) and the PDU Session
Container (TS 38.415 §5.5.2), written from the specifications, not from the encoder.
-/
namespace UpfVerif.GtpuRef

structure Ext where
  type    : Byte          -- extension header type
  content : Bytes         -- content octets (4·n − 2)
deriving Repr, DecidableEq

structure GPDU where
  version : Nat
  pt      : Bool
  e : Bool
  s : Bool
  pn : Bool
  msgType : Byte
  length  : Nat           -- the length field
  teid    : Nat
  exts    : List Ext
  payload : Bytes
deriving Repr, DecidableEq

def u16 (a b : Byte) : Nat := a.toNat * 256 + b.toNat
def u32 (a b c d : Byte) : Nat :=
  ((a.toNat * 256 + b.toNat) * 256 + c.toNat) * 256 + d.toNat

/-- extension header chain: `next` is the type announced by the previous header; each
    header is `len` (units of 4 octets, > 0), `4·len − 2` content octets, next type. -/
def exts : Nat → Byte → Bytes → Option (List Ext × Bytes)
  | 0, _, _ => none
  | fuel+1, next, bs =>
    if next == 0#8 then some ([], bs) else
    match bs with
    | [] => none
    | l :: rest =>
      if l == 0#8 then none else
      let n := 4 * l.toNat - 2
      if rest.length < n + 1 then none else
      let content := rest.take n
      match rest.drop n with
      | [] => none
      | nx :: rest' =>
        match exts fuel nx rest' with
        | none => none
        | some (es, pl) => some ({ type := next, content := content } :: es, pl)

def decode (bs : Bytes) : Option GPDU :=
  match bs with
  | f :: t :: l1 :: l0 :: t3 :: t2 :: t1 :: t0 :: rest =>
    let version := (f >>> 5).toNat
    let pt := f.getLsbD 4
    let e := f.getLsbD 2
    let s := f.getLsbD 1
    let pn := f.getLsbD 0
    let hdr (es : List Ext) (pl : Bytes) : GPDU :=
      { version, pt, e, s, pn, msgType := t, length := u16 l1 l0,
        teid := u32 t3 t2 t1 t0, exts := es, payload := pl }
    if e || s || pn then
      match rest with
      | _sq1 :: _sq0 :: _np :: nx :: rest' =>
        if e then
          match exts (rest'.length + 1) nx rest' with
          | none => none
          | some (es, pl) => some (hdr es pl)
        else some (hdr [] rest')
      | _ => none
    else some (hdr [] rest)
  | _ => none

/-- TS 38.415 §5.5.2.1/2: PDU type in the high nibble of the first content octet, QFI in
    the low six bits of the second. -/
structure PduSessInfo where
  pduType : Nat
  qfi : Nat
deriving Repr, DecidableEq

def pduSessInfo (e : Ext) : Option PduSessInfo :=
  if e.type != 0x85#8 then none else
  match e.content with
  | [c0, c1] => some { pduType := (c0 >>> 4).toNat, qfi := (c1 &&& 0x3f#8).toNat }
  | _ => none

/-- what C14 demands of a re-injected packet -/
def wellFormedGPDU (bs : Bytes) (teid : Nat) (q : Option (Nat × Nat)) (payload : Bytes) : Bool :=
  match decode bs with
  | none => false
  | some g =>
    g.version == 1 && g.pt && g.msgType == 255#8 && g.length + 8 == bs.length &&
    g.teid == teid && g.payload == payload &&
    (match q, g.exts with
     | none, [] => true
     | some (pt, qfi), [x] => pduSessInfo x == some { pduType := pt, qfi := qfi }
     | _, _ => false)

end UpfVerif.GtpuRef
