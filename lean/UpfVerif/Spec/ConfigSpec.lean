import UpfVerif.Model.Config
/-
Spec: which configuration documents the UPF may start with (property C20), written out field by field, with no
reference to struct tags: the supported version, a PFCP listen address and a node id that resolves, a retransmission
timeout, the gtp5g forwarder with at least one interface entry, every interface entry with a host address and a type of
N3 or N9, at least one DNN entry, every DNN entry with a name and a valid CIDR, a valid log level; and a file that
decodes at all.  Optional fields (description, maxRetrans, interface name / ifname / MTU, NAT interface, logger switches)
may be absent, zero or set.
-/
namespace UpfVerif.ConfigSpec
open UpfVerif.Config

def nonZero (v : FV) : Bool := v == .good || v == .bad

def acceptable (d : Doc) : Bool :=
  decodeOK d &&
  d.version == .good &&
  (match d.pfcp with
   | .present p => p.addr == .good && p.nodeID == .good && d.resolves && nonZero p.retrans
   | _ => false) &&
  (match d.gtpu with
   | .present g => g.forwarder == .good &&
     (match g.ifList with
      | .present l => !l.isEmpty && l.all fun e => e.addr == .good && e.type == .good
      | _ => false)
   | _ => false) &&
  (match d.dnnList with
   | .present l => !l.isEmpty && l.all fun e => nonZero e.dnn && e.cidr == .good
   | _ => false) &&
  (match d.logger with
   | .present l => l.level == .good
   | _ => false)

/-- 0.9.5 ≤ v < 0.10.0 for a version x.y.z -/
def versionAcceptable (x y z : Nat) : Prop := x = 0 ∧ y = 9 ∧ 5 ≤ z

end UpfVerif.ConfigSpec
