import UpfVerif.Gen.Conc
/-
Spec: the concurrency discipline of go-upf as decidable rules over the regenerated access facts (Gen/Conc.lean):
who may touch session / transaction state (C17), and the waits-for graph of blocking sends (C18).
Definitions only; the theorems that evaluate them are in Props/C17.lean and Props/C18.lean, and the driver evaluates the
same definitions at run time to name the offending access or edge.
-/
namespace UpfVerif.ConcRules
open UpfVerif.Gen.Conc

def loopRoot : String := "pfcp.PfcpServer.main"
def perioRoot : String := "perio.Server.Serve"

/-- the types that make up session and transaction state -/
def loopTypes : List String :=
  ["pfcp.PfcpServer", "pfcp.LocalNode", "pfcp.RemoteNode", "pfcp.Sess", "pfcp.PDRInfo", "pfcp.URRInfo",
   "pfcp.TxTransaction", "pfcp.RxTransaction"]

/-- the hand-over points: the only fields other goroutines use to influence the loop -/
def handover : List (String × String) :=
  [("pfcp.PfcpServer", "rcvCh"), ("pfcp.PfcpServer", "srCh"), ("pfcp.PfcpServer", "trToCh"), ("pfcp.PfcpServer", "done")]

def ctors : List String :=
  ["pfcp.NewPfcpServer", "pfcp.NewRemoteNode", "pfcp.NewTxTransaction", "pfcp.NewRxTransaction", "pfcp.LocalNode.NewSess",
   "pfcp.RemoteNode.NewSess", "perio.OpenServer"]

/-- explicit exceptions (root, type, field, kind), each with its reason:
    `conn` is written once by the loop before it starts the receiver (ordered by the `go` statement) and read by Stop —
    a Stop issued before the socket is bound finds nil and does nothing (start-up race, outside "a serving UPF");
    the periodic server's `handler` / `queryURR` are set once by `Handle` during start-up, before any URR can exist. -/
def exceptions : List (String × String × String × String) :=
  [("pfcp.PfcpServer.receiver", "pfcp.PfcpServer", "conn", "rd"),
   ("app.UpfApp.listenShutdownEvent", "pfcp.PfcpServer", "conn", "rd"),
   ("app.main", "perio.Server", "handler", "wr"),
   ("app.main", "perio.Server", "queryURR", "wr")]

def writtenOnlyInCtors (typ field : String) : Bool :=
  accesses.all fun b => !(b.typ == typ && b.field == field && b.kind == "wr") || ctors.contains b.fn

def okFor (owner : String) (types : List String) (hand : List (String × String)) (a : Access) : Bool :=
  !(types.contains a.typ) || !(a.kind == "rd" || a.kind == "wr") || a.root == owner || hand.contains (a.typ, a.field) ||
  (a.kind == "wr" && ctors.contains a.fn) ||
  (a.kind == "rd" && writtenOnlyInCtors a.typ a.field) ||
  exceptions.contains (a.root, a.typ, a.field, a.kind)

def loopQueues : List (String × String) := [("pfcp.PfcpServer", "srCh"), ("pfcp.PfcpServer", "trToCh")]

def isSend (k : String) : Bool := k == "send" || k == "selsend"
def isRecv (k : String) : Bool := k == "recv" || k == "selrecv"

/-- the function a root starts in: its own receive points (the loop's select, `range evtCh`, a ticker's select) are where
    it waits for WORK, not where it is blocked inside a turn -/
def ownBody (a : Access) : Bool := a.fn == a.root

/-- waits-for edges (waiting root, channel, root it waits for):
    a send on a bounded channel that a different root receives from; and a receive NESTED inside a turn (not the root's
    own receive point) on a channel that a different root sends on or closes -/
def blockingEdges : List (String × String × String) :=
  ((accesses.filter (fun a => isSend a.kind)).flatMap fun s =>
    ((accesses.filter fun r => isRecv r.kind && r.typ == s.typ && r.field == s.field && r.root != s.root).map
      fun r => (s.root, s.typ ++ "." ++ s.field, r.root)).eraseDups) ++
  ((accesses.filter (fun a => isRecv a.kind && !ownBody a)).flatMap fun r =>
    ((accesses.filter fun s => (isSend s.kind || s.kind == "close") && s.typ == r.typ && s.field == r.field && s.root != r.root).map
      fun s => (r.root, r.typ ++ "." ++ r.field, s.root)).eraseDups)

def edgeSet : List (String × String × String) := blockingEdges.eraseDups

def hasEdge (a c b : String) : Bool := edgeSet.contains (a, c, b)


/-- is `b` reachable from `a` along blocking edges (fuel = number of edges) -/
def reaches (fuel : Nat) (a b : String) : Bool :=
  match fuel with
  | 0 => a == b
  | fuel + 1 => a == b || (edgeSet.filter (·.1 == a)).any fun e => reaches fuel e.2.2 b

/-- blocking edges that lie on a cycle -/
def cycleEdges : List (String × String × String) := edgeSet.filter fun e => reaches edgeSet.length e.2.2 e.1

/-- accesses that break the ownership rule of the event loop / of the periodic server -/
def ownerViolations : List Access :=
  accesses.filter fun a => !(okFor loopRoot loopTypes handover a) ||
    !(okFor perioRoot ["perio.Server", "perio.PERIOGroup"]
        [("perio.Server", "evtCh"), ("perio.Server", "done"), ("perio.PERIOGroup", "stopCh")] a)

end UpfVerif.ConcRules
