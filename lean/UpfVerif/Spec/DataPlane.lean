import UpfVerif.Model.Core
/-
Spec.DataPlane — the reference data plane behind `forwarder.Driver`: a table keyed (SEID, kind, id).
A successful create inserts, a successful remove erases, everything else leaves the table as it is.
The fault model of C01's quantifier: create, update and query may fail anywhere (any answer stream);
a remove fails only *naturally*, i.e. when the rule is not in the table.
-/
namespace UpfVerif.Spec
open UpfVerif.Core

abbrev DP := List (Seid × Kind × Nat)

def key (c : DpCall) : Seid × Kind × Nat := (c.seid, c.kind, c.id)

def dpApply (dp : DP) (c : DpCall) (a : DpAns) : DP :=
  if !a.ok then dp else
  match c.op with
  | .create => if key c ∈ dp then dp else dp ++ [key c]
  | .remove => dp.filter (· != key c)
  | _ => dp

/-- the table after a list of outputs (datagrams do not touch it) -/
def dpRun : DP → List Out → DP
  | dp, [] => dp
  | dp, .dp c a :: rest => dpRun (dpApply dp c a) rest
  | dp, .send _ _ :: rest => dpRun dp rest

/-- the environment's answers respect the fault model: a failed remove means the rule was absent -/
def natural : DP → List Out → Prop
  | _, [] => True
  | dp, .dp c a :: rest => (c.op = .remove → a.ok = false → key c ∉ dp) ∧ natural (dpApply dp c a) rest
  | dp, .send _ _ :: rest => natural dp rest

instance decNatural : (dp : DP) → (l : List Out) → Decidable (natural dp l)
  | _, [] => isTrue trivial
  | dp, .dp c a :: rest =>
    have := decNatural (dpApply dp c a) rest
    show Decidable ((c.op = .remove → a.ok = false → key c ∉ dp) ∧ natural (dpApply dp c a) rest) from inferInstance
  | dp, .send _ _ :: rest => show Decidable (natural dp rest) from decNatural dp rest

theorem dpRun_append (dp : DP) (l1 l2 : List Out) : dpRun dp (l1 ++ l2) = dpRun (dpRun dp l1) l2 := by
  induction l1 generalizing dp with
  | nil => rfl
  | cons o l1 ih => cases o <;> simp [dpRun, ih]

theorem natural_append (dp : DP) (l1 l2 : List Out) :
    natural dp (l1 ++ l2) ↔ natural dp l1 ∧ natural (dpRun dp l1) l2 := by
  induction l1 generalizing dp with
  | nil => simp [natural, dpRun]
  | cons o l1 ih =>
    cases o with
    | dp c a => simp [natural, dpRun, ih, and_assoc]
    | send t m => simp [natural, dpRun, ih]

end UpfVerif.Spec
