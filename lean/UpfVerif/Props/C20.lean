import UpfVerif.Model.Config
import UpfVerif.Spec.ConfigSpec
/-
C20 — start-up accepts only a valid configuration and a compatible gtp5g.

`startup_iff_spec`: for EVERY configuration document (any number of interface and DNN entries, every class of every field),
the start-up checks as the code performs them — YAML decode, govalidator over the struct tags REGENERATED from /repo,
node-id resolution, NewDriver's pre-checks — accept exactly the documents `ConfigSpec.acceptable` lists.  The per-field
lemmas are evaluated by the kernel on the regenerated tag table, so weakening a tag (`required` → `optional`, dropping
`host`, `cidr` or an `in(…)` value list) breaks them.
`version_window`: for all naturals x y z, the gtp5g version check accepts x.y.z iff 0.9.5 ≤ x.y.z < 0.10.0, with the
bounds regenerated from the source.
-/
namespace UpfVerif.C20
open UpfVerif.Config UpfVerif.ConfigSpec UpfVerif.Gen

/-! ### the regenerated tags say what the property lists -/

theorem tag_version (v : FV) : fieldOK configFields "Config" "Version" v = (v == .good) := by cases v <;> decide
theorem tag_description (v : FV) : fieldOK configFields "Config" "Description" v = v.typed := by cases v <;> decide
theorem tag_pfcp_addr (v : FV) : fieldOK configFields "Pfcp" "Addr" v = (v == .good) := by cases v <;> decide
theorem tag_pfcp_nodeid (v : FV) : fieldOK configFields "Pfcp" "NodeID" v = (v == .good) := by cases v <;> decide
theorem tag_pfcp_retrans (v : FV) : fieldOK configFields "Pfcp" "RetransTimeout" v = nonZero v := by cases v <;> decide
theorem tag_pfcp_maxretrans (v : FV) : fieldOK configFields "Pfcp" "MaxRetrans" v = v.typed := by cases v <;> decide
theorem tag_gtpu_forwarder (v : FV) : fieldOK configFields "Gtpu" "Forwarder" v = (v == .good) := by cases v <;> decide
theorem tag_if_addr (v : FV) : fieldOK configFields "IfInfo" "Addr" v = (v == .good) := by cases v <;> decide
theorem tag_if_type (v : FV) : fieldOK configFields "IfInfo" "Type" v = (v == .good) := by cases v <;> decide
theorem tag_if_name (v : FV) : fieldOK configFields "IfInfo" "Name" v = v.typed := by cases v <;> decide
theorem tag_if_ifname (v : FV) : fieldOK configFields "IfInfo" "IfName" v = v.typed := by cases v <;> decide
theorem tag_if_mtu (v : FV) : fieldOK configFields "IfInfo" "MTU" v = v.typed := by cases v <;> decide
theorem tag_dnn_dnn (v : FV) : fieldOK configFields "DnnList" "Dnn" v = nonZero v := by cases v <;> decide
theorem tag_dnn_cidr (v : FV) : fieldOK configFields "DnnList" "Cidr" v = (v == .good) := by cases v <;> decide
theorem tag_dnn_natif (v : FV) : fieldOK configFields "DnnList" "NatIfName" v = v.typed := by cases v <;> decide
theorem tag_log_enable (v : FV) : fieldOK configFields "Logger" "Enable" v = v.typed := by cases v <;> decide
theorem tag_log_level (v : FV) : fieldOK configFields "Logger" "Level" v = (v == .good) := by cases v <;> decide
theorem tag_log_caller (v : FV) : fieldOK configFields "Logger" "ReportCaller" v = v.typed := by cases v <;> decide

/-- the value lists of the `in(…)` validators are the ones the property names -/
theorem tag_values :
    ((tagOf configFields "Config" "Version").map (·.inVals), (tagOf configFields "Gtpu" "Forwarder").map (·.inVals),
     (tagOf configFields "IfInfo" "Type").map (·.inVals), (tagOf configFields "Logger" "Level").map (·.inVals)) =
    (some ["1.0.3"], some ["gtp5g"], some ["N3", "N9"], some ["trace", "debug", "info", "warn", "error", "fatal", "panic"]) := by
  decide

theorem sec_required :
    ((tagOf configFields "Config" "Pfcp").map (·.required), (tagOf configFields "Config" "Gtpu").map (·.required),
     (tagOf configFields "Config" "DnnList").map (·.required), (tagOf configFields "Config" "Logger").map (·.required),
     (tagOf configFields "Gtpu" "IfList").map (·.required)) = (some true, some true, some true, some true, some false) := by
  decide

theorem ptr_required {α : Type} (s f : String) (inner : α → Bool) (x : Sec α)
    (h : (tagOf configFields s f).map (·.required) = some true) :
    ptrOK configFields s f inner x = (match x with | .present a => inner a | _ => false) := by
  cases x <;> simp only [ptrOK]
  all_goals (cases ht : tagOf configFields s f <;> simp [ht] at h ⊢ <;> simp [h])

theorem list_required {α : Type} (s f : String) (inner : α → Bool) (x : Sec (List α))
    (h : (tagOf configFields s f).map (·.required) = some true) :
    listOK configFields s f inner x = (match x with | .present l => !l.isEmpty && l.all inner | _ => false) := by
  cases x <;> simp only [listOK]
  case present l =>
    cases ht : tagOf configFields s f <;> simp [ht] at h ⊢
    cases l <;> simp [h]
  all_goals (cases ht : tagOf configFields s f <;> simp [ht] at h ⊢ <;> simp [h])

theorem list_optional {α : Type} (s f : String) (inner : α → Bool) (x : Sec (List α))
    (h : (tagOf configFields s f).map (·.required) = some false) :
    listOK configFields s f inner x = (match x with | .present l => l.all inner | .mistyped => false | _ => true) := by
  cases x <;> simp only [listOK]
  case present l =>
    cases ht : tagOf configFields s f <;> simp [ht] at h ⊢
    cases l <;> simp [h]
  all_goals (cases ht : tagOf configFields s f <;> simp [ht] at h ⊢ <;> simp [h])

theorem all_congr {α : Type} (f g : α → Bool) (l : List α) (h : ∀ x, f x = g x) : l.all f = l.all g := by
  have : f = g := funext h
  rw [this]

theorem all_and {α : Type} (f g : α → Bool) (l : List α) : (l.all fun e => f e && g e) = (l.all f && l.all g) := by
  induction l with
  | nil => rfl
  | cons x xs ih => simp only [List.all_cons, ih]; ac_rfl

/-- **every document: the code's start-up checks accept it iff the specification lists it** -/
theorem startup_iff_spec (d : Doc) : startupOK configFields d = acceptable d := by
  obtain ⟨version, description, pfcp, gtpu, dnnList, logger, resolves⟩ := d
  unfold startupOK readConfigOK validateOK acceptable driverPreOK
  have h1 := (congrArg (·.1) sec_required)
  have h2 := (congrArg (·.2.1) sec_required)
  have h3 := (congrArg (·.2.2.1) sec_required)
  have h4 := (congrArg (·.2.2.2.1) sec_required)
  have h5 := (congrArg (·.2.2.2.2) sec_required)
  simp only at h1 h2 h3 h4 h5
  rw [ptr_required "Config" "Pfcp" _ _ h1, ptr_required "Config" "Gtpu" _ _ h2, list_required "Config" "DnnList" _ _ h3,
    ptr_required "Config" "Logger" _ _ h4]
  simp only [tag_version, tag_description, tag_pfcp_addr, tag_pfcp_nodeid, tag_pfcp_retrans, tag_pfcp_maxretrans,
    tag_gtpu_forwarder, tag_if_addr, tag_if_type, tag_if_name, tag_if_ifname, tag_if_mtu, tag_dnn_dnn, tag_dnn_cidr,
    tag_dnn_natif, tag_log_enable, tag_log_level, tag_log_caller]
  cases pfcp <;> cases gtpu <;> cases dnnList <;> cases logger <;>
    simp only [decodeOK, Sec.typed, Bool.and_false, Bool.false_and, Bool.and_true, Bool.true_and]
  rename_i p g l lg
  obtain ⟨fw, ifl⟩ := g
  rw [list_optional "Gtpu" "IfList" _ _ h5]
  cases ifl <;> simp only [Sec.typed, Bool.and_false, Bool.false_and, Bool.and_true, Bool.true_and]
  rename_i il
  -- all sections present: both sides are conjunctions over the same atoms
  simp only [all_and]
  ac_rfl

/-- accepted only if: a rejected class anywhere (a missing required field, a violating value, a mistyped node, an
    unresolvable node id, no interface entry) means start-up fails — spelled out for the cases the property names -/
theorem rejects (d : Doc) (h : startupOK configFields d = true) :
    d.version = .good ∧ d.resolves = true ∧
    (∃ p, d.pfcp = .present p ∧ p.addr = .good ∧ p.nodeID = .good ∧ nonZero p.retrans = true) ∧
    (∃ g l, d.gtpu = .present g ∧ g.forwarder = .good ∧ g.ifList = .present l ∧ l ≠ [] ∧ ∀ e ∈ l, e.addr = .good ∧ e.type = .good) ∧
    (∃ l, d.dnnList = .present l ∧ l ≠ [] ∧ ∀ e ∈ l, nonZero e.dnn = true ∧ e.cidr = .good) ∧
    (∃ l, d.logger = .present l ∧ l.level = .good) := by
  rw [startup_iff_spec] at h
  obtain ⟨version, description, pfcp, gtpu, dnnList, logger, resolves⟩ := d
  unfold acceptable at h
  cases pfcp <;> cases gtpu <;> cases dnnList <;> cases logger <;> simp at h
  rename_i p g l lg
  obtain ⟨fw, ifl⟩ := g
  cases ifl <;> simp at h
  rename_i il
  obtain ⟨⟨⟨⟨⟨_, hv⟩, ⟨⟨hpa, hpn⟩, hres⟩, hpr⟩, hf, hine, hil⟩, hne, hl⟩, hlv⟩ := h
  exact ⟨hv, hres, ⟨p, rfl, hpa, hpn, hpr⟩, ⟨_, il, rfl, hf, rfl, hine, hil⟩, ⟨l, rfl, hne, hl⟩, ⟨lg, rfl, hlv⟩⟩

/-! ### gtp5g version window -/

theorem bounds : forwarder.expectedMinGtp5gVersion_segments = [0, 9, 5] ∧ forwarder.expectedMaxGtp5gVersion_segments = [0, 10, 0] := by
  decide

/-- **for all naturals x y z: the module version x.y.z is accepted iff 0.9.5 ≤ x.y.z < 0.10.0** -/
theorem version_window (x y z : Nat) :
    versionOK forwarder.expectedMinGtp5gVersion_segments forwarder.expectedMaxGtp5gVersion_segments [x, y, z] = true ↔
      versionAcceptable x y z := by
  rw [bounds.1, bounds.2]
  simp [versionOK, verLt, seg, versionAcceptable]
  omega

/-- a two-segment version x.y is x.y.0 -/
theorem version_two_segments (x y : Nat) :
    versionOK forwarder.expectedMinGtp5gVersion_segments forwarder.expectedMaxGtp5gVersion_segments [x, y] = false := by
  rw [bounds.1, bounds.2]
  simp [versionOK, verLt, seg]
  omega

/-! ### non-vacuity -/
def exGood : Doc :=
  { version := .good, description := .absent,
    pfcp := .present { addr := .good, nodeID := .good, retrans := .good, maxRetrans := .absent },
    gtpu := .present { forwarder := .good, ifList := .present [{ addr := .good, type := .good, name := .absent, ifname := .empty, mtu := .good }] },
    dnnList := .present [{ dnn := .good, cidr := .good, natif := .absent }, { dnn := .good, cidr := .good, natif := .good }],
    logger := .present { enable := .good, level := .good, reportCaller := .absent }, resolves := true }

example : startupOK configFields exGood = true := by decide
/-- one fault each: a DNN entry with a bad CIDR; an unresolvable node id; no interface entry; a mistyped timeout -/
example : startupOK configFields { exGood with dnnList := .present [{ dnn := .good, cidr := .bad, natif := .absent }] } = false := by decide
example : startupOK configFields { exGood with resolves := false } = false := by decide
example : startupOK configFields { exGood with gtpu := .present { forwarder := .good, ifList := .absent } } = false := by decide
example : startupOK configFields { exGood with pfcp := .present { addr := .good, nodeID := .good, retrans := .mistyped, maxRetrans := .absent } } = false := by decide
example : versionOK [0, 9, 5] [0, 10, 0] [0, 9, 5] = true ∧ versionOK [0, 9, 5] [0, 10, 0] [0, 9, 4] = false ∧
    versionOK [0, 9, 5] [0, 10, 0] [0, 10, 0] = false ∧ versionOK [0, 9, 5] [0, 10, 0] [0, 9, 4294967296] = true := by decide

end UpfVerif.C20
