/-
C08 — responses are correlated with their request and consistent with its effect.

Over `Core.step` for every reachable state, every request, every environment (driver answers, iteration order):
 * every datagram caused by a request goes to the address it came from and echoes its sequence number
   (first copies and retransmissions alike);
 * Modification/Deletion Responses carry the addressed session's control-plane SEID, or SEID 0 together with
   cause 'session context not found' when the header SEID resolves to no live session — and then nothing but the
   receive-transaction bookkeeping changes and no driver call is made;
 * a request that gets no answer for lack of Node ID / F-SEID / association changes nothing but that bookkeeping;
 * the Establishment Response returns a UP F-SEID that from then on resolves to the new session.
(The recovery time stamp is a field written once in `NewPfcpServer`; that no other write exists is a regenerated
 fact, `Gen.Conc`, used in C17.)
-/
import UpfVerif.Model.Core
import UpfVerif.Lemmas.CoreHandlers
import UpfVerif.Props.C04

namespace UpfVerif.C08
open UpfVerif.Core

/-- cached responses sit under the key of the request they answer -/
def RxInv (st : State) : Prop :=
  ∀ a q rx m, alGet st.rx (a, q) = some rx → rx.rsp = some m → m.seq = q

theorem rxInv_init : RxInv {} := by intro a q rx m h; simp [alGet] at h

/-- every datagram a request causes goes back to the requester with the request's sequence number -/
theorem rsp_addr_seq (st : State) (inv : RxInv st) (addr : String) (seq : BitVec 24) (r : Req) (env : Env) :
    ∀ to m, Out.send to m ∈ (step st (.request addr seq r) env).2 → to = addr ∧ m.seq = seq := by
  intro to m h
  unfold step at h
  simp only at h
  split at h
  · rename_i rx hrx
    split at h
    · rename_i m' hm'
      simp [Ctx.emit] at h
      obtain ⟨h1, h2⟩ := h
      exact ⟨h1, by rw [h2]; exact inv addr seq rx _ hrx hm'⟩
    · simp at h
  · obtain ⟨mid, ⟨l, el, dl⟩, hfin⟩ := handleReq_outs { st with rx := alSet st.rx (addr, seq) {} } addr seq r env { pending := env.pending }
    have hmid : ∀ to m, Out.send to m ∉ mid.outs := by
      intro to m hm
      rw [el] at hm
      simp at hm
      obtain ⟨cc, a, he⟩ := dl _ hm
      cases he
    rcases hfin with e | ⟨m', hm', e⟩
    · rw [e] at h; exact absurd h (hmid _ _)
    · rw [e] at h
      rcases List.mem_append.mp h with h | h
      · exact absurd h (hmid _ _)
      · simp at h
        obtain ⟨h1, h2⟩ := h
        exact ⟨h1, by rw [h2]; exact hm'⟩

/-- the invariant is kept by every event, so `rsp_addr_seq` applies in every reachable state -/
theorem rxInv_step (st : State) (inv : RxInv st) (e : Event) (env : Env) : RxInv (step st e env).1 := by
  have keep_del : ∀ k, RxInv { st with rx := alDel st.rx k } := by
    intro k a q rx m h hr
    by_cases hk : (a, q) = k
    · subst hk; simp at h
    · rw [alGet_alDel_other _ _ _ hk] at h
      exact inv a q rx m h hr
  cases e with
  | ignored => simpa [step] using inv
  | rxTimeout addr seq => simpa [step] using keep_del (addr, seq)
  | request addr seq r =>
    unfold step
    simp only
    split
    · split <;> simpa using inv
    · have hstep := handleReq_rx { st with rx := alSet st.rx (addr, seq) {} } addr seq r env { pending := env.pending }
      have inv1 : RxInv { st with rx := alSet st.rx (addr, seq) {} } := by
        intro a q rx m h hr
        by_cases hk : (a, q) = (addr, seq)
        · rw [hk] at h; simp at h; subst h; simp at hr
        · rw [alGet_alSet_other _ _ _ _ hk] at h
          exact inv a q rx m h hr
      intro a q rx m h hr
      rcases hstep with e | ⟨m', hm', e⟩
      · simp only at e; rw [e] at h; exact inv1 a q rx m h hr
      · simp only at e
        rw [e] at h
        by_cases hk : (a, q) = (addr, seq)
        · rw [hk] at h; simp at h; subst h; simp at hr; subst hr
          have := (Prod.mk.inj hk).2
          rw [this]; exact hm'
        · rw [alGet_alSet_other _ _ _ _ hk] at h
          exact inv1 a q rx m h hr
  | srResponse addr seq seid =>
    unfold step
    simp only
    split
    · simpa using inv
    · rename_i tx _
      split
      · split
        · intro a q rx m h hr; exact inv a q rx m h hr
        · rename_i s _
          have hd := deleteSess_same { st with tx := alDel st.tx (addr, seq) } s.rnode s.localID env { pending := env.pending }
          generalize State.deleteSess { st with tx := alDel st.tx (addr, seq) } s.rnode s.localID env { pending := env.pending } = R at hd
          obtain ⟨st2, c2, s2, rs2⟩ := R
          intro a q rx m h hr
          simp only at h
          rw [hd.1] at h
          exact inv a q rx m h hr
      · intro a q rx m h hr; exact inv a q rx m h hr
  | otherResponse addr seq =>
    unfold step
    simp only
    split <;> (intro a q rx m h hr; exact inv a q rx m h hr)
  | txTimeout addr seq =>
    unfold step
    simp only
    split
    · simpa using inv
    · split <;> (intro a q rx m h hr; exact inv a q rx m h hr)
  | report x items =>
    -- ServeReport only uses sendReqTo, which does not touch the receive transactions
    intro a q rx m h hr
    have : (step st (.report x items) env).1.rx = st.rx := by
      simp only [step]
      exact serveReport_rx st x items _
    rw [this] at h
    exact inv a q rx m h hr


/-- every reachable state (any history, any environment) satisfies the invariant -/
theorem rxInv_run (h : List (Event × Env)) :
    RxInv (h.foldl (fun st (p : Event × Env) => (step st p.1 p.2).1) {}) := by
  suffices ∀ st, RxInv st → RxInv (h.foldl (fun st (p : Event × Env) => (step st p.1 p.2).1) st) from this {} rxInv_init
  induction h with
  | nil => intro st inv; simpa using inv
  | cons p h ih => intro st inv; simp only [List.foldl_cons]; exact ih _ (rxInv_step st inv p.1 p.2)

/-! ### session-level responses: SEID and cause -/

/-- the Modification Response carries the peer's SEID for the session, or 0 with cause 65 on a miss -/
theorem mod_rsp_seid (st : State) (addr : String) (seq : BitVec 24) (r : ModReq) (env : Env) (m : Msg)
    (h : Out.send addr m ∈ (handleMod st addr seq r env { pending := env.pending }).2.outs) :
    m.kind = .modRsp ∧ m.seq = seq ∧
    (match st.lnode.lookup r.seid with
     | none => m.seid = some 0 ∧ m.cause = some causeNoContext
     | some s0 => m.seid = some s0.remoteID ∧ m.cause = some causeAccepted) :=
  handleMod_rsp st addr seq r env _ m h (by intro to m' hm; simp at hm)

/-- a miss leaves no trace: no driver call, and session table, nodes, node map and transmit transactions are
    unchanged (only the receive transaction of the request itself records the answer) -/
theorem mod_miss_no_trace (st : State) (addr : String) (seq : BitVec 24) (r : ModReq) (env : Env) (c : Ctx)
    (h : st.lnode.lookup r.seid = none) :
    let res := handleMod st addr seq r env c
    res.1.lnode = st.lnode ∧ res.1.nodes = st.nodes ∧ res.1.rnodes = st.rnodes ∧ res.1.tx = st.tx ∧
    (∀ o ∈ res.2.outs, o ∈ c.outs ∨ ∃ m, o = Out.send addr m) := by
  simp only [handleMod, h]
  have sp := sendRsp_spec st addr { kind := .modRsp, seq := seq, seid := some 0, cause := some causeNoContext } c
  refine ⟨sp.2.1, sp.2.2.1, sp.2.2.2.1, sp.2.2.2.2.1, ?_⟩
  intro o ho
  rcases sp.1 with e | e
  · rw [e] at ho; exact Or.inl ho
  · rw [e] at ho
    rcases List.mem_append.mp ho with ho | ho
    · exact Or.inl ho
    · simp at ho; exact Or.inr ⟨_, ho⟩

theorem del_miss_no_trace (st : State) (addr : String) (seq : BitVec 24) (x : Seid) (env : Env) (c : Ctx)
    (h : st.lnode.lookup x = none) :
    let res := handleDel st addr seq x env c
    res.1.lnode = st.lnode ∧ res.1.nodes = st.nodes ∧ res.1.rnodes = st.rnodes ∧ res.1.tx = st.tx ∧
    (∀ o ∈ res.2.outs, o ∈ c.outs ∨ ∃ m, o = Out.send addr m ∧ m.seid = some 0 ∧ m.cause = some causeNoContext) := by
  simp only [handleDel, h]
  have sp := sendRsp_spec st addr { kind := .delRsp, seq := seq, seid := some 0, cause := some causeNoContext, rtype := some 2 } c
  refine ⟨sp.2.1, sp.2.2.1, sp.2.2.2.1, sp.2.2.2.2.1, ?_⟩
  intro o ho
  rcases sp.1 with e | e
  · rw [e] at ho; exact Or.inl ho
  · rw [e] at ho
    rcases List.mem_append.mp ho with ho | ho
    · exact Or.inl ho
    · simp at ho; exact Or.inr ⟨_, ho, rfl, rfl⟩

/-- an Establishment Request that is not answered — no Node ID, unknown node, no CP F-SEID — changes nothing -/
theorem est_unanswered_no_trace (st : State) (addr : String) (seq : BitVec 24) (r : EstReq) (env : Env) (c : Ctx)
    (h : r.nodeID = none ∨ (∃ n, r.nodeID = some n ∧ st.nodeOf n = none) ∨ r.cpSeid = none) :
    handleEst st addr seq r env c = (st, c) := by
  unfold handleEst
  rcases h with h | ⟨n, hn, hno⟩ | h
  · simp [h]
  · simp [hn, hno]
  · cases hn : r.nodeID with
    | none => simp
    | some n =>
      cases hno : st.nodeOf n with
      | none => simp [hno]
      | some hd => simp [h, hno]

/-- an Association Setup Request without Node ID changes nothing -/
theorem assoc_unanswered_no_trace (st : State) (addr : String) (seq : BitVec 24) (env : Env) (c : Ctx) :
    handleAssoc st addr seq none env c = (st, c) := by simp [handleAssoc]

/-- **a first copy of a Heartbeat Request is always answered**, to the sender, with its sequence number -/
theorem hb_answered (st : State) (addr : String) (seq : BitVec 24) (env : Env) (h : alGet st.rx (addr, seq) = none) :
    (step st (.request addr seq .heartbeat) env).2 = [Out.send addr { kind := .hbRsp, seq := seq, recov := true }] := by
  unfold step
  simp only [h, handleReq, State.sendRsp]
  simp [Ctx.emit]

/-- **a first copy of an Association Setup Request that names its node is always answered** — whatever the node's
    history (first association, re-association of a node with sessions, any driver answers while they are withdrawn):
    the last output is the accepting response to the sender, with its sequence number, node id and recovery time stamp -/
theorem assoc_answered (st : State) (addr : String) (seq : BitVec 24) (nid : NodeId) (env : Env)
    (h : alGet st.rx (addr, seq) = none) :
    (step st (.request addr seq (.assoc (some nid))) env).2.getLast? =
      some (Out.send addr { kind := .assocRsp, seq := seq, cause := some causeAccepted, nodeID := true, recov := true }) := by
  unfold step
  simp only [h, handleReq, handleAssoc]
  -- the state just before the response still holds the receive transaction created for this request
  have key : ∀ (st2 : State) (c1 : Ctx), alGet st2.rx (addr, seq) = some {} →
      (st2.sendRsp addr { kind := .assocRsp, seq := seq, cause := some causeAccepted, nodeID := true, recov := true } c1).2.outs.getLast? =
        some (Out.send addr { kind := .assocRsp, seq := seq, cause := some causeAccepted, nodeID := true, recov := true }) := by
    intro st2 c1 hrx
    simp [State.sendRsp, hrx, Ctx.emit]
  have hrx0 : alGet (alSet st.rx (addr, seq) ({} : Rx)) (addr, seq) = some {} := alGet_alSet_self _ _ _
  cases hn : ({ st with rx := alSet st.rx (addr, seq) {} } : State).nodeOf nid with
  | none =>
    simp only []
    exact key _ _ hrx0
  | some hd =>
    simp only []
    have hs := (resetNode_same ({ st with rx := alSet st.rx (addr, seq) {} } : State) hd env { pending := env.pending }).1
    apply key
    show alGet (({ st with rx := alSet st.rx (addr, seq) {} } : State).resetNode hd env { pending := env.pending }).1.rx (addr, seq) = some {}
    rw [hs]; exact hrx0

/-- an accepted establishment returns a UP F-SEID that from then on addresses the new session, which carries
    the control-plane SEID the peer chose (uses the table invariant of C04) -/
theorem est_fseid_resolves (st : State) (wf : C04.TableWF st.lnode) (hroom : st.lnode.sess.length + 1 < 2 ^ 64)
    (addr : String) (seq : BitVec 24) (r : EstReq) (env : Env) (c : Ctx) (n : NodeId) (h : Nat) (cp : Seid)
    (hn : r.nodeID = some n) (hno : st.nodeOf n = some h) (hcp : r.cpSeid = some cp) :
    let up := (st.lnode.newSess h cp).2.localID
    up ≠ 0 ∧ st.lnode.lookup up = none ∧
    ∃ s, (handleEst st addr seq r env c).1.lnode.lookup up = some s ∧ s.localID = up ∧ s.remoteID = cp := by
  have spec := C04.newSess_spec st.lnode wf h cp hroom
  obtain ⟨wf', hne, hfresh, hhit, hrem, _⟩ := spec
  refine ⟨hne, hfresh, ?_⟩
  unfold handleEst
  simp only [hn, hno, hcp]
  generalize hN : st.lnode.newSess h cp = N at hne hfresh hhit hrem wf'
  obtain ⟨ln, s0⟩ := N
  simp only [] at hne hfresh hhit hrem wf' ⊢
  have hk := runStages_keeps (estStages r) (estStages_keep r) s0 c []
  generalize runStages (estStages r) s0 c [] = R at hk
  obtain ⟨s5, c5, u5⟩ := R
  simp only [] at hk ⊢
  obtain ⟨hid, hrid, _, _⟩ := hk
  refine ⟨s5, ?_, hid, by rw [hrid, hrem]⟩
  rw [(sendRsp_spec _ addr _ c5).2.1]
  -- the session table after `setSess s5`
  show (LNode.setSess ln s5).lookup s0.localID = some s5
  have hle : s0.localID.toNat ≤ ln.sess.length := by
    by_cases hb : s0.localID.toNat > ln.sess.length
    · rw [C04.lookup_beyond ln _ hb] at hhit; cases hhit
    · omega
  have hp := C04.toNat_pos_of_ne_zero s0.localID hne
  unfold LNode.setSess
  rw [hid]
  rw [C04.lookup_eq_slot _ s0.localID hne (by simpa using hle)]
  exact C04.slot_set_eq _ _ _ _ (by omega)

/-! ### non-vacuity: a concrete exchange -/
example :
    let st0 : State := {}
    let (st1, o1) := step st0 (.request "p1" 1 (.assoc (some (.v4 "p1")))) {}
    let (st2, o2) := step st1 (.request "p1" 2 (.est { nodeID := some (.v4 "p1"), cpSeid := some 0x77#64 })) {}
    let (_, o3) := step st2 (.request "p2" 2 (.mod { seid := 5 })) {}
    o1.length = 1 ∧
    o2 = [Out.send "p1" { kind := .estRsp, seq := 2, seid := some 0x77#64, cause := some 1, nodeID := true, fseid := some 1#64 }] ∧
    o3 = [Out.send "p2" { kind := .modRsp, seq := 2, seid := some 0#64, cause := some 65 }] := by decide

/-! ### the Session Establishment Response names the PDRs it created -/

/-- the list of Created PDR IEs: one per PDR of the request that carries a UE IP address — its id and that address — in request
    order.  It is a function of the request's content alone: the order of the children INSIDE a Create PDR IE (PDR ID before
    or after the PDI) does not enter (the model works on the decoded IE; that the real handler reads the id wherever it sits
    is what the `/L` Create PDRs of the ctl stream observe) -/
def expectedCreated (r : EstReq) : List (Nat × Bytes) := r.pdr.filterMap fun ie => ie.ueip.map fun ip => (ie.id.getD 0, ip)

/-- an accepted establishment (known node, F-SEID present, the request's receive transaction in place) is answered with
    exactly that list, the new session's SEID and cause "accepted" -/
theorem est_created_exact (st : State) (addr : String) (seq : BitVec 24) (r : EstReq) (env : Env) (c : Ctx)
    (nid : NodeId) (h : Nat) (cp : Seid) (rx : Rx)
    (hn : r.nodeID = some nid) (hh : st.nodeOf nid = some h) (hc : r.cpSeid = some cp)
    (hrx : alGet st.rx (addr, seq) = some rx) :
    ∃ m, (handleEst st addr seq r env c).2.outs.getLast? = some (Out.send addr m) ∧
      m.kind = .estRsp ∧ m.seq = seq ∧ m.cause = some causeAccepted ∧ m.created = expectedCreated r ∧
      m.fseid = some (st.lnode.newSess h cp).2.localID := by
  unfold handleEst
  simp only [hn, hh, hc]
  generalize st.lnode.newSess h cp = N
  obtain ⟨ln, s0⟩ := N
  simp only []
  have hk := runStages_keeps (estStages r) (estStages_keep r) s0 c []
  generalize runStages (estStages r) s0 c [] = R at hk
  obtain ⟨s5, c5, u5⟩ := R
  simp only [] at hk ⊢
  unfold State.sendRsp
  have hrx' : alGet ((({ st with lnode := ln } : State).modNode h fun n => { n with sess := setIns n.sess s0.localID }).setSess s5).rx (addr, seq) = some rx := hrx
  simp only [hrx']
  refine ⟨{ kind := .estRsp, seq := seq, seid := some s5.remoteID, cause := some causeAccepted, nodeID := true,
            fseid := some s5.localID, created := expectedCreated r }, ?_, rfl, rfl, rfl, rfl, ?_⟩
  · simp [Ctx.emit, expectedCreated]
  · exact congrArg some hk.1

end UpfVerif.C08
