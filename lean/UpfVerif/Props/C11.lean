/-
C11 — UR-SEQN counts each URR's reports 0, 1, 2, … without gap or repeat.

All three carriers (Session Report Request, Modification Response, Deletion Response) go through one emission
loop (`Core.emitUsars` / `Core.emitOne`; session.go:311-327, 375-393; report.go:108-120).  Proved, for every
session state, every batch of reports, every URR:
 * `emit_known`: a usage-report IE carries exactly the URR's counter at the moment it is emitted, and the counter
   is then incremented by one — or the entry disappears when the URR had been removed (response carriers);
 * `emit_unknown`: a report for a URR the session does not know emits nothing and changes nothing;
 * `batch_consecutive`: within one batch the IEs of a URR carry n, n+1, …, n+k-1 in emission order, and the
   counter ends at n+k;
 * `other_urr_untouched`: emitting for one URR does not move the counter of another;
 * `create_resets`: a (re-)created URR starts at 0;
 * the other `Sess` methods do not touch the counter (`bump_keeps_seqn`, `update_keeps_seqn`);
 * `numbering_history` (the lifetime theorem): for EVERY history that mixes batches of reports on any of the carriers with
   Create / Update / Remove / Query URR and Create / Update / Remove PDR operations — any driver answers, any iteration
   order — as long as URR `u` itself is neither re-created nor removed, the UR-SEQN values emitted for `u`, in emission
   order over the whole history, are n, n+1, n+2, … (n its counter at the start, 0 after creation), one per report.
The uint32 wrap-around after 2^32 reports of one URR is outside the statement (the counter is a natural number).
-/
import UpfVerif.Model.Core
import UpfVerif.Lemmas.Core
import UpfVerif.Lemmas.CoreDP
import UpfVerif.Lemmas.CoreSeq

namespace UpfVerif.C11
open UpfVerif.Core

theorem emit_unknown (s : Sess) (r : Report) (x : BitVec 32) (b : Bool) (h : alGet s.urrs r.urr = none) :
    emitOne s r x b = (s, none) := by simp [emitOne, h]

/-- the IE takes the counter; the counter moves on by exactly one (or the removed URR's entry is dropped) -/
theorem emit_known (s : Sess) (r : Report) (x : BitVec 32) (b : Bool) (info : URRInfo) (h : alGet s.urrs r.urr = some info) :
    ∃ ie, (emitOne s r x b).2 = some ie ∧ ie.urr = r.urr ∧ ie.seqn = info.seqn ∧
      (if b && info.removed then alGet (emitOne s r x b).1.urrs r.urr = none
       else alGet (emitOne s r x b).1.urrs r.urr = some { info with seqn := info.seqn + 1 }) := by
  unfold emitOne
  simp only [h]
  refine ⟨_, rfl, rfl, rfl, ?_⟩
  split <;> simp

/-- emitting for one URR leaves every other URR's bookkeeping exactly as it was -/
theorem other_urr_untouched (s : Sess) (r : Report) (x : BitVec 32) (b : Bool) (u : Nat) (hu : u ≠ r.urr) :
    alGet (emitOne s r x b).1.urrs u = alGet s.urrs u := by
  unfold emitOne
  split
  · rfl
  · simp only []
    split
    · exact alGet_alDel_other _ _ _ hu
    · exact alGet_alSet_other _ _ _ _ hu

/-- number of reports for URR `u` in a batch -/
def countFor (u : Nat) (rs : List Report) : Nat := (rs.filter (·.urr == u)).length

/-- UR-SEQN values emitted for URR `u` in a batch, in emission order -/
def seqnsFor (u : Nat) (ies : List UsarIE) : List Nat := (ies.filter (·.urr == u)).map (·.seqn)

/-- within a batch: consecutive numbers from the counter's value, and the counter ends `count` further
    (for a URR that is not dropped on the way: not removed, or a Session Report Request) -/
theorem batch_consecutive (rs : List Report) (x : BitVec 32) (b : Bool) (u : Nat) :
    ∀ (s : Sess) (info : URRInfo), alGet s.urrs u = some info → (b && info.removed) = false →
      seqnsFor u (emitUsars s rs x b).2 = List.range' info.seqn (countFor u rs) ∧
      alGet (emitUsars s rs x b).1.urrs u = some { info with seqn := info.seqn + countFor u rs } := by
  induction rs with
  | nil => intro s info h _; simp [emitUsars, seqnsFor, countFor, h]
  | cons r rs ih =>
    intro s info h hb
    unfold emitUsars
    by_cases hr : r.urr = u
    · subst hr
      obtain ⟨ie, hie, hiu, hseq, hnext⟩ := emit_known s r x b info h
      simp only [hb, Bool.false_eq_true, if_false] at hnext
      have := ih (emitOne s r x b).1 { info with seqn := info.seqn + 1 } hnext hb
      simp only [seqnsFor, countFor] at this ⊢
      simp only [hie, Option.toList_some, List.singleton_append, List.filter_cons, hiu, beq_self_eq_true, if_true,
        List.map_cons, hseq, List.length_cons, this.1, List.range'_succ]
      refine ⟨trivial, ?_⟩
      rw [this.2]
      have e : info.seqn + 1 + (List.filter (fun x => x.urr == r.urr) rs).length
          = info.seqn + ((List.filter (fun x => x.urr == r.urr) rs).length + 1) := by omega
      rw [e]
    · have hne : u ≠ r.urr := fun hc => hr hc.symm
      have hsame := other_urr_untouched s r x b u hne
      have := ih (emitOne s r x b).1 info (by rw [hsame]; exact h) hb
      have hfil : ∀ (o : Option UsarIE), (∀ ie, o = some ie → ie.urr = r.urr) →
          (o.toList.filter (·.urr == u)) = [] := by
        intro o ho
        cases o with
        | none => rfl
        | some ie => simp [ho ie rfl, hr]
      have ho : ∀ ie, (emitOne s r x b).2 = some ie → ie.urr = r.urr := by
        intro ie hie
        unfold emitOne at hie
        split at hie
        · cases hie
        · simp at hie; rw [← hie]
      have hcf : countFor u (r :: rs) = countFor u rs := by
        simp [countFor, List.filter_cons, hr]
      simp only [seqnsFor] at this ⊢
      rw [hcf, List.filter_append, hfil _ ho]
      simpa using this

/-- a (re-)created URR starts at UR-SEQN 0, whatever was recorded under that id before -/
theorem create_resets (s : Sess) (ie : RuleIE) (c : Ctx) (id : Nat) (hid : ie.id = some id) :
    (alGet (s.createURR ie c).1.urrs id).map (·.seqn) = some 0 := by
  simp [Sess.createURR, hid]

/-- reference counting, method updates and removal marks do not touch the counter -/
theorem bump_keeps_seqn (us : List (Nat × URRInfo)) (u i : Nat) :
    (alGet (bumpRef us u) i).map (·.seqn) = (alGet us i).map (·.seqn) := by
  unfold bumpRef
  rw [alGet_map us (fun k v => if k == u then { v with refPdrNum := v.refPdrNum + 1 } else v) i]
  cases alGet us i with
  | none => rfl
  | some v => simp only [Option.map_some]; split <;> rfl

theorem update_keeps_seqn (info : URRInfo) (ie : RuleIE) : (info.applyUpdate ie).seqn = info.seqn := by
  unfold URRInfo.applyUpdate
  cases ie.mnop <;> cases ie.meth <;> rfl

/-! ### the whole lifetime -/

/-- a step of a session's history: a rule operation, or a batch of usage reports emitted on a carrier
    (`resp = false`: Session Report Request; `true`: Modification / Deletion Response) -/
inductive HOp
  | rule (op : SOp)
  | emit (rs : List Report) (extra : BitVec 32) (resp : Bool)

def hrun : Sess → Ctx → List HOp → Sess × Ctx × List UsarIE
  | s, c, [] => (s, c, [])
  | s, c, .rule op :: ops => hrun (op.apply s c).1 (op.apply s c).2 ops
  | s, c, .emit rs x b :: ops =>
    ((hrun (emitUsars s rs x b).1 c ops).1, (hrun (emitUsars s rs x b).1 c ops).2.1,
     (emitUsars s rs x b).2 ++ (hrun (emitUsars s rs x b).1 c ops).2.2)

/-- reports for URR `u` in the batches of a history -/
def reportsFor (u : Nat) : List HOp → Nat
  | [] => 0
  | .rule _ :: ops => reportsFor u ops
  | .emit rs _ _ :: ops => countFor u rs + reportsFor u ops

/-- URR `u` is neither (re-)created nor removed in the history -/
def Untouched (u : Nat) : List HOp → Prop
  | [] => True
  | .rule op :: ops => op.touches u = false ∧ Untouched u ops
  | .emit _ _ _ :: ops => Untouched u ops

def decUntouched (u : Nat) : (ops : List HOp) → Decidable (Untouched u ops)
  | [] => isTrue trivial
  | .rule op :: ops =>
    match (inferInstance : Decidable (op.touches u = false)), decUntouched u ops with
    | isTrue h1, isTrue h2 => isTrue ⟨h1, h2⟩
    | isFalse h1, _ => isFalse fun h => h1 h.1
    | _, isFalse h2 => isFalse fun h => h2 h.2
  | .emit _ _ _ :: ops => decUntouched u ops

instance (u : Nat) (ops : List HOp) : Decidable (Untouched u ops) := decUntouched u ops

theorem seqnsFor_append (u : Nat) (a b : List UsarIE) : seqnsFor u (a ++ b) = seqnsFor u a ++ seqnsFor u b := by
  simp [seqnsFor, List.filter_append]

/-- **UR-SEQN over the lifetime of a URR**: 0, 1, 2, … in emission order, no gap, no repeat, whatever else happens to
    the session in between -/
theorem numbering_history (u : Nat) (ops : List HOp) : ∀ (s : Sess) (c : Ctx) (n : Nat),
    numOf s.urrs u = some (n, false) → Untouched u ops →
    seqnsFor u (hrun s c ops).2.2 = List.range' n (reportsFor u ops) ∧
    numOf (hrun s c ops).1.urrs u = some (n + reportsFor u ops, false) := by
  induction ops with
  | nil => intro s c n h _; simp [hrun, reportsFor, seqnsFor, h]
  | cons op ops ih =>
    intro s c n h hu
    cases op with
    | rule o =>
      simp only [hrun, reportsFor]
      exact ih _ _ n (by rw [apply_num s c o u hu.1]; exact h) hu.2
    | emit rs x b =>
      simp only [hrun, reportsFor]
      -- the URR's entry
      obtain ⟨info, hg, hn, hr⟩ : ∃ info, alGet s.urrs u = some info ∧ info.seqn = n ∧ info.removed = false := by
        unfold numOf at h
        cases hg : alGet s.urrs u with
        | none => rw [hg] at h; simp at h
        | some info =>
          rw [hg] at h
          simp only [Option.map_some, Option.some.injEq, Prod.mk.injEq] at h
          exact ⟨info, rfl, h.1, h.2⟩
      have hb : (b && info.removed) = false := by simp [hr]
      obtain ⟨b1, b2⟩ := batch_consecutive rs x b u s info hg hb
      have hnum : numOf (emitUsars s rs x b).1.urrs u = some (n + countFor u rs, false) := by
        simp [numOf, b2, hn, hr]
      obtain ⟨i1, i2⟩ := ih (emitUsars s rs x b).1 c (n + countFor u rs) hnum hu
      constructor
      · rw [seqnsFor_append, b1, i1, hn]
        rw [← List.range'_append]
        simp
      · rw [i2]; simp [Nat.add_assoc]

/-- non-vacuity: URR 7 created, a report, a PDR naming it created, two reports in a response, its method updated, another
    URR removed, one more report: 0, 1, 2, 3 -/
example :
    let ok : DpCall × DpAns := (default, { ok := true })
    let c0 : Ctx := { pending := List.replicate 8 ok }
    let s0 : Sess := { rnode := 0, localID := 5, remoteID := 9 }
    let (s1, c1) := s0.createURR { id := some 7, meth := some (false, true) } c0
    let rep : Report := { urr := 7, trig := 2, meas := [] }
    let ops := [HOp.emit [rep] 0 false, .rule (.createPDR { id := some 1, urrs := [7] }), .emit [rep, { rep with urr := 8 }, rep] 0 true,
                .rule (.updateURR { id := some 7, meth := some (true, true) }), .rule (.removeURR { id := some 8 }), .emit [rep] 0 false]
    Untouched 7 ops ∧ seqnsFor 7 (hrun s1 c1 ops).2.2 = [0, 1, 2, 3] := by
  decide

/-! ### non-vacuity: three reports for URR 7 interleaved with one for URR 8, counter at 4 -/
example :
    let s : Sess := { rnode := 0, localID := 1, remoteID := 2,
                      urrs := [(7, { seqn := 4, volum := true }), (8, { seqn := 0 })] }
    let rs : List Report := [{ urr := 7, trig := 2, meas := [] }, { urr := 8, trig := 2, meas := [] },
                             { urr := 9, trig := 2, meas := [] }, { urr := 7, trig := 2, meas := [] },
                             { urr := 7, trig := 2, meas := [] }]
    seqnsFor 7 (emitUsars s rs 0 false).2 = [4, 5, 6] ∧ seqnsFor 8 (emitUsars s rs 0 false).2 = [0] ∧
    seqnsFor 9 (emitUsars s rs 0 false).2 = [] := by decide

/-- a retransmission timer expiring — a retry, or the last one, after which the request is given up — changes nothing in any
    session: in particular no UR-SEQN counter is rewound because a report was (perhaps) not delivered; the number that went out
    on the wire stays used -/
theorem timeout_keeps_numbering (st : State) (addr : String) (seq : BitVec 24) (env : Env) :
    (step st (.txTimeout addr seq) env).1.lnode = st.lnode ∧ (step st (.rxTimeout addr seq) env).1.lnode = st.lnode := by
  constructor
  · simp only [step]
    split
    · rfl
    · split <;> rfl
  · simp [step]

end UpfVerif.C11
