/-
C11 — UR-SEQN counts each URR's reports 0, 1, 2, … without gap or repeat.

All three carriers (Session Report Request, Modification Response, Deletion Response) go through one emission
loop (`Core.emitUsars` / `Core.emitOne`; session.go:311-327, 375-393; report.go:108-120).  Proved, for every
session state, every batch of reports, every URR:
 * `emit_known`: a usage-report IE carries exactly the URR's counter at the moment it is emitted, and the counter
   is then incremented by one — or the entry disappears when the URR had been removed (response carriers);
 * `emit_unknown`: a report for a URR the session does not know emits nothing and changes nothing;
 * `batch_consecutive`: within one batch the IEs of a URR carry n, n+1, …, n+k-1 in emission order, and the
   counter ends at n+k;
 * `other_urr_untouched`: emitting for one URR does not move the counter of another;
 * `create_resets`: a (re-)created URR starts at 0;
 * the other `Sess` methods do not touch the counter (`bump_keeps_seqn`, `update_keeps_seqn`).
The uint32 wrap-around after 2^32 reports of one URR is outside the statement (the counter is a natural number).
-/
import UpfVerif.Model.Core
import UpfVerif.Lemmas.Core
import UpfVerif.Lemmas.CoreDP

namespace UpfVerif.C11
open UpfVerif.Core

theorem emit_unknown (s : Sess) (r : Report) (x : BitVec 32) (b : Bool) (h : alGet s.urrs r.urr = none) :
    emitOne s r x b = (s, none) := by simp [emitOne, h]

/-- the IE takes the counter; the counter moves on by exactly one (or the removed URR's entry is dropped) -/
theorem emit_known (s : Sess) (r : Report) (x : BitVec 32) (b : Bool) (info : URRInfo) (h : alGet s.urrs r.urr = some info) :
    ∃ ie, (emitOne s r x b).2 = some ie ∧ ie.urr = r.urr ∧ ie.seqn = info.seqn ∧
      (if b && info.removed then alGet (emitOne s r x b).1.urrs r.urr = none
       else alGet (emitOne s r x b).1.urrs r.urr = some { info with seqn := info.seqn + 1 }) := by
  unfold emitOne
  simp only [h]
  refine ⟨_, rfl, rfl, rfl, ?_⟩
  split <;> simp

/-- emitting for one URR leaves every other URR's bookkeeping exactly as it was -/
theorem other_urr_untouched (s : Sess) (r : Report) (x : BitVec 32) (b : Bool) (u : Nat) (hu : u ≠ r.urr) :
    alGet (emitOne s r x b).1.urrs u = alGet s.urrs u := by
  unfold emitOne
  split
  · rfl
  · simp only []
    split
    · exact alGet_alDel_other _ _ _ hu
    · exact alGet_alSet_other _ _ _ _ hu

/-- number of reports for URR `u` in a batch -/
def countFor (u : Nat) (rs : List Report) : Nat := (rs.filter (·.urr == u)).length

/-- UR-SEQN values emitted for URR `u` in a batch, in emission order -/
def seqnsFor (u : Nat) (ies : List UsarIE) : List Nat := (ies.filter (·.urr == u)).map (·.seqn)

/-- within a batch: consecutive numbers from the counter's value, and the counter ends `count` further
    (for a URR that is not dropped on the way: not removed, or a Session Report Request) -/
theorem batch_consecutive (rs : List Report) (x : BitVec 32) (b : Bool) (u : Nat) :
    ∀ (s : Sess) (info : URRInfo), alGet s.urrs u = some info → (b && info.removed) = false →
      seqnsFor u (emitUsars s rs x b).2 = List.range' info.seqn (countFor u rs) ∧
      alGet (emitUsars s rs x b).1.urrs u = some { info with seqn := info.seqn + countFor u rs } := by
  induction rs with
  | nil => intro s info h _; simp [emitUsars, seqnsFor, countFor, h]
  | cons r rs ih =>
    intro s info h hb
    unfold emitUsars
    by_cases hr : r.urr = u
    · subst hr
      obtain ⟨ie, hie, hiu, hseq, hnext⟩ := emit_known s r x b info h
      simp only [hb, Bool.false_eq_true, if_false] at hnext
      have := ih (emitOne s r x b).1 { info with seqn := info.seqn + 1 } hnext hb
      simp only [seqnsFor, countFor] at this ⊢
      simp only [hie, Option.toList_some, List.singleton_append, List.filter_cons, hiu, beq_self_eq_true, if_true,
        List.map_cons, hseq, List.length_cons, this.1, List.range'_succ]
      refine ⟨trivial, ?_⟩
      rw [this.2]
      have e : info.seqn + 1 + (List.filter (fun x => x.urr == r.urr) rs).length
          = info.seqn + ((List.filter (fun x => x.urr == r.urr) rs).length + 1) := by omega
      rw [e]
    · have hne : u ≠ r.urr := fun hc => hr hc.symm
      have hsame := other_urr_untouched s r x b u hne
      have := ih (emitOne s r x b).1 info (by rw [hsame]; exact h) hb
      have hfil : ∀ (o : Option UsarIE), (∀ ie, o = some ie → ie.urr = r.urr) →
          (o.toList.filter (·.urr == u)) = [] := by
        intro o ho
        cases o with
        | none => rfl
        | some ie => simp [ho ie rfl, hr]
      have ho : ∀ ie, (emitOne s r x b).2 = some ie → ie.urr = r.urr := by
        intro ie hie
        unfold emitOne at hie
        split at hie
        · cases hie
        · simp at hie; rw [← hie]
      have hcf : countFor u (r :: rs) = countFor u rs := by
        simp [countFor, List.filter_cons, hr]
      simp only [seqnsFor] at this ⊢
      rw [hcf, List.filter_append, hfil _ ho]
      simpa using this

/-- a (re-)created URR starts at UR-SEQN 0, whatever was recorded under that id before -/
theorem create_resets (s : Sess) (ie : RuleIE) (c : Ctx) (id : Nat) (hid : ie.id = some id) :
    (alGet (s.createURR ie c).1.urrs id).map (·.seqn) = some 0 := by
  simp [Sess.createURR, hid]

/-- reference counting, method updates and removal marks do not touch the counter -/
theorem bump_keeps_seqn (us : List (Nat × URRInfo)) (u i : Nat) :
    (alGet (bumpRef us u) i).map (·.seqn) = (alGet us i).map (·.seqn) := by
  unfold bumpRef
  rw [alGet_map us (fun k v => if k == u then { v with refPdrNum := v.refPdrNum + 1 } else v) i]
  cases alGet us i with
  | none => rfl
  | some v => simp only [Option.map_some]; split <;> rfl

theorem update_keeps_seqn (info : URRInfo) (ie : RuleIE) : (info.applyUpdate ie).seqn = info.seqn := by
  unfold URRInfo.applyUpdate
  cases ie.mnop <;> cases ie.meth <;> rfl

/-! ### non-vacuity: three reports for URR 7 interleaved with one for URR 8, counter at 4 -/
example :
    let s : Sess := { rnode := 0, localID := 1, remoteID := 2,
                      urrs := [(7, { seqn := 4, volum := true }), (8, { seqn := 0 })] }
    let rs : List Report := [{ urr := 7, trig := 2, meas := [] }, { urr := 8, trig := 2, meas := [] },
                             { urr := 9, trig := 2, meas := [] }, { urr := 7, trig := 2, meas := [] },
                             { urr := 7, trig := 2, meas := [] }]
    seqnsFor 7 (emitUsars s rs 0 false).2 = [4, 5, 6] ∧ seqnsFor 8 (emitUsars s rs 0 false).2 = [0] ∧
    seqnsFor 9 (emitUsars s rs 0 false).2 = [] := by decide

end UpfVerif.C11
