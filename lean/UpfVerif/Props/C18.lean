import UpfVerif.Spec.ConcRules
/-
C18 — the control loop cannot be wedged by bursts of reports or rule changes.

* `acyclic_progress` — the general principle: if "process p is blocked sending to a bounded queue whose receiver is q" admits a
  ranking (the waits-for relation is acyclic), then among any set of blocked processes the one of least rank is waiting for
  a process that is NOT blocked — someone can always move; no set of processes blocks each other forever.
* `blocking_edges` — the waits-for graph of go-upf, computed by the kernel from the REGENERATED facts (which goroutine root
  sends on which bounded channel, who receives from it).
* `graph_has_cycle` — that graph contains the cycle  event loop --evtCh--> periodic server --srCh--> event loop:
  the loop posts timer events (URR create / remove) from inside a request, the periodic server posts session reports to the
  loop.  THE PROPERTY DOES NOT HOLD OF THE CODE (known finding `perioLoopCycle`, DESIGN.md §8); the theorem is kept so that
  the check notices when the cycle disappears, or when ANOTHER cycle appears (`only_known_cycle`).
* `wedge_stuck`, `wedge_reachable` — for ALL capacities E, R ≥ 0 of the two queues: the two-process system has a reachable
  state in which both are blocked forever (the loop has E+1 timer events to post in one turn, a tick has R+1 sessions to
  report), with the schedule constructed as a function of E and R.
* `no_wedge_partial` — without the loop's posts (a request that issues no timer event) the system always has a move.
-/
namespace UpfVerif.C18
open UpfVerif.Gen.Conc UpfVerif.ConcRules

/-- the waits-for graph is built from channel operations only; it is complete as a model of blocking because the module has
    no other blocking primitive: no mutex, read-write lock or condition variable appears in /repo's current source (the
    `sync.WaitGroup` is waited on at shutdown only) -/
theorem blocking_is_channels_only : otherSync = [] := by decide

/-! ### the principle -/

/-- `waits p = some q`: p is blocked on a queue only q drains.  A ranking makes the relation acyclic. -/
theorem acyclic_progress {P : Type} (waits : P → Option P) (rank : P → Nat)
    (hr : ∀ p q, waits p = some q → rank q < rank p) (p0 : P) :
    ∃ p, waits p = none := by
  -- follow the chain from p0: ranks decrease, so it ends at a process that waits for nobody
  have : ∀ n, ∀ p, rank p ≤ n → ∃ q, waits q = none := by
    intro n
    induction n with
    | zero =>
      intro p hp
      cases hw : waits p with
      | none => exact ⟨p, hw⟩
      | some q => have := hr p q hw; omega
    | succ n ih =>
      intro p hp
      cases hw : waits p with
      | none => exact ⟨p, hw⟩
      | some q => exact ih q (by have := hr p q hw; omega)
  exact this (rank p0) p0 (Nat.le_refl _)

/-! ### the waits-for graph of go-upf, from the regenerated facts -/

set_option maxRecDepth 100000 in
/-- the two queues and their capacities, as the source has them now -/
theorem capacities : chanCaps.lookup "perio.Server.evtCh" = some 512 ∧ chanCaps.lookup "pfcp.PfcpServer.srCh" = some 128 := by
  decide

set_option maxRecDepth 100000 in
/-- **the cycle**: the event loop blocks on the periodic server's queue, the periodic server blocks on the loop's -/
theorem graph_has_cycle :
    hasEdge "pfcp.PfcpServer.main" "perio.Server.evtCh" "perio.Server.Serve" = true ∧
    hasEdge "perio.Server.Serve" "pfcp.PfcpServer.srCh" "pfcp.PfcpServer.main" = true := by
  decide

set_option maxRecDepth 100000 in
/-- a second cycle, inside the periodic server: it stops a ticker by an unbuffered send while that ticker goroutine may
    itself be blocked posting a TIMEOUT into the (full) event queue only the server drains (known finding `perioTickerCycle`) -/
theorem ticker_cycle :
    hasEdge "perio.Server.Serve" "perio.PERIOGroup.stopCh" "perio.PERIOGroup.newTicker$1" = true ∧
    hasEdge "perio.PERIOGroup.newTicker$1" "perio.Server.evtCh" "perio.Server.Serve" = true := by
  decide

/-- roots that only ever send (producers) or whose sends go to a root that sends to nobody else are harmless; what
    matters is a cycle.  Ranking that orders every edge EXCEPT the known one: -/
def rankOf (r : String) : Nat :=
  if r == "perio.Server.Serve" then 1
  else if r == "pfcp.PfcpServer.main" then 0
  else 2

set_option maxRecDepth 100000 in
/-- every blocking edge other than  event loop --evtCh--> periodic server  and  periodic server --stopCh--> ticker goroutine
    goes down in rank: the graph minus those two edges is acyclic, i.e. the cycles of `graph_has_cycle` and
    `ticker_cycle` are the ONLY ones.  A new blocking send that closes another cycle breaks this theorem. -/
theorem only_known_cycle :
    edgeSet.all (fun e => (e.1 == "pfcp.PfcpServer.main" && e.2.1 == "perio.Server.evtCh" && e.2.2 == "perio.Server.Serve") ||
      -- the other arm of the same select in `post`: released when the periodic server ends
      (e.1 == "pfcp.PfcpServer.main" && e.2.1 == "perio.Server.done" && e.2.2 == "perio.Server.Serve") ||
      (e.1 == "perio.Server.Serve" && e.2.1 == "perio.PERIOGroup.stopCh" && e.2.2 == "perio.PERIOGroup.newTicker$1") ||
      rankOf e.2.2 < rankOf e.1) = true := by
  decide

/-! ### the two-process system, for all capacities -/

structure W where
  evt : Nat            -- events queued for the periodic server (capacity E)
  sr : Nat             -- reports queued for the loop (capacity R)
  loopPending : Nat    -- timer events the loop still has to post in its current turn (0: at its select)
  perioPending : Nat   -- reports the periodic server still has to post for its current tick (0: at its receive)
deriving DecidableEq, Repr

inductive Step (E R : Nat) : W → W → Prop
  | loopStart (w : W) (k : Nat) : w.loopPending = 0 → Step E R w { w with loopPending := k }
  | loopPost (w : W) : 0 < w.loopPending → w.evt < E → Step E R w { w with evt := w.evt + 1, loopPending := w.loopPending - 1 }
  | loopTake (w : W) : w.loopPending = 0 → 0 < w.sr → Step E R w { w with sr := w.sr - 1 }
  | perioTick (w : W) (m : Nat) : w.perioPending = 0 → Step E R w { w with perioPending := m }
  | perioPost (w : W) : 0 < w.perioPending → w.sr < R → Step E R w { w with sr := w.sr + 1, perioPending := w.perioPending - 1 }
  | perioTake (w : W) : w.perioPending = 0 → 0 < w.evt → Step E R w { w with evt := w.evt - 1 }

inductive Reach (E R : Nat) : W → Prop
  | init : Reach E R ⟨0, 0, 0, 0⟩
  | step {w w'} : Reach E R w → Step E R w w' → Reach E R w'

def wedged (E R : Nat) : W := ⟨E, R, 1, 1⟩

/-- both queues full, both processes in the middle of posting: nothing can move, ever -/
theorem wedge_stuck (E R : Nat) : ∀ w', ¬ Step E R (wedged E R) w' := by
  intro w' h
  cases h <;> simp_all [wedged]

theorem loop_posts (E R : Nat) (n : Nat) : ∀ (w : W), Reach E R w → w.evt + n ≤ E → n ≤ w.loopPending →
    Reach E R { w with evt := w.evt + n, loopPending := w.loopPending - n } := by
  induction n with
  | zero => intro w h _ _; simpa using h
  | succ n ih =>
    intro w h he hp
    have h1 := ih w h (by omega) (by omega)
    have h2 := Reach.step h1 (Step.loopPost _ (by simp; omega) (by simp; omega))
    have e : ({ evt := w.evt + n + 1, sr := w.sr, loopPending := w.loopPending - n - 1, perioPending := w.perioPending } : W) =
        { w with evt := w.evt + (n + 1), loopPending := w.loopPending - (n + 1) } := by
      simp; omega
    simpa [e] using h2

theorem perio_posts (E R : Nat) (n : Nat) : ∀ (w : W), Reach E R w → w.sr + n ≤ R → n ≤ w.perioPending →
    Reach E R { w with sr := w.sr + n, perioPending := w.perioPending - n } := by
  induction n with
  | zero => intro w h _ _; simpa using h
  | succ n ih =>
    intro w h he hp
    have h1 := ih w h (by omega) (by omega)
    have h2 := Reach.step h1 (Step.perioPost _ (by simp; omega) (by simp; omega))
    have e : ({ evt := w.evt, sr := w.sr + n + 1, loopPending := w.loopPending, perioPending := w.perioPending - n - 1 } : W) =
        { w with sr := w.sr + (n + 1), perioPending := w.perioPending - (n + 1) } := by
      simp; omega
    simpa [e] using h2

/-- **for all capacities the wedge is reachable**: one loop turn that issues E+1 timer events (a re-association or
    deletion removing that many periodic URRs) while one tick reports R+1 sessions -/
theorem wedge_reachable (E R : Nat) : Reach E R (wedged E R) := by
  have h0 : Reach E R ⟨0, 0, E + 1, 0⟩ := Reach.step Reach.init (Step.loopStart _ (E + 1) rfl)
  have h1 : Reach E R ⟨0, 0, E + 1, R + 1⟩ := Reach.step h0 (Step.perioTick _ (R + 1) rfl)
  have h2 := loop_posts E R E _ h1 (by simp) (by simp)
  have h3 := perio_posts E R R _ h2 (by simp) (by simp)
  simpa [wedged] using h3

/-- PARTIAL: while the loop issues no timer event inside a turn, there is always a move or nothing left to do -/
theorem no_wedge_partial (E R : Nat) (w : W) (hl : w.loopPending = 0) :
    (∃ w', Step E R w w') := ⟨_, Step.loopStart w 0 hl⟩

/-- …and more to the point: with the loop at its select, a blocked periodic server is always released -/
theorem loop_idle_releases (E R : Nat) (w : W) (hl : w.loopPending = 0) (hp : 0 < w.perioPending) (hfull : w.sr = R) (hR : 0 < R) :
    ∃ w', Step E R w w' ∧ w'.sr < R := by
  refine ⟨{ w with sr := w.sr - 1 }, Step.loopTake w hl (by omega), ?_⟩
  simp; omega

end UpfVerif.C18
