/-
C09 — UPF-initiated requests are retried, matched and retired correctly.

Over `Core.step` / `State.sendReq` (pfcp.go:273-283, 153-175; transaction.go:57-109), for a request counter
anywhere in the 32-bit range:
 * the request goes out with the low 24 bits of the counter and is registered under exactly that value, so a
   response carrying the sequence number the request was sent with always finds it (also across 2^24 and 2^32);
 * two requests issued fewer than 2^24 apart carry different sequence numbers;
 * a timer expiry retransmits the identical message while the retry count is below the configured maximum and
   abandons the request (entry deleted, nothing sent) afterwards — at most 1 + N transmissions;
 * a matching response from the peer the request was sent to deletes the entry;
 * a response matching no outstanding request changes nothing.
-/
import UpfVerif.Model.Core
import UpfVerif.Lemmas.CoreHandlers
import UpfVerif.Lemmas.Core

namespace UpfVerif.C09
open UpfVerif.Core

/-- sequence number on the wire for counter value `t` -/
def wire (t : BitVec 32) : BitVec 24 := t.setWidth 24

theorem sendReq_spec (st : State) (addr : String) (m : Msg) (c : Ctx) :
    let r := st.sendReq addr m c
    r.2.outs = c.outs ++ [Out.send addr { m with seq := wire st.txSeq }] ∧
    alGet r.1.tx (addr, wire st.txSeq) = some { to := addr, msg := { m with seq := wire st.txSeq }, reqSeid := m.seid.getD 0 } ∧
    r.1.txSeq = st.txSeq + 1 ∧ r.1.lnode = st.lnode ∧ r.1.rx = st.rx := by
  simp [State.sendReq, wire, Ctx.emit]

/-- a response that carries the 24-bit value the request was sent with finds the request — for every position
    of the 32-bit counter, in particular 2^24 - 1, 2^24, 2^32 - 1 -/
theorem match_after_wrap (st : State) (addr : String) (m : Msg) (c : Ctx) (rspSeq : BitVec 24)
    (h : rspSeq = wire st.txSeq) :
    (alGet (st.sendReq addr m c).1.tx (addr, rspSeq)).isSome := by
  subst h
  simp [(sendReq_spec st addr m c).2.1]

/-- requests issued `d` apart, 0 < d < 2^24, never share a sequence number (distinct from every other
    outstanding one as long as fewer than 2^24 are outstanding), also across the 2^24 and 2^32 wrap -/
theorem seq_distinct (t : BitVec 32) (d : Nat) (h0 : 0 < d) (h1 : d < 2 ^ 24) :
    wire (t + BitVec.ofNat 32 d) ≠ wire t := by
  intro hc
  have := congrArg BitVec.toNat hc
  simp only [wire, BitVec.toNat_setWidth, BitVec.toNat_add, BitVec.toNat_ofNat] at this
  have ht := t.isLt
  omega

/-- timer expiry below the maximum: one retransmission of the identical message, the count goes up by one -/
theorem retry (st : State) (addr : String) (seq : BitVec 24) (env : Env) (tx : Tx)
    (h : alGet st.tx (addr, seq) = some tx) (hc : tx.count < st.cfg.maxRetrans) :
    let r := step st (.txTimeout addr seq) env
    r.2 = [Out.send addr tx.msg] ∧ alGet r.1.tx (addr, seq) = some { tx with count := tx.count + 1 } ∧
    r.1.lnode = st.lnode := by
  simp [step, h, hc, Ctx.emit]

/-- after the last retry the request is abandoned: entry released, nothing sent -/
theorem abandon (st : State) (addr : String) (seq : BitVec 24) (env : Env) (tx : Tx)
    (h : alGet st.tx (addr, seq) = some tx) (hc : ¬ tx.count < st.cfg.maxRetrans) :
    let r := step st (.txTimeout addr seq) env
    r.2 = [] ∧ alGet r.1.tx (addr, seq) = none ∧ r.1.lnode = st.lnode := by
  simp [step, h, hc]

/-- hence a request is transmitted at most 1 + N times: the entry created by `sendReq` has count 0, every
    retransmission increases the count, and no retransmission happens at count = N -/
theorem retransmissions_bounded (st : State) (addr : String) (seq : BitVec 24) (env : Env) (tx : Tx)
    (h : alGet st.tx (addr, seq) = some tx) :
    (∃ m, (step st (.txTimeout addr seq) env).2 = [Out.send addr m]) → tx.count + 1 ≤ st.cfg.maxRetrans := by
  intro ⟨m, hm⟩
  by_cases hc : tx.count < st.cfg.maxRetrans
  · omega
  · have := (abandon st addr seq env tx h hc).1
    rw [this] at hm
    cases hm

/-- a matching response (same peer address, same sequence number) stops retransmission: entry released -/
theorem stop_on_response (st : State) (addr : String) (seq : BitVec 24) (seid : Seid) (env : Env) (tx : Tx)
    (h : alGet st.tx (addr, seq) = some tx) (hs : seid ≠ 0) :
    let r := step st (.srResponse addr seq seid) env
    alGet r.1.tx (addr, seq) = none ∧ r.2 = [] ∧ r.1.lnode = st.lnode := by
  have hs' : ¬ seid = 0#64 := hs
  simp [step, h, hs']

/-- responses matching no outstanding request — wrong sequence number, wrong peer, duplicate of an already
    answered one — are ignored without effect -/
theorem unmatched_ignored (st : State) (addr : String) (seq : BitVec 24) (seid : Seid) (env : Env)
    (h : alGet st.tx (addr, seq) = none) :
    step st (.srResponse addr seq seid) env = (st, []) ∧ step st (.otherResponse addr seq) env = (st, []) := by
  simp [step, h]

/-- a timer expiry for a request that is no longer outstanding is ignored as well -/
theorem stale_timeout_ignored (st : State) (addr : String) (seq : BitVec 24) (env : Env)
    (h : alGet st.tx (addr, seq) = none) : step st (.txTimeout addr seq) env = (st, []) := by
  simp [step, h]

/-- **the response overtakes the timeout**: the retransmission timer has fired, its event is still queued, the matching
    response is handled first.  The request is retired by the response and the stale timeout does nothing — no
    retransmission after the answer, whatever the retry budget left -/
theorem answered_then_stale_timeout (st : State) (addr : String) (seq : BitVec 24) (seid : Seid) (env env' : Env) (tx : Tx)
    (h : alGet st.tx (addr, seq) = some tx) (hs : seid ≠ 0) :
    let r1 := step st (.srResponse addr seq seid) env
    let r2 := step r1.1 (.txTimeout addr seq) env'
    r1.2 = [] ∧ r2.2 = [] ∧ r2.1 = r1.1 ∧ alGet r2.1.tx (addr, seq) = none := by
  have h1 := stop_on_response st addr seq seid env tx h hs
  simp only [] at h1
  have h2 := stale_timeout_ignored (step st (.srResponse addr seq seid) env).1 addr seq env' h1.1
  refine ⟨h1.2.1, ?_, ?_, ?_⟩
  · rw [h2]
  · rw [h2]
  · rw [h2]; exact h1.1

/-- timer expiries of transmit transactions never touch the receive table (the two kinds of transaction share the key
    format "<address>-<sequence number>"; an expiry is looked up in the table of its own kind only) -/
theorem tx_timeout_keeps_rx (st : State) (addr : String) (seq : BitVec 24) (env : Env) :
    (step st (.txTimeout addr seq) env).1.rx = st.rx := by
  simp only [step]
  split
  · rfl
  · split <;> rfl

/-- and conversely: the expiry of a retention timer (a request RECEIVED) neither retries nor abandons a request sent, and
    sends nothing — whatever key it carries, in particular the key of an outstanding request -/
theorem rx_timeout_keeps_tx (st : State) (addr : String) (seq : BitVec 24) (env : Env) :
    (step st (.rxTimeout addr seq) env).1.tx = st.tx ∧ (step st (.rxTimeout addr seq) env).2 = [] := by
  simp [step]

/-- any run of retention expiries, with any keys: the outstanding requests are exactly as before and nothing has been sent -/
theorem rx_timeouts_keep_tx (evs : List ((String × BitVec 24) × Env)) (st : State) :
    let r := evs.foldl (fun (acc : State × List Out) e =>
      let r := step acc.1 (.rxTimeout e.1.1 e.1.2) e.2
      (r.1, acc.2 ++ r.2)) (st, [])
    r.1.tx = st.tx ∧ r.2 = [] := by
  suffices h : ∀ (acc : State × List Out), acc.1.tx = st.tx → acc.2 = [] →
      (evs.foldl (fun (acc : State × List Out) e =>
        let r := step acc.1 (.rxTimeout e.1.1 e.1.2) e.2
        (r.1, acc.2 ++ r.2)) acc).1.tx = st.tx ∧
      (evs.foldl (fun (acc : State × List Out) e =>
        let r := step acc.1 (.rxTimeout e.1.1 e.1.2) e.2
        (r.1, acc.2 ++ r.2)) acc).2 = [] from h (st, []) rfl rfl
  induction evs with
  | nil => intro acc h1 h2; exact ⟨h1, h2⟩
  | cons e evs ih =>
    intro acc h1 h2
    simp only [List.foldl_cons]
    apply ih
    · rw [(rx_timeout_keeps_tx acc.1 e.1.1 e.1.2 e.2).1]; exact h1
    · rw [(rx_timeout_keeps_tx acc.1 e.1.1 e.1.2 e.2).2, h2]; rfl

/-- does the event concern the outstanding request `k` — its response, its own timer expiry — or is it a report (which sends
    a NEW request and so adds to the table)? -/
def Event.concernsTx (k : String × BitVec 24) : Event → Prop
  | .srResponse a q _ => (a, q) = k
  | .otherResponse a q => (a, q) = k
  | .txTimeout a q => (a, q) = k
  | .report _ _ => True
  | _ => False

/-- **an outstanding request is touched by nothing but its own response and its own timer**: requests received (whatever they
    do), responses and expiries of other requests, retention expiries — none retries it, abandons it or changes its retry
    count -/
theorem outstanding_untouched (st : State) (k : String × BitVec 24) (e : Event) (env : Env) (hk : ¬ Event.concernsTx k e) :
    alGet (step st e env).1.tx k = alGet st.tx k := by
  cases e with
  | ignored => simp [step]
  | rxTimeout addr seq => simp [step]
  | report x items => exact absurd trivial hk
  | request addr seq r =>
    unfold step
    simp only
    split
    · split <;> rfl
    · have h := handleReq_tx { st with rx := alSet st.rx (addr, seq) {} } addr seq r env { pending := env.pending }
      rw [h.1]
  | srResponse addr seq seid =>
    have hne : k ≠ (addr, seq) := fun hc => hk (by simp [Event.concernsTx, hc])
    unfold step
    simp only
    split
    · rfl
    · rename_i tx _
      split
      · split
        · exact alGet_alDel_other _ _ _ hne
        · rename_i s _
          have hd := deleteSess_same { st with tx := alDel st.tx (addr, seq) } s.rnode s.localID env { pending := env.pending }
          generalize State.deleteSess { st with tx := alDel st.tx (addr, seq) } s.rnode s.localID env { pending := env.pending } = R at hd
          obtain ⟨st2, c2, s2, rs2⟩ := R
          simp only
          rw [hd.2.1]
          exact alGet_alDel_other _ _ _ hne
      · exact alGet_alDel_other _ _ _ hne
  | otherResponse addr seq =>
    have hne : k ≠ (addr, seq) := fun hc => hk (by simp [Event.concernsTx, hc])
    unfold step
    simp only
    split
    · rfl
    · exact alGet_alDel_other _ _ _ hne
  | txTimeout addr seq =>
    have hne : k ≠ (addr, seq) := fun hc => hk (by simp [Event.concernsTx, hc])
    unfold step
    simp only
    split
    · rfl
    · split
      · exact alGet_alSet_other _ _ _ _ hne
      · exact alGet_alDel_other _ _ _ hne

/-- … hence after ANY history of such events the request is outstanding exactly as it was — same message, same retry count -/
theorem outstanding_after_any_history (h : List (Event × Env)) (st : State) (k : String × BitVec 24)
    (hk : ∀ p ∈ h, ¬ Event.concernsTx k p.1) :
    alGet (h.foldl (fun st (p : Event × Env) => (step st p.1 p.2).1) st).tx k = alGet st.tx k := by
  induction h generalizing st with
  | nil => rfl
  | cons p h ih =>
    simp only [List.foldl_cons]
    rw [ih _ (fun q hq => hk q (by simp [hq])), outstanding_untouched st k p.1 p.2 (hk p (by simp))]

/-! ### the defect repaired by the `fix:` commit, and non-vacuity -/

/-- before the fix the key was the 32-bit counter: at counter 2^24 the request goes out with sequence number 0,
    while the entry sat under 16777216 -/
example : wire (BitVec.ofNat 32 (2 ^ 24)) = 0 ∧ (BitVec.ofNat 32 (2 ^ 24)).toNat ≠ (wire (BitVec.ofNat 32 (2 ^ 24))).toNat := by decide

example :
    let st0 : State := { txSeq := BitVec.ofNat 32 (2 ^ 24 - 1) }
    let (st1, c1) := st0.sendReq "p1" { kind := .srReq, seq := 0 } { pending := [] }
    let (st2, c2) := st1.sendReq "p1" { kind := .srReq, seq := 0 } c1
    st2.tx.map (·.1) = [("p1", 0xffffff#24), ("p1", 0x000000#24)] ∧ c2.outs.length = 2 := by decide

end UpfVerif.C09
