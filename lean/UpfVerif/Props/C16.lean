/-
C16 — SDF flow descriptions are translated to the filter they denote.

`parse_render`: for EVERY rule of the supported grammar (every protocol spelling incl. leading zeros and `ip`, hosts,
prefixes 0..32, `any` / `assigned`, port lists of any length with single ports and ranges, each numeral in any
decimal spelling) and EVERY spacing (arbitrary non-empty runs of Go white space between tokens, optional leading and
trailing run), the model of `ParseFlowDesc` returns exactly the filter the rule denotes.
`parse_total`: every string is either rejected or parsed — no fault (the model is a total function over all strings;
the Go side is run on arbitrary byte strings by the correspondence stream).
`pack_unpack`: the port words `lo << 16 | hi` decode back to the ranges.
`packed_decodes`: for every rule, spelling and spacing, the attribute list `newFlowDesc` hands to the data plane, read
by the independent reader of the gtp5g rule format, is the filter the rule denotes — with source and destination
(addresses, masks and port lists) exchanged for uplink PDRs.
-/
import UpfVerif.Model.FlowDesc
import UpfVerif.Lemmas.FlowDesc
import UpfVerif.Spec.IPFilterRule
import UpfVerif.Props.C02

set_option maxRecDepth 16384

namespace UpfVerif.C16
open UpfVerif.FlowDesc UpfVerif.Spec.IPFilter

/-! ### finite facts about canonical numerals (all 256 octets / 33 prefix lengths, by evaluation) -/

theorem octet_parse : ∀ o : Fin 256, parseOctet (decStr o) = some o.val := by decide
theorem prefix_parse : ∀ l : Fin 33, parsePrefixLen (decStr l) = some l.val := by decide
theorem decStr_plain : ∀ o : Fin 256, (decStr o).all (fun c => c != '.' && c != '/' && c != ':' && c != '%' && !isSpace c) = true := by decide
theorem decStr_ne : ∀ o : Fin 256, decStr o ≠ [] := by decide

theorem decStr_noChar (o : Fin 256) (sep : Char) (h : sep = '.' ∨ sep = '/' ∨ sep = ':' ∨ sep = '%') : noChar sep (decStr o) := by
  intro c hc
  have := List.all_eq_true.mp (decStr_plain o) c hc
  simp only [Bool.and_eq_true, bne_iff_ne, ne_eq] at this
  rcases h with h | h | h | h <;> subst h <;> simp [this]

/-! ### addresses -/

theorem cutSlash_noslash (t cur : Str) (ht : noChar '/' t) : cutSlash t cur = none := by
  induction t generalizing cur with
  | nil => rfl
  | cons c t ih =>
    have hc : (c == '/') = false := ht c (by simp)
    simp only [cutSlash, hc, Bool.false_eq_true, if_false]
    exact ih _ (fun d hd => ht d (by simp [hd]))

theorem cutSlash_slash (a b cur : Str) (ha : noChar '/' a) : cutSlash (a ++ '/' :: b) cur = some (cur.reverse ++ a, b) := by
  induction a generalizing cur with
  | nil => simp [cutSlash]
  | cons c a ih =>
    have hc : (c == '/') = false := ha c (by simp)
    simp only [List.cons_append, cutSlash, hc, Bool.false_eq_true, if_false]
    rw [ih _ (fun d hd => ha d (by simp [hd]))]
    simp

theorem ipStr_noslash (a b c d : Fin 256) : noChar '/' (ipStr a b c d) := by
  intro ch hch
  simp only [ipStr, joinSep, List.mem_append, List.mem_cons] at hch
  rcases hch with h | h | h | h | h | h | h
  · exact decStr_noChar a '/' (Or.inr (Or.inl rfl)) ch h
  · subst h; decide
  · exact decStr_noChar b '/' (Or.inr (Or.inl rfl)) ch h
  · subst h; decide
  · exact decStr_noChar c '/' (Or.inr (Or.inl rfl)) ch h
  · subst h; decide
  · exact decStr_noChar d '/' (Or.inr (Or.inl rfl)) ch h

theorem addrClass_prefix (t rest : Str) (h1 : noChar '.' t) (h2 : noChar ':' t) (h3 : noChar '%' t) :
    addrClass (t ++ '.' :: rest) = .v4 := by
  induction t with
  | nil => simp [addrClass]
  | cons c t ih =>
    have a1 : (c == '.') = false := h1 c (by simp)
    have a2 : (c == ':') = false := h2 c (by simp)
    have a3 : (c == '%') = false := h3 c (by simp)
    simp only [List.cons_append, addrClass, a1, a2, a3, Bool.false_eq_true, if_false, Bool.or_self]
    exact ih (fun d hd => h1 d (by simp [hd])) (fun d hd => h2 d (by simp [hd])) (fun d hd => h3 d (by simp [hd]))

theorem ipStr_class (a b c d : Fin 256) : addrClass (ipStr a b c d) = .v4 := by
  simp only [ipStr, joinSep]
  exact addrClass_prefix _ _ (decStr_noChar a '.' (Or.inl rfl)) (decStr_noChar a ':' (Or.inr (Or.inr (Or.inl rfl))))
    (decStr_noChar a '%' (Or.inr (Or.inr (Or.inr rfl))))

theorem ipStr_parse (a b c d : Fin 256) : parseIPv4 (ipStr a b c d) = some [a.val, b.val, c.val, d.val] := by
  unfold parseIPv4 ipStr
  rw [splitOn_joinSep '.' _ (by simp) (by
    intro t ht
    simp only [List.mem_cons, List.mem_nil_iff, or_false] at ht
    rcases ht with h | h | h | h <;> subst h <;> exact decStr_noChar _ '.' (Or.inl rfl))]
  simp [octet_parse]

theorem ipStr_not_keyword (a b c d : Fin 256) : ipStr a b c d ≠ kwAny ∧ ipStr a b c d ≠ kwAssigned := by
  -- an address starts with a digit
  have hd : ∀ o : Fin 256, ((decStr o).head?.map isDigit) = some true := by decide
  have ha := hd a
  cases he : decStr a with
  | nil => rw [he] at ha; simp at ha
  | cons ch rest =>
    rw [he] at ha
    simp only [List.head?_cons, Option.map_some, Option.some.injEq] at ha
    constructor <;>
    · intro hc
      simp only [ipStr, joinSep, he, List.cons_append, kwAny, kwAssigned] at hc
      have := (List.cons.inj hc).1
      subst this
      revert ha; decide

theorem addr_parse (x : Addr) : parseIPNet x.str = some x.denote := by
  cases x with
  | any => decide
  | assigned => decide
  | host a b c d =>
    have hk := ipStr_not_keyword a b c d
    simp only [Addr.str, parseIPNet, Addr.denote]
    have e1 : (ipStr a b c d == kwAny) = false := by simpa using hk.1
    have e2 : (ipStr a b c d == kwAssigned) = false := by simpa using hk.2
    simp only [e1, e2, Bool.or_self, Bool.false_eq_true, if_false, cutSlash_noslash _ _ (ipStr_noslash a b c d),
      ipStr_class, ipStr_parse]
    simp
  | net a b c d l =>
    have hne : ∀ (kw : Str), kw.all (fun ch => ch != '/') = true → ipStr a b c d ++ '/' :: decStr l ≠ kw := by
      intro kw hkw hc
      have : '/' ∈ kw := by rw [← hc]; simp
      have := List.all_eq_true.mp hkw '/' this
      simp at this
    have e1 : (ipStr a b c d ++ '/' :: decStr l == kwAny) = false := by
      simpa using hne kwAny (by decide)
    have e2 : (ipStr a b c d ++ '/' :: decStr l == kwAssigned) = false := by
      simpa using hne kwAssigned (by decide)
    simp only [Addr.str, parseIPNet, Addr.denote, e1, e2, Bool.or_self, Bool.false_eq_true, if_false]
    rw [cutSlash_slash _ _ [] (ipStr_noslash a b c d)]
    have hl : parsePrefixLen (decStr l) = some l.val := by
      have := prefix_parse l
      exact this
    simp [ipStr_class, ipStr_parse, hl]


/-! ### port lists -/

theorem digit_plain : ∀ d : Fin 10, (digitChar d == ',') = false ∧ (digitChar d == '-') = false := by decide

theorem numeral_noChar (n : Numeral) (sep : Char) (h : sep = ',' ∨ sep = '-') : noChar sep n.str := by
  intro c hc
  simp only [Numeral.str, digitsStr, List.mem_map] at hc
  obtain ⟨d, _, rfl⟩ := hc
  rcases h with h | h <;> subst h
  · exact (digit_plain d).1
  · exact (digit_plain d).2

theorem item_noComma (p : PortItem) : noChar ',' p.str := by
  cases p with
  | one n => exact numeral_noChar n ',' (Or.inl rfl)
  | range lo hi =>
    intro c hc
    simp only [PortItem.str, List.mem_append, List.mem_cons] at hc
    rcases hc with h | h | h
    · exact numeral_noChar lo ',' (Or.inl rfl) c h
    · subst h; decide
    · exact numeral_noChar hi ',' (Or.inl rfl) c h

theorem numeral_parse16 (n : Numeral) (h : n.val < 65536) : parseUint n.str 16 = some n.val := by
  have := parseUint_digits n.ds n.ne 16
  simp only [Numeral.str, Numeral.val] at *
  rw [this]
  have h' : digitsVal n.ds < 2 ^ 16 := by simpa using h
  simp [h']

def parseItem (item : Str) : Option (List Nat) :=
  match cutDash item [] with
  | (a, none) => (parseUint a 16).map fun v => [v]
  | (a, some b) =>
    match parseUint a 16, parseUint b 16 with
    | some x, some y => some [x, y]
    | _, _ => none

theorem parsePorts_eq (s : Str) : parsePorts s = (splitOn ',' s []).mapM parseItem := rfl

theorem item_parse (p : PortItem) (h : p.WF) : parseItem p.str = some p.denote := by
  cases p with
  | one n =>
    simp only [parseItem, PortItem.str, PortItem.denote]
    rw [cutDash_nodash n.str [] (numeral_noChar n '-' (Or.inr rfl))]
    simp [numeral_parse16 n h]
  | range lo hi =>
    simp only [parseItem, PortItem.str, PortItem.denote]
    rw [cutDash_dash lo.str hi.str [] (numeral_noChar lo '-' (Or.inr rfl))]
    simp [numeral_parse16 lo h.1, numeral_parse16 hi h.2]

theorem mapM_map_some {α β γ : Type} (f : β → Option γ) (g : α → β) (hh : α → γ) :
    ∀ (l : List α), (∀ x ∈ l, f (g x) = some (hh x)) → (l.map g).mapM f = some (l.map hh)
  | [], _ => rfl
  | x :: l, h => by
    simp only [List.map_cons, List.mapM_cons, h x (by simp), mapM_map_some f g hh l (fun y hy => h y (by simp [hy]))]
    rfl

theorem ports_parse (ps : List PortItem) (hne : ps ≠ []) (h : ∀ p ∈ ps, p.WF) :
    parsePorts (portsStr ps) = some (ps.map PortItem.denote) := by
  rw [parsePorts_eq, portsStr]
  rw [splitOn_joinSep ',' _ (by simpa using hne) (by
    intro t ht
    simp only [List.mem_map] at ht
    obtain ⟨p, _, rfl⟩ := ht
    exact item_noComma p)]
  exact mapM_map_some parseItem PortItem.str PortItem.denote ps (fun p hp => item_parse p (h p hp))

theorem to_is_not_ports : parsePorts kwTo = none := by decide

/-! ### the rule -/

theorem numeral_parse8 (n : Numeral) (h : n.val < 256) : parseUint n.str 8 = some n.val := by
  have := parseUint_digits n.ds n.ne 8
  simp only [Numeral.str, Numeral.val] at *
  rw [this]
  have h' : digitsVal n.ds < 2 ^ 8 := by simpa using h
  simp [h']

theorem numeral_not_ip (n : Numeral) : n.str ≠ kwIp := by
  intro hc
  have : ∀ c ∈ n.str, isDigit c = true := by
    intro c hc'
    simp only [Numeral.str, digitsStr, List.mem_map] at hc'
    obtain ⟨d, _, rfl⟩ := hc'
    exact isDigit_digitChar d
  rw [hc] at this
  have := this 'i' (by simp [kwIp])
  revert this; decide

theorem proto_parse (r : Rule) (hp : ∀ n, r.proto = some n → n.val < 256) : parseProto r.protoTok = some r.protoVal := by
  unfold parseProto Rule.protoTok Rule.protoVal
  cases hpr : r.proto with
  | none => simp
  | some n =>
    have : (n.str == kwIp) = false := by simpa using numeral_not_ip n
    simp only [this, Bool.false_eq_true, if_false]
    exact numeral_parse8 n (hp n hpr)

theorem dir_valid (r : Rule) : validDir r.dirTok = true := by
  unfold validDir Rule.dirTok; cases r.dirIn <;> decide

/-- `… [ports] to <address> [ports]` of the rule -/
theorem tail_parse (r : Rule) (hs : ∀ p ∈ r.sports, p.WF) (hd : ∀ p ∈ r.dports, p.WF) :
    parseTail ((if r.sports.isEmpty then [] else [portsStr r.sports]) ++ [kwTo, r.dst.str] ++
               (if r.dports.isEmpty then [] else [portsStr r.dports])) =
      some (r.sports.map PortItem.denote, r.dst.denote, r.dports.map PortItem.denote) := by
  have hdst := addr_parse r.dst
  have htail : tailPorts (if r.dports.isEmpty then [] else [portsStr r.dports]) = r.dports.map PortItem.denote := by
    by_cases hde : r.dports.isEmpty
    · have hd0 : r.dports = [] := by simpa using hde
      simp [hde, tailPorts, hd0]
    · have hpd := ports_parse r.dports (by intro hc; simp [hc] at hde) hd
      simp [hde, tailPorts, hpd]
  by_cases hse : r.sports.isEmpty
  · have hs0 : r.sports = [] := by simpa using hse
    have e : (if r.sports.isEmpty then [] else [portsStr r.sports]) = ([] : List Str) := by simp [hse]
    rw [e, hs0]
    simp only [List.nil_append, List.cons_append, parseTail, takePorts, to_is_not_ports, hdst,
      beq_self_eq_true, if_true, htail, List.map_nil]
  · have hps := ports_parse r.sports (by intro hc; simp [hc] at hse) hs
    have e : (if r.sports.isEmpty then [] else [portsStr r.sports]) = [portsStr r.sports] := by simp [hse]
    rw [e]
    simp only [List.cons_append, List.nil_append, parseTail, takePorts, hps, hdst,
      beq_self_eq_true, if_true, htail]

/-- the parser, fed the rule's tokens, returns the rule's denotation -/
theorem parseTokens_rule (r : Rule) (wf : r.WF) : parseTokens r.tokens = some r.denote := by
  obtain ⟨hp, hs, hd⟩ := wf
  have h1 := proto_parse r hp
  have h2 := addr_parse r.src
  have h3 := tail_parse r hs hd
  have h4 := dir_valid r
  unfold Rule.tokens
  simp only [List.cons_append, List.nil_append, List.append_assoc] at h3 ⊢
  simp only [parseTokens, beq_self_eq_true, h4, Bool.and_self, if_true, h1, h2]
  rw [h3]
  rfl

/-! ### spacing -/

/-- separators: white space only, and non-empty between two tokens (the run after the last token may be empty) -/
def WFSeps : List Str → Prop
  | [] => True
  | [sp] => allSpace sp
  | sp :: rest => allSpace sp ∧ sp ≠ [] ∧ WFSeps rest

theorem wfToks_zip : ∀ (toks : List Str) (sps : List Str), toks.length = sps.length →
    (∀ t ∈ toks, t ≠ [] ∧ noSpace t) → WFSeps sps → WFToks (toks.zip sps)
  | [], [], _, _, _ => trivial
  | [t], [sp], _, ht, hs => ⟨(ht t (by simp)).1, (ht t (by simp)).2, hs⟩
  | t :: t2 :: toks, sp :: sp2 :: sps, hl, ht, hs => by
    obtain ⟨h1, h2, h3⟩ := hs
    refine ⟨(ht t (by simp)).1, (ht t (by simp)).2, h1, h2, ?_⟩
    exact wfToks_zip (t2 :: toks) (sp2 :: sps) (by simpa using hl) (fun u hu => ht u (by simp [hu])) h3
  | [], _ :: _, hl, _, _ => by simp at hl
  | _ :: _, [], hl, _, _ => by simp at hl
  | [_], _ :: _ :: _, hl, _, _ => by simp at hl
  | _ :: _ :: _, [_], hl, _, _ => by simp at hl

theorem noSpace_of_all (s : Str) (h : s.all (fun c => !isSpace c) = true) : noSpace s := by
  intro c hc
  have := List.all_eq_true.mp h c hc
  simpa using this

theorem noSpace_numeral (n : Numeral) : n.str ≠ [] ∧ noSpace n.str := by
  constructor
  · intro hc
    simp only [Numeral.str, digitsStr, List.map_eq_nil_iff] at hc
    exact n.ne hc
  · intro c hc
    simp only [Numeral.str, digitsStr, List.mem_map] at hc
    obtain ⟨d, _, rfl⟩ := hc
    exact isSpace_digitChar d

theorem noSpace_decStr (o : Fin 256) : noSpace (decStr o) := by
  intro c hc
  have := List.all_eq_true.mp (decStr_plain o) c hc
  simp only [Bool.and_eq_true, Bool.not_eq_true'] at this
  exact this.2

theorem noSpace_ipStr (a b c d : Fin 256) : ipStr a b c d ≠ [] ∧ noSpace (ipStr a b c d) := by
  constructor
  · intro hc
    simp only [ipStr, joinSep] at hc
    have := decStr_ne a
    cases hda : decStr a with
    | nil => exact this hda
    | cons x xs => rw [hda] at hc; simp at hc
  · intro ch hch
    simp only [ipStr, joinSep, List.mem_append, List.mem_cons] at hch
    rcases hch with h | h | h | h | h | h | h
    · exact noSpace_decStr a ch h
    · subst h; decide
    · exact noSpace_decStr b ch h
    · subst h; decide
    · exact noSpace_decStr c ch h
    · subst h; decide
    · exact noSpace_decStr d ch h

theorem noSpace_addr (x : Addr) : x.str ≠ [] ∧ noSpace x.str := by
  cases x with
  | any => exact ⟨by decide, noSpace_of_all _ (by decide)⟩
  | assigned => exact ⟨by decide, noSpace_of_all _ (by decide)⟩
  | host a b c d => exact noSpace_ipStr a b c d
  | net a b c d l =>
    have h := noSpace_ipStr a b c d
    constructor
    · intro hc
      simp only [Addr.str] at hc
      cases hi : ipStr a b c d with
      | nil => exact h.1 hi
      | cons x xs => rw [hi] at hc; simp at hc
    · intro ch hch
      simp only [Addr.str, List.mem_append, List.mem_cons] at hch
      rcases hch with h1 | h1 | h1
      · exact h.2 ch h1
      · subst h1; decide
      · exact noSpace_decStr ⟨l.val, by omega⟩ ch h1

theorem noSpace_item (p : PortItem) : p.str ≠ [] ∧ noSpace p.str := by
  cases p with
  | one n => exact noSpace_numeral n
  | range lo hi =>
    have h1 := noSpace_numeral lo
    have h2 := noSpace_numeral hi
    constructor
    · intro hc
      simp only [PortItem.str] at hc
      cases hl : lo.str with
      | nil => exact h1.1 hl
      | cons x xs => rw [hl] at hc; simp at hc
    · intro ch hch
      simp only [PortItem.str, List.mem_append, List.mem_cons] at hch
      rcases hch with h | h | h
      · exact h1.2 ch h
      · subst h; decide
      · exact h2.2 ch h

theorem noSpace_joinSep (sep : Char) (hsep : isSpace sep = false) : ∀ (items : List Str), items ≠ [] →
    (∀ t ∈ items, t ≠ [] ∧ noSpace t) → joinSep sep items ≠ [] ∧ noSpace (joinSep sep items)
  | [], h, _ => absurd rfl h
  | [t], _, ht => by simpa [joinSep] using ht t (by simp)
  | t :: t2 :: rest, _, ht => by
    have h1 := ht t (by simp)
    have ih := noSpace_joinSep sep hsep (t2 :: rest) (by simp) (fun u hu => ht u (by simp [hu]))
    constructor
    · intro hc
      simp only [joinSep] at hc
      cases hl : t with
      | nil => exact h1.1 hl
      | cons x xs => rw [hl] at hc; simp at hc
    · intro ch hch
      simp only [joinSep, List.mem_append, List.mem_cons] at hch
      rcases hch with h | h | h
      · exact h1.2 ch h
      · subst h; exact hsep
      · exact ih.2 ch h

theorem noSpace_ports (ps : List PortItem) (hne : ps ≠ []) : portsStr ps ≠ [] ∧ noSpace (portsStr ps) := by
  unfold portsStr
  apply noSpace_joinSep ',' (by decide) _ (by simpa using hne)
  intro t ht
  simp only [List.mem_map] at ht
  obtain ⟨p, _, rfl⟩ := ht
  exact noSpace_item p

theorem tokens_clean (r : Rule) : ∀ t ∈ r.tokens, t ≠ [] ∧ noSpace t := by
  intro t ht
  unfold Rule.tokens at ht
  rcases List.mem_append.mp ht with ht | ht
  · rcases List.mem_append.mp ht with ht | ht
    · rcases List.mem_append.mp ht with ht | ht
      · simp only [List.mem_cons, List.mem_nil_iff, or_false] at ht
        rcases ht with h | h | h | h | h
        · subst h; exact ⟨by decide, noSpace_of_all _ (by decide)⟩
        · subst h; unfold Rule.dirTok; cases r.dirIn <;> exact ⟨by decide, noSpace_of_all _ (by decide)⟩
        · subst h; unfold Rule.protoTok
          cases r.proto with
          | none => exact ⟨by decide, noSpace_of_all _ (by decide)⟩
          | some n => exact noSpace_numeral n
        · subst h; exact ⟨by decide, noSpace_of_all _ (by decide)⟩
        · subst h; exact noSpace_addr r.src
      · by_cases hse : r.sports.isEmpty
        · simp [hse] at ht
        · simp only [hse, Bool.false_eq_true, if_false, List.mem_cons, List.mem_nil_iff, or_false] at ht
          subst ht; exact noSpace_ports r.sports (by intro hc; simp [hc] at hse)
    · simp only [List.mem_cons, List.mem_nil_iff, or_false] at ht
      rcases ht with h | h
      · subst h; exact ⟨by decide, noSpace_of_all _ (by decide)⟩
      · subst h; exact noSpace_addr r.dst
  · by_cases hde : r.dports.isEmpty
    · simp [hde] at ht
    · simp only [hde, Bool.false_eq_true, if_false, List.mem_cons, List.mem_nil_iff, or_false] at ht
      subst ht; exact noSpace_ports r.dports (by intro hc; simp [hc] at hde)

/-- **C16, the grammar half**: every rule, in every spelling of its numerals and with every spacing, is translated
    to exactly the filter it denotes -/
theorem parse_render (r : Rule) (wf : r.WF) (lead : Str) (seps : List Str) (hlead : allSpace lead)
    (hlen : r.tokens.length = seps.length) (hseps : WFSeps seps) :
    parseFlowDesc (lead ++ joinToks (r.tokens.zip seps)) = some r.denote := by
  unfold parseFlowDesc
  rw [fields_joinToks lead _ hlead (wfToks_zip _ _ hlen (tokens_clean r) hseps)]
  have : (r.tokens.zip seps).map (·.1) = r.tokens := by
    rw [List.map_fst_zip]; omega
  rw [this]
  exact parseTokens_rule r wf

/-- every string is rejected or translated: the parser has no faulting outcome (it is a total function) -/
theorem parse_total (s : Str) : parseFlowDesc s = none ∨ ∃ f, parseFlowDesc s = some f := by
  cases parseFlowDesc s with
  | none => exact Or.inl rfl
  | some f => exact Or.inr ⟨f, rfl⟩

/-- what a packed word means: (low port, high port) -/
def portPair : List Nat → Nat × Nat
  | [a] => (a, a)
  | [a, b] => (a, b)
  | _ => (0, 0)

/-- port ranges packed as `lo << 16 | hi` words decode back to the same ranges (a single port is its own range) -/
theorem pack_unpack (ps : List (List Nat))
    (h : ∀ p ∈ ps, (∃ a, p = [a] ∧ a < 65536) ∨ (∃ a b, p = [a, b] ∧ a < 65536 ∧ b < 65536)) :
    (portWords ps).map (fun w => (w / 65536, w % 65536)) = ps.map portPair := by
  unfold portWords
  rw [List.map_map]
  apply List.map_congr_left
  intro p hp
  rcases h p hp with ⟨a, rfl, ha⟩ | ⟨a, b, rfl, ha, hb⟩
  · simp only [Function.comp, portWord, portPair, Prod.mk.injEq]; constructor <;> omega
  · simp only [Function.comp, portWord, portPair, Prod.mk.injEq]; constructor <;> omega

theorem portsOk_denote (ps : List PortItem) (h : ∀ p ∈ ps, p.WF) : C02.PortsOk (ps.map PortItem.denote) := by
  intro p hp
  obtain ⟨q, hq, rfl⟩ := List.mem_map.mp hp
  have := h q hq
  cases q with
  | one a => exact Or.inl ⟨a.val, rfl, this⟩
  | range lo hi => exact Or.inr ⟨lo.val, hi.val, rfl, this.1, this.2⟩

/-- **C16, the packing half**: the packed form handed to the data plane decodes back to the filter the rule denotes,
    source and destination exchanged for uplink PDRs -/
theorem packed_decodes (r : Rule) (wf : r.WF) (lead : Str) (seps : List Str) (hlead : allSpace lead)
    (hlen : r.tokens.length = seps.length) (hseps : WFSeps seps) (uplink : Bool) :
    (parseFlowDesc (lead ++ joinToks (r.tokens.zip seps))).map
        (fun f => Gtp5gRead.readFlow (Xlate.flowDescAttrs f uplink)) =
      some (Rules.expectFlow r.denote uplink) := by
  rw [parse_render r wf lead seps hlead hlen hseps]
  simp only [Option.map_some, Option.some.injEq]
  apply C02.readFlow_flowDescAttrs
  · exact portsOk_denote _ wf.2.1
  · exact portsOk_denote _ wf.2.2
  · show r.protoVal < 256
    unfold Rule.protoVal
    cases h : r.proto with
    | none => decide
    | some n => exact wf.1 n h

/-- what "exchanged" means, spelled out on the reader's view: the uplink view is the downlink view with the two sides swapped -/
theorem uplink_is_swap (f : FlowDesc) :
    (Rules.expectFlow f true).srcIp = (Rules.expectFlow f false).dstIp ∧
    (Rules.expectFlow f true).dstIp = (Rules.expectFlow f false).srcIp ∧
    (Rules.expectFlow f true).srcMask = (Rules.expectFlow f false).dstMask ∧
    (Rules.expectFlow f true).dstMask = (Rules.expectFlow f false).srcMask ∧
    (Rules.expectFlow f true).srcPorts = (Rules.expectFlow f false).dstPorts ∧
    (Rules.expectFlow f true).dstPorts = (Rules.expectFlow f false).srcPorts ∧
    (Rules.expectFlow f true).proto = (Rules.expectFlow f false).proto ∧
    (Rules.expectFlow f true).direction = (Rules.expectFlow f false).direction := by
  simp [Rules.expectFlow]

/-! ### non-vacuity: a concrete rule with odd spacing, a leading zero and a range -/
example : parseFlowDesc " permit\tout 017  from 10.1.2.0/24 80,1000-2000 to assigned\n".toList =
    some { dir := kwOut, proto := 17, src := { ip := [10, 1, 2, 0], mask := [255, 255, 255, 0] },
           dst := { ip := List.replicate 16 0, mask := List.replicate 16 0 },
           sports := [[80], [1000, 2000]], dports := [] } := by decide

end UpfVerif.C16
