/-
C10 — usage reports reach the owning SMF with the measured values intact.

Over `Core.serveReport` / `Core.emitOne` (report.go:15-58, 92-124; report/report.go:75-145), for every state,
every batch and every measured value:
 * `usage_batch_delivery`: a batch of usage reports for a live session whose node id resolves is answered by exactly
   one Session Report Request, sent to the node's address, with header SEID = the peer's SEID of that session,
   report type USAR, carrying the emission-loop IEs of the batch in order;
 * `ie_exact`: each IE carries the report's URR id and trigger word unchanged and the measured values unchanged
   (six counters, start/end, duration), with the measurement IEs selected by the URR's measurement method and
   information: Volume Measurement iff VOLUM (packet counters flagged iff MNOP), Duration iff DURAT, start/end
   absent exactly for START / STOPT / MACAR triggers;
 * `unknown_urr_dropped`, `unknown_session_dropped`: reports for unknown URRs / sessions are dropped and the rest
   of the batch is unaffected (C11 `other_urr_untouched`).
Known finding (recorded, see DESIGN.md §8): the destination is "<node id>:8805" resolved as udp4; for IPv6 or FQDN
node ids nothing is sent — `unresolvable_node_drops` states exactly what the code does.
-/
import UpfVerif.Model.Core
import UpfVerif.Lemmas.Core
import UpfVerif.Props.C11

namespace UpfVerif.C10
open UpfVerif.Core

theorem unknown_session_dropped (st : State) (x : Seid) (items : List RepItem) (c : Ctx)
    (h : st.lnode.lookup x = none) : serveReport st x items c = (st, c) := by
  simp [serveReport, h]

theorem unresolvable_node_drops (st : State) (x : Seid) (items : List RepItem) (c : Ctx) (s : Sess)
    (h : st.lnode.lookup x = some s) (hn : reportDest (st.nodes.getD s.rnode default).id = none) :
    serveReport st x items c = (st, c) := by
  unfold serveReport
  simp only [h, hn]

/-- the loop over a batch that consists of usage reports only just collects them, in order -/
theorem serveLoop_usars (x : Seid) (dest : String) (rs : List Report) (st : State) (c : Ctx) (us : List Report) :
    serveLoop x dest (rs.map RepItem.usar) st c us = (st, c, some (us ++ rs)) := by
  induction rs generalizing us with
  | nil => simp [serveLoop]
  | cons r rs ih => simp [serveLoop, ih, List.append_assoc]

/-- a non-empty batch of usage reports for a live session of a resolvable node: exactly one Session Report
    Request to the owner, addressed with the peer's SEID, carrying the emitted IEs in order -/
theorem usage_batch_delivery (st : State) (x : Seid) (rs : List Report) (c : Ctx) (s : Sess) (dest : String)
    (h : st.lnode.lookup x = some s) (hd : reportDest (st.nodes.getD s.rnode default).id = some dest)
    (hne : rs ≠ []) :
    (serveReport st x (rs.map RepItem.usar) c).2.outs =
      c.outs ++ [Out.send dest { kind := .srReq, seq := st.txSeq.setWidth 24, seid := some s.remoteID,
                                 rtype := some 2, usars := (emitUsars s rs 0 false).2 }] := by
  unfold serveReport
  simp only [h, hd, serveLoop_usars, List.nil_append]
  have : rs.isEmpty = false := by cases rs <;> simp_all
  simp [this, h, State.sendReq, Ctx.emit, State.setSess]

/-- content of one usage-report IE: ids, trigger and measured values are the report's own; the measurement IEs are
    selected by the URR's method / information -/
theorem ie_exact (s : Sess) (r : Report) (info : URRInfo) (h : alGet s.urrs r.urr = some info) :
    ∃ ie, (emitOne s r 0 false).2 = some ie ∧ ie.urr = r.urr ∧ ie.trig = r.trig ∧
      (ie.vol.isSome = info.volum) ∧ (∀ f cs, ie.vol = some (f, cs) → cs = r.meas.take 6 ∧ f = (if info.mnop then 0x3f#8 else 0x07#8)) ∧
      (ie.dur = if info.durat then some (r.meas.getD 8 0) else none) ∧
      (∀ a b, ie.times = some (a, b) → a = r.meas.getD 6 0 ∧ b = r.meas.getD 7 0) := by
  unfold emitOne
  simp only [h]
  refine ⟨_, rfl, rfl, by simp, ?_, ?_, rfl, ?_⟩
  · cases info.volum <;> simp
  · intro f cs hv
    cases hvol : info.volum <;> simp [hvol] at hv
    exact ⟨hv.2.symm, hv.1.symm⟩
  · intro a b ht
    split at ht
    · cases ht
    · simp at ht; exact ⟨ht.1.symm, ht.2.symm⟩

/-- start / end time are left out exactly for the START, STOPT and MACAR triggers -/
theorem times_absent_iff (s : Sess) (r : Report) (info : URRInfo) (h : alGet s.urrs r.urr = some info) :
    ∀ ie, (emitOne s r 0 false).2 = some ie →
      (ie.times = none ↔ ((r.trig &&& BitVec.ofNat 32 Gen.report.USAR_TRIG_START != 0) ||
                           (r.trig &&& BitVec.ofNat 32 Gen.report.USAR_TRIG_STOPT != 0) ||
                           (r.trig &&& BitVec.ofNat 32 Gen.report.USAR_TRIG_MACAR != 0)) = true) := by
  intro ie hie
  unfold emitOne at hie
  simp only [h, Option.some.injEq] at hie
  subst hie
  simp only [BitVec.or_zero]
  split <;> simp_all

theorem unknown_urr_dropped (s : Sess) (r : Report) (h : alGet s.urrs r.urr = none) :
    emitOne s r 0 false = (s, none) := C11.emit_unknown s r 0 false h

/-! ### non-vacuity -/
example :
    let st0 : State := {}
    let (st1, _) := step st0 (.request "p1" 1 (.assoc (some (.v4 "p1")))) {}
    let u3 : RuleIE := { id := some 3, meth := some (false, true), mnop := some true }
    let req : EstReq := { nodeID := some (.v4 "p1"), cpSeid := some 0x55#64, urr := [u3] }
    let (st2, _) := step st1 (.request "p1" 2 (.est req)) { pending := [(default, { ok := true })] }
    let rep : Report := { urr := 3, trig := 2, meas := [1, 2, 3, 4, 5, 6, 100, 200, 9] }
    let (_, o3) := step st2 (.report 1 [.usar rep, .usar { rep with urr := 4 }]) {}
    let ie3 : UsarIE := { urr := 3, seqn := 0, trig := 2, times := some (100, 200), vol := some (0x3f#8, [1, 2, 3, 4, 5, 6]), dur := none }
    o3 = [Out.send "p1" { kind := .srReq, seq := 0, seid := some 0x55#64, rtype := some 2, usars := [ie3] }] := by
  decide

end UpfVerif.C10
