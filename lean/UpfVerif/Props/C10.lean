/-
C10 — usage reports reach the owning SMF with the measured values intact.

Over `Core.serveReport` / `Core.emitOne` (report.go:15-58, 92-124; report/report.go:75-145), for every state,
every batch and every measured value:
 * `usage_batch_delivery`: a batch of usage reports for a live session whose node id resolves is answered by exactly
   one Session Report Request, sent to the node's address, with header SEID = the peer's SEID of that session,
   report type USAR, carrying the emission-loop IEs of the batch in order;
 * `ie_exact`: each IE carries the report's URR id and trigger word unchanged and the measured values unchanged
   (six counters, start/end, duration), with the measurement IEs selected by the URR's measurement method and
   information: Volume Measurement iff VOLUM (packet counters flagged iff MNOP), Duration iff DURAT, start/end
   absent exactly for START / STOPT / MACAR triggers;
 * `unknown_urr_dropped`, `unknown_session_dropped`: reports for unknown URRs / sessions are dropped and the rest
   of the batch is unaffected (C11 `other_urr_untouched`).
 * `groups_*` (the kernel's REPORT multicast, M-Krep): for EVERY message — any number of reports, sessions interleaved in any
   way — each session that has a report gets exactly one notification (`groups_keys_nodup`, `mem_seids`), carrying exactly
   its own reports in message order (`groups_own`), nothing is lost or duplicated (`groups_total`), and what a session
   gets does not depend on the other sessions' reports (`groupOf_other`) nor on the order of notification.
`dest_total`, `non_ipv4_node_falls_back`: the destination is "<node id>:8805" resolved as udp4; for IPv6 or FQDN node ids
(which do not resolve) the report goes to the address the node associated from — before the `fix:` commit it was dropped.
-/
import UpfVerif.Model.Core
import UpfVerif.Model.Krep
import UpfVerif.Lemmas.Core
import UpfVerif.Lemmas.CoreRef
import UpfVerif.Props.C11

namespace UpfVerif.C10
open UpfVerif.Core

theorem unknown_session_dropped (st : State) (x : Seid) (items : List RepItem) (c : Ctx)
    (h : st.lnode.lookup x = none) : serveReport st x items c = (st, c) := by
  simp [serveReport, h]

/-- every node has a destination: the IPv4 node id's address, or — for an IPv6 / FQDN node id, which does not resolve as
    udp4 — the address the node associated from (the `fix:` commit: such reports used to be dropped, and the buffered
    packet with them) -/
theorem dest_total (n : RNode) : ∃ d, reportDest n = some d := by
  unfold reportDest
  cases n.id <;> exact ⟨_, rfl⟩

theorem non_ipv4_node_falls_back (n : RNode) (h : ∀ p, n.id ≠ .v4 p) : reportDest n = some n.addr := by
  unfold reportDest
  cases hid : n.id with
  | v4 p => exact absurd hid (h p)
  | v6 _ => rfl
  | fqdn _ => rfl

/-- the loop over a batch that consists of usage reports only just collects them, in order -/
theorem serveLoop_usars (x : Seid) (dest : String) (rs : List Report) (st : State) (c : Ctx) (us : List Report) :
    serveLoop x dest (rs.map RepItem.usar) st c us = (st, c, some (us ++ rs)) := by
  induction rs generalizing us with
  | nil => simp [serveLoop]
  | cons r rs ih => simp [serveLoop, ih, List.append_assoc]

/-- a non-empty batch of usage reports for a live session of a resolvable node: exactly one Session Report
    Request to the owner, addressed with the peer's SEID, carrying the emitted IEs in order -/
theorem usage_batch_delivery (st : State) (x : Seid) (rs : List Report) (c : Ctx) (s : Sess) (dest : String)
    (h : st.lnode.lookup x = some s) (hd : reportDest (st.nodes.getD s.rnode default) = some dest)
    (hne : rs ≠ []) :
    (serveReport st x (rs.map RepItem.usar) c).2.outs =
      c.outs ++ [Out.send dest { kind := .srReq, seq := st.txSeq.setWidth 24, seid := some s.remoteID,
                                 rtype := some 2, usars := (emitUsars s rs 0 false).2 }] := by
  unfold serveReport
  simp only [h, hd, serveLoop_usars, List.nil_append]
  have : rs.isEmpty = false := by cases rs <;> simp_all
  simp [this, h, State.sendReq, Ctx.emit, State.setSess]

/-- content of one usage-report IE: ids, trigger and measured values are the report's own; the measurement IEs are
    selected by the URR's method / information -/
theorem ie_exact (s : Sess) (r : Report) (info : URRInfo) (h : alGet s.urrs r.urr = some info) :
    ∃ ie, (emitOne s r 0 false).2 = some ie ∧ ie.urr = r.urr ∧ ie.trig = r.trig ∧
      (ie.vol.isSome = info.volum) ∧ (∀ f cs, ie.vol = some (f, cs) → cs = r.meas.take 6 ∧ f = (if info.mnop then 0x3f#8 else 0x07#8)) ∧
      (ie.dur = if info.durat then some (r.meas.getD 8 0) else none) ∧
      (∀ a b, ie.times = some (a, b) → a = r.meas.getD 6 0 ∧ b = r.meas.getD 7 0) := by
  unfold emitOne
  simp only [h]
  refine ⟨_, rfl, rfl, by simp, ?_, ?_, rfl, ?_⟩
  · cases info.volum <;> simp
  · intro f cs hv
    cases hvol : info.volum <;> simp [hvol] at hv
    exact ⟨hv.2.symm, hv.1.symm⟩
  · intro a b ht
    split at ht
    · cases ht
    · simp at ht; exact ⟨ht.1.symm, ht.2.symm⟩

/-! ### where a report goes: every datagram `ServeReport` sends — downlink-data notifications and the usage batch, in any
mixture — goes to the one destination worked out for the reporting session's node -/

/-- `c'` extends `c` by outputs whose datagrams all go to `dest` -/
def OnlyTo (dest : String) (c c' : Ctx) : Prop :=
  ∃ l, c'.outs = c.outs ++ l ∧ ∀ o ∈ l, ∀ to m, o = Out.send to m → to = dest

theorem OnlyTo.refl (dest : String) (c : Ctx) : OnlyTo dest c c := ⟨[], by simp, fun o ho => by cases ho⟩

theorem OnlyTo.trans {dest : String} {a b c : Ctx} (h1 : OnlyTo dest a b) (h2 : OnlyTo dest b c) : OnlyTo dest a c := by
  obtain ⟨l1, e1, p1⟩ := h1
  obtain ⟨l2, e2, p2⟩ := h2
  refine ⟨l1 ++ l2, by rw [e2, e1, List.append_assoc], ?_⟩
  intro o ho
  rcases List.mem_append.mp ho with h | h
  · exact p1 o h
  · exact p2 o h

theorem sendReq_onlyTo (st : State) (dest : String) (m : Msg) (c : Ctx) : OnlyTo dest c (st.sendReq dest m c).2 := by
  refine ⟨[Out.send dest { m with seq := st.txSeq.setWidth 24 }], by simp [State.sendReq, Ctx.emit], ?_⟩
  intro o ho to m' he
  simp only [List.mem_singleton] at ho
  subst ho
  cases he
  rfl

theorem serveLoop_onlyTo (x : Seid) (dest : String) (items : List RepItem) : ∀ (st : State) (c : Ctx) (us : List Report),
    OnlyTo dest c (serveLoop x dest items st c us).2.1 := by
  induction items with
  | nil => intro st c us; exact OnlyTo.refl dest c
  | cons it rest ih =>
    intro st c us
    cases it with
    | usar r => simp only [serveLoop]; exact ih st c _
    | dldr pdr act pkt =>
      simp only [serveLoop]
      split
      · exact OnlyTo.refl dest c
      · cases hl : (st.pushPkt x pdr act pkt).lnode.lookup x with
        | none => simp only []; exact ih _ c us
        | some s =>
          simp only []
          exact OnlyTo.trans (sendReq_onlyTo _ dest _ c) (ih _ _ us)

/-- **destination**: whatever the notification carries — any number of downlink-data reports and usage reports, in any
    order — every datagram it causes goes to the destination of the node that owns the reporting session at that moment
    (`reportDest`: the IPv4 node id's address, else the address that node associated from); none goes anywhere else -/
theorem report_goes_to_owner (st : State) (x : Seid) (items : List RepItem) (c : Ctx) (s : Sess) (dest : String)
    (h : st.lnode.lookup x = some s) (hd : reportDest (st.nodes.getD s.rnode default) = some dest) :
    OnlyTo dest c (serveReport st x items c).2 := by
  unfold serveReport
  simp only [h, hd]
  have hl := serveLoop_onlyTo x dest items st c []
  rcases hs : serveLoop x dest items st c [] with ⟨st1, c1, o⟩
  rw [hs] at hl
  simp only [] at hl
  cases o with
  | none => exact hl
  | some us =>
    simp only []
    split
    · exact hl
    · cases hl1 : st1.lnode.lookup x with
      | none => exact hl
      | some s1 =>
        simp only []
        exact OnlyTo.trans hl (sendReq_onlyTo _ dest _ c1)

/-- after a takeover by an IPv4 node id the reports of the node's sessions go to the NEW owner — the destination is worked
    out per report from the node's current id, nothing is remembered from before -/
theorem after_takeover_new_owner (st : State) (h : Nat) (p : String) (hh : h < st.nodes.length) :
    reportDest ((st.takeover (some (.v4 p)) h).nodes.getD h default) = some p := by
  simp [State.takeover, State.updateNodeID, State.modNode, reportDest, List.getD, List.getElem?_modify, hh]

/-- the takeover finding (C05 `takeoverNode`) as it shows here: a takeover by an IPv6 / FQDN node id renames the OLD node
    object, which keeps the address the old node associated from — that is where the reports keep going -/
theorem after_takeover_non_ipv4_old_address (st : State) (h : Nat) (nid : NodeId) (hn : ∀ p, nid ≠ .v4 p)
    (hh : h < st.nodes.length) :
    reportDest ((st.takeover (some nid) h).nodes.getD h default) = some (st.nodes.getD h default).addr := by
  have hm : ((st.takeover (some nid) h).nodes.getD h default) = { (st.nodes.getD h default) with id := nid } := by
    simp [State.takeover, State.updateNodeID, State.modNode, List.getD, List.getElem?_modify, hh]
  rw [hm]
  exact non_ipv4_node_falls_back _ (by intro p; exact hn p)

/-- an Update URR changes what it carries and nothing else: with the method alone the recorded MNOP stays, with the
    information alone the recorded method stays, with neither nothing changes — so later reports keep the IE selection the
    SMF last asked for -/
theorem update_keeps_absent (info : URRInfo) (ie : RuleIE) :
    (ie.meth = none → (info.applyUpdate ie).durat = info.durat ∧ (info.applyUpdate ie).volum = info.volum) ∧
    (ie.mnop = none → (info.applyUpdate ie).mnop = info.mnop) ∧
    (∀ d v, ie.meth = some (d, v) → (info.applyUpdate ie).durat = d ∧ (info.applyUpdate ie).volum = v) ∧
    (∀ m, ie.mnop = some m → (info.applyUpdate ie).mnop = m) := by
  unfold URRInfo.applyUpdate
  refine ⟨?_, ?_, ?_, ?_⟩
  · intro h; rw [h]; cases ie.mnop <;> exact ⟨rfl, rfl⟩
  · intro h; rw [h]; cases ie.meth <;> first | rfl | trivial
  · intro d v h; rw [h]; cases ie.mnop <;> exact ⟨rfl, rfl⟩
  · intro m h; rw [h]

/-- one IE, any carrier (`extra` = TERMR / IMMER / nothing; with or without dropping removed URRs): id, trigger word and the
    measured values are those of THE report it was made from -/
theorem ie_from (s : Sess) (r : Report) (x : BitVec 32) (b : Bool) (ie : UsarIE) (h : (emitOne s r x b).2 = some ie) :
    ie.urr = r.urr ∧ ie.trig = r.trig ||| x ∧
    (∀ f cs, ie.vol = some (f, cs) → cs = r.meas.take 6) ∧ (∀ d, ie.dur = some d → d = r.meas.getD 8 0) ∧
    (∀ a b', ie.times = some (a, b') → a = r.meas.getD 6 0 ∧ b' = r.meas.getD 7 0) := by
  unfold emitOne at h
  split at h
  · cases h
  · rename_i info _
    simp only [Option.some.injEq] at h
    subst h
    refine ⟨rfl, rfl, ?_, ?_, ?_⟩
    · intro f cs hv
      cases hvol : info.volum <;> simp [hvol] at hv
      exact hv.2.symm
    · intro d hd
      cases hdur : info.durat <;> simp [hdur] at hd
      exact hd.symm
    · intro a b' ht
      split at ht
      · cases ht
      · simp at ht; exact ⟨ht.1.symm, ht.2.symm⟩

/-- **a message carrying several usage reports**: every usage-report IE in it was made from one of the reports handed over
    — its own URR id, its own trigger word (plus the carrier's flag, nothing of a neighbour's), its own counters, times
    and duration — whatever the number of reports, their order, and the URRs they name -/
theorem each_ie_from_its_report (rs : List Report) (x : BitVec 32) (b : Bool) : ∀ (s : Sess) (ie : UsarIE),
    ie ∈ (emitUsars s rs x b).2 →
    ∃ r ∈ rs, ie.urr = r.urr ∧ ie.trig = r.trig ||| x ∧
      (∀ f cs, ie.vol = some (f, cs) → cs = r.meas.take 6) ∧ (∀ d, ie.dur = some d → d = r.meas.getD 8 0) ∧
      (∀ a b', ie.times = some (a, b') → a = r.meas.getD 6 0 ∧ b' = r.meas.getD 7 0) := by
  induction rs with
  | nil => intro s ie h; simp [emitUsars] at h
  | cons r rest ih =>
    intro s ie h
    simp only [emitUsars, List.mem_append, Option.mem_toList] at h
    rcases h with h | h
    · exact ⟨r, by simp, ie_from s r x b ie h⟩
    · obtain ⟨r', hr', hp⟩ := ih _ ie h
      exact ⟨r', by simp [hr'], hp⟩

/-- … and no more IEs than reports -/
theorem ies_le_reports (rs : List Report) (x : BitVec 32) (b : Bool) : ∀ (s : Sess), (emitUsars s rs x b).2.length ≤ rs.length := by
  induction rs with
  | nil => intro s; simp [emitUsars]
  | cons r rest ih =>
    intro s
    simp only [emitUsars, List.length_append, List.length_cons]
    have h1 : (emitOne s r x b).2.toList.length ≤ 1 := by cases (emitOne s r x b).2 <;> simp
    have h2 := ih (emitOne s r x b).1
    omega

/-- start / end time are left out exactly for the START, STOPT and MACAR triggers -/
theorem times_absent_iff (s : Sess) (r : Report) (info : URRInfo) (h : alGet s.urrs r.urr = some info) :
    ∀ ie, (emitOne s r 0 false).2 = some ie →
      (ie.times = none ↔ ((r.trig &&& BitVec.ofNat 32 Gen.report.USAR_TRIG_START != 0) ||
                           (r.trig &&& BitVec.ofNat 32 Gen.report.USAR_TRIG_STOPT != 0) ||
                           (r.trig &&& BitVec.ofNat 32 Gen.report.USAR_TRIG_MACAR != 0)) = true) := by
  intro ie hie
  unfold emitOne at hie
  simp only [h, Option.some.injEq] at hie
  subst hie
  simp only [BitVec.or_zero]
  split <;> simp_all

theorem unknown_urr_dropped (s : Sess) (r : Report) (h : alGet s.urrs r.urr = none) :
    emitOne s r 0 false = (s, none) := C11.emit_unknown s r 0 false h

/-! ### the REPORT multicast: grouping by session -/
section Grouping
open UpfVerif.Krep
variable {α : Type}

theorem nodup_eraseDups' (l : List Nat) : l.eraseDups.Nodup := Core.nodup_eraseDups l

/-- one notification per session -/
theorem groups_keys_nodup (items : List (Nat × α)) : ((groups items).map (·.1)).Nodup := by
  have : (groups items).map (·.1) = seids items := by
    simp [groups, List.map_map, Function.comp_def]
  rw [this]; exact nodup_eraseDups' _

/-- exactly the sessions that have a report in the message are notified -/
theorem mem_seids (items : List (Nat × α)) (x : Nat) : x ∈ seids items ↔ ∃ r, (x, r) ∈ items := by
  unfold seids
  rw [List.mem_eraseDups, List.mem_map]
  constructor
  · rintro ⟨p, hp, rfl⟩; exact ⟨p.2, hp⟩
  · rintro ⟨r, hr⟩; exact ⟨(x, r), hr, rfl⟩

/-- each notification carries exactly its session's reports, in message order — and is not empty -/
theorem groups_own (items : List (Nat × α)) (x : Nat) (g : List α) (h : (x, g) ∈ groups items) :
    g = groupOf items x ∧ g ≠ [] := by
  unfold groups at h
  obtain ⟨y, hy, e⟩ := List.mem_map.mp h
  simp only [Prod.mk.injEq] at e
  obtain ⟨rfl, rfl⟩ := e
  refine ⟨rfl, ?_⟩
  obtain ⟨r, hr⟩ := (mem_seids items y).mp hy
  intro he
  have : r ∈ groupOf items y := by
    unfold groupOf
    exact List.mem_map.mpr ⟨(y, r), List.mem_filter.mpr ⟨hr, by simp⟩, rfl⟩
  rw [he] at this; cases this

/-- a session's notification is a function of its own reports only: adding, removing or re-ordering other sessions'
    reports (known or unknown sessions alike) does not change it -/
theorem groupOf_other (items : List (Nat × α)) (x : Nat) :
    groupOf items x = groupOf (items.filter (·.1 == x)) x := by
  unfold groupOf
  rw [List.filter_filter]
  congr 1
  apply List.filter_congr
  intro p _; simp

theorem sum_zero (L : List Nat) : (L.map fun _ => 0).sum = 0 := by
  induction L with
  | nil => rfl
  | cons y L ih => simp only [List.map_cons, List.sum_cons, ih]

theorem sum_indicator (L : List Nat) (a : Nat) (hn : L.Nodup) (ha : a ∈ L) :
    (L.map fun x => if x = a then 1 else 0).sum = 1 := by
  induction L with
  | nil => cases ha
  | cons y L ih =>
    rw [List.nodup_cons] at hn
    simp only [List.map_cons, List.sum_cons]
    by_cases hy : y = a
    · subst hy
      have : (L.map fun x => if x = y then 1 else 0) = L.map fun _ => 0 := by
        apply List.map_congr_left
        intro x hx
        have : x ≠ y := fun e => hn.1 (e ▸ hx)
        simp [this]
      rw [this, sum_zero]; simp
    · have ha' : a ∈ L := by
        rcases List.mem_cons.mp ha with h | h
        · exact absurd h.symm hy
        · exact h
      simp [hy, ih hn.2 ha']

theorem sum_groups_aux (L : List Nat) (hn : L.Nodup) (items : List (Nat × α)) (hc : ∀ p ∈ items, p.1 ∈ L) :
    (L.map fun x => (groupOf items x).length).sum = items.length := by
  induction items with
  | nil => simp only [groupOf, List.filter_nil, List.map_nil, List.length_nil]; exact sum_zero L
  | cons p items ih =>
    have hp : p.1 ∈ L := hc p (by simp)
    have ih' := ih (fun q hq => hc q (by simp [hq]))
    have e : ∀ x, (groupOf (p :: items) x).length = (if x = p.1 then 1 else 0) + (groupOf items x).length := by
      intro x
      unfold groupOf
      by_cases hx : x = p.1
      · subst hx; simp [List.filter]
        omega
      · have : (p.1 == x) = false := by simpa using (Ne.symm hx)
        simp [List.filter, this, hx]
    have : (L.map fun x => (groupOf (p :: items) x).length) =
        L.map fun x => (if x = p.1 then 1 else 0) + (groupOf items x).length := by
      apply List.map_congr_left; intro x _; exact e x
    rw [this]
    have hs : ∀ (f g : Nat → Nat) (l : List Nat), (l.map fun x => f x + g x).sum = (l.map f).sum + (l.map g).sum := by
      intro f g l
      induction l with
      | nil => simp
      | cons y l ihl => simp only [List.map_cons, List.sum_cons, ihl]; omega
    rw [hs, sum_indicator L p.1 hn hp, ih']
    simp only [List.length_cons]; omega

/-- nothing is lost, nothing is delivered twice: the notifications together carry as many reports as the message -/
theorem groups_total (items : List (Nat × α)) : ((groups items).map (·.2.length)).sum = items.length := by
  have e : (groups items).map (·.2.length) = (seids items).map fun x => (groupOf items x).length := by
    simp [groups, List.map_map, Function.comp_def]
  rw [e]
  apply sum_groups_aux _ (nodup_eraseDups' _)
  intro p hp
  exact (mem_seids items p.1).mpr ⟨p.2, by simpa using hp⟩

example : groups [(5, "a"), (9, "b"), (5, "c"), (7, "d"), (9, "e")] = [(5, ["a", "c"]), (9, ["b", "e"]), (7, ["d"])] := by
  decide

end Grouping

/-! ### non-vacuity -/
example :
    let st0 : State := {}
    let (st1, _) := step st0 (.request "p1" 1 (.assoc (some (.v4 "p1")))) {}
    let u3 : RuleIE := { id := some 3, meth := some (false, true), mnop := some true }
    let req : EstReq := { nodeID := some (.v4 "p1"), cpSeid := some 0x55#64, urr := [u3] }
    let (st2, _) := step st1 (.request "p1" 2 (.est req)) { pending := [(default, { ok := true })] }
    let rep : Report := { urr := 3, trig := 2, meas := [1, 2, 3, 4, 5, 6, 100, 200, 9] }
    let (_, o3) := step st2 (.report 1 [.usar rep, .usar { rep with urr := 4 }]) {}
    let ie3 : UsarIE := { urr := 3, seqn := 0, trig := 2, times := some (100, 200), vol := some (0x3f#8, [1, 2, 3, 4, 5, 6]), dur := none }
    o3 = [Out.send "p1" { kind := .srReq, seq := 0, seid := some 0x55#64, rtype := some 2, usars := [ie3] }] := by
  decide

end UpfVerif.C10
