/-
C04 — every SEID resolves to exactly the live session it was issued for.

The session table `LocalNode{sess []*Sess; free []uint64}` (node.go:612-690) against the abstract
"partial map SEID ⇀ session": `lookup` is exact for all 2^64 SEID values, allocation returns a non-zero SEID
that no live session holds and disturbs no other entry, release frees exactly one entry, and the
invariant that makes this true is preserved by every operation — hence by every interleaving of
establishments, deletions, re-associations and SEID-0 responses (they reach the table only through
these three operations).
-/
import UpfVerif.Model.Core

namespace UpfVerif.C04
open UpfVerif.Core

/-- slot `i` of the slice (nil beyond the end) -/
def slot (n : LNode) (i : Nat) : Option Sess := n.sess.getD i none

/-- well-formedness of the table -/
structure TableWF (n : LNode) : Prop where
  freeNodup : n.free.Nodup
  freeRange : ∀ f ∈ n.free, 1 ≤ f.toNat ∧ f.toNat ≤ n.sess.length
  freeIffNil : ∀ i, i < n.sess.length → (slot n i = none ↔ BitVec.ofNat 64 (i + 1) ∈ n.free)
  ownId : ∀ i s, slot n i = some s → s.localID.toNat = i + 1
  small : n.sess.length < 2 ^ 64

/-- release as `LocalNode.DeleteSess` performs it after `Close` returned -/
def release (n : LNode) (x : Seid) : LNode :=
  { sess := n.sess.set (x.toNat - 1) none, free := n.free ++ [x] }

theorem wf_empty : TableWF {} := by
  constructor <;> simp [slot]

/-! ### lookup is exact, for every 64-bit value -/

@[simp] theorem lookup_zero (n : LNode) : n.lookup 0#64 = none := by simp [LNode.lookup]
theorem lookup_zero' (n : LNode) : n.lookup 0 = none := lookup_zero n

theorem lookup_beyond (n : LNode) (x : Seid) (h : x.toNat > n.sess.length) : n.lookup x = none := by
  unfold LNode.lookup
  by_cases h0 : x = 0#64
  · simp [h0]
  · simp [h0, h]

theorem lookup_eq_slot (n : LNode) (x : Seid) (h0 : x ≠ 0) (h : x.toNat ≤ n.sess.length) :
    n.lookup x = slot n (x.toNat - 1) := by
  unfold LNode.lookup slot
  have h00 : ¬ x = 0#64 := h0
  have h' : ¬ x.toNat > n.sess.length := by omega
  simp [h00, h']

theorem toNat_pos_of_ne_zero (x : Seid) (h : x ≠ 0) : 1 ≤ x.toNat := by
  have : x.toNat ≠ 0 := by
    intro hc
    apply h
    apply BitVec.eq_of_toNat_eq
    simpa using hc
  omega

/-- a hit returns the session that carries this very SEID -/
theorem lookup_some_id (n : LNode) (wf : TableWF n) (x : Seid) (s : Sess) (h : n.lookup x = some s) :
    s.localID = x := by
  by_cases h0 : x = 0
  · subst h0; rw [lookup_zero'] at h; cases h
  by_cases hb : x.toNat > n.sess.length
  · simp [lookup_beyond n x hb] at h
  have hle : x.toNat ≤ n.sess.length := by omega
  rw [lookup_eq_slot n x h0 hle] at h
  have := wf.ownId _ _ h
  have hp := toNat_pos_of_ne_zero x h0
  apply BitVec.eq_of_toNat_eq
  omega

/-- a released SEID is answered "not found" -/
theorem lookup_free (n : LNode) (wf : TableWF n) (x : Seid) (h : x ∈ n.free) : n.lookup x = none := by
  have ⟨h1, h2⟩ := wf.freeRange x h
  have h0 : x ≠ 0 := by
    intro hc; subst hc; simp at h1
  rw [lookup_eq_slot n x h0 h2]
  have hi : x.toNat - 1 < n.sess.length := by omega
  apply (wf.freeIffNil _ hi).mpr
  have : x.toNat - 1 + 1 = x.toNat := by omega
  rw [this]
  simpa using h

/-- live SEIDs: those whose lookup hits -/
def live (n : LNode) (x : Seid) : Prop := (n.lookup x).isSome

/-- every other value — zero, beyond the table, ≥ 2^63, released — is a miss: the complement of `live`
    is exactly "zero, or out of range, or on the free list" -/
theorem miss_iff (n : LNode) (wf : TableWF n) (x : Seid) :
    n.lookup x = none ↔ (x = 0 ∨ x.toNat > n.sess.length ∨ x ∈ n.free) := by
  constructor
  · intro h
    by_cases h0 : x = 0
    · exact Or.inl h0
    by_cases hb : x.toNat > n.sess.length
    · exact Or.inr (Or.inl hb)
    right; right
    have hle : x.toNat ≤ n.sess.length := by omega
    rw [lookup_eq_slot n x h0 hle] at h
    have hp := toNat_pos_of_ne_zero x h0
    have hi : x.toNat - 1 < n.sess.length := by omega
    have := (wf.freeIffNil _ hi).mp h
    have e : x.toNat - 1 + 1 = x.toNat := by omega
    rw [e] at this
    simpa using this
  · rintro (h | h | h)
    · subst h; exact lookup_zero n
    · exact lookup_beyond n x h
    · exact lookup_free n wf x h


/-! ### helper facts about slots -/

theorem slot_set_eq (l : List (Option Sess)) (f : List Seid) (i : Nat) (v : Option Sess) (h : i < l.length) :
    slot { sess := l.set i v, free := f } i = v := by
  simp [slot, List.getD_eq_getElem?_getD, List.getElem?_set, h]

theorem slot_set_ne (l : List (Option Sess)) (f f' : List Seid) (i j : Nat) (v : Option Sess) (h : i ≠ j) :
    slot { sess := l.set i v, free := f } j = slot { sess := l, free := f' } j := by
  simp [slot, List.getD_eq_getElem?_getD, List.getElem?_set, h]

theorem ofNat_inj_small (a b : Nat) (ha : a < 2 ^ 64) (hb : b < 2 ^ 64) (h : BitVec.ofNat 64 a = BitVec.ofNat 64 b) :
    a = b := by
  have := congrArg BitVec.toNat h
  simp [BitVec.toNat_ofNat] at this
  omega

theorem ofNat_toNat_self (x : Seid) : BitVec.ofNat 64 x.toNat = x := by simp

/-! ### release -/

theorem release_wf (n : LNode) (wf : TableWF n) (x : Seid) (s : Sess) (h : n.lookup x = some s) :
    TableWF (release n x) := by
  have hx0 : x ≠ 0 := by intro hc; subst hc; rw [lookup_zero'] at h; cases h
  have hxle : x.toNat ≤ n.sess.length := by
    by_cases hb : x.toNat > n.sess.length
    · rw [lookup_beyond n x hb] at h; cases h
    · omega
  have hxp := toNat_pos_of_ne_zero x hx0
  have hnotfree : x ∉ n.free := by
    intro hc; rw [lookup_free n wf x hc] at h; cases h
  have hidx : x.toNat - 1 < n.sess.length := by omega
  have hsmall := wf.small
  constructor
  · -- Nodup
    simp only [release]
    exact List.nodup_append.mpr ⟨wf.freeNodup, by simp, by
      intro a ha b hb
      simp at hb; subst hb
      intro hc; subst hc; exact hnotfree ha⟩
  · intro f hf
    simp only [release, List.mem_append, List.mem_singleton, List.length_set] at hf ⊢
    rcases hf with hf | hf
    · exact wf.freeRange f hf
    · subst hf; exact ⟨hxp, hxle⟩
  · intro i hi
    simp only [release, List.length_set] at hi
    by_cases hie : x.toNat - 1 = i
    · subst hie
      have e : x.toNat - 1 + 1 = x.toNat := by omega
      simp only [release]
      rw [slot_set_eq _ _ _ _ hidx, e, ofNat_toNat_self]
      simp
    · simp only [release]
      rw [slot_set_ne _ _ n.free _ _ _ hie]
      have := wf.freeIffNil i hi
      rw [this]
      simp only [List.mem_append, List.mem_singleton]
      constructor
      · intro h; exact Or.inl h
      · rintro (h | h)
        · exact h
        · exfalso
          have h1 : i + 1 < 2 ^ 64 := by omega
          have := congrArg BitVec.toNat h
          simp [BitVec.toNat_ofNat] at this
          omega
  · intro i s' hs'
    by_cases hie : x.toNat - 1 = i
    · subst hie
      simp only [release] at hs'
      rw [slot_set_eq _ _ _ _ hidx] at hs'
      cases hs'
    · simp only [release] at hs'
      rw [slot_set_ne _ _ n.free _ _ _ hie] at hs'
      exact wf.ownId i s' hs'
  · simp only [release, List.length_set]; exact wf.small

/-- release removes exactly one entry of the abstract map -/
theorem release_lookup (n : LNode) (wf : TableWF n) (x : Seid) (s : Sess) (h : n.lookup x = some s) :
    (release n x).lookup x = none ∧ ∀ y, y ≠ x → (release n x).lookup y = n.lookup y := by
  have wf' := release_wf n wf x s h
  constructor
  · apply lookup_free _ wf'
    simp [release]
  · intro y hy
    by_cases hy0 : y = 0
    · subst hy0; simp
    by_cases hb : y.toNat > n.sess.length
    · rw [lookup_beyond n y hb, lookup_beyond]
      simpa [release] using hb
    · have hle : y.toNat ≤ n.sess.length := by omega
      have hle' : y.toNat ≤ (release n x).sess.length := by simpa [release] using hle
      rw [lookup_eq_slot n y hy0 hle, lookup_eq_slot _ y hy0 hle']
      have hyp := toNat_pos_of_ne_zero y hy0
      have hx0 : x ≠ 0 := by intro hc; subst hc; rw [lookup_zero'] at h; cases h
      have hxp := toNat_pos_of_ne_zero x hx0
      have hne : x.toNat - 1 ≠ y.toNat - 1 := by
        intro hc
        apply hy
        apply BitVec.eq_of_toNat_eq
        omega
      simp only [release]
      exact slot_set_ne _ _ n.free _ _ _ hne


/-! ### allocation -/

theorem slot_append_left (l : List (Option Sess)) (f f' : List Seid) (v : Option Sess) (i : Nat) (h : i < l.length) :
    slot { sess := l ++ [v], free := f } i = slot { sess := l, free := f' } i := by
  simp [slot, List.getD_eq_getElem?_getD, List.getElem?_append_left h]


theorem lookup_set_other (n : LNode) (f : List Seid) (i : Nat) (v : Option Sess) (y : Seid)
    (hne : y.toNat - 1 ≠ i ∨ y = 0) :
    ({ sess := n.sess.set i v, free := f } : LNode).lookup y = n.lookup y := by
  by_cases hy0 : y = 0
  · subst hy0; simp
  by_cases hb : y.toNat > n.sess.length
  · rw [lookup_beyond n y hb, lookup_beyond]; simpa using hb
  · have hle : y.toNat ≤ n.sess.length := by omega
    rw [lookup_eq_slot n y hy0 hle, lookup_eq_slot _ y hy0 (by simpa using hle)]
    rcases hne with hne | hne
    · exact slot_set_ne _ _ n.free _ _ _ (Ne.symm hne)
    · exact absurd hne hy0

/-- allocation by re-use of the last freed id -/
theorem newSess_reuse (n : LNode) (wf : TableWF n) (h : Nat) (cp id : Seid) (hl : n.free.getLast? = some id) :
    let s : Sess := { rnode := h, localID := id, remoteID := cp }
    n.newSess h cp = ({ sess := n.sess.set (id.toNat - 1) (some s), free := n.free.dropLast }, s) := by
  simp [LNode.newSess, hl]

theorem newSess_append (n : LNode) (h : Nat) (cp : Seid) (hl : n.free = []) :
    let s : Sess := { rnode := h, localID := BitVec.ofNat 64 (n.sess.length + 1), remoteID := cp }
    n.newSess h cp = ({ n with sess := n.sess ++ [some s] }, s) := by
  simp [LNode.newSess, hl]

theorem newSess_spec (n : LNode) (wf : TableWF n) (h : Nat) (cp : Seid) (hroom : n.sess.length + 1 < 2 ^ 64) :
    TableWF (n.newSess h cp).1 ∧ (n.newSess h cp).2.localID ≠ 0 ∧
    n.lookup (n.newSess h cp).2.localID = none ∧
    (n.newSess h cp).1.lookup (n.newSess h cp).2.localID = some (n.newSess h cp).2 ∧
    (n.newSess h cp).2.remoteID = cp ∧
    ∀ y, y ≠ (n.newSess h cp).2.localID → (n.newSess h cp).1.lookup y = n.lookup y := by
  cases hl : n.free.getLast? with
  | some id =>
    rw [newSess_reuse n wf h cp id hl]
    have hmem : id ∈ n.free := List.mem_of_getLast? hl
    have hne : n.free ≠ [] := by intro hc; simp [hc] at hl
    have hgl : n.free.getLast hne = id := by
      have := List.getLast?_eq_some_getLast hne
      rw [this] at hl; exact Option.some.inj hl
    have hdec : n.free.dropLast ++ [id] = n.free := by
      have := List.dropLast_concat_getLast hne
      rw [hgl] at this; exact this
    have ⟨hr1, hr2⟩ := wf.freeRange id hmem
    have hid0 : id ≠ 0 := by intro hc; subst hc; simp at hr1
    have hidx : id.toNat - 1 < n.sess.length := by omega
    have hnd : (n.free.dropLast ++ [id]).Nodup := by rw [hdec]; exact wf.freeNodup
    have hnotin : id ∉ n.free.dropLast := by
      intro hc
      have := (List.nodup_append.mp hnd).2.2 id hc id (by simp)
      exact this rfl
    have hfree_split : ∀ z, z ∈ n.free ↔ (z ∈ n.free.dropLast ∨ z = id) := by
      intro z; rw [← hdec]; simp
    refine ⟨?_, hid0, lookup_free n wf id hmem, ?_, rfl, ?_⟩
    · constructor
      · exact (List.nodup_append.mp hnd).1
      · intro f hf
        have := wf.freeRange f ((hfree_split f).mpr (Or.inl hf))
        simpa using this
      · intro i hi
        simp only [List.length_set] at hi
        by_cases hie : id.toNat - 1 = i
        · subst hie
          rw [slot_set_eq _ _ _ _ hidx]
          have e : id.toNat - 1 + 1 = id.toNat := by omega
          rw [e, ofNat_toNat_self]
          simp [hnotin]
        · rw [slot_set_ne _ _ n.free _ _ _ hie, wf.freeIffNil i hi, hfree_split]
          constructor
          · rintro (h1 | h1)
            · exact h1
            · exfalso
              have := congrArg BitVec.toNat h1
              have hs := wf.small
              simp [BitVec.toNat_ofNat] at this
              omega
          · intro h1; exact Or.inl h1
      · intro i s' hs'
        by_cases hie : id.toNat - 1 = i
        · subst hie
          rw [slot_set_eq _ _ _ _ hidx] at hs'
          cases hs'
          simp; omega
        · rw [slot_set_ne _ _ n.free _ _ _ hie] at hs'
          exact wf.ownId i s' hs'
      · simpa using wf.small
    · rw [lookup_eq_slot _ id hid0 (by simpa using hr2)]
      exact slot_set_eq _ _ _ _ hidx
    · intro y hy
      apply lookup_set_other
      by_cases hy0 : y = 0
      · exact Or.inr hy0
      · left
        intro hc
        apply hy
        have hyp := toNat_pos_of_ne_zero y hy0
        apply BitVec.eq_of_toNat_eq
        simp only
        omega
  | none =>
    have hnil : n.free = [] := List.getLast?_eq_none_iff.mp hl
    rw [newSess_append n h cp hnil]
    have hlen : (BitVec.ofNat 64 (n.sess.length + 1)).toNat = n.sess.length + 1 := by
      simp [BitVec.toNat_ofNat]; omega
    have hid0 : BitVec.ofNat 64 (n.sess.length + 1) ≠ 0 := by
      intro hc
      have := congrArg BitVec.toNat hc
      rw [hlen] at this
      simp at this
    refine ⟨?_, hid0, ?_, ?_, rfl, ?_⟩
    · constructor
      · simp [hnil]
      · simp [hnil]
      · intro i hi
        simp only [List.length_append, List.length_singleton] at hi
        simp only [hnil, List.not_mem_nil, iff_false]
        by_cases hlt : i < n.sess.length
        · rw [slot_append_left _ _ n.free _ _ hlt]
          have := wf.freeIffNil i hlt
          simp [hnil] at this
          exact this
        · have hie : i = n.sess.length := by omega
          subst hie
          simp [slot, List.getD_eq_getElem?_getD]
      · intro i s' hs'
        by_cases hlt : i < n.sess.length
        · rw [slot_append_left _ _ n.free _ _ hlt] at hs'
          exact wf.ownId i s' hs'
        · by_cases hie : i = n.sess.length
          · subst hie
            simp [slot, List.getD_eq_getElem?_getD] at hs'
            subst hs'
            simp only
            exact hlen
          · have : n.sess.length < i := by omega
            simp [slot, List.getD_eq_getElem?_getD, List.getElem?_append_right (Nat.le_of_lt this)] at hs'
            have h2 : i - n.sess.length ≠ 0 := by omega
            cases hh : i - n.sess.length with
            | zero => exact absurd hh h2
            | succ k => simp [hh] at hs'
      · simpa using hroom
    · apply lookup_beyond; rw [hlen]; omega
    · rw [lookup_eq_slot _ _ hid0 (by rw [hlen]; simp)]
      rw [hlen]
      simp [slot, List.getD_eq_getElem?_getD]
    · intro y hy
      by_cases hy0 : y = 0
      · subst hy0; simp
      by_cases hb : y.toNat > n.sess.length
      · rw [lookup_beyond n y hb]
        by_cases hb2 : y.toNat > n.sess.length + 1
        · apply lookup_beyond; simpa using hb2
        · exfalso
          apply hy
          apply BitVec.eq_of_toNat_eq
          rw [hlen]; omega
      · have hle : y.toNat ≤ n.sess.length := by omega
        rw [lookup_eq_slot n y hy0 hle, lookup_eq_slot _ y hy0 (by simp; omega)]
        have hyp := toNat_pos_of_ne_zero y hy0
        have hlt : y.toNat - 1 < n.sess.length := by omega
        simp [slot, List.getD_eq_getElem?_getD, List.getElem?_append_left hlt]


/-! ### every reachable table: induction over all operation sequences -/

inductive TOp
  | new (cp : Seid)        -- establishment
  | del (x : Seid)         -- deletion / re-association / SEID-0 response, each through `DeleteSess`
deriving Repr

def applyOp (n : LNode) : TOp → LNode
  | .new cp => (n.newSess 0 cp).1
  | .del x => match n.lookup x with
    | some _ => release n x
    | none => n            -- "session context not found": no side effect

theorem newSess_length (n : LNode) (h : Nat) (cp : Seid) :
    (n.newSess h cp).1.sess.length ≤ n.sess.length + 1 := by
  unfold LNode.newSess
  cases n.free.getLast? <;> simp

theorem run_wf (ops : List TOp) (n : LNode) (k : Nat) (wf : TableWF n) (hk : n.sess.length ≤ k)
    (hroom : k + ops.length + 1 < 2 ^ 64) :
    TableWF (ops.foldl applyOp n) ∧ (ops.foldl applyOp n).sess.length ≤ k + ops.length := by
  induction ops generalizing n k with
  | nil => exact ⟨wf, by simpa using hk⟩
  | cons op ops ih =>
    simp only [List.foldl_cons, List.length_cons] at hroom ⊢
    have hstep : TableWF (applyOp n op) ∧ (applyOp n op).sess.length ≤ k + 1 := by
      cases op with
      | new cp =>
        have := newSess_spec n wf 0 cp (by omega)
        exact ⟨this.1, by have := newSess_length n 0 cp; simp only [applyOp]; omega⟩
      | del x =>
        cases hl : n.lookup x with
        | none =>
          have e : applyOp n (.del x) = n := by simp [applyOp, hl]
          rw [e]; exact ⟨wf, by omega⟩
        | some s =>
          have e : applyOp n (.del x) = release n x := by simp [applyOp, hl]
          rw [e]; exact ⟨release_wf n wf x s hl, by simp [release]; omega⟩
    have := ih (applyOp n op) (k + 1) hstep.1 hstep.2 (by omega)
    exact ⟨this.1, by omega⟩

/-- all histories starting from the empty table (fewer than 2^63 of them, i.e. every physically possible one) -/
theorem reachable_wf (ops : List TOp) (h : ops.length + 1 < 2 ^ 64) : TableWF (ops.foldl applyOp {}) :=
  (run_wf ops {} 0 wf_empty (by simp) (by omega)).1

/-- … and in every reachable table a lookup by any of the 2^64 values is a hit only for the session that
    carries this SEID, and a miss exactly for zero / out-of-range / released values -/
theorem reachable_lookup_exact (ops : List TOp) (h : ops.length + 1 < 2 ^ 64) (x : Seid) :
    let n := ops.foldl applyOp {}
    (∀ s, n.lookup x = some s → s.localID = x) ∧
    (n.lookup x = none ↔ (x = 0 ∨ x.toNat > n.sess.length ∨ x ∈ n.free)) :=
  ⟨fun s hs => lookup_some_id _ (reachable_wf ops h) x s hs, miss_iff _ (reachable_wf ops h) x⟩

/-! ### non-vacuity and the repaired defect -/

/-- three sessions, the middle one released and its SEID re-issued -/
example :
    let n := [TOp.new 7, .new 7, .new 9, .del 2, .new 5].foldl applyOp {}
    (n.lookup 2).map (·.remoteID) = some 5#64 ∧ (n.lookup 1).map (·.remoteID) = some 7#64 ∧
    n.lookup 0 = none ∧ n.lookup 4 = none ∧ n.lookup (BitVec.ofNat 64 (2^64 - 1)) = none ∧ n.free = [] := by
  decide

/-- The code before the `fix:` commit computed `i := int(lSeid) - 1` and tested `i >= len(n.sess)` on the
    signed value: for SEIDs in [2^63+1, 2^64-1] the index is negative, passes the test and faults. -/
def oldIndexPasses (len : Nat) (x : Seid) : Bool := decide (slotIndex x < (len : Int))
example : oldIndexPasses 0 (BitVec.ofNat 64 (2^64 - 1)) = true ∧ slotIndex (BitVec.ofNat 64 (2^64 - 1)) = -2 := by decide

end UpfVerif.C04
