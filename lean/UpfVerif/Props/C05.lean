/-
C05 — a message for one session or node never disturbs another.

Over M-Core, for every reachable table (`C04.TableWF`), every request and every environment:
 * all driver calls made for a Modification or Deletion Request are tagged with the SEID the request addresses,
 * the request rewrites only that session's slot of the table: every other SEID resolves exactly as before
   (rules, URR counters, packet queues live inside the `Sess` value, so "resolves to the same value" is the frame),
 * re-association removes sessions of the re-associating node object only,
 * the SEID-0 report response removes only a session whose control-plane SEID and node address match.
Nothing in the proofs uses distinctness of rule ids or control-plane SEIDs across sessions.
-/
import UpfVerif.Model.Core
import UpfVerif.Lemmas.CoreHandlers
import UpfVerif.Props.C04

namespace UpfVerif.C05
open UpfVerif.Core

/-- writing a live session's slot does not change what any other SEID resolves to -/
theorem setSess_frame (n : LNode) (s' : Sess) (y : Seid) (hy : y ≠ s'.localID) (h0 : s'.localID ≠ 0) :
    (n.setSess s').lookup y = n.lookup y := by
  unfold LNode.setSess
  apply C04.lookup_set_other
  by_cases hy0 : y = 0
  · exact Or.inr hy0
  · left
    intro hc
    apply hy
    have h1 := C04.toNat_pos_of_ne_zero y hy0
    have h2 := C04.toNat_pos_of_ne_zero s'.localID h0
    apply BitVec.eq_of_toNat_eq
    omega

/-- Modification Request: driver calls carry the addressed SEID -/
theorem mod_tagged_own_seid (st : State) (wf : C04.TableWF st.lnode) (addr : String) (seq : BitVec 24) (r : ModReq)
    (env : Env) (s0 : Sess) (h : st.lnode.lookup r.seid = some s0) :
    ∀ cc a, Out.dp cc a ∈ (handleMod st addr seq r env { pending := env.pending }).2.outs → cc.seid = r.seid := by
  intro cc a hm
  have hid := C04.lookup_some_id st.lnode wf r.seid s0 h
  obtain ⟨l, dl, hl⟩ := handleMod_tagged st addr seq r env { pending := env.pending } s0 h
  rcases hl with e | ⟨m, e⟩
  · rw [e] at hm; simp at hm
    obtain ⟨c2, a2, he, hs⟩ := dl _ hm
    cases he; rw [hs, hid]
  · rw [e] at hm; simp at hm
    obtain ⟨c2, a2, he, hs⟩ := dl _ hm
    cases he; rw [hs, hid]

/-- Modification Request: every other SEID resolves exactly as before, hit or miss -/
theorem mod_frame (st : State) (wf : C04.TableWF st.lnode) (addr : String) (seq : BitVec 24) (r : ModReq)
    (env : Env) (c : Ctx) (y : Seid) (hy : y ≠ r.seid) :
    (handleMod st addr seq r env c).1.lnode.lookup y = st.lnode.lookup y := by
  cases h : st.lnode.lookup r.seid with
  | none =>
    have := (C08_miss st addr seq r env c h)
    rw [this]
  | some s0 =>
    obtain ⟨s', hid, _, _, hl⟩ := handleMod_lnode st addr seq r env c s0 h
    have hs0 := C04.lookup_some_id st.lnode wf r.seid s0 h
    rw [hl]
    have hne : r.seid ≠ 0 := by
      intro hc; rw [hc] at h; rw [C04.lookup_zero'] at h; cases h
    apply setSess_frame
    · rw [hid, hs0]; exact hy
    · rw [hid, hs0]; exact hne
where
  C08_miss (st : State) (addr : String) (seq : BitVec 24) (r : ModReq) (env : Env) (c : Ctx)
      (h : st.lnode.lookup r.seid = none) : (handleMod st addr seq r env c).1.lnode = st.lnode := by
    simp only [handleMod, h]
    exact (sendRsp_spec st addr _ c).2.1

/-- SEID-0 report response: the session found has the control-plane SEID of the answered request and belongs to a
    node that associated from the responder's address -/
theorem seid0_exact (n : LNode) (nodes : List RNode) (rSeid : Seid) (addr : String) (s : Sess)
    (h : n.remoteSess nodes rSeid addr = some s) :
    s.remoteID = rSeid ∧ (nodes.getD s.rnode default).addr = addr := by
  unfold LNode.remoteSess at h
  cases hf : n.sess.find? (matchRemote nodes rSeid addr) with
  | none => rw [hf] at h; cases h
  | some o =>
    rw [hf] at h
    have hp := List.find?_some hf
    cases o with
    | none => simp at h
    | some s' =>
      simp at h; subst h
      simp [matchRemote] at hp
      exact ⟨hp.1, hp.2⟩

/-- …and the search does not give up early: if ANY live session has that control-plane SEID and that address, one is
    found — however many sessions of other nodes carry the same control-plane SEID, wherever they sit in the table -/
theorem seid0_complete (n : LNode) (nodes : List RNode) (rSeid : Seid) (addr : String) (s : Sess)
    (hs : some s ∈ n.sess) (h1 : s.remoteID = rSeid) (h2 : (nodes.getD s.rnode default).addr = addr) :
    ∃ s', n.remoteSess nodes rSeid addr = some s' ∧ s'.remoteID = rSeid ∧ (nodes.getD s'.rnode default).addr = addr := by
  have hm : matchRemote nodes rSeid addr (some s) = true := by
    show (s.remoteID == rSeid && ((nodes.getD s.rnode default).addr == addr)) = true
    rw [h1, h2]; simp
  unfold LNode.remoteSess
  cases hf : n.sess.find? (matchRemote nodes rSeid addr) with
  | none =>
    have := List.find?_eq_none.mp hf (some s) hs
    simp [hm] at this
  | some o =>
    have hp := List.find?_some hf
    cases o with
    | none => simp [matchRemote] at hp
    | some s' =>
      refine ⟨s', rfl, ?_⟩
      simp [matchRemote] at hp
      exact ⟨hp.1, hp.2⟩

/-- removing one session (`DeleteSess`) keeps the table well-formed and leaves every other SEID as it was -/
theorem deleteSess_frame (st : State) (wf : C04.TableWF st.lnode) (h : Nat) (x : Seid) (env : Env) (c : Ctx) :
    C04.TableWF (st.deleteSess h x env c).1.lnode ∧
    ∀ y, y ≠ x → (st.deleteSess h x env c).1.lnode.lookup y = st.lnode.lookup y := by
  unfold State.deleteSess
  simp only []
  split
  · exact ⟨wf, fun _ _ => rfl⟩
  · split
    · exact ⟨wf, fun _ _ => rfl⟩
    · rename_i s hl
      generalize s.close c = R
      obtain ⟨s', c', rs⟩ := R
      simp only []
      have hl' : st.lnode.lookup x = some s := hl
      exact ⟨C04.release_wf st.lnode wf x s hl', (C04.release_lookup st.lnode wf x s hl').2⟩

/-- Deletion Request: every other SEID resolves exactly as before -/
theorem del_frame (st : State) (wf : C04.TableWF st.lnode) (addr : String) (seq : BitVec 24) (x : Seid)
    (env : Env) (c : Ctx) (y : Seid) (hy : y ≠ x) :
    (handleDel st addr seq x env c).1.lnode.lookup y = st.lnode.lookup y := by
  unfold handleDel
  split
  · rw [(sendRsp_spec st addr _ c).2.1]
  · rename_i s0 _
    have hd := (deleteSess_frame st wf s0.rnode x env c).2 y hy
    generalize st.deleteSess s0.rnode x env c = R at hd
    obtain ⟨st1, c1, s1, rs⟩ := R
    simp only [] at hd ⊢
    rw [(sendRsp_spec st1 addr _ c1).2.1]
    exact hd

/-- re-association (`RemoteNode.Reset`): only SEIDs in the re-associating node's own set can be affected; every
    SEID outside that set — the sessions of every other node — resolves exactly as before -/
theorem reset_frame (st : State) (wf : C04.TableWF st.lnode) (h : Nat) (env : Env) (c : Ctx) (y : Seid)
    (hy : y ∉ (st.nodes.getD h default).sess) :
    (st.resetNode h env c).1.lnode.lookup y = st.lnode.lookup y := by
  unfold State.resetNode
  simp only []
  have hsub : ∀ x ∈ arrange (st.nodes.getD h default).sess env.sessOrder, x ∈ (st.nodes.getD h default).sess := by
    intro x hx
    unfold arrange at hx
    rcases List.mem_append.mp hx with hx | hx
    · have := (List.mem_filter.mp hx).2; simpa using this
    · exact (List.mem_filter.mp hx).1
  generalize arrange (st.nodes.getD h default).sess env.sessOrder = order at hsub
  suffices ∀ (acc : State × Ctx), C04.TableWF acc.1.lnode → acc.1.lnode.lookup y = st.lnode.lookup y →
      (order.foldl (fun (acc : State × Ctx) x =>
        ((acc.1.deleteSess h x env acc.2).1, (acc.1.deleteSess h x env acc.2).2.1)) acc).1.lnode.lookup y
        = st.lnode.lookup y by
    have := this (st, c) wf rfl
    simpa [State.modNode] using this
  induction order with
  | nil => intro acc _ hacc; simpa using hacc
  | cons x xs ih =>
    intro acc wfa hacc
    simp only [List.foldl_cons]
    have hne : y ≠ x := by
      intro hc; subst hc; exact hy (hsub y (by simp))
    have hf := deleteSess_frame acc.1 wfa h x env acc.2
    apply ih (fun z hz => hsub z (by simp [hz]))
    · exact hf.1
    · rw [hf.2 y hne]; exact hacc

/-- `DeleteSess` of a session recorded with the node: afterwards its SEID resolves to nothing -/
theorem deleteSess_sweeps (st : State) (wf : C04.TableWF st.lnode) (h : Nat) (x : Seid) (env : Env) (c : Ctx)
    (hm : x ∈ (st.nodes.getD h default).sess) : (st.deleteSess h x env c).1.lnode.lookup x = none := by
  unfold State.deleteSess
  simp only [hm, not_true_eq_false, if_false]
  split
  · rename_i hl; exact hl
  · rename_i s hl
    generalize s.close c = R
    obtain ⟨s', c', rs⟩ := R
    simp only []
    have hl' : st.lnode.lookup x = some s := hl
    exact (C04.release_lookup st.lnode wf x s hl').1

theorem deleteSess_none_stays (st : State) (h : Nat) (x : Seid) (env : Env) (c : Ctx)
    (hn : st.lnode.lookup x = none) : (st.deleteSess h x env c).1.lnode.lookup x = none := by
  unfold State.deleteSess
  simp only []
  split
  · exact hn
  · split
    · exact hn
    · rename_i s hl
      have hl' : st.lnode.lookup x = some s := hl
      rw [hn] at hl'; cases hl'

/-- what `DeleteSess` does to the node's session set: the deleted id goes, every other id stays -/
theorem deleteSess_nodeSet (st : State) (h : Nat) (x z : Seid) (env : Env) (c : Ctx) (hh : h < st.nodes.length)
    (hz : z ∈ (st.nodes.getD h default).sess) (hne : z ≠ x) :
    z ∈ ((st.deleteSess h x env c).1.nodes.getD h default).sess ∧ h < (st.deleteSess h x env c).1.nodes.length := by
  have key : ∀ (st' : State), st'.nodes = st.nodes.modify h (fun n => { n with sess := n.sess.filter (· != x) }) →
      z ∈ (st'.nodes.getD h default).sess ∧ h < st'.nodes.length := by
    intro st' e
    rw [e]
    refine ⟨?_, by simpa using hh⟩
    simp only [List.getD, List.getElem?_modify, hh, List.getElem?_eq_getElem, if_true, Option.map_some, Option.getD_some]
    have hz' : z ∈ (st.nodes[h]).sess := by
      simpa [List.getD, List.getElem?_eq_getElem, hh] using hz
    simp [List.mem_filter, hz', hne]
  unfold State.deleteSess
  simp only []
  split
  · exact ⟨hz, hh⟩
  · split
    · exact key _ rfl
    · rename_i s hl
      generalize s.close c = R
      obtain ⟨s', c', rs⟩ := R
      exact key _ rfl

/-- Session Deletion Request for a live session recorded with its node: afterwards the SEID resolves to nothing (any later
    request for it is answered "session context not found") -/
theorem del_unresolves (st : State) (wf : C04.TableWF st.lnode) (addr : String) (seq : BitVec 24) (x : Seid)
    (env : Env) (c : Ctx) (s0 : Sess) (h : st.lnode.lookup x = some s0)
    (hm : x ∈ (st.nodes.getD s0.rnode default).sess) :
    (handleDel st addr seq x env c).1.lnode.lookup x = none := by
  unfold handleDel
  simp only [h]
  have hd := deleteSess_sweeps st wf s0.rnode x env c hm
  generalize st.deleteSess s0.rnode x env c = R at hd
  obtain ⟨st1, c1, s1, rs⟩ := R
  simp only [] at hd ⊢
  rw [(sendRsp_spec st1 addr _ c1).2.1]
  exact hd

/-- **re-association sweeps the node's sessions**: after `RemoteNode.Reset`, every SEID that was in the node's set resolves
    to nothing — whatever order the sessions are closed in and whatever the data plane answers; together with `reset_frame`
    (no other SEID is touched) this is the re-association clause of C04 / C05 -/
theorem reset_sweeps (st : State) (wf : C04.TableWF st.lnode) (h : Nat) (env : Env) (c : Ctx) (hh : h < st.nodes.length)
    (x : Seid) (hx : x ∈ (st.nodes.getD h default).sess) :
    (st.resetNode h env c).1.lnode.lookup x = none := by
  unfold State.resetNode
  simp only []
  have hall : ∀ z ∈ (st.nodes.getD h default).sess, z ∈ arrange (st.nodes.getD h default).sess env.sessOrder := by
    intro z hz
    unfold arrange
    by_cases hin : z ∈ env.sessOrder
    · exact List.mem_append.mpr (Or.inl (List.mem_filter.mpr ⟨List.mem_eraseDups.mpr hin, by simpa using hz⟩))
    · exact List.mem_append.mpr (Or.inr (List.mem_filter.mpr ⟨hz, by simpa using hin⟩))
  have hxo := hall x hx
  generalize arrange (st.nodes.getD h default).sess env.sessOrder = order at hxo
  -- invariant: table well-formed; x is either still in the node's set (and still to come) or resolves to nothing
  suffices ∀ (order : List Seid) (acc : State × Ctx), C04.TableWF acc.1.lnode → h < acc.1.nodes.length →
      ((x ∈ order ∧ x ∈ (acc.1.nodes.getD h default).sess) ∨ acc.1.lnode.lookup x = none) →
      (order.foldl (fun (acc : State × Ctx) y =>
        ((acc.1.deleteSess h y env acc.2).1, (acc.1.deleteSess h y env acc.2).2.1)) acc).1.lnode.lookup x = none by
    have := this order (st, c) wf hh (Or.inl ⟨hxo, hx⟩)
    simpa [State.modNode] using this
  intro order
  induction order with
  | nil =>
    intro acc _ _ hor
    rcases hor with ⟨hmem, _⟩ | hnone
    · cases hmem
    · simpa using hnone
  | cons y ys ih =>
    intro acc wfa hha hor
    simp only [List.foldl_cons]
    have hf := deleteSess_frame acc.1 wfa h y env acc.2
    by_cases hyx : y = x
    · subst hyx
      apply ih _ hf.1
      · unfold State.deleteSess
        simp only []
        split
        · exact hha
        · split
          · simpa [State.modNode] using hha
          · rename_i s hl
            generalize s.close acc.2 = R
            obtain ⟨s', c', rs⟩ := R
            simpa [State.modNode] using hha
      · right
        rcases hor with ⟨_, hmem⟩ | hnone
        · exact deleteSess_sweeps acc.1 wfa h y env acc.2 hmem
        · exact deleteSess_none_stays acc.1 h y env acc.2 hnone
    · have hne : x ≠ y := fun hc => hyx hc.symm
      rcases hor with ⟨hmem, hset⟩ | hnone
      · have hmem' : x ∈ ys := by
          rcases List.mem_cons.mp hmem with e | e
          · exact absurd e hne
          · exact e
        obtain ⟨k1, k2⟩ := deleteSess_nodeSet acc.1 h y x env acc.2 hha hset hne
        exact ih _ hf.1 k2 (Or.inl ⟨hmem', k1⟩)
      · have : (acc.1.deleteSess h y env acc.2).1.lnode.lookup x = none := by rw [hf.2 x hne]; exact hnone
        apply ih _ hf.1 _ (Or.inr this)
        unfold State.deleteSess
        simp only []
        split
        · exact hha
        · split
          · simpa [State.modNode] using hha
          · rename_i s hl
            generalize s.close acc.2 = R
            obtain ⟨s', c', rs⟩ := R
            simpa [State.modNode] using hha

/-! ### non-vacuity: two sessions with coinciding rule ids and control-plane SEIDs -/
example :
    let st0 : State := {}
    let (st1, _) := step st0 (.request "p1" 1 (.assoc (some (.v4 "p1")))) {}
    let (st2, _) := step st1 (.request "p2" 1 (.assoc (some (.v4 "p2")))) {}
    let (st3, _) := step st2 (.request "p1" 2 (.est { nodeID := some (.v4 "p1"), cpSeid := some 7#64, far := [{ id := some 1 }] }))
                      { pending := [(default, { ok := true })] }
    let (st4, _) := step st3 (.request "p2" 2 (.est { nodeID := some (.v4 "p2"), cpSeid := some 7#64, far := [{ id := some 1 }] }))
                      { pending := [(default, { ok := true })] }
    let (st5, o5) := step st4 (.request "p2" 3 (.mod { seid := 2, rfar := [{ id := some 1 }] }))
                      { pending := [(default, { ok := true })] }
    (st5.lnode.lookup 1).map (·.fars) = some [1] ∧ (st5.lnode.lookup 2).map (·.fars) = some [] ∧
    o5.head? = some (Out.dp { seid := 2, op := .remove, kind := .far, id := 1 } { ok := true }) := by decide

/-- **known finding `takeoverNode`, on the model (by evaluation)**: nodes p1 and p2 with one session each (1 and 2); p1's
    session is taken over by node id p2 (Modification Request with a Node ID).  Then node id p2 re-associates.  By the
    requests, the sessions under p2 are now 1 (taken over) and 2 (established under it).  The mechanism renamed p1's whole
    node object and overwrote p2's entry: the re-association removes session 1 only — session 2 survives, and no later
    re-association of either id reaches it. -/
theorem takeover_orphans :
    let st0 : State := {}
    let (st1, _) := step st0 (.request "p1" 1 (.assoc (some (.v4 "p1")))) {}
    let (st2, _) := step st1 (.request "p2" 1 (.assoc (some (.v4 "p2")))) {}
    let (st3, _) := step st2 (.request "p1" 2 (.est { nodeID := some (.v4 "p1"), cpSeid := some 7#64 })) {}
    let (st4, _) := step st3 (.request "p2" 2 (.est { nodeID := some (.v4 "p2"), cpSeid := some 8#64 })) {}
    let (st5, _) := step st4 (.request "p1" 3 (.mod { seid := 1, nodeID := some (.v4 "p2") })) {}
    let (st6, _) := step st5 (.request "p2" 3 (.assoc (some (.v4 "p2")))) {}
    let (st7, _) := step st6 (.request "p1" 4 (.assoc (some (.v4 "p1")))) {}
    (st4.lnode.lookup 1).isSome = true ∧ (st4.lnode.lookup 2).isSome = true ∧
    st4.rnodes.length = 2 ∧ st5.rnodes.length = 1 ∧
    (st6.lnode.lookup 1).isSome = false ∧ (st6.lnode.lookup 2).isSome = true ∧
    (st7.lnode.lookup 2).isSome = true := by decide

end UpfVerif.C05
