/-
C19 — flag octets are decoded and encoded bit-exactly per TS 29.244.

Quantification: every bit pattern (all octet values, not a sample), every permitted IE
length, every flag name of the four tables. Constants are the regenerated `Gen.report.*`
values, so a changed constant in `/repo` makes `*_consts_match_spec` fail to check.
-/
import UpfVerif.Model.Flags
import UpfVerif.Spec.TS29244Bits
import UpfVerif.Lemmas.Bits

set_option linter.unusedSimpArgs false

namespace UpfVerif.C19
open UpfVerif.Flags UpfVerif.Spec UpfVerif.Bits

/-- what the spec table says the code's constants must be: flag `name` ↦ `1 << index` -/
def expected (t : List BitPos) : List (String × Nat) := t.map fun p => (p.name, 2 ^ p.index)

/-! ### (1) the constants in `/repo` are the bit positions of TS 29.244 (regenerated on every run) -/

theorem apply_consts_match_spec : applyConsts = expected Spec.applyAction := by decide
theorem rpt_consts_match_spec : rptConsts = expected Spec.reportingTriggers := by decide
theorem usar_consts_match_spec : usarConsts = expected Spec.usageReportTrigger := by decide
theorem vol_consts_match_spec : volConsts = expected Spec.volumeMeasurement := by decide

/-! ### (2) Apply Action: decode of 1- and 2-octet (and longer) forms, every pattern, every flag -/

theorem applyAction_short : applyUnmarshal [] = none := rfl

theorem applyAction_decode (b : Bytes) (f : BitVec 16) (h : applyUnmarshal b = some f) :
    ∀ p ∈ Spec.applyAction, test f (2 ^ p.index) = p.read b := by
  intro p hp
  have hidx : p.index < 16 := by
    simp only [Spec.applyAction, List.mem_cons, List.mem_nil_iff, or_false] at hp
    rcases hp with rfl | rfl | rfl | rfl | rfl | rfl | rfl | rfl | rfl | rfl | rfl | rfl | rfl <;> decide
  rw [test_two_pow f _ hidx]
  simp only [Spec.applyAction, List.mem_cons, List.mem_nil_iff, or_false] at hp
  match b, h with
  | [b0], h =>
    simp only [applyUnmarshal, Option.some.injEq] at h
    subst h
    rcases hp with rfl | rfl | rfl | rfl | rfl | rfl | rfl | rfl | rfl | rfl | rfl | rfl | rfl <;>
      simp [BitPos.read, BitPos.index, BitVec.getLsbD_setWidth]
  | b0 :: b1 :: rest, h =>
    simp only [applyUnmarshal, Option.some.injEq] at h
    subst h
    rcases hp with rfl | rfl | rfl | rfl | rfl | rfl | rfl | rfl | rfl | rfl | rfl | rfl | rfl <;>
      simp [BitPos.read, BitPos.index, BitVec.getLsbD_or, BitVec.getLsbD_shiftLeft, BitVec.getLsbD_setWidth]


/-- a statement about every entry of a table, split into one goal per entry -/
theorem forall_mem_of_foldr {α : Type} (P : α → Prop) :
    ∀ l : List α, l.foldr (fun a acc => P a ∧ acc) True → ∀ x ∈ l, P x
  | [], _, _, hx => by cases hx
  | a :: l, h, x, hx => by
    rcases List.mem_cons.mp hx with rfl | hx'
    · exact h.1
    · exact forall_mem_of_foldr P l h.2 x hx'

/-! ### (3) Reporting Triggers: decode of 2- and 3-octet (and longer) forms -/

theorem reportingTrigger_short0 : rptUnmarshal [] = none := rfl
theorem reportingTrigger_short1 (b : Byte) : rptUnmarshal [b] = none := rfl

theorem reportingTrigger_decode :
    ∀ p ∈ Spec.reportingTriggers, ∀ (b : Bytes) (f : BitVec 32), rptUnmarshal b = some f →
      test f (2 ^ p.index) = p.read b := by
  apply forall_mem_of_foldr
  simp only [Spec.reportingTriggers, List.foldr]
  repeat' apply And.intro
  all_goals first
    | exact True.intro
    | (intro b f h
       rw [test_two_pow f _ (by decide)]
       match b, h with
       | [b0, b1], h =>
         simp only [rptUnmarshal, Option.some.injEq] at h
         subst h
         simp [BitPos.read, BitPos.index, BitVec.getLsbD_or, BitVec.getLsbD_shiftLeft, BitVec.getLsbD_setWidth]
       | [b0, b1, b2], h =>
         simp only [rptUnmarshal, Option.some.injEq] at h
         subst h
         simp [BitPos.read, BitPos.index, BitVec.getLsbD_or, BitVec.getLsbD_shiftLeft, BitVec.getLsbD_setWidth]
       | b0 :: b1 :: b2 :: b3 :: rest, h =>
         simp only [rptUnmarshal, Option.some.injEq] at h
         subst h
         simp [BitPos.read, BitPos.index, BitVec.getLsbD_or, BitVec.getLsbD_shiftLeft, BitVec.getLsbD_setWidth])

/-! ### (4) encoding of Reporting Triggers / Usage Report Trigger: three octets, every flag word -/

theorem trigIE_length (f : BitVec 32) : (trigIE f).length = 3 := rfl

theorem usageTrigger_encode :
    ∀ p ∈ Spec.usageReportTrigger, ∀ f : BitVec 32, p.read (trigIE f) = test f (2 ^ p.index) := by
  apply forall_mem_of_foldr
  simp only [Spec.usageReportTrigger, List.foldr]
  repeat' apply And.intro
  all_goals first
    | exact True.intro
    | (intro f
       rw [test_two_pow f _ (by simp [BitPos.index])]
       simp [BitPos.read, BitPos.index, trigIE, BitVec.getLsbD_setWidth, BitVec.getLsbD_ushiftRight])

/-- a message carrying several usage reports: the trigger IE of the i-th report reads back as the i-th report's own flag
    word — every flag name, every word, every number of reports (the encoder is applied per report; that the real encoder
    shares nothing between the reports of one message is what the `urr`-profile stream observes on the wire) -/
theorem message_triggers_independent (ws : List (BitVec 32)) (i : Nat) (h : i < ws.length) :
    ∀ p ∈ Spec.usageReportTrigger, p.read ((ws.map trigIE)[i]'(by simpa using h)) = test ws[i] (2 ^ p.index) := by
  intro p hp
  rw [List.getElem_map]
  exact usageTrigger_encode p hp ws[i]

theorem reportingTrigger_encode :
    ∀ p ∈ Spec.reportingTriggers, ∀ f : BitVec 32, p.read (trigIE f) = test f (2 ^ p.index) := by
  apply forall_mem_of_foldr
  simp only [Spec.reportingTriggers, List.foldr]
  repeat' apply And.intro
  all_goals first
    | exact True.intro
    | (intro f
       rw [test_two_pow f _ (by simp [BitPos.index])]
       simp [BitPos.read, BitPos.index, trigIE, BitVec.getLsbD_setWidth, BitVec.getLsbD_ushiftRight])

/-- re-encoding a decoded 3-octet Reporting Triggers value gives back the same three octets -/
theorem reportingTrigger_reencode (b0 b1 b2 : Byte) :
    (rptUnmarshal [b0, b1, b2]).map trigIE = some [b0, b1, b2] := by
  simp only [rptUnmarshal, Option.map_some, trigIE, Option.some.injEq, List.cons.injEq, and_true]
  refine ⟨?_, ?_, ?_⟩
  · ext i hi
    simp [BitVec.getLsbD_or, BitVec.getLsbD_shiftLeft, BitVec.getLsbD_setWidth, BitVec.getLsbD_ushiftRight]
  · ext i hi
    have h1 : 8 + i < 32 := by omega
    have h2 : ¬ (8 + i < 8) := by omega
    have h3 : 8 + i < 16 := by omega
    have h4 : i < 32 := by omega
    simp [BitVec.getLsbD_or, BitVec.getLsbD_shiftLeft, BitVec.getLsbD_setWidth, BitVec.getLsbD_ushiftRight,
      h1, h2, h3, h4, BitVec.getLsbD_eq_getElem hi]
  · ext i hi
    have h1 : 16 + i < 32 := by omega
    have h2 : ¬ (16 + i < 8) := by omega
    have h3 : ¬ (16 + i < 16) := by omega
    have h4 : i < 32 := by omega
    have h5 : b0.getLsbD (16 + i) = false := BitVec.getLsbD_of_ge _ _ (by omega)
    have h6 : b1.getLsbD (16 + i - 8) = false := BitVec.getLsbD_of_ge _ _ (by omega)
    simp [BitVec.getLsbD_or, BitVec.getLsbD_shiftLeft, BitVec.getLsbD_setWidth, BitVec.getLsbD_ushiftRight,
      h1, h2, h3, h4, h5, h6, BitVec.getLsbD_eq_getElem hi]


/-! ### (5) data-plane cause ↦ usage-report trigger of the same name, and no other -/

/-- bit index of the usage-report trigger called `name`, if TS 29.244 §8.2.41 has one -/
def usarIndex (name : String) : Option Nat :=
  (Spec.usageReportTrigger.find? (·.name == name)).map (·.index)

theorem setRpt_or (f r : BitVec 32) : setReportingTrigger f r = f ||| setReportingTrigger 0 r := by
  unfold setReportingTrigger
  cases setRptTable.find? (fun p => BitVec.ofNat 32 p.1 == r) <;> simp

/-- each single-cause word sets exactly the usage-report trigger with the same name (REEMR, which has no
    same-named usage-report trigger, sets nothing) -/
theorem cause_map_same_name :
    ∀ p ∈ Spec.reportingTriggers,
      setReportingTrigger 0 (BitVec.ofNat 32 (2 ^ p.index)) =
        (match usarIndex p.name with
         | some k => BitVec.ofNat 32 (2 ^ k)
         | none => 0#32) := by decide

/-- the case constants of the switch are exactly the single-cause words of TS 29.244 §8.2.19 (without REEMR) -/
theorem setRpt_cases :
    setRptTable.map (·.1) =
      (Spec.reportingTriggers.filter (·.name != "REEMR")).map (fun p => 2 ^ p.index) := by decide

/-- any other word — no cause, several causes, unknown bits — sets nothing -/
theorem cause_map_other (f r : BitVec 32)
    (h : ∀ p ∈ Spec.reportingTriggers, r ≠ BitVec.ofNat 32 (2 ^ p.index)) :
    setReportingTrigger f r = f := by
  unfold setReportingTrigger
  cases hf : setRptTable.find? (fun p => BitVec.ofNat 32 p.1 == r) with
  | none => rfl
  | some q =>
    exfalso
    have hq := List.find?_some hf
    have hmem : q.1 ∈ setRptTable.map (·.1) := List.mem_map_of_mem (List.mem_of_find?_eq_some hf)
    rw [setRpt_cases] at hmem
    obtain ⟨p, hp, hpe⟩ := List.mem_map.mp hmem
    have hp' := (List.mem_filter.mp hp).1
    apply h p hp'
    rw [hpe]
    exact (beq_iff_eq.mp hq).symm

/-! ### (6) Volume Measurement flags and the fields they announce -/

/-- `SetFlags`: the three volume flags always, the three packet-count flags iff MNOP; other bits untouched -/
theorem volSetFlags_exact : ∀ (f : Byte) (mnop : Bool), ∀ p ∈ Spec.volumeMeasurement,
    test (volSetFlags f mnop) (2 ^ p.index) =
      (test f (2 ^ p.index) || p.bit ≤ 3 || (mnop && decide (4 ≤ p.bit))) := by decide

theorem volSetFlags_spare : ∀ (f : Byte) (mnop : Bool),
    (volSetFlags f mnop) &&& 0xc0#8 = f &&& 0xc0#8 := by decide

theorem beNat_be64 (v : BitVec 64) : Spec.beNat (be64 v) = v.toNat := by
  simp [Spec.beNat, be64, BitVec.toNat_setWidth, BitVec.toNat_ushiftRight, Nat.shiftRight_eq_div_pow]
  have := v.isLt
  omega

theorem volDecodeFields_volFields (flags : Byte) (vals : List (BitVec 64)) :
    ∀ i, Spec.volDecodeFields flags i vals.length (volFields flags i vals) =
      some (vals.zipIdx i |>.map fun (v, j) => if flags.getLsbD j then some v.toNat else none) := by
  induction vals with
  | nil => intro i; simp [Spec.volDecodeFields, volFields]
  | cons v vs ih =>
    intro i
    simp only [List.length_cons, Spec.volDecodeFields, volFields, List.zipIdx_cons, List.map_cons]
    by_cases hb : flags.getLsbD i
    · have hlen : ¬ ((be64 v ++ volFields flags (i + 1) vs).length < 8) := by simp [be64]
      have htake : (be64 v ++ volFields flags (i + 1) vs).take 8 = be64 v := by simp [be64]
      have hdrop : (be64 v ++ volFields flags (i + 1) vs).drop 8 = volFields flags (i + 1) vs := by simp [be64]
      simp only [hb, if_true, hlen, if_false, htake, hdrop, ih (i + 1), Option.map_some, beNat_be64]
    · simp only [hb, if_false, List.nil_append, ih (i + 1), Option.map_some, Bool.false_eq_true]

/-- every flag subset, every counter value: the spec reading of the encoded IE returns the flag octet and
    exactly the counters whose flag is set -/
theorem volumeMeasurement_roundtrip (flags : Byte) (tv uv dv tp up dp : BitVec 64) :
    Spec.volDecode (volIE flags [tv, uv, dv, tp, up, dp]) =
      some (flags, [ if flags.getLsbD 0 then some tv.toNat else none,
                     if flags.getLsbD 1 then some uv.toNat else none,
                     if flags.getLsbD 2 then some dv.toNat else none,
                     if flags.getLsbD 3 then some tp.toNat else none,
                     if flags.getLsbD 4 then some up.toNat else none,
                     if flags.getLsbD 5 then some dp.toNat else none ]) := by
  have := volDecodeFields_volFields flags [tv, uv, dv, tp, up, dp] 0
  simp only [List.length] at this
  simp [Spec.volDecode, volIE, this, List.zipIdx]

/-! ### non-vacuity -/
example : applyUnmarshal [0x0c#8] = some 0x000c#16 := by decide          -- BUFF|NOCP, 1-octet form
example : (Spec.applyAction.find? (·.name == "MBSU")).map (·.read [0#8, 0x10#8]) = some true := by decide
example : rptUnmarshal [0x01#8, 0x00#8, 0x02#8] = some 0x020001#32 := by decide   -- PERIO|UPINT

end UpfVerif.C19
