import UpfVerif.Model.Xlate
import UpfVerif.Spec.Rules
import UpfVerif.Spec.Arrange
import UpfVerif.Lemmas.Xlate
import UpfVerif.Lemmas.Arrange
/-
C02 — PDR and FAR reach the kernel exactly as the SMF specified them.

For every PDR / FAR content `p` (Spec/Rules.lean) and **every** arrangement `cs` of it as a list of child IEs (any order;
repeated QER ids / URR ids / SDF filters keep their relative order; Network Instance / Application ID / Destination
Interface children anywhere), the request the model of `gtp5g.go` builds, read by the independent gtp5g reader
(Spec/Gtp5gRead.lean), is exactly `expect… link seid p`: every field under its own attribute, untruncated, under the
request's own (SEID, id); SDF filters with source and destination exchanged iff the PDR is uplink.  Order independence
is a corollary.  `…_bytes`: the same holds for what the reader recovers from the request *bytes*.
-/
namespace UpfVerif.C02
open UpfVerif.Netlink UpfVerif.Gtp5gRead UpfVerif.Rules UpfVerif.Xlate UpfVerif.XlateL UpfVerif.FlowDesc UpfVerif.Arrange
open UpfVerif.Gen

/-! ### the constants of the pinned go-gtp5gnl (regenerated each run) are the gtp5g attribute numbers -/
theorem consts_pdr :
    [gtp5gnl.LINK, gtp5gnl.PDR_ID, gtp5gnl.PDR_PRECEDENCE, gtp5gnl.PDR_PDI, gtp5gnl.PDR_OUTER_HEADER_REMOVAL,
     gtp5gnl.PDR_FAR_ID, gtp5gnl.PDR_UNIX_SOCKET_PATH, gtp5gnl.PDR_QER_ID, gtp5gnl.PDR_SEID, gtp5gnl.PDR_URR_ID,
     gtp5gnl.PDI_UE_ADDR_IPV4, gtp5gnl.PDI_F_TEID, gtp5gnl.PDI_SDF_FILTER, gtp5gnl.PDI_SRC_INTF,
     gtp5gnl.F_TEID_I_TEID, gtp5gnl.F_TEID_GTPU_ADDR_IPV4, gtp5gnl.SDF_FILTER_FLOW_DESCRIPTION, gtp5gnl.SDF_FILTER_SDF_FILTER_ID,
     gtp5gnl.FLOW_DESCRIPTION_ACTION, gtp5gnl.FLOW_DESCRIPTION_DIRECTION, gtp5gnl.FLOW_DESCRIPTION_PROTOCOL,
     gtp5gnl.FLOW_DESCRIPTION_SRC_IPV4, gtp5gnl.FLOW_DESCRIPTION_SRC_MASK, gtp5gnl.FLOW_DESCRIPTION_DEST_IPV4,
     gtp5gnl.FLOW_DESCRIPTION_DEST_MASK, gtp5gnl.FLOW_DESCRIPTION_SRC_PORT, gtp5gnl.FLOW_DESCRIPTION_DEST_PORT,
     gtp5gnl.SDF_FILTER_PERMIT, gtp5gnl.SDF_FILTER_IN, gtp5gnl.SDF_FILTER_OUT, gtp5gnl.CMD_ADD_PDR, ie.SrcInterfaceAccess] =
    [A.link, A.pdrId, A.pdrPrecedence, A.pdrPdi, A.pdrOhr, A.pdrFarId, A.pdrSockPath, A.pdrQerId, A.pdrSeid, A.pdrUrrId,
     A.pdiUeAddr, A.pdiFteid, A.pdiSdf, A.pdiSrcIntf, A.fteidTeid, A.fteidAddr, A.sdfFlowDesc, A.sdfFilterId,
     A.fdAction, A.fdDirection, A.fdProtocol, A.fdSrcIp, A.fdSrcMask, A.fdDstIp, A.fdDstMask, A.fdSrcPort, A.fdDstPort,
     1, 1, 2, Cmd.addPdr, srcIfAccess] := by decide

theorem consts_far :
    [gtp5gnl.FAR_ID, gtp5gnl.FAR_APPLY_ACTION, gtp5gnl.FAR_FORWARDING_PARAMETER, gtp5gnl.FAR_SEID, gtp5gnl.FAR_BAR_ID,
     gtp5gnl.FORWARDING_PARAMETER_OUTER_HEADER_CREATION, gtp5gnl.FORWARDING_PARAMETER_FORWARDING_POLICY,
     gtp5gnl.FORWARDING_PARAMETER_PFCPSM_REQ_FLAGS, gtp5gnl.OUTER_HEADER_CREATION_DESCRIPTION,
     gtp5gnl.OUTER_HEADER_CREATION_O_TEID, gtp5gnl.OUTER_HEADER_CREATION_PEER_ADDR_IPV4, gtp5gnl.OUTER_HEADER_CREATION_PORT,
     gtp5gnl.CMD_ADD_FAR, factory.UpfGtpDefaultPort] =
    [A.farId, A.farApplyAction, A.farFwdParam, A.farSeid, A.farBarId, A.fpOhc, A.fpPolicy, A.fpSmReq,
     A.ohcDesc, A.ohcTeid, A.ohcPeer, A.ohcPort, Cmd.addFar, 2152] := by decide

/-! ### arrangements: a child list that carries the content `p`, in any order -/





/-! ### PDI -/

theorem pdiSrcIf_last (cs : List PdiChild) (cur : Nat) :
    pdiSrcIf cs cur = ((cs.filterMap PdiChild.srcif?).getLast?).getD cur :=
  lastId PdiChild.srcif? pdiSrcIf (fun _ => rfl) (fun c cs cur => by cases c <;> rfl) cs cur

theorem pdrId_last (cs : List PdrChild) (cur : Nat) :
    pdrId cs cur = ((cs.filterMap PdrChild.pdrid?).getLast?).getD cur :=
  lastId PdrChild.pdrid? pdrId (fun _ => rfl) (fun c cs cur => by cases c <;> rfl) cs cur

theorem words_flatMap_le32 (ws : List Nat) (h : ∀ w ∈ ws, w < 2 ^ 32) (n : Nat) (hn : ws.length ≤ n) :
    words n (ws.flatMap le32) = ws := by
  induction ws generalizing n with
  | nil => cases n <;> simp [words]
  | cons w ws ih =>
    cases n with
    | zero => simp at hn
    | succ n =>
      have hw := h w (by simp)
      have e : (le32 w ++ ws.flatMap le32).drop 4 = ws.flatMap le32 := by simp [le32]
      have e2 : rd32 (le32 w ++ ws.flatMap le32) = w := by
        simp [rd32, rd16, le32, BitVec.toNat_ofNat]; omega
      have e3 : ¬ ((le32 w ++ ws.flatMap le32).length < 4) := by simp [le32]
      simp only [List.flatMap_cons, words, e, e2, e3, if_false]
      rw [ih (fun x hx => h x (by simp [hx])) n (by simpa using hn)]

def PortsOk (ps : List (List Nat)) : Prop :=
  ∀ p ∈ ps, (∃ a, p = [a] ∧ a < 65536) ∨ (∃ a b, p = [a, b] ∧ a < 65536 ∧ b < 65536)

theorem portRanges_portBytes (ps : List (List Nat)) (h : PortsOk ps) :
    portRanges (some (portBytes ps)) = ps.map portRange := by
  have hw : ∀ w ∈ portWords ps, w < 2 ^ 32 := by
    intro w hw
    simp only [portWords, List.mem_map] at hw
    obtain ⟨p, hp, rfl⟩ := hw
    rcases h p hp with ⟨a, rfl, ha⟩ | ⟨a, b, rfl, ha, hb⟩ <;> simp only [portWord] <;> omega
  have hlen : (portWords ps).length ≤ (portBytes ps).length := by
    simp only [portBytes]
    generalize portWords ps = ws
    induction ws with
    | nil => simp
    | cons w ws ih => simp [le32] at ih ⊢; omega
  simp only [portRanges, portBytes] at *
  rw [words_flatMap_le32 _ hw _ hlen]
  simp only [portWords, List.map_map]
  apply List.map_congr_left
  intro p hp
  rcases h p hp with ⟨a, rfl, ha⟩ | ⟨a, b, rfl, ha, hb⟩
  · simp only [Function.comp, portWord, portRange, Prod.mk.injEq]; constructor <;> omega
  · simp only [Function.comp, portWord, portRange, Prod.mk.injEq]; constructor <;> omega

/-- the flow-description attributes read back to the expected filter -/
theorem readFlow_flowDescAttrs (f : FlowDesc) (swap : Bool) (hs : PortsOk f.sports) (hd : PortsOk f.dports)
    (hp : f.proto < 256) :
    readFlow (flowDescAttrs f swap) = expectFlow f swap := by
  have e1 : ∀ v, v < 256 → rd8 [BitVec.ofNat 8 v] = v := rd8_u8
  cases swap <;>
  simp [readFlow, flowDescAttrs, expectFlow, leaf1, leaves, leafOf, u8, bytes, gtp5gnl.FLOW_DESCRIPTION_ACTION,
    gtp5gnl.FLOW_DESCRIPTION_DIRECTION, gtp5gnl.FLOW_DESCRIPTION_PROTOCOL, gtp5gnl.FLOW_DESCRIPTION_SRC_IPV4,
    gtp5gnl.FLOW_DESCRIPTION_SRC_MASK, gtp5gnl.FLOW_DESCRIPTION_DEST_IPV4, gtp5gnl.FLOW_DESCRIPTION_DEST_MASK,
    gtp5gnl.FLOW_DESCRIPTION_SRC_PORT, gtp5gnl.FLOW_DESCRIPTION_DEST_PORT, gtp5gnl.SDF_FILTER_PERMIT,
    A.fdAction, A.fdDirection, A.fdProtocol, A.fdSrcIp, A.fdSrcMask, A.fdDstIp, A.fdDstMask, A.fdSrcPort, A.fdDstPort,
    portRanges_portBytes, hs, hd, e1 _ hp, Xlate.ipBytes, Rules.ipBytes, dirCode, gtp5gnl.SDF_FILTER_IN, gtp5gnl.SDF_FILTER_OUT]
  all_goals (constructor; · rfl
             split <;> rfl)

/-! ### what the parser can return (ranges of the numbers inside a parsed flow description) -/

theorem parseUint_lt (s : Str) (bits v : Nat) (h : parseUint s bits = some v) : v < 2 ^ bits := by
  unfold parseUint at h
  split at h
  · cases h
  · split at h
    · simp only at h
      split at h
      · cases h; assumption
      · cases h
    · cases h

theorem mapM_some_mem {α β : Type} (f : α → Option β) : ∀ (l : List α) (r : List β), l.mapM f = some r →
    ∀ y ∈ r, ∃ x ∈ l, f x = some y
  | [], r, h, y, hy => by simp at h; subst h; simp at hy
  | a :: l, r, h, y, hy => by
    simp only [List.mapM_cons] at h
    cases hfa : f a with
    | none => simp [hfa] at h
    | some b =>
      cases hl : l.mapM f with
      | none => simp [hfa, hl] at h
      | some bs =>
        simp [hfa, hl] at h
        subst h
        rcases List.mem_cons.mp hy with rfl | hy'
        · exact ⟨a, by simp, hfa⟩
        · obtain ⟨x, hx, hfx⟩ := mapM_some_mem f l bs hl y hy'
          exact ⟨x, by simp [hx], hfx⟩

theorem parsePorts_ok (s : Str) (ps : List (List Nat)) (h : parsePorts s = some ps) : PortsOk ps := by
  intro p hp
  unfold parsePorts at h
  obtain ⟨item, _, hi⟩ := mapM_some_mem _ _ _ h p hp
  split at hi
  · rename_i a _
    cases hu : parseUint a 16 with
    | none => simp [hu] at hi
    | some v =>
      simp [hu] at hi; subst hi
      exact Or.inl ⟨v, rfl, parseUint_lt a 16 v hu⟩
  · rename_i a b _
    split at hi
    · rename_i x y hx hy
      cases hi
      exact Or.inr ⟨x, y, rfl, parseUint_lt a 16 x hx, parseUint_lt b 16 y hy⟩
    · cases hi

theorem portsOk_nil : PortsOk [] := by intro p hp; simp at hp

theorem takePorts_ok (t : Str) (rest : List Str) : PortsOk (takePorts t rest).1 := by
  unfold takePorts
  split
  · rename_i ps h; exact parsePorts_ok t ps h
  · exact portsOk_nil

theorem tailPorts_ok (l : List Str) : PortsOk (tailPorts l) := by
  unfold tailPorts
  split
  · rename_i t _
    cases h : parsePorts t with
    | none => simpa using portsOk_nil
    | some ps => simpa using parsePorts_ok t ps h
  · exact portsOk_nil

theorem parseFlowDesc_ranges (s : Str) (f : FlowDesc) (h : parseFlowDesc s = some f) :
    PortsOk f.sports ∧ PortsOk f.dports ∧ f.proto < 256 := by
  unfold parseFlowDesc at h
  generalize fields s = toks at h
  unfold parseTokens at h
  split at h
  · rename_i act dir proto frm src rest
    split at h
    · split at h
      · rename_i p s' sp d dp hp hs ht
        cases h
        refine ⟨?_, ?_, ?_⟩
        · -- source ports come from takePorts
          unfold parseTail at ht
          split at ht
          · cases ht
          · rename_i t rest1
            split at ht
            · split at ht
              · split at ht
                · cases ht; exact takePorts_ok t rest1
                · cases ht
              · cases ht
            · cases ht
        · unfold parseTail at ht
          split at ht
          · cases ht
          · rename_i t rest1
            split at ht
            · split at ht
              · split at ht
                · cases ht; exact tailPorts_ok _
                · cases ht
              · cases ht
            · cases ht
        · unfold parseProto at hp
          split at hp
          · cases hp; show 255 < 256; omega
          · exact parseUint_lt _ 8 _ hp
      · cases h
    · cases h
  · cases h

/-! ### SDF filter, PDI -/

theorem readSdf_sdfAttrs (fd : Str) (bid : Option Nat) (srcIf : Nat) (hb : ∀ b, bid = some b → b < 2 ^ 32) :
    (sdfAttrs fd bid srcIf).map readSdf = expectSdf (srcIf == srcIfAccess) (fd, bid) := by
  unfold sdfAttrs expectSdf
  cases hf : parseFlowDesc fd with
  | none => simp
  | some f =>
    obtain ⟨hs, hd, hp⟩ := parseFlowDesc_ranges fd f hf
    have hsw : (srcIf == ie.SrcInterfaceAccess) = (srcIf == srcIfAccess) := rfl
    cases bid with
    | none =>
      simp [readSdf, nest1, nests_cons, nestOf, leaf1, leaves_cons, leafOf, bidAttrs, gtp5gnl.SDF_FILTER_FLOW_DESCRIPTION,
        A.sdfFlowDesc, A.sdfFilterId, readFlow_flowDescAttrs f _ hs hd hp, hsw]
    | some b =>
      simp [readSdf, nest1, nests_cons, nestOf, leaf1, leaves_cons, leafOf, bidAttrs, gtp5gnl.SDF_FILTER_FLOW_DESCRIPTION,
        gtp5gnl.SDF_FILTER_SDF_FILTER_ID, u32, A.sdfFlowDesc, A.sdfFilterId, readFlow_flowDescAttrs f _ hs hd hp, hsw,
        rd32_le32 b (hb b rfl)]

theorem pdi_srcIntf (c : PdiChild) :
    leaves (pdiDirect c) A.pdiSrcIntf = ((PdiChild.srcif? c).map fun v => [BitVec.ofNat 8 v]).toList := by
  cases c <;> simp [pdiDirect, PdiChild.srcif?, leaves, leafOf, u8, bytes, gtp5gnl.PDI_SRC_INTF, gtp5gnl.PDI_UE_ADDR_IPV4, A.pdiSrcIntf]

theorem pdi_ueAddr (c : PdiChild) :
    leaves (pdiDirect c) A.pdiUeAddr = ((PdiChild.ueip? c).map id).toList := by
  cases c <;> simp [pdiDirect, PdiChild.ueip?, leaves, leafOf, u8, bytes, gtp5gnl.PDI_SRC_INTF, gtp5gnl.PDI_UE_ADDR_IPV4, A.pdiUeAddr]

theorem pdi_fteid (c : PdiChild) :
    nests (pdiDirect c) A.pdiFteid = ((PdiChild.fteid? c).map fun x =>
      [u32 gtp5gnl.F_TEID_I_TEID x.1, bytes gtp5gnl.F_TEID_GTPU_ADDR_IPV4 x.2]).toList := by
  cases c <;> simp [pdiDirect, PdiChild.fteid?, nests, nestOf, u8, bytes, gtp5gnl.PDI_F_TEID, A.pdiFteid]

theorem pdi_direct_noSdf (c : PdiChild) : nests (pdiDirect c) A.pdiSdf = [] := by
  cases c <;> simp [pdiDirect, nests, nestOf, u8, bytes, gtp5gnl.PDI_F_TEID, A.pdiSdf]

theorem pdi_sdf_leaves (s : Nat) (t : Nat) (c : PdiChild) : leaves (pdiSdf s c) t = [] := by
  cases c <;> simp [pdiSdf, leaves]
  split <;> simp [leafOf]

theorem pdi_sdf_noFteid (s : Nat) (c : PdiChild) : nests (pdiSdf s c) A.pdiFteid = [] := by
  cases c <;> simp [pdiSdf, nests]
  split <;> simp [nestOf, gtp5gnl.PDI_SDF_FILTER, A.pdiFteid]

theorem pdi_sdf (s : Nat) (c : PdiChild) :
    nests (pdiSdf s c) A.pdiSdf = (((PdiChild.sdf? c).bind fun x => sdfAttrs x.1 x.2 s).map id).toList := by
  cases c <;> simp [pdiSdf, PdiChild.sdf?, nests]
  split <;> simp [nestOf, gtp5gnl.PDI_SDF_FILTER, A.pdiSdf, *]

theorem filterMap_congr' {α β : Type} (f g : α → Option β) : ∀ (l : List α), (∀ x ∈ l, f x = g x) → l.filterMap f = l.filterMap g
  | [], _ => rfl
  | a :: l, h => by
    simp only [List.filterMap_cons, h a (by simp)]
    rw [filterMap_congr' f g l (fun x hx => h x (by simp [hx]))]

theorem map_id_of {α : Type} (f : α → α) : ∀ (l : List α), (∀ x ∈ l, f x = x) → l.map f = l
  | [], _ => rfl
  | a :: l, h => by
    simp only [List.map_cons, h a (by simp)]
    rw [map_id_of f l (fun x hx => h x (by simp [hx]))]

theorem head?_toList_map {α β : Type} (o : Option α) (f : α → β) : (o.toList.map f).head? = o.map f := by
  cases o <;> rfl

theorem readPdi_pdiAttrs (cs : List PdiChild) (q : PdiSpec) (h : ArrangesPdi cs q) (wf : q.WF) :
    readPdi (pdiAttrs cs) = expectPdi q := by
  obtain ⟨hsome, hsv, hft, hsd⟩ := wf
  have hsrc : pdiSrcIf cs 0 = q.srcIf.getD 0 := by
    rw [pdiSrcIf_last, h.srcif]; cases q.srcIf <;> rfl
  unfold readPdi expectPdi pdiAttrs
  simp only [leaf1, nest1, leaves_append, nests_append,
    leaves_of _ _ _ _ pdi_srcIntf, leaves_of _ _ _ _ pdi_ueAddr, nests_of _ _ _ _ pdi_fteid,
    leaves_none _ _ (pdi_sdf_leaves _ _), nests_none _ _ pdi_direct_noSdf, nests_none _ _ (pdi_sdf_noFteid _),
    nests_of _ _ _ _ (pdi_sdf _), List.append_nil, List.nil_append, h.srcif, h.ueip, h.fteid, head?_toList_map, List.map_id]
  congr 1
  · cases hq : q.srcIf with
    | none => rfl
    | some v => simp [rd8_u8 v (hsv v hq)]
  · cases hq : q.fteid with
    | none => rfl
    | some x =>
      obtain ⟨t, ip⟩ := x
      simp [readFteid, leaf1, leaves, leafOf, u32, bytes, gtp5gnl.F_TEID_I_TEID, gtp5gnl.F_TEID_GTPU_ADDR_IPV4,
        A.fteidTeid, A.fteidAddr, rd32_le32 t (hft t ip hq)]
  · cases q.ueip <;> rfl
  · rw [← List.filterMap_filterMap, h.sdfs, List.map_filterMap]
    rw [hsrc]
    exact filterMap_congr' _ _ _ (fun x hx => readSdf_sdfAttrs x.1 x.2 _ (hsd x hx))

/-! ### PDR -/

def pdiNE? (c : PdrChild) : Option (List Attr) :=
  (PdrChild.pdi? c).bind fun ps => if (pdiAttrs ps).isEmpty then none else some (pdiAttrs ps)

theorem pdr_leaf (t : Nat) (sel : PdrChild → Option Nat) (enc : Nat → Bytes)
    (h : ∀ c, (∀ ps, c ≠ .pdi ps) → leaves (pdrChildAttrs c) t = ((sel c).map enc).toList)
    (hp : ∀ ps, sel (.pdi ps) = none) (c : PdrChild) :
    leaves (pdrChildAttrs c) t = ((sel c).map enc).toList := by
  cases c with
  | pdi ps =>
    simp only [pdrChildAttrs, hp]
    split <;> simp [leaves_cons, leafOf]
  | _ => exact h _ (by intro ps hh; cases hh)

theorem pdr_prec (c : PdrChild) : leaves (pdrChildAttrs c) A.pdrPrecedence = ((PdrChild.prec? c).map le32).toList :=
  pdr_leaf _ _ _ (fun c hc => by
    cases c <;> first | (exact absurd rfl (hc _)) | simp [pdrChildAttrs, PdrChild.prec?, leaves_cons, leafOf, u8, u32,
      gtp5gnl.PDR_PRECEDENCE, gtp5gnl.PDR_OUTER_HEADER_REMOVAL, gtp5gnl.PDR_FAR_ID, gtp5gnl.PDR_QER_ID, gtp5gnl.PDR_URR_ID, A.pdrPrecedence])
    (fun _ => rfl) c

theorem pdr_ohr (c : PdrChild) : leaves (pdrChildAttrs c) A.pdrOhr = ((PdrChild.ohr? c).map fun v => [BitVec.ofNat 8 v]).toList :=
  pdr_leaf _ _ _ (fun c hc => by
    cases c <;> first | (exact absurd rfl (hc _)) | simp [pdrChildAttrs, PdrChild.ohr?, leaves_cons, leafOf, u8, u32,
      gtp5gnl.PDR_PRECEDENCE, gtp5gnl.PDR_OUTER_HEADER_REMOVAL, gtp5gnl.PDR_FAR_ID, gtp5gnl.PDR_QER_ID, gtp5gnl.PDR_URR_ID, A.pdrOhr])
    (fun _ => rfl) c

theorem pdr_farid (c : PdrChild) : leaves (pdrChildAttrs c) A.pdrFarId = ((PdrChild.farid? c).map le32).toList :=
  pdr_leaf _ _ _ (fun c hc => by
    cases c <;> first | (exact absurd rfl (hc _)) | simp [pdrChildAttrs, PdrChild.farid?, leaves_cons, leafOf, u8, u32,
      gtp5gnl.PDR_PRECEDENCE, gtp5gnl.PDR_OUTER_HEADER_REMOVAL, gtp5gnl.PDR_FAR_ID, gtp5gnl.PDR_QER_ID, gtp5gnl.PDR_URR_ID, A.pdrFarId])
    (fun _ => rfl) c

theorem pdr_qerid (c : PdrChild) : leaves (pdrChildAttrs c) A.pdrQerId = ((PdrChild.qerid? c).map le32).toList :=
  pdr_leaf _ _ _ (fun c hc => by
    cases c <;> first | (exact absurd rfl (hc _)) | simp [pdrChildAttrs, PdrChild.qerid?, leaves_cons, leafOf, u8, u32,
      gtp5gnl.PDR_PRECEDENCE, gtp5gnl.PDR_OUTER_HEADER_REMOVAL, gtp5gnl.PDR_FAR_ID, gtp5gnl.PDR_QER_ID, gtp5gnl.PDR_URR_ID, A.pdrQerId])
    (fun _ => rfl) c

theorem pdr_urrid (c : PdrChild) : leaves (pdrChildAttrs c) A.pdrUrrId = ((PdrChild.urrid? c).map le32).toList :=
  pdr_leaf _ _ _ (fun c hc => by
    cases c <;> first | (exact absurd rfl (hc _)) | simp [pdrChildAttrs, PdrChild.urrid?, leaves_cons, leafOf, u8, u32,
      gtp5gnl.PDR_PRECEDENCE, gtp5gnl.PDR_OUTER_HEADER_REMOVAL, gtp5gnl.PDR_FAR_ID, gtp5gnl.PDR_QER_ID, gtp5gnl.PDR_URR_ID, A.pdrUrrId])
    (fun _ => rfl) c

/-- the children never produce the object-id attributes (link, id, SEID) -/
theorem pdr_noOid (c : PdrChild) (t : Nat) (ht : t = A.link ∨ t = A.pdrId ∨ t = A.pdrSeid) :
    leaves (pdrChildAttrs c) t = [] := by
  have : leaves (pdrChildAttrs c) t = ((fun _ => (none : Option Nat)) c |>.map le32).toList :=
    pdr_leaf t (fun _ => none) le32 (fun c hc => by
      rcases ht with rfl | rfl | rfl <;>
      cases c <;> first | (exact absurd rfl (hc _)) | simp [pdrChildAttrs, leaves_cons, leafOf, u8, u32,
        gtp5gnl.PDR_PRECEDENCE, gtp5gnl.PDR_OUTER_HEADER_REMOVAL, gtp5gnl.PDR_FAR_ID, gtp5gnl.PDR_QER_ID, gtp5gnl.PDR_URR_ID,
        A.link, A.pdrId, A.pdrSeid]) (fun _ => rfl) c
  simpa using this

theorem pdr_pdi (c : PdrChild) : nests (pdrChildAttrs c) A.pdrPdi = ((pdiNE? c).map id).toList := by
  cases c <;> simp [pdrChildAttrs, pdiNE?, PdrChild.pdi?, nests_cons, nestOf, u8, u32]
  split <;> simp [nests_cons, nestOf, gtp5gnl.PDR_PDI, A.pdrPdi]

theorem pdiAttrs_ne (ps : List PdiChild) (q : PdiSpec) (h : ArrangesPdi ps q) (wf : q.WF) : (pdiAttrs ps).isEmpty = false := by
  obtain ⟨hsome, _⟩ := wf
  have : leaves (pdiAttrs ps) A.pdiSrcIntf ≠ [] := by
    unfold pdiAttrs
    rw [leaves_append, leaves_of _ _ _ _ pdi_srcIntf, h.srcif]
    cases hq : q.srcIf with
    | none => simp [hq] at hsome
    | some v => simp
  cases hh : pdiAttrs ps with
  | nil => rw [hh] at this; exact absurd rfl this
  | cons a as => rfl

/-- what the reader finds in `oid ++ children ++ tail` -/
theorem readPdr_attrs (link seid : Nat) (cs : List PdrChild) (p : PdrSpec) (tail : List Attr)
    (htl : ∀ t, leaves tail t = [] ∨ t = A.pdrSockPath) (htn : ∀ t, nests tail t = [])
    (h : ArrangesPdr cs p) (wf : p.WF) (hl : link < 2 ^ 32) (hs : seid < 2 ^ 64) :
    readPdr (oidAttrs link (u16 gtp5gnl.PDR_ID (pdrId cs 0)) gtp5gnl.PDR_SEID seid ++ cs.flatMap pdrChildAttrs ++ tail)
      = expectPdr link seid p := by
  obtain ⟨wid, wprec, wohr, wfar, wqer, wurr, wpdi⟩ := wf
  have hid : pdrId cs 0 = p.id := by rw [pdrId_last, h.id]; rfl
  have tl : ∀ t, t ≠ A.pdrSockPath → leaves tail t = [] := fun t ht => (htl t).resolve_right ht
  unfold readPdr expectPdr
  simp only [leaf1, nest1, leaves_append, nests_append, oidAttrs, hid]
  congr 1
  · simp [leaves_cons, leafOf, u32, u16, u64, gtp5gnl.LINK, gtp5gnl.PDR_ID, gtp5gnl.PDR_SEID, A.link, rd32_le32 link hl]
  · simp [leaves_cons, leafOf, u32, u16, u64, gtp5gnl.LINK, gtp5gnl.PDR_ID, gtp5gnl.PDR_SEID, A.pdrSeid, rd64_le64 seid hs]
  · simp [leaves_cons, leafOf, u32, u16, u64, gtp5gnl.LINK, gtp5gnl.PDR_ID, gtp5gnl.PDR_SEID, A.pdrId, rd16_le16' p.id wid]
  · rw [leaves_of _ _ _ _ pdr_prec, h.prec, tl _ (by decide)]
    simp [leaves_cons, leafOf, u32, u16, u64, gtp5gnl.LINK, gtp5gnl.PDR_ID, gtp5gnl.PDR_SEID, A.pdrPrecedence]
    cases hq : p.prec with
    | none => rfl
    | some v => simp [rd32_le32 v (wprec v hq)]
  · rw [leaves_of _ _ _ _ pdr_ohr, h.ohr, tl _ (by decide)]
    simp [leaves_cons, leafOf, u32, u16, u64, gtp5gnl.LINK, gtp5gnl.PDR_ID, gtp5gnl.PDR_SEID, A.pdrOhr]
    cases hq : p.ohr with
    | none => rfl
    | some v => simp [rd8_u8 v (wohr v hq)]
  · rw [leaves_of _ _ _ _ pdr_farid, h.farid, tl _ (by decide)]
    simp [leaves_cons, leafOf, u32, u16, u64, gtp5gnl.LINK, gtp5gnl.PDR_ID, gtp5gnl.PDR_SEID, A.pdrFarId]
    cases hq : p.farId with
    | none => rfl
    | some v => simp [rd32_le32 v (wfar v hq)]
  · rw [leaves_of _ _ _ _ pdr_qerid, h.qerids, tl _ (by decide)]
    simp [leaves_cons, leafOf, u32, u16, u64, gtp5gnl.LINK, gtp5gnl.PDR_ID, gtp5gnl.PDR_SEID, A.pdrQerId]
    exact map_id_of _ _ (fun v hv => by simp [rd32_le32 v (wqer v hv)])
  · rw [leaves_of _ _ _ _ pdr_urrid, h.urrids, tl _ (by decide)]
    simp [leaves_cons, leafOf, u32, u16, u64, gtp5gnl.LINK, gtp5gnl.PDR_ID, gtp5gnl.PDR_SEID, A.pdrUrrId]
    exact map_id_of _ _ (fun v hv => by simp [rd32_le32 v (wurr v hv)])
  · rw [nests_of _ _ _ _ pdr_pdi, htn]
    simp only [nests_cons, nestOf, u32, u16, u64, Option.toList, List.nil_append, List.append_nil, nests_nil, List.map_id]
    obtain ⟨pss, hpss, hlen, harr⟩ := h.pdi
    unfold pdiNE?
    rw [← List.filterMap_filterMap, hpss]
    cases hq : p.pdi with
    | none =>
      simp [hq] at hlen; subst hlen; rfl
    | some q =>
      simp [hq] at hlen
      match pss, hlen with
      | [ps], _ =>
        have ha := harr ps (by simp) q hq
        have hne : pdiAttrs ps ≠ [] := by
          have := pdiAttrs_ne ps q ha (wpdi q hq)
          intro h0; rw [h0] at this; cases this
        simp [hne, readPdi_pdiAttrs ps q ha (wpdi q hq)]

/-- **Create PDR**: whatever the order of the child IEs, the kernel holds exactly the IE's content -/
theorem createPDR_exact (link seid : Nat) (cs : List PdrChild) (p : PdrSpec) (h : ArrangesPdr cs p) (wf : p.WF)
    (hl : link < 2 ^ 32) (hs : seid < 2 ^ 64) :
    (createPDR link seid cs).cmd = Cmd.addPdr ∧ readPdr (createPDR link seid cs).attrs = expectPdr link seid p := by
  refine ⟨rfl, ?_⟩
  exact readPdr_attrs link seid cs p _ (fun t => by
      by_cases ht : t = A.pdrSockPath
      · exact Or.inr ht
      · left; simp [leaves_cons, leafOf, str, gtp5gnl.PDR_UNIX_SOCKET_PATH]; intro h; exact ht (by simp [A.pdrSockPath, h]))
    (fun t => by simp [nests_cons, nestOf, str]) h wf hl hs

/-- **Update PDR** -/
theorem updatePDR_exact (link seid : Nat) (cs : List PdrChild) (p : PdrSpec) (h : ArrangesPdr cs p) (wf : p.WF)
    (hl : link < 2 ^ 32) (hs : seid < 2 ^ 64) :
    (updatePDR link seid cs).cmd = Cmd.addPdr ∧ readPdr (updatePDR link seid cs).attrs = expectPdr link seid p := by
  refine ⟨rfl, ?_⟩
  have := readPdr_attrs link seid cs p [] (fun t => Or.inl rfl) (fun t => rfl) h wf hl hs
  simpa [updatePDR] using this

/-- the result does not depend on the order of the IEs inside the grouped IE -/
theorem createPDR_order_independent (link seid : Nat) (cs cs' : List PdrChild) (p : PdrSpec)
    (h : ArrangesPdr cs p) (h' : ArrangesPdr cs' p) (wf : p.WF) (hl : link < 2 ^ 32) (hs : seid < 2 ^ 64) :
    readPdr (createPDR link seid cs).attrs = readPdr (createPDR link seid cs').attrs := by
  rw [(createPDR_exact link seid cs p h wf hl hs).2, (createPDR_exact link seid cs' p h' wf hl hs).2]

/-- … and it is what the reader recovers from the bytes on the netlink socket -/
theorem createPDR_bytes (link seid : Nat) (cs : List PdrChild) (p : PdrSpec) (h : ArrangesPdr cs p) (wf : p.WF)
    (hl : link < 2 ^ 32) (hs : seid < 2 ^ 64) (hsz : wfList (createPDR link seid cs).attrs = true) :
    (decodeTree (encList (createPDR link seid cs).attrs)).map readPdr = some (expectPdr link seid p) := by
  rw [decodeTree_encList _ hsz]; simp [(createPDR_exact link seid cs p h wf hl hs).2]

theorem updatePDR_bytes (link seid : Nat) (cs : List PdrChild) (p : PdrSpec) (h : ArrangesPdr cs p) (wf : p.WF)
    (hl : link < 2 ^ 32) (hs : seid < 2 ^ 64) (hsz : wfList (updatePDR link seid cs).attrs = true) :
    (decodeTree (encList (updatePDR link seid cs).attrs)).map readPdr = some (expectPdr link seid p) := by
  rw [decodeTree_encList _ hsz]; simp [(updatePDR_exact link seid cs p h wf hl hs).2]

/-! ### FAR -/





theorem farId_last (cs : List FarChild) (cur : Nat) :
    farId cs cur = ((cs.filterMap FarChild.farid?).getLast?).getD cur :=
  lastId FarChild.farid? farId (fun _ => rfl) (fun c cs cur => by cases c <;> rfl) cs cur

def ohcAttrsB (desc teid : Nat) (ip : Bytes) (port : Nat) (g v u : Bool) : List Attr :=
  [u16 gtp5gnl.OUTER_HEADER_CREATION_DESCRIPTION desc]
  ++ (if g then
        [u32 gtp5gnl.OUTER_HEADER_CREATION_O_TEID teid, u16 gtp5gnl.OUTER_HEADER_CREATION_PORT factory.UpfGtpDefaultPort]
      else [u16 gtp5gnl.OUTER_HEADER_CREATION_PORT (if u then port else 0)])
  ++ (if v then [bytes gtp5gnl.OUTER_HEADER_CREATION_PEER_ADDR_IPV4 ip] else [])

theorem readOhc_B (desc teid : Nat) (ip : Bytes) (port : Nat) (g v u : Bool)
    (hd : desc < 2 ^ 16) (ht : teid < 2 ^ 32) (hp : port < 2 ^ 16) :
    readOhc (ohcAttrsB desc teid ip port g v u) =
      { desc := some desc, teid := if g then some teid else none, peer := if v then some ip else none,
        port := some (if g then 2152 else if u then port else 0) } := by
  cases g <;> cases v <;> cases u <;>
  simp [readOhc, ohcAttrsB, leaf1, leaves_cons, leafOf, u16, u32, bytes, gtp5gnl.OUTER_HEADER_CREATION_DESCRIPTION,
    gtp5gnl.OUTER_HEADER_CREATION_O_TEID, gtp5gnl.OUTER_HEADER_CREATION_PORT, gtp5gnl.OUTER_HEADER_CREATION_PEER_ADDR_IPV4,
    factory.UpfGtpDefaultPort, A.ohcDesc, A.ohcTeid, A.ohcPeer, A.ohcPort, rd16_le16' desc hd, rd32_le32 teid ht,
    rd16_le16' port hp, rd16_le16' 2152 (by omega), rd16_le16' 0 (by omega)]

theorem readOhc_ohcAttrs (o : OhcSpec) (wf : o.WF) :
    readOhc (ohcAttrs o.desc o.teid o.ip o.port) = expectOhc o := by
  obtain ⟨hd, ht, hp⟩ := wf
  exact readOhc_B o.desc o.teid o.ip o.port (ohcHasTEID o.desc) (ohcHasIPv4 o.desc) (ohcHasPort o.desc) hd ht hp

theorem cstr_str (s : Bytes) (h : ∀ c ∈ s, c ≠ 0#8) : cstr (s ++ [0#8]) = s := by
  unfold cstr
  induction s with
  | nil => simp [List.takeWhile]
  | cons c s ih =>
    have hc := h c (by simp)
    have ih' := ih (fun x hx => h x (by simp [hx]))
    simp [hc] at ih' ⊢
    exact ih'

theorem fp_ohc (c : FpChild) :
    nests (fpChildAttrs c) A.fpOhc = ((FpChild.ohc? c).map fun o => ohcAttrs o.desc o.teid o.ip o.port).toList := by
  cases c <;> simp [fpChildAttrs, FpChild.ohc?, nests_cons, nestOf, str, u8,
    gtp5gnl.FORWARDING_PARAMETER_OUTER_HEADER_CREATION, A.fpOhc]

theorem fp_pol (c : FpChild) :
    leaves (fpChildAttrs c) A.fpPolicy = ((FpChild.fpol? c).map fun s => s ++ [0#8]).toList := by
  cases c <;> simp [fpChildAttrs, FpChild.fpol?, leaves_cons, leafOf, str, u8,
    gtp5gnl.FORWARDING_PARAMETER_FORWARDING_POLICY, gtp5gnl.FORWARDING_PARAMETER_PFCPSM_REQ_FLAGS, A.fpPolicy]

theorem fp_smreq (c : FpChild) :
    leaves (fpChildAttrs c) A.fpSmReq = ((FpChild.smreq? c).map fun v => [BitVec.ofNat 8 v]).toList := by
  cases c <;> simp [fpChildAttrs, FpChild.smreq?, leaves_cons, leafOf, str, u8,
    gtp5gnl.FORWARDING_PARAMETER_FORWARDING_POLICY, gtp5gnl.FORWARDING_PARAMETER_PFCPSM_REQ_FLAGS, A.fpSmReq]

theorem readFwd_fpAttrs (cs : List FpChild) (f : FwdSpec) (h : ArrangesFwd cs f) (wf : f.WF) :
    readFwd (fpAttrs cs) = expectFwd f := by
  obtain ⟨wo, wp, ws, _⟩ := wf
  unfold readFwd expectFwd fpAttrs
  simp only [leaf1, nest1, nests_of _ _ _ _ fp_ohc, leaves_of _ _ _ _ fp_pol, leaves_of _ _ _ _ fp_smreq,
    h.ohc, h.fpol, h.smreq, head?_toList_map]
  congr 1
  · cases hq : f.ohc with
    | none => rfl
    | some o => simp [readOhc_ohcAttrs o (wo o hq)]
  · cases hq : f.policy with
    | none => rfl
    | some s => simp [cstr_str s (wp s hq)]
  · cases hq : f.smReq with
    | none => rfl
    | some v => simp [rd8_u8 v (ws v hq)]

theorem fpAttrs_ne (cs : List FpChild) (f : FwdSpec) (h : ArrangesFwd cs f) (wf : f.WF) : (fpAttrs cs).isEmpty = false := by
  obtain ⟨_, _, _, hne⟩ := wf
  have : nests (fpAttrs cs) A.fpOhc ≠ [] ∨ leaves (fpAttrs cs) A.fpPolicy ≠ [] ∨ leaves (fpAttrs cs) A.fpSmReq ≠ [] := by
    unfold fpAttrs
    rw [nests_of _ _ _ _ fp_ohc, leaves_of _ _ _ _ fp_pol, leaves_of _ _ _ _ fp_smreq, h.ohc, h.fpol, h.smreq]
    rcases hne with h1 | h1 | h1
    · left; cases hq : f.ohc with
      | none => simp [hq] at h1
      | some v => simp
    · right; left; cases hq : f.policy with
      | none => simp [hq] at h1
      | some v => simp
    · right; right; cases hq : f.smReq with
      | none => simp [hq] at h1
      | some v => simp
  cases hh : fpAttrs cs with
  | nil => rw [hh] at this; simp at this
  | cons a as => rfl

def fpNE? (c : FarChild) : Option (List Attr) :=
  (FarChild.fp? c).bind fun fs => if (fpAttrs fs).isEmpty then none else some (fpAttrs fs)

def aaWord? (c : FarChild) : Option (BitVec 16) := (FarChild.aa? c).bind Flags.applyUnmarshal

theorem far_leaf_fp (fs : List FpChild) (t : Nat) : leaves (farChildAttrs (.fp fs)) t = [] := by
  simp only [farChildAttrs]; split <;> simp [leaves_cons, leafOf]

theorem far_aa (c : FarChild) :
    leaves (farChildAttrs c) A.farApplyAction = ((aaWord? c).map fun w => le16 w.toNat).toList := by
  cases c with
  | fp fs => simp [far_leaf_fp, aaWord?, FarChild.aa?]
  | aa b =>
    simp only [farChildAttrs, aaWord?, FarChild.aa?, Option.bind]
    cases Flags.applyUnmarshal b <;> simp [leaves_cons, leafOf, u16, gtp5gnl.FAR_APPLY_ACTION, A.farApplyAction]
  | _ => simp [farChildAttrs, aaWord?, FarChild.aa?, leaves_cons, leafOf, u8, gtp5gnl.FAR_BAR_ID, A.farApplyAction]

theorem far_barid (c : FarChild) :
    leaves (farChildAttrs c) A.farBarId = ((FarChild.barid? c).map fun v => [BitVec.ofNat 8 v]).toList := by
  cases c with
  | fp fs => simp [far_leaf_fp, FarChild.barid?]
  | aa b =>
    simp only [farChildAttrs, FarChild.barid?]
    cases Flags.applyUnmarshal b <;> simp [leaves_cons, leafOf, u16, gtp5gnl.FAR_APPLY_ACTION, A.farBarId]
  | _ => simp [farChildAttrs, FarChild.barid?, leaves_cons, leafOf, u8, gtp5gnl.FAR_BAR_ID, A.farBarId]

theorem far_noOid (c : FarChild) (t : Nat) (ht : t = A.link ∨ t = A.farId ∨ t = A.farSeid) :
    leaves (farChildAttrs c) t = [] := by
  cases c with
  | fp fs => exact far_leaf_fp fs t
  | aa b =>
    simp only [farChildAttrs]
    rcases ht with rfl | rfl | rfl <;>
    cases Flags.applyUnmarshal b <;> simp [leaves_cons, leafOf, u16, gtp5gnl.FAR_APPLY_ACTION, A.link, A.farId, A.farSeid]
  | _ => rcases ht with rfl | rfl | rfl <;>
         simp [farChildAttrs, leaves_cons, leafOf, u8, gtp5gnl.FAR_BAR_ID, A.link, A.farId, A.farSeid]

theorem far_fp (c : FarChild) : nests (farChildAttrs c) A.farFwdParam = ((fpNE? c).map id).toList := by
  cases c with
  | fp fs =>
    simp only [farChildAttrs, fpNE?, FarChild.fp?, Option.bind]
    split <;> simp [nests_cons, nestOf, gtp5gnl.FAR_FORWARDING_PARAMETER, A.farFwdParam, *]
  | aa b =>
    simp only [farChildAttrs, fpNE?, FarChild.fp?]
    cases Flags.applyUnmarshal b <;> simp [nests_cons, nestOf, u16]
  | _ => simp [farChildAttrs, fpNE?, FarChild.fp?, nests_cons, nestOf, u8]

/-- the 16-bit flag word the driver hands over is the IE's two octets, little-endian (C19 gives the bits their names) -/
theorem applyUnmarshal_word (b : Bytes) (hb : b ≠ []) :
    (Flags.applyUnmarshal b).map (fun w => rd16 (le16 w.toNat)) = some (aaWord b) := by
  match b, hb with
  | [b0], _ =>
    simp only [Flags.applyUnmarshal, aaWord, Option.map]
    rw [rd16_le16' _ (by have := b0.isLt; simp [BitVec.toNat_setWidth]; omega)]
    simp [BitVec.toNat_setWidth]; have := b0.isLt; omega
  | b0 :: b1 :: rest, _ =>
    simp only [Flags.applyUnmarshal, aaWord, Option.map]
    have e : (BitVec.setWidth 16 b0 ||| BitVec.setWidth 16 b1 <<< 8).toNat = b0.toNat + 256 * b1.toNat := by
      have h0 := b0.isLt; have h1 := b1.isLt
      rw [BitVec.toNat_or, BitVec.toNat_shiftLeft, BitVec.toNat_setWidth, BitVec.toNat_setWidth]
      have : b1.toNat <<< 8 % 2 ^ 16 = b1.toNat * 256 := by rw [Nat.shiftLeft_eq]; omega
      rw [Nat.mod_eq_of_lt (by omega : b0.toNat < 2 ^ 16), Nat.mod_eq_of_lt (by omega : b1.toNat < 2 ^ 16), this]
      have hdisj : b0.toNat ||| b1.toNat * 256 = b1.toNat * 256 + b0.toNat := by
        rw [Nat.or_comm]; have := Nat.shiftLeft_add_eq_or_of_lt (by omega : b0.toNat < 2 ^ 8) b1.toNat
        rw [Nat.shiftLeft_eq] at this
        have e8 : (2:Nat) ^ 8 = 256 := by decide
        rw [e8] at this; omega
      omega
    rw [e, rd16_le16' _ (by have h0 := b0.isLt; have h1 := b1.isLt; omega)]

theorem readFar_attrs (link seid : Nat) (cs : List FarChild) (p : FarSpec)
    (h : ArrangesFar cs p) (wf : p.WF) (hl : link < 2 ^ 32) (hs : seid < 2 ^ 64) (fl : Nat) :
    readFar (farReq link seid fl cs).attrs = expectFar link seid p := by
  obtain ⟨wid, waa, wfp, wbar⟩ := wf
  have hid : farId cs 0 = p.id := by rw [farId_last, h.id]; rfl
  unfold readFar expectFar farReq
  simp only [leaf1, nest1, leaves_append, nests_append, oidAttrs, hid]
  congr 1
  · simp [leaves_cons, leafOf, u32, u64, gtp5gnl.LINK, gtp5gnl.FAR_ID, gtp5gnl.FAR_SEID, A.link, rd32_le32 link hl]
  · simp [leaves_cons, leafOf, u32, u64, gtp5gnl.LINK, gtp5gnl.FAR_ID, gtp5gnl.FAR_SEID, A.farSeid, rd64_le64 seid hs]
  · simp [leaves_cons, leafOf, u32, u64, gtp5gnl.LINK, gtp5gnl.FAR_ID, gtp5gnl.FAR_SEID, A.farId, rd32_le32 p.id wid]
  · rw [leaves_of _ _ _ _ far_aa]
    simp only [leaves_cons, leafOf, u32, u64, gtp5gnl.LINK, gtp5gnl.FAR_ID, gtp5gnl.FAR_SEID, A.farApplyAction]
    unfold aaWord?
    rw [← List.filterMap_filterMap, h.aa]
    cases hq : p.applyAction with
    | none => rfl
    | some b =>
      have := applyUnmarshal_word b (waa b hq)
      cases hu : Flags.applyUnmarshal b with
      | none => simp [hu] at this
      | some w => simp [hu] at this; simp [hu, this]
  · rw [nests_of _ _ _ _ far_fp]
    simp only [nests_cons, nestOf, u32, u64, Option.toList, List.nil_append, List.map_id]
    obtain ⟨fss, hfss, hlen, harr⟩ := h.fp
    unfold fpNE?
    rw [← List.filterMap_filterMap, hfss]
    cases hq : p.fwd with
    | none => simp [hq] at hlen; subst hlen; rfl
    | some f =>
      simp [hq] at hlen
      match fss, hlen with
      | [fs], _ =>
        have ha := harr fs (by simp) f hq
        have hne : fpAttrs fs ≠ [] := by
          have := fpAttrs_ne fs f ha (wfp f hq)
          intro h0; rw [h0] at this; cases this
        simp [hne, readFwd_fpAttrs fs f ha (wfp f hq)]
  · rw [leaves_of _ _ _ _ far_barid, h.barid]
    simp [leaves_cons, leafOf, u32, u64, gtp5gnl.LINK, gtp5gnl.FAR_ID, gtp5gnl.FAR_SEID, A.farBarId]
    cases hq : p.barId with
    | none => rfl
    | some v => simp [rd8_u8 v (wbar v hq)]

theorem farErr_false (cs : List FarChild) (p : FarSpec) (h : ArrangesFar cs p) (wf : p.WF) : farErr cs = false := by
  obtain ⟨_, waa, _, _⟩ := wf
  have key : ∀ cs : List FarChild, (∀ b ∈ cs.filterMap FarChild.aa?, b ≠ []) → farErr cs = false := by
    intro cs
    induction cs with
    | nil => intro _; rfl
    | cons c cs ih =>
      intro hb
      cases c with
      | aa b =>
        have hne : b ≠ [] := hb b (by simp [FarChild.aa?])
        have : (Flags.applyUnmarshal b).isNone = false := by
          match b, hne with
          | [_], _ => rfl
          | _ :: _ :: _, _ => rfl
        simp only [farErr, this, Bool.false_or]
        exact ih (fun x hx => hb x (by simp [FarChild.aa?, hx]))
      | _ => simp only [farErr]; exact ih (fun x hx => hb x (by simpa [FarChild.aa?] using hx))
  apply key
  rw [h.aa]
  intro b hb
  cases hq : p.applyAction with
  | none => simp [hq] at hb
  | some b' => simp [hq] at hb; subst hb; exact waa _ hq

/-- **Create FAR**: accepted, one request, and the kernel holds exactly the IE's content -/
theorem createFAR_exact (link seid : Nat) (cs : List FarChild) (p : FarSpec) (h : ArrangesFar cs p) (wf : p.WF)
    (hl : link < 2 ^ 32) (hs : seid < 2 ^ 64) :
    ∃ r, createFAR link seid cs = (true, [r]) ∧ r.cmd = Cmd.addFar ∧ readFar r.attrs = expectFar link seid p := by
  refine ⟨farReq link seid flCreate cs, ?_, rfl, readFar_attrs link seid cs p h wf hl hs _⟩
  simp [createFAR, farErr_false cs p h wf]

/-- **Update FAR**: accepted; the last request is the rule, exact (the requests before it are the GET_FAR look-ups of
    `applyAction`, which belong to C13) -/
theorem updateFAR_exact (link seid : Nat) (cs : List FarChild) (p : FarSpec) (h : ArrangesFar cs p) (wf : p.WF)
    (hl : link < 2 ^ 32) (hs : seid < 2 ^ 64) :
    ∃ gets r, updateFAR link seid cs = (true, gets ++ [r]) ∧ (∀ g ∈ gets, g.cmd = gtp5gnl.CMD_GET_FAR) ∧
      r.cmd = Cmd.addFar ∧ readFar r.attrs = expectFar link seid p := by
  refine ⟨farGets link seid cs, farReq link seid flUpdate cs, ?_, ?_, rfl, readFar_attrs link seid cs p h wf hl hs _⟩
  · simp [updateFAR, farErr_false cs p h wf]
  · intro g hg
    simp only [farGets, List.mem_map] at hg
    obtain ⟨_, _, rfl⟩ := hg
    rfl

/-- the look-ups of `applyAction` address the FAR the IE names, wherever the FAR ID child stands -/
theorem updateFAR_gets_addressed (link seid : Nat) (cs : List FarChild) (p : FarSpec) (h : ArrangesFar cs p) :
    ∀ g ∈ farGets link seid cs, g = getFAR link seid p.id := by
  have hid : farId cs 0 = p.id := by rw [farId_last, h.id]; rfl
  intro g hg
  simp only [farGets, List.mem_map] at hg
  obtain ⟨_, _, rfl⟩ := hg
  rw [hid]

theorem createFAR_order_independent (link seid : Nat) (cs cs' : List FarChild) (p : FarSpec)
    (h : ArrangesFar cs p) (h' : ArrangesFar cs' p) (wf : p.WF) (hl : link < 2 ^ 32) (hs : seid < 2 ^ 64) :
    readFar (farReq link seid flCreate cs).attrs = readFar (farReq link seid flCreate cs').attrs := by
  rw [readFar_attrs link seid cs p h wf hl hs, readFar_attrs link seid cs' p h' wf hl hs]

theorem far_bytes (link seid fl : Nat) (cs : List FarChild) (p : FarSpec) (h : ArrangesFar cs p) (wf : p.WF)
    (hl : link < 2 ^ 32) (hs : seid < 2 ^ 64) (hsz : wfList (farReq link seid fl cs).attrs = true) :
    (decodeTree (encList (farReq link seid fl cs).attrs)).map readFar = some (expectFar link seid p) := by
  rw [decodeTree_encList _ hsz]; simp [readFar_attrs link seid cs p h wf hl hs]

/-! ### the run-time predicate is an instance of the theorems
     (`checkRule` in Driver/Drv.lean extracts the content with `specPdr` / `specFar` and compares `read…` of the
     implementation's bytes with `expect…`) -/

theorem createPDR_predicate (link seid : Nat) (cs : List PdrChild) (p : PdrSpec) (h : specPdr cs = some p) (wf : p.WF)
    (hl : link < 2 ^ 32) (hs : seid < 2 ^ 64) :
    readPdr (createPDR link seid cs).attrs = expectPdr link seid p :=
  (createPDR_exact link seid cs p (specPdr_arranges cs p h) wf hl hs).2

theorem updatePDR_predicate (link seid : Nat) (cs : List PdrChild) (p : PdrSpec) (h : specPdr cs = some p) (wf : p.WF)
    (hl : link < 2 ^ 32) (hs : seid < 2 ^ 64) :
    readPdr (updatePDR link seid cs).attrs = expectPdr link seid p :=
  (updatePDR_exact link seid cs p (specPdr_arranges cs p h) wf hl hs).2

theorem far_predicate (link seid fl : Nat) (cs : List FarChild) (p : FarSpec) (h : specFar cs = some p) (wf : p.WF)
    (hl : link < 2 ^ 32) (hs : seid < 2 ^ 64) :
    readFar (farReq link seid fl cs).attrs = expectFar link seid p :=
  readFar_attrs link seid cs p (specFar_arranges cs p h) wf hl hs fl

end UpfVerif.C02

/-! ### non-vacuity: a concrete uplink PDR whose children come PDI-first and id-last, with two QER ids and an SDF filter -/
namespace UpfVerif.C02.Ex
open UpfVerif.FlowDesc
def exFlow : FlowDesc :=
  { dir := kwOut, proto := 17,
    src := { ip := [10, 1, 2, 0], mask := [255, 255, 255, 0] },
    dst := { ip := List.replicate 16 0, mask := List.replicate 16 0 },
    sports := [[80]], dports := [] }
def fdTxt : Str := "permit out 17 from 10.1.2.0/24 80 to assigned".toList
theorem exFd : parseFlowDesc fdTxt = some exFlow := by decide
open UpfVerif.Netlink UpfVerif.Gtp5gRead UpfVerif.Rules UpfVerif.Xlate UpfVerif.XlateL UpfVerif.C02 UpfVerif.Arrange
def exPdi : PdiSpec := { srcIf := some 0, fteid := some (0x1234, [10#8, 0#8, 0#8, 1#8]), ueip := some [10#8, 60#8, 0#8, 1#8],
                         sdfs := [(fdTxt, some 7)] }
def exPdr : PdrSpec := { id := 9, prec := some 255, ohr := some 0, farId := some 4000000000, qerIds := [5, 6], urrIds := [], pdi := some exPdi }
def exPdiChildren : List PdiChild := [.sdf fdTxt (some 7), .netinst, .ueip [10#8, 60#8, 0#8, 1#8], .fteid 0x1234 [10#8, 0#8, 0#8, 1#8], .srcif 0]
def exPdrChildren : List PdrChild :=
  [.pdi exPdiChildren, .qerid 5, .farid 4000000000, .ohr 0, .qerid 6, .prec 255, .pdrid 9]

theorem exArr : ArrangesPdr exPdrChildren exPdr ∧ exPdr.WF := by
  refine ⟨⟨rfl, rfl, rfl, rfl, rfl, rfl, ⟨[exPdiChildren], rfl, rfl, ?_⟩⟩, ?_⟩
  · intro ps hps q hq
    simp at hps; subst hps
    cases hq
    exact ⟨rfl, rfl, rfl, rfl⟩
  · refine ⟨by decide, ?_, ?_, ?_, ?_, ?_, ?_⟩
    · intro v h; cases h; decide
    · intro v h; cases h; decide
    · intro v h; cases h; decide
    · intro v h; simp [exPdr] at h; rcases h with rfl | rfl <;> decide
    · intro v h; simp [exPdr] at h
    · intro q h; cases h
      refine ⟨rfl, ?_, ?_, ?_⟩
      · intro v h; cases h; decide
      · intro t ip h; cases h; decide
      · intro s hs b hb; simp [exPdi] at hs; subst hs; cases hb; decide

theorem exSz : wfList (createPDR 7 (2 ^ 64 - 1) exPdrChildren).attrs = true := by
  simp [createPDR, exPdrChildren, exPdiChildren, oidAttrs, pdrChildAttrs, pdiAttrs, pdiDirect, pdiSdf, pdiSrcIf, sdfAttrs, exFd, exFlow,
    flowDescAttrs, bidAttrs, wfList, Attr.wf, Attr.enc, encList, u8, u16, u32, u64, str, bytes, le16, le32, le64, sockPath, pad, padLen,
    Xlate.ipBytes, portBytes, portWords]
  decide

/-- the uplink swap on the concrete rule: the kernel's *destination* is the rule's source network and port -/
example : ((expectPdr 7 1 exPdr).pdi.map fun v => v.sdfs.map fun s => s.fd.map fun f => (f.dstIp, f.dstPorts)) =
    some [some (some [10#8, 1#8, 2#8, 0#8], [(80, 80)])] := by
  simp [expectPdr, exPdr, exPdi, expectPdi, expectSdf, exFd, expectFlow, exFlow, PdiSpec.uplink, srcIfAccess, Rules.ipBytes, portRange]

/-- the hypotheses of the byte-level theorem are met by the concrete rule (SEID 2^64-1) -/
example := createPDR_bytes 7 (2 ^ 64 - 1) exPdrChildren exPdr exArr.1 exArr.2 (by decide) (by decide) exSz

end UpfVerif.C02.Ex
