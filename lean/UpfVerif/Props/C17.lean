import UpfVerif.Spec.ConcRules
/-
C17 — session and transaction state is confined to the event loop; notifications are processed exactly once; Stop stops
without a fault.   PARTIAL: a data race is a fact about one execution under the Go memory model; what is proved is the
*discipline* that excludes it, over the access facts REGENERATED from /repo by go/ssa (Gen/Conc.lean) on every run.

* `confined_no_conflict` — the principle, for every schedule: if every access to a location is made by the location's owner
  process, no two accesses by different processes touch the same location (so no pair can race, whatever the interleaving).
* `owner_table` — evaluated by the kernel on the regenerated table: every read or write of a field of PfcpServer,
  LocalNode, RemoteNode, Sess, PDRInfo, URRInfo, Tx/RxTransaction that is reachable from ANY goroutine root other than the
  event loop is (a) one of the hand-over channels, (b) a write inside a constructor, (c) a read of a field that is written
  only inside constructors, or (d) one of the listed exceptions.  The same for the periodic server's own state and its
  goroutine.  A new access from a timer callback, a report producer or the Stop path breaks this theorem.
* `producers_guarded`, `no_close_under_senders` — the stop protocol on the facts: every send into the loop's queues from a
  foreign root sits in a `select` with the loop's `done` channel; no channel with foreign senders is ever closed (except
  `rcvCh`, whose only sender sends its last message before the close is reached).
* `stop_no_fault`, `stop_releases_producers` — the protocol as a transition system, for every interleaving: a notification
  never faults, and once the loop has ended no producer stays blocked; `old_protocol_faults`: the protocol before the
  repair (closing the queues) has a faulting interleaving.
* `fifo_exactly_once` — what is taken off a FIFO queue is exactly what was put in, in order, each once.
-/
namespace UpfVerif.C17
open UpfVerif.Gen.Conc UpfVerif.ConcRules

/-- the ownership rule is the WHOLE synchronisation story: in /repo's current source no mutex, read-write lock, atomic,
    `sync.Pool`, `sync.Once` or `sync.Cond` is used anywhere in the module (only `sync.WaitGroup`, for shutdown) — so a
    structure reachable from two goroutines is protected by ownership and channel hand-over, or not at all -/
theorem no_other_synchronisation : otherSync = [] := by decide

/-! ### the principle -/

structure Ev where
  proc : Nat
  loc : Nat
  write : Bool
deriving DecidableEq, Repr

def conflict (a b : Ev) : Prop := a.loc = b.loc ∧ (a.write = true ∨ b.write = true) ∧ a.proc ≠ b.proc

/-- every access to a location is made by its owner -/
def Confined (owner : Nat → Nat) (t : List Ev) : Prop := ∀ e ∈ t, e.proc = owner e.loc

/-- for EVERY trace (every schedule of every length): confinement leaves no conflicting pair at all -/
theorem confined_no_conflict (owner : Nat → Nat) (t : List Ev) (h : Confined owner t) :
    ∀ a ∈ t, ∀ b ∈ t, ¬ conflict a b := by
  intro a ha b hb ⟨hl, _, hp⟩
  exact hp (by rw [h a ha, h b hb, hl])

/-! ### the regenerated facts -/

set_option maxRecDepth 100000 in
/-- **session and transaction state is touched by the event loop only** (kernel-evaluated on the regenerated table) -/
theorem owner_table : accesses.all (okFor loopRoot loopTypes handover) = true := by decide

set_option maxRecDepth 100000 in
/-- the periodic server's groups and tickers are touched by its own goroutine only -/
theorem owner_table_perio :
    accesses.all (okFor perioRoot ["perio.Server", "perio.PERIOGroup"]
      [("perio.Server", "evtCh"), ("perio.Server", "done"), ("perio.PERIOGroup", "stopCh")]) = true := by decide

/-- non-vacuity: the table is not empty, the loop does touch the state, and foreign roots do reach the server -/
theorem table_nonvacuous :
    (accesses.filter fun a => loopTypes.contains a.typ && a.root == loopRoot).length > 100 ∧
    (accesses.filter fun a => loopTypes.contains a.typ && a.root != loopRoot).length > 20 ∧
    roots.length ≥ 8 := by
  set_option maxRecDepth 100000 in decide

/-! ### the stop protocol on the facts -/


set_option maxRecDepth 100000 in
/-- every send into the loop's report / timeout queues sits next to a receive on `done` in the same function -/
theorem producers_guarded :
    accesses.all (fun a =>
      !(isSend a.kind && loopQueues.contains (a.typ, a.field)) ||
      (a.kind == "selsend" &&
       accesses.any (fun b => b.root == a.root && b.fn == a.fn && b.typ == "pfcp.PfcpServer" && b.field == "done" && b.kind == "selrecv"))) = true := by
  decide

set_option maxRecDepth 100000 in
/-- no channel that another root sends on is ever closed — except `rcvCh` (its only sender, the receiver goroutine, sends
    its last message, the stop marker, before the loop reaches the close) and the unbuffered per-ticker `stopCh`
    (closed by the one goroutine that also sends on it) -/
theorem no_close_under_senders :
    accesses.all (fun a =>
      !(a.kind == "close") || (a.typ, a.field) == ("pfcp.PfcpServer", "rcvCh") ||
      accesses.all (fun b => !(b.typ == a.typ && b.field == a.field && isSend b.kind) || b.root == a.root)) = true := by
  decide

/-! ### the stop protocol as a transition system -/

structure Q where
  len : Nat
  cap : Nat
  closed : Bool          -- the queue itself closed (the old protocol)
  done : Bool            -- the loop's `done` channel closed (the loop has ended)
deriving DecidableEq, Repr

inductive Outcome
  | enqueued
  | dropped     -- the loop is gone: the notification is discarded
  | blocked     -- the producer waits (the queue is full and the loop alive)
  | fault       -- send on closed channel
deriving DecidableEq, Repr

/-- `select { case q <- x: case <-done: }` — every outcome the Go semantics allows -/
def notifyNew (q : Q) : List (Outcome × Q) :=
  if q.closed then [(.fault, q)] else
  (if q.len < q.cap then [(.enqueued, { q with len := q.len + 1 })] else []) ++
  (if q.done then [(.dropped, q)] else []) ++
  (if !(q.len < q.cap) && !q.done then [(.blocked, q)] else [])

/-- `q <- x` — the protocol before the repair -/
def notifyOld (q : Q) : List (Outcome × Q) :=
  if q.closed then [(.fault, q)]
  else if q.len < q.cap then [(.enqueued, { q with len := q.len + 1 })] else [(.blocked, q)]

/-- the loop ends: new protocol closes `done`, old protocol closes the queue -/
def loopEndNew (q : Q) : Q := { q with done := true }
def loopEndOld (q : Q) : Q := { q with closed := true }

/-- the loop takes one item -/
def take (q : Q) : Q := { q with len := q.len - 1 }

inductive Act | notify | take | loopEnd
deriving DecidableEq, Repr

/-- states reachable under the new protocol from an open queue, by any interleaving of producers, the loop and its end -/
inductive ReachNew : Q → Prop
  | init (cap : Nat) : ReachNew { len := 0, cap := cap, closed := false, done := false }
  | notify {q q' o} : ReachNew q → (o, q') ∈ notifyNew q → ReachNew q'
  | take {q} : ReachNew q → q.done = false → ReachNew (take q)
  | loopEnd {q} : ReachNew q → ReachNew (loopEndNew q)

/-- what a notification can do on an open queue -/
theorem mem_notifyNew (q : Q) (hc : q.closed = false) (o : Outcome) (q' : Q) (hm : (o, q') ∈ notifyNew q) :
    (o = .enqueued ∧ q'.closed = false) ∨ (o = .dropped ∧ q.done = true ∧ q' = q) ∨ (o = .blocked ∧ q.done = false ∧ q' = q) := by
  unfold notifyNew at hm
  simp only [hc, Bool.false_eq_true, if_false] at hm
  by_cases h1 : q.len < q.cap <;> cases h2 : q.done <;> simp [h1, h2] at hm
  · left; exact ⟨hm.1, by simp [hm.2, hc]⟩
  · rcases hm with hm | hm
    · left; exact ⟨hm.1, by simp [hm.2, hc]⟩
    · right; left; exact ⟨hm.1, rfl, hm.2⟩
  · right; right; exact ⟨hm.1, rfl, hm.2⟩
  · right; left; exact ⟨hm.1, rfl, hm.2⟩

theorem reachNew_open (q : Q) (h : ReachNew q) : q.closed = false := by
  induction h with
  | init => rfl
  | notify _ hm ih =>
    rcases mem_notifyNew _ ih _ _ hm with ⟨_, h⟩ | ⟨_, _, h⟩ | ⟨_, _, h⟩
    · exact h
    · rw [h]; exact ih
    · rw [h]; exact ih
  | take _ _ ih => exact ih
  | loopEnd _ ih => exact ih

/-- **whatever is in flight when the server stops, a notification never faults** -/
theorem stop_no_fault (q : Q) (h : ReachNew q) : ∀ o q', (o, q') ∈ notifyNew q → o ≠ .fault := by
  intro o q' hm
  rcases mem_notifyNew q (reachNew_open q h) o q' hm with ⟨h, _⟩ | ⟨h, _⟩ | ⟨h, _⟩ <;> (rw [h]; decide)

/-- …and once the loop has ended, no producer stays blocked: every notification returns -/
theorem stop_releases_producers (q : Q) (h : ReachNew q) (hd : q.done = true) : ∀ o q', (o, q') ∈ notifyNew q → o ≠ .blocked := by
  intro o q' hm
  rcases mem_notifyNew q (reachNew_open q h) o q' hm with ⟨h, _⟩ | ⟨h, _⟩ | ⟨_, h, _⟩
  · rw [h]; decide
  · rw [h]; decide
  · rw [hd] at h; cases h

/-- the protocol before the repair: one producer after the loop's end is enough -/
theorem old_protocol_faults :
    (Outcome.fault, loopEndOld { len := 0, cap := 128, closed := false, done := false }) ∈
      notifyOld (loopEndOld { len := 0, cap := 128, closed := false, done := false }) := by
  decide

/-! ### exactly once -/

/-- a FIFO queue: the items taken so far, then the items still queued, are exactly the items put in, in order -/
def fifoRun : List (Option Nat) → List Nat × List Nat → List Nat × List Nat
  | [], s => s
  | some x :: ops, (q, out) => fifoRun ops (q ++ [x], out)            -- put
  | none :: ops, ([], out) => fifoRun ops ([], out)                     -- take on empty: nothing
  | none :: ops, (y :: q, out) => fifoRun ops (q, out ++ [y])           -- take

theorem fifo_exactly_once (ops : List (Option Nat)) (q out : List Nat) :
    (fifoRun ops (q, out)).2 ++ (fifoRun ops (q, out)).1 = out ++ q ++ ops.filterMap id := by
  induction ops generalizing q out with
  | nil => simp [fifoRun]
  | cons o ops ih =>
    cases o with
    | some x => simp only [fifoRun, ih, List.filterMap_cons, id]; simp
    | none =>
      cases q with
      | nil => simp only [fifoRun, ih, List.filterMap_cons, id]
      | cons y q => simp only [fifoRun, ih, List.filterMap_cons, id]; simp

end UpfVerif.C17
