/-
C07 — no datagram sequence can take the control plane down.   (PARTIAL by design, see DESIGN.md §7/C07)

Layer 1 — go-upf's own logic, proved over M-Core for every reachable state and every abstract event (any message
class, any SEID / id / sequence value, responses without request, unknown peers):
 * every slice access of the session table is in range: `lookup_index_safe` (the unsigned range check, for all
   2^64 SEID values), `reuse_index_safe` (the slot re-used by `NewSess`), and the table invariant they need holds in
   every reachable state (C01 `run_inv_from`, C04); `RemoteSess` only inspects live slots (`remoteSess_skips_nil`);
 * `Core.step` is a total function built from total operations only — the model contains no partial operation whose
   precondition is not discharged by one of the lemmas above — so no event has a faulting outcome;
 * `heartbeat_live`: in every state a Heartbeat Request is answered (first copy: a Heartbeat Response to the
   sender with its sequence number; retransmission: the cached answer);
 * sessions not addressed by a message are intact: C05 `mod_frame`, `del_frame`, `reset_frame`.
Layer 2 — decoding of the datagram (go-pfcp `message.Parse` and the IE accessors) is NOT proved here: it is covered by
the malformed-datagram correspondence stream only, and the one fault found there is a recorded known finding.
Layer 2, gtp5g driver path — structural, over facts regenerated from /repo on every run (Gen/Guards.lean, go/ast): every
driver entry point that walks the CONTENT of a rule IE (Create* / Update* of PDR, FAR, QER, URR, BAR) starts with
`defer ieFault(&<named error result>)`, `ieFault` calls `recover()` in its own body and stores the fault as the operation's
error (`driver_walks_guarded`, `guard_is_a_guard`); the entry points without the guard are exactly the Remove* ones, which
read the rule id only (`unguarded_read_id_only`).  Under Go's defer / recover semantics (trusted, modelled by `guarded`) a
guarded call never hands a fault to the event loop (`guarded_never_faults`).  What the IE walk inside the guard answers
is not modelled; that it does not fault PAST the guard is what the damaged-IE stream (`drvmal`) observes.
-/
import UpfVerif.Model.Core
import UpfVerif.Gen.Guards
import UpfVerif.Lemmas.Core
import UpfVerif.Props.C04
import UpfVerif.Props.C05
import UpfVerif.Props.C08

namespace UpfVerif.C07
open UpfVerif.Core

/-- the index `int(lSeid) - 1` is inside the slice whenever the lookup gets as far as indexing — for every SEID -/
theorem lookup_index_safe (n : LNode) (x : Seid) (h0 : x ≠ 0) (h : ¬ x.toNat > n.sess.length) :
    x.toNat - 1 < n.sess.length := by
  have := C04.toNat_pos_of_ne_zero x h0
  omega

/-- `n.sess[s.LocalID-1] = s` in `NewSess` (re-use of a freed id) is inside the slice in every well-formed table -/
theorem reuse_index_safe (n : LNode) (wf : C04.TableWF n) (id : Seid) (hl : n.free.getLast? = some id) :
    1 ≤ id.toNat ∧ id.toNat - 1 < n.sess.length := by
  have hmem : id ∈ n.free := List.mem_of_getLast? hl
  have ⟨h1, h2⟩ := wf.freeRange id hmem
  exact ⟨h1, by omega⟩

/-- `RemoteSess` looks at live slots only (the nil-slot defect repaired by the `fix:` commit) -/
theorem remoteSess_skips_nil (nodes : List RNode) (rSeid : Seid) (addr : String) :
    matchRemote nodes rSeid addr none = false := rfl

/-- the loop body has an outcome for every state, event and environment -/
theorem step_total (st : State) (e : Event) (env : Env) : ∃ st' outs, step st e env = (st', outs) :=
  ⟨_, _, rfl⟩

/-- a Heartbeat Request (first copy) is answered in every state, whatever happened before -/
theorem heartbeat_live (st : State) (addr : String) (seq : BitVec 24) (env : Env)
    (h : alGet st.rx (addr, seq) = none) :
    (step st (.request addr seq .heartbeat) env).2 = [Out.send addr { kind := .hbRsp, seq := seq, recov := true }] := by
  simp [step, h, handleReq, State.sendRsp, Ctx.emit]

/-- … and a retransmitted one gets the cached answer again -/
theorem heartbeat_retransmitted (st : State) (addr : String) (seq : BitVec 24) (env : Env) (m : Msg)
    (h : alGet st.rx (addr, seq) = some { rsp := some m }) :
    (step st (.request addr seq .heartbeat) env).2 = [Out.send addr m] := by
  simp [step, h, Ctx.emit]

/-- events that match nothing are ignored without effect: undecodable datagrams, responses and expiries without
    transaction, requests for unknown sessions leave every session as it was -/
theorem ignored_no_effect (st : State) (env : Env) : step st .ignored env = (st, []) := by simp [step]

theorem unknown_session_mod_intact (st : State) (wf : C04.TableWF st.lnode) (addr : String) (seq : BitVec 24)
    (r : ModReq) (env : Env) (c : Ctx) (y : Seid) (hy : y ≠ r.seid) :
    (handleMod st addr seq r env c).1.lnode.lookup y = st.lnode.lookup y :=
  C05.mod_frame st wf addr seq r env c y hy

/-! ### layer 2 on the gtp5g driver path: the fault guard of the rule entry points (regenerated facts) -/

/-- the driver entry points that walk the content of a grouped rule IE -/
def walksRuleIE : List String :=
  ["CreatePDR", "UpdatePDR", "CreateFAR", "UpdateFAR", "CreateQER", "UpdateQER", "CreateURR", "UpdateURR", "CreateBAR", "UpdateBAR"]

/-- the ones that read the rule id and nothing else -/
def readsIdOnly : List String := ["RemovePDR", "RemoveFAR", "RemoveQER", "RemoveURR", "RemoveBAR"]

/-- in /repo's current source every one of them starts with `defer ieFault(&<named error result>)` -/
theorem driver_walks_guarded : ∀ n ∈ walksRuleIE, (n, true) ∈ Gen.Guards.driverIE := by decide

/-- `ieFault` is a guard: it recovers in its own body and turns the fault into the operation's error -/
theorem guard_is_a_guard : Gen.Guards.guardRecovers = true ∧ Gen.Guards.guardSetsError = true := by decide

/-- no other exported entry point handed a rule IE is without the guard, except those that read the id only -/
theorem unguarded_read_id_only : ∀ p ∈ Gen.Guards.driverIE, p.2 = false → p.1 ∈ readsIdOnly := by decide

/-- outcome of a Go function body: it returns, or it faults (panics) -/
inductive Outcome (α : Type) | ret (a : α) | fault
deriving DecidableEq, Repr

/-- `func f(...) (rerr error) { defer guard(&rerr); body }` — Go's defer / recover: when the body faults and the deferred
    function recovers, `f` returns normally with the error the guard stored; when it does not recover, the fault goes on -/
def guarded (recovers : Bool) (body : Outcome (Except String α)) : Outcome (Except String α) :=
  match body with
  | .ret a => .ret a
  | .fault => if recovers then .ret (.error "malformed IE") else .fault

/-- with the guard of the current source, whatever the walk over the IE does, the entry point returns: the fault of one
    rule IE is the error of one rule, not the end of the event loop -/
theorem guarded_never_faults (body : Outcome (Except String α)) : guarded Gen.Guards.guardRecovers body ≠ .fault := by
  have h : Gen.Guards.guardRecovers = true := guard_is_a_guard.1
  rw [h]
  cases body <;> simp [guarded]

/-- … and a body that does not fault is not disturbed by it -/
theorem guarded_transparent (r : Bool) (a : Except String α) : guarded r (.ret a) = .ret a := rfl

/-- without a recovering guard the fault goes through (what b4acd18 repaired) -/
example : guarded false (Outcome.fault : Outcome (Except String Unit)) = .fault := rfl

/-- the extreme SEID values of the quantifier: all answered "not found", none indexes the table -/
example : let n := [C04.TOp.new 7, .new 8].foldl C04.applyOp {}
    n.lookup 0 = none ∧ n.lookup 3 = none ∧ n.lookup (BitVec.ofNat 64 (2^63)) = none ∧
    n.lookup (BitVec.ofNat 64 (2^63 + 1)) = none ∧ n.lookup (BitVec.ofNat 64 (2^64 - 1)) = none := by decide

end UpfVerif.C07
