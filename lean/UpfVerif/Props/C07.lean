/-
C07 — no datagram sequence can take the control plane down.   (PARTIAL by design, see DESIGN.md §7/C07)

Layer 1 — go-upf's own logic, proved over M-Core for every reachable state and every abstract event (any message
class, any SEID / id / sequence value, responses without request, unknown peers):
 * every slice access of the session table is in range: `lookup_index_safe` (the unsigned range check, for all
   2^64 SEID values), `reuse_index_safe` (the slot re-used by `NewSess`), and the table invariant they need holds in
   every reachable state (C01 `run_inv_from`, C04); `RemoteSess` only inspects live slots (`remoteSess_skips_nil`);
 * `Core.step` is a total function built from total operations only — the model contains no partial operation whose
   precondition is not discharged by one of the lemmas above — so no event has a faulting outcome;
 * `heartbeat_live`: in every state a Heartbeat Request is answered (first copy: a Heartbeat Response to the
   sender with its sequence number; retransmission: the cached answer);
 * sessions not addressed by a message are intact: C05 `mod_frame`, `del_frame`, `reset_frame`.
Layer 2 — decoding of the datagram (go-pfcp `message.Parse` and the IE accessors) is NOT proved here: it is covered by
the malformed-datagram correspondence stream only, and the one fault found there is a recorded known finding.
-/
import UpfVerif.Model.Core
import UpfVerif.Lemmas.Core
import UpfVerif.Props.C04
import UpfVerif.Props.C05
import UpfVerif.Props.C08

namespace UpfVerif.C07
open UpfVerif.Core

/-- the index `int(lSeid) - 1` is inside the slice whenever the lookup gets as far as indexing — for every SEID -/
theorem lookup_index_safe (n : LNode) (x : Seid) (h0 : x ≠ 0) (h : ¬ x.toNat > n.sess.length) :
    x.toNat - 1 < n.sess.length := by
  have := C04.toNat_pos_of_ne_zero x h0
  omega

/-- `n.sess[s.LocalID-1] = s` in `NewSess` (re-use of a freed id) is inside the slice in every well-formed table -/
theorem reuse_index_safe (n : LNode) (wf : C04.TableWF n) (id : Seid) (hl : n.free.getLast? = some id) :
    1 ≤ id.toNat ∧ id.toNat - 1 < n.sess.length := by
  have hmem : id ∈ n.free := List.mem_of_getLast? hl
  have ⟨h1, h2⟩ := wf.freeRange id hmem
  exact ⟨h1, by omega⟩

/-- `RemoteSess` looks at live slots only (the nil-slot defect repaired by the `fix:` commit) -/
theorem remoteSess_skips_nil (nodes : List RNode) (rSeid : Seid) (addr : String) :
    matchRemote nodes rSeid addr none = false := rfl

/-- the loop body has an outcome for every state, event and environment -/
theorem step_total (st : State) (e : Event) (env : Env) : ∃ st' outs, step st e env = (st', outs) :=
  ⟨_, _, rfl⟩

/-- a Heartbeat Request (first copy) is answered in every state, whatever happened before -/
theorem heartbeat_live (st : State) (addr : String) (seq : BitVec 24) (env : Env)
    (h : alGet st.rx (addr, seq) = none) :
    (step st (.request addr seq .heartbeat) env).2 = [Out.send addr { kind := .hbRsp, seq := seq, recov := true }] := by
  simp [step, h, handleReq, State.sendRsp, Ctx.emit]

/-- … and a retransmitted one gets the cached answer again -/
theorem heartbeat_retransmitted (st : State) (addr : String) (seq : BitVec 24) (env : Env) (m : Msg)
    (h : alGet st.rx (addr, seq) = some { rsp := some m }) :
    (step st (.request addr seq .heartbeat) env).2 = [Out.send addr m] := by
  simp [step, h, Ctx.emit]

/-- events that match nothing are ignored without effect: undecodable datagrams, responses and expiries without
    transaction, requests for unknown sessions leave every session as it was -/
theorem ignored_no_effect (st : State) (env : Env) : step st .ignored env = (st, []) := by simp [step]

theorem unknown_session_mod_intact (st : State) (wf : C04.TableWF st.lnode) (addr : String) (seq : BitVec 24)
    (r : ModReq) (env : Env) (c : Ctx) (y : Seid) (hy : y ≠ r.seid) :
    (handleMod st addr seq r env c).1.lnode.lookup y = st.lnode.lookup y :=
  C05.mod_frame st wf addr seq r env c y hy

/-- the extreme SEID values of the quantifier: all answered "not found", none indexes the table -/
example : let n := [C04.TOp.new 7, .new 8].foldl C04.applyOp {}
    n.lookup 0 = none ∧ n.lookup 3 = none ∧ n.lookup (BitVec.ofNat 64 (2^63)) = none ∧
    n.lookup (BitVec.ofNat 64 (2^63 + 1)) = none ∧ n.lookup (BitVec.ofNat 64 (2^64 - 1)) = none := by decide

end UpfVerif.C07
