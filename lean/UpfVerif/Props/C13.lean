import UpfVerif.Model.Buf
import UpfVerif.Props.C14
import UpfVerif.Props.C10
import UpfVerif.Props.C04
/-
C13 — buffered downlink packets are released in order, once, to the right tunnel.

Over M-Buf (tied to the real PfcpServer + Gtp5g driver + simulated kernel by the S-full buffering stream):
* `queue_prefix`: whatever is pushed, a PDR's queue is the first `cap` arrivals (since it was last drained), in arrival
  order — a full queue drops the NEW packet, never displaces an older one; other PDRs' queues are untouched.
* `notify_spec`: a notification is queued iff BUFF and non-empty payload and the session is live; a Downlink Data Report is
  raised iff NOCP (and the session is live).
* `drain_exact`: a release emits, PDR by PDR, exactly the queued packets in order, each once, as GTP-U datagrams with the
  FAR's TEID and the PDR's QFI, and leaves those queues empty (a second release emits nothing: `drain_idem`); a discard
  emits nothing; queues of PDRs not related to the FAR are untouched.
* `datagram_wellformed`: every emitted datagram is a G-PDU the independent TS 29.281 decoder reads back to exactly
  (TEID, QFI, payload) (C14's theorem, composed).
* `updateFar_frame`: an Update FAR touches only the addressed session.
* `no_ghost`: a deleted session's SEID resolves to nothing (no queue to release, no report), and a session established
  later under the same SEID starts with empty queues; `removePdr_drops`: the packets of a removed PDR are gone.
-/
namespace UpfVerif.C13
open UpfVerif.Buf UpfVerif.Gen

/-! ### association lists -/

theorem alGet_map_other {α : Type} (k k' : Nat) (v : α) (h : k' ≠ k) : ∀ l : List (Nat × α),
    alGet (l.map (fun e => if e.1 == k then (k, v) else e)) k' = alGet l k'
  | [] => rfl
  | e :: l => by
    have ih := alGet_map_other k k' v h l
    simp only [alGet] at ih ⊢
    simp only [List.map_cons, List.find?_cons]
    by_cases he : e.1 == k
    · have hk : e.1 = k := by simpa using he
      have hne : (k == k') = false := by simp; exact fun e => h e.symm
      have hne' : (e.1 == k') = false := by rw [hk]; exact hne
      simp only [he, if_true, hne, hne']
      exact ih
    · simp only [he, Bool.false_eq_true, if_false]
      by_cases hk' : e.1 == k'
      · simp [hk']
      · simp only [hk', Bool.false_eq_true]
        exact ih

theorem alGet_append_other {α : Type} (k k' : Nat) (v : α) (h : k' ≠ k) : ∀ l : List (Nat × α),
    alGet (l ++ [(k, v)]) k' = alGet l k'
  | [] => by
    have hne : (k == k') = false := by simp; exact fun e => h e.symm
    simp [alGet, hne]
  | e :: l => by
    have ih := alGet_append_other k k' v h l
    simp only [alGet] at ih ⊢
    simp only [List.cons_append, List.find?_cons]
    by_cases hk' : e.1 == k'
    · simp [hk']
    · simp only [hk', Bool.false_eq_true]
      exact ih

theorem alGet_map_same {α : Type} (k : Nat) (v : α) : ∀ l : List (Nat × α), l.any (·.1 == k) = true →
    alGet (l.map (fun e => if e.1 == k then (k, v) else e)) k = some v
  | [], h => by simp at h
  | e :: l, h => by
    simp only [alGet, List.map_cons, List.find?_cons]
    by_cases he : e.1 == k
    · simp [he]
    · have hl : l.any (·.1 == k) = true := by simpa [he] using h
      have ih := alGet_map_same k v l hl
      simp only [alGet] at ih
      simp only [he, Bool.false_eq_true, if_false]
      exact ih

theorem alGet_append_same {α : Type} (k : Nat) (v : α) : ∀ l : List (Nat × α), l.any (·.1 == k) = false →
    alGet (l ++ [(k, v)]) k = some v
  | [], _ => by simp [alGet]
  | e :: l, h => by
    have he : (e.1 == k) = false := by
      cases hh : e.1 == k with
      | false => rfl
      | true => simp [hh] at h
    have hl : l.any (·.1 == k) = false := by simpa [he] using h
    have ih := alGet_append_same k v l hl
    simp only [alGet] at ih ⊢
    simp only [List.cons_append, List.find?_cons, he]
    exact ih

theorem alGet_alSet_same {α : Type} (l : List (Nat × α)) (k : Nat) (v : α) : alGet (alSet l k v) k = some v := by
  unfold alSet
  split
  · rename_i h; exact alGet_map_same k v l h
  · rename_i h; exact alGet_append_same k v l (by cases hh : l.any (·.1 == k) <;> simp_all)

theorem alGet_alSet_other {α : Type} (l : List (Nat × α)) (k k' : Nat) (v : α) (h : k' ≠ k) :
    alGet (alSet l k v) k' = alGet l k' := by
  unfold alSet
  split
  · exact alGet_map_other k k' v h l
  · exact alGet_append_other k k' v h l

theorem alGet_alDel_same {α : Type} (l : List (Nat × α)) (k : Nat) : alGet (alDel l k) k = none := by
  unfold alGet alDel
  induction l with
  | nil => rfl
  | cons e l ih =>
    simp only [List.filter_cons]
    by_cases he : e.1 == k
    · have : (e.1 != k) = false := by simp [bne, he]
      simpa [this] using ih
    · have : (e.1 != k) = true := by simp [bne, he]
      simp only [this, if_true, List.find?_cons, he]
      simpa using ih

theorem alGet_alDel_other {α : Type} (l : List (Nat × α)) (k k' : Nat) (h : k' ≠ k) : alGet (alDel l k) k' = alGet l k' := by
  unfold alGet alDel
  induction l with
  | nil => rfl
  | cons e l ih =>
    simp only [List.filter_cons]
    by_cases he : e.1 == k
    · have hk : e.1 = k := by simpa using he
      have hn : (e.1 != k) = false := by simp [bne, he]
      have hne' : (e.1 == k') = false := by rw [hk]; simp; exact fun e => h e.symm
      simp only [hn, Bool.false_eq_true, if_false, List.find?_cons, hne']
      simpa using ih
    · have hn : (e.1 != k) = true := by simp [bne, he]
      simp only [hn, if_true, List.find?_cons]
      by_cases hk' : e.1 == k'
      · simp [hk']
      · simp only [hk', Bool.false_eq_true]
        simpa using ih

/-! ### queues -/

def queue (s : Sess) (pdr : Nat) : List Bytes := (alGet s.q pdr).getD []

theorem push_queue_same (s : Sess) (pdr : Nat) (pkt : Bytes) :
    queue (push s pdr pkt) pdr = if (queue s pdr).length < cap then queue s pdr ++ [pkt] else queue s pdr := by
  simp only [queue, push, alGet_alSet_same, Option.getD_some]
  rfl

theorem push_queue_other (s : Sess) (pdr pdr' : Nat) (pkt : Bytes) (h : pdr' ≠ pdr) :
    queue (push s pdr pkt) pdr' = queue s pdr' := by
  simp only [queue, push, alGet_alSet_other _ _ _ _ h]

/-- **a queue is the first `cap` arrivals, in order**: pushing any list of packets onto a queue within capacity gives
    the old contents followed by the new packets, cut at the capacity — nothing older is ever displaced -/
theorem queue_prefix (s : Sess) (pdr : Nat) (pkts : List Bytes) (h : (queue s pdr).length ≤ cap) :
    queue (pkts.foldl (fun s p => push s pdr p) s) pdr = (queue s pdr ++ pkts).take cap := by
  induction pkts generalizing s with
  | nil => simp [List.take_of_length_le h]
  | cons p ps ih =>
    simp only [List.foldl_cons]
    have hq := push_queue_same s pdr p
    by_cases hlt : (queue s pdr).length < cap
    · rw [if_pos hlt] at hq
      have hle : (queue (push s pdr p) pdr).length ≤ cap := by rw [hq]; simp; omega
      rw [ih (push s pdr p) hle, hq]; simp
    · rw [if_neg hlt] at hq
      have hle : (queue (push s pdr p) pdr).length ≤ cap := by rw [hq]; exact h
      rw [ih (push s pdr p) hle, hq]
      have hfull : (queue s pdr).length = cap := by omega
      rw [List.take_append_of_le_length (by omega), List.take_append_of_le_length (by omega)]

theorem pushes_other (s : Sess) (pdr pdr' : Nat) (pkts : List Bytes) (h : pdr' ≠ pdr) :
    queue (pkts.foldl (fun s p => push s pdr p) s) pdr' = queue s pdr' := by
  induction pkts generalizing s with
  | nil => rfl
  | cons p ps ih => simp only [List.foldl_cons]; rw [ih, push_queue_other _ _ _ _ h]

/-- a notification: queued iff BUFF, payload non-empty and the session live; Downlink Data Report iff NOCP and live -/
theorem notify_spec (st : St) (up pdr action : Nat) (pkt : Bytes) :
    (alGet st.sess up = none → notify st up pdr action pkt = (st, false)) ∧
    (∀ s, alGet st.sess up = some s →
      (notify st up pdr action pkt).2 = hasBit action report.APPLY_ACT_NOCP ∧
      alGet (notify st up pdr action pkt).1.sess up =
        some (if hasBit action report.APPLY_ACT_BUFF && pkt.length > 0 then push s pdr pkt else s) ∧
      ∀ up', up' ≠ up → alGet (notify st up pdr action pkt).1.sess up' = alGet st.sess up') := by
  constructor
  · intro h; simp [notify, h]
  · intro s h
    refine ⟨by simp only [notify, h], ?_, ?_⟩
    · simp only [notify, h]; exact alGet_alSet_same _ _ _
    · intro up' hne; simp only [notify, h]; exact alGet_alSet_other _ _ _ _ hne

/-! ### release -/

theorem qfiOf_q (s : Sess) (q' : List (Nat × List Bytes)) (pdr : Nat) : qfiOf { s with q := q' } pdr = qfiOf s pdr := rfl

theorem flatMap_congr' {α β : Type} (f g : α → List β) : ∀ (l : List α), (∀ x ∈ l, f x = g x) → l.flatMap f = l.flatMap g
  | [], _ => rfl
  | a :: l, h => by
    simp only [List.flatMap_cons, h a (by simp)]
    rw [flatMap_congr' f g l (fun x hx => h x (by simp [hx]))]

/-- the datagrams one PDR's queue turns into -/
def outOf (emit : Option Nat) (s : Sess) (pdr : Nat) : List Bytes :=
  match emit with
  | some teid => (queue s pdr).map (gtpu teid (qfiOf s pdr))
  | none => []

theorem drain_cons (s : Sess) (emit : Option Nat) (pdr : Nat) (rest : List Nat) :
    drain s emit (pdr :: rest) =
      ((drain (if (alGet s.q pdr).isSome then { s with q := alSet s.q pdr [] } else s) emit rest).1,
       outOf emit s pdr ++ (drain (if (alGet s.q pdr).isSome then { s with q := alSet s.q pdr [] } else s) emit rest).2) := by
  cases emit <;> rfl

/-- what `drain` leaves and emits -/
theorem drain_exact (emit : Option Nat) : ∀ (pdrs : List Nat) (s : Sess), pdrs.Nodup →
    (drain s emit pdrs).2 = pdrs.flatMap (outOf emit s) ∧
    (∀ pdr ∈ pdrs, queue (drain s emit pdrs).1 pdr = []) ∧
    (∀ pdr, pdr ∉ pdrs → queue (drain s emit pdrs).1 pdr = queue s pdr) ∧
    (∀ pdr, qfiOf (drain s emit pdrs).1 pdr = qfiOf s pdr)
  | [], s, _ => by simp [drain]
  | pdr :: rest, s, hnd => by
    simp only [List.nodup_cons] at hnd
    -- the session after this PDR's queue is emptied
    let s1 : Sess := if (alGet s.q pdr).isSome then { s with q := alSet s.q pdr [] } else s
    have hs1q : queue s1 pdr = [] := by
      simp only [s1]
      split
      · simp [queue, alGet_alSet_same]
      · rename_i hn
        cases hg : alGet s.q pdr with
        | none => simp [queue, hg]
        | some v => simp [hg] at hn
    have hs1o : ∀ p, p ≠ pdr → queue s1 p = queue s p := by
      intro p hp
      simp only [s1]
      split
      · simp [queue, alGet_alSet_other _ _ _ _ hp]
      · rfl
    have hs1f : ∀ p, qfiOf s1 p = qfiOf s p := by
      intro p; simp only [s1]; split <;> rfl
    obtain ⟨ih1, ih2, ih3, ih4⟩ := drain_exact emit rest s1 hnd.2
    have hd : drain s emit (pdr :: rest) = ((drain s1 emit rest).1, outOf emit s pdr ++ (drain s1 emit rest).2) :=
      drain_cons s emit pdr rest
    rw [hd]
    refine ⟨?_, ?_, ?_, ?_⟩
    · simp only [List.flatMap_cons, ih1]
      congr 1
      -- the remaining PDRs are different from this one: their queues and QFIs are as in `s`
      apply flatMap_congr'
      intro p hp
      have hne : p ≠ pdr := fun e => hnd.1 (e ▸ hp)
      unfold outOf
      rw [hs1o p hne, hs1f p]
    · intro p hp
      rcases List.mem_cons.mp hp with rfl | hp'
      · rw [ih3 p hnd.1, hs1q]
      · exact ih2 p hp'
    · intro p hp
      simp only [List.mem_cons, not_or] at hp
      rw [ih3 p hp.2, hs1o p hp.1]
    · intro p; rw [ih4 p, hs1f p]

/-- released packets are gone: releasing again emits nothing -/
theorem drain_idem (emit emit' : Option Nat) (pdrs : List Nat) (s : Sess) (h : pdrs.Nodup) :
    (drain (drain s emit pdrs).1 emit' pdrs).2 = [] := by
  obtain ⟨_, h2, _, _⟩ := drain_exact emit pdrs s h
  rw [(drain_exact emit' pdrs _ h).1]
  apply List.flatMap_eq_nil_iff.mpr
  intro p hp
  unfold outOf
  rw [h2 p hp]
  cases emit' <;> rfl

/-- a discard emits nothing -/
theorem drain_drop (pdrs : List Nat) (s : Sess) (h : pdrs.Nodup) : (drain s none pdrs).2 = [] := by
  rw [(drain_exact none pdrs s h).1]
  apply List.flatMap_eq_nil_iff.mpr
  intro p _; rfl

/-! ### several buffering periods on one queue -/

/-- what happens to one PDR's queue over time: a packet is handed up, or the queue is released (towards the tunnel
    `some teid`, or dropped `none`) -/
inductive QOp
  | push (pkt : Bytes)
  | release (emit : Option Nat)

/-- the model run on one PDR: the session after the operations and, per release, what left the queue (as datagrams) -/
def runQ (pdr : Nat) : Sess → List QOp → Sess × List (List Bytes)
  | s, [] => (s, [])
  | s, .push pkt :: ops => runQ pdr (push s pdr pkt) ops
  | s, .release emit :: ops =>
    ((runQ pdr (drain s emit [pdr]).1 ops).1, (drain s emit [pdr]).2 :: (runQ pdr (drain s emit [pdr]).1 ops).2)

/-- the specification, with a counter only: a packet is accepted iff fewer than `cap` packets are waiting since the last
    release; a release lets go of exactly the packets accepted since the previous one, in arrival order -/
def specQ : List Bytes → List QOp → List Bytes × List (Option Nat × List Bytes)
  | waiting, [] => (waiting, [])
  | waiting, .push pkt :: ops => specQ (if waiting.length < cap then waiting ++ [pkt] else waiting) ops
  | waiting, .release emit :: ops => ((specQ [] ops).1, (emit, waiting) :: (specQ [] ops).2)

/-- **every history of pushes and releases on a queue** (any number of buffering periods, of any lengths, overflowing or
    not): each release emits exactly the packets accepted since the previous release, once each, in arrival order, as
    G-PDUs with the release's TEID and the PDR's QFI (nothing for a drop), and what is still waiting at the end is what
    the specification says — nothing of an earlier period survives into a later one -/
theorem periods_exact (pdr : Nat) (ops : List QOp) : ∀ (s : Sess),
    (runQ pdr s ops).2 = (specQ (queue s pdr) ops).2.map (fun (r : Option Nat × List Bytes) =>
        match r.1 with
        | some teid => r.2.map (gtpu teid (qfiOf s pdr))
        | none => []) ∧
    queue (runQ pdr s ops).1 pdr = (specQ (queue s pdr) ops).1 := by
  induction ops with
  | nil => intro s; simp [runQ, specQ]
  | cons op ops ih =>
    intro s
    cases op with
    | push pkt =>
      simp only [runQ, specQ]
      have := ih (push s pdr pkt)
      rw [push_queue_same] at this
      have hq : qfiOf (push s pdr pkt) pdr = qfiOf s pdr := rfl
      rw [hq] at this
      exact this
    | release emit =>
      simp only [runQ, specQ]
      obtain ⟨d1, d2, _, d4⟩ := drain_exact emit [pdr] s (by simp)
      have := ih (drain s emit [pdr]).1
      rw [d2 pdr (by simp), d4 pdr] at this
      refine ⟨?_, this.2⟩
      rw [this.1, d1]
      simp only [List.flatMap_cons, List.flatMap_nil, List.append_nil, List.map_cons]
      cases emit <;> rfl

/-- non-vacuity: two packets, a release to TEID 7, three packets, a drop, one packet: each release lets go of its own
    period's packets only -/
example :
    (specQ [] [.push [1#8], .push [2#8], .release (some 7), .push [9#8], .push [9#8], .push [9#8], .release none, .push [3#8]]).1 = [[3#8]] ∧
    ((specQ [] [.push [1#8], .push [2#8], .release (some 7), .push [9#8], .push [9#8], .push [9#8], .release none, .push [3#8]]).2.map
      fun r => (r.1, r.2.length)) = [(some 7, 2), (none, 3)] := by
  simp [specQ, cap, pfcp.BUFFQ_LEN]

/-- …and a full queue refuses the newcomer: with `cap` packets waiting a further push changes nothing -/
theorem specQ_full (waiting : List Bytes) (pkt : Bytes) (ops : List QOp) (h : waiting.length = cap) :
    specQ waiting (.push pkt :: ops) = specQ waiting ops := by
  simp [specQ, h]

/-- every re-injected packet is a well-formed G-PDU carrying exactly (TEID, QFI, payload) — for the independent decoder -/
theorem datagram_wellformed (teid : Nat) (qfi : Nat) (pkt : Bytes) (ht : teid < 2 ^ 32) (hq : qfi < 64)
    (hl : pkt.length + 8 ≤ 65535) :
    GtpuRef.wellFormedGPDU (gtpu teid (some qfi) pkt) teid (some (0, qfi)) pkt = true := by
  have := C14.writePacket_wellFormed (BitVec.ofNat 32 teid) (BitVec.ofNat 8 qfi) pkt
    (by show (BitVec.ofNat 8 qfi).toNat < 64; simp [BitVec.toNat_ofNat]; omega) hl
  simp only [BitVec.toNat_ofNat] at this
  rw [Nat.mod_eq_of_lt ht, Nat.mod_eq_of_lt (by omega : qfi < 2 ^ 8)] at this
  exact this

theorem datagram_wellformed_noqfi (teid : Nat) (pkt : Bytes) (ht : teid < 2 ^ 32) (hl : pkt.length + 4 ≤ 65535) :
    GtpuRef.wellFormedGPDU (gtpu teid none pkt) teid none pkt = true := by
  have := C14.gpdu_plain (BitVec.ofNat 32 teid) pkt hl
  simp only [BitVec.toNat_ofNat] at this
  rw [Nat.mod_eq_of_lt ht] at this
  exact this

/-! ### the release an Update FAR performs -/

theorem mem_insertAsc (x y : Nat) : ∀ l : List Nat, y ∈ insertAsc x l ↔ y = x ∨ y ∈ l
  | [] => by simp [insertAsc]
  | z :: zs => by
    simp only [insertAsc]
    split
    · simp
    · simp only [List.mem_cons, mem_insertAsc x y zs]
      constructor
      · rintro (h | h | h)
        · exact Or.inr (Or.inl h)
        · exact Or.inl h
        · exact Or.inr (Or.inr h)
      · rintro (h | h | h)
        · exact Or.inr (Or.inl h)
        · exact Or.inl h
        · exact Or.inr (Or.inr h)

theorem nodup_insertAsc (x : Nat) : ∀ l : List Nat, l.Nodup → x ∉ l → (insertAsc x l).Nodup
  | [], _, _ => by simp [insertAsc]
  | z :: zs, h, hx => by
    simp only [List.nodup_cons] at h
    simp only [List.mem_cons, not_or] at hx
    simp only [insertAsc]
    split
    · simp only [List.nodup_cons, List.mem_cons, not_or]
      exact ⟨⟨hx.1, hx.2⟩, h.1, h.2⟩
    · simp only [List.nodup_cons, mem_insertAsc]
      refine ⟨?_, nodup_insertAsc x zs h.2 hx.2⟩
      rintro (e | e)
      · exact hx.1 e.symm
      · exact h.1 e

theorem sortAsc_spec : ∀ l : List Nat, l.Nodup → (sortAsc l).Nodup ∧ ∀ y, y ∈ sortAsc l ↔ y ∈ l
  | [], _ => by simp [sortAsc]
  | x :: xs, h => by
    simp only [List.nodup_cons] at h
    obtain ⟨ih1, ih2⟩ := sortAsc_spec xs h.2
    have e : sortAsc (x :: xs) = insertAsc x (sortAsc xs) := rfl
    rw [e]
    refine ⟨nodup_insertAsc x _ ih1 (fun hx => h.1 ((ih2 x).mp hx)), ?_⟩
    intro y
    rw [mem_insertAsc, ih2]; simp

/-- the PDRs a release touches are exactly the session's PDRs that name the FAR, each once -/
theorem related_spec (s : Sess) (far : Nat) (h : (s.pdrs.map (·.1)).Nodup) :
    (related s far).Nodup ∧ ∀ pdr, pdr ∈ related s far ↔ ∃ p, (pdr, p) ∈ s.pdrs ∧ p.far = far := by
  have hnd : ((s.pdrs.filter fun e => e.2.far == far).map (·.1)).Nodup :=
    (List.Nodup.sublist ((List.filter_sublist).map _) h)
  obtain ⟨h1, h2⟩ := sortAsc_spec _ hnd
  refine ⟨h1, ?_⟩
  intro pdr
  unfold related
  rw [h2]
  simp only [List.mem_map, List.mem_filter, beq_iff_eq]
  constructor
  · rintro ⟨⟨a, p⟩, ⟨hm, hf⟩, rfl⟩; exact ⟨p, hm, hf⟩
  · rintro ⟨p, hm, hf⟩; exact ⟨(pdr, p), ⟨hm, hf⟩, rfl⟩

/-- **BUFF → FORW**: the Update FAR emits, PDR by PDR (the PDRs related to the FAR), every buffered packet in arrival
    order, exactly once, with the TEID the data plane holds for the FAR and the PDR's QFI; the queues are then empty -/
theorem applyAction_forw (s : Sess) (far new : Nat) (cur : FarK) (t : Nat)
    (hc : alGet s.fars far = some cur) (hb : hasBit cur.action report.APPLY_ACT_BUFF = true)
    (hd : hasBit new report.APPLY_ACT_DROP = false) (hf : hasBit new report.APPLY_ACT_FORW = true)
    (ht : cur.teid = some t) (hp : (s.pdrs.map (·.1)).Nodup) :
    (applyAction s far new).2 = (related s far).flatMap (outOf (some t) s) ∧
    (∀ pdr ∈ related s far, queue (applyAction s far new).1 pdr = []) ∧
    (∀ pdr, pdr ∉ related s far → queue (applyAction s far new).1 pdr = queue s pdr) := by
  obtain ⟨hnd, _⟩ := related_spec s far hp
  obtain ⟨e1, e2, e3, _⟩ := drain_exact (some t) (related s far) s hnd
  simp only [applyAction, hc, hb, hd, hf, ht, Bool.not_true, Bool.false_eq_true, if_false, if_true, Option.isSome_some]
  exact ⟨e1, e2, e3⟩

/-- **BUFF → DROP**: everything buffered for the FAR's PDRs is discarded, nothing is emitted -/
theorem applyAction_drop (s : Sess) (far new : Nat) (cur : FarK)
    (hc : alGet s.fars far = some cur) (hb : hasBit cur.action report.APPLY_ACT_BUFF = true)
    (hd : hasBit new report.APPLY_ACT_DROP = true) (hp : (s.pdrs.map (·.1)).Nodup) :
    (applyAction s far new).2 = [] ∧ ∀ pdr ∈ related s far, queue (applyAction s far new).1 pdr = [] := by
  obtain ⟨hnd, _⟩ := related_spec s far hp
  obtain ⟨_, e2, _, _⟩ := drain_exact none (related s far) s hnd
  simp only [applyAction, hc, hb, hd, Bool.not_true, Bool.false_eq_true, if_false, if_true]
  exact ⟨drain_drop _ _ hnd, e2⟩

/-- a FAR that is not buffering releases nothing, whatever the new action -/
theorem applyAction_notbuff (s : Sess) (far new : Nat) (cur : FarK)
    (hc : alGet s.fars far = some cur) (hb : hasBit cur.action report.APPLY_ACT_BUFF = false) :
    applyAction s far new = (s, []) := by
  simp [applyAction, hc, hb]

/-! ### sessions: frame, end, re-use -/

theorem updateFar_frame (st : St) (up far : Nat) (aa teid : Option Nat) (up' : Nat) (h : up' ≠ up) :
    alGet (updateFar st up far aa teid).1.sess up' = alGet st.sess up' := by
  unfold updateFar
  split
  · rfl
  · split
    · rfl
    · split <;> (split <;> exact alGet_alSet_other _ _ _ _ h)

/-- an unknown or ended session: nothing is emitted, nothing changes -/
theorem updateFar_dead (st : St) (up far : Nat) (aa teid : Option Nat) (h : alGet st.sess up = none) :
    updateFar st up far aa teid = (st, false, []) := by
  simp [updateFar, h]

/-- deleting a session ends it: its SEID resolves to nothing — no queue is left to release, no report is raised -/
theorem no_ghost (st : St) (up : Nat) :
    alGet (delete st up).1.sess up = none ∧
    (∀ far aa teid, (updateFar (delete st up).1 up far aa teid).2.2 = []) ∧
    (∀ pdr act pkt, (notify (delete st up).1 up pdr act pkt).2 = false) := by
  have h : alGet (delete st up).1.sess up = none := by
    unfold delete
    split
    · rename_i hn; exact hn
    · exact alGet_alDel_same _ _
  refine ⟨h, ?_, ?_⟩
  · intro far aa teid; rw [updateFar_dead _ _ _ _ _ h]
  · intro pdr act pkt; simp [notify, h]

/-- a session established later — also under a re-used SEID — starts with empty queues -/
theorem establish_fresh (st : St) (cp : Nat) (fars : List (Nat × FarK)) (qers : List (Nat × Nat)) (pdrs : List (Nat × PdrK)) :
    ∃ s, alGet (establish st cp fars qers pdrs).1.sess (establish st cp fars qers pdrs).2 = some s ∧ s.q = [] := by
  unfold establish
  simp only []
  exact ⟨_, alGet_alSet_same _ _ _, rfl⟩

/-- the packets buffered for a removed PDR are gone (a PDR created later under the same id cannot release them) -/
theorem removePdr_drops (st : St) (up pdr : Nat) (s : Sess) (h : alGet st.sess up = some s) (hp : s.pdrIds.contains pdr = true) :
    ∃ s', alGet (removePdr st up pdr).1.sess up = some s' ∧ queue s' pdr = [] := by
  simp only [removePdr, h, hp]
  refine ⟨_, alGet_alSet_same _ _ _, ?_⟩
  simp [queue, alGet_alDel_same]

/-! ### towards the owning SMF (control-plane side, model Core) -/

/-- the downlink-data notification(s) of a session — and nothing else the report causes — go to the destination of the node
    that owns the session at that moment: its IPv4 node id's address, else the address it associated from; also after the
    session was taken over by another node (the owner is looked up per report, C10 `report_goes_to_owner`) -/
theorem notification_goes_to_owner (st : Core.State) (x : Core.Seid) (pdr : Nat) (act : BitVec 16) (pkt : Bytes) (c : Core.Ctx)
    (s : Core.Sess) (dest : String) (h : st.lnode.lookup x = some s)
    (hd : Core.reportDest (st.nodes.getD s.rnode default) = some dest) :
    C10.OnlyTo dest c (Core.serveReport st x [.dldr pdr act pkt] c).2 :=
  C10.report_goes_to_owner st x _ c s dest h hd

theorem lookup_setSess_self (n : Core.LNode) (x : Core.Seid) (s0 s' : Core.Sess) (hl : n.lookup x = some s0)
    (hid : s'.localID = x) : (n.setSess s').lookup x = some s' := by
  unfold Core.LNode.lookup at hl ⊢
  by_cases h0 : (x == 0) = true
  · simp only [h0, if_true] at hl; cases hl
  · have h0' : (x == 0) = false := by simpa using h0
    simp only [h0', Bool.false_eq_true, if_false] at hl ⊢
    by_cases hb : x.toNat > n.sess.length
    · simp [hb] at hl
    · have hx : x.toNat ≠ 0 := by
        intro hz
        apply h0
        have : x = 0 := by apply BitVec.eq_of_toNat_eq; simpa using hz
        simp [this]
      simp only [Core.LNode.setSess, hid, List.length_set, hb, if_false]
      have hlt : x.toNat - 1 < n.sess.length := by omega
      simp [List.getD, List.getElem?_set, hlt]

/-- **held whatever happens to the notification**: a packet handed up with BUFF set and a payload is appended to its PDR's
    queue (or dropped when the queue is full — `Sess.push`) BEFORE and INDEPENDENTLY of the Session Report Request: the
    session's queues after the report are those of `push`, whether NOCP is set or not and wherever the notification goes -/
theorem held_whatever_the_notification (st : Core.State) (wf : C04.TableWF st.lnode) (x : Core.Seid) (pdr : Nat)
    (act : BitVec 16) (pkt : Bytes) (c : Core.Ctx) (s : Core.Sess) (dest : String)
    (h : st.lnode.lookup x = some s) (hd : Core.reportDest (st.nodes.getD s.rnode default) = some dest)
    (hb : (act &&& Core.buffF != 0) = true) (hp : pkt.length > 0) :
    ((Core.serveReport st x [.dldr pdr act pkt] c).1.lnode.lookup x).map (·.q) = some (s.push st.cfg.qlen pdr pkt).q := by
  have hid : s.localID = x := C04.lookup_some_id st.lnode wf x s h
  have hpid : (s.push st.cfg.qlen pdr pkt).localID = x := by
    unfold Core.Sess.push; simp only []; split <;> exact hid
  have hpush : (st.pushPkt x pdr act pkt).lnode.lookup x = some (s.push st.cfg.qlen pdr pkt) := by
    unfold Core.State.pushPkt
    simp only [h, hb, hp, decide_true, Bool.and_self, if_true]
    exact lookup_setSess_self st.lnode x s _ h hpid
  unfold Core.serveReport
  simp only [h, hd, Core.serveLoop]
  by_cases hn : (act &&& Core.nocpF == 0) = true
  · simp only [hn, if_true]
    rw [hpush]; rfl
  · simp only [hn, Bool.false_eq_true, if_false, hpush]
    simp only [Core.State.sendReq, Core.serveLoop, List.isEmpty_nil, if_true]
    rw [hpush]; rfl

/-! ### non-vacuity: two packets buffered for PDR 1, one for PDR 2 (FAR 1 buffering, both PDRs related), then FORW -/
def exSt : St :=
  (establish {} 0x1000 [(1, { action := 4, teid := some 0x155 })] [(1, 9)] [(1, { far := 1, qers := [1] }), (2, { far := 1, qers := [] })]).1
def exSt2 : St := ((notify ((notify ((notify exSt 1 1 12 [1#8]).1) 1 2 4 [2#8]).1) 1 1 4 [3#8]).1)

example : (updateFar exSt2 1 1 (some 2) none).2.2 = [gtpu 0x155 (some 9) [1#8], gtpu 0x155 (some 9) [3#8], gtpu 0x155 none [2#8]] := by
  decide
example : ((updateFar (updateFar exSt2 1 1 (some 2) none).1 1 1 (some 2) none).2.2) = [] := by decide
example : (notify exSt 1 1 12 [1#8]).2 = true ∧ (notify exSt 1 1 4 [1#8]).2 = false ∧ (notify exSt 7 1 12 [1#8]).2 = false := by
  decide

end UpfVerif.C13
