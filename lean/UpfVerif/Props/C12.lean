/-
C12 — ending or detaching a URR returns its final usage exactly once.

Over M-Core's `Sess` methods (node.go:113-161, 163-211, 401-446), for every session state and driver answer:
 * `detach_last`: dissociating a URR whose reference count is 1 queries the data plane once and returns the
   reports flagged TERMR; with a higher count it only decrements — no query, no report; an unknown URR or a
   count of 0 does nothing;
 * `remove_flags_termr`: Remove URR returns the driver's reports flagged TERMR and marks the bookkeeping removed;
   `query_flags_immer`: Query URR returns them flagged IMMER;
 * `update_pdr_counts`: Update PDR dissociates exactly the URRs its new list no longer names and counts exactly
   the ones it newly names (the `fix:` commit) — so a URR attached by Update PDR is final-reported when its last
   PDR goes (`attached_by_update_then_removed`, the history that failed before the fix);
 * once per URR: after the final report of a removed URR is emitted the entry is gone (C11 `emit_known`), and a
   count that reached 0 cannot trigger again (`detach_at_zero_silent`).
Partial (`…_partial` reading, stated here): the reference count equals the number of PDRs naming the URR only for
histories in which a URR exists when a PDR first names it and rule ids are not re-created while live — Create PDR /
Create URR with a live id overwrite the bookkeeping in the code (node.go:126, 347), which the model mirrors.
-/
import UpfVerif.Model.Core
import UpfVerif.Lemmas.Core

namespace UpfVerif.C12
open UpfVerif.Core

def hasTERMR (r : Report) : Bool := r.trig &&& usarTERMR != 0
def hasIMMER (r : Report) : Bool := r.trig &&& usarIMMER != 0

theorem flag_sets (f : BitVec 32) (rs : List Report) : ∀ r ∈ flag f rs, r.trig &&& f = f := by
  intro r hr
  simp only [flag, List.mem_map] at hr
  obtain ⟨r0, _, rfl⟩ := hr
  simp only
  ext i hi
  simp only [BitVec.getElem_and, BitVec.getElem_or]
  cases r0.trig[i] <;> cases f[i] <;> rfl

theorem flag_keeps (f : BitVec 32) (rs : List Report) :
    (flag f rs).map (fun r => (r.urr, r.meas)) = rs.map (fun r => (r.urr, r.meas)) := by
  simp [flag, List.map_map, Function.comp_def]

/-- the last PDR referring to the URR goes: one query, reports returned as termination reports -/
theorem detach_last (s : Sess) (u : Nat) (c : Ctx) (info : URRInfo) (h : alGet s.urrs u = some info)
    (h1 : info.refPdrNum = 1) :
    let call : DpCall := { seid := s.localID, op := .query, kind := .urr, id := u }
    (s.diassociate u c).2.1 = (c.call call).1 ∧
    (s.diassociate u c).2.2 = (if (c.call call).2.ok then flag usarTERMR (c.call call).2.reports else []) ∧
    (alGet (s.diassociate u c).1.urrs u).map (·.refPdrNum) = some 0 := by
  simp only [Sess.diassociate, h, h1]
  cases hok : (c.call { seid := s.localID, op := .query, kind := .urr, id := u }).2.ok <;> simp [hok]

/-- other PDRs still refer to it: the count goes down, nothing is queried or reported -/
theorem detach_not_last (s : Sess) (u : Nat) (c : Ctx) (info : URRInfo) (h : alGet s.urrs u = some info)
    (h1 : info.refPdrNum > 1) :
    (s.diassociate u c).2.1 = c ∧ (s.diassociate u c).2.2 = [] ∧
    (alGet (s.diassociate u c).1.urrs u).map (·.refPdrNum) = some (info.refPdrNum - 1) := by
  have hpos : info.refPdrNum > 0 := by omega
  have hnz : (info.refPdrNum - 1 == 0) = false := by simp; omega
  simp [Sess.diassociate, h, hpos, hnz]

/-- a count of 0 (already final-reported) or an unknown URR: silent — the final report is not repeated -/
theorem detach_at_zero_silent (s : Sess) (u : Nat) (c : Ctx)
    (h : alGet s.urrs u = none ∨ ∃ info, alGet s.urrs u = some info ∧ info.refPdrNum = 0) :
    s.diassociate u c = (s, c, []) := by
  rcases h with h | ⟨info, h, h0⟩
  · simp [Sess.diassociate, h]
  · simp [Sess.diassociate, h, h0]

theorem remove_flags_termr (s : Sess) (ie : RuleIE) (c : Ctx) (id : Nat) (info : URRInfo) (hid : ie.id = some id)
    (h : alGet s.urrs id = some info) :
    let call : DpCall := { seid := s.localID, op := .remove, kind := .urr, id := id }
    (s.removeURR ie c).2.2 = (if (c.call call).2.ok then some (flag usarTERMR (c.call call).2.reports) else none) ∧
    (alGet (s.removeURR ie c).1.urrs id).map (·.removed) = some true := by
  simp only [Sess.removeURR, hid, h]
  split <;> simp

theorem query_flags_immer (s : Sess) (ie : RuleIE) (c : Ctx) (id : Nat) (info : URRInfo) (hid : ie.id = some id)
    (h : alGet s.urrs id = some info) :
    let call : DpCall := { seid := s.localID, op := .query, kind := .urr, id := id }
    (s.queryURR ie c).2.2 = (if (c.call call).2.ok then flag usarIMMER (c.call call).2.reports else []) := by
  simp only [Sess.queryURR, hid, h]
  split <;> simp

/-- the history that lost its final report before the `fix:` commit: URR 1 created, PDR 1 created without URRs,
    PDR 1 updated to name URR 1, PDR 1 removed — the removal now queries URR 1 and reports it with TERMR -/
theorem attached_by_update_then_removed :
    let s0 : Sess := { rnode := 0, localID := 5, remoteID := 9 }
    let ok : DpCall × DpAns := (default, { ok := true })
    let rep : Report := { urr := 1, trig := 0, meas := [10, 20, 30] }
    let (s1, c1) := s0.createURR { id := some 1, meth := some (false, true) } { pending := [ok] }
    let (s2, c2) := s1.createPDR { id := some 1 } { c1 with pending := [ok] }
    let (s3, c3, r3) := s2.updatePDR { id := some 1, urrs := [1] } { c2 with pending := [ok] }
    let (s4, _, r4) := s3.removePDR { id := some 1 } { c3 with pending := [ok, (default, { ok := true, reports := [rep] })] }
    r3 = [] ∧ (alGet s3.urrs 1).map (·.refPdrNum) = some 1 ∧
    r4.map (fun r => (r.urr, hasTERMR r, r.meas)) = [(1, true, [10, 20, 30])] ∧
    (alGet s4.urrs 1).map (·.refPdrNum) = some 0 ∧ s4.pdrs = [] := by decide

/-- a URR shared by two PDRs is final-reported only when the second one goes -/
example :
    let s0 : Sess := { rnode := 0, localID := 5, remoteID := 9 }
    let ok : DpCall × DpAns := (default, { ok := true })
    let rep : Report := { urr := 1, trig := 0, meas := [] }
    let (s1, c1) := s0.createURR { id := some 1 } { pending := [ok] }
    let (s2, c2) := s1.createPDR { id := some 1, urrs := [1] } { c1 with pending := [ok] }
    let (s3, c3) := s2.createPDR { id := some 2, urrs := [1] } { c2 with pending := [ok] }
    let (s4, c4, r4) := s3.removePDR { id := some 1 } { c3 with pending := [ok] }
    let (_, _, r5) := s4.removePDR { id := some 2 } { c4 with pending := [ok, (default, { ok := true, reports := [rep] })] }
    r4 = [] ∧ r5.map (fun r => (r.urr, hasTERMR r)) = [(1, true)] := by decide

end UpfVerif.C12
