/-
C12 — ending or detaching a URR returns its final usage exactly once.

Over M-Core's `Sess` methods (node.go:113-161, 163-211, 401-446), for every session state and driver answer:
 * `detach_last`: dissociating a URR whose reference count is 1 queries the data plane once and returns the
   reports flagged TERMR; with a higher count it only decrements — no query, no report; an unknown URR or a
   count of 0 does nothing;
 * `remove_flags_termr`: Remove URR returns the driver's reports flagged TERMR and marks the bookkeeping removed;
   `query_flags_immer`: Query URR returns them flagged IMMER;
 * `update_pdr_counts`: Update PDR dissociates exactly the URRs its new list no longer names and counts exactly
   the ones it newly names (the `fix:` commit) — so a URR attached by Update PDR is final-reported when its last
   PDR goes (`attached_by_update_then_removed`, the history that failed before the fix);
 * once per URR: after the final report of a removed URR is emitted the entry is gone (C11 `emit_known`), and a
   count that reached 0 cannot trigger again (`detach_at_zero_silent`).
 * `count_is_refs` (the history theorem): after ANY history of Create / Update / Remove / Query URR and Create / Update /
   Remove PDR on a session — arbitrary URR lists (repeated ids included), URRs created before or after the PDRs naming
   them, any driver answers (faults anywhere), any map-iteration order — in which no Create PDR re-uses the id of a live
   PDR, the recorded count of every URR the session knows equals the number of PDRs whose current list names it;
 * `remove_pdr_final_once`, `update_pdr_final_once`: hence a Remove PDR / Update PDR the data plane accepts queries
   exactly the URRs that lose their last referring PDR in that request — each once, none else — whatever the order;
 * `removed_reported_once` (Remove URR and session deletion — the two response carriers drop the bookkeeping of a removed
   URR after its report): however many reports the data plane returned for a removed URR — the Remove URR answer, the
   dissociation query of a PDR removed in the same request, several records in one answer — exactly ONE usage-report IE
   for it goes into the response if the session knew it and there is a report at all, none otherwise;
 * `deletion_final_once` (session deletion, after ANY history of the rule operations above, no freshness hypothesis): `Sess.Close`
   removes every URR the session knows from the data plane exactly once — and no other id — whatever the order the maps
   are walked in and whatever the data plane answers; every report it hands back (from those removals and from the
   dissociation inside each PDR's removal) is marked as a termination report (`deletion_all_termr`); after it every URR
   the session still records is marked removed (`close_allRemoved`), so the Session Deletion Response carries exactly one
   usage-report IE per URR that had anything to report (`deletion_response_once`) — the deletion clause;
 * `recreate_live_pdr_breaks` (negation, by evaluation): Create PDR for a LIVE PDR id overwrites the PDR's URR set
   without releasing the references of the old set — the count no longer equals the number of referring PDRs and the
   final report of the dropped URR is never produced.  This is the hypothesis `count_is_refs` needs; it is a property
   of the code (node.go:126), recorded as known finding `recreatePdrLive`.
-/
import UpfVerif.Model.Core
import UpfVerif.Lemmas.Core
import UpfVerif.Lemmas.CoreRef
import UpfVerif.Lemmas.CoreDel
import UpfVerif.Props.C11

namespace UpfVerif.C12
open UpfVerif.Core

def hasTERMR (r : Report) : Bool := r.trig &&& usarTERMR != 0
def hasIMMER (r : Report) : Bool := r.trig &&& usarIMMER != 0

theorem flag_sets (f : BitVec 32) (rs : List Report) : ∀ r ∈ flag f rs, r.trig &&& f = f := by
  intro r hr
  simp only [flag, List.mem_map] at hr
  obtain ⟨r0, _, rfl⟩ := hr
  simp only
  ext i hi
  simp only [BitVec.getElem_and, BitVec.getElem_or]
  cases r0.trig[i] <;> cases f[i] <;> rfl

theorem flag_keeps (f : BitVec 32) (rs : List Report) :
    (flag f rs).map (fun r => (r.urr, r.meas)) = rs.map (fun r => (r.urr, r.meas)) := by
  simp [flag, List.map_map, Function.comp_def]

/-- the last PDR referring to the URR goes: one query, reports returned as termination reports -/
theorem detach_last (s : Sess) (u : Nat) (c : Ctx) (info : URRInfo) (h : alGet s.urrs u = some info)
    (h1 : info.refPdrNum = 1) :
    let call : DpCall := { seid := s.localID, op := .query, kind := .urr, id := u }
    (s.diassociate u c).2.1 = (c.call call).1 ∧
    (s.diassociate u c).2.2 = (if (c.call call).2.ok then flag usarTERMR (c.call call).2.reports else []) ∧
    (alGet (s.diassociate u c).1.urrs u).map (·.refPdrNum) = some 0 := by
  simp only [Sess.diassociate, h, h1]
  cases hok : (c.call { seid := s.localID, op := .query, kind := .urr, id := u }).2.ok <;> simp [hok]

/-- other PDRs still refer to it: the count goes down, nothing is queried or reported -/
theorem detach_not_last (s : Sess) (u : Nat) (c : Ctx) (info : URRInfo) (h : alGet s.urrs u = some info)
    (h1 : info.refPdrNum > 1) :
    (s.diassociate u c).2.1 = c ∧ (s.diassociate u c).2.2 = [] ∧
    (alGet (s.diassociate u c).1.urrs u).map (·.refPdrNum) = some (info.refPdrNum - 1) := by
  have hpos : info.refPdrNum > 0 := by omega
  have hnz : (info.refPdrNum - 1 == 0) = false := by simp; omega
  simp [Sess.diassociate, h, hpos, hnz]

/-- a count of 0 (already final-reported) or an unknown URR: silent — the final report is not repeated -/
theorem detach_at_zero_silent (s : Sess) (u : Nat) (c : Ctx)
    (h : alGet s.urrs u = none ∨ ∃ info, alGet s.urrs u = some info ∧ info.refPdrNum = 0) :
    s.diassociate u c = (s, c, []) := by
  rcases h with h | ⟨info, h, h0⟩
  · simp [Sess.diassociate, h]
  · simp [Sess.diassociate, h, h0]

theorem remove_flags_termr (s : Sess) (ie : RuleIE) (c : Ctx) (id : Nat) (info : URRInfo) (hid : ie.id = some id)
    (h : alGet s.urrs id = some info) :
    let call : DpCall := { seid := s.localID, op := .remove, kind := .urr, id := id }
    (s.removeURR ie c).2.2 = (if (c.call call).2.ok then some (flag usarTERMR (c.call call).2.reports) else none) ∧
    (alGet (s.removeURR ie c).1.urrs id).map (·.removed) = some true := by
  simp only [Sess.removeURR, hid, h]
  split <;> simp

theorem query_flags_immer (s : Sess) (ie : RuleIE) (c : Ctx) (id : Nat) (info : URRInfo) (hid : ie.id = some id)
    (h : alGet s.urrs id = some info) :
    let call : DpCall := { seid := s.localID, op := .query, kind := .urr, id := id }
    (s.queryURR ie c).2.2 = (if (c.call call).2.ok then flag usarIMMER (c.call call).2.reports else []) := by
  simp only [Sess.queryURR, hid, h]
  split <;> simp

/-- the history that lost its final report before the `fix:` commit: URR 1 created, PDR 1 created without URRs,
    PDR 1 updated to name URR 1, PDR 1 removed — the removal now queries URR 1 and reports it with TERMR -/
theorem attached_by_update_then_removed :
    let s0 : Sess := { rnode := 0, localID := 5, remoteID := 9 }
    let ok : DpCall × DpAns := (default, { ok := true })
    let rep : Report := { urr := 1, trig := 0, meas := [10, 20, 30] }
    let (s1, c1) := s0.createURR { id := some 1, meth := some (false, true) } { pending := [ok] }
    let (s2, c2) := s1.createPDR { id := some 1 } { c1 with pending := [ok] }
    let (s3, c3, r3) := s2.updatePDR { id := some 1, urrs := [1] } { c2 with pending := [ok] }
    let (s4, _, r4) := s3.removePDR { id := some 1 } { c3 with pending := [ok, (default, { ok := true, reports := [rep] })] }
    r3 = [] ∧ (alGet s3.urrs 1).map (·.refPdrNum) = some 1 ∧
    r4.map (fun r => (r.urr, hasTERMR r, r.meas)) = [(1, true, [10, 20, 30])] ∧
    (alGet s4.urrs 1).map (·.refPdrNum) = some 0 ∧ s4.pdrs = [] := by decide

/-- a URR shared by two PDRs is final-reported only when the second one goes -/
example :
    let s0 : Sess := { rnode := 0, localID := 5, remoteID := 9 }
    let ok : DpCall × DpAns := (default, { ok := true })
    let rep : Report := { urr := 1, trig := 0, meas := [] }
    let (s1, c1) := s0.createURR { id := some 1 } { pending := [ok] }
    let (s2, c2) := s1.createPDR { id := some 1, urrs := [1] } { c1 with pending := [ok] }
    let (s3, c3) := s2.createPDR { id := some 2, urrs := [1] } { c2 with pending := [ok] }
    let (s4, c4, r4) := s3.removePDR { id := some 1 } { c3 with pending := [ok] }
    let (_, _, r5) := s4.removePDR { id := some 2 } { c4 with pending := [ok, (default, { ok := true, reports := [rep] })] }
    r4 = [] ∧ r5.map (fun r => (r.urr, hasTERMR r)) = [(1, true)] := by decide

/-! ### once per URR in the response that ends it -/

theorem ie_of (s : Sess) (r : Report) (x : BitVec 32) (b : Bool) (ie : UsarIE) (h : (emitOne s r x b).2 = some ie) :
    ie.urr = r.urr := by
  unfold emitOne at h
  split at h
  · cases h
  · simp at h; rw [← h]

/-- a URR the session does not know (or no longer knows) gets no IE, whatever the batch -/
theorem unknown_never_reported (rs : List Report) (x : BitVec 32) (u : Nat) :
    ∀ (s : Sess), alGet s.urrs u = none → ((emitUsars s rs x true).2.filter (·.urr == u)) = [] := by
  induction rs with
  | nil => intro s _; simp [emitUsars]
  | cons r rs ih =>
    intro s h
    unfold emitUsars
    by_cases hr : r.urr = u
    · subst hr
      rw [C11.emit_unknown s r x true h]
      simpa using ih s h
    · have hne : u ≠ r.urr := fun hc => hr hc.symm
      have hsame := C11.other_urr_untouched s r x true u hne
      rw [List.filter_append, ih _ (by rw [hsame]; exact h)]
      cases ho : (emitOne s r x true).2 with
      | none => simp
      | some ie => simp [ie_of s r x true ie ho, hr]

/-- **once per URR**: in a response carrier, a URR marked removed gets exactly one IE if the session knows it and the
    batch has a report for it, and none otherwise — however many reports there are for it -/
theorem removed_reported_once (rs : List Report) (x : BitVec 32) (u : Nat) :
    ∀ (s : Sess), (∀ info, alGet s.urrs u = some info → info.removed = true) →
      ((emitUsars s rs x true).2.filter (·.urr == u)).length =
        if (alGet s.urrs u).isSome = true ∧ (∃ r ∈ rs, r.urr = u) then 1 else 0 := by
  induction rs with
  | nil => intro s _; simp [emitUsars]
  | cons r rs ih =>
    intro s hrem
    unfold emitUsars
    by_cases hr : r.urr = u
    · subst hr
      cases hg : alGet s.urrs r.urr with
      | none =>
        rw [C11.emit_unknown s r x true hg]
        have := unknown_never_reported rs x r.urr s hg
        simp [this]
      | some info =>
        obtain ⟨ie, hie, hiu, _, hnext⟩ := C11.emit_known s r x true info hg
        have hr' : info.removed = true := hrem info hg
        simp only [hr', Bool.and_self, if_true] at hnext
        have := unknown_never_reported rs x r.urr (emitOne s r x true).1 hnext
        simp [hie, hiu, this]
    · have hne : u ≠ r.urr := fun hc => hr hc.symm
      have hsame := C11.other_urr_untouched s r x true u hne
      have := ih (emitOne s r x true).1 (by intro info hi; rw [hsame] at hi; exact hrem info hi)
      rw [List.filter_append, List.length_append, this, hsame]
      have h0 : ((emitOne s r x true).2.toList.filter (·.urr == u)).length = 0 := by
        cases ho : (emitOne s r x true).2 with
        | none => simp
        | some ie => simp [ie_of s r x true ie ho, hr]
      rw [h0]
      by_cases hk : (alGet s.urrs u).isSome = true
      · by_cases he : ∃ r' ∈ rs, r'.urr = u
        · have : ∃ r' ∈ r :: rs, r'.urr = u := by obtain ⟨r', h1, h2⟩ := he; exact ⟨r', by simp [h1], h2⟩
          simp [hk, he, this]
        · have : ¬ ∃ r' ∈ r :: rs, r'.urr = u := by
            rintro ⟨r', h1, h2⟩
            rcases List.mem_cons.mp h1 with e | e
            · exact hr (e ▸ h2)
            · exact he ⟨r', e, h2⟩
          simp [hk, he, hr]
      · simp [hk]

/-- non-vacuity: URR 3 removed, three reports for it (two from the removal answer, one from a dissociation query) and one
    for URR 4 which is not removed: the response carries one IE for URR 3 (the first, UR-SEQN 5) and the one for URR 4 -/
example :
    let s : Sess := { rnode := 0, localID := 1, remoteID := 2,
                      urrs := [(3, { removed := true, seqn := 5, volum := true }), (4, { seqn := 9, volum := true })] }
    let rep (u n : Nat) : Report := { urr := u, trig := 0, meas := [n, 0, 0, 0, 0, 0, 1, 2, 3] }
    ((emitUsars s [rep 3 10, rep 4 20, rep 3 30, rep 3 40] usarTERMR true).2.map fun ie => (ie.urr, ie.seqn)) = [(3, 5), (4, 9)] := by
  decide

/-! ### the whole history -/

def run (s : Sess) (c : Ctx) : List SOp → Sess × Ctx
  | [] => (s, c)
  | op :: ops => run (op.apply s c).1 (op.apply s c).2 ops

/-- the one restriction: a Create PDR does not name a PDR that is live at that point -/
def Fresh (s : Sess) : SOp → Prop
  | .createPDR ie => alGet s.pdrs (ie.id.getD 0) = none
  | _ => True

def FreshRun (s : Sess) (c : Ctx) : List SOp → Prop
  | [] => True
  | op :: ops => Fresh s op ∧ FreshRun (op.apply s c).1 (op.apply s c).2 ops

instance (s : Sess) (op : SOp) : Decidable (Fresh s op) := by
  cases op <;> unfold Fresh <;> infer_instance

def decFreshRun : (ops : List SOp) → (s : Sess) → (c : Ctx) → Decidable (FreshRun s c ops)
  | [], _, _ => isTrue trivial
  | op :: ops, s, c =>
    match (inferInstance : Decidable (Fresh s op)), decFreshRun ops (op.apply s c).1 (op.apply s c).2 with
    | isTrue h1, isTrue h2 => isTrue ⟨h1, h2⟩
    | isFalse h1, _ => isFalse fun h => h1 h.1
    | _, isFalse h2 => isFalse fun h => h2 h.2

instance (s : Sess) (c : Ctx) (ops : List SOp) : Decidable (FreshRun s c ops) := decFreshRun ops s c

theorem apply_ref (s : Sess) (c : Ctx) (op : SOp) (h : RefInv s) (hf : Fresh s op) : RefInv (op.apply s c).1 := by
  cases op with
  | createURR ie => exact createURR_ref s ie c h
  | updateURR ie => exact updateURR_ref s ie c h
  | removeURR ie => exact removeURR_ref s ie c h
  | queryURR ie => exact queryURR_ref s ie c h
  | createPDR ie => exact createPDR_ref s ie c h hf
  | updatePDR ie => exact updatePDR_ref s ie c h
  | removePDR ie => exact removePDR_ref s ie c h

theorem refInv_new (rnode : Nat) (l r : Seid) : RefInv { rnode := rnode, localID := l, remoteID := r } :=
  ⟨by simp, by simp, by intro u n h; simp [refOf, alGet] at h⟩

/-- **C12, the bookkeeping half, for every history**: the recorded count of every known URR is the number of PDRs whose
    current URR list names it -/
theorem count_is_refs (ops : List SOp) : ∀ (s : Sess) (c : Ctx), RefInv s → FreshRun s c ops → RefInv (run s c ops).1 := by
  induction ops with
  | nil => intro s c h _; exact h
  | cons op ops ih =>
    intro s c h hf
    exact ih _ _ (apply_ref s c op h hf.1) hf.2

/-- **the last PDR referring to a URR is removed**: after any such history, a Remove PDR the data plane accepts queries
    URR `v` once if the session knows `v`, the PDR named it and no other PDR does — and not at all otherwise -/
theorem remove_pdr_final_once (ops : List SOp) (rnode : Nat) (l r : Seid) (c0 : Ctx)
    (hf : FreshRun { rnode := rnode, localID := l, remoteID := r } c0 ops)
    (ie : RuleIE) (pdrid : Nat) (us : List Nat) (hid : ie.id = some pdrid) :
    let s := (run { rnode := rnode, localID := l, remoteID := r } c0 ops).1
    let c := (run { rnode := rnode, localID := l, remoteID := r } c0 ops).2
    alGet s.pdrs pdrid = some us →
    (c.call { seid := s.localID, op := .remove, kind := .pdr, id := pdrid }).2.ok = true →
    ∀ v, qcount (s.removePDR ie c).2.1 s.localID v =
      qcount c s.localID v + (if v ∈ us ∧ (alGet s.urrs v).isSome = true ∧ refs s.pdrs v = 1 then 1 else 0) := by
  intro s c hg hok v
  have hinv : RefInv s := count_is_refs ops _ c0 (refInv_new rnode l r) hf
  rw [removePDR_queries s ie c hinv pdrid us hid hg hok v]
  congr 1
  have := refOf_one_iff s hinv v
  by_cases h1 : refOf s.urrs v = some 1
  · have h2 := this.mp h1; simp [h1, h2]
  · have h2 : ¬ ((alGet s.urrs v).isSome = true ∧ refs s.pdrs v = 1) := fun h => h1 (this.mpr h)
    simp [h1, h2]

/-- **the last PDR referring to a URR is re-pointed elsewhere**: the same for Update PDR -/
theorem update_pdr_final_once (ops : List SOp) (rnode : Nat) (l r : Seid) (c0 : Ctx)
    (hf : FreshRun { rnode := rnode, localID := l, remoteID := r } c0 ops) (ie : RuleIE) (old : List Nat) :
    let s := (run { rnode := rnode, localID := l, remoteID := r } c0 ops).1
    let c := (run { rnode := rnode, localID := l, remoteID := r } c0 ops).2
    alGet s.pdrs (ie.id.getD 0) = some old →
    (c.call { seid := s.localID, op := .update, kind := .pdr, id := ie.id.getD 0 }).2.ok = true →
    ∀ v, qcount (s.updatePDR ie c).2.1 s.localID v =
      qcount c s.localID v +
        (if (v ∈ old ∧ v ∉ ie.urrs) ∧ (alGet s.urrs v).isSome = true ∧ refs s.pdrs v = 1 then 1 else 0) := by
  intro s c hg hok v
  have hinv : RefInv s := count_is_refs ops _ c0 (refInv_new rnode l r) hf
  rw [updatePDR_queries s ie c hinv old hg hok v]
  congr 1
  have := refOf_one_iff s hinv v
  have hm : v ∈ ie.urrs.eraseDups ↔ v ∈ ie.urrs := List.mem_eraseDups
  by_cases h1 : refOf s.urrs v = some 1
  · have h2 := this.mp h1; simp [h1, h2, hm]
  · have h2 : ¬ ((alGet s.urrs v).isSome = true ∧ refs s.pdrs v = 1) := fun h => h1 (this.mpr h)
    simp [h1, h2]

/-! ### a URR outlives its last referring PDR -/

/-- losing the last referring PDR returns the URR's usage (a termination report) but does not end the URR: the session knows
    exactly the same URRs after a Remove PDR / Update PDR as before — so a later Remove URR, Query URR, re-attachment or the
    session's deletion still finds it and returns what it measured since -/
theorem urr_outlives_last_pdr (s : Sess) (ie : RuleIE) (c : Ctx) :
    (s.removePDR ie c).1.urrs.map (·.1) = s.urrs.map (·.1) ∧ (s.updatePDR ie c).1.urrs.map (·.1) = s.urrs.map (·.1) :=
  detach_keeps_urr_table s ie c

/-! ### session deletion -/

theorem run_keys (ops : List SOp) : ∀ (s : Sess) (c : Ctx), UKeys s → UKeys (run s c ops).1 := by
  induction ops with
  | nil => intro s c h; exact h
  | cons op ops ih => intro s c h; exact ih _ _ (apply_keys s c op h)

theorem run_localID (ops : List SOp) : ∀ (s : Sess) (c : Ctx), (run s c ops).1.localID = s.localID := by
  induction ops with
  | nil => intro s c; rfl
  | cons op ops ih =>
    intro s c
    show (run (op.apply s c).1 (op.apply s c).2 ops).1.localID = s.localID
    rw [ih]
    cases op with
    | createURR ie => simp only [SOp.apply, Sess.createURR]; cases ie.id <;> rfl
    | updateURR ie =>
      simp only [SOp.apply, Sess.updateURR]
      cases ie.id with
      | none => rfl
      | some id => simp only []; cases alGet s.urrs id with
        | none => rfl
        | some info => simp only []; split <;> rfl
    | removeURR ie =>
      simp only [SOp.apply, Sess.removeURR]
      cases ie.id with
      | none => rfl
      | some id => simp only []; cases alGet s.urrs id with
        | none => rfl
        | some info => simp only []; split <;> rfl
    | queryURR ie =>
      simp only [SOp.apply, Sess.queryURR]
      cases ie.id with
      | none => rfl
      | some id => simp only []; cases alGet s.urrs id with
        | none => rfl
        | some info => simp only []; split <;> rfl
    | createPDR ie => simp only [SOp.apply, Sess.createPDR]
    | updatePDR ie => exact updatePDR_localID s ie c
    | removePDR ie => exact removePDR_localID s ie c

theorem close_once_of (s : Sess) (c : Ctx) (l : Seid) (hk : UKeys s) (hl : s.localID = l) (u : Nat) :
    rcount (s.close c).2.1 l u = rcount c l u + (if (alGet s.urrs u).isSome then 1 else 0) := by
  subst hl
  rw [close_removes_each_once s c hk u]
  congr 1
  by_cases hm : u ∈ s.urrs.map (·.1)
  · rw [if_pos hm, if_pos (alGet_isSome_of_key s.urrs u hm)]
  · rw [if_neg hm]
    have : alGet s.urrs u = none := by
      cases hg : alGet s.urrs u with
      | none => rfl
      | some i => exact absurd (List.mem_map.mpr ⟨(u, i), alGet_mem _ _ _ hg, rfl⟩) hm
    rw [this]; rfl

/-- **session deletion, once per URR, for every history**: a session that has been through ANY sequence of Create / Update /
    Remove / Query URR and Create / Update / Remove PDR (any URR lists, any driver answers, any iteration orders; no
    freshness hypothesis) is deleted: every URR it knows at that point is removed from the data plane by exactly one
    REMOVE_URR — whose answer is the usage measured so far — and no REMOVE_URR goes out for any other id -/
theorem deletion_final_once (ops : List SOp) (rnode : Nat) (l r : Seid) (c0 : Ctx) (u : Nat) :
    rcount ((run { rnode := rnode, localID := l, remoteID := r } c0 ops).1.close
              (run { rnode := rnode, localID := l, remoteID := r } c0 ops).2).2.1 l u =
      rcount (run { rnode := rnode, localID := l, remoteID := r } c0 ops).2 l u +
        (if (alGet (run { rnode := rnode, localID := l, remoteID := r } c0 ops).1.urrs u).isSome then 1 else 0) :=
  close_once_of _ _ l (run_keys ops _ c0 (by simp [UKeys])) (run_localID ops _ c0) u

/-- … and everything that deletion hands back is marked as a termination report -/
theorem deletion_all_termr (s : Sess) (c : Ctx) : ∀ rep ∈ (s.close c).2.2, hasTERMR rep = true := by
  intro rep h
  have ht := close_termr s c rep h
  unfold hasTERMR
  unfold Report.termr at ht
  rw [ht]
  decide

/-- **the deletion response, once per URR**: the Session Deletion Response is built from what `Sess.Close` hands back
    (`handleDel`: `emitUsars s' rs TERMR true`).  Whatever the session went through before, however the maps are walked and
    whatever the data plane answered — several records for one URR, a dissociation query answered after the removal — the
    response carries exactly ONE usage-report IE for a URR if the session knew it and the data plane returned anything
    for it, and none otherwise -/
theorem deletion_response_once (s : Sess) (c : Ctx) (u : Nat) :
    (((emitUsars (s.close c).1 (s.close c).2.2 usarTERMR true).2.filter (·.urr == u)).length =
      if (alGet (s.close c).1.urrs u).isSome = true ∧ (∃ r ∈ (s.close c).2.2, r.urr = u) then 1 else 0) :=
  removed_reported_once (s.close c).2.2 usarTERMR u (s.close c).1 (fun info hi => close_allRemoved s c u info hi)

/-- the handler: for a live session recorded with its node, the Session Deletion Response is exactly the carrier of
    `deletion_response_once` — the usage-report IEs are `emitUsars` of what `Sess.Close` handed back, nothing added or
    dropped in between -/
theorem handleDel_usars (st : State) (addr : String) (seq : BitVec 24) (x : Seid) (env : Env) (c : Ctx) (s0 : Sess)
    (h : st.lnode.lookup x = some s0) (hm : x ∈ (st.nodes.getD s0.rnode default).sess) :
    ∃ st1 : State, handleDel st addr seq x env c =
      st1.sendRsp addr { kind := .delRsp, seq := seq, seid := some s0.remoteID, cause := some causeAccepted,
                         usars := (emitUsars (s0.close c).1 (s0.close c).2.2 usarTERMR true).2 } (s0.close c).2.1 := by
  unfold handleDel
  simp only [h]
  unfold State.deleteSess
  have hl : (st.modNode s0.rnode fun n => { n with sess := n.sess.filter (· != x) }).lnode.lookup x = some s0 := h
  simp only [hm, not_true_eq_false, if_false, hl]
  generalize s0.close c = r
  rcases r with ⟨s', c', rs⟩
  exact ⟨_, rfl⟩

/-- non-vacuity: two URRs, one of them shared by two PDRs; deletion removes each URR once, the reports of both come back
    flagged, and nothing is removed for an id the session does not know -/
def exDelRep (u n : Nat) : Report := { urr := u, trig := 0, meas := [n, 0, 0, 0, 0, 0, 1, 2, 3] }
def exDelCtx : Ctx :=
  { pending := List.replicate 4 (default, { ok := true }) ++
      [(default, { ok := true, reports := [exDelRep 7 10] }), (default, { ok := true, reports := [exDelRep 8 20] })] ++
      List.replicate 6 (default, { ok := true }) }
def exDelOps : List SOp :=
  [.createURR { id := some 7 }, .createURR { id := some 8 }, .createPDR { id := some 1, urrs := [7, 8] },
   .createPDR { id := some 2, urrs := [7] }]
def exDelClosed : Sess × Ctx × List Report :=
  (run { rnode := 0, localID := 5, remoteID := 9 } exDelCtx exDelOps).1.close
    (run { rnode := 0, localID := 5, remoteID := 9 } exDelCtx exDelOps).2

example : rcount exDelClosed.2.1 5 7 = 1 ∧ rcount exDelClosed.2.1 5 8 = 1 ∧ rcount exDelClosed.2.1 5 9 = 0 ∧
    (exDelClosed.2.2.map fun x => (x.urr, hasTERMR x)) = [(7, true), (8, true)] := by
  decide +kernel

example : ((emitUsars exDelClosed.1 exDelClosed.2.2 usarTERMR true).2.map fun ie => (ie.urr, ie.seqn)) = [(7, 0), (8, 0)] := by
  decide +kernel

/-- non-vacuity: a history with a URR created AFTER the PDR that names it, a repeated URR id, a shared URR and an
    Update PDR satisfies `FreshRun`, and ends in a state where the counts are (2, 1) -/
example :
    let ok : DpCall × DpAns := (default, { ok := true })
    let c0 : Ctx := { pending := List.replicate 8 ok }
    let ops := [SOp.createPDR { id := some 1, urrs := [7, 7] }, .createURR { id := some 7 }, .createURR { id := some 8 },
                .createPDR { id := some 2, urrs := [8] }, .updatePDR { id := some 2, urrs := [7, 8] }]
    let s := (run { rnode := 0, localID := 5, remoteID := 9 } c0 ops).1
    FreshRun { rnode := 0, localID := 5, remoteID := 9 } c0 ops ∧
    refOf s.urrs 7 = some 2 ∧ refOf s.urrs 8 = some 1 ∧ refs s.pdrs 7 = 2 ∧ refs s.pdrs 8 = 1 := by
  decide

/-- **the hypothesis is needed, and the code does not meet the property without it** (known finding `recreatePdrLive`):
    URR 7, PDR 1 naming it, then Create PDR 1 again with an empty list.  No PDR names URR 7 any more, the recorded count
    is still 1, and no final report was or will be produced: removing PDR 1 queries nothing. -/
theorem recreate_live_pdr_breaks :
    let ok : DpCall × DpAns := (default, { ok := true })
    let c0 : Ctx := { pending := List.replicate 8 ok }
    let ops := [SOp.createURR { id := some 7 }, .createPDR { id := some 1, urrs := [7] }, .createPDR { id := some 1 }]
    let s := (run { rnode := 0, localID := 5, remoteID := 9 } c0 ops).1
    let c := (run { rnode := 0, localID := 5, remoteID := 9 } c0 ops).2
    ¬ FreshRun { rnode := 0, localID := 5, remoteID := 9 } c0 ops ∧
    refs s.pdrs 7 = 0 ∧ refOf s.urrs 7 = some 1 ∧ qcount c 5 7 = 0 ∧
    qcount (s.removePDR { id := some 1 } c).2.1 5 7 = 0 := by
  decide

end UpfVerif.C12
