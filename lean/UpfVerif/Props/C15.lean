import UpfVerif.Model.Perio
import UpfVerif.Gen.Consts
/-
C15 — periodic reporting queries exactly the URRs currently registered.

`registered gs s u p`: the server holds URR `u` of session `s` in the group of period `p`.
* `add_registered`, `del_registered`: ADD and DEL change exactly the addressed registration (DEL under the property's
  hypothesis, carried as the invariant `Disj`: a URR is held by at most one period group).
* `run_refines`: over EVERY history satisfying the hypothesis, the groups are exactly the registrations implied by the
  history (`specReg`: ADD registers, DEL removes, CLOSE clears) — induction over all event lists.
* `tick_exact` / `tick_exact_run`: a TIMEOUT of period `p` queries exactly those, each once, and makes no query when
  there are none (stale tick, unknown period).
* `ticker_iff`: a period's ticker runs iff some URR is registered with it; `close_releases_all`.
* `batches_*`: `queryMultiURR` splits ANY list of object ids into requests of at most `n`, none empty, whose
  concatenation is the list (nothing missing, repeated or foreign), for every `n > 0` and every length.
* `notify_spec`: each returned report is delivered once, to its own session, flagged PERIO, otherwise unchanged.
-/
namespace UpfVerif.C15
open UpfVerif.Perio

def registered (gs : List Group) (s u p : Nat) : Prop := ∃ g ∈ gs, g.period = p ∧ (s, u) ∈ g.mem

/-- structural invariant: one group per period; no empty group; no pair twice in a group -/
structure Inv (gs : List Group) : Prop where
  periods : (gs.map (·.period)).Nodup
  nonempty : ∀ g ∈ gs, g.mem ≠ []
  nodup : ∀ g ∈ gs, g.mem.Nodup

/-- the property's hypothesis as a state invariant: a URR is registered with at most one period -/
def Disj (gs : List Group) : Prop := ∀ s u p p', registered gs s u p → registered gs s u p' → p = p'

theorem registered_nil (s u p : Nat) : ¬ registered [] s u p := by
  intro ⟨g, hg, _⟩; simp at hg

theorem registered_cons (g : Group) (gs : List Group) (s u p : Nat) :
    registered (g :: gs) s u p ↔ (g.period = p ∧ (s, u) ∈ g.mem) ∨ registered gs s u p := by
  constructor
  · rintro ⟨g', hg', hp, hm⟩
    rcases List.mem_cons.mp hg' with rfl | h
    · exact Or.inl ⟨hp, hm⟩
    · exact Or.inr ⟨g', h, hp, hm⟩
  · rintro (⟨hp, hm⟩ | ⟨g', hg', hp, hm⟩)
    · exact ⟨g, by simp, hp, hm⟩
    · exact ⟨g', by simp [hg'], hp, hm⟩

/-! ### ADD -/

theorem add_registered (gs : List Group) (s u p s' u' p' : Nat) :
    registered (addG gs s u p) s' u' p' ↔ (s' = s ∧ u' = u ∧ p' = p) ∨ registered gs s' u' p' := by
  induction gs with
  | nil =>
    simp only [addG, registered_cons, List.mem_singleton, Prod.mk.injEq]
    constructor
    · rintro (⟨hp, hs, hu⟩ | h)
      · exact Or.inl ⟨hs, hu, hp.symm⟩
      · exact absurd h (registered_nil _ _ _)
    · rintro (⟨hs, hu, hp⟩ | h)
      · exact Or.inl ⟨hp.symm, hs, hu⟩
      · exact absurd h (registered_nil _ _ _)
  | cons g gs ih =>
    simp only [addG]
    split
    · rename_i hgp
      split
      · rename_i hin
        rw [registered_cons]
        constructor
        · exact Or.inr
        · rintro (⟨rfl, rfl, rfl⟩ | h)
          · exact Or.inl ⟨hgp, hin⟩
          · exact h
      · rw [registered_cons, registered_cons]
        simp only [List.mem_append, List.mem_singleton, Prod.mk.injEq]
        constructor
        · rintro (⟨hp, (hm | ⟨hs, hu⟩)⟩ | h)
          · exact Or.inr (Or.inl ⟨hp, hm⟩)
          · exact Or.inl ⟨hs, hu, by rw [← hp, hgp]⟩
          · exact Or.inr (Or.inr h)
        · rintro (⟨hs, hu, hp⟩ | ⟨hp, hm⟩ | h)
          · exact Or.inl ⟨by rw [hgp, hp], Or.inr ⟨hs, hu⟩⟩
          · exact Or.inl ⟨hp, Or.inl hm⟩
          · exact Or.inr h
    · rw [registered_cons, registered_cons, ih]
      constructor
      · rintro (h | h | h)
        · exact Or.inr (Or.inl h)
        · exact Or.inl h
        · exact Or.inr (Or.inr h)
      · rintro (h | h | h)
        · exact Or.inr (Or.inl h)
        · exact Or.inl h
        · exact Or.inr (Or.inr h)

theorem addG_periods (gs : List Group) (s u p : Nat) :
    ∀ q, q ∈ (addG gs s u p).map (·.period) ↔ q = p ∨ q ∈ gs.map (·.period) := by
  induction gs with
  | nil => intro q; simp [addG]
  | cons g gs ih =>
    intro q
    simp only [addG]
    split
    · rename_i hgp
      split
      · simp only [List.map_cons, List.mem_cons]
        constructor
        · exact Or.inr
        · rintro (rfl | h)
          · exact Or.inl hgp.symm
          · exact h
      · simp only [List.map_cons, List.mem_cons]
        constructor
        · exact Or.inr
        · rintro (rfl | h)
          · exact Or.inl hgp.symm
          · exact h
    · simp only [List.map_cons, List.mem_cons, ih]
      constructor
      · rintro (h | h | h)
        · exact Or.inr (Or.inl h)
        · exact Or.inl h
        · exact Or.inr (Or.inr h)
      · rintro (h | h | h)
        · exact Or.inr (Or.inl h)
        · exact Or.inl h
        · exact Or.inr (Or.inr h)

theorem add_inv (gs : List Group) (s u p : Nat) (h : Inv gs) : Inv (addG gs s u p) := by
  induction gs with
  | nil =>
    exact ⟨by simp [addG], by intro g hg; simp [addG] at hg; subst hg; simp, by intro g hg; simp [addG] at hg; subst hg; simp⟩
  | cons g gs ih =>
    have hper := h.periods
    simp only [List.map_cons, List.nodup_cons] at hper
    have hgs : Inv gs := ⟨hper.2, fun x hx => h.nonempty x (by simp [hx]), fun x hx => h.nodup x (by simp [hx])⟩
    simp only [addG]
    split
    · rename_i hgp
      split
      · exact h
      · rename_i hnin
        refine ⟨by simpa using h.periods, ?_, ?_⟩
        · intro x hx
          rcases List.mem_cons.mp hx with rfl | hx
          · simp
          · exact h.nonempty x (by simp [hx])
        · intro x hx
          rcases List.mem_cons.mp hx with rfl | hx
          · have := h.nodup g (by simp)
            simp only [List.nodup_append, List.nodup_cons, List.not_mem_nil, not_false_eq_true, List.nodup_nil, and_self,
              List.mem_singleton, true_and]
            exact ⟨this, by intro a ha b hb; subst hb; intro hab; subst hab; exact hnin ha⟩
          · exact h.nodup x (by simp [hx])
    · rename_i hgp
      have ih' := ih hgs
      refine ⟨?_, ?_, ?_⟩
      · simp only [List.map_cons, List.nodup_cons]
        refine ⟨?_, ih'.periods⟩
        rw [addG_periods]
        rintro (h1 | h1)
        · exact hgp h1
        · exact hper.1 h1
      · intro x hx
        rcases List.mem_cons.mp hx with rfl | hx
        · exact h.nonempty _ (by simp)
        · exact ih'.nonempty x hx
      · intro x hx
        rcases List.mem_cons.mp hx with rfl | hx
        · exact h.nodup _ (by simp)
        · exact ih'.nodup x hx

/-- ADD keeps the hypothesis as long as the URR is not already registered with another period -/
theorem add_disj (gs : List Group) (s u p : Nat) (h : Disj gs) (hyp : ∀ p', registered gs s u p' → p' = p) :
    Disj (addG gs s u p) := by
  intro s' u' p1 p2 h1 h2
  rw [add_registered] at h1 h2
  rcases h1 with ⟨rfl, rfl, rfl⟩ | h1 <;> rcases h2 with ⟨hs, hu, hp⟩ | h2
  · exact hp.symm
  · exact (hyp _ h2).symm
  · subst hs; subst hu; subst hp; exact hyp _ h1
  · exact h _ _ _ _ h1 h2

/-! ### DEL -/

theorem mem_erase_nodup (l : List (Nat × Nat)) (a x : Nat × Nat) (h : l.Nodup) :
    x ∈ l.erase a ↔ x ∈ l ∧ x ≠ a := by
  rw [List.Nodup.mem_erase_iff h]; exact And.comm

theorem del_registered (gs : List Group) (s u s' u' p' : Nat) (hi : Inv gs) (hd : Disj gs) :
    registered (delG gs s u) s' u' p' ↔ registered gs s' u' p' ∧ ¬ (s' = s ∧ u' = u) := by
  induction gs with
  | nil => simp only [delG]; constructor
           · intro h; exact absurd h (registered_nil _ _ _)
           · intro h; exact h.1
  | cons g gs ih =>
    have hper := hi.periods
    simp only [List.map_cons, List.nodup_cons] at hper
    have higs : Inv gs := ⟨hper.2, fun x hx => hi.nonempty x (by simp [hx]), fun x hx => hi.nodup x (by simp [hx])⟩
    have hdgs : Disj gs := by
      intro a b p1 p2 h1 h2
      exact hd a b p1 p2 ((registered_cons _ _ _ _ _).mpr (Or.inr h1)) ((registered_cons _ _ _ _ _).mpr (Or.inr h2))
    simp only [delG]
    split
    · rename_i hin
      -- the pair is in this group, hence (hypothesis) in no later one
      have hnot : ∀ p, ¬ registered gs s u p := by
        intro p hr
        have e := hd s u g.period p ((registered_cons _ _ _ _ _).mpr (Or.inl ⟨rfl, hin⟩))
          ((registered_cons _ _ _ _ _).mpr (Or.inr hr))
        obtain ⟨g', hg', hp', _⟩ := hr
        exact hper.1 (by rw [e, ← hp']; exact List.mem_map.mpr ⟨g', hg', rfl⟩)
      have hnd := hi.nodup g (by simp)
      split
      · rename_i hemp
        -- the group held only this pair
        have hall : ∀ x, x ∈ g.mem → x = (s, u) := by
          intro x hx
          by_cases hxe : x = (s, u)
          · exact hxe
          · have : x ∈ g.mem.erase (s, u) := (mem_erase_nodup _ _ _ hnd).mpr ⟨hx, hxe⟩
            have he : g.mem.erase (s, u) = [] := by simpa [List.isEmpty_iff] using hemp
            rw [he] at this; simp at this
        rw [registered_cons]
        constructor
        · intro h
          refine ⟨Or.inr h, ?_⟩
          rintro ⟨rfl, rfl⟩; exact hnot _ h
        · rintro ⟨(⟨_, hm⟩ | h), hne⟩
          · have := hall _ hm; simp only [Prod.mk.injEq] at this; exact absurd this hne
          · exact h
      · rw [registered_cons, registered_cons]
        show (g.period = p' ∧ (s', u') ∈ g.mem.erase (s, u)) ∨ registered gs s' u' p' ↔ _
        rw [mem_erase_nodup _ _ _ hnd]
        simp only [ne_eq, Prod.mk.injEq]
        constructor
        · rintro (⟨hp, hm, hne⟩ | h)
          · exact ⟨Or.inl ⟨hp, hm⟩, hne⟩
          · refine ⟨Or.inr h, ?_⟩
            rintro ⟨rfl, rfl⟩; exact hnot _ h
        · rintro ⟨(⟨hp, hm⟩ | h), hne⟩
          · exact Or.inl ⟨hp, hm, hne⟩
          · exact Or.inr h
    · rename_i hnin
      rw [registered_cons, registered_cons, ih higs hdgs]
      constructor
      · rintro (⟨hp, hm⟩ | ⟨h, hne⟩)
        · refine ⟨Or.inl ⟨hp, hm⟩, ?_⟩
          rintro ⟨rfl, rfl⟩; exact hnin hm
        · exact ⟨Or.inr h, hne⟩
      · rintro ⟨(⟨hp, hm⟩ | h), hne⟩
        · exact Or.inl ⟨hp, hm⟩
        · exact Or.inr ⟨h, hne⟩

theorem delG_periods_sub (gs : List Group) (s u : Nat) : ∀ q, q ∈ (delG gs s u).map (·.period) → q ∈ gs.map (·.period) := by
  induction gs with
  | nil => intro q h; simpa [delG] using h
  | cons g gs ih =>
    intro q
    simp only [delG]
    split
    · split
      · intro h; simp only [List.map_cons, List.mem_cons]; exact Or.inr h
      · intro h; simpa using h
    · simp only [List.map_cons, List.mem_cons]
      rintro (h | h)
      · exact Or.inl h
      · exact Or.inr (ih q h)

theorem del_inv (gs : List Group) (s u : Nat) (h : Inv gs) : Inv (delG gs s u) := by
  induction gs with
  | nil => simpa [delG] using h
  | cons g gs ih =>
    have hper := h.periods
    simp only [List.map_cons, List.nodup_cons] at hper
    have hgs : Inv gs := ⟨hper.2, fun x hx => h.nonempty x (by simp [hx]), fun x hx => h.nodup x (by simp [hx])⟩
    simp only [delG]
    split
    · split
      · exact hgs
      · rename_i hne
        refine ⟨by simpa using h.periods, ?_, ?_⟩
        · intro x hx
          rcases List.mem_cons.mp hx with rfl | hx
          · simpa [List.isEmpty_iff] using hne
          · exact h.nonempty x (by simp [hx])
        · intro x hx
          rcases List.mem_cons.mp hx with rfl | hx
          · exact (h.nodup g (by simp)).erase _
          · exact h.nodup x (by simp [hx])
    · have ih' := ih hgs
      refine ⟨?_, ?_, ?_⟩
      · simp only [List.map_cons, List.nodup_cons]
        exact ⟨fun hq => hper.1 (delG_periods_sub gs s u _ hq), ih'.periods⟩
      · intro x hx
        rcases List.mem_cons.mp hx with rfl | hx
        · exact h.nonempty _ (by simp)
        · exact ih'.nonempty x hx
      · intro x hx
        rcases List.mem_cons.mp hx with rfl | hx
        · exact h.nodup _ (by simp)
        · exact ih'.nodup x hx

theorem del_disj (gs : List Group) (s u : Nat) (hi : Inv gs) (hd : Disj gs) : Disj (delG gs s u) := by
  intro a b p1 p2 h1 h2
  rw [del_registered gs s u _ _ _ hi hd] at h1 h2
  exact hd _ _ _ _ h1.1 h2.1

/-! ### TIMEOUT -/

theorem queryG_some (gs : List Group) (p : Nat) (m : List (Nat × Nat)) (h : queryG gs p = some m) :
    ∃ g ∈ gs, g.period = p ∧ g.mem = m := by
  induction gs with
  | nil => simp [queryG] at h
  | cons g gs ih =>
    simp only [queryG] at h
    split at h
    · rename_i hp; cases h; exact ⟨g, by simp, hp, rfl⟩
    · obtain ⟨g', hg', hp', hm'⟩ := ih h; exact ⟨g', by simp [hg'], hp', hm'⟩

theorem queryG_none (gs : List Group) (p : Nat) (h : queryG gs p = none) : p ∉ gs.map (·.period) := by
  induction gs with
  | nil => simp
  | cons g gs ih =>
    simp only [queryG] at h
    split at h
    · cases h
    · rename_i hp
      simp only [List.map_cons, List.mem_cons, not_or]
      exact ⟨fun e => hp e.symm, ih h⟩

/-- **a tick queries exactly the URRs registered with its period, each once; and nothing when there are none** -/
theorem tick_exact (gs : List Group) (p : Nat) (hi : Inv gs) :
    (∀ m, queryG gs p = some m → (∀ s u, (s, u) ∈ m ↔ registered gs s u p) ∧ m.Nodup ∧ m ≠ []) ∧
    (queryG gs p = none → ∀ s u, ¬ registered gs s u p) := by
  constructor
  · intro m hm
    obtain ⟨g, hg, hp, rfl⟩ := queryG_some gs p m hm
    refine ⟨?_, hi.nodup g hg, hi.nonempty g hg⟩
    intro s u
    constructor
    · intro hmem; exact ⟨g, hg, hp, hmem⟩
    · rintro ⟨g', hg', hp', hmem⟩
      -- one group per period
      have : g' = g := by
        have hnd := hi.periods
        clear hm hi
        induction gs with
        | nil => simp at hg
        | cons x xs ih =>
          simp only [List.map_cons, List.nodup_cons] at hnd
          rcases List.mem_cons.mp hg with rfl | hg1 <;> rcases List.mem_cons.mp hg' with rfl | hg1'
          · rfl
          · exact absurd (List.mem_map.mpr ⟨g', hg1', by rw [hp', hp]⟩) hnd.1
          · exact absurd (List.mem_map.mpr ⟨g, hg1, by rw [hp, hp']⟩) hnd.1
          · exact ih hg1 hg1' hnd.2
      rw [← this]; exact hmem
  · intro hnone s u ⟨g, hg, hp, _⟩
    exact queryG_none gs p hnone (List.mem_map.mpr ⟨g, hg, hp⟩)

/-- a period's ticker runs iff some URR is registered with that period (released with the last one) -/
theorem ticker_iff (gs : List Group) (p : Nat) (hi : Inv gs) :
    p ∈ gs.map (·.period) ↔ ∃ s u, registered gs s u p := by
  constructor
  · intro h
    obtain ⟨g, hg, hp⟩ := List.mem_map.mp h
    have hne := hi.nonempty g hg
    cases hm : g.mem with
    | nil => exact absurd hm hne
    | cons x xs => exact ⟨x.1, x.2, g, hg, hp, by rw [hm]; simp⟩
  · rintro ⟨s, u, g, hg, hp, _⟩
    exact List.mem_map.mpr ⟨g, hg, hp⟩

/-! ### all histories -/

/-- the registrations a history implies -/
def specStep (reg : List (Nat × Nat × Nat)) (closed : Bool) : Ev → List (Nat × Nat × Nat) × Bool
  | .add s u p => if closed || reg.any (fun r => r.1 == s && r.2.1 == u) then (reg, closed) else (reg ++ [(s, u, p)], closed)
  | .del s u => if closed then (reg, closed) else (reg.filter (fun r => !(r.1 == s && r.2.1 == u)), closed)
  | .tick _ => (reg, closed)
  | .close => ([], true)

def specRun : List Ev → List (Nat × Nat × Nat) × Bool → List (Nat × Nat × Nat) × Bool
  | [], x => x
  | e :: es, x => specRun es (specStep x.1 x.2 e)

def runFrom : List Ev → St → St
  | [], st => st
  | e :: es, st => runFrom es (step st e)

/-- the hypothesis of the property on a history, from a given point: an ADD names a URR that is not registered, or
    repeats its current registration -/
def Hyp : List Ev → List (Nat × Nat × Nat) × Bool → Prop
  | [], _ => True
  | e :: es, x =>
    (match e with
     | .add s u p => ∀ p', (s, u, p') ∈ x.1 → p' = p
     | _ => True) ∧ Hyp es (specStep x.1 x.2 e)

structure Rel (st : St) (x : List (Nat × Nat × Nat) × Bool) : Prop where
  inv : Inv st.groups
  disj : Disj st.groups
  closed : st.closed = x.2
  reg : ∀ s u p, registered st.groups s u p ↔ (s, u, p) ∈ x.1

theorem step_rel (st : St) (x : List (Nat × Nat × Nat) × Bool) (e : Ev) (h : Rel st x)
    (hyp : match e with | .add s u p => ∀ p', (s, u, p') ∈ x.1 → p' = p | _ => True) :
    Rel (step st e) (specStep x.1 x.2 e) := by
  obtain ⟨hi, hd, hc, hr⟩ := h
  cases e with
  | tick p => exact ⟨hi, hd, hc, hr⟩
  | close =>
    simp only [step, specStep]
    exact ⟨⟨by simp, by simp, by simp⟩, by intro s u p p' h1; exact absurd h1 (registered_nil _ _ _), rfl,
        by intro s u p; simp; exact registered_nil _ _ _⟩
  | add s u p =>
    simp only [step, specStep, ← hc]
    cases hcl : st.closed with
    | true => simp only [Bool.true_or, if_true]; exact ⟨hi, hd, hcl, hr⟩
    | false =>
      simp only [Bool.false_or, Bool.false_eq_true, if_false]
      have hyp' : ∀ p', registered st.groups s u p' → p' = p := fun p' h => hyp p' ((hr s u p').mp h)
      split
      · rename_i hany
        -- already registered (with the same period, by the hypothesis): ADD is idempotent
        obtain ⟨r, hrm, hrs⟩ := List.any_eq_true.mp hany
        simp only [Bool.and_eq_true, beq_iff_eq] at hrs
        obtain ⟨r1, r2, r3⟩ := r
        simp only at hrs
        obtain ⟨rfl, rfl⟩ := hrs
        have hp3 : r3 = p := hyp r3 hrm
        subst hp3
        refine ⟨add_inv _ _ _ _ hi, add_disj _ _ _ _ hd hyp', by simpa using hcl, ?_⟩
        intro s' u' p'
        rw [add_registered, hr]
        constructor
        · rintro (⟨rfl, rfl, rfl⟩ | h)
          · exact hrm
          · exact h
        · exact Or.inr
      · rename_i hany
        refine ⟨add_inv _ _ _ _ hi, add_disj _ _ _ _ hd hyp', by simpa using hcl, ?_⟩
        intro s' u' p'
        rw [add_registered, hr]
        simp only [List.mem_append, List.mem_singleton, Prod.mk.injEq]
        constructor
        · rintro (⟨rfl, rfl, rfl⟩ | h)
          · exact Or.inr ⟨rfl, rfl, rfl⟩
          · exact Or.inl h
        · rintro (h | ⟨rfl, rfl, rfl⟩)
          · exact Or.inr h
          · exact Or.inl ⟨rfl, rfl, rfl⟩
  | del s u =>
    simp only [step, specStep, ← hc]
    cases hcl : st.closed with
    | true => simp only [if_true]; exact ⟨hi, hd, hcl, hr⟩
    | false =>
      simp only [Bool.false_eq_true, if_false]
      refine ⟨del_inv _ _ _ hi, del_disj _ _ _ hi hd, by simpa using hcl, ?_⟩
      intro s' u' p'
      rw [del_registered _ _ _ _ _ _ hi hd, hr]
      simp only [List.mem_filter, Bool.not_eq_true', Bool.and_eq_false_imp, beq_iff_eq]
      constructor
      · rintro ⟨h, hne⟩
        refine ⟨h, ?_⟩
        intro hs
        simp only [beq_eq_false_iff_ne, ne_eq]
        intro hu; exact hne ⟨hs, hu⟩
      · rintro ⟨h, hne⟩
        refine ⟨h, ?_⟩
        rintro ⟨hs, hu⟩
        have := hne hs
        simp only [beq_eq_false_iff_ne, ne_eq] at this
        exact this hu

theorem run_rel : ∀ (evs : List Ev) (st : St) (x : List (Nat × Nat × Nat) × Bool), Rel st x → Hyp evs x →
    Rel (runFrom evs st) (specRun evs x)
  | [], _, _, h, _ => h
  | e :: es, st, x, h, hy => run_rel es (step st e) (specStep x.1 x.2 e) (step_rel st x e h hy.1) hy.2

theorem rel_init : Rel {} ([], false) :=
  ⟨⟨by simp, by simp, by simp⟩, by intro s u p p' h; exact absurd h (registered_nil _ _ _), rfl,
   by intro s u p; simp; exact registered_nil _ _ _⟩

/-- **over every history satisfying the hypothesis, the server holds exactly the registrations the history implies** -/
theorem run_refines (evs : List Ev) (hy : Hyp evs ([], false)) (s u p : Nat) :
    registered (runFrom evs {}).groups s u p ↔ (s, u, p) ∈ (specRun evs ([], false)).1 :=
  (run_rel evs {} ([], false) rel_init hy).reg s u p

/-- **…and a tick after any such history queries exactly the URRs registered with its period, once each; none ⇒ no query** -/
theorem tick_exact_run (evs : List Ev) (hy : Hyp evs ([], false)) (p : Nat) :
    (∀ m, query (runFrom evs {}) p = some m →
        (∀ s u, (s, u) ∈ m ↔ (s, u, p) ∈ (specRun evs ([], false)).1) ∧ m.Nodup) ∧
    (query (runFrom evs {}) p = none → (runFrom evs {}).closed = true ∨ ∀ s u, (s, u, p) ∉ (specRun evs ([], false)).1) := by
  have R := run_rel evs {} ([], false) rel_init hy
  have T := tick_exact (runFrom evs {}).groups p R.inv
  unfold query
  cases hc : (runFrom evs {}).closed with
  | true => simp
  | false =>
    simp only [Bool.false_eq_true, if_false]
    constructor
    · intro m hm
      obtain ⟨h1, h2, _⟩ := T.1 m hm
      exact ⟨fun s u => by rw [h1, R.reg], h2⟩
    · intro hn
      right
      intro s u hmem
      exact T.2 hn s u ((R.reg s u p).mpr hmem)

/-- the number of ticker goroutines is the number of distinct periods in use (one group per period, none empty) -/
theorem tickers_periods (evs : List Ev) (hy : Hyp evs ([], false)) (p : Nat) :
    p ∈ (runFrom evs {}).groups.map (·.period) ↔ ∃ s u, (s, u, p) ∈ (specRun evs ([], false)).1 := by
  have R := run_rel evs {} ([], false) rel_init hy
  rw [ticker_iff _ _ R.inv]
  constructor
  · rintro ⟨s, u, h⟩; exact ⟨s, u, (R.reg s u p).mp h⟩
  · rintro ⟨s, u, h⟩; exact ⟨s, u, (R.reg s u p).mpr h⟩

/-- closing releases every timer, whatever was registered; afterwards no tick queries anything -/
theorem close_releases_all (st : St) : tickers (step st .close) = 0 ∧ ∀ p, query (step st .close) p = none := by
  simp [step, tickers, query]

theorem closed_stays (st : St) (e : Ev) (h : st.closed = true) : (step st e).closed = true ∧ (step st e).groups = st.groups ∨ e = .close := by
  cases e <;> simp [step, h]

/-! ### batching -/

theorem batchesAux_flatten (n : Nat) : ∀ (l cur : List (Nat × Nat)), (batchesAux n l cur).flatten = cur ++ l
  | [], cur => by
    simp only [batchesAux]
    split
    · rename_i h; simp [List.isEmpty_iff] at h; simp [h]
    · simp
  | x :: rest, cur => by
    simp only [batchesAux]
    split
    · simp [batchesAux_flatten n rest []]
    · simp [batchesAux_flatten n rest (cur ++ [x])]

/-- nothing missing, nothing repeated, nothing foreign: the requests, one after another, name exactly the registered URRs -/
theorem batches_flatten (n : Nat) (l : List (Nat × Nat)) : (batches n l).flatten = l := by
  simp [batches, batchesAux_flatten]

theorem batchesAux_bounds (n : Nat) (hn : 0 < n) : ∀ (l cur : List (Nat × Nat)), cur.length < n →
    ∀ b ∈ batchesAux n l cur, b ≠ [] ∧ b.length ≤ n
  | [], cur, hc, b, hb => by
    simp only [batchesAux] at hb
    split at hb
    · simp at hb
    · rename_i hne
      simp at hb; subst hb
      exact ⟨by simpa [List.isEmpty_iff] using hne, by omega⟩
  | x :: rest, cur, hc, b, hb => by
    simp only [batchesAux] at hb
    split at hb
    · rcases List.mem_cons.mp hb with rfl | hb'
      · exact ⟨by simp, by simp; omega⟩
      · exact batchesAux_bounds n hn rest [] (by simpa using hn) b hb'
    · rename_i hlt
      exact batchesAux_bounds n hn rest (cur ++ [x]) (by simp at hlt ⊢; omega) b hb

/-- what a batched query hands back: when the data plane answers each request with one report per URR it names, the
    concatenation of the answers is one report per registered URR, in order — none twice, none missing — for EVERY number
    of URRs, exact multiples of the batch size included -/
theorem batched_answers_each_once {β : Type} (n : Nat) (l : List (Nat × Nat)) (f : Nat × Nat → β) :
    (batches n l).flatMap (fun b => b.map f) = l.map f := by
  have h := batches_flatten n l
  calc (batches n l).flatMap (fun b => b.map f)
      = ((batches n l).map (List.map f)).flatten := by rw [List.flatMap_def]
    _ = ((batches n l).flatten).map f := by rw [List.map_flatten]
    _ = l.map f := by rw [h]

/-- every request names at least one and at most `n` URRs — for every list, every length, every limit `n > 0` -/
theorem batches_bounds (n : Nat) (hn : 0 < n) (l : List (Nat × Nat)) : ∀ b ∈ batches n l, b ≠ [] ∧ b.length ≤ n :=
  batchesAux_bounds n hn l [] (by simpa using hn)

/-! ### notifications -/

/-- each returned report is delivered once, to the session it belongs to, flagged PERIO, otherwise unchanged -/
theorem notify_spec (answer : List (Nat × List (Nat × Nat))) :
    (notify Gen.report.USAR_TRIG_PERIO answer).map (·.1) = answer.map (·.1) ∧
    (notify Gen.report.USAR_TRIG_PERIO answer).map (fun e => e.2.map (·.1)) = answer.map (fun e => e.2.map (·.1)) ∧
    ∀ e ∈ notify Gen.report.USAR_TRIG_PERIO answer, ∀ r ∈ e.2, r.2 % 2 = 1 := by
  refine ⟨?_, ?_, ?_⟩
  · simp [notify, List.map_map, Function.comp_def]
  · simp [notify, List.map_map, Function.comp_def]
  · intro e he r hr
    simp only [notify, List.mem_map] at he
    obtain ⟨⟨seid, rs⟩, _, rfl⟩ := he
    simp only [List.mem_map] at hr
    obtain ⟨⟨u, f⟩, _, rfl⟩ := hr
    show (f ||| Gen.report.USAR_TRIG_PERIO) % 2 = 1
    have : Gen.report.USAR_TRIG_PERIO = 1 := rfl
    rw [this, Nat.or_mod_two_eq_one]; right; rfl

/-! ### non-vacuity: a history in which two sessions share a period, one of them loses its last URR, and a stale tick
     arrives for a period whose last URR is gone -/
def exHist : List Ev := [.add 1 1 3600, .add 2 7 3600, .add 1 2 3600, .add 9 1 7200, .del 2 7, .del 9 1, .add 1 1 3600]

example : Hyp exHist ([], false) := by
  simp [exHist, Hyp, specStep]
example : query (runFrom exHist {}) 3600 = some [(1, 1), (1, 2)] ∧ query (runFrom exHist {}) 7200 = none ∧
    tickers (runFrom exHist {}) = 1 := by decide
example : (batches 3 [(1, 1), (1, 2), (1, 3), (2, 1), (2, 2), (2, 3), (3, 1)]).map (·.length) = [3, 3, 1] := by decide

end UpfVerif.C15
