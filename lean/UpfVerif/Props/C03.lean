import UpfVerif.Model.Xlate
import UpfVerif.Spec.Rules
import UpfVerif.Spec.Arrange
import UpfVerif.Lemmas.Xlate
import UpfVerif.Lemmas.Arrange
import UpfVerif.Model.Perio
import UpfVerif.Model.Core
/-
C03 — QER, URR and BAR reach the kernel exactly as the SMF specified them.

Same scheme as C02: for every content `p` and every arrangement `cs` of it as child IEs, the request the model of
`gtp5g.go` builds reads back (independent gtp5g reader) as `expect… link seid p`.  In particular the 40-bit rates
(`rate_split`: high 32 bits and low 8 bits recombine to the rate, uplink under the UL attributes, downlink under the DL
ones), the trigger word, the volume flags with each volume under its own flag.  `createURR_registration`: a Create URR is
registered for periodic querying with its period iff its triggers include PERIO.
-/
namespace UpfVerif.C03
open UpfVerif.Netlink UpfVerif.Gtp5gRead UpfVerif.Rules UpfVerif.Xlate UpfVerif.XlateL UpfVerif.Arrange
open UpfVerif.Gen

theorem consts_qer_urr_bar :
    [gtp5gnl.QER_ID, gtp5gnl.QER_GATE, gtp5gnl.QER_MBR, gtp5gnl.QER_GBR, gtp5gnl.QER_CORR_ID, gtp5gnl.QER_RQI, gtp5gnl.QER_QFI,
     gtp5gnl.QER_PPI, gtp5gnl.QER_SEID, gtp5gnl.QER_MBR_UL_HIGH32, gtp5gnl.QER_MBR_UL_LOW8, gtp5gnl.QER_MBR_DL_HIGH32,
     gtp5gnl.QER_MBR_DL_LOW8, gtp5gnl.QER_GBR_UL_HIGH32, gtp5gnl.QER_GBR_UL_LOW8, gtp5gnl.QER_GBR_DL_HIGH32, gtp5gnl.QER_GBR_DL_LOW8,
     gtp5gnl.URR_ID, gtp5gnl.URR_MEASUREMENT_METHOD, gtp5gnl.URR_REPORTING_TRIGGER, gtp5gnl.URR_MEASUREMENT_PERIOD,
     gtp5gnl.URR_MEASUREMENT_INFO, gtp5gnl.URR_SEID, gtp5gnl.URR_VOLUME_THRESHOLD, gtp5gnl.URR_VOLUME_QUOTA,
     gtp5gnl.URR_VOLUME_THRESHOLD_FLAG, gtp5gnl.URR_VOLUME_THRESHOLD_TOVOL, gtp5gnl.URR_VOLUME_THRESHOLD_UVOL, gtp5gnl.URR_VOLUME_THRESHOLD_DVOL,
     gtp5gnl.URR_VOLUME_QUOTA_FLAG, gtp5gnl.URR_VOLUME_QUOTA_TOVOL, gtp5gnl.URR_VOLUME_QUOTA_UVOL, gtp5gnl.URR_VOLUME_QUOTA_DVOL,
     gtp5gnl.BAR_ID, gtp5gnl.BAR_DOWNLINK_DATA_NOTIFICATION_DELAY, gtp5gnl.BAR_BUFFERING_PACKETS_COUNT, gtp5gnl.BAR_SEID,
     gtp5gnl.CMD_ADD_QER, gtp5gnl.CMD_ADD_URR, gtp5gnl.CMD_ADD_BAR, report.RPT_TRIG_PERIO] =
    [A.qerId, A.qerGate, A.qerMbr, A.qerGbr, A.qerCorrId, A.qerRqi, A.qerQfi, A.qerPpi, A.qerSeid,
     A.rateUlHigh, A.rateUlLow, A.rateDlHigh, A.rateDlLow, A.rateUlHigh, A.rateUlLow, A.rateDlHigh, A.rateDlLow,
     A.urrId, A.urrMethod, A.urrTrigger, A.urrPeriod, A.urrInfo, A.urrSeid, A.urrVolThreshold, A.urrVolQuota,
     A.volFlag, A.volTotal, A.volUplink, A.volDownlink, A.volFlag, A.volTotal, A.volUplink, A.volDownlink,
     A.barId, A.barDelay, A.barPktCount, A.barSeid, Cmd.addQer, Cmd.addUrr, Cmd.addBar, 1] := by decide

/-! ### QER -/



theorem qerId_last (cs : List QerChild) (cur : Nat) :
    qerId cs cur = ((cs.filterMap QerChild.qerid?).getLast?).getD cur :=
  lastId QerChild.qerid? qerId (fun _ => rfl) (fun c cs cur => by cases c <;> rfl) cs cur

/-- the split of a 40-bit rate into a 32-bit and an 8-bit attribute loses nothing -/
theorem rate_split (r : Nat) (h : r < 2 ^ 40) :
    rd32 (le32 (r / 256)) * 256 + rd8 [BitVec.ofNat 8 r] = r := by
  rw [rd32_le32 _ (by omega)]
  simp [rd8, BitVec.toNat_ofNat]; omega

theorem readRate_rateAttrs (ul dl : Nat) (hu : ul < 2 ^ 40) (hd : dl < 2 ^ 40) :
    readRate (rateAttrs A.rateUlHigh A.rateUlLow A.rateDlHigh A.rateDlLow ul dl) = expectRate (ul, dl) := by
  simp [readRate, rateAttrs, expectRate, comb, leaf1, leaves_cons, leafOf, u32, u8, A.rateUlHigh, A.rateUlLow, A.rateDlHigh,
    A.rateDlLow, rate_split ul hu, rate_split dl hd]

theorem qer_corr (c : QerChild) : leaves (qerChildAttrs c) A.qerCorrId = ((QerChild.corr? c).map le32).toList := by
  cases c <;> simp [qerChildAttrs, QerChild.corr?, leaves_cons, leafOf, u8, u32, gtp5gnl.QER_CORR_ID, gtp5gnl.QER_GATE,
      gtp5gnl.QER_MBR, gtp5gnl.QER_GBR, gtp5gnl.QER_QFI, gtp5gnl.QER_RQI, gtp5gnl.QER_PPI, A.qerCorrId]
theorem qer_gate (c : QerChild) : leaves (qerChildAttrs c) A.qerGate = ((QerChild.gate? c).map fun v => [BitVec.ofNat 8 v]).toList := by
  cases c <;> simp [qerChildAttrs, QerChild.gate?, leaves_cons, leafOf, u8, u32, gtp5gnl.QER_CORR_ID, gtp5gnl.QER_GATE,
      gtp5gnl.QER_MBR, gtp5gnl.QER_GBR, gtp5gnl.QER_QFI, gtp5gnl.QER_RQI, gtp5gnl.QER_PPI, A.qerGate]
theorem qer_qfi (c : QerChild) : leaves (qerChildAttrs c) A.qerQfi = ((QerChild.qfi? c).map fun v => [BitVec.ofNat 8 v]).toList := by
  cases c <;> simp [qerChildAttrs, QerChild.qfi?, leaves_cons, leafOf, u8, u32, gtp5gnl.QER_CORR_ID, gtp5gnl.QER_GATE,
      gtp5gnl.QER_MBR, gtp5gnl.QER_GBR, gtp5gnl.QER_QFI, gtp5gnl.QER_RQI, gtp5gnl.QER_PPI, A.qerQfi]
theorem qer_rqi (c : QerChild) : leaves (qerChildAttrs c) A.qerRqi = ((QerChild.rqi? c).map fun v => [BitVec.ofNat 8 v]).toList := by
  cases c <;> simp [qerChildAttrs, QerChild.rqi?, leaves_cons, leafOf, u8, u32, gtp5gnl.QER_CORR_ID, gtp5gnl.QER_GATE,
      gtp5gnl.QER_MBR, gtp5gnl.QER_GBR, gtp5gnl.QER_QFI, gtp5gnl.QER_RQI, gtp5gnl.QER_PPI, A.qerRqi]
theorem qer_ppi (c : QerChild) : leaves (qerChildAttrs c) A.qerPpi = ((QerChild.ppi? c).map fun v => [BitVec.ofNat 8 (v % 8)]).toList := by
  cases c <;> simp [qerChildAttrs, QerChild.ppi?, leaves_cons, leafOf, u8, u32, gtp5gnl.QER_CORR_ID, gtp5gnl.QER_GATE,
      gtp5gnl.QER_MBR, gtp5gnl.QER_GBR, gtp5gnl.QER_QFI, gtp5gnl.QER_RQI, gtp5gnl.QER_PPI, A.qerPpi]
theorem qer_mbr (c : QerChild) : nests (qerChildAttrs c) A.qerMbr =
    ((QerChild.mbr? c).map fun r => rateAttrs A.rateUlHigh A.rateUlLow A.rateDlHigh A.rateDlLow r.1 r.2).toList := by
  cases c <;> simp [qerChildAttrs, QerChild.mbr?, nests_cons, nestOf, u8, u32, gtp5gnl.QER_MBR, gtp5gnl.QER_GBR, A.qerMbr,
    gtp5gnl.QER_MBR_UL_HIGH32, gtp5gnl.QER_MBR_UL_LOW8, gtp5gnl.QER_MBR_DL_HIGH32, gtp5gnl.QER_MBR_DL_LOW8,
    A.rateUlHigh, A.rateUlLow, A.rateDlHigh, A.rateDlLow]
theorem qer_gbr (c : QerChild) : nests (qerChildAttrs c) A.qerGbr =
    ((QerChild.gbr? c).map fun r => rateAttrs A.rateUlHigh A.rateUlLow A.rateDlHigh A.rateDlLow r.1 r.2).toList := by
  cases c <;> simp [qerChildAttrs, QerChild.gbr?, nests_cons, nestOf, u8, u32, gtp5gnl.QER_MBR, gtp5gnl.QER_GBR, A.qerGbr,
    gtp5gnl.QER_GBR_UL_HIGH32, gtp5gnl.QER_GBR_UL_LOW8, gtp5gnl.QER_GBR_DL_HIGH32, gtp5gnl.QER_GBR_DL_LOW8,
    A.rateUlHigh, A.rateUlLow, A.rateDlHigh, A.rateDlLow]
theorem qer_noOid (c : QerChild) (t : Nat) (ht : t = A.link ∨ t = A.qerId ∨ t = A.qerSeid) : leaves (qerChildAttrs c) t = [] := by
  rcases ht with rfl | rfl | rfl <;>
  cases c <;> simp [qerChildAttrs, leaves_cons, leafOf, u8, u32, gtp5gnl.QER_CORR_ID, gtp5gnl.QER_GATE,
      gtp5gnl.QER_MBR, gtp5gnl.QER_GBR, gtp5gnl.QER_QFI, gtp5gnl.QER_RQI, gtp5gnl.QER_PPI, A.link, A.qerId, A.qerSeid]

theorem readQer_attrs (link seid fl : Nat) (cs : List QerChild) (p : QerSpec) (h : ArrangesQer cs p) (wf : p.WF)
    (hl : link < 2 ^ 32) (hs : seid < 2 ^ 64) :
    readQer (qerReq link seid fl cs).attrs = expectQer link seid p := by
  obtain ⟨wid, wcorr, wgate, wmbr, wgbr, wqfi, wrqi, wppi⟩ := wf
  have hid : qerId cs 0 = p.id := by rw [qerId_last, h.id]; rfl
  unfold readQer expectQer qerReq
  simp only [leaf1, nest1, leaves_append, nests_append, oidAttrs, hid]
  congr 1
  · simp [leaves_cons, leafOf, u32, u64, gtp5gnl.LINK, gtp5gnl.QER_ID, gtp5gnl.QER_SEID, A.link, rd32_le32 link hl]
  · simp [leaves_cons, leafOf, u32, u64, gtp5gnl.LINK, gtp5gnl.QER_ID, gtp5gnl.QER_SEID, A.qerSeid, rd64_le64 seid hs]
  · simp [leaves_cons, leafOf, u32, u64, gtp5gnl.LINK, gtp5gnl.QER_ID, gtp5gnl.QER_SEID, A.qerId, rd32_le32 p.id wid]
  · rw [leaves_of _ _ _ _ qer_corr, h.corr]
    simp [leaves_cons, leafOf, u32, u64, gtp5gnl.LINK, gtp5gnl.QER_ID, gtp5gnl.QER_SEID, A.qerCorrId]
    cases hq : p.corrId with
    | none => rfl
    | some v => simp [rd32_le32 v (wcorr v hq)]
  · rw [leaves_of _ _ _ _ qer_gate, h.gate]
    simp [leaves_cons, leafOf, u32, u64, gtp5gnl.LINK, gtp5gnl.QER_ID, gtp5gnl.QER_SEID, A.qerGate]
    cases hq : p.gate with
    | none => rfl
    | some v => simp [rd8_u8 v (wgate v hq)]
  · rw [nests_of _ _ _ _ qer_mbr, h.mbr]
    simp [nests_cons, nestOf, u32, u64]
    cases hq : p.mbr with
    | none => rfl
    | some r => simp [readRate_rateAttrs r.1 r.2 (wmbr r hq).1 (wmbr r hq).2]
  · rw [nests_of _ _ _ _ qer_gbr, h.gbr]
    simp [nests_cons, nestOf, u32, u64]
    cases hq : p.gbr with
    | none => rfl
    | some r => simp [readRate_rateAttrs r.1 r.2 (wgbr r hq).1 (wgbr r hq).2]
  · rw [leaves_of _ _ _ _ qer_qfi, h.qfi]
    simp [leaves_cons, leafOf, u32, u64, gtp5gnl.LINK, gtp5gnl.QER_ID, gtp5gnl.QER_SEID, A.qerQfi]
    cases hq : p.qfi with
    | none => rfl
    | some v => simp [rd8_u8 v (wqfi v hq)]
  · rw [leaves_of _ _ _ _ qer_rqi, h.rqi]
    simp [leaves_cons, leafOf, u32, u64, gtp5gnl.LINK, gtp5gnl.QER_ID, gtp5gnl.QER_SEID, A.qerRqi]
    cases hq : p.rqi with
    | none => rfl
    | some v => simp [rd8_u8 v (wrqi v hq)]
  · rw [leaves_of _ _ _ _ qer_ppi, h.ppi]
    simp [leaves_cons, leafOf, u32, u64, gtp5gnl.LINK, gtp5gnl.QER_ID, gtp5gnl.QER_SEID, A.qerPpi]
    cases hq : p.ppi with
    | none => rfl
    | some v =>
      have := wppi v hq
      simp [rd8_u8 (v % 8) (by omega)]; omega

/-- **Create / Update QER** (`fl` = the netlink flags of either) -/
theorem qer_exact (link seid fl : Nat) (cs : List QerChild) (p : QerSpec) (h : ArrangesQer cs p) (wf : p.WF)
    (hl : link < 2 ^ 32) (hs : seid < 2 ^ 64) :
    (qerReq link seid fl cs).cmd = Cmd.addQer ∧ readQer (qerReq link seid fl cs).attrs = expectQer link seid p :=
  ⟨rfl, readQer_attrs link seid fl cs p h wf hl hs⟩

theorem qer_order_independent (link seid fl : Nat) (cs cs' : List QerChild) (p : QerSpec)
    (h : ArrangesQer cs p) (h' : ArrangesQer cs' p) (wf : p.WF) (hl : link < 2 ^ 32) (hs : seid < 2 ^ 64) :
    readQer (qerReq link seid fl cs).attrs = readQer (qerReq link seid fl cs').attrs := by
  rw [readQer_attrs link seid fl cs p h wf hl hs, readQer_attrs link seid fl cs' p h' wf hl hs]

theorem qer_bytes (link seid fl : Nat) (cs : List QerChild) (p : QerSpec) (h : ArrangesQer cs p) (wf : p.WF)
    (hl : link < 2 ^ 32) (hs : seid < 2 ^ 64) (hsz : wfList (qerReq link seid fl cs).attrs = true) :
    (decodeTree (encList (qerReq link seid fl cs).attrs)).map readQer = some (expectQer link seid p) := by
  rw [decodeTree_encList _ hsz]; simp [readQer_attrs link seid fl cs p h wf hl hs]

/-! ### URR -/



theorem urrId_last (cs : List UrrChild) (cur : Nat) :
    urrId cs cur = ((cs.filterMap UrrChild.urrid?).getLast?).getD cur :=
  lastId UrrChild.urrid? urrId (fun _ => rfl) (fun c cs cur => by cases c <;> rfl) cs cur

theorem urrPeriod_last (cs : List UrrChild) (cur : Nat) :
    urrPeriod cs cur = ((cs.filterMap UrrChild.mp?).getLast?).getD cur :=
  lastId UrrChild.mp? urrPeriod (fun _ => rfl) (fun c cs cur => by cases c <;> rfl) cs cur

theorem or_shift (lo hi k : Nat) (h : lo < 2 ^ k) : lo ||| hi <<< k = lo + hi * 2 ^ k := by
  rw [Nat.or_comm, ← Nat.shiftLeft_add_eq_or_of_lt h, Nat.shiftLeft_eq]; omega

/-- the trigger word handed to the kernel is the IE's octets, little-endian (C19 names the bits) -/
theorem rptUnmarshal_word (b : Bytes) (hb : b.length = 2 ∨ b.length = 3) :
    ∃ w, Flags.rptUnmarshal b = some w ∧ w.toNat = trigWord b := by
  match b, hb with
  | [b0, b1], _ =>
    refine ⟨_, rfl, ?_⟩
    have h0 := b0.isLt; have h1 := b1.isLt
    simp only [trigWord]
    rw [BitVec.toNat_or, BitVec.toNat_shiftLeft, BitVec.toNat_setWidth, BitVec.toNat_setWidth,
      Nat.mod_eq_of_lt (by omega : b0.toNat < 2 ^ 32), Nat.mod_eq_of_lt (by omega : b1.toNat < 2 ^ 32)]
    have : b1.toNat <<< 8 % 2 ^ 32 = b1.toNat <<< 8 := by rw [Nat.shiftLeft_eq]; omega
    rw [this, or_shift _ _ 8 (by omega)]; omega
  | [b0, b1, b2], _ =>
    refine ⟨_, rfl, ?_⟩
    have h0 := b0.isLt; have h1 := b1.isLt; have h2 := b2.isLt
    simp only [trigWord]
    rw [BitVec.toNat_or, BitVec.toNat_or, BitVec.toNat_shiftLeft, BitVec.toNat_shiftLeft, BitVec.toNat_setWidth,
      BitVec.toNat_setWidth, BitVec.toNat_setWidth,
      Nat.mod_eq_of_lt (by omega : b0.toNat < 2 ^ 32), Nat.mod_eq_of_lt (by omega : b1.toNat < 2 ^ 32),
      Nat.mod_eq_of_lt (by omega : b2.toNat < 2 ^ 32)]
    have e1 : b1.toNat <<< 8 % 2 ^ 32 = b1.toNat <<< 8 := by rw [Nat.shiftLeft_eq]; omega
    have e2 : b2.toNat <<< 16 % 2 ^ 32 = b2.toNat <<< 16 := by rw [Nat.shiftLeft_eq]; omega
    rw [e1, e2, or_shift _ _ 8 (by omega), or_shift _ _ 16 (by omega)]; omega

theorem readVol_volAttrs (v : VolSpec) (wf : v.WF) :
    readVol (volAttrs A.volFlag A.volTotal A.volUplink A.volDownlink v.flags v.total v.uplink v.downlink) = expectVol v := by
  obtain ⟨hf, _, ht, hu, hd⟩ := wf
  unfold readVol expectVol volAttrs
  have hfl : rd8 [BitVec.ofNat 8 v.flags] = v.flags := rd8_u8 _ (by omega)
  cases h1 : v.flags % 2 == 1 <;> cases h2 : v.flags / 2 % 2 == 1 <;> cases h3 : v.flags / 4 % 2 == 1 <;>
  simp [leaf1, leaves_append, leaves_cons, leafOf, u8, u64, A.volFlag, A.volTotal, A.volUplink, A.volDownlink,
    hfl, rd64_le64 v.total ht, rd64_le64 v.uplink hu, rd64_le64 v.downlink hd]

theorem urr_mm (c : UrrChild) : leaves (urrChildAttrs c) A.urrMethod = ((UrrChild.mm? c).map fun v => [BitVec.ofNat 8 v]).toList := by
  cases c with
  | rt b => simp only [urrChildAttrs, UrrChild.mm?]; cases Flags.rptUnmarshal b <;> simp [leaves_cons, leafOf, u32, gtp5gnl.URR_REPORTING_TRIGGER, A.urrMethod]
  | vth f t u d => simp only [urrChildAttrs, UrrChild.mm?]; split <;> simp [leaves_cons, leafOf]
  | vqu f t u d => simp only [urrChildAttrs, UrrChild.mm?]; split <;> simp [leaves_cons, leafOf]
  | _ => simp [urrChildAttrs, UrrChild.mm?, leaves_cons, leafOf, u8, u32, u64, gtp5gnl.URR_MEASUREMENT_METHOD,
      gtp5gnl.URR_MEASUREMENT_PERIOD, gtp5gnl.URR_MEASUREMENT_INFO, A.urrMethod]

theorem urr_mi (c : UrrChild) : leaves (urrChildAttrs c) A.urrInfo = ((UrrChild.mi? c).map le64).toList := by
  cases c with
  | rt b => simp only [urrChildAttrs, UrrChild.mi?]; cases Flags.rptUnmarshal b <;> simp [leaves_cons, leafOf, u32, gtp5gnl.URR_REPORTING_TRIGGER, A.urrInfo]
  | vth f t u d => simp only [urrChildAttrs, UrrChild.mi?]; split <;> simp [leaves_cons, leafOf]
  | vqu f t u d => simp only [urrChildAttrs, UrrChild.mi?]; split <;> simp [leaves_cons, leafOf]
  | _ => simp [urrChildAttrs, UrrChild.mi?, leaves_cons, leafOf, u8, u32, u64, gtp5gnl.URR_MEASUREMENT_METHOD,
      gtp5gnl.URR_MEASUREMENT_PERIOD, gtp5gnl.URR_MEASUREMENT_INFO, A.urrInfo]

def rtWord? (c : UrrChild) : Option (BitVec 32) := (UrrChild.rt? c).bind Flags.rptUnmarshal

theorem urr_rt (c : UrrChild) : leaves (urrChildAttrs c) A.urrTrigger = ((rtWord? c).map fun w => le32 w.toNat).toList := by
  cases c with
  | rt b => simp only [urrChildAttrs, rtWord?, UrrChild.rt?, Option.bind]; cases Flags.rptUnmarshal b <;> simp [leaves_cons, leafOf, u32, gtp5gnl.URR_REPORTING_TRIGGER, A.urrTrigger]
  | vth f t u d => simp only [urrChildAttrs, rtWord?, UrrChild.rt?]; split <;> simp [leaves_cons, leafOf]
  | vqu f t u d => simp only [urrChildAttrs, rtWord?, UrrChild.rt?]; split <;> simp [leaves_cons, leafOf]
  | _ => simp [urrChildAttrs, rtWord?, UrrChild.rt?, leaves_cons, leafOf, u8, u32, u64, gtp5gnl.URR_MEASUREMENT_METHOD,
      gtp5gnl.URR_MEASUREMENT_PERIOD, gtp5gnl.URR_MEASUREMENT_INFO, A.urrTrigger]

theorem urr_noOid (c : UrrChild) (t : Nat) (ht : t = A.link ∨ t = A.urrId ∨ t = A.urrSeid) : leaves (urrChildAttrs c) t = [] := by
  cases c with
  | rt b => simp only [urrChildAttrs]; rcases ht with rfl | rfl | rfl <;> cases Flags.rptUnmarshal b <;>
      simp [leaves_cons, leafOf, u32, gtp5gnl.URR_REPORTING_TRIGGER, A.link, A.urrId, A.urrSeid]
  | vth f t u d => simp only [urrChildAttrs]; split <;> simp [leaves_cons, leafOf]
  | vqu f t u d => simp only [urrChildAttrs]; split <;> simp [leaves_cons, leafOf]
  | _ => rcases ht with rfl | rfl | rfl <;> simp [urrChildAttrs, leaves_cons, leafOf, u8, u32, u64, gtp5gnl.URR_MEASUREMENT_METHOD,
      gtp5gnl.URR_MEASUREMENT_PERIOD, gtp5gnl.URR_MEASUREMENT_INFO, A.link, A.urrId, A.urrSeid]

def volNE? (sel : UrrChild → Option VolSpec) (c : UrrChild) : Option VolSpec :=
  (sel c).bind fun v => if v.flags % 8 == 0 then none else some v

theorem urr_vth (c : UrrChild) : nests (urrChildAttrs c) A.urrVolThreshold =
    ((volNE? UrrChild.vth? c).map fun v => volAttrs A.volFlag A.volTotal A.volUplink A.volDownlink v.flags v.total v.uplink v.downlink).toList := by
  cases c with
  | rt b => simp only [urrChildAttrs, volNE?, UrrChild.vth?]; cases Flags.rptUnmarshal b <;> simp [nests_cons, nestOf, u32]
  | vth f t u d =>
    simp only [urrChildAttrs, volNE?, UrrChild.vth?, Option.bind]
    split <;> simp [nests_cons, nestOf, gtp5gnl.URR_VOLUME_THRESHOLD, A.urrVolThreshold, gtp5gnl.URR_VOLUME_THRESHOLD_FLAG,
      gtp5gnl.URR_VOLUME_THRESHOLD_TOVOL, gtp5gnl.URR_VOLUME_THRESHOLD_UVOL, gtp5gnl.URR_VOLUME_THRESHOLD_DVOL,
      A.volFlag, A.volTotal, A.volUplink, A.volDownlink, *]
  | vqu f t u d => simp only [urrChildAttrs, volNE?, UrrChild.vth?]; split <;> simp [nests_cons, nestOf, gtp5gnl.URR_VOLUME_QUOTA, A.urrVolThreshold]
  | _ => simp [urrChildAttrs, volNE?, UrrChild.vth?, nests_cons, nestOf, u8, u32, u64]

theorem urr_vqu (c : UrrChild) : nests (urrChildAttrs c) A.urrVolQuota =
    ((volNE? UrrChild.vqu? c).map fun v => volAttrs A.volFlag A.volTotal A.volUplink A.volDownlink v.flags v.total v.uplink v.downlink).toList := by
  cases c with
  | rt b => simp only [urrChildAttrs, volNE?, UrrChild.vqu?]; cases Flags.rptUnmarshal b <;> simp [nests_cons, nestOf, u32]
  | vqu f t u d =>
    simp only [urrChildAttrs, volNE?, UrrChild.vqu?, Option.bind]
    split <;> simp [nests_cons, nestOf, gtp5gnl.URR_VOLUME_QUOTA, A.urrVolQuota, gtp5gnl.URR_VOLUME_QUOTA_FLAG,
      gtp5gnl.URR_VOLUME_QUOTA_TOVOL, gtp5gnl.URR_VOLUME_QUOTA_UVOL, gtp5gnl.URR_VOLUME_QUOTA_DVOL,
      A.volFlag, A.volTotal, A.volUplink, A.volDownlink, *]
  | vth f t u d => simp only [urrChildAttrs, volNE?, UrrChild.vqu?]; split <;> simp [nests_cons, nestOf, gtp5gnl.URR_VOLUME_THRESHOLD, A.urrVolQuota]
  | _ => simp [urrChildAttrs, volNE?, UrrChild.vqu?, nests_cons, nestOf, u8, u32, u64]

theorem volNE_wf (o : Option VolSpec) (w : ∀ v, o = some v → v.WF) :
    o.toList.filterMap (fun v => if v.flags % 8 == 0 then none else some v) = o.toList := by
  cases o with
  | none => rfl
  | some v =>
    obtain ⟨h8, h0, _⟩ := w v rfl
    have : ¬ (v.flags % 8 = 0) := by omega
    simp [this]

theorem readUrr_attrs (link seid fl : Nat) (cs : List UrrChild) (p : UrrSpec) (h : ArrangesUrr cs p) (wf : p.WF)
    (hl : link < 2 ^ 32) (hs : seid < 2 ^ 64) :
    readUrr (urrReq link seid fl cs).attrs = expectUrr link seid p := by
  obtain ⟨wid, wmm, wrt, wmi, wth, wqu⟩ := wf
  have hid : urrId cs 0 = p.id := by rw [urrId_last, h.id]; rfl
  unfold readUrr expectUrr urrReq
  simp only [leaf1, nest1, leaves_append, nests_append, oidAttrs, hid]
  congr 1
  · simp [leaves_cons, leafOf, u32, u64, gtp5gnl.LINK, gtp5gnl.URR_ID, gtp5gnl.URR_SEID, A.link, rd32_le32 link hl]
  · simp [leaves_cons, leafOf, u32, u64, gtp5gnl.LINK, gtp5gnl.URR_ID, gtp5gnl.URR_SEID, A.urrSeid, rd64_le64 seid hs]
  · simp [leaves_cons, leafOf, u32, u64, gtp5gnl.LINK, gtp5gnl.URR_ID, gtp5gnl.URR_SEID, A.urrId, rd32_le32 p.id wid]
  · rw [leaves_of _ _ _ _ urr_mm, h.mm]
    simp [leaves_cons, leafOf, u32, u64, gtp5gnl.LINK, gtp5gnl.URR_ID, gtp5gnl.URR_SEID, A.urrMethod]
    cases hq : p.method with
    | none => rfl
    | some v => simp [rd8_u8 v (wmm v hq)]
  · rw [leaves_of _ _ _ _ urr_rt]
    simp only [leaves_cons, leafOf, u32, u64, gtp5gnl.LINK, gtp5gnl.URR_ID, gtp5gnl.URR_SEID, A.urrTrigger]
    unfold rtWord?
    rw [← List.filterMap_filterMap, h.rt]
    cases hq : p.triggers with
    | none => rfl
    | some b =>
      obtain ⟨w, hw, hwv⟩ := rptUnmarshal_word b (wrt b hq)
      have hlt : w.toNat < 2 ^ 32 := w.isLt
      rw [hwv] at hlt
      simp [hw, hwv, rd32_le32 _ hlt]
  · rw [leaves_of _ _ _ _ urr_mi, h.mi]
    simp [leaves_cons, leafOf, u32, u64, gtp5gnl.LINK, gtp5gnl.URR_ID, gtp5gnl.URR_SEID, A.urrInfo]
    cases hq : p.info with
    | none => rfl
    | some v => simp [rd64_le64 v (by have := wmi v hq; omega)]
  · rw [nests_of _ _ _ _ urr_vth]
    simp only [nests_cons, nestOf, u32, u64, Option.toList, List.nil_append]
    unfold volNE?
    rw [← List.filterMap_filterMap, h.vth, volNE_wf _ wth]
    cases hq : p.threshold with
    | none => rfl
    | some v => simp [readVol_volAttrs v (wth v hq)]
  · rw [nests_of _ _ _ _ urr_vqu]
    simp only [nests_cons, nestOf, u32, u64, Option.toList, List.nil_append]
    unfold volNE?
    rw [← List.filterMap_filterMap, h.vqu, volNE_wf _ wqu]
    cases hq : p.quota with
    | none => rfl
    | some v => simp [readVol_volAttrs v (wqu v hq)]

theorem urrTrig_last (cs : List UrrChild) (cur : BitVec 32) :
    urrTrig cs cur = ((cs.filterMap rtWord?).getLast?).getD cur :=
  lastId rtWord? urrTrig (fun _ => rfl) (fun c cs cur => by
    cases c <;> simp [urrTrig, rtWord?, UrrChild.rt?]) cs cur

theorem test_one (w : BitVec 32) : Flags.test w 1 = (w.toNat % 2 == 1) := by
  unfold Flags.test
  have : (w &&& BitVec.ofNat 32 1).toNat = w.toNat % 2 := by
    rw [BitVec.toNat_and]; simp [Nat.and_one_is_mod]
  by_cases h : w.toNat % 2 = 1
  · have hne : (w &&& BitVec.ofNat 32 1) ≠ 0#32 := by
      intro h0; rw [h0] at this; simp at this; omega
    simp [h, hne]
  · have h0 : (w &&& BitVec.ofNat 32 1) = 0#32 := by
      apply BitVec.eq_of_toNat_eq; rw [this]; simp; omega
    simp [h0]; omega

theorem urrLoopErr_false (create : Bool) : ∀ cs : List UrrChild,
    (∀ b ∈ cs.filterMap UrrChild.rt?, (Flags.rptUnmarshal b).isNone = false) →
    (∀ s ∈ cs.filterMap UrrChild.mp?, create = true → s ≠ 0) → urrLoopErr create cs = false
  | [], _, _ => rfl
  | c :: cs, hb, hs => by
    have ih := urrLoopErr_false create cs
    cases c with
    | rt b =>
      simp only [urrLoopErr, hb b (by simp [UrrChild.rt?]), Bool.false_or]
      exact ih (fun x hx => hb x (by simp [UrrChild.rt?, hx])) (fun x hx => hs x (by simpa [UrrChild.mp?] using hx))
    | mp s =>
      have : (create && s == 0) = false := by
        cases create with
        | false => rfl
        | true => have := hs s (by simp [UrrChild.mp?]) rfl; simp [this]
      simp only [urrLoopErr, this, Bool.false_or]
      exact ih (fun x hx => hb x (by simpa [UrrChild.rt?] using hx)) (fun x hx => hs x (by simp [UrrChild.mp?, hx]))
    | _ =>
      simp only [urrLoopErr]
      exact ih (fun x hx => hb x (by simpa [UrrChild.rt?] using hx)) (fun x hx => hs x (by simpa [UrrChild.mp?] using hx))

theorem urr_noErr (create : Bool) (cs : List UrrChild) (p : UrrSpec) (h : ArrangesUrr cs p) (wf : p.WF)
    (hper : ∀ s, p.period = some s → 0 < s) : urrLoopErr create cs = false := by
  obtain ⟨_, _, wrt, _⟩ := wf
  apply urrLoopErr_false
  · rw [h.rt]; intro b hb
    cases hq : p.triggers with
    | none => simp [hq] at hb
    | some b' =>
      simp [hq] at hb; subst hb
      obtain ⟨w, hw, _⟩ := rptUnmarshal_word b (wrt b hq)
      simp [hw]
  · rw [h.mp]; intro s hs _
    cases hq : p.period with
    | none => simp [hq] at hs
    | some s' => simp [hq] at hs; subst hs; have := hper s hq; omega

theorem isPerio_spec (cs : List UrrChild) (p : UrrSpec) (h : ArrangesUrr cs p) (wf : p.WF) :
    isPerio cs = p.periodic := by
  obtain ⟨_, _, wrt, _⟩ := wf
  unfold isPerio
  have e : report.RPT_TRIG_PERIO = 1 := rfl
  rw [e, test_one, urrTrig_last]
  unfold rtWord?
  rw [← List.filterMap_filterMap, h.rt]
  unfold UrrSpec.periodic
  cases hq : p.triggers with
  | none => rfl
  | some b =>
    obtain ⟨w, hw, hwv⟩ := rptUnmarshal_word b (wrt b hq)
    simp only [Option.toList, List.filterMap_cons, hw, List.filterMap_nil, List.getLast?_singleton, Option.getD_some, hwv]
    match b, wrt b hq with
    | [b0, b1], _ => simp only [trigWord]; congr 1; omega
    | [b0, b1, b2], _ => simp only [trigWord]; congr 1; omega

/-- **Create URR**: accepted, the kernel holds exactly the IE's content, and the URR is registered for periodic querying
    with its measurement period **iff** its triggers include PERIO -/
theorem createURR_exact (link seid : Nat) (cs : List UrrChild) (p : UrrSpec) (h : ArrangesUrr cs p) (wf : p.WF)
    (hper : ∀ s, p.period = some s → 0 < s) (hpp : p.periodic = true → p.period.isSome)
    (hl : link < 2 ^ 32) (hs : seid < 2 ^ 64) :
    ∃ r, createURR link seid cs = ((true, [r]), if p.periodic then some (seid, p.id, p.period.getD 0) else none) ∧
      r.cmd = Cmd.addUrr ∧ readUrr r.attrs = expectUrr link seid p := by
  refine ⟨urrReq link seid flCreate cs, ?_, rfl, readUrr_attrs link seid _ cs p h wf hl hs⟩
  have hid : urrId cs 0 = p.id := by rw [urrId_last, h.id]; rfl
  have hp : urrPeriod cs 0 = p.period.getD 0 := by rw [urrPeriod_last, h.mp]; cases p.period <;> rfl
  unfold createURR
  rw [urr_noErr true cs p h wf hper, isPerio_spec cs p h wf, hid, hp]
  cases hq : p.periodic with
  | false => simp
  | true =>
    have := hpp hq
    cases hpd : p.period with
    | none => simp [hpd] at this
    | some s => have := hper s hpd; simp; omega

/-- **Update URR**: accepted and exact for the kernel; the model (= the code) makes no change to the periodic
    registration — recorded as known finding `updUrrPerio` (DESIGN.md §8): an Update URR that switches PERIO on or off is
    not reflected in the periodic server -/
theorem updateURR_exact (link seid : Nat) (cs : List UrrChild) (p : UrrSpec) (h : ArrangesUrr cs p) (wf : p.WF)
    (hl : link < 2 ^ 32) (hs : seid < 2 ^ 64) :
    ∃ r, updateURR link seid cs = ((true, [r]), none) ∧ r.cmd = Cmd.addUrr ∧ readUrr r.attrs = expectUrr link seid p := by
  refine ⟨urrReq link seid flUpdate cs, ?_, rfl, readUrr_attrs link seid _ cs p h wf hl hs⟩
  unfold updateURR
  have : urrLoopErr false cs = false := by
    obtain ⟨_, _, wrt, _⟩ := wf
    apply urrLoopErr_false
    · rw [h.rt]; intro b hb
      cases hq : p.triggers with
      | none => simp [hq] at hb
      | some b' =>
        simp [hq] at hb; subst hb
        obtain ⟨w, hw, _⟩ := rptUnmarshal_word b (wrt b hq)
        simp [hw]
    · intro s _ hc; cases hc
  simp [this]

theorem urr_order_independent (link seid fl : Nat) (cs cs' : List UrrChild) (p : UrrSpec)
    (h : ArrangesUrr cs p) (h' : ArrangesUrr cs' p) (wf : p.WF) (hl : link < 2 ^ 32) (hs : seid < 2 ^ 64) :
    readUrr (urrReq link seid fl cs).attrs = readUrr (urrReq link seid fl cs').attrs := by
  rw [readUrr_attrs link seid fl cs p h wf hl hs, readUrr_attrs link seid fl cs' p h' wf hl hs]

theorem urr_bytes (link seid fl : Nat) (cs : List UrrChild) (p : UrrSpec) (h : ArrangesUrr cs p) (wf : p.WF)
    (hl : link < 2 ^ 32) (hs : seid < 2 ^ 64) (hsz : wfList (urrReq link seid fl cs).attrs = true) :
    (decodeTree (encList (urrReq link seid fl cs).attrs)).map readUrr = some (expectUrr link seid p) := by
  rw [decodeTree_encList _ hsz]; simp [readUrr_attrs link seid fl cs p h wf hl hs]

/-! ### BAR -/



theorem barId_last (cs : List BarChild) (cur : Nat) :
    barId cs cur = ((cs.filterMap BarChild.barid?).getLast?).getD cur :=
  lastId BarChild.barid? barId (fun _ => rfl) (fun c cs cur => by cases c <;> rfl) cs cur

theorem bar_ddnd (c : BarChild) : leaves (barChildAttrs c) A.barDelay =
    ((BarChild.ddnd? c).map fun v => [BitVec.ofNat 8 (ddndAttrVal v)]).toList := by
  cases c <;> simp [barChildAttrs, BarChild.ddnd?, leaves_cons, leafOf, u8, u16, gtp5gnl.BAR_DOWNLINK_DATA_NOTIFICATION_DELAY,
    gtp5gnl.BAR_BUFFERING_PACKETS_COUNT, A.barDelay]
theorem bar_sbpc (c : BarChild) : leaves (barChildAttrs c) A.barPktCount = ((BarChild.sbpc? c).map le16).toList := by
  cases c <;> simp [barChildAttrs, BarChild.sbpc?, leaves_cons, leafOf, u8, u16, gtp5gnl.BAR_DOWNLINK_DATA_NOTIFICATION_DELAY,
    gtp5gnl.BAR_BUFFERING_PACKETS_COUNT, A.barPktCount]
theorem bar_noOid (c : BarChild) (t : Nat) (ht : t = A.link ∨ t = A.barId ∨ t = A.barSeid) : leaves (barChildAttrs c) t = [] := by
  rcases ht with rfl | rfl | rfl <;>
  cases c <;> simp [barChildAttrs, leaves_cons, leafOf, u8, u16, gtp5gnl.BAR_DOWNLINK_DATA_NOTIFICATION_DELAY,
    gtp5gnl.BAR_BUFFERING_PACKETS_COUNT, A.link, A.barId, A.barSeid]

/-- **Create / Update BAR**: id, SEID, buffering delay (the IE's octet) and suggested packet count, exact -/
theorem bar_exact (link seid fl : Nat) (cs : List BarChild) (p : BarSpec) (h : ArrangesBar cs p) (wf : p.WF)
    (hl : link < 2 ^ 32) (hs : seid < 2 ^ 64) :
    (barReq link seid fl cs).cmd = Cmd.addBar ∧ readBar (barReq link seid fl cs).attrs = expectBar link seid p := by
  refine ⟨rfl, ?_⟩
  obtain ⟨wid, wd, wc⟩ := wf
  have hid : barId cs 0 = p.id := by rw [barId_last, h.id]; rfl
  unfold readBar expectBar barReq
  simp only [leaf1, leaves_append, oidAttrs, hid]
  congr 1
  · simp [leaves_cons, leafOf, u8, u32, u64, gtp5gnl.LINK, gtp5gnl.BAR_ID, gtp5gnl.BAR_SEID, A.link, rd32_le32 link hl]
  · simp [leaves_cons, leafOf, u8, u32, u64, gtp5gnl.LINK, gtp5gnl.BAR_ID, gtp5gnl.BAR_SEID, A.barSeid, rd64_le64 seid hs]
  · simp [leaves_cons, leafOf, u8, u32, u64, gtp5gnl.LINK, gtp5gnl.BAR_ID, gtp5gnl.BAR_SEID, A.barId, rd8_u8 p.id wid]
  · rw [leaves_of _ _ _ _ bar_ddnd, h.ddnd]
    simp [leaves_cons, leafOf, u8, u32, u64, gtp5gnl.LINK, gtp5gnl.BAR_ID, gtp5gnl.BAR_SEID, A.barDelay]
    cases hq : p.delay with
    | none => rfl
    | some v => simp [ddndAttrVal, rd8_u8 v (wd v hq)]
  · rw [leaves_of _ _ _ _ bar_sbpc, h.sbpc]
    simp [leaves_cons, leafOf, u8, u32, u64, gtp5gnl.LINK, gtp5gnl.BAR_ID, gtp5gnl.BAR_SEID, A.barPktCount]
    cases hq : p.pktCount with
    | none => rfl
    | some v => simp [rd16_le16' v (by have := wc v hq; omega)]

theorem bar_bytes (link seid fl : Nat) (cs : List BarChild) (p : BarSpec) (h : ArrangesBar cs p) (wf : p.WF)
    (hl : link < 2 ^ 32) (hs : seid < 2 ^ 64) (hsz : wfList (barReq link seid fl cs).attrs = true) :
    (decodeTree (encList (barReq link seid fl cs).attrs)).map readBar = some (expectBar link seid p) := by
  rw [decodeTree_encList _ hsz]; simp [(bar_exact link seid fl cs p h wf hl hs).2]

/-! ### the run-time predicate is an instance of the theorems -/

theorem qer_predicate (link seid fl : Nat) (cs : List QerChild) (p : QerSpec) (h : specQer cs = some p) (wf : p.WF)
    (hl : link < 2 ^ 32) (hs : seid < 2 ^ 64) :
    readQer (qerReq link seid fl cs).attrs = expectQer link seid p :=
  readQer_attrs link seid fl cs p (specQer_arranges cs p h) wf hl hs

theorem urr_predicate (link seid fl : Nat) (cs : List UrrChild) (p : UrrSpec) (h : specUrr cs = some p) (wf : p.WF)
    (hl : link < 2 ^ 32) (hs : seid < 2 ^ 64) :
    readUrr (urrReq link seid fl cs).attrs = expectUrr link seid p :=
  readUrr_attrs link seid fl cs p (specUrr_arranges cs p h) wf hl hs

theorem bar_predicate (link seid fl : Nat) (cs : List BarChild) (p : BarSpec) (h : specBar cs = some p) (wf : p.WF)
    (hl : link < 2 ^ 32) (hs : seid < 2 ^ 64) :
    readBar (barReq link seid fl cs).attrs = expectBar link seid p :=
  (bar_exact link seid fl cs p (specBar_arranges cs p h) wf hl hs).2

/-! ### the registration of a periodic URR stays what its Create URR made it

`Gtp5g.CreateURR` registers the URR with the periodic server (ADD event) before it hands the rule to the kernel.  When the
same Create URR arrives again while the rule is live, the kernel refuses it (EEXIST) and the ADD has been posted a second
time: the groups — and with them what every later tick queries — are exactly what the first Create URR left.  (The
differential `again=` step of the drv stream checks that the real driver does nothing else on that path.) -/

theorem addG_idem (gs : List Perio.Group) (s u p : Nat) :
    Perio.addG (Perio.addG gs s u p) s u p = Perio.addG gs s u p := by
  induction gs with
  | nil => simp [Perio.addG]
  | cons g gs ih =>
    by_cases hp : g.period = p
    · by_cases hm : (s, u) ∈ g.mem
      · simp [Perio.addG, hp, hm]
      · simp [Perio.addG, hp, hm]
    · simp [Perio.addG, hp, ih]

/-- a second, refused Create URR of a live periodic URR: the periodic server's state, and the query of every period, are
    unchanged -/
theorem create_again_keeps_registration (st : Perio.St) (s u p : Nat) :
    Perio.step (Perio.step st (.add s u p)) (.add s u p) = Perio.step st (.add s u p) ∧
    ∀ q, Perio.query (Perio.step (Perio.step st (.add s u p)) (.add s u p)) q = Perio.query (Perio.step st (.add s u p)) q := by
  have h : Perio.step (Perio.step st (.add s u p)) (.add s u p) = Perio.step st (.add s u p) := by
    by_cases hc : st.closed
    · simp [Perio.step, hc]
    · simp [Perio.step, hc, addG_idem]
  exact ⟨h, fun q => by rw [h]⟩

/-! ### the session layer above the driver hands every Update on

`Sess.UpdateQER / UpdateFAR / UpdateBAR` (model `Sess.updateSimple`): when the session has the rule, the IE is handed to the
data plane — one call, under the session's SEID, with the rule id — and nothing the session remembers of earlier updates
enters: the outcome is a function of the session's rule ids and the IE alone, so the same Update twice gives two calls, and
an Update after remove / re-create of the id gives a call again. -/

theorem update_reaches_data_plane (s : Core.Sess) (k : Core.Kind) (id : Nat) (c : Core.Ctx) (h : id ∈ s.ids k) :
    ∃ a, (s.updateSimple k { id := some id } c).2.outs =
      c.outs ++ [Core.Out.dp { seid := s.localID, op := .update, kind := k, id := id } a] ∧
    (s.updateSimple k { id := some id } c).1 = s := by
  unfold Core.Sess.updateSimple
  simp only [h, if_true]
  unfold Core.Ctx.call
  cases c.pending with
  | nil => exact ⟨_, rfl, by first | rfl | trivial⟩
  | cons p rest => exact ⟨_, rfl, by first | rfl | trivial⟩

/-- the same Update IE twice in a row: two data-plane calls (no suppression of "redundant" updates) -/
theorem update_twice_two_calls (s : Core.Sess) (k : Core.Kind) (id : Nat) (c : Core.Ctx) (h : id ∈ s.ids k) :
    ∃ a b, ((s.updateSimple k { id := some id } c).1.updateSimple k { id := some id } (s.updateSimple k { id := some id } c).2).2.outs =
      c.outs ++ [Core.Out.dp { seid := s.localID, op := .update, kind := k, id := id } a,
                 Core.Out.dp { seid := s.localID, op := .update, kind := k, id := id } b] := by
  obtain ⟨a, h1, hs⟩ := update_reaches_data_plane s k id c h
  rw [hs]
  obtain ⟨b, h2, _⟩ := update_reaches_data_plane s k id (s.updateSimple k { id := some id } c).2 h
  exact ⟨a, b, by rw [h2, h1, List.append_assoc]; rfl⟩

end UpfVerif.C03

/-! ### non-vacuity -/
namespace UpfVerif.C03.Ex
open UpfVerif.Netlink UpfVerif.Gtp5gRead UpfVerif.Rules UpfVerif.Xlate UpfVerif.XlateL UpfVerif.C03 UpfVerif.Arrange

/-- a QER whose uplink and downlink rates differ and exceed 2^32, children in an unusual order -/
def exQer : QerSpec := { id := 4294967295, corrId := none, gate := some 5, mbr := some (1099511627775, 4294967296), gbr := none,
                         qfi := some 63, rqi := none, ppi := some 7 }
def exQerChildren : List QerChild := [.ppi 7, .mbr 1099511627775 4294967296, .qfi 63, .qerid 4294967295, .gate 5]
theorem exQerArr : ArrangesQer exQerChildren exQer ∧ exQer.WF := by
  refine ⟨⟨rfl, rfl, rfl, rfl, rfl, rfl, rfl, rfl⟩, by decide, ?_, ?_, ?_, ?_, ?_, ?_, ?_⟩ <;>
    intro v h <;> simp [exQer] at h <;> subst h <;> decide
example : (readQer (qerReq 7 1 flCreate exQerChildren).attrs).mbr = some { ul := some 1099511627775, dl := some 4294967296 } := by
  rw [(qer_exact 7 1 flCreate exQerChildren exQer exQerArr.1 exQerArr.2 (by decide) (by decide)).2]; rfl

/-- a periodic URR (PERIO = bit 1 of octet 5) with period 10 s and a threshold naming total and downlink volume -/
def exUrr : UrrSpec := { id := 3, method := some 2, triggers := some [0x03#8, 0x00#8, 0x01#8], period := some 10, info := none,
                         threshold := some ⟨5, 1000, 0, 18446744073709551615⟩, quota := none }
def exUrrChildren : List UrrChild := [.vth 5 1000 0 18446744073709551615, .mp 10, .rt [0x03#8, 0x00#8, 0x01#8], .urrid 3, .mm 2]
theorem exUrrArr : ArrangesUrr exUrrChildren exUrr ∧ exUrr.WF := by
  refine ⟨⟨rfl, rfl, rfl, rfl, rfl, rfl, rfl⟩, by decide, ?_, ?_, ?_, ?_, ?_⟩
  · intro v h; cases h; decide
  · intro v h; cases h; decide
  · intro v h; cases h
  · intro v h; cases h; exact ⟨by decide, by decide, by decide, by decide, by decide⟩
  · intro v h; cases h
example : ∃ r, createURR 7 9 exUrrChildren = ((true, [r]), some (9, 3, 10)) ∧ (readUrr r.attrs).trigger = some 65539 := by
  obtain ⟨r, h1, _, h3⟩ := createURR_exact 7 9 exUrrChildren exUrr exUrrArr.1 exUrrArr.2
    (by intro s h; cases h; decide) (by intro _; rfl) (by decide) (by decide)
  exact ⟨r, h1, by rw [h3]; rfl⟩

def exBar : BarSpec := { id := 255, delay := some 121, pktCount := some 200 }
def exBarChildren : List BarChild := [.sbpc 200, .ddnd 121, .barid 255]
theorem exBarArr : ArrangesBar exBarChildren exBar ∧ exBar.WF := by
  refine ⟨⟨rfl, rfl, rfl⟩, by decide, ?_, ?_⟩ <;> intro v h <;> cases h <;> decide
example : (readBar (barReq 7 1 flCreate exBarChildren).attrs).delay = some 121 := by
  rw [(bar_exact 7 1 flCreate exBarChildren exBar exBarArr.1 exBarArr.2 (by decide) (by decide)).2]; rfl

/-- the defect repaired by `fix: hand the BAR notification delay …`: the low byte of the nanoseconds is not the delay -/
example : rd8 [BitVec.ofNat 8 (121 * 50000000)] = 128 := by decide

end UpfVerif.C03.Ex
