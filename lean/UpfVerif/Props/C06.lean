/-
C06 — retransmitted requests are executed at most once and re-answered identically.

Over M-Core's loop body (`Core.step`, pfcp.go:132-152, 285-298; transaction.go:122-193):
a request whose (source address, sequence number) has a receive transaction is never dispatched: the state is
unchanged, no driver call is made, and the output is exactly the cached response (or nothing if none was
produced); requests that differ in address or sequence number have different keys and never hit each other's
entry; expiry of the retention timer releases the entry; the retention window is T × (N + 1) for every
configurable N (0..255).
-/
import UpfVerif.Model.Core
import UpfVerif.Lemmas.Core
import UpfVerif.Lemmas.CoreHandlers

namespace UpfVerif.C06
open UpfVerif.Core

/-- duplicate within the window: nothing is executed, the cached response is replayed byte-identically
    (the cached `Msg` is the marshalled buffer `rx.msgBuf`), or nothing is sent if none was produced -/
theorem dup_replayed (st : State) (addr : String) (seq : BitVec 24) (r : Req) (env : Env) (rx : Rx)
    (h : alGet st.rx (addr, seq) = some rx) :
    step st (.request addr seq r) env =
      (st, match rx.rsp with
           | some m => [Out.send addr m]
           | none => []) := by
  unfold step
  simp only [h]
  cases rx.rsp <;> simp [Ctx.emit]

/-- in particular a duplicate makes no driver call, whatever the request says and whatever the environment would answer -/
theorem dup_no_dp (st : State) (addr : String) (seq : BitVec 24) (r : Req) (env : Env) (rx : Rx)
    (h : alGet st.rx (addr, seq) = some rx) :
    ∀ o ∈ (step st (.request addr seq r) env).2, ∀ c a, o ≠ Out.dp c a := by
  rw [dup_replayed st addr seq r env rx h]
  intro o ho c a
  cases hr : rx.rsp with
  | none => simp [hr] at ho
  | some m => simp [hr] at ho; subst ho; simp

/-- **any number of duplicates**: however many copies of the request arrive inside the window — one, the retry count, or
    many more — none is executed, each is answered with the same cached response, and the transaction is still there for
    the next one (the requests may even differ in content: same source address and sequence number is what counts) -/
theorem dups_replayed (addr : String) (seq : BitVec 24) (rx : Rx) (dups : List (Req × Env)) :
    ∀ (st : State), alGet st.rx (addr, seq) = some rx →
      (dups.foldl (fun (acc : State × List (List Out)) d =>
          ((step acc.1 (.request addr seq d.1) d.2).1, acc.2 ++ [(step acc.1 (.request addr seq d.1) d.2).2])) (st, [])) =
        (st, dups.map fun _ => match rx.rsp with
                               | some m => [Out.send addr m]
                               | none => []) := by
  intro st h
  suffices hgen : ∀ (outs : List (List Out)),
      (dups.foldl (fun (acc : State × List (List Out)) d =>
          ((step acc.1 (.request addr seq d.1) d.2).1, acc.2 ++ [(step acc.1 (.request addr seq d.1) d.2).2])) (st, outs)) =
        (st, outs ++ dups.map fun _ => match rx.rsp with
                               | some m => [Out.send addr m]
                               | none => []) by
    simpa using hgen []
  induction dups with
  | nil => intro outs; simp
  | cons d ds ih =>
    intro outs
    simp only [List.foldl_cons, List.map_cons]
    rw [dup_replayed st addr seq d.1 d.2 rx h]
    simp only []
    rw [ih]
    simp [List.append_assoc]

/-- different source address or different sequence number ⇒ different key: creating / answering / releasing the
    transaction of one request never changes what another key resolves to -/
theorem no_confusion_set (rxs : List ((String × BitVec 24) × Rx)) (k k' : String × BitVec 24) (v : Rx) (h : k' ≠ k) :
    alGet (alSet rxs k v) k' = alGet rxs k' := alGet_alSet_other rxs k k' v h

theorem no_confusion_del (rxs : List ((String × BitVec 24) × Rx)) (k k' : String × BitVec 24) (h : k' ≠ k) :
    alGet (alDel rxs k) k' = alGet rxs k' := alGet_alDel_other rxs k k' h

theorem key_ne_of_addr (a a' : String) (s s' : BitVec 24) (h : a ≠ a') : (a, s) ≠ (a', s') := by
  intro hc; exact h (Prod.mk.inj hc).1
theorem key_ne_of_seq (a a' : String) (s s' : BitVec 24) (h : s ≠ s') : (a, s) ≠ (a', s') := by
  intro hc; exact h (Prod.mk.inj hc).2

/-- once the window has elapsed the bookkeeping is released, and nothing else changes -/
theorem released (st : State) (addr : String) (seq : BitVec 24) (env : Env) :
    let r := step st (.rxTimeout addr seq) env
    alGet r.1.rx (addr, seq) = none ∧ r.2 = [] ∧ r.1.lnode = st.lnode ∧ r.1.tx = st.tx ∧ r.1.rnodes = st.rnodes := by
  simp [step]

/-- after release, the next copy is a first copy again (it is dispatched): the at-most-once guarantee is
    exactly "between two expiries of the key" -/
theorem after_release_first_copy (st : State) (addr : String) (seq : BitVec 24) (env : Env) :
    alGet (step st (.rxTimeout addr seq) env).1.rx (addr, seq) = none := (released st addr seq env).1

/-- the retained response survives everything that is not its own expiry: in particular the expiry of a TRANSMIT
    transaction that happens to carry the same "<address>-<sequence number>" (the UPF numbers its own requests 0, 1, 2, …
    towards the same address) -/
theorem retained_survives_tx_timeout (st : State) (addr : String) (seq : BitVec 24) (env : Env) (rx : Rx)
    (h : alGet st.rx (addr, seq) = some rx) (addr' : String) (seq' : BitVec 24) :
    alGet (step st (.txTimeout addr' seq') env).1.rx (addr, seq) = some rx := by
  have : (step st (.txTimeout addr' seq') env).1.rx = st.rx := by
    simp only [step]
    split
    · rfl
    · split <;> rfl
  rw [this]; exact h

/-- does the event concern the receive transaction `k` itself — a copy of the request, or its retention expiry? -/
def Event.concerns (k : String × BitVec 24) : Event → Prop
  | .request a q _ => (a, q) = k
  | .rxTimeout a q => (a, q) = k
  | _ => False

/-- **the retained response survives every event that is not its own**: requests from other peers or with other sequence
    numbers (whatever they do — establish, modify, delete, re-associate), their duplicates, responses of any kind, expiries of
    any other timer, reports — none touches the entry of `k` -/
theorem retained_untouched (st : State) (k : String × BitVec 24) (e : Event) (env : Env) (hk : ¬ Event.concerns k e) :
    alGet (step st e env).1.rx k = alGet st.rx k := by
  cases e with
  | ignored => simp [step]
  | rxTimeout addr seq =>
    have hne : k ≠ (addr, seq) := fun hc => hk (by simp [Event.concerns, hc])
    simp only [step]
    exact alGet_alDel_other _ _ _ hne
  | request addr seq r =>
    have hne : k ≠ (addr, seq) := fun hc => hk (by simp [Event.concerns, hc])
    unfold step
    simp only
    split
    · split <;> rfl
    · have hstep := handleReq_rx { st with rx := alSet st.rx (addr, seq) {} } addr seq r env { pending := env.pending }
      rcases hstep with e | ⟨m', _, e⟩
      · simp only at e; rw [e]; exact alGet_alSet_other _ _ _ _ hne
      · simp only at e; rw [e, alGet_alSet_other _ _ _ _ hne]; exact alGet_alSet_other _ _ _ _ hne
  | srResponse addr seq seid =>
    unfold step
    simp only
    split
    · rfl
    · rename_i tx _
      split
      · split
        · rfl
        · rename_i s _
          have hd := deleteSess_same { st with tx := alDel st.tx (addr, seq) } s.rnode s.localID env { pending := env.pending }
          generalize State.deleteSess { st with tx := alDel st.tx (addr, seq) } s.rnode s.localID env { pending := env.pending } = R at hd
          obtain ⟨st2, c2, s2, rs2⟩ := R
          simp only
          rw [hd.1]
      · rfl
  | otherResponse addr seq =>
    unfold step
    simp only
    split <;> rfl
  | txTimeout addr seq =>
    unfold step
    simp only
    split
    · rfl
    · split <;> rfl
  | report x items =>
    have : (step st (.report x items) env).1.rx = st.rx := by
      simp only [step]
      exact serveReport_rx st x items _
    rw [this]

/-- … hence after ANY history of such events the entry is what it was, and a copy of the request arriving then is answered
    with the very response the first copy got, without being executed again -/
theorem dup_after_any_history (h : List (Event × Env)) (st : State) (k : String × BitVec 24)
    (hk : ∀ p ∈ h, ¬ Event.concerns k p.1) :
    alGet (h.foldl (fun st (p : Event × Env) => (step st p.1 p.2).1) st).rx k = alGet st.rx k := by
  induction h generalizing st with
  | nil => rfl
  | cons p h ih =>
    simp only [List.foldl_cons]
    rw [ih _ (fun q hq => hk q (by simp [hq])), retained_untouched st k p.1 p.2 (hk p (by simp))]

/-! ### retention window arithmetic (transaction.go:122-138) -/

/-- `RetransTimeout * (time.Duration(MaxRetrans) + 1)`: `MaxRetrans` is a `uint8`, widened before the addition -/
def retention (t : Int) (n : BitVec 8) : Int := t * ((n.toNat : Int) + 1)

theorem retention_exact (t : Int) (n : BitVec 8) : retention t n = t * (n.toNat + 1) := rfl

/-- the window is never shorter than one timeout, for every accepted configuration value -/
theorem retention_pos (t : Int) (n : BitVec 8) (ht : 0 < t) : t ≤ retention t n := by
  unfold retention
  have h : (1 : Int) ≤ (n.toNat : Int) + 1 := by omega
  calc t = t * 1 := by simp
    _ ≤ t * ((n.toNat : Int) + 1) := Int.mul_le_mul_of_nonneg_left h (Int.le_of_lt ht)

/-- the computation before the `fix:` commit added in `uint8`: for the accepted value 255 the factor was 0 -/
def retentionOld (t : Int) (n : BitVec 8) : Int := t * ((n + 1).toNat : Int)
example : retentionOld 3000 255#8 = 0 := by decide
example : retention 3000 255#8 = 768000 := by decide

/-! ### non-vacuity: a concrete duplicate -/
example :
    let st0 : State := {}
    let (st1, o1) := step st0 (.request "p1" 7 .heartbeat) {}
    let (st2, o2) := step st1 (.request "p1" 7 .heartbeat) {}
    let (_, o3) := step st2 (.request "p2" 7 .heartbeat) {}
    o1 = o2 ∧ o1.length = 1 ∧ st2.rx.length = 1 ∧ o3.length = 1 ∧ o3 ≠ o1 := by decide

end UpfVerif.C06
