/-
C14 — re-injected packets are well-formed GTPv1-U G-PDUs carrying the full QFI.

Statement (all TEIDs, all payloads whose length fits the 16-bit length field, every QFI
0..63 and PDU type 0..15, with and without the PDU Session Container):
the bytes produced by the model of `Message.Encode` for the header form the UPF emits
(flags 0x34, type 255) are accepted by the independent TS 29.281 / TS 38.415 reference
decoder and decode to version 1, PT = 1, type 255, length = bytes after the mandatory 8,
the given TEID, the payload unchanged, and — when a QoS flow applies — exactly one
extension header of type 0x85, one 4-octet unit, with the given PDU type and the full
6-bit QFI, terminated by next-extension type 0.
-/
import UpfVerif.Model.Gtpu
import UpfVerif.Spec.GtpuRef
import UpfVerif.Lemmas.Gtpu

namespace UpfVerif.C14
open UpfVerif.Gtpu UpfVerif.GtpuRef UpfVerif.GtpuLemmas

/-- header form of `WritePacket` with an arbitrary container (PDU type is 0 in the code). -/
def mkMsg (teid : BitVec 32) (ext : Option PSC) (pl : Bytes) : Msg :=
  { flags := 0x34#8, type := 255#8, teid := teid, seq := 0, npdu := 0,
    exts := ext.toList, payload := pl }

theorem writePacketMsg_eq (teid : BitVec 32) (q : Option Byte) (pl : Bytes) :
    writePacketMsg teid q pl = mkMsg teid (q.map fun q => { pduType := 0#8, qfi := q }) pl := by
  cases q <;> rfl

/-! ### the property -/

/-- Without a QoS flow: no extension header, next-extension type 0, payload intact. -/
theorem gpdu_plain (teid : BitVec 32) (pl : Bytes) (hl : pl.length + 4 ≤ 65535) :
    wellFormedGPDU (encode (mkMsg teid none pl)) teid.toNat none pl = true := by
  have h16 := u16_be16' (12 + pl.length - 8) (by omega)
  have h32 := u32_be32 teid
  simp only [be32] at h32
  simp [wellFormedGPDU, decode, encode, mkMsg, msgLen, optLen, alignPos, hasSeq, hasNpdu, be16, be32,
    GtpuRef.exts, h16, h32]
  omega

/-- With a QoS flow: exactly one PDU Session Container with the given PDU type and the
    full six-bit QFI. -/
theorem gpdu_qfi (teid : BitVec 32) (pt q : Byte) (pl : Bytes)
    (hpt : pt < 16#8) (hq : q < 64#8) (hl : pl.length + 8 ≤ 65535) :
    wellFormedGPDU (encode (mkMsg teid (some { pduType := pt, qfi := q }) pl))
      teid.toNat (some (pt.toNat, q.toNat)) pl = true := by
  have h16 := u16_be16' (16 + pl.length - 8) (by omega)
  have h32 := u32_be32 teid
  simp only [be32] at h32
  have hpt' := pt_roundtrip' pt hpt
  have hq' := qfi_roundtrip' q hq
  have hlen : ¬ (pl.length + 1 + 1 + 1 < 3) := by omega
  simp [wellFormedGPDU, decode, encode, mkMsg, msgLen, optLen, alignPos, hasSeq, hasNpdu, be16, be32,
    GtpuRef.exts, encPSC, pduSessInfo, h16, h32, hlen]
  omega

/-- the message `WritePacket` builds is of that form (PDU type 0). -/
theorem writePacket_wellFormed (teid : BitVec 32) (q : Byte) (pl : Bytes)
    (hq : q < 64#8) (hl : pl.length + 8 ≤ 65535) :
    wellFormedGPDU (encode (writePacketMsg teid (some q) pl)) teid.toNat (some (0, q.toNat)) pl = true := by
  rw [writePacketMsg_eq]
  exact gpdu_qfi teid 0#8 q pl (by decide) hq hl

/-- the container is four octets (length field 1) and its last octet carries the six-bit QFI and nothing else: the PPP and
    RQI bits are clear whatever the QER says besides its QFI (paging policy indicator, reflective QoS) — so there is no
    PPI octet and the length never changes -/
theorem container_qfi_only (e : PSC) :
    (encPSC e).length = 4 ∧ (encPSC e)[1]? = some 1#8 ∧ ∃ b, (encPSC e)[3]? = some b ∧ b &&& 0xC0#8 = 0#8 := by
  refine ⟨rfl, rfl, e.qfi &&& 0x3f#8, rfl, ?_⟩
  generalize e.qfi = q
  revert q
  decide

/-- the encoded length is what `Len()` says (the buffer `WritePacket` allocates is filled exactly). -/
theorem encode_length (m : Msg) (h : m.flags = 0x34#8) : (encode m).length = msgLen m := by
  have hs : ∀ l : List PSC, (List.map (List.length ∘ encPSC) l).sum = 4 * l.length := by
    intro l; induction l with
    | nil => rfl
    | cons _ _ ih => simp [ih, encPSC]; omega
  simp [encode, msgLen, h, optLen, alignPos, hasSeq, hasNpdu, be16, be32, hs]
  omega

/-- the datagram `WritePacket` builds is the payload plus exactly 12 octets (no QoS flow) or 16 octets (container) — for
    EVERY payload length, whatever its remainder modulo four: nothing is rounded, nothing of the payload is cut off -/
theorem writePacket_length (teid : BitVec 32) (q : Option Byte) (pl : Bytes) :
    (encode (writePacketMsg teid q pl)).length = pl.length + (if q.isSome then 16 else 12) := by
  rw [encode_length _ (by cases q <;> rfl)]
  cases q <;> simp [writePacketMsg, msgLen, optLen, alignPos, hasSeq, hasNpdu] <;> omega

/-- non-vacuity: concrete packet, QFI 33 (needs bit 5), 2-byte payload. -/
example : wellFormedGPDU (encode (writePacketMsg 0x01020304#32 (some 33#8) [0xde#8, 0xad#8]))
    0x01020304 (some (0, 33)) [0xde#8, 0xad#8] = true := by decide

/-- what a 4-bit mask would do (the defect repaired by the `fix:` commit): QFI 16 decodes as 0. -/
example : ((16#8 &&& 0xf#8) &&& 0x3f#8).toNat ≠ (16#8).toNat := by decide

end UpfVerif.C14
