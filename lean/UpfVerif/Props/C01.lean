/-
C01 — data-plane rules never outlive, escape or pre-date their PFCP session.

Run M-Core (`Core.step`) against the reference data plane `Spec.DataPlane`.  For EVERY history of events
(Association Setup, Establishment, Modification, Deletion, report responses incl. SEID 0, reports, timer expiries,
duplicates, from any peers, with any rule ids — colliding, repeated, never created, removed twice), EVERY
map-iteration order and EVERY answer stream of the driver in which creates, updates and queries fail wherever
they like and a remove fails only when the rule is absent (`Spec.natural`):

 * `run_inv`            every rule in the data plane belongs to a live session and is recorded in that
                        session's id maps (so it was requested by a Create IE for that session and not
                        successfully removed since: ids are recorded only by the Create methods and
                        dropped only after a successful driver remove);
 * `ops_only_on_created` Update / Remove / Query reach the driver only for ids the session has recorded;
 * `close_withdraws_all` when a session is closed — by Deletion, by re-association of its node, by the
                        SEID-0 answer — no rule of it is left in the data plane, even if earlier
                        installations or updates had failed;
 * all driver calls of a session method carry that session's SEID.
-/
import UpfVerif.Lemmas.CoreInv

namespace UpfVerif.C01
open UpfVerif.Core UpfVerif.Spec

/-- the history semantics: states, and the data-plane table driven by the outputs -/
def runFrom (st : State) (dp : DP) : List (Event × Env) → State × DP
  | [] => (st, dp)
  | (e, env) :: rest => runFrom (step st e env).1 (dpRun dp (step st e env).2) rest

/-- the environment respects the fault model along the whole history -/
def naturalRun (st : State) (dp : DP) : List (Event × Env) → Prop
  | [] => True
  | (e, env) :: rest => natural dp (step st e env).2 ∧ naturalRun (step st e env).1 (dpRun dp (step st e env).2) rest

theorem run_inv_from (h : List (Event × Env)) :
    ∀ (st : State) (dp : DP) (k : Nat), C04.TableWF st.lnode → st.lnode.sess.length ≤ k → k + h.length + 1 < 2 ^ 64 →
      Inv st dp → naturalRun st dp h →
      Inv (runFrom st dp h).1 (runFrom st dp h).2 ∧ C04.TableWF (runFrom st dp h).1.lnode := by
  induction h with
  | nil => intro st dp k wf _ _ inv _; exact ⟨inv, wf⟩
  | cons p h ih =>
    intro st dp k wf hk hroom inv hn
    obtain ⟨e, env⟩ := p
    simp only [runFrom]
    simp only [naturalRun] at hn
    simp only [List.length_cons] at hroom
    have g := step_good st e env
    have hr : st.lnode.sess.length + 1 < 2 ^ 64 := by omega
    exact ih _ _ (k + 1) (g.1 wf hr) (by have := g.2.1; omega) (by omega) (g.2.2 dp wf hr inv hn.1) hn.2

/-- **Every reachable state, for every history**: each rule in the data plane belongs to a live session that has
    it recorded.  (Start: empty UPF, empty data plane; `h.length + 1 < 2^64` is "fewer than 2^64 events".) -/
theorem run_inv (h : List (Event × Env)) (hlen : h.length + 1 < 2 ^ 64) (hn : naturalRun {} [] h) :
    let r := runFrom {} [] h
    ∀ x k i, (x, k, i) ∈ r.2 → ∃ s, r.1.lnode.lookup x = some s ∧ s.localID = x ∧ i ∈ s.ids k := by
  intro r x k i hm
  have inv0 : Inv {} [] := by intro x k i hm; cases hm
  obtain ⟨inv, wf⟩ := run_inv_from h {} [] 0 C04.wf_empty (by simp) (by omega) inv0 hn
  obtain ⟨s, hs, h1, _⟩ := inv x k i hm
  exact ⟨s, hs, C04.lookup_some_id _ wf x s hs, h1⟩

/-- **re-association withdraws the rules**: `RemoteNode.Reset` of a node, in a state whose data plane satisfies the invariant:
    afterwards no rule of any session that was in the node's set is left in the data plane — whatever the order the sessions
    are closed in, whatever had failed to install earlier (C05 `reset_sweeps`: those SEIDs resolve to nothing; the invariant:
    every rule belongs to a SEID that resolves) -/
theorem reassociation_withdraws_rules (st : State) (dp : DP) (h : Nat) (env : Env) (c : Ctx)
    (wf : C04.TableWF st.lnode) (hroom : st.lnode.sess.length + 1 < 2 ^ 64) (inv : Inv st dp) (hh : h < st.nodes.length)
    (l : List Out) (hl : (st.resetNode h env c).2.outs = c.outs ++ l) (hn : natural dp l)
    (x : Seid) (hx : x ∈ (st.nodes.getD h default).sess) : ∀ k i, (x, k, i) ∉ dpRun dp l := by
  intro k i hm
  obtain ⟨l0, e0, g, _⟩ := resetNode_good st h env c
  have hl0 : l0 = l := by
    have : c.outs ++ l0 = c.outs ++ l := by rw [← e0, hl]
    exact List.append_cancel_left this
  subst hl0
  have inv' := g.2.2 dp wf hroom inv hn
  obtain ⟨s, hs, _⟩ := inv' x k i hm
  rw [C05.reset_sweeps st wf h env c hh x hx] at hs
  cases hs

/-- closing a session withdraws every rule of it, in any removal order, whatever installations had failed -/
theorem close_withdraws_all (s : Sess) (c : Ctx) :
    ∃ l, (s.close c).2.1.outs = c.outs ++ l ∧
      (∀ o ∈ l, ∃ cc a, o = Out.dp cc a ∧ cc.seid = s.localID) ∧
      ∀ dp, SInv s dp → natural dp l → ∀ k i, (s.localID, k, i) ∉ dpRun dp l := by
  obtain ⟨_, l, e, d, _, p⟩ := close_clears s c
  refine ⟨l, e, d, ?_⟩
  intro dp hs hn k i
  exact (p dp hs hn).2 k (by cases k <;> simp) i

/-- Update / Remove / Query of the simple kinds reach the driver only for recorded ids (found-check) -/
theorem ops_only_on_created_simple (s : Sess) (k : Kind) (ie : RuleIE) (c : Ctx) (id : Nat) (hid : ie.id = some id)
    (hnot : id ∉ s.ids k) :
    (s.updateSimple k ie c).2 = c ∧ (s.removeSimple k ie c).2 = c := by
  simp [Sess.updateSimple, Sess.removeSimple, hid, hnot]

theorem ops_only_on_created_pdr (s : Sess) (ie : RuleIE) (c : Ctx) (hnot : alGet s.pdrs (ie.id.getD 0) = none) :
    (s.updatePDR ie c).2.1 = c := by
  simp [Sess.updatePDR, hnot]

theorem ops_only_on_created_pdr_remove (s : Sess) (ie : RuleIE) (c : Ctx) (id : Nat) (hid : ie.id = some id)
    (hnot : alGet s.pdrs id = none) : (s.removePDR ie c).2.1 = c := by
  simp [Sess.removePDR, hid, hnot]

theorem ops_only_on_created_urr (s : Sess) (ie : RuleIE) (c : Ctx) (id : Nat) (hid : ie.id = some id)
    (hnot : alGet s.urrs id = none) :
    (s.updateURR ie c).2.1 = c ∧ (s.removeURR ie c).2.1 = c ∧ (s.queryURR ie c).2.1 = c := by
  simp [Sess.updateURR, Sess.removeURR, Sess.queryURR, hid, hnot]

/-! ### non-vacuity: a failed create is still cleaned up when the session is deleted -/
example :
    let st0 : State := {}
    let (st1, _) := step st0 (.request "p1" 1 (.assoc (some (.v4 "p1")))) {}
    -- establishment: FAR 1 is created, the create of FAR 2 fails in the data plane
    let env2 : Env := { pending := [(default, { ok := true }), (default, { ok := false })] }
    let req : EstReq := { nodeID := some (.v4 "p1"), cpSeid := some 9#64, far := [{ id := some 1 }, { id := some 2 }] }
    let (st2, o2) := step st1 (.request "p1" 2 (.est req)) env2
    -- deletion: both are removed (the second remove fails naturally: the rule is absent)
    let env3 : Env := { pending := [(default, { ok := true }), (default, { ok := false })] }
    let (_, o3) := step st2 (.request "p1" 3 (.del 1)) env3
    dpRun [] o2 = [((1 : Seid), Kind.far, 1)] ∧ natural (dpRun [] o2) o3 ∧ dpRun (dpRun [] o2) o3 = [] := by decide

end UpfVerif.C01
