import UpfVerif.Model.FlowDesc
/- string lemmas for C16: `strings.Fields` on joined tokens, `ParseUint` on digit lists, splitting on a separator -/
namespace UpfVerif.FlowDesc

/-! ### strings.Fields -/

def allSpace (s : Str) : Prop := ∀ c ∈ s, isSpace c = true
def noSpace (s : Str) : Prop := ∀ c ∈ s, isSpace c = false

theorem fieldsAux_spaces (p rest : Str) (hp : allSpace p) : fieldsAux (p ++ rest) [] = fieldsAux rest [] := by
  induction p with
  | nil => rfl
  | cons c p ih =>
    have hc : isSpace c = true := hp c (by simp)
    simp only [List.cons_append, fieldsAux, hc, if_true, List.isEmpty_nil]
    exact ih (fun d hd => hp d (by simp [hd]))

theorem fieldsAux_token (t rest cur : Str) (ht : noSpace t) :
    fieldsAux (t ++ rest) cur = fieldsAux rest (t.reverse ++ cur) := by
  induction t generalizing cur with
  | nil => rfl
  | cons c t ih =>
    have hc : isSpace c = false := ht c (by simp)
    simp only [List.cons_append, fieldsAux, hc, Bool.false_eq_true, if_false]
    rw [ih _ (fun d hd => ht d (by simp [hd]))]
    simp

/-- tokens each followed by a run of white space (the last run may be empty) -/
def joinToks : List (Str × Str) → Str
  | [] => []
  | (t, sp) :: rest => t ++ sp ++ joinToks rest

/-- well-formed spacing: tokens non-empty and space-free, separators all-space and non-empty except after the last token -/
def WFToks : List (Str × Str) → Prop
  | [] => True
  | [(t, sp)] => t ≠ [] ∧ noSpace t ∧ allSpace sp
  | (t, sp) :: rest => t ≠ [] ∧ noSpace t ∧ allSpace sp ∧ sp ≠ [] ∧ WFToks rest

theorem fieldsAux_end (t : Str) (h : t ≠ []) : fieldsAux [] t.reverse = [t] := by
  have : t.reverse.isEmpty = false := by
    cases t with
    | nil => exact absurd rfl h
    | cons a l => simp
  simp [fieldsAux, this]

theorem fields_joinToks_aux : ∀ (toks : List (Str × Str)), WFToks toks →
    fieldsAux (joinToks toks) [] = toks.map (·.1)
  | [], _ => rfl
  | [(t, sp)], h => by
    obtain ⟨hne, hns, hsp⟩ := h
    simp only [joinToks, List.append_nil, List.map_cons, List.map_nil]
    rw [fieldsAux_token t sp [] hns, List.append_nil]
    cases sp with
    | nil => exact fieldsAux_end t hne
    | cons c sp' =>
      have hc : isSpace c = true := hsp c (by simp)
      have hemp : t.reverse.isEmpty = false := by
        cases t with
        | nil => exact absurd rfl hne
        | cons a l => simp
      simp only [fieldsAux, hc, if_true, hemp, Bool.false_eq_true, if_false, List.reverse_reverse]
      have := fieldsAux_spaces sp' [] (fun d hd => hsp d (by simp [hd]))
      simp only [List.append_nil] at this
      rw [this]
      simp [fieldsAux]
  | (t, sp) :: p2 :: rest, h => by
    obtain ⟨hne, hns, hsp, hspne, hrest⟩ := h
    simp only [joinToks, List.map_cons]
    rw [List.append_assoc, fieldsAux_token t _ [] hns, List.append_nil]
    cases sp with
    | nil => exact absurd rfl hspne
    | cons c sp' =>
      have hc : isSpace c = true := hsp c (by simp)
      have hemp : t.reverse.isEmpty = false := by
        cases t with
        | nil => exact absurd rfl hne
        | cons a l => simp
      simp only [List.cons_append, fieldsAux, hc, if_true, hemp, Bool.false_eq_true, if_false, List.reverse_reverse]
      rw [fieldsAux_spaces sp' _ (fun d hd => hsp d (by simp [hd]))]
      have ih := fields_joinToks_aux (p2 :: rest) hrest
      simp only [joinToks, List.map_cons] at ih
      rw [ih]

/-- `strings.Fields` of tokens joined by arbitrary non-empty white-space runs, with optional leading and trailing run -/
theorem fields_joinToks (lead : Str) (toks : List (Str × Str)) (hl : allSpace lead) (h : WFToks toks) :
    fields (lead ++ joinToks toks) = toks.map (·.1) := by
  unfold fields
  rw [fieldsAux_spaces lead _ hl]
  exact fields_joinToks_aux toks h

/-! ### strconv.ParseUint on digit lists -/

def digitChar (d : Fin 10) : Char := Char.ofNat (48 + d.val)

def digitsVal (ds : List (Fin 10)) : Nat := ds.foldl (fun acc d => acc * 10 + d.val) 0

def digitsStr (ds : List (Fin 10)) : Str := ds.map digitChar

theorem isDigit_digitChar : ∀ d : Fin 10, isDigit (digitChar d) = true := by decide
theorem digitVal_digitChar : ∀ d : Fin 10, digitVal (digitChar d) = d.val := by decide
theorem isSpace_digitChar : ∀ d : Fin 10, isSpace (digitChar d) = false := by decide

theorem foldl_digitsStr (ds : List (Fin 10)) (acc : Nat) :
    (digitsStr ds).foldl (fun a c => a * 10 + digitVal c) acc = ds.foldl (fun a d => a * 10 + d.val) acc := by
  induction ds generalizing acc with
  | nil => rfl
  | cons d ds ih => simp only [digitsStr, List.map_cons, List.foldl_cons, digitVal_digitChar]; exact ih _

/-- every decimal spelling, leading zeros included: accepted iff the value fits, and then with exactly that value -/
theorem parseUint_digits (ds : List (Fin 10)) (hne : ds ≠ []) (bits : Nat) :
    parseUint (digitsStr ds) bits = if digitsVal ds < 2 ^ bits then some (digitsVal ds) else none := by
  unfold parseUint
  have h1 : (digitsStr ds).isEmpty = false := by
    cases ds with
    | nil => exact absurd rfl hne
    | cons d ds => simp [digitsStr]
  have h2 : (digitsStr ds).all isDigit = true := by
    simp only [digitsStr, List.all_map, List.all_eq_true]
    intro d _; exact isDigit_digitChar d
  simp only [h1, Bool.false_eq_true, if_false, h2, if_true]
  rw [foldl_digitsStr]
  rfl

/-! ### splitting on a separator -/

def noChar (sep : Char) (s : Str) : Prop := ∀ c ∈ s, (c == sep) = false

theorem splitOn_token (sep : Char) (t rest cur : Str) (ht : noChar sep t) :
    splitOn sep (t ++ rest) cur = splitOn sep rest (t.reverse ++ cur) := by
  induction t generalizing cur with
  | nil => rfl
  | cons c t ih =>
    have hc : (c == sep) = false := ht c (by simp)
    simp only [List.cons_append, splitOn, hc, Bool.false_eq_true, if_false]
    rw [ih _ (fun d hd => ht d (by simp [hd]))]
    simp

/-- items joined by the separator -/
def joinSep (sep : Char) : List Str → Str
  | [] => []
  | [t] => t
  | t :: rest => t ++ sep :: joinSep sep rest

theorem splitOn_joinSep (sep : Char) : ∀ (items : List Str), items ≠ [] → (∀ t ∈ items, noChar sep t) →
    splitOn sep (joinSep sep items) [] = items
  | [], h, _ => absurd rfl h
  | [t], _, hn => by
    simp only [joinSep]
    have := splitOn_token sep t [] [] (hn t (by simp))
    simp only [List.append_nil] at this
    rw [this]
    simp [splitOn]
  | t :: t2 :: rest, _, hn => by
    simp only [joinSep]
    rw [splitOn_token sep t _ [] (hn t (by simp)), List.append_nil]
    simp only [splitOn, beq_self_eq_true, if_true, List.reverse_reverse]
    rw [splitOn_joinSep sep (t2 :: rest) (by simp) (fun u hu => hn u (by simp [hu]))]

theorem cutDash_nodash (t cur : Str) (ht : noChar '-' t) : cutDash t cur = (cur.reverse ++ t, none) := by
  induction t generalizing cur with
  | nil => simp [cutDash]
  | cons c t ih =>
    have hc : (c == '-') = false := ht c (by simp)
    simp only [cutDash, hc, Bool.false_eq_true, if_false]
    rw [ih _ (fun d hd => ht d (by simp [hd]))]
    simp

theorem cutDash_dash (a b cur : Str) (ha : noChar '-' a) : cutDash (a ++ '-' :: b) cur = (cur.reverse ++ a, some b) := by
  induction a generalizing cur with
  | nil => simp [cutDash]
  | cons c a ih =>
    have hc : (c == '-') = false := ha c (by simp)
    simp only [List.cons_append, cutDash, hc, Bool.false_eq_true, if_false]
    rw [ih _ (fun d hd => ha d (by simp [hd]))]
    simp

end UpfVerif.FlowDesc
