import UpfVerif.Model.Core
import UpfVerif.Lemmas.Core
import UpfVerif.Lemmas.CoreRef
/-
The UR-SEQN counter and the removed mark of a URR under the rule operations of a session (C11): nothing but the emission of
a usage report moves the counter; nothing but Create URR resets it; nothing but Remove URR sets the mark.
-/
namespace UpfVerif.Core

/-- the numbering state of a URR: (next UR-SEQN, marked removed), if the session knows it -/
def numOf (us : List (Nat × URRInfo)) (u : Nat) : Option (Nat × Bool) := (alGet us u).map fun i => (i.seqn, i.removed)

theorem numOf_alSet_self (us : List (Nat × URRInfo)) (u : Nat) (i : URRInfo) : numOf (alSet us u i) u = some (i.seqn, i.removed) := by
  simp [numOf]

theorem numOf_alSet_other (us : List (Nat × URRInfo)) (u v : Nat) (i : URRInfo) (h : v ≠ u) :
    numOf (alSet us u i) v = numOf us v := by
  simp [numOf, alGet_alSet_other _ _ _ _ h]

theorem numOf_bumpRef (us : List (Nat × URRInfo)) (u v : Nat) : numOf (bumpRef us u) v = numOf us v := by
  unfold numOf
  induction us with
  | nil => simp [bumpRef, alGet]
  | cons p us ih =>
    by_cases hp : p.1 == v
    · simp only [bumpRef, List.map_cons, alGet, hp, if_true, Option.map_some]
      split <;> rfl
    · have hp' : (p.1 == v) = false := by simpa using hp
      simp only [bumpRef, List.map_cons, alGet, hp', Bool.false_eq_true, if_false]
      exact ih

theorem numOf_foldl_bumpRef (l : List Nat) (us : List (Nat × URRInfo)) (v : Nat) :
    numOf (l.foldl bumpRef us) v = numOf us v := by
  induction l generalizing us with
  | nil => rfl
  | cons a l ih => simp only [List.foldl_cons]; rw [ih, numOf_bumpRef]

theorem diassociate_num (s : Sess) (u : Nat) (c : Ctx) (v : Nat) :
    numOf (s.diassociate u c).1.urrs v = numOf s.urrs v := by
  unfold Sess.diassociate
  cases hg : alGet s.urrs u with
  | none => rfl
  | some info =>
    simp only []
    have key : numOf (alSet s.urrs u { info with refPdrNum := info.refPdrNum - 1 }) v = numOf s.urrs v := by
      by_cases hv : v = u
      · subst hv; rw [numOf_alSet_self]; simp [numOf, hg]
      · exact numOf_alSet_other _ _ _ _ hv
    split
    · split
      · split <;> exact key
      · exact key
    · rfl

theorem diassociateAll_num (s : Sess) (us : List Nat) (c : Ctx) (v : Nat) :
    numOf (s.diassociateAll us c).1.urrs v = numOf s.urrs v := by
  let body : Nat → Sess × List Report → Ctx → (Sess × List Report) × Ctx := fun u acc c =>
      let (s2, c2, r) := acc.1.diassociate u c
      ((s2, acc.2 ++ r), c2)
  let R : List Nat → Sess × List Report → Ctx → Prop := fun _ st _ => numOf st.1.urrs v = numOf s.urrs v
  have hb : ∀ keys k st c', k ∈ keys → R keys st c' → R (keys.erase k) (body k st c').1 (body k st c').2 := by
    intro keys k st c' _ hr
    show numOf (st.1.diassociate k c').1.urrs v = numOf s.urrs v
    rw [diassociate_num]; exact hr
  exact rangeMap_inv s.localID .query .urr body R hb us.length us (s, []) c (Nat.le_refl _) rfl

/-- a rule operation that is not a Create URR or Remove URR of `u` leaves `u`'s counter and mark alone -/
def SOp.touches (u : Nat) : SOp → Bool
  | .createURR ie => ie.id == some u
  | .removeURR ie => ie.id == some u
  | _ => false

theorem apply_num (s : Sess) (c : Ctx) (op : SOp) (u : Nat) (h : op.touches u = false) :
    numOf (op.apply s c).1.urrs u = numOf s.urrs u := by
  cases op with
  | createURR ie =>
    simp only [SOp.apply, Sess.createURR]
    cases hid : ie.id with
    | none => rfl
    | some id =>
      have hne : u ≠ id := by
        intro e; subst e
        simp [SOp.touches, hid] at h
      exact numOf_alSet_other _ _ _ _ hne
  | updateURR ie =>
    simp only [SOp.apply, Sess.updateURR]
    cases hid : ie.id with
    | none => rfl
    | some id =>
      simp only []
      cases hg : alGet s.urrs id with
      | none => rfl
      | some info =>
        have hs : (info.applyUpdate ie).seqn = info.seqn ∧ (info.applyUpdate ie).removed = info.removed := by
          unfold URRInfo.applyUpdate
          cases ie.mnop <;> cases ie.meth <;> exact ⟨rfl, rfl⟩
        have key : numOf (alSet s.urrs id (info.applyUpdate ie)) u = numOf s.urrs u := by
          by_cases hv : u = id
          · subst hv; rw [numOf_alSet_self]; simp [numOf, hg, hs.1, hs.2]
          · exact numOf_alSet_other _ _ _ _ hv
        simp only []
        split <;> exact key
  | removeURR ie =>
    simp only [SOp.apply, Sess.removeURR]
    cases hid : ie.id with
    | none => rfl
    | some id =>
      simp only []
      have hne : u ≠ id := by
        intro e; subst e
        simp [SOp.touches, hid] at h
      cases hg : alGet s.urrs id with
      | none => rfl
      | some info =>
        simp only []
        split <;> exact numOf_alSet_other _ _ _ _ hne
  | queryURR ie =>
    simp only [SOp.apply, Sess.queryURR]
    cases hid : ie.id with
    | none => rfl
    | some id =>
      simp only []
      cases hg : alGet s.urrs id with
      | none => rfl
      | some info => simp only []; split <;> rfl
  | createPDR ie =>
    simp only [SOp.apply, Sess.createPDR]
    exact numOf_foldl_bumpRef _ _ _
  | updatePDR ie =>
    simp only [SOp.apply, Sess.updatePDR]
    cases hg : alGet s.pdrs (ie.id.getD 0) with
    | none => rfl
    | some old =>
      simp only []
      rcases hc : c.call { seid := s.localID, op := .update, kind := .pdr, id := ie.id.getD 0 } with ⟨c1, a⟩
      simp only []
      cases hok : a.ok with
      | false => rfl
      | true =>
        simp only [Bool.not_true, Bool.false_eq_true, if_false]
        have hd := diassociateAll_num s (old.filter (· ∉ ie.urrs.eraseDups)) c1 u
        rcases hdd : s.diassociateAll (old.filter (· ∉ ie.urrs.eraseDups)) c1 with ⟨s2, c2, rs⟩
        rw [hdd] at hd
        simp only [] at hd ⊢
        show numOf ((ie.urrs.eraseDups.filter (· ∉ old)).foldl bumpRef s2.urrs) u = numOf s.urrs u
        rw [numOf_foldl_bumpRef, hd]
  | removePDR ie =>
    simp only [SOp.apply, Sess.removePDR]
    cases hid : ie.id with
    | none => rfl
    | some pdrid =>
      simp only []
      cases hg : alGet s.pdrs pdrid with
      | none => rfl
      | some us =>
        simp only []
        rcases hc : c.call { seid := s.localID, op := .remove, kind := .pdr, id := pdrid } with ⟨c1, a⟩
        simp only []
        cases hok : a.ok with
        | false => rfl
        | true =>
          simp only [Bool.not_true, Bool.false_eq_true, if_false]
          exact diassociateAll_num ({ s with pdrs := alDel s.pdrs pdrid, q := alDel s.q pdrid } : Sess) us c1 u

end UpfVerif.Core
