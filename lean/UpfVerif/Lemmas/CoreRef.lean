import UpfVerif.Model.Core
import UpfVerif.Lemmas.Core
/-
Reference counting of URRs by PDRs (C12): `refPdrNum` of every URR the session knows equals the number of the session's
PDRs whose related-URR set names it — as an invariant of the `Sess` methods, and what the dissociation loop does to it
whatever order the map iteration takes.
-/
namespace UpfVerif.Core

/-! ### counting over association lists -/

/-- number of entries whose value satisfies `P` -/
def cnt (P : ν → Bool) (l : List (κ × ν)) : Nat := (l.filter fun p => P p.2).length

def hit (P : ν → Bool) : Option ν → Nat
  | some o => if P o then 1 else 0
  | none => 0

theorem cnt_cons (P : ν → Bool) (p : κ × ν) (l : List (κ × ν)) :
    cnt P (p :: l) = (if P p.2 then 1 else 0) + cnt P l := by
  unfold cnt
  by_cases h : P p.2 <;> simp [List.filter, h]; omega

/-- `m[k] = v` replaces what was under `k`: one entry leaves the count, one enters -/
theorem cnt_alSet [DecidableEq κ] (P : ν → Bool) (l : List (κ × ν)) (k : κ) (v : ν) :
    cnt P (alSet l k v) + hit P (alGet l k) = cnt P l + (if P v then 1 else 0) := by
  induction l with
  | nil => by_cases h : P v <;> simp [alSet, alGet, hit, cnt, List.filter, h]
  | cons p l ih =>
    by_cases hp : p.1 == k
    · simp only [alSet, hp, if_true, alGet, hit, cnt_cons]; omega
    · have hp' : (p.1 == k) = false := by simpa using hp
      simp only [alSet, hp', Bool.false_eq_true, if_false, alGet, cnt_cons]; omega

theorem alGet_none_of_not_mem [DecidableEq κ] (l : List (κ × ν)) (k : κ) (h : k ∉ l.map (·.1)) : alGet l k = none := by
  induction l with
  | nil => rfl
  | cons p l ih =>
    simp only [List.map_cons, List.mem_cons, not_or] at h
    have hp : (p.1 == k) = false := by simpa using (Ne.symm h.1)
    simp only [alGet, hp, Bool.false_eq_true, if_false]
    exact ih h.2

theorem alGet_mem [DecidableEq κ] (l : List (κ × ν)) (k : κ) (v : ν) (h : alGet l k = some v) : (k, v) ∈ l := by
  induction l with
  | nil => simp [alGet] at h
  | cons p l ih =>
    by_cases hp : p.1 == k
    · simp only [alGet, hp, if_true, Option.some.injEq] at h
      have : p = (k, v) := by
        have h1 : p.1 = k := by simpa using hp
        cases p; simp_all
      simp [this]
    · have hp' : (p.1 == k) = false := by simpa using hp
      simp only [alGet, hp', Bool.false_eq_true, if_false] at h
      exact List.mem_cons_of_mem _ (ih h)

theorem alDel_of_not_mem [DecidableEq κ] (l : List (κ × ν)) (k : κ) (h : k ∉ l.map (·.1)) : alDel l k = l := by
  unfold alDel
  rw [List.filter_eq_self]
  intro p hp
  have : p.1 ≠ k := fun e => h (e ▸ List.mem_map_of_mem (f := (·.1)) hp)
  simpa using this

/-- `delete(m, k)` on a map (keys distinct): the entry under `k` leaves the count -/
theorem cnt_alDel [DecidableEq κ] (P : ν → Bool) (l : List (κ × ν)) (k : κ) (hn : (l.map (·.1)).Nodup) :
    cnt P (alDel l k) + hit P (alGet l k) = cnt P l := by
  induction l with
  | nil => simp [alDel, alGet, hit, cnt]
  | cons p l ih =>
    simp only [List.map_cons, List.nodup_cons] at hn
    by_cases hp : p.1 = k
    · have h1 : (p.1 != k) = false := by simp [hp]
      have h2 : (p.1 == k) = true := by simp [hp]
      have e : alDel (p :: l) k = alDel l k := by simp [alDel, List.filter, h1]
      rw [e, alDel_of_not_mem l k (hp ▸ hn.1)]
      simp only [alGet, h2, if_true, hit, cnt_cons]; omega
    · have h1 : (p.1 != k) = true := by simpa using hp
      have h2 : (p.1 == k) = false := by simpa using hp
      have e : alDel (p :: l) k = p :: alDel l k := by simp [alDel, List.filter, h1]
      rw [e]
      simp only [alGet, h2, Bool.false_eq_true, if_false, cnt_cons]
      have := ih hn.2; omega

theorem keys_alSet_nodup [DecidableEq κ] (l : List (κ × ν)) (k : κ) (v : ν) (hn : (l.map (·.1)).Nodup) :
    ((alSet l k v).map (·.1)).Nodup := by
  induction l with
  | nil => simp [alSet]
  | cons p l ih =>
    simp only [List.map_cons, List.nodup_cons] at hn
    by_cases hp : p.1 = k
    · have e : alSet (p :: l) k v = (k, v) :: l := by simp [alSet, hp]
      rw [e]; simp only [List.map_cons, List.nodup_cons]; exact ⟨hp ▸ hn.1, hn.2⟩
    · have h2 : (p.1 == k) = false := by simpa using hp
      have e : alSet (p :: l) k v = p :: alSet l k v := by simp [alSet, h2]
      rw [e]; simp only [List.map_cons, List.nodup_cons]
      refine ⟨?_, ih hn.2⟩
      intro hm
      have : p.1 ∈ (alSet l k v).map (·.1) := hm
      -- keys of alSet: k or an old key
      have hk : ∀ (l : List (κ × ν)) (k' : κ), k' ∈ (alSet l k v).map (·.1) → k' = k ∨ k' ∈ l.map (·.1) := by
        intro l
        induction l with
        | nil => intro k' h; simpa [alSet] using h
        | cons q l ih2 =>
          intro k' h
          by_cases hq : q.1 = k
          · have e : alSet (q :: l) k v = (k, v) :: l := by simp [alSet, hq]
            rw [e] at h; simp only [List.map_cons, List.mem_cons] at h ⊢
            rcases h with h | h
            · exact Or.inl h
            · exact Or.inr (Or.inr h)
          · have h3 : (q.1 == k) = false := by simpa using hq
            have e : alSet (q :: l) k v = q :: alSet l k v := by simp [alSet, h3]
            rw [e] at h; simp only [List.map_cons, List.mem_cons] at h ⊢
            rcases h with h | h
            · exact Or.inr (Or.inl h)
            · rcases ih2 k' h with h | h
              · exact Or.inl h
              · exact Or.inr (Or.inr h)
      rcases hk l p.1 this with h | h
      · exact hp h
      · exact hn.1 h

theorem keys_alDel_nodup [DecidableEq κ] (l : List (κ × ν)) (k : κ) (hn : (l.map (·.1)).Nodup) :
    ((alDel l k).map (·.1)).Nodup := by
  unfold alDel
  exact List.Nodup.sublist (List.Sublist.map _ List.filter_sublist) hn

theorem mem_alSet_val [DecidableEq κ] (l : List (κ × ν)) (k : κ) (v : ν) (p : κ × ν) (h : p ∈ alSet l k v) :
    p = (k, v) ∨ p ∈ l := by
  induction l with
  | nil => simpa [alSet] using h
  | cons q l ih =>
    by_cases hq : q.1 == k
    · simp only [alSet, hq, if_true, List.mem_cons] at h ⊢
      rcases h with h | h
      · exact Or.inl h
      · exact Or.inr (Or.inr h)
    · have h3 : (q.1 == k) = false := by simpa using hq
      simp only [alSet, h3, Bool.false_eq_true, if_false, List.mem_cons] at h ⊢
      rcases h with h | h
      · exact Or.inr (Or.inl h)
      · rcases ih h with h | h
        · exact Or.inl h
        · exact Or.inr (Or.inr h)

theorem nodup_eraseDups (l : List Nat) : l.eraseDups.Nodup := by
  have : ∀ n (l : List Nat), l.length ≤ n → l.eraseDups.Nodup := by
    intro n
    induction n with
    | zero =>
      intro l hl
      have : l = [] := List.length_eq_zero_iff.mp (Nat.le_zero.mp hl)
      subst this; simp
    | succ n ih =>
      intro l hl
      cases l with
      | nil => simp
      | cons a as =>
        rw [List.eraseDups_cons, List.nodup_cons]
        constructor
        · rw [List.mem_eraseDups]; simp
        · apply ih
          have := List.length_filter_le (fun b => !b == a) as
          simp only [List.length_cons] at hl; omega
  exact this l.length l (Nat.le_refl _)

/-! ### the reference count of a URR -/

/-- the recorded count, if the session knows the URR -/
def refOf (us : List (Nat × URRInfo)) (u : Nat) : Option Nat := (alGet us u).map (·.refPdrNum)

/-- the number of PDRs whose related-URR set names `u` -/
def refs (pdrs : List (Nat × List Nat)) (u : Nat) : Nat := cnt (fun us => us.contains u) pdrs

/-- the session's PDR table is a map of sets, and every known URR's count is the number of PDRs naming it -/
structure RefInv (s : Sess) : Prop where
  keys : (s.pdrs.map (·.1)).Nodup
  sets : ∀ p ∈ s.pdrs, p.2.Nodup
  count : ∀ u n, refOf s.urrs u = some n → n = refs s.pdrs u

theorem alGet_bumpRef (us : List (Nat × URRInfo)) (u v : Nat) :
    refOf (bumpRef us u) v = (refOf us v).map (· + if v = u then 1 else 0) := by
  unfold refOf
  induction us with
  | nil => simp [bumpRef, alGet]
  | cons p us ih =>
    by_cases hp : p.1 == v
    · have hpv : p.1 = v := by simpa using hp
      simp only [bumpRef, List.map_cons, alGet, hp, if_true, Option.map_some]
      by_cases hu : v = u
      · have : (p.1 == u) = true := by simp [hpv, hu]
        simp [this, hu]
      · have : (p.1 == u) = false := by simp [hpv, hu]
        simp [this, hu]
    · have hp' : (p.1 == v) = false := by simpa using hp
      simp only [bumpRef, List.map_cons, alGet, hp', Bool.false_eq_true, if_false]
      exact ih

/-- `for _, u := range urrids { refPdrNum[u]++ }` over distinct ids: each named URR gains one -/
theorem refOf_foldl_bumpRef (l : List Nat) (hl : l.Nodup) (us : List (Nat × URRInfo)) (v : Nat) :
    refOf (l.foldl bumpRef us) v = (refOf us v).map (· + if v ∈ l then 1 else 0) := by
  induction l generalizing us with
  | nil => simp
  | cons a l ih =>
    rw [List.nodup_cons] at hl
    simp only [List.foldl_cons]
    rw [ih hl.2, alGet_bumpRef]
    cases refOf us v with
    | none => rfl
    | some n =>
      simp only [Option.map_some, List.mem_cons, Option.some.injEq]
      by_cases h1 : v = a
      · subst h1; simp [hl.1]
      · simp [h1]

/-! ### generic loop invariant for `range` over a map -/

theorem pick_mem' (c : Ctx) (x : Seid) (op : Op) (K : Kind) (keys : List Nat) (k : Nat)
    (h : c.pick x op K keys = some k) : k ∈ keys := by
  unfold Ctx.pick at h
  cases keys with
  | nil => simp at h
  | cons k0 rest =>
    simp only [] at h
    split at h
    · split at h
      · rename_i hc
        simp at h; subst h
        simp only [Bool.and_eq_true, decide_eq_true_eq] at hc
        exact hc.2
      · simp at h; subst h; simp
    · simp at h; subst h; simp

theorem pick_none (c : Ctx) (x : Seid) (op : Op) (K : Kind) (keys : List Nat)
    (h : c.pick x op K keys = none) : keys = [] := by
  cases keys with
  | nil => rfl
  | cons k0 rest => simp [Ctx.pick] at h; split at h <;> (try split at h) <;> simp at h

/-- whatever order the iteration takes: an invariant `R remaining state ctx` kept by every body call on a remaining key
    holds with no key remaining at the end -/
theorem rangeMap_inv {σ : Type} (x : Seid) (op : Op) (kind : Kind) (body : Nat → σ → Ctx → σ × Ctx)
    (R : List Nat → σ → Ctx → Prop)
    (hb : ∀ keys k st c, k ∈ keys → R keys st c → R (keys.erase k) (body k st c).1 (body k st c).2) :
    ∀ fuel keys st c, keys.length ≤ fuel → R keys st c →
      R [] (rangeMap x op kind body fuel keys st c).1 (rangeMap x op kind body fuel keys st c).2 := by
  intro fuel
  induction fuel with
  | zero =>
    intro keys st c hlen hr
    have hk : keys = [] := List.length_eq_zero_iff.mp (Nat.le_zero.mp hlen)
    subst hk
    simpa [rangeMap] using hr
  | succ fuel ih =>
    intro keys st c hlen hr
    unfold rangeMap
    cases hp : c.pick x op kind keys with
    | none =>
      have hk := pick_none c x op kind keys hp
      subst hk
      simpa using hr
    | some k =>
      simp only []
      have hmem := pick_mem' c x op kind keys k hp
      have hlen' : (keys.erase k).length ≤ fuel := by
        rw [List.length_erase_of_mem hmem]; omega
      exact ih (keys.erase k) (body k st c).1 (body k st c).2 hlen' (hb keys k st c hmem hr)

end UpfVerif.Core
