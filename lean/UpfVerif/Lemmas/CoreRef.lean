import UpfVerif.Model.Core
import UpfVerif.Lemmas.Core
/-
Reference counting of URRs by PDRs (C12): `refPdrNum` of every URR the session knows equals the number of the session's
PDRs whose related-URR set names it — as an invariant of the `Sess` methods, and what the dissociation loop does to it
whatever order the map iteration takes.
-/
namespace UpfVerif.Core

/-- the rule operations of a session's lifetime that touch PDR / URR bookkeeping -/
inductive SOp
  | createURR (ie : RuleIE) | updateURR (ie : RuleIE) | removeURR (ie : RuleIE) | queryURR (ie : RuleIE)
  | createPDR (ie : RuleIE) | updatePDR (ie : RuleIE) | removePDR (ie : RuleIE)

def SOp.apply (s : Sess) (c : Ctx) : SOp → Sess × Ctx
  | .createURR ie => s.createURR ie c
  | .updateURR ie => ((s.updateURR ie c).1, (s.updateURR ie c).2.1)
  | .removeURR ie => ((s.removeURR ie c).1, (s.removeURR ie c).2.1)
  | .queryURR ie => ((s.queryURR ie c).1, (s.queryURR ie c).2.1)
  | .createPDR ie => s.createPDR ie c
  | .updatePDR ie => ((s.updatePDR ie c).1, (s.updatePDR ie c).2.1)
  | .removePDR ie => ((s.removePDR ie c).1, (s.removePDR ie c).2.1)

/-! ### counting over association lists -/

/-- number of entries whose value satisfies `P` -/
def cnt (P : ν → Bool) (l : List (κ × ν)) : Nat := (l.filter fun p => P p.2).length

def hit (P : ν → Bool) : Option ν → Nat
  | some o => if P o then 1 else 0
  | none => 0

theorem cnt_cons (P : ν → Bool) (p : κ × ν) (l : List (κ × ν)) :
    cnt P (p :: l) = (if P p.2 then 1 else 0) + cnt P l := by
  unfold cnt
  by_cases h : P p.2 <;> simp [List.filter, h]; omega

/-- `m[k] = v` replaces what was under `k`: one entry leaves the count, one enters -/
theorem cnt_alSet [DecidableEq κ] (P : ν → Bool) (l : List (κ × ν)) (k : κ) (v : ν) :
    cnt P (alSet l k v) + hit P (alGet l k) = cnt P l + (if P v then 1 else 0) := by
  induction l with
  | nil => by_cases h : P v <;> simp [alSet, alGet, hit, cnt, List.filter, h]
  | cons p l ih =>
    by_cases hp : p.1 == k
    · simp only [alSet, hp, if_true, alGet, hit, cnt_cons]; omega
    · have hp' : (p.1 == k) = false := by simpa using hp
      simp only [alSet, hp', Bool.false_eq_true, if_false, alGet, cnt_cons]; omega

theorem alGet_none_of_not_mem [DecidableEq κ] (l : List (κ × ν)) (k : κ) (h : k ∉ l.map (·.1)) : alGet l k = none := by
  induction l with
  | nil => rfl
  | cons p l ih =>
    simp only [List.map_cons, List.mem_cons, not_or] at h
    have hp : (p.1 == k) = false := by simpa using (Ne.symm h.1)
    simp only [alGet, hp, Bool.false_eq_true, if_false]
    exact ih h.2

theorem alGet_mem [DecidableEq κ] (l : List (κ × ν)) (k : κ) (v : ν) (h : alGet l k = some v) : (k, v) ∈ l := by
  induction l with
  | nil => simp [alGet] at h
  | cons p l ih =>
    by_cases hp : p.1 == k
    · simp only [alGet, hp, if_true, Option.some.injEq] at h
      have : p = (k, v) := by
        have h1 : p.1 = k := by simpa using hp
        cases p; simp_all
      simp [this]
    · have hp' : (p.1 == k) = false := by simpa using hp
      simp only [alGet, hp', Bool.false_eq_true, if_false] at h
      exact List.mem_cons_of_mem _ (ih h)

theorem alDel_of_not_mem [DecidableEq κ] (l : List (κ × ν)) (k : κ) (h : k ∉ l.map (·.1)) : alDel l k = l := by
  unfold alDel
  rw [List.filter_eq_self]
  intro p hp
  have : p.1 ≠ k := fun e => h (e ▸ List.mem_map_of_mem (f := (·.1)) hp)
  simpa using this

/-- `delete(m, k)` on a map (keys distinct): the entry under `k` leaves the count -/
theorem cnt_alDel [DecidableEq κ] (P : ν → Bool) (l : List (κ × ν)) (k : κ) (hn : (l.map (·.1)).Nodup) :
    cnt P (alDel l k) + hit P (alGet l k) = cnt P l := by
  induction l with
  | nil => simp [alDel, alGet, hit, cnt]
  | cons p l ih =>
    simp only [List.map_cons, List.nodup_cons] at hn
    by_cases hp : p.1 = k
    · have h1 : (p.1 != k) = false := by simp [hp]
      have h2 : (p.1 == k) = true := by simp [hp]
      have e : alDel (p :: l) k = alDel l k := by simp [alDel, List.filter, h1]
      rw [e, alDel_of_not_mem l k (hp ▸ hn.1)]
      simp only [alGet, h2, if_true, hit, cnt_cons]; omega
    · have h1 : (p.1 != k) = true := by simpa using hp
      have h2 : (p.1 == k) = false := by simpa using hp
      have e : alDel (p :: l) k = p :: alDel l k := by simp [alDel, List.filter, h1]
      rw [e]
      simp only [alGet, h2, Bool.false_eq_true, if_false, cnt_cons]
      have := ih hn.2; omega

theorem keys_alSet_nodup [DecidableEq κ] (l : List (κ × ν)) (k : κ) (v : ν) (hn : (l.map (·.1)).Nodup) :
    ((alSet l k v).map (·.1)).Nodup := by
  induction l with
  | nil => simp [alSet]
  | cons p l ih =>
    simp only [List.map_cons, List.nodup_cons] at hn
    by_cases hp : p.1 = k
    · have e : alSet (p :: l) k v = (k, v) :: l := by simp [alSet, hp]
      rw [e]; simp only [List.map_cons, List.nodup_cons]; exact ⟨hp ▸ hn.1, hn.2⟩
    · have h2 : (p.1 == k) = false := by simpa using hp
      have e : alSet (p :: l) k v = p :: alSet l k v := by simp [alSet, h2]
      rw [e]; simp only [List.map_cons, List.nodup_cons]
      refine ⟨?_, ih hn.2⟩
      intro hm
      have : p.1 ∈ (alSet l k v).map (·.1) := hm
      -- keys of alSet: k or an old key
      have hk : ∀ (l : List (κ × ν)) (k' : κ), k' ∈ (alSet l k v).map (·.1) → k' = k ∨ k' ∈ l.map (·.1) := by
        intro l
        induction l with
        | nil => intro k' h; simpa [alSet] using h
        | cons q l ih2 =>
          intro k' h
          by_cases hq : q.1 = k
          · have e : alSet (q :: l) k v = (k, v) :: l := by simp [alSet, hq]
            rw [e] at h; simp only [List.map_cons, List.mem_cons] at h ⊢
            rcases h with h | h
            · exact Or.inl h
            · exact Or.inr (Or.inr h)
          · have h3 : (q.1 == k) = false := by simpa using hq
            have e : alSet (q :: l) k v = q :: alSet l k v := by simp [alSet, h3]
            rw [e] at h; simp only [List.map_cons, List.mem_cons] at h ⊢
            rcases h with h | h
            · exact Or.inr (Or.inl h)
            · rcases ih2 k' h with h | h
              · exact Or.inl h
              · exact Or.inr (Or.inr h)
      rcases hk l p.1 this with h | h
      · exact hp h
      · exact hn.1 h

theorem keys_alDel_nodup [DecidableEq κ] (l : List (κ × ν)) (k : κ) (hn : (l.map (·.1)).Nodup) :
    ((alDel l k).map (·.1)).Nodup := by
  unfold alDel
  exact List.Nodup.sublist (List.Sublist.map _ List.filter_sublist) hn

theorem mem_alSet_val [DecidableEq κ] (l : List (κ × ν)) (k : κ) (v : ν) (p : κ × ν) (h : p ∈ alSet l k v) :
    p = (k, v) ∨ p ∈ l := by
  induction l with
  | nil => simpa [alSet] using h
  | cons q l ih =>
    by_cases hq : q.1 == k
    · simp only [alSet, hq, if_true, List.mem_cons] at h ⊢
      rcases h with h | h
      · exact Or.inl h
      · exact Or.inr (Or.inr h)
    · have h3 : (q.1 == k) = false := by simpa using hq
      simp only [alSet, h3, Bool.false_eq_true, if_false, List.mem_cons] at h ⊢
      rcases h with h | h
      · exact Or.inr (Or.inl h)
      · rcases ih h with h | h
        · exact Or.inl h
        · exact Or.inr (Or.inr h)

theorem nodup_eraseDups (l : List Nat) : l.eraseDups.Nodup := by
  have : ∀ n (l : List Nat), l.length ≤ n → l.eraseDups.Nodup := by
    intro n
    induction n with
    | zero =>
      intro l hl
      have : l = [] := List.length_eq_zero_iff.mp (Nat.le_zero.mp hl)
      subst this; simp
    | succ n ih =>
      intro l hl
      cases l with
      | nil => simp
      | cons a as =>
        rw [List.eraseDups_cons, List.nodup_cons]
        constructor
        · rw [List.mem_eraseDups]; simp
        · apply ih
          have := List.length_filter_le (fun b => !b == a) as
          simp only [List.length_cons] at hl; omega
  exact this l.length l (Nat.le_refl _)

/-! ### the reference count of a URR -/

/-- the recorded count, if the session knows the URR -/
def refOf (us : List (Nat × URRInfo)) (u : Nat) : Option Nat := (alGet us u).map (·.refPdrNum)

/-- the number of PDRs whose related-URR set names `u` -/
def refs (pdrs : List (Nat × List Nat)) (u : Nat) : Nat := cnt (fun us => us.contains u) pdrs

/-- the session's PDR table is a map of sets, and every known URR's count is the number of PDRs naming it -/
structure RefInv (s : Sess) : Prop where
  keys : (s.pdrs.map (·.1)).Nodup
  sets : ∀ p ∈ s.pdrs, p.2.Nodup
  count : ∀ u n, refOf s.urrs u = some n → n = refs s.pdrs u

theorem alGet_bumpRef (us : List (Nat × URRInfo)) (u v : Nat) :
    refOf (bumpRef us u) v = (refOf us v).map (· + if v = u then 1 else 0) := by
  unfold refOf
  induction us with
  | nil => simp [bumpRef, alGet]
  | cons p us ih =>
    by_cases hp : p.1 == v
    · have hpv : p.1 = v := by simpa using hp
      simp only [bumpRef, List.map_cons, alGet, hp, if_true, Option.map_some]
      by_cases hu : v = u
      · have : (p.1 == u) = true := by simp [hpv, hu]
        simp [this, hu]
      · have : (p.1 == u) = false := by simp [hpv, hu]
        simp [this, hu]
    · have hp' : (p.1 == v) = false := by simpa using hp
      simp only [bumpRef, List.map_cons, alGet, hp', Bool.false_eq_true, if_false]
      exact ih

/-- `for _, u := range urrids { refPdrNum[u]++ }` over distinct ids: each named URR gains one -/
theorem refOf_foldl_bumpRef (l : List Nat) (hl : l.Nodup) (us : List (Nat × URRInfo)) (v : Nat) :
    refOf (l.foldl bumpRef us) v = (refOf us v).map (· + if v ∈ l then 1 else 0) := by
  induction l generalizing us with
  | nil => simp
  | cons a l ih =>
    rw [List.nodup_cons] at hl
    simp only [List.foldl_cons]
    rw [ih hl.2, alGet_bumpRef]
    cases refOf us v with
    | none => rfl
    | some n =>
      simp only [Option.map_some, List.mem_cons, Option.some.injEq]
      by_cases h1 : v = a
      · subst h1; simp [hl.1]
      · simp [h1]

/-! ### generic loop invariant for `range` over a map -/

theorem pick_mem' (c : Ctx) (x : Seid) (op : Op) (K : Kind) (keys : List Nat) (k : Nat)
    (h : c.pick x op K keys = some k) : k ∈ keys := by
  unfold Ctx.pick at h
  cases keys with
  | nil => simp at h
  | cons k0 rest =>
    simp only [] at h
    split at h
    · split at h
      · rename_i hc
        simp at h; subst h
        simp only [Bool.and_eq_true, decide_eq_true_eq] at hc
        exact hc.2
      · simp at h; subst h; simp
    · simp at h; subst h; simp

theorem pick_none (c : Ctx) (x : Seid) (op : Op) (K : Kind) (keys : List Nat)
    (h : c.pick x op K keys = none) : keys = [] := by
  cases keys with
  | nil => rfl
  | cons k0 rest => simp [Ctx.pick] at h; split at h <;> (try split at h) <;> simp at h

/-- whatever order the iteration takes: an invariant `R remaining state ctx` kept by every body call on a remaining key
    holds with no key remaining at the end -/
theorem rangeMap_inv {σ : Type} (x : Seid) (op : Op) (kind : Kind) (body : Nat → σ → Ctx → σ × Ctx)
    (R : List Nat → σ → Ctx → Prop)
    (hb : ∀ keys k st c, k ∈ keys → R keys st c → R (keys.erase k) (body k st c).1 (body k st c).2) :
    ∀ fuel keys st c, keys.length ≤ fuel → R keys st c →
      R [] (rangeMap x op kind body fuel keys st c).1 (rangeMap x op kind body fuel keys st c).2 := by
  intro fuel
  induction fuel with
  | zero =>
    intro keys st c hlen hr
    have hk : keys = [] := List.length_eq_zero_iff.mp (Nat.le_zero.mp hlen)
    subst hk
    simpa [rangeMap] using hr
  | succ fuel ih =>
    intro keys st c hlen hr
    unfold rangeMap
    cases hp : c.pick x op kind keys with
    | none =>
      have hk := pick_none c x op kind keys hp
      subst hk
      simpa using hr
    | some k =>
      simp only []
      have hmem := pick_mem' c x op kind keys k hp
      have hlen' : (keys.erase k).length ≤ fuel := by
        rw [List.length_erase_of_mem hmem]; omega
      exact ih (keys.erase k) (body k st c).1 (body k st c).2 hlen' (hb keys k st c hmem hr)

/-! ### what the `Sess` methods do to the counts -/

/-- number of QUERY_URR calls for URR `u` of session `x` among the outputs -/
def qcount (c : Ctx) (x : Seid) (u : Nat) : Nat :=
  (c.outs.filter fun o => match o with
    | .dp call _ => call.seid == x && call.op == .query && call.kind == .urr && call.id == u
    | _ => false).length

theorem qcount_call (c : Ctx) (call : DpCall) (x : Seid) (u : Nat) :
    qcount (c.call call).1 x u = qcount c x u +
      (if call.seid == x && call.op == .query && call.kind == .urr && call.id == u then 1 else 0) := by
  unfold qcount Ctx.call
  cases c.pending with
  | nil => simp only [List.filter_append, List.length_append]; congr 1; simp [List.filter]; split <;> simp_all
  | cons p rest => simp only [List.filter_append, List.length_append]; congr 1; simp [List.filter]; split <;> simp_all

theorem refOf_alSet_self (us : List (Nat × URRInfo)) (u : Nat) (i : URRInfo) : refOf (alSet us u i) u = some i.refPdrNum := by
  simp [refOf]

theorem refOf_alSet_other (us : List (Nat × URRInfo)) (u v : Nat) (i : URRInfo) (h : v ≠ u) :
    refOf (alSet us u i) v = refOf us v := by
  simp [refOf, alGet_alSet_other _ _ _ _ h]

/-- `diassociateURR`: the count of `u` goes down by one (not below 0), nothing else moves; the data plane is queried
    for `u` exactly when the count was 1 -/
theorem diassociate_ref (s : Sess) (u : Nat) (c : Ctx) :
    (s.diassociate u c).1.pdrs = s.pdrs ∧ (s.diassociate u c).1.localID = s.localID ∧
    (∀ v, refOf (s.diassociate u c).1.urrs v = (refOf s.urrs v).map (· - if v = u then 1 else 0)) ∧
    (∀ v, qcount (s.diassociate u c).2.1 s.localID v = qcount c s.localID v +
      (if v = u ∧ refOf s.urrs u = some 1 then 1 else 0)) := by
  unfold Sess.diassociate
  cases hg : alGet s.urrs u with
  | none =>
    have hr : refOf s.urrs u = none := by simp [refOf, hg]
    refine ⟨by first | rfl | trivial, by first | rfl | trivial, ?_, ?_⟩
    · intro v
      by_cases hv : v = u
      · subst hv; simp [hr]
      · simp [hv]
    · intro v; simp [hr]
  | some info =>
    have hr : refOf s.urrs u = some info.refPdrNum := by simp [refOf, hg]
    by_cases hpos : info.refPdrNum > 0
    · simp only [hpos, if_true]
      by_cases h1 : info.refPdrNum - 1 == 0
      · have h1' : info.refPdrNum = 1 := by have := beq_iff_eq.mp h1; omega
        simp only [h1, if_true]
        have key : ∀ (res : Sess × Ctx × List Report),
            res.1 = { s with urrs := alSet s.urrs u { info with refPdrNum := info.refPdrNum - 1 } } →
            res.2.1 = (c.call { seid := s.localID, op := .query, kind := .urr, id := u }).1 →
            res.1.pdrs = s.pdrs ∧ res.1.localID = s.localID ∧
            (∀ v, refOf res.1.urrs v = (refOf s.urrs v).map (· - if v = u then 1 else 0)) ∧
            (∀ v, qcount res.2.1 s.localID v = qcount c s.localID v + (if v = u ∧ refOf s.urrs u = some 1 then 1 else 0)) := by
          intro res e1 e2
          rw [e1, e2]
          refine ⟨by first | rfl | trivial, by first | rfl | trivial, ?_, ?_⟩
          · intro v
            by_cases hv : v = u
            · subst hv; simp [refOf_alSet_self, hr]
            · simp [refOf_alSet_other _ _ _ _ hv, hv]
          · intro v
            rw [qcount_call]
            by_cases hv : v = u
            · subst hv; simp [hr, h1']
            · have : (u == v) = false := by simpa using (Ne.symm hv)
              simp [hv, this]
        split <;> exact key _ rfl rfl
      · simp only [h1, Bool.false_eq_true, if_false]
        have h1' : info.refPdrNum ≠ 1 := by
          intro e; rw [e] at h1; simp at h1
        refine ⟨by first | rfl | trivial, by first | rfl | trivial, ?_, ?_⟩
        · intro v
          by_cases hv : v = u
          · subst hv; simp [refOf_alSet_self, hr]
          · simp [refOf_alSet_other _ _ _ _ hv, hv]
        · intro v
          simp [hr, h1']
    · simp only [hpos, if_false]
      have h0 : info.refPdrNum = 0 := by omega
      refine ⟨by first | rfl | trivial, by first | rfl | trivial, ?_, ?_⟩
      · intro v
        by_cases hv : v = u
        · subst hv; simp [hr, h0]
        · simp [hv]
      · intro v; simp [hr, h0]

/-- the dissociation loop over a set of URR ids, in whatever order the map iteration takes: every listed URR loses one
    reference, and exactly those whose count was 1 are queried, once -/
theorem diassociateAll_ref (s : Sess) (us : List Nat) (hn : us.Nodup) (c : Ctx) :
    (s.diassociateAll us c).1.pdrs = s.pdrs ∧ (s.diassociateAll us c).1.localID = s.localID ∧
    (∀ v, refOf (s.diassociateAll us c).1.urrs v = (refOf s.urrs v).map (· - if v ∈ us then 1 else 0)) ∧
    (∀ v, qcount (s.diassociateAll us c).2.1 s.localID v = qcount c s.localID v +
      (if v ∈ us ∧ refOf s.urrs v = some 1 then 1 else 0)) := by
  let body : Nat → Sess × List Report → Ctx → (Sess × List Report) × Ctx := fun u acc c =>
      let (s2, c2, r) := acc.1.diassociate u c
      ((s2, acc.2 ++ r), c2)
  let R : List Nat → Sess × List Report → Ctx → Prop := fun keys st c' =>
    keys.Nodup ∧ (∀ k ∈ keys, k ∈ us) ∧ st.1.pdrs = s.pdrs ∧ st.1.localID = s.localID ∧
    (∀ v, refOf st.1.urrs v = (refOf s.urrs v).map (· - if v ∈ us ∧ v ∉ keys then 1 else 0)) ∧
    (∀ v, qcount c' s.localID v = qcount c s.localID v + (if v ∈ us ∧ v ∉ keys ∧ refOf s.urrs v = some 1 then 1 else 0))
  have hb : ∀ keys k st c', k ∈ keys → R keys st c' → R (keys.erase k) (body k st c').1 (body k st c').2 := by
    intro keys k st c' hk ⟨hnd, hsub, hp, hl, hr, hq⟩
    obtain ⟨d1, d2, d3, d4⟩ := diassociate_ref st.1 k c'
    have hkus : k ∈ us := hsub k hk
    have hknot : k ∉ keys.erase k := fun h => ((List.Nodup.mem_erase_iff hnd).mp h).1 rfl
    have hrk : refOf st.1.urrs k = refOf s.urrs k := by
      rw [hr k]; simp only [hk, not_true_eq_false, and_false, if_false]
      cases refOf s.urrs k <;> simp
    refine ⟨List.Nodup.erase k hnd, fun j hj => hsub j (List.mem_of_mem_erase hj), ?_, ?_, ?_, ?_⟩
    · show (st.1.diassociate k c').1.pdrs = s.pdrs
      rw [d1, hp]
    · show (st.1.diassociate k c').1.localID = s.localID
      rw [d2, hl]
    · intro v
      show refOf (st.1.diassociate k c').1.urrs v = _
      rw [d3 v, hr v]
      cases refOf s.urrs v with
      | none => rfl
      | some n =>
        simp only [Option.map_some, Option.some.injEq]
        by_cases hv : v = k
        · subst hv; simp [hk, hkus, hknot]
        · have : v ∈ keys.erase k ↔ v ∈ keys := List.mem_erase_of_ne hv
          simp [hv, this]
    · intro v
      show qcount (st.1.diassociate k c').2.1 s.localID v = _
      have := d4 v
      rw [hl] at this
      rw [this, hq v, hrk]
      by_cases hv : v = k
      · subst hv; simp [hk, hkus, hknot]
      · have : v ∈ keys.erase k ↔ v ∈ keys := List.mem_erase_of_ne hv
        simp [hv, this]
  have h0 : R us (s, []) c := by
    refine ⟨hn, fun _ h => h, rfl, rfl, ?_, ?_⟩
    · intro v
      cases refOf s.urrs v with
      | none => rfl
      | some n => by_cases h : v ∈ us <;> simp [h]
    · intro v; by_cases h : v ∈ us <;> simp [h]
  have hfin := rangeMap_inv s.localID .query .urr body R hb us.length us (s, []) c (Nat.le_refl _) h0
  obtain ⟨_, _, hp, hl, hr, hq⟩ := hfin
  have e1 : (s.diassociateAll us c).1 = (rangeMap s.localID .query .urr body us.length us (s, []) c).1.1 := rfl
  have e2 : (s.diassociateAll us c).2.1 = (rangeMap s.localID .query .urr body us.length us (s, []) c).2 := rfl
  rw [e1, e2]
  refine ⟨hp, hl, ?_, ?_⟩
  · intro v; rw [hr v]; simp
  · intro v; rw [hq v]; simp

theorem contains_iff (l : List Nat) (u : Nat) : l.contains u = true ↔ u ∈ l := by simp

theorem refs_alSet (pdrs : List (Nat × List Nat)) (k : Nat) (new : List Nat) (u : Nat) :
    refs (alSet pdrs k new) u + hit (fun us => us.contains u) (alGet pdrs k) = refs pdrs u + (if u ∈ new then 1 else 0) := by
  have := cnt_alSet (fun us : List Nat => us.contains u) pdrs k new
  simpa [refs] using this

theorem refs_alDel (pdrs : List (Nat × List Nat)) (k : Nat) (u : Nat) (hn : (pdrs.map (·.1)).Nodup) :
    refs (alDel pdrs k) u + hit (fun us => us.contains u) (alGet pdrs k) = refs pdrs u :=
  cnt_alDel (fun us : List Nat => us.contains u) pdrs k hn

theorem hit_some (u : Nat) (us : List Nat) : hit (fun l : List Nat => l.contains u) (some us) = if u ∈ us then 1 else 0 := by
  simp [hit]

/-- a PDR naming `u` exists, so at least one PDR names it -/
theorem refs_pos (pdrs : List (Nat × List Nat)) (k : Nat) (us : List Nat) (u : Nat)
    (hg : alGet pdrs k = some us) (hu : u ∈ us) : 0 < refs pdrs u := by
  have hm := alGet_mem pdrs k us hg
  unfold refs cnt
  apply List.length_pos_of_mem (a := (k, us))
  simp [hm, hu]

theorem createURR_ref (s : Sess) (ie : RuleIE) (c : Ctx) (h : RefInv s) : RefInv (s.createURR ie c).1 := by
  unfold Sess.createURR
  cases hid : ie.id with
  | none => exact h
  | some id =>
    refine ⟨h.keys, h.sets, ?_⟩
    intro u n hn
    simp only [] at hn
    by_cases hu : u = id
    · subst hu
      rw [refOf_alSet_self] at hn
      simp only [Option.some.injEq] at hn
      rw [← hn]; rfl
    · rw [refOf_alSet_other _ _ _ _ hu] at hn
      exact h.count u n hn

theorem createPDR_ref (s : Sess) (ie : RuleIE) (c : Ctx) (h : RefInv s) (hfresh : alGet s.pdrs (ie.id.getD 0) = none) :
    RefInv (s.createPDR ie c).1 := by
  unfold Sess.createPDR
  refine ⟨keys_alSet_nodup _ _ _ h.keys, ?_, ?_⟩
  · intro p hp
    rcases mem_alSet_val _ _ _ _ hp with e | e
    · rw [e]; exact nodup_eraseDups _
    · exact h.sets p e
  · intro u n hn
    simp only [] at hn
    rw [refOf_foldl_bumpRef _ (nodup_eraseDups _)] at hn
    have hr := refs_alSet s.pdrs (ie.id.getD 0) ie.urrs.eraseDups u
    rw [hfresh] at hr
    simp only [hit, Nat.add_zero] at hr
    show n = refs (alSet s.pdrs (ie.id.getD 0) ie.urrs.eraseDups) u
    cases h0 : refOf s.urrs u with
    | none => rw [h0] at hn; simp at hn
    | some n0 =>
      rw [h0] at hn
      simp only [Option.map_some, Option.some.injEq] at hn
      have := h.count u n0 h0
      omega

theorem removePDR_ref (s : Sess) (ie : RuleIE) (c : Ctx) (h : RefInv s) : RefInv (s.removePDR ie c).1 := by
  unfold Sess.removePDR
  cases hid : ie.id with
  | none => exact h
  | some pdrid =>
    simp only []
    cases hg : alGet s.pdrs pdrid with
    | none => exact h
    | some us =>
      simp only []
      rcases hc : c.call { seid := s.localID, op := .remove, kind := .pdr, id := pdrid } with ⟨c1, a⟩
      simp only []
      cases hok : a.ok with
      | false => simpa using h
      | true =>
        simp only [Bool.not_true, Bool.false_eq_true, if_false]
        have hus : us.Nodup := h.sets (pdrid, us) (alGet_mem _ _ _ hg)
        obtain ⟨d1, _, d3, _⟩ := diassociateAll_ref ({ s with pdrs := alDel s.pdrs pdrid, q := alDel s.q pdrid } : Sess) us hus c1
        refine ⟨?_, ?_, ?_⟩
        · rw [d1]; exact keys_alDel_nodup _ _ h.keys
        · rw [d1]; intro p hp
          exact h.sets p (List.mem_filter.mp hp).1
        · intro u n hn
          rw [d3 u] at hn
          rw [d1]
          have hr := refs_alDel s.pdrs pdrid u h.keys
          rw [hg, hit_some] at hr
          show n = refs (alDel s.pdrs pdrid) u
          cases h0 : refOf s.urrs u with
          | none => simp only [] at hn; rw [h0] at hn; simp at hn
          | some n0 =>
            simp only [] at hn
            rw [h0] at hn
            simp only [Option.map_some, Option.some.injEq] at hn
            have := h.count u n0 h0
            omega

theorem updatePDR_ref (s : Sess) (ie : RuleIE) (c : Ctx) (h : RefInv s) : RefInv (s.updatePDR ie c).1 := by
  unfold Sess.updatePDR
  simp only []
  cases hg : alGet s.pdrs (ie.id.getD 0) with
  | none => exact h
  | some old =>
    simp only []
    rcases hc : c.call { seid := s.localID, op := .update, kind := .pdr, id := ie.id.getD 0 } with ⟨c1, a⟩
    simp only []
    cases hok : a.ok with
    | false => simpa using h
    | true =>
      simp only [Bool.not_true, Bool.false_eq_true, if_false]
      have hold : old.Nodup := h.sets (ie.id.getD 0, old) (alGet_mem _ _ _ hg)
      have hL : (old.filter (· ∉ ie.urrs.eraseDups)).Nodup := List.Nodup.sublist List.filter_sublist hold
      have hA : (ie.urrs.eraseDups.filter (· ∉ old)).Nodup := List.Nodup.sublist List.filter_sublist (nodup_eraseDups _)
      obtain ⟨d1, _, d3, _⟩ := diassociateAll_ref s (old.filter (· ∉ ie.urrs.eraseDups)) hL c1
      rcases hd : s.diassociateAll (old.filter (· ∉ ie.urrs.eraseDups)) c1 with ⟨s2, c2, rs⟩
      rw [hd] at d1 d3
      simp only [] at d1 d3 ⊢
      refine ⟨?_, ?_, ?_⟩
      · show ((alSet s2.pdrs (ie.id.getD 0) ie.urrs.eraseDups).map (·.1)).Nodup
        rw [d1]; exact keys_alSet_nodup _ _ _ h.keys
      · intro p hp
        have hp' : p ∈ alSet s2.pdrs (ie.id.getD 0) ie.urrs.eraseDups := hp
        rw [d1] at hp'
        rcases mem_alSet_val _ _ _ _ hp' with e | e
        · rw [e]; exact nodup_eraseDups _
        · exact h.sets p e
      · intro u n hn
        have hn' : refOf ((ie.urrs.eraseDups.filter (· ∉ old)).foldl bumpRef s2.urrs) u = some n := hn
        rw [refOf_foldl_bumpRef _ hA, d3 u] at hn'
        show n = refs (alSet s2.pdrs (ie.id.getD 0) ie.urrs.eraseDups) u
        rw [d1]
        have hr := refs_alSet s.pdrs (ie.id.getD 0) ie.urrs.eraseDups u
        rw [hg, hit_some] at hr
        cases h0 : refOf s.urrs u with
        | none => rw [h0] at hn'; simp at hn'
        | some n0 =>
          rw [h0] at hn'
          simp only [Option.map_some, Option.some.injEq, List.mem_filter, decide_eq_true_eq, decide_not] at hn'
          have hc0 := h.count u n0 h0
          have hpos : u ∈ old → 0 < refs s.pdrs u := refs_pos s.pdrs _ old u hg
          by_cases ha : u ∈ old <;> by_cases hb : u ∈ ie.urrs.eraseDups <;> simp [ha, hb] at hn' hr hpos <;> omega

theorem removeURR_ref (s : Sess) (ie : RuleIE) (c : Ctx) (h : RefInv s) : RefInv (s.removeURR ie c).1 := by
  unfold Sess.removeURR
  cases hid : ie.id with
  | none => exact h
  | some id =>
    simp only []
    cases hg : alGet s.urrs id with
    | none => exact h
    | some info =>
      have key : RefInv ({ s with urrs := alSet s.urrs id { info with removed := true } } : Sess) := by
        refine ⟨h.keys, h.sets, ?_⟩
        intro u n hn
        by_cases hu : u = id
        · subst hu
          rw [refOf_alSet_self] at hn
          exact h.count u n (by simpa [refOf, hg] using hn)
        · rw [refOf_alSet_other _ _ _ _ hu] at hn
          exact h.count u n hn
      simp only []
      split <;> exact key

theorem updateURR_ref (s : Sess) (ie : RuleIE) (c : Ctx) (h : RefInv s) : RefInv (s.updateURR ie c).1 := by
  unfold Sess.updateURR
  cases hid : ie.id with
  | none => exact h
  | some id =>
    simp only []
    cases hg : alGet s.urrs id with
    | none => exact h
    | some info =>
      have hsame : (info.applyUpdate ie).refPdrNum = info.refPdrNum := by
        unfold URRInfo.applyUpdate
        cases ie.meth with
        | none => cases ie.mnop <;> rfl
        | some dv => cases ie.mnop <;> rfl
      have key : RefInv ({ s with urrs := alSet s.urrs id (info.applyUpdate ie) } : Sess) := by
        refine ⟨h.keys, h.sets, ?_⟩
        intro u n hn
        by_cases hu : u = id
        · subst hu
          rw [refOf_alSet_self, hsame] at hn
          exact h.count u n (by simpa [refOf, hg] using hn)
        · rw [refOf_alSet_other _ _ _ _ hu] at hn
          exact h.count u n hn
      simp only []
      split <;> exact key

theorem queryURR_ref (s : Sess) (ie : RuleIE) (c : Ctx) (h : RefInv s) : RefInv (s.queryURR ie c).1 := by
  unfold Sess.queryURR
  cases hid : ie.id with
  | none => exact h
  | some id =>
    simp only []
    cases hg : alGet s.urrs id with
    | none => exact h
    | some info => simp only []; split <;> exact h

/-- under the invariant, "the recorded count is 1" says: the session knows the URR and exactly one PDR names it -/
theorem refOf_one_iff (s : Sess) (h : RefInv s) (v : Nat) :
    refOf s.urrs v = some 1 ↔ (alGet s.urrs v).isSome = true ∧ refs s.pdrs v = 1 := by
  constructor
  · intro h1
    refine ⟨?_, (h.count v 1 h1).symm⟩
    unfold refOf at h1
    cases hg : alGet s.urrs v with
    | none => rw [hg] at h1; simp at h1
    | some _ => rfl
  · intro ⟨hk, hr⟩
    cases hg : alGet s.urrs v with
    | none => rw [hg] at hk; simp at hk
    | some info =>
      have : refOf s.urrs v = some info.refPdrNum := by simp [refOf, hg]
      rw [this, h.count v _ this, hr]

/-- Remove PDR (accepted by the data plane): the URRs queried are exactly those the PDR named whose count was 1, once each -/
theorem removePDR_queries (s : Sess) (ie : RuleIE) (c : Ctx) (h : RefInv s) (pdrid : Nat) (us : List Nat)
    (hid : ie.id = some pdrid) (hg : alGet s.pdrs pdrid = some us)
    (hok : (c.call { seid := s.localID, op := .remove, kind := .pdr, id := pdrid }).2.ok = true) (v : Nat) :
    qcount (s.removePDR ie c).2.1 s.localID v =
      qcount c s.localID v + (if v ∈ us ∧ refOf s.urrs v = some 1 then 1 else 0) := by
  unfold Sess.removePDR
  simp only [hid, hg]
  rcases hc : c.call { seid := s.localID, op := .remove, kind := .pdr, id := pdrid } with ⟨c1, a⟩
  rw [hc] at hok
  simp only [] at hok
  simp only [hok, Bool.not_true, Bool.false_eq_true, if_false]
  have hus : us.Nodup := h.sets (pdrid, us) (alGet_mem _ _ _ hg)
  obtain ⟨_, _, _, d4⟩ := diassociateAll_ref ({ s with pdrs := alDel s.pdrs pdrid, q := alDel s.q pdrid } : Sess) us hus c1
  have := d4 v
  simp only [] at this
  rw [this]
  have hq : qcount c1 s.localID v = qcount c s.localID v := by
    have := qcount_call c { seid := s.localID, op := .remove, kind := .pdr, id := pdrid } s.localID v
    rw [hc] at this
    simpa using this
  rw [hq]

/-- Update PDR (accepted): the URRs queried are exactly those the old list named, the new list does not, whose count was 1 -/
theorem updatePDR_queries (s : Sess) (ie : RuleIE) (c : Ctx) (h : RefInv s) (old : List Nat)
    (hg : alGet s.pdrs (ie.id.getD 0) = some old)
    (hok : (c.call { seid := s.localID, op := .update, kind := .pdr, id := ie.id.getD 0 }).2.ok = true) (v : Nat) :
    qcount (s.updatePDR ie c).2.1 s.localID v =
      qcount c s.localID v + (if (v ∈ old ∧ v ∉ ie.urrs.eraseDups) ∧ refOf s.urrs v = some 1 then 1 else 0) := by
  unfold Sess.updatePDR
  simp only [hg]
  rcases hc : c.call { seid := s.localID, op := .update, kind := .pdr, id := ie.id.getD 0 } with ⟨c1, a⟩
  rw [hc] at hok
  simp only [] at hok
  simp only [hok, Bool.not_true, Bool.false_eq_true, if_false]
  have hold : old.Nodup := h.sets (ie.id.getD 0, old) (alGet_mem _ _ _ hg)
  have hL : (old.filter (· ∉ ie.urrs.eraseDups)).Nodup := List.Nodup.sublist List.filter_sublist hold
  obtain ⟨_, _, _, d4⟩ := diassociateAll_ref s (old.filter (· ∉ ie.urrs.eraseDups)) hL c1
  rcases hd : s.diassociateAll (old.filter (· ∉ ie.urrs.eraseDups)) c1 with ⟨s2, c2, rs⟩
  rw [hd] at d4
  simp only [] at d4 ⊢
  rw [d4 v]
  have hq : qcount c1 s.localID v = qcount c s.localID v := by
    have := qcount_call c { seid := s.localID, op := .update, kind := .pdr, id := ie.id.getD 0 } s.localID v
    rw [hc] at this
    simpa using this
  rw [hq]
  simp [List.mem_filter]

end UpfVerif.Core
