import UpfVerif.Model.Core
/- helper lemmas about association lists and the small state updaters of M-Core -/
namespace UpfVerif.Core

@[simp] theorem alGet_alSet_self [DecidableEq κ] (l : List (κ × ν)) (k : κ) (v : ν) : alGet (alSet l k v) k = some v := by
  induction l with
  | nil => simp [alSet, alGet]
  | cons p l ih =>
    by_cases hp : p.1 == k
    · simp [alSet, alGet, hp]
    · have hp' : (p.1 == k) = false := by simpa using hp
      simp [alSet, alGet, hp', ih]

theorem alGet_alSet_other [DecidableEq κ] (l : List (κ × ν)) (k k' : κ) (v : ν) (h : k' ≠ k) :
    alGet (alSet l k v) k' = alGet l k' := by
  have h1 : (k == k') = false := by simpa using (Ne.symm h)
  induction l with
  | nil => simp [alSet, alGet, h1]
  | cons p l ih =>
    by_cases hp : p.1 == k
    · have hpk : p.1 = k := by simpa using hp
      have h2 : (p.1 == k') = false := by rw [hpk]; exact h1
      simp [alSet, alGet, hp, h1, h2]
    · have hp' : (p.1 == k) = false := by simpa using hp
      simp only [alSet, hp', Bool.false_eq_true, if_false, alGet]
      cases hk : p.1 == k' <;> simp [ih]

@[simp] theorem alGet_alDel_self [DecidableEq κ] (l : List (κ × ν)) (k : κ) : alGet (alDel l k) k = none := by
  induction l with
  | nil => simp [alDel, alGet]
  | cons p l ih =>
    by_cases hp : p.1 = k
    · have h1 : (p.1 != k) = false := by simp [hp]
      simpa [alDel, List.filter, h1] using ih
    · have h1 : (p.1 != k) = true := by simpa using hp
      have h2 : (p.1 == k) = false := by simpa using hp
      simp only [alDel, List.filter, h1, alGet, h2]
      simpa [alDel] using ih

theorem alGet_alDel_other [DecidableEq κ] (l : List (κ × ν)) (k k' : κ) (h : k' ≠ k) :
    alGet (alDel l k) k' = alGet l k' := by
  induction l with
  | nil => rfl
  | cons p l ih =>
    by_cases hp : p.1 = k
    · have h1 : (p.1 != k) = false := by simp [hp]
      have h2 : (p.1 == k') = false := by rw [hp]; simpa using (Ne.symm h)
      simp only [alDel, List.filter, h1, alGet, h2]
      simpa [alDel] using ih
    · have h1 : (p.1 != k) = true := by simpa using hp
      simp only [alDel, List.filter, h1, alGet]
      cases hk : p.1 == k' <;> simp
      simpa [alDel] using ih

end UpfVerif.Core
