import UpfVerif.Lemmas.CoreOuts
/-
Handler-level facts: what a request handler can output (driver calls, then at most one response to the requester
with the request's sequence number), and what it can change.
-/
namespace UpfVerif.Core

def IsDp (o : Out) : Prop := ∃ c a, o = Out.dp c a

/-- `c'` extends `c` by driver calls only -/
def DpExt (c c' : Ctx) : Prop := ∃ l, c'.outs = c.outs ++ l ∧ ∀ o ∈ l, IsDp o

theorem DpExt.refl (c : Ctx) : DpExt c c := ⟨[], by simp, by intro o ho; cases ho⟩
theorem DpExt.trans {a b c : Ctx} (h1 : DpExt a b) (h2 : DpExt b c) : DpExt a c := by
  obtain ⟨l1, e1, d1⟩ := h1
  obtain ⟨l2, e2, d2⟩ := h2
  refine ⟨l1 ++ l2, by rw [e2, e1, List.append_assoc], ?_⟩
  intro o ho
  rcases List.mem_append.mp ho with h | h
  · exact d1 o h
  · exact d2 o h
theorem Ext.toDpExt {x : Seid} {c c' : Ctx} (h : Ext x c c') : DpExt c c' := by
  obtain ⟨l, e, d⟩ := h
  exact ⟨l, e, fun o ho => by obtain ⟨cc, a, he, _⟩ := d o ho; exact ⟨cc, a, he⟩⟩

/-! ### stages -/

def StageKeeps (st : Stage) : Prop := ∀ s c rs, Keeps s (st s c rs).1 c (st s c rs).2.1

theorem liftS_keeps (f : Sess → RuleIE → Ctx → Sess × Ctx) (hf : ∀ s ie c, Keeps s (f s ie c).1 c (f s ie c).2)
    (ies : List RuleIE) : StageKeeps (liftS f ies) := by
  intro s c rs; exact foldSimple_keeps f hf ies s c

theorem liftR_keeps (f : Sess → RuleIE → Ctx → Sess × Ctx × List Report)
    (hf : ∀ s ie c, Keeps s (f s ie c).1 c (f s ie c).2.1) (ies : List RuleIE) : StageKeeps (liftR f ies) := by
  intro s c rs; exact foldRep_keeps f hf ies s c rs

theorem runStages_keeps (stages : List Stage) (h : ∀ st ∈ stages, StageKeeps st) :
    ∀ s c rs, Keeps s (runStages stages s c rs).1 c (runStages stages s c rs).2.1 := by
  induction stages with
  | nil => intro s c rs; exact Keeps.refl s c
  | cons st stages ih =>
    intro s c rs
    have e : runStages (st :: stages) s c rs = runStages stages (st s c rs).1 (st s c rs).2.1 (st s c rs).2.2 := by
      simp [runStages, List.foldl]
    rw [e]
    exact (h st (by simp) s c rs).trans (ih (fun st' hst' => h st' (by simp [hst'])) _ _ _)

theorem modStages_keep (r : ModReq) : ∀ st ∈ modStages r, StageKeeps st := by
  intro st hst
  simp only [modStages, List.mem_cons, List.mem_nil_iff, or_false] at hst
  rcases hst with h | h | h | h | h | h | h | h | h | h | h | h | h | h | h | h <;> subst h
  · exact liftS_keeps _ (fun s ie c => createSimple_keeps s .far ie c) _
  · exact liftS_keeps _ (fun s ie c => createSimple_keeps s .qer ie c) _
  · exact liftS_keeps _ (fun s ie c => createURR_keeps s ie c) _
  · exact liftS_keeps _ (fun s ie c => createSimple_keeps s .bar ie c) _
  · exact liftS_keeps _ (fun s ie c => createPDR_keeps s ie c) _
  · exact liftS_keeps _ (fun s ie c => removeSimple_keeps s .far ie c) _
  · exact liftS_keeps _ (fun s ie c => removeSimple_keeps s .qer ie c) _
  · exact liftR_keeps _ (fun s ie c => removeURR_keeps s ie c) _
  · exact liftS_keeps _ (fun s ie c => removeSimple_keeps s .bar ie c) _
  · exact liftR_keeps _ (fun s ie c => removePDR_keeps s ie c) _
  · exact liftS_keeps _ (fun s ie c => updateSimple_keeps s .far ie c) _
  · exact liftS_keeps _ (fun s ie c => updateSimple_keeps s .qer ie c) _
  · exact liftR_keeps _ (fun s ie c => updateURR_keeps s ie c) _
  · exact liftS_keeps _ (fun s ie c => updateSimple_keeps s .bar ie c) _
  · exact liftR_keeps _ (fun s ie c => updatePDR_keeps s ie c) _
  · exact liftR_keeps _ (fun s ie c => queryURR_keeps s ie c) _

theorem estStages_keep (r : EstReq) : ∀ st ∈ estStages r, StageKeeps st := by
  intro st hst
  simp only [estStages, List.mem_cons, List.mem_nil_iff, or_false] at hst
  rcases hst with h | h | h | h | h <;> subst h
  · exact liftS_keeps _ (fun s ie c => createSimple_keeps s .far ie c) _
  · exact liftS_keeps _ (fun s ie c => createSimple_keeps s .qer ie c) _
  · exact liftS_keeps _ (fun s ie c => createURR_keeps s ie c) _
  · exact liftS_keeps _ (fun s ie c => createSimple_keeps s .bar ie c) _
  · exact liftS_keeps _ (fun s ie c => createPDR_keeps s ie c) _

/-! ### responses -/

/-- `sendRspTo`: at most one datagram, to the requester; only the receive-transaction table changes -/
theorem sendRsp_spec (st : State) (addr : String) (m : Msg) (c : Ctx) :
    ((st.sendRsp addr m c).2.outs = c.outs ∨ (st.sendRsp addr m c).2.outs = c.outs ++ [Out.send addr m]) ∧
    (st.sendRsp addr m c).1.lnode = st.lnode ∧ (st.sendRsp addr m c).1.nodes = st.nodes ∧
    (st.sendRsp addr m c).1.rnodes = st.rnodes ∧ (st.sendRsp addr m c).1.tx = st.tx ∧
    (st.sendRsp addr m c).1.txSeq = st.txSeq ∧ (st.sendRsp addr m c).1.cfg = st.cfg := by
  unfold State.sendRsp
  cases alGet st.rx (addr, m.seq) <;> simp [Ctx.emit]

/-- shape of a handler's output: driver calls, then at most one response to `addr` with sequence number `seq` -/
def HandlerOuts (addr : String) (seq : BitVec 24) (c c' : Ctx) : Prop :=
  ∃ mid : Ctx, DpExt c mid ∧ (c'.outs = mid.outs ∨ ∃ m : Msg, m.seq = seq ∧ c'.outs = mid.outs ++ [Out.send addr m])

theorem handlerOuts_of_sendRsp (st : State) (addr : String) (seq : BitVec 24) (m : Msg) (hm : m.seq = seq)
    (c mid : Ctx) (h : DpExt c mid) : HandlerOuts addr seq c (st.sendRsp addr m mid).2 := by
  refine ⟨mid, h, ?_⟩
  rcases (sendRsp_spec st addr m mid).1 with e | e
  · exact Or.inl e
  · exact Or.inr ⟨m, hm, e⟩

end UpfVerif.Core

namespace UpfVerif.Core

theorem emitOne_ids (s : Sess) (r : Report) (x : BitVec 32) (b : Bool) :
    (emitOne s r x b).1.localID = s.localID ∧ (emitOne s r x b).1.remoteID = s.remoteID ∧
    (emitOne s r x b).1.rnode = s.rnode ∧ (emitOne s r x b).1.pdrs = s.pdrs ∧
    (emitOne s r x b).1.fars = s.fars ∧ (emitOne s r x b).1.qers = s.qers ∧
    (emitOne s r x b).1.bars = s.bars ∧ (emitOne s r x b).1.q = s.q := by
  unfold emitOne
  split <;> exact ⟨rfl, rfl, rfl, rfl, rfl, rfl, rfl, rfl⟩

/-- the emission loop touches only the URR bookkeeping -/
theorem emitUsars_ids (s : Sess) (rs : List Report) (x : BitVec 32) (b : Bool) :
    (emitUsars s rs x b).1.localID = s.localID ∧ (emitUsars s rs x b).1.remoteID = s.remoteID ∧
    (emitUsars s rs x b).1.rnode = s.rnode ∧ (emitUsars s rs x b).1.pdrs = s.pdrs ∧
    (emitUsars s rs x b).1.fars = s.fars ∧ (emitUsars s rs x b).1.qers = s.qers ∧
    (emitUsars s rs x b).1.bars = s.bars ∧ (emitUsars s rs x b).1.q = s.q := by
  induction rs generalizing s with
  | nil => exact ⟨rfl, rfl, rfl, rfl, rfl, rfl, rfl, rfl⟩
  | cons r rs ih =>
    unfold emitUsars
    have h1 := emitOne_ids s r x b
    have h2 := ih (emitOne s r x b).1
    simp only []
    exact ⟨h2.1.trans h1.1, h2.2.1.trans h1.2.1, h2.2.2.1.trans h1.2.2.1, h2.2.2.2.1.trans h1.2.2.2.1,
      h2.2.2.2.2.1.trans h1.2.2.2.2.1, h2.2.2.2.2.2.1.trans h1.2.2.2.2.2.1,
      h2.2.2.2.2.2.2.1.trans h1.2.2.2.2.2.2.1, h2.2.2.2.2.2.2.2.trans h1.2.2.2.2.2.2.2⟩

theorem handleMod_outs (st : State) (addr : String) (seq : BitVec 24) (r : ModReq) (env : Env) (c : Ctx) :
    HandlerOuts addr seq c (handleMod st addr seq r env c).2 := by
  unfold handleMod
  split
  · exact handlerOuts_of_sendRsp st addr seq _ rfl c c (DpExt.refl c)
  · rename_i s0 _
    have hk := runStages_keeps (modStages r) (modStages_keep r) s0 c []
    generalize runStages (modStages r) s0 c [] = R at hk
    obtain ⟨s16, c16, u16⟩ := R
    simp only []
    exact handlerOuts_of_sendRsp _ addr seq _ rfl c c16 hk.2.2.2.toDpExt

/-- the Modification Response carries the control-plane SEID of the addressed session, or SEID 0 with cause
    'session context not found' when the header SEID resolves to no live session -/
theorem handleMod_rsp (st : State) (addr : String) (seq : BitVec 24) (r : ModReq) (env : Env) (c : Ctx) (m : Msg)
    (h : Out.send addr m ∈ (handleMod st addr seq r env c).2.outs) (hc : ∀ to m', Out.send to m' ∉ c.outs) :
    m.kind = .modRsp ∧ m.seq = seq ∧
    (match st.lnode.lookup r.seid with
     | none => m.seid = some 0 ∧ m.cause = some causeNoContext
     | some s0 => m.seid = some s0.remoteID ∧ m.cause = some causeAccepted) := by
  unfold handleMod at h
  split at h
  · rename_i hl
    rw [hl]
    rcases (sendRsp_spec st addr { kind := .modRsp, seq := seq, seid := some 0, cause := some causeNoContext } c).1 with e | e
    · rw [e] at h; exact absurd h (hc _ _)
    · rw [e] at h
      rcases List.mem_append.mp h with h | h
      · exact absurd h (hc _ _)
      · simp at h; subst h; simp
  · rename_i s0 hl
    rw [hl]
    have hk := runStages_keeps (modStages r) (modStages_keep r) s0 c []
    generalize runStages (modStages r) s0 c [] = R at hk h
    obtain ⟨s16, c16, u16⟩ := R
    simp only [] at h
    obtain ⟨hid, hrem, _, l, el, dl⟩ := hk
    have hno : ∀ to m', Out.send to m' ∉ c16.outs := by
      intro to m' hm
      rw [el] at hm
      rcases List.mem_append.mp hm with hm | hm
      · exact hc _ _ hm
      · obtain ⟨cc, a, he, _⟩ := dl _ hm; cases he
    generalize hrsp : ({ kind := MsgKind.modRsp, seq := seq, seid := some (emitUsars s16 u16 0 true).1.remoteID,
                         cause := some causeAccepted, usars := (emitUsars s16 u16 0 true).2 } : Msg) = rsp at h
    rcases (sendRsp_spec _ addr rsp c16).1 with e | e
    · rw [e] at h; exact absurd h (hno _ _)
    · rw [e] at h
      rcases List.mem_append.mp h with h | h
      · exact absurd h (hno _ _)
      · simp at h; subst h; subst hrsp
        refine ⟨rfl, rfl, ?_, rfl⟩
        simp only
        rw [(emitUsars_ids s16 u16 0 true).2.1, hrem]

end UpfVerif.Core

namespace UpfVerif.Core

theorem deleteSess_dpExt (st : State) (h : Nat) (x : Seid) (env : Env) (c : Ctx) :
    DpExt c (st.deleteSess h x env c).2.1 := by
  unfold State.deleteSess
  simp only []
  split
  · exact DpExt.refl c
  · split
    · exact DpExt.refl c
    · rename_i s _
      have hk := close_keeps s c
      generalize s.close c = R at hk
      obtain ⟨s', c', rs⟩ := R
      exact hk.2.2.2.toDpExt

theorem resetNode_dpExt (st : State) (h : Nat) (env : Env) (c : Ctx) : DpExt c (st.resetNode h env c).2 := by
  unfold State.resetNode
  simp only []
  generalize arrange (st.nodes.getD h default).sess env.sessOrder = order
  suffices ∀ (acc : State × Ctx), DpExt c acc.2 →
      DpExt c (order.foldl (fun (acc : State × Ctx) x =>
        ((acc.1.deleteSess h x env acc.2).1, (acc.1.deleteSess h x env acc.2).2.1)) acc).2 by
    have := this (st, c) (DpExt.refl c)
    simpa using this
  induction order with
  | nil => intro acc hacc; simpa using hacc
  | cons x xs ih =>
    intro acc hacc
    simp only [List.foldl_cons]
    apply ih
    exact hacc.trans (deleteSess_dpExt acc.1 h x env acc.2)

theorem handleDel_outs (st : State) (addr : String) (seq : BitVec 24) (x : Seid) (env : Env) (c : Ctx) :
    HandlerOuts addr seq c (handleDel st addr seq x env c).2 := by
  unfold handleDel
  split
  · exact handlerOuts_of_sendRsp st addr seq _ rfl c c (DpExt.refl c)
  · rename_i s0 _
    have hd := deleteSess_dpExt st s0.rnode x env c
    generalize st.deleteSess s0.rnode x env c = R at hd
    obtain ⟨st1, c1, s1, rs⟩ := R
    simp only []
    exact handlerOuts_of_sendRsp _ addr seq _ rfl c c1 hd

theorem handleEst_outs (st : State) (addr : String) (seq : BitVec 24) (r : EstReq) (env : Env) (c : Ctx) :
    HandlerOuts addr seq c (handleEst st addr seq r env c).2 := by
  unfold handleEst
  split
  · exact ⟨c, DpExt.refl c, Or.inl rfl⟩
  · split
    · exact ⟨c, DpExt.refl c, Or.inl rfl⟩
    · split
      · exact ⟨c, DpExt.refl c, Or.inl rfl⟩
      · rename_i nid _ h _ _ cp _
        generalize st.lnode.newSess h cp = N
        obtain ⟨ln, s0⟩ := N
        simp only []
        have hk := runStages_keeps (estStages r) (estStages_keep r) s0 c []
        generalize runStages (estStages r) s0 c [] = R at hk
        obtain ⟨s5, c5, u5⟩ := R
        simp only []
        exact handlerOuts_of_sendRsp _ addr seq _ rfl c c5 hk.2.2.2.toDpExt

theorem handleAssoc_outs (st : State) (addr : String) (seq : BitVec 24) (nid : Option NodeId) (env : Env) (c : Ctx) :
    HandlerOuts addr seq c (handleAssoc st addr seq nid env c).2 := by
  unfold handleAssoc
  split
  · exact ⟨c, DpExt.refl c, Or.inl rfl⟩
  · rename_i n
    simp only []
    split
    · rename_i h _
      have hr := resetNode_dpExt st h env c
      generalize st.resetNode h env c = R at hr
      obtain ⟨st', c'⟩ := R
      simp only []
      exact handlerOuts_of_sendRsp _ addr seq _ rfl c c' hr
    · simp only []
      exact handlerOuts_of_sendRsp _ addr seq _ rfl c c (DpExt.refl c)

theorem handleReq_outs (st : State) (addr : String) (seq : BitVec 24) (r : Req) (env : Env) (c : Ctx) :
    HandlerOuts addr seq c (handleReq st addr seq r env c).2 := by
  cases r with
  | heartbeat => exact handlerOuts_of_sendRsp st addr seq _ rfl c c (DpExt.refl c)
  | assoc nid => exact handleAssoc_outs st addr seq nid env c
  | est e => exact handleEst_outs st addr seq e env c
  | mod m => exact handleMod_outs st addr seq m env c
  | del x => exact handleDel_outs st addr seq x env c
  | other => exact ⟨c, DpExt.refl c, Or.inl rfl⟩

end UpfVerif.Core

namespace UpfVerif.Core

/-! ### frame facts: which tables a helper can touch -/

/-- everything but the session table, the node arena and the node-id map is untouched -/
def SameTrans (a b : State) : Prop := b.rx = a.rx ∧ b.tx = a.tx ∧ b.txSeq = a.txSeq ∧ b.cfg = a.cfg

theorem SameTrans.refl (a : State) : SameTrans a a := ⟨rfl, rfl, rfl, rfl⟩
theorem SameTrans.trans {a b c : State} (h1 : SameTrans a b) (h2 : SameTrans b c) : SameTrans a c :=
  ⟨h2.1.trans h1.1, h2.2.1.trans h1.2.1, h2.2.2.1.trans h1.2.2.1, h2.2.2.2.trans h1.2.2.2⟩

theorem setSess_same (st : State) (s : Sess) : SameTrans st (st.setSess s) := ⟨rfl, rfl, rfl, rfl⟩
theorem modNode_same (st : State) (h : Nat) (f : RNode → RNode) : SameTrans st (st.modNode h f) := ⟨rfl, rfl, rfl, rfl⟩
theorem updateNodeID_same (st : State) (h : Nat) (n : NodeId) : SameTrans st (st.updateNodeID h n) := ⟨rfl, rfl, rfl, rfl⟩

theorem deleteSess_same (st : State) (h : Nat) (x : Seid) (env : Env) (c : Ctx) :
    SameTrans st (st.deleteSess h x env c).1 := by
  unfold State.deleteSess
  simp only []
  split
  · exact SameTrans.refl st
  · split
    · exact ⟨rfl, rfl, rfl, rfl⟩
    · rename_i s _
      generalize s.close c = R
      obtain ⟨s', c', rs⟩ := R
      exact ⟨rfl, rfl, rfl, rfl⟩

theorem resetNode_same (st : State) (h : Nat) (env : Env) (c : Ctx) : SameTrans st (st.resetNode h env c).1 := by
  unfold State.resetNode
  simp only []
  generalize arrange (st.nodes.getD h default).sess env.sessOrder = order
  suffices ∀ (acc : State × Ctx), SameTrans st acc.1 →
      SameTrans st (order.foldl (fun (acc : State × Ctx) x =>
        ((acc.1.deleteSess h x env acc.2).1, (acc.1.deleteSess h x env acc.2).2.1)) acc).1 by
    have := this (st, c) (SameTrans.refl st)
    exact this.trans (modNode_same _ _ _)
  induction order with
  | nil => intro acc hacc; simpa using hacc
  | cons x xs ih =>
    intro acc hacc
    simp only [List.foldl_cons]
    apply ih
    exact hacc.trans (deleteSess_same acc.1 h x env acc.2)

/-- what `sendRspTo` does to the receive-transaction table -/
theorem sendRsp_rx (st : State) (addr : String) (m : Msg) (c : Ctx) :
    (st.sendRsp addr m c).1.rx = st.rx ∨ (st.sendRsp addr m c).1.rx = alSet st.rx (addr, m.seq) { rsp := some m } := by
  unfold State.sendRsp
  cases alGet st.rx (addr, m.seq) <;> simp

/-- a request handler changes the receive-transaction table at most by caching its response under the
    request's own key -/
def RxStep (addr : String) (seq : BitVec 24) (a b : State) : Prop :=
  b.rx = a.rx ∨ ∃ m : Msg, m.seq = seq ∧ b.rx = alSet a.rx (addr, seq) { rsp := some m }

theorem rxStep_of_sendRsp (st0 st : State) (hs : SameTrans st0 st) (addr : String) (seq : BitVec 24) (m : Msg)
    (hm : m.seq = seq) (c : Ctx) : RxStep addr seq st0 (st.sendRsp addr m c).1 := by
  rcases sendRsp_rx st addr m c with e | e
  · left; rw [e, hs.1]
  · right; exact ⟨m, hm, by rw [e, hs.1, hm]⟩

theorem handleReq_rx (st : State) (addr : String) (seq : BitVec 24) (r : Req) (env : Env) (c : Ctx) :
    RxStep addr seq st (handleReq st addr seq r env c).1 := by
  cases r with
  | heartbeat => exact rxStep_of_sendRsp st st (SameTrans.refl st) addr seq _ rfl c
  | other => exact Or.inl rfl
  | assoc nid =>
    simp only [handleReq]
    unfold handleAssoc
    split
    · exact Or.inl rfl
    · simp only []
      split
      · rename_i h _
        have hr := resetNode_same st h env c
        generalize st.resetNode h env c = R at hr
        obtain ⟨st', c'⟩ := R
        simp only []
        refine rxStep_of_sendRsp st _ ?_ addr seq _ ?_ _
        · exact ⟨hr.1, hr.2.1, hr.2.2.1, hr.2.2.2⟩
        · rfl
      · simp only []
        refine rxStep_of_sendRsp st _ ?_ addr seq _ ?_ _
        · exact ⟨rfl, rfl, rfl, rfl⟩
        · rfl
  | est e =>
    simp only [handleReq]
    unfold handleEst
    split
    · exact Or.inl rfl
    · split
      · exact Or.inl rfl
      · split
        · exact Or.inl rfl
        · rename_i nid _ h _ _ cp _
          generalize st.lnode.newSess h cp = N
          obtain ⟨ln, s0⟩ := N
          simp only []
          generalize runStages (estStages e) s0 c [] = R
          obtain ⟨s5, c5, u5⟩ := R
          simp only []
          refine rxStep_of_sendRsp st _ ?_ addr seq _ ?_ _
          · exact ⟨rfl, rfl, rfl, rfl⟩
          · rfl
  | mod m =>
    simp only [handleReq]
    unfold handleMod
    split
    · exact rxStep_of_sendRsp st st (SameTrans.refl st) addr seq _ rfl c
    · rename_i s0 _
      generalize runStages (modStages m) s0 c [] = R
      obtain ⟨s16, c16, u16⟩ := R
      simp only []
      refine rxStep_of_sendRsp st _ ?_ addr seq _ ?_ _
      · unfold State.takeover; cases m.nodeID <;> exact ⟨rfl, rfl, rfl, rfl⟩
      · rfl
  | del x =>
    simp only [handleReq]
    unfold handleDel
    split
    · exact rxStep_of_sendRsp st st (SameTrans.refl st) addr seq _ rfl c
    · rename_i s0 _
      have hd := deleteSess_same st s0.rnode x env c
      generalize st.deleteSess s0.rnode x env c = R at hd
      obtain ⟨st1, c1, s1, rs⟩ := R
      simp only []
      refine rxStep_of_sendRsp st _ hd addr seq _ ?_ _
      rfl

/-- requests received never touch the transmit transactions or the request counter -/
def TxSame (a b : State) : Prop := b.tx = a.tx ∧ b.txSeq = a.txSeq

theorem txSame_of_sendRsp (st0 st : State) (hs : SameTrans st0 st) (addr : String) (seq : BitVec 24) (m : Msg)
    (_hm : m.seq = seq) (c : Ctx) : TxSame st0 (st.sendRsp addr m c).1 := by
  unfold State.sendRsp
  cases alGet st.rx (addr, m.seq) with
  | none => exact ⟨hs.2.1, hs.2.2.1⟩
  | some _ => exact ⟨hs.2.1, hs.2.2.1⟩

theorem handleReq_tx (st : State) (addr : String) (seq : BitVec 24) (r : Req) (env : Env) (c : Ctx) :
    TxSame st (handleReq st addr seq r env c).1 := by
  cases r with
  | heartbeat => exact txSame_of_sendRsp st st (SameTrans.refl st) addr seq _ rfl c
  | other => exact ⟨rfl, rfl⟩
  | assoc nid =>
    simp only [handleReq]
    unfold handleAssoc
    split
    · exact ⟨rfl, rfl⟩
    · simp only []
      split
      · rename_i h _
        have hr := resetNode_same st h env c
        generalize st.resetNode h env c = R at hr
        obtain ⟨st', c'⟩ := R
        simp only []
        refine txSame_of_sendRsp st _ ?_ addr seq _ ?_ _
        · exact ⟨hr.1, hr.2.1, hr.2.2.1, hr.2.2.2⟩
        · rfl
      · simp only []
        refine txSame_of_sendRsp st _ ?_ addr seq _ ?_ _
        · exact ⟨rfl, rfl, rfl, rfl⟩
        · rfl
  | est e =>
    simp only [handleReq]
    unfold handleEst
    split
    · exact ⟨rfl, rfl⟩
    · split
      · exact ⟨rfl, rfl⟩
      · split
        · exact ⟨rfl, rfl⟩
        · rename_i nid _ h _ _ cp _
          generalize st.lnode.newSess h cp = N
          obtain ⟨ln, s0⟩ := N
          simp only []
          generalize runStages (estStages e) s0 c [] = R
          obtain ⟨s5, c5, u5⟩ := R
          simp only []
          refine txSame_of_sendRsp st _ ?_ addr seq _ ?_ _
          · exact ⟨rfl, rfl, rfl, rfl⟩
          · rfl
  | mod m =>
    simp only [handleReq]
    unfold handleMod
    split
    · exact txSame_of_sendRsp st st (SameTrans.refl st) addr seq _ rfl c
    · rename_i s0 _
      generalize runStages (modStages m) s0 c [] = R
      obtain ⟨s16, c16, u16⟩ := R
      simp only []
      refine txSame_of_sendRsp st _ ?_ addr seq _ ?_ _
      · unfold State.takeover; cases m.nodeID <;> exact ⟨rfl, rfl, rfl, rfl⟩
      · rfl
  | del x =>
    simp only [handleReq]
    unfold handleDel
    split
    · exact txSame_of_sendRsp st st (SameTrans.refl st) addr seq _ rfl c
    · rename_i s0 _
      have hd := deleteSess_same st s0.rnode x env c
      generalize st.deleteSess s0.rnode x env c = R at hd
      obtain ⟨st1, c1, s1, rs⟩ := R
      simp only []
      refine txSame_of_sendRsp st _ hd addr seq _ ?_ _
      rfl

end UpfVerif.Core

namespace UpfVerif.Core

theorem sendReq_rx (st : State) (addr : String) (m : Msg) (c : Ctx) : (st.sendReq addr m c).1.rx = st.rx := rfl

theorem serveLoop_rx (x : Seid) (dest : String) :
    ∀ (items : List RepItem) (st : State) (c : Ctx) (us : List Report), (serveLoop x dest items st c us).1.rx = st.rx
  | [], st, c, us => rfl
  | .usar r :: rest, st, c, us => by
    unfold serveLoop
    exact serveLoop_rx x dest rest st c _
  | .dldr pdr act pkt :: rest, st, c, us => by
    unfold serveLoop
    simp only []
    have h1 : (st.pushPkt x pdr act pkt).rx = st.rx := by
      unfold State.pushPkt
      split
      · split <;> rfl
      · rfl
    split
    · exact h1
    · split
      · rw [serveLoop_rx x dest rest]; exact h1
      · rw [serveLoop_rx x dest rest]; exact h1

theorem serveReport_rx (st : State) (x : Seid) (items : List RepItem) (c : Ctx) :
    (serveReport st x items c).1.rx = st.rx := by
  unfold serveReport
  split
  · rfl
  · split
    · rfl
    · rename_i dest _
      have h := serveLoop_rx x dest items st c []
      generalize serveLoop x dest items st c [] = R at h
      obtain ⟨st1, c1, o⟩ := R
      cases o with
      | none => exact h
      | some us =>
        simp only []
        split
        · exact h
        · split
          · exact h
          · simp only [sendReq_rx]
            exact h

end UpfVerif.Core

namespace UpfVerif.Core

/-- driver calls of a Modification Request are tagged with the SEID of the session the header SEID resolved to -/
theorem handleMod_tagged (st : State) (addr : String) (seq : BitVec 24) (r : ModReq) (env : Env) (c : Ctx) (s0 : Sess)
    (h : st.lnode.lookup r.seid = some s0) :
    ∃ l, (∀ o ∈ l, ∃ cc a, o = Out.dp cc a ∧ cc.seid = s0.localID) ∧
      ((handleMod st addr seq r env c).2.outs = c.outs ++ l ∨
       ∃ m, (handleMod st addr seq r env c).2.outs = c.outs ++ l ++ [Out.send addr m]) := by
  unfold handleMod
  simp only [h]
  have hk := runStages_keeps (modStages r) (modStages_keep r) s0 c []
  generalize runStages (modStages r) s0 c [] = R at hk
  obtain ⟨s16, c16, u16⟩ := R
  simp only [] at hk ⊢
  obtain ⟨_, _, _, l, el, dl⟩ := hk
  refine ⟨l, dl, ?_⟩
  generalize hrsp : ({ kind := MsgKind.modRsp, seq := seq, seid := some (emitUsars s16 u16 0 true).1.remoteID,
                       cause := some causeAccepted, usars := (emitUsars s16 u16 0 true).2 } : Msg) = rsp
  have key : ∀ stX : State, ((stX.sendRsp addr rsp c16).2.outs = c.outs ++ l ∨
      ∃ m, (stX.sendRsp addr rsp c16).2.outs = c.outs ++ l ++ [Out.send addr m]) := by
    intro stX
    rcases (sendRsp_spec stX addr rsp c16).1 with e | e
    · left; rw [e, el]
    · right; exact ⟨rsp, by rw [e, el]⟩
  exact key _

/-- … and it rewrites exactly one slot of the session table: that session's -/
theorem handleMod_lnode (st : State) (addr : String) (seq : BitVec 24) (r : ModReq) (env : Env) (c : Ctx) (s0 : Sess)
    (h : st.lnode.lookup r.seid = some s0) :
    ∃ s' : Sess, s'.localID = s0.localID ∧ s'.remoteID = s0.remoteID ∧ s'.rnode = s0.rnode ∧
      (handleMod st addr seq r env c).1.lnode = st.lnode.setSess s' := by
  unfold handleMod
  simp only [h]
  have hk := runStages_keeps (modStages r) (modStages_keep r) s0 c []
  generalize runStages (modStages r) s0 c [] = R at hk
  obtain ⟨s16, c16, u16⟩ := R
  simp only [] at hk ⊢
  obtain ⟨hid, hrid, hnode, _⟩ := hk
  have he := emitUsars_ids s16 u16 0 true
  refine ⟨(emitUsars s16 u16 0 true).1, by rw [he.1, hid], by rw [he.2.1, hrid], by rw [he.2.2.1, hnode], ?_⟩
  rw [(sendRsp_spec _ addr _ c16).2.1]
  simp [State.setSess]

end UpfVerif.Core
