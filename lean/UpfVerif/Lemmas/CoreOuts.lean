import UpfVerif.Model.Core
import UpfVerif.Lemmas.Core
/-
What a `Sess` method can add to the output of a handler: only driver calls, each tagged with the session's own
SEID; the session keeps its SEIDs and its node.  These facts carry C05 (tagging), C08 (the response is the only
datagram of a request) and C01.
-/
namespace UpfVerif.Core

/-- every element of `l` is a driver call tagged `x` -/
def DpOnly (x : Seid) (l : List Out) : Prop := ∀ o ∈ l, ∃ c a, o = Out.dp c a ∧ c.seid = x

/-- `c'` extends `c` by driver calls tagged `x` -/
def Ext (x : Seid) (c c' : Ctx) : Prop := ∃ l, c'.outs = c.outs ++ l ∧ DpOnly x l

theorem Ext.refl (x : Seid) (c : Ctx) : Ext x c c := ⟨[], by simp, by intro o ho; cases ho⟩

theorem Ext.trans {x : Seid} {a b c : Ctx} (h1 : Ext x a b) (h2 : Ext x b c) : Ext x a c := by
  obtain ⟨l1, e1, d1⟩ := h1
  obtain ⟨l2, e2, d2⟩ := h2
  refine ⟨l1 ++ l2, by rw [e2, e1, List.append_assoc], ?_⟩
  intro o ho
  rcases List.mem_append.mp ho with h | h
  · exact d1 o h
  · exact d2 o h

theorem call_ext (c : Ctx) (call : DpCall) : Ext call.seid c (c.call call).1 := by
  unfold Ctx.call
  cases h : c.pending with
  | nil => exact ⟨[.dp call { ok := false }], by simp, by intro o ho; simp at ho; exact ⟨call, _, ho, rfl⟩⟩
  | cons p rest => exact ⟨[.dp call p.2], by simp, by intro o ho; simp at ho; exact ⟨call, _, ho, rfl⟩⟩

/-- the shape every `Sess` method has: same SEIDs and node, context extended by calls tagged with the SEID -/
def Keeps (s s' : Sess) (c c' : Ctx) : Prop :=
  s'.localID = s.localID ∧ s'.remoteID = s.remoteID ∧ s'.rnode = s.rnode ∧ Ext s.localID c c'

theorem Keeps.refl (s : Sess) (c : Ctx) : Keeps s s c c := ⟨rfl, rfl, rfl, Ext.refl _ _⟩

theorem Keeps.trans {s s' s'' : Sess} {c c' c'' : Ctx} (h1 : Keeps s s' c c') (h2 : Keeps s' s'' c' c'') :
    Keeps s s'' c c'' := by
  obtain ⟨a1, b1, n1, e1⟩ := h1
  obtain ⟨a2, b2, n2, e2⟩ := h2
  refine ⟨by rw [a2, a1], by rw [b2, b1], by rw [n2, n1], ?_⟩
  rw [a1] at e2
  exact e1.trans e2

theorem createSimple_keeps (s : Sess) (k : Kind) (ie : RuleIE) (c : Ctx) :
    Keeps s (s.createSimple k ie c).1 c (s.createSimple k ie c).2 := by
  unfold Sess.createSimple
  cases ie.id with
  | none => exact Keeps.refl s c
  | some id =>
    refine ⟨?_, ?_, ?_, call_ext c _⟩ <;> cases k <;> rfl

theorem updateSimple_keeps (s : Sess) (k : Kind) (ie : RuleIE) (c : Ctx) :
    Keeps s (s.updateSimple k ie c).1 c (s.updateSimple k ie c).2 := by
  unfold Sess.updateSimple
  cases ie.id with
  | none => exact Keeps.refl s c
  | some id =>
    by_cases h : id ∈ s.ids k
    · simp only [h, if_true]; exact ⟨rfl, rfl, rfl, call_ext c _⟩
    · simp only [h, if_false]; exact Keeps.refl s c

theorem removeSimple_keeps (s : Sess) (k : Kind) (ie : RuleIE) (c : Ctx) :
    Keeps s (s.removeSimple k ie c).1 c (s.removeSimple k ie c).2 := by
  unfold Sess.removeSimple
  cases ie.id with
  | none => exact Keeps.refl s c
  | some id =>
    by_cases h : id ∈ s.ids k
    · simp only [h, if_true]
      by_cases ha : (c.call { seid := s.localID, op := .remove, kind := k, id := id }).2.ok
      · simp only [ha, if_true]
        refine ⟨?_, ?_, ?_, call_ext c _⟩ <;> cases k <;> rfl
      · simp only [ha]; exact ⟨rfl, rfl, rfl, call_ext c _⟩
    · simp only [h, if_false]; exact Keeps.refl s c

theorem createPDR_keeps (s : Sess) (ie : RuleIE) (c : Ctx) :
    Keeps s (s.createPDR ie c).1 c (s.createPDR ie c).2 := by
  unfold Sess.createPDR
  exact ⟨rfl, rfl, rfl, call_ext c _⟩

theorem createURR_keeps (s : Sess) (ie : RuleIE) (c : Ctx) :
    Keeps s (s.createURR ie c).1 c (s.createURR ie c).2 := by
  unfold Sess.createURR
  cases ie.id with
  | none => exact Keeps.refl s c
  | some id => exact ⟨rfl, rfl, rfl, call_ext c _⟩

theorem diassociate_keeps (s : Sess) (u : Nat) (c : Ctx) :
    Keeps s (s.diassociate u c).1 c (s.diassociate u c).2.1 := by
  unfold Sess.diassociate
  cases alGet s.urrs u with
  | none => exact Keeps.refl s c
  | some info =>
    by_cases h1 : info.refPdrNum > 0
    · simp only [h1, if_true]
      by_cases h2 : ({ info with refPdrNum := info.refPdrNum - 1 } : URRInfo).refPdrNum == 0
      · simp only [h2, if_true]
        by_cases h3 : (c.call { seid := s.localID, op := .query, kind := .urr, id := u }).2.ok
        · simp only [h3, if_true]; exact ⟨rfl, rfl, rfl, call_ext c _⟩
        · simp only [h3]; exact ⟨rfl, rfl, rfl, call_ext c _⟩
      · simp only [h2]; exact ⟨rfl, rfl, rfl, Ext.refl _ _⟩
    · simp only [h1, if_false]; exact Keeps.refl s c

/-- `rangeMap` over a body that keeps the session -/
theorem rangeMap_keeps {τ : Type} (x : Seid) (op : Op) (kind : Kind)
    (body : Nat → Sess × τ → Ctx → (Sess × τ) × Ctx)
    (hb : ∀ k st c, Keeps st.1 (body k st c).1.1 c (body k st c).2) :
    ∀ fuel keys st c, Keeps st.1 (rangeMap x op kind body fuel keys st c).1.1 c (rangeMap x op kind body fuel keys st c).2
  | 0, _, st, c => Keeps.refl _ _
  | fuel + 1, keys, st, c => by
    unfold rangeMap
    cases c.pick x op kind keys with
    | none => exact Keeps.refl _ _
    | some k => exact (hb k st c).trans (rangeMap_keeps x op kind body hb fuel _ _ _)

theorem rangeMap_keeps' (x : Seid) (op : Op) (kind : Kind)
    (body : Nat → Sess → Ctx → Sess × Ctx)
    (hb : ∀ k st c, Keeps st (body k st c).1 c (body k st c).2) :
    ∀ fuel keys st c, Keeps st (rangeMap x op kind body fuel keys st c).1 c (rangeMap x op kind body fuel keys st c).2
  | 0, _, st, c => Keeps.refl _ _
  | fuel + 1, keys, st, c => by
    unfold rangeMap
    cases c.pick x op kind keys with
    | none => exact Keeps.refl _ _
    | some k => exact (hb k st c).trans (rangeMap_keeps' x op kind body hb fuel _ _ _)

theorem diassociateAll_keeps (s : Sess) (us : List Nat) (c : Ctx) :
    Keeps s (s.diassociateAll us c).1 c (s.diassociateAll us c).2.1 := by
  unfold Sess.diassociateAll
  exact rangeMap_keeps s.localID .query .urr _ (fun u acc c => diassociate_keeps acc.1 u c) _ _ (s, []) c

theorem foldSimple_keeps (f : Sess → RuleIE → Ctx → Sess × Ctx)
    (hf : ∀ s ie c, Keeps s (f s ie c).1 c (f s ie c).2) :
    ∀ ies s c, Keeps s (foldSimple f ies s c).1 c (foldSimple f ies s c).2 := by
  intro ies
  induction ies with
  | nil => intro s c; exact Keeps.refl s c
  | cons ie ies ih =>
    intro s c
    have : foldSimple f (ie :: ies) s c = foldSimple f ies (f s ie c).1 (f s ie c).2 := by
      simp [foldSimple, List.foldl]
    rw [this]
    exact (hf s ie c).trans (ih _ _)

theorem foldRep_keeps (f : Sess → RuleIE → Ctx → Sess × Ctx × List Report)
    (hf : ∀ s ie c, Keeps s (f s ie c).1 c (f s ie c).2.1) :
    ∀ ies s c rs, Keeps s (foldRep f ies s c rs).1 c (foldRep f ies s c rs).2.1 := by
  intro ies
  induction ies with
  | nil => intro s c rs; exact Keeps.refl s c
  | cons ie ies ih =>
    intro s c rs
    have : foldRep f (ie :: ies) s c rs = foldRep f ies (f s ie c).1 (f s ie c).2.1 (rs ++ (f s ie c).2.2) := by
      simp [foldRep, List.foldl]
    rw [this]
    exact (hf s ie c).trans (ih _ _ _)

end UpfVerif.Core

namespace UpfVerif.Core

theorem updatePDR_keeps (s : Sess) (ie : RuleIE) (c : Ctx) :
    Keeps s (s.updatePDR ie c).1 c (s.updatePDR ie c).2.1 := by
  unfold Sess.updatePDR
  simp only []
  split
  · exact Keeps.refl s c
  · rename_i old _
    split
    · exact ⟨rfl, rfl, rfl, call_ext c _⟩
    · have h1 : Keeps s s c (c.call { seid := s.localID, op := .update, kind := .pdr, id := ie.id.getD 0 }).1 :=
        ⟨rfl, rfl, rfl, call_ext c _⟩
      have h2 := diassociateAll_keeps s (old.filter (· ∉ ie.urrs.eraseDups))
        (c.call { seid := s.localID, op := .update, kind := .pdr, id := ie.id.getD 0 }).1
      obtain ⟨a, b, n, e⟩ := h1.trans h2
      exact ⟨a, b, n, e⟩

theorem removePDR_keeps (s : Sess) (ie : RuleIE) (c : Ctx) :
    Keeps s (s.removePDR ie c).1 c (s.removePDR ie c).2.1 := by
  unfold Sess.removePDR
  split
  · exact Keeps.refl s c
  · rename_i pdrid _
    split
    · exact Keeps.refl s c
    · rename_i us _
      simp only []
      split
      · exact ⟨rfl, rfl, rfl, call_ext c _⟩
      · have h1 : Keeps s ({ s with pdrs := (alDel s.pdrs pdrid), q := alDel s.q pdrid } : Sess) c
            (c.call { seid := s.localID, op := .remove, kind := .pdr, id := pdrid }).1 :=
          ⟨rfl, rfl, rfl, call_ext c _⟩
        have h2 := diassociateAll_keeps ({ s with pdrs := (alDel s.pdrs pdrid), q := alDel s.q pdrid } : Sess) us
          (c.call { seid := s.localID, op := .remove, kind := .pdr, id := pdrid }).1
        exact h1.trans h2

theorem updateURR_keeps (s : Sess) (ie : RuleIE) (c : Ctx) :
    Keeps s (s.updateURR ie c).1 c (s.updateURR ie c).2.1 := by
  unfold Sess.updateURR
  cases ie.id with
  | none => exact Keeps.refl s c
  | some id =>
    simp only
    cases alGet s.urrs id with
    | none => exact Keeps.refl s c
    | some info =>
      simp only
      split <;> exact ⟨rfl, rfl, rfl, call_ext c _⟩

theorem removeURR_keeps (s : Sess) (ie : RuleIE) (c : Ctx) :
    Keeps s (s.removeURR ie c).1 c (s.removeURR ie c).2.1 := by
  unfold Sess.removeURR
  cases ie.id with
  | none => exact Keeps.refl s c
  | some id =>
    simp only
    cases alGet s.urrs id with
    | none => exact Keeps.refl s c
    | some info =>
      simp only
      split <;> exact ⟨rfl, rfl, rfl, call_ext c _⟩

theorem queryURR_keeps (s : Sess) (ie : RuleIE) (c : Ctx) :
    Keeps s (s.queryURR ie c).1 c (s.queryURR ie c).2.1 := by
  unfold Sess.queryURR
  cases ie.id with
  | none => exact Keeps.refl s c
  | some id =>
    simp only
    cases alGet s.urrs id with
    | none => exact Keeps.refl s c
    | some info =>
      simp only
      split <;> exact ⟨rfl, rfl, rfl, call_ext c _⟩

theorem close_keeps (s : Sess) (c : Ctx) : Keeps s (s.close c).1 c (s.close c).2.1 := by
  unfold Sess.close
  simp only
  have k1 := rangeMap_keeps' s.localID .remove .far (fun id (s : Sess) c => s.removeSimple .far { id := some id } c)
    (fun k st c => removeSimple_keeps st .far _ c) s.fars.length s.fars s c
  generalize hs1 : rangeMap s.localID .remove .far (fun id (s : Sess) c => s.removeSimple .far { id := some id } c) s.fars.length s.fars s c = r1 at k1
  have k2 := rangeMap_keeps' s.localID .remove .qer (fun id (s : Sess) c => s.removeSimple .qer { id := some id } c)
    (fun k st c => removeSimple_keeps st .qer _ c) r1.1.qers.length r1.1.qers r1.1 r1.2
  generalize hs2 : rangeMap s.localID .remove .qer (fun id (s : Sess) c => s.removeSimple .qer { id := some id } c) r1.1.qers.length r1.1.qers r1.1 r1.2 = r2 at k2
  have k3 := rangeMap_keeps s.localID .remove .urr (fun id (acc : Sess × List Report) c =>
      (((acc.1.removeURR { id := some id } c).1, acc.2 ++ ((acc.1.removeURR { id := some id } c).2.2).getD []),
       (acc.1.removeURR { id := some id } c).2.1))
    (fun k st c => removeURR_keeps st.1 _ c) (r2.1.urrs.map (·.1)).length (r2.1.urrs.map (·.1)) (r2.1, []) r2.2
  generalize hs3 : rangeMap s.localID .remove .urr (fun id (acc : Sess × List Report) c =>
      (((acc.1.removeURR { id := some id } c).1, acc.2 ++ ((acc.1.removeURR { id := some id } c).2.2).getD []),
       (acc.1.removeURR { id := some id } c).2.1)) (r2.1.urrs.map (·.1)).length (r2.1.urrs.map (·.1)) (r2.1, []) r2.2 = r3 at k3
  have k4 := rangeMap_keeps' s.localID .remove .bar (fun id (s : Sess) c => s.removeSimple .bar { id := some id } c)
    (fun k st c => removeSimple_keeps st .bar _ c) r3.1.1.bars.length r3.1.1.bars r3.1.1 r3.2
  generalize hs4 : rangeMap s.localID .remove .bar (fun id (s : Sess) c => s.removeSimple .bar { id := some id } c) r3.1.1.bars.length r3.1.1.bars r3.1.1 r3.2 = r4 at k4
  have k5 := rangeMap_keeps s.localID .remove .pdr (fun id (acc : Sess × List Report) c =>
      (((acc.1.removePDR { id := some id } c).1, acc.2 ++ (acc.1.removePDR { id := some id } c).2.2),
       (acc.1.removePDR { id := some id } c).2.1))
    (fun k st c => removePDR_keeps st.1 _ c) (r4.1.pdrs.map (·.1)).length (r4.1.pdrs.map (·.1)) (r4.1, r3.1.2) r4.2
  have := (((k1.trans k2).trans k3).trans k4).trans k5
  obtain ⟨a, b, n, e⟩ := this
  exact ⟨a, b, n, e⟩

end UpfVerif.Core
