import UpfVerif.Model.Flags
/- bit-level helper lemmas shared by C19, C02, C03 -/
namespace UpfVerif.Bits
open UpfVerif.Flags

theorem ofNat_two_pow (w k : Nat) : BitVec.ofNat w (2 ^ k) = BitVec.twoPow w k := by
  apply BitVec.eq_of_toNat_eq
  simp [BitVec.toNat_twoPow]

/-- `flags & (1 << k) != 0` reads bit `k` -/
theorem test_two_pow {w : Nat} (f : BitVec w) (k : Nat) (hk : k < w) :
    test f (2 ^ k) = f.getLsbD k := by
  unfold test
  rw [ofNat_two_pow, BitVec.and_twoPow]
  by_cases h : f.getLsbD k
  · simp only [h, if_true]
    have : BitVec.twoPow w k ≠ 0#w := by
      intro hc
      have := congrArg BitVec.toNat hc
      simp [BitVec.toNat_twoPow] at this
      have h2 : 2 ^ k < 2 ^ w := Nat.pow_lt_pow_right (by decide) hk
      have h3 : 2 ^ k % 2 ^ w = 2 ^ k := Nat.mod_eq_of_lt h2
      have h4 : 0 < 2 ^ k := Nat.pow_pos (by decide)
      omega
    simpa using this
  · simp [h]

end UpfVerif.Bits
