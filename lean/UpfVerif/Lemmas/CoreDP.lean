import UpfVerif.Spec.DataPlane
import UpfVerif.Lemmas.CoreOuts
/-
The per-session half of C01's invariant: every data-plane entry tagged with a session's SEID is recorded in
that session's id maps (and a recorded URR that is still in the data plane is not marked `removed`).
`Pres s s' c c'` says a `Sess` method keeps this invariant along the driver calls it makes, for every table and
every answer stream that respects the fault model (`Spec.natural`).
-/
namespace UpfVerif.Core
open UpfVerif.Spec

def NotRemoved (s : Sess) (i : Nat) : Prop := ∀ info, alGet s.urrs i = some info → info.removed = false

def SInv (s : Sess) (dp : DP) : Prop :=
  ∀ k i, (s.localID, k, i) ∈ dp → i ∈ s.ids k ∧ (k = Kind.urr → NotRemoved s i)

def Pres (s s' : Sess) (c c' : Ctx) : Prop :=
  s'.localID = s.localID ∧ ∃ l, c'.outs = c.outs ++ l ∧ DpOnly s.localID l ∧
    ∀ dp, SInv s dp → natural dp l → SInv s' (dpRun dp l)

theorem Pres.refl (s : Sess) (c : Ctx) : Pres s s c c :=
  ⟨rfl, [], by simp, (fun o ho => by cases ho), (fun dp h _ => by simpa [dpRun] using h)⟩

theorem Pres.trans {s s' s'' : Sess} {c c' c'' : Ctx} (h1 : Pres s s' c c') (h2 : Pres s' s'' c' c'') :
    Pres s s'' c c'' := by
  obtain ⟨a1, l1, e1, d1, p1⟩ := h1
  obtain ⟨a2, l2, e2, d2, p2⟩ := h2
  refine ⟨by rw [a2, a1], l1 ++ l2, by rw [e2, e1, List.append_assoc], ?_, ?_⟩
  · intro o ho
    rcases List.mem_append.mp ho with h | h
    · exact d1 o h
    · rw [a1] at d2; exact d2 o h
  · intro dp hs hn
    rw [natural_append] at hn
    rw [dpRun_append]
    exact p2 _ (p1 dp hs hn.1) hn.2

/-! ### facts about the table after one call -/

theorem mem_dpApply (dp : DP) (c : DpCall) (a : DpAns) (e : Seid × Kind × Nat) (h : e ∈ dpApply dp c a) :
    e ∈ dp ∨ (a.ok = true ∧ c.op = .create ∧ e = key c) := by
  unfold dpApply at h
  by_cases hok : a.ok
  · simp only [hok, Bool.not_true, Bool.false_eq_true, if_false] at h
    cases hop : c.op with
    | create =>
      simp only [hop] at h
      by_cases hk : key c ∈ dp
      · simp only [hk, if_true] at h; exact Or.inl h
      · simp only [hk, if_false] at h
        rcases List.mem_append.mp h with h | h
        · exact Or.inl h
        · simp at h; exact Or.inr ⟨hok, rfl, h⟩
    | remove => simp only [hop] at h; exact Or.inl (List.mem_filter.mp h).1
    | update => simp only [hop] at h; exact Or.inl h
    | query => simp only [hop] at h; exact Or.inl h
  · simp only [hok, Bool.not_false, if_true] at h; exact Or.inl h

theorem not_mem_dpApply_remove (dp : DP) (c : DpCall) (a : DpAns) (hop : c.op = .remove)
    (hn : a.ok = false → key c ∉ dp) : key c ∉ dpApply dp c a := by
  unfold dpApply
  by_cases hok : a.ok
  · simp only [hok, Bool.not_true, Bool.false_eq_true, if_false, hop]
    intro h
    have := (List.mem_filter.mp h).2
    simp at this
  · have hok' : a.ok = false := by simpa using hok
    simp only [hok', Bool.not_false, if_true]
    exact hn hok'

/-- the one-call step all method lemmas go through -/
theorem sinv_call (s s' : Sess) (dp : DP) (call : DpCall) (a : DpAns) (hx : s'.localID = s.localID)
    (hs : call.seid = s.localID) (h : SInv s dp)
    (hnat : call.op = .remove → a.ok = false → key call ∉ dp)
    (hkeep : ∀ k i, (s.localID, k, i) ∈ dp → (call.op = .remove ∧ k = call.kind ∧ i = call.id) ∨
        (i ∈ s'.ids k ∧ (k = Kind.urr → NotRemoved s' i)))
    (hnew : a.ok = true → call.op = .create → call.id ∈ s'.ids call.kind ∧ (call.kind = Kind.urr → NotRemoved s' call.id)) :
    SInv s' (dpApply dp call a) := by
  intro k i hm
  rw [hx] at hm
  rcases mem_dpApply dp call a _ hm with hin | ⟨hok, hop, he⟩
  · rcases hkeep k i hin with ⟨hop, hk, hi⟩ | hgood
    · exfalso
      have hkey : (s.localID, k, i) = key call := by simp [key, hs, hk, hi]
      rw [hkey] at hm
      exact not_mem_dpApply_remove dp call a hop (hnat hop) hm
    · exact hgood
  · simp only [key, Prod.mk.injEq] at he
    obtain ⟨_, hk, hi⟩ := he
    subst hk; subst hi
    exact hnew hok hop

/-- a method that makes exactly one call -/
theorem pres_one_call (s s' : Sess) (c : Ctx) (call : DpCall) (hx : s'.localID = s.localID) (hs : call.seid = s.localID)
    (hstep : ∀ dp, SInv s dp → (call.op = .remove → (c.call call).2.ok = false → key call ∉ dp) →
      SInv s' (dpApply dp call (c.call call).2)) :
    Pres s s' c (c.call call).1 := by
  refine ⟨hx, [.dp call (c.call call).2], ?_, ?_, ?_⟩
  · unfold Ctx.call; cases c.pending <;> simp
  · intro o ho; simp at ho; exact ⟨call, _, ho, hs⟩
  · intro dp hsv hn
    simp only [dpRun]
    simp only [natural] at hn
    exact hstep dp hsv hn.1

end UpfVerif.Core

namespace UpfVerif.Core
open UpfVerif.Spec

/-! ### key sets of the association lists -/

theorem mem_setIns [DecidableEq α] (l : List α) (a b : α) : a ∈ setIns l b ↔ a = b ∨ a ∈ l := by
  unfold setIns
  by_cases h : b ∈ l
  · simp only [h, if_true]
    constructor
    · intro ha; exact Or.inr ha
    · rintro (ha | ha)
      · subst ha; exact h
      · exact ha
  · simp only [h, if_false, List.mem_append, List.mem_singleton]
    constructor
    · rintro (ha | ha)
      · exact Or.inr ha
      · exact Or.inl ha
    · rintro (ha | ha)
      · exact Or.inr ha
      · exact Or.inl ha

theorem keys_alSet [DecidableEq κ] (l : List (κ × ν)) (k k' : κ) (v : ν) :
    k' ∈ (alSet l k v).map (·.1) ↔ k' = k ∨ k' ∈ l.map (·.1) := by
  induction l with
  | nil => simp [alSet]
  | cons p l ih =>
    by_cases hp : p.1 = k
    · have e : alSet (p :: l) k v = (k, v) :: l := by simp [alSet, hp]
      rw [e]
      simp only [List.map_cons, List.mem_cons, hp]
      constructor
      · rintro (h | h)
        · exact Or.inl h
        · exact Or.inr (Or.inr h)
      · rintro (h | h | h)
        · exact Or.inl h
        · exact Or.inl h
        · exact Or.inr h
    · have e : alSet (p :: l) k v = p :: alSet l k v := by
        have hb : (p.1 == k) = false := by simpa using hp
        simp [alSet, hb]
      rw [e]
      simp only [List.map_cons, List.mem_cons, ih]
      constructor
      · rintro (h | h | h)
        · exact Or.inr (Or.inl h)
        · exact Or.inl h
        · exact Or.inr (Or.inr h)
      · rintro (h | h | h)
        · exact Or.inr (Or.inl h)
        · exact Or.inl h
        · exact Or.inr (Or.inr h)

theorem keys_alDel [DecidableEq κ] (l : List (κ × ν)) (k k' : κ) :
    k' ∈ (alDel l k).map (·.1) ↔ k' ≠ k ∧ k' ∈ l.map (·.1) := by
  unfold alDel
  simp only [List.mem_map, List.mem_filter]
  constructor
  · rintro ⟨p, ⟨hp, hne⟩, rfl⟩
    exact ⟨by simpa using hne, p, hp, rfl⟩
  · rintro ⟨hne, p, hp, rfl⟩
    exact ⟨p, ⟨hp, by simpa using hne⟩, rfl⟩

/-- SInv only looks at the id sets and the `removed` flags -/
theorem sinv_mono (s s' : Sess) (dp : DP) (hx : s'.localID = s.localID) (h : SInv s dp)
    (hids : ∀ k i, i ∈ s.ids k → i ∈ s'.ids k)
    (hrem : ∀ i, i ∈ s.ids .urr → NotRemoved s i → NotRemoved s' i) : SInv s' dp := by
  intro k i hm
  rw [hx] at hm
  obtain ⟨h1, h2⟩ := h k i hm
  refine ⟨hids k i h1, ?_⟩
  intro hk
  subst hk
  exact hrem i h1 (h2 rfl)

theorem ids_far (s : Sess) : s.ids .far = s.fars := rfl
theorem ids_qer (s : Sess) : s.ids .qer = s.qers := rfl
theorem ids_bar (s : Sess) : s.ids .bar = s.bars := rfl
theorem ids_urr (s : Sess) : s.ids .urr = s.urrs.map (·.1) := rfl
theorem ids_pdr (s : Sess) : s.ids .pdr = s.pdrs.map (·.1) := rfl

/-! ### methods -/

theorem updateLike_pres (s : Sess) (c : Ctx) (op : Op) (k : Kind) (id : Nat) (hop : op = .update ∨ op = .query) :
    Pres s s c (c.call { seid := s.localID, op := op, kind := k, id := id }).1 := by
  apply pres_one_call s s c _ rfl rfl
  intro dp hs _
  apply sinv_call s s dp _ _ rfl rfl hs
  · intro h; rcases hop with h' | h' <;> simp [h'] at h
  · intro k' i hm; exact Or.inr (hs k' i hm)
  · intro _ h; rcases hop with h' | h' <;> simp [h'] at h

theorem createSimple_pres (s : Sess) (k : Kind) (hk : k = .far ∨ k = .qer ∨ k = .bar) (ie : RuleIE) (c : Ctx) :
    Pres s (s.createSimple k ie c).1 c (s.createSimple k ie c).2 := by
  unfold Sess.createSimple
  cases ie.id with
  | none => exact Pres.refl s c
  | some id =>
    simp only []
    apply pres_one_call s _ c _ (by rcases hk with h | h | h <;> subst h <;> rfl) rfl
    intro dp hs hnat
    apply sinv_call s _ dp _ _ (by rcases hk with h | h | h <;> subst h <;> rfl) rfl hs hnat
    · intro k' i hm
      right
      obtain ⟨h1, h2⟩ := hs k' i hm
      rcases hk with h | h | h <;> subst h
      · refine ⟨?_, fun hk' => by subst hk'; exact h2 rfl⟩
        cases k' <;> simp_all [Sess.ids, mem_setIns]
      · refine ⟨?_, fun hk' => by subst hk'; exact h2 rfl⟩
        cases k' <;> simp_all [Sess.ids, mem_setIns]
      · refine ⟨?_, fun hk' => by subst hk'; exact h2 rfl⟩
        cases k' <;> simp_all [Sess.ids, mem_setIns]
    · intro _ _
      rcases hk with h | h | h <;> subst h <;> simp [Sess.ids, mem_setIns]

theorem updateSimple_pres (s : Sess) (k : Kind) (ie : RuleIE) (c : Ctx) :
    Pres s (s.updateSimple k ie c).1 c (s.updateSimple k ie c).2 := by
  unfold Sess.updateSimple
  cases ie.id with
  | none => exact Pres.refl s c
  | some id =>
    simp only []
    split
    · exact updateLike_pres s c .update k id (Or.inl rfl)
    · exact Pres.refl s c

theorem removeSimple_pres (s : Sess) (k : Kind) (hk : k = .far ∨ k = .qer ∨ k = .bar) (ie : RuleIE) (c : Ctx) :
    Pres s (s.removeSimple k ie c).1 c (s.removeSimple k ie c).2 := by
  unfold Sess.removeSimple
  cases ie.id with
  | none => exact Pres.refl s c
  | some id =>
    simp only []
    split
    · by_cases hok : (c.call { seid := s.localID, op := .remove, kind := k, id := id }).2.ok
      · simp only [hok, if_true]
        apply pres_one_call s _ c _ (by rcases hk with h | h | h <;> subst h <;> rfl) rfl
        intro dp hs hnat
        apply sinv_call s _ dp _ _ (by rcases hk with h | h | h <;> subst h <;> rfl) rfl hs hnat
        · intro k' i hm
          obtain ⟨h1, h2⟩ := hs k' i hm
          by_cases hsame : k' = k ∧ i = id
          · exact Or.inl ⟨rfl, hsame.1, hsame.2⟩
          · right
            rcases hk with h | h | h <;> subst h
            · refine ⟨?_, fun hk' => by subst hk'; exact h2 rfl⟩
              cases k' <;> simp_all [Sess.ids]
            · refine ⟨?_, fun hk' => by subst hk'; exact h2 rfl⟩
              cases k' <;> simp_all [Sess.ids]
            · refine ⟨?_, fun hk' => by subst hk'; exact h2 rfl⟩
              cases k' <;> simp_all [Sess.ids]
        · intro _ h; simp at h
      · simp only [hok]
        apply pres_one_call s s c _ rfl rfl
        intro dp hs hnat
        apply sinv_call s s dp _ _ rfl rfl hs hnat
        · intro k' i hm; exact Or.inr (hs k' i hm)
        · intro _ h; simp at h
    · exact Pres.refl s c

end UpfVerif.Core

namespace UpfVerif.Core
open UpfVerif.Spec

theorem alGet_some_mem_keys [DecidableEq κ] (l : List (κ × ν)) (k : κ) (v : ν) (h : alGet l k = some v) :
    k ∈ l.map (·.1) := by
  induction l with
  | nil => simp [alGet] at h
  | cons p l ih =>
    by_cases hp : p.1 = k
    · simp [hp]
    · have hb : (p.1 == k) = false := by simpa using hp
      simp only [alGet, hb, Bool.false_eq_true, if_false] at h
      simp [ih h]

theorem alGet_map [DecidableEq κ] (l : List (κ × ν)) (g : κ → ν → ν) (k : κ) :
    alGet (l.map fun p => (p.1, g p.1 p.2)) k = (alGet l k).map (g k) := by
  induction l with
  | nil => rfl
  | cons p l ih =>
    by_cases hp : p.1 = k
    · simp [alGet, hp]
    · have hb : (p.1 == k) = false := by simpa using hp
      simp [alGet, hb, ih]

theorem bumpRef_keys (us : List (Nat × URRInfo)) (u : Nat) : (bumpRef us u).map (·.1) = us.map (·.1) := by
  unfold bumpRef
  simp [List.map_map, Function.comp_def]

theorem bumpRef_removed (us : List (Nat × URRInfo)) (u i : Nat) (info : URRInfo) (h : alGet (bumpRef us u) i = some info) :
    ∃ info0, alGet us i = some info0 ∧ info0.removed = info.removed := by
  unfold bumpRef at h
  rw [alGet_map us (fun k v => if k == u then { v with refPdrNum := v.refPdrNum + 1 } else v) i] at h
  cases h0 : alGet us i with
  | none => rw [h0] at h; simp at h
  | some info0 =>
    rw [h0] at h
    simp only [Option.map_some, Option.some.injEq] at h
    refine ⟨info0, rfl, ?_⟩
    rw [← h]
    split <;> rfl

theorem foldl_bumpRef_keys (l : List Nat) (us : List (Nat × URRInfo)) :
    (l.foldl bumpRef us).map (·.1) = us.map (·.1) := by
  induction l generalizing us with
  | nil => rfl
  | cons u l ih => simp only [List.foldl_cons]; rw [ih, bumpRef_keys]

theorem foldl_bumpRef_removed (l : List Nat) (us : List (Nat × URRInfo)) (i : Nat) (info : URRInfo)
    (h : alGet (l.foldl bumpRef us) i = some info) : ∃ info0, alGet us i = some info0 ∧ info0.removed = info.removed := by
  induction l generalizing us with
  | nil => exact ⟨info, h, rfl⟩
  | cons u l ih =>
    simp only [List.foldl_cons] at h
    obtain ⟨i1, h1, r1⟩ := ih _ h
    obtain ⟨i0, h0, r0⟩ := bumpRef_removed us u i i1 h1
    exact ⟨i0, h0, r0.trans r1⟩

/-- replacing the URR list by one with the same keys and `removed` flags, and growing the PDR keys, keeps SInv -/
theorem sinv_urrs_same (s s' : Sess) (dp : DP) (hx : s'.localID = s.localID) (h : SInv s dp)
    (hf : s'.fars = s.fars) (hq : s'.qers = s.qers) (hb : s'.bars = s.bars)
    (hp : ∀ i, i ∈ s.pdrs.map (·.1) → i ∈ s'.pdrs.map (·.1))
    (hk : s'.urrs.map (·.1) = s.urrs.map (·.1))
    (hr : ∀ i info, alGet s'.urrs i = some info → ∃ info0, alGet s.urrs i = some info0 ∧ info0.removed = info.removed) :
    SInv s' dp := by
  apply sinv_mono s s' dp hx h
  · intro k i hi
    cases k
    · exact hp i hi
    · simpa [Sess.ids, hf] using hi
    · simpa [Sess.ids, hq] using hi
    · simpa [Sess.ids, hk] using hi
    · simpa [Sess.ids, hb] using hi
  · intro i _ hnr info hinfo
    obtain ⟨info0, h0, hr0⟩ := hr i info hinfo
    rw [← hr0]; exact hnr info0 h0

theorem createPDR_pres (s : Sess) (ie : RuleIE) (c : Ctx) :
    Pres s (s.createPDR ie c).1 c (s.createPDR ie c).2 := by
  unfold Sess.createPDR
  simp only []
  apply pres_one_call s ({ s with urrs := (ie.urrs.eraseDups.foldl bumpRef s.urrs), pdrs := (alSet s.pdrs (ie.id.getD 0) ie.urrs.eraseDups) } : Sess) c _ rfl rfl
  intro dp hs hnat
  have hs' : SInv ({ s with urrs := (ie.urrs.eraseDups.foldl bumpRef s.urrs), pdrs := (alSet s.pdrs (ie.id.getD 0) ie.urrs.eraseDups) } : Sess) dp := by
    apply sinv_urrs_same s _ dp (by rfl) hs (by rfl) (by rfl) (by rfl)
    · intro i hi; exact (keys_alSet _ _ _ _).mpr (Or.inr hi)
    · exact foldl_bumpRef_keys _ _
    · intro i info hinfo; exact foldl_bumpRef_removed _ _ i info hinfo
  apply sinv_call _ _ dp _ _ (by rfl) (by rfl) hs' hnat
  · intro k i hm; exact Or.inr (hs' k i hm)
  · intro _ _
    refine ⟨?_, fun h => by cases h⟩
    exact (keys_alSet _ _ _ _).mpr (Or.inl rfl)

theorem createURR_pres (s : Sess) (ie : RuleIE) (c : Ctx) :
    Pres s (s.createURR ie c).1 c (s.createURR ie c).2 := by
  unfold Sess.createURR
  cases ie.id with
  | none => exact Pres.refl s c
  | some id =>
    simp only []
    let info : URRInfo := { durat := (ie.meth.getD (false, false)).1, volum := (ie.meth.getD (false, false)).2, mnop := (ie.mnop.getD false),
                            refPdrNum := (s.pdrs.filter fun p => p.2.contains id).length }
    apply pres_one_call s ({ s with urrs := (alSet s.urrs id info) } : Sess) c _ rfl rfl
    intro dp hs hnat
    apply sinv_call s _ dp _ _ (by rfl) (by rfl) hs hnat
    · intro k i hm
      right
      obtain ⟨h1, h2⟩ := hs k i hm
      refine ⟨?_, ?_⟩
      · cases k
        · exact h1
        · exact h1
        · exact h1
        · exact (keys_alSet _ _ _ _).mpr (Or.inr h1)
        · exact h1
      · intro hk info hinfo
        subst hk
        by_cases hi : i = id
        · subst hi; simp at hinfo; rw [← hinfo]
        · rw [alGet_alSet_other _ _ _ _ hi] at hinfo
          exact h2 rfl info hinfo
    · intro _ _
      refine ⟨(keys_alSet _ _ _ _).mpr (Or.inl rfl), ?_⟩
      intro _ info hinfo
      simp at hinfo; rw [← hinfo]

end UpfVerif.Core

namespace UpfVerif.Core
open UpfVerif.Spec

/-- changing one URR's bookkeeping without touching its `removed` flag -/
theorem sinv_urr_update (s : Sess) (dp : DP) (u : Nat) (info info' : URRInfo) (h : SInv s dp)
    (hget : alGet s.urrs u = some info) (hr : info'.removed = info.removed) :
    SInv ({ s with urrs := (alSet s.urrs u info') } : Sess) dp := by
  apply sinv_urrs_same s _ dp (by rfl) h (by rfl) (by rfl) (by rfl)
  · intro i hi; exact hi
  · apply List.ext_getElem?
    intro n
    -- same key list: alSet of an existing key keeps the keys
    have : ∀ (l : List (Nat × URRInfo)), (∃ v, alGet l u = some v) → (alSet l u info').map (·.1) = l.map (·.1) := by
      intro l
      induction l with
      | nil => intro ⟨v, hv⟩; simp [alGet] at hv
      | cons p l ih =>
        intro ⟨v, hv⟩
        by_cases hp : p.1 = u
        · simp [alSet, hp]
        · have hb : (p.1 == u) = false := by simpa using hp
          simp only [alGet, hb, Bool.false_eq_true, if_false] at hv
          simp [alSet, hb, ih ⟨v, hv⟩]
    rw [this s.urrs ⟨info, hget⟩]
  · intro i inf hinf
    by_cases hi : i = u
    · subst hi
      simp at hinf
      exact ⟨info, hget, by rw [← hinf, hr]⟩
    · rw [alGet_alSet_other _ _ _ _ hi] at hinf
      exact ⟨inf, hinf, rfl⟩

theorem diassociate_pres (s : Sess) (u : Nat) (c : Ctx) :
    Pres s (s.diassociate u c).1 c (s.diassociate u c).2.1 := by
  unfold Sess.diassociate
  split
  · exact Pres.refl s c
  · rename_i info hget
    split
    · simp only []
      split
      · -- the count reached zero: query
        have h1 : Pres s ({ s with urrs := (alSet s.urrs u { info with refPdrNum := info.refPdrNum - 1 }) } : Sess) c c :=
          ⟨rfl, [], by simp, (fun o ho => by cases ho), (fun dp h _ => by
            simpa [dpRun] using sinv_urr_update s dp u info { info with refPdrNum := info.refPdrNum - 1 } h hget rfl)⟩
        have h2 := updateLike_pres ({ s with urrs := (alSet s.urrs u { info with refPdrNum := info.refPdrNum - 1 }) } : Sess)
          c .query .urr u (Or.inr rfl)
        have := h1.trans h2
        split <;> exact this
      · exact ⟨rfl, [], by simp, (fun o ho => by cases ho), (fun dp h _ => by
            simpa [dpRun] using sinv_urr_update s dp u info { info with refPdrNum := info.refPdrNum - 1 } h hget rfl)⟩
    · exact Pres.refl s c

theorem rangeMap_pres {τ : Type} (x : Seid) (op : Op) (kind : Kind)
    (body : Nat → Sess × τ → Ctx → (Sess × τ) × Ctx)
    (hb : ∀ k st c, Pres st.1 (body k st c).1.1 c (body k st c).2) :
    ∀ fuel keys st c, Pres st.1 (rangeMap x op kind body fuel keys st c).1.1 c (rangeMap x op kind body fuel keys st c).2
  | 0, _, st, c => Pres.refl _ _
  | fuel + 1, keys, st, c => by
    unfold rangeMap
    cases c.pick x op kind keys with
    | none => exact Pres.refl _ _
    | some k => exact (hb k st c).trans (rangeMap_pres x op kind body hb fuel _ _ _)

theorem rangeMap_pres' (x : Seid) (op : Op) (kind : Kind)
    (body : Nat → Sess → Ctx → Sess × Ctx)
    (hb : ∀ k st c, Pres st (body k st c).1 c (body k st c).2) :
    ∀ fuel keys st c, Pres st (rangeMap x op kind body fuel keys st c).1 c (rangeMap x op kind body fuel keys st c).2
  | 0, _, st, c => Pres.refl _ _
  | fuel + 1, keys, st, c => by
    unfold rangeMap
    cases c.pick x op kind keys with
    | none => exact Pres.refl _ _
    | some k => exact (hb k st c).trans (rangeMap_pres' x op kind body hb fuel _ _ _)

theorem diassociateAll_pres (s : Sess) (us : List Nat) (c : Ctx) :
    Pres s (s.diassociateAll us c).1 c (s.diassociateAll us c).2.1 := by
  unfold Sess.diassociateAll
  exact rangeMap_pres s.localID .query .urr _ (fun u acc c => diassociate_pres acc.1 u c) _ _ (s, []) c

end UpfVerif.Core

namespace UpfVerif.Core
open UpfVerif.Spec

theorem removePDR_pres (s : Sess) (ie : RuleIE) (c : Ctx) :
    Pres s (s.removePDR ie c).1 c (s.removePDR ie c).2.1 := by
  unfold Sess.removePDR
  split
  · exact Pres.refl s c
  · rename_i pdrid _
    split
    · exact Pres.refl s c
    · rename_i us _
      simp only []
      split
      · -- the driver refused: nothing changes
        apply pres_one_call s s c _ (by rfl) (by rfl)
        intro dp hs hnat
        apply sinv_call s s dp _ _ (by rfl) (by rfl) hs hnat
        · intro k i hm; exact Or.inr (hs k i hm)
        · intro _ h; simp at h
      · have h1 : Pres s ({ s with pdrs := (alDel s.pdrs pdrid), q := alDel s.q pdrid } : Sess) c
            (c.call { seid := s.localID, op := .remove, kind := .pdr, id := pdrid }).1 := by
          apply pres_one_call s _ c _ (by rfl) (by rfl)
          intro dp hs hnat
          apply sinv_call s _ dp _ _ (by rfl) (by rfl) hs hnat
          · intro k i hm
            obtain ⟨h1, h2⟩ := hs k i hm
            by_cases hsame : k = Kind.pdr ∧ i = pdrid
            · exact Or.inl ⟨rfl, hsame.1, hsame.2⟩
            · right
              refine ⟨?_, fun hk => by subst hk; exact h2 rfl⟩
              cases k
              · have hne : i ≠ pdrid := fun hc => hsame ⟨rfl, hc⟩
                exact (keys_alDel _ _ _).mpr ⟨hne, h1⟩
              · exact h1
              · exact h1
              · exact h1
              · exact h1
          · intro _ h; simp at h
        exact h1.trans (diassociateAll_pres _ us _)

theorem pres_bump_pdrs (s2 : Sess) (c2 : Ctx) (l : List Nat) (pid : Nat) (newU : List Nat) :
    Pres s2 ({ s2 with urrs := (l.foldl bumpRef s2.urrs), pdrs := (alSet s2.pdrs pid newU) } : Sess) c2 c2 :=
  ⟨rfl, [], by simp, (fun o ho => by cases ho), (fun dp h _ => by
    simp only [dpRun]
    apply sinv_urrs_same s2 _ dp (by rfl) h (by rfl) (by rfl) (by rfl)
    · intro i hi; exact (keys_alSet _ _ _ _).mpr (Or.inr hi)
    · exact foldl_bumpRef_keys _ _
    · intro i info hinfo; exact foldl_bumpRef_removed _ _ i info hinfo)⟩

theorem updatePDR_pres (s : Sess) (ie : RuleIE) (c : Ctx) :
    Pres s (s.updatePDR ie c).1 c (s.updatePDR ie c).2.1 := by
  unfold Sess.updatePDR
  simp only []
  split
  · exact Pres.refl s c
  · rename_i old _
    split
    · exact updateLike_pres s c .update .pdr _ (Or.inl rfl)
    · have h1 := updateLike_pres s c .update .pdr (ie.id.getD 0) (Or.inl rfl)
      have h2 := diassociateAll_pres s (old.filter (· ∉ ie.urrs.eraseDups))
        (c.call { seid := s.localID, op := .update, kind := .pdr, id := ie.id.getD 0 }).1
      generalize s.diassociateAll (old.filter (· ∉ ie.urrs.eraseDups))
        (c.call { seid := s.localID, op := .update, kind := .pdr, id := ie.id.getD 0 }).1 = R at h2
      obtain ⟨s2, c2, rs⟩ := R
      simp only [] at h2 ⊢
      exact (h1.trans h2).trans (pres_bump_pdrs s2 c2 _ _ _)

theorem updateURR_pres (s : Sess) (ie : RuleIE) (c : Ctx) :
    Pres s (s.updateURR ie c).1 c (s.updateURR ie c).2.1 := by
  unfold Sess.updateURR
  split
  · exact Pres.refl s c
  · rename_i id _
    split
    · exact Pres.refl s c
    · rename_i info hget
      simp only []
      generalize hinfo2 : info.applyUpdate ie = info2
      have hr : info2.removed = info.removed := by
        subst hinfo2
        unfold URRInfo.applyUpdate
        cases ie.mnop <;> cases ie.meth <;> rfl
      have h1 : Pres s ({ s with urrs := (alSet s.urrs id info2) } : Sess) c c :=
        ⟨rfl, [], by simp, (fun o ho => by cases ho), (fun dp h _ => by
          simpa [dpRun] using sinv_urr_update s dp id info info2 h hget hr)⟩
      have h2 := updateLike_pres ({ s with urrs := (alSet s.urrs id info2) } : Sess) c .update .urr id (Or.inl rfl)
      have := h1.trans h2
      split <;> exact this

theorem queryURR_pres (s : Sess) (ie : RuleIE) (c : Ctx) :
    Pres s (s.queryURR ie c).1 c (s.queryURR ie c).2.1 := by
  unfold Sess.queryURR
  split
  · exact Pres.refl s c
  · rename_i id _
    split
    · exact Pres.refl s c
    · simp only []
      have := updateLike_pres s c .query .urr id (Or.inr rfl)
      split <;> exact this

theorem removeURR_pres (s : Sess) (ie : RuleIE) (c : Ctx) :
    Pres s (s.removeURR ie c).1 c (s.removeURR ie c).2.1 := by
  unfold Sess.removeURR
  split
  · exact Pres.refl s c
  · rename_i id _
    split
    · exact Pres.refl s c
    · rename_i info hget
      simp only []
      have h1 : Pres s ({ s with urrs := (alSet s.urrs id { info with removed := true }) } : Sess) c
          (c.call { seid := s.localID, op := .remove, kind := .urr, id := id }).1 := by
        apply pres_one_call s _ c _ (by rfl) (by rfl)
        intro dp hs hnat
        apply sinv_call s _ dp _ _ (by rfl) (by rfl) hs hnat
        · intro k i hm
          obtain ⟨h1, h2⟩ := hs k i hm
          by_cases hsame : k = Kind.urr ∧ i = id
          · exact Or.inl ⟨rfl, hsame.1, hsame.2⟩
          · right
            refine ⟨?_, ?_⟩
            · cases k
              · exact h1
              · exact h1
              · exact h1
              · exact (keys_alSet _ _ _ _).mpr (Or.inr h1)
              · exact h1
            · intro hk inf hinf
              subst hk
              have hne : i ≠ id := fun hc => hsame ⟨rfl, hc⟩
              rw [alGet_alSet_other _ _ _ _ hne] at hinf
              exact h2 rfl inf hinf
        · intro _ h; simp at h
      split <;> exact h1

end UpfVerif.Core

namespace UpfVerif.Core
open UpfVerif.Spec

theorem foldSimple_pres (f : Sess → RuleIE → Ctx → Sess × Ctx)
    (hf : ∀ s ie c, Pres s (f s ie c).1 c (f s ie c).2) :
    ∀ ies s c, Pres s (foldSimple f ies s c).1 c (foldSimple f ies s c).2 := by
  intro ies
  induction ies with
  | nil => intro s c; exact Pres.refl s c
  | cons ie ies ih =>
    intro s c
    have : foldSimple f (ie :: ies) s c = foldSimple f ies (f s ie c).1 (f s ie c).2 := by
      simp [foldSimple, List.foldl]
    rw [this]
    exact (hf s ie c).trans (ih _ _)

theorem foldRep_pres (f : Sess → RuleIE → Ctx → Sess × Ctx × List Report)
    (hf : ∀ s ie c, Pres s (f s ie c).1 c (f s ie c).2.1) :
    ∀ ies s c rs, Pres s (foldRep f ies s c rs).1 c (foldRep f ies s c rs).2.1 := by
  intro ies
  induction ies with
  | nil => intro s c rs; exact Pres.refl s c
  | cons ie ies ih =>
    intro s c rs
    have : foldRep f (ie :: ies) s c rs = foldRep f ies (f s ie c).1 (f s ie c).2.1 (rs ++ (f s ie c).2.2) := by
      simp [foldRep, List.foldl]
    rw [this]
    exact (hf s ie c).trans (ih _ _ _)

def StagePres (st : Stage) : Prop := ∀ s c rs, Pres s (st s c rs).1 c (st s c rs).2.1

theorem runStages_pres (stages : List Stage) (h : ∀ st ∈ stages, StagePres st) :
    ∀ s c rs, Pres s (runStages stages s c rs).1 c (runStages stages s c rs).2.1 := by
  induction stages with
  | nil => intro s c rs; exact Pres.refl s c
  | cons st stages ih =>
    intro s c rs
    have e : runStages (st :: stages) s c rs = runStages stages (st s c rs).1 (st s c rs).2.1 (st s c rs).2.2 := by
      simp [runStages, List.foldl]
    rw [e]
    exact (h st (by simp) s c rs).trans (ih (fun st' hst' => h st' (by simp [hst'])) _ _ _)

theorem modStages_pres (r : ModReq) : ∀ st ∈ modStages r, StagePres st := by
  intro st hst
  simp only [modStages, List.mem_cons, List.mem_nil_iff, or_false] at hst
  rcases hst with h | h | h | h | h | h | h | h | h | h | h | h | h | h | h | h <;> subst h
  · intro s c rs; exact foldSimple_pres _ (fun s ie c => createSimple_pres s .far (Or.inl rfl) ie c) _ s c
  · intro s c rs; exact foldSimple_pres _ (fun s ie c => createSimple_pres s .qer (Or.inr (Or.inl rfl)) ie c) _ s c
  · intro s c rs; exact foldSimple_pres _ (fun s ie c => createURR_pres s ie c) _ s c
  · intro s c rs; exact foldSimple_pres _ (fun s ie c => createSimple_pres s .bar (Or.inr (Or.inr rfl)) ie c) _ s c
  · intro s c rs; exact foldSimple_pres _ (fun s ie c => createPDR_pres s ie c) _ s c
  · intro s c rs; exact foldSimple_pres _ (fun s ie c => removeSimple_pres s .far (Or.inl rfl) ie c) _ s c
  · intro s c rs; exact foldSimple_pres _ (fun s ie c => removeSimple_pres s .qer (Or.inr (Or.inl rfl)) ie c) _ s c
  · intro s c rs; exact foldRep_pres _ (fun s ie c => removeURR_pres s ie c) _ s c rs
  · intro s c rs; exact foldSimple_pres _ (fun s ie c => removeSimple_pres s .bar (Or.inr (Or.inr rfl)) ie c) _ s c
  · intro s c rs; exact foldRep_pres _ (fun s ie c => removePDR_pres s ie c) _ s c rs
  · intro s c rs; exact foldSimple_pres _ (fun s ie c => updateSimple_pres s .far ie c) _ s c
  · intro s c rs; exact foldSimple_pres _ (fun s ie c => updateSimple_pres s .qer ie c) _ s c
  · intro s c rs; exact foldRep_pres _ (fun s ie c => updateURR_pres s ie c) _ s c rs
  · intro s c rs; exact foldSimple_pres _ (fun s ie c => updateSimple_pres s .bar ie c) _ s c
  · intro s c rs; exact foldRep_pres _ (fun s ie c => updatePDR_pres s ie c) _ s c rs
  · intro s c rs; exact foldRep_pres _ (fun s ie c => queryURR_pres s ie c) _ s c rs

theorem estStages_pres (r : EstReq) : ∀ st ∈ estStages r, StagePres st := by
  intro st hst
  simp only [estStages, List.mem_cons, List.mem_nil_iff, or_false] at hst
  rcases hst with h | h | h | h | h <;> subst h
  · intro s c rs; exact foldSimple_pres _ (fun s ie c => createSimple_pres s .far (Or.inl rfl) ie c) _ s c
  · intro s c rs; exact foldSimple_pres _ (fun s ie c => createSimple_pres s .qer (Or.inr (Or.inl rfl)) ie c) _ s c
  · intro s c rs; exact foldSimple_pres _ (fun s ie c => createURR_pres s ie c) _ s c
  · intro s c rs; exact foldSimple_pres _ (fun s ie c => createSimple_pres s .bar (Or.inr (Or.inr rfl)) ie c) _ s c
  · intro s c rs; exact foldSimple_pres _ (fun s ie c => createPDR_pres s ie c) _ s c

/-- the emission loop drops only URR entries marked `removed` — which, by the invariant, are no longer in the
    data plane — so it keeps the invariant -/
theorem emitOne_sinv (s : Sess) (r : Report) (x : BitVec 32) (b : Bool) (dp : DP) (h : SInv s dp) :
    SInv (emitOne s r x b).1 dp := by
  unfold emitOne
  split
  · exact h
  · rename_i info hget
    simp only []
    split
    · rename_i hdrop
      have hrm : info.removed = true := by
        simp only [Bool.and_eq_true] at hdrop; exact hdrop.2
      intro k i hm
      obtain ⟨h1, h2⟩ := h k i hm
      refine ⟨?_, ?_⟩
      · cases k
        · exact h1
        · exact h1
        · exact h1
        · apply (keys_alDel _ _ _).mpr
          refine ⟨?_, h1⟩
          intro hc
          subst hc
          have := h2 rfl info hget
          rw [hrm] at this; cases this
        · exact h1
      · intro hk inf hinf
        subst hk
        by_cases hi : i = r.urr
        · subst hi; simp at hinf
        · rw [alGet_alDel_other _ _ _ hi] at hinf
          exact h2 rfl inf hinf
    · exact sinv_urr_update s dp r.urr info { info with seqn := info.seqn + 1 } h hget rfl

theorem emitUsars_sinv (s : Sess) (rs : List Report) (x : BitVec 32) (b : Bool) (dp : DP) (h : SInv s dp) :
    SInv (emitUsars s rs x b).1 dp := by
  induction rs generalizing s with
  | nil => exact h
  | cons r rs ih =>
    unfold emitUsars
    exact ih _ (emitOne_sinv s r x b dp h)

end UpfVerif.Core
