import UpfVerif.Model.Gtpu
import UpfVerif.Spec.GtpuRef
/- helper lemmas for C14 (byte order, nibble/mask round trips) -/
namespace UpfVerif.GtpuLemmas
open UpfVerif.Gtpu UpfVerif.GtpuRef

/-! ### byte-order lemmas -/

theorem u32_be32 (t : BitVec 32) :
    (match be32 t with
     | [a, b, c, d] => u32 a b c d
     | _ => 0) = t.toNat := by
  simp only [be32, u32]
  simp [BitVec.toNat_setWidth, BitVec.toNat_ushiftRight, Nat.shiftRight_eq_div_pow]
  have := t.isLt
  show ((t.toNat / 16777216 % 256 * 256 + t.toNat / 65536 % 256) * 256 + t.toNat / 256 % 256) * 256
    + t.toNat % 256 = t.toNat
  omega

theorem u16_be16 (n : Nat) (h : n < 65536) :
    (match be16 (BitVec.ofNat 16 n) with
     | [a, b] => u16 a b
     | _ => 0) = n := by
  simp only [be16, u16]
  simp [BitVec.toNat_setWidth, BitVec.toNat_ushiftRight, BitVec.toNat_ofNat, Nat.shiftRight_eq_div_pow]
  show n % 65536 / 256 % 256 * 256 + n % 256 = n
  omega

theorem pt_roundtrip' : ∀ pt : Byte, pt < 16#8 → (pt <<< 4).toNat >>> 4 = pt.toNat := by decide
theorem qfi_roundtrip' : ∀ q : Byte, q < 64#8 → q.toNat &&& 63 &&& 63 = q.toNat := by decide
theorem pt_roundtrip : ∀ pt : Byte, pt < 16#8 → ((pt <<< 4) >>> 4).toNat = pt.toNat := by decide
theorem qfi_roundtrip : ∀ q : Byte, q < 64#8 → ((q &&& 0x3f#8) &&& 0x3f#8).toNat = q.toNat := by decide



theorem u16_be16' (n : Nat) (h : n < 65536) :
    u16 (BitVec.setWidth 8 (BitVec.ofNat 16 n >>> 8)) (BitVec.ofNat 8 n) = n := by
  have := u16_be16 n h
  simpa [be16] using this

end UpfVerif.GtpuLemmas
