import UpfVerif.Model.Xlate
import UpfVerif.Spec.Gtp5gRead
import UpfVerif.Lemmas.Netlink
/-
Helper lemmas for Props/C02 and Props/C03: reading attributes by type out of lists built by `flatMap` over child IEs,
and "the value reads back" for each go-nl value constructor.
-/
namespace UpfVerif.XlateL
open UpfVerif.Netlink UpfVerif.Gtp5gRead

theorem leaves_append (a b : List Attr) (t : Nat) : leaves (a ++ b) t = leaves a t ++ leaves b t := by
  simp [leaves, List.filterMap_append]

theorem nests_append (a b : List Attr) (t : Nat) : nests (a ++ b) t = nests a t ++ nests b t := by
  simp [nests, List.filterMap_append]

theorem leaves_cons (a : Attr) (b : List Attr) (t : Nat) : leaves (a :: b) t = (leafOf t a).toList ++ leaves b t := by
  simp [leaves, List.filterMap_cons]; cases leafOf t a <;> simp

theorem nests_cons (a : Attr) (b : List Attr) (t : Nat) : nests (a :: b) t = (nestOf t a).toList ++ nests b t := by
  simp [nests, List.filterMap_cons]; cases nestOf t a <;> simp

@[simp] theorem leaves_nil (t : Nat) : leaves [] t = [] := rfl
@[simp] theorem nests_nil (t : Nat) : nests [] t = [] := rfl

theorem flatMap_opt {α β γ : Type} (g : α → Option β) (h : β → γ) (cs : List α) :
    cs.flatMap (fun c => ((g c).map h).toList) = (cs.filterMap g).map h := by
  induction cs with
  | nil => rfl
  | cons c cs ih =>
    simp only [List.flatMap_cons, List.filterMap_cons, ih]
    cases g c <;> simp

/-- reading leaf attributes of type `t` out of a `flatMap` over children -/
theorem leaves_of {α β : Type} (f : α → List Attr) (g : α → Option β) (h : β → Bytes) (t : Nat)
    (hf : ∀ c, leaves (f c) t = ((g c).map h).toList) (cs : List α) :
    leaves (cs.flatMap f) t = (cs.filterMap g).map h := by
  rw [← flatMap_opt]
  induction cs with
  | nil => rfl
  | cons c cs ih => simp only [List.flatMap_cons, leaves_append, ih, hf]

theorem nests_of {α β : Type} (f : α → List Attr) (g : α → Option β) (h : β → List Attr) (t : Nat)
    (hf : ∀ c, nests (f c) t = ((g c).map h).toList) (cs : List α) :
    nests (cs.flatMap f) t = (cs.filterMap g).map h := by
  rw [← flatMap_opt]
  induction cs with
  | nil => rfl
  | cons c cs ih => simp only [List.flatMap_cons, nests_append, ih, hf]

/-- no attribute of type `t` comes out of the children -/
theorem leaves_none {α : Type} (f : α → List Attr) (t : Nat) (hf : ∀ c, leaves (f c) t = []) (cs : List α) :
    leaves (cs.flatMap f) t = [] := by
  induction cs with
  | nil => rfl
  | cons c cs ih => simp only [List.flatMap_cons, leaves_append, ih, hf, List.append_nil]

theorem nests_none {α : Type} (f : α → List Attr) (t : Nat) (hf : ∀ c, nests (f c) t = []) (cs : List α) :
    nests (cs.flatMap f) t = [] := by
  induction cs with
  | nil => rfl
  | cons c cs ih => simp only [List.flatMap_cons, nests_append, ih, hf, List.append_nil]

/-! ### values read back -/

theorem rd8_u8 (v : Nat) (h : v < 256) : rd8 [BitVec.ofNat 8 v] = v := by
  simp [rd8, BitVec.toNat_ofNat]; omega

theorem rd16_le16' (v : Nat) (h : v < 65536) : rd16 (le16 v) = v := by
  have := rd16_le16 v h []; simpa using this

theorem rd32_le32 (v : Nat) (h : v < 2 ^ 32) : rd32 (le32 v) = v := by
  simp [rd32, rd16, le32, BitVec.toNat_ofNat]; omega

theorem rd64_le64 (v : Nat) (h : v < 2 ^ 64) : rd64 (le64 v) = v := by
  have h1 : rd32 (le32 v ++ le32 (v / 4294967296)) = v % 4294967296 := by
    simp [rd32, rd16, le32, BitVec.toNat_ofNat]; omega
  have h2 : (le32 v ++ le32 (v / 4294967296)).drop 4 = le32 (v / 4294967296) := by
    simp [le32]
  simp only [rd64, le64, h1, h2]
  rw [rd32_le32 _ (by omega)]; omega

/-- the last id child decides (`pdrid = …` is assigned in the loop) -/
theorem lastId {α β : Type} (idOf : α → Option β) (f : List α → β → β)
    (hnil : ∀ cur, f [] cur = cur)
    (hcons : ∀ c cs cur, f (c :: cs) cur = f cs ((idOf c).getD cur))
    (cs : List α) (cur : β) : f cs cur = ((cs.filterMap idOf).getLast?).getD cur := by
  induction cs generalizing cur with
  | nil => simp [hnil]
  | cons c cs ih =>
    rw [hcons, ih]
    cases h : idOf c with
    | none => simp [List.filterMap_cons, h]
    | some v =>
      simp only [List.filterMap_cons, h, Option.getD_some]
      cases hl : List.filterMap idOf cs with
      | nil => simp
      | cons x xs => simp [List.getLast?_cons_cons, List.getLast?_eq_some_getLast (l := x :: xs) (by simp)]

end UpfVerif.XlateL
