import UpfVerif.Lemmas.CoreDP
/-
`Sess.Close` withdraws every rule of the session from the data plane — also the ones whose installation had
failed — under the fault model of C01 (a remove fails only when the rule is absent).
-/
namespace UpfVerif.Core
open UpfVerif.Spec

def NoCreate (l : List Out) : Prop := ∀ o ∈ l, ∀ c a, o = Out.dp c a → c.op ≠ Op.create

theorem dpApply_subset (dp : DP) (c : DpCall) (a : DpAns) (h : c.op ≠ .create) : ∀ e, e ∈ dpApply dp c a → e ∈ dp := by
  intro e he
  rcases mem_dpApply dp c a e he with h1 | ⟨_, h2, _⟩
  · exact h1
  · exact absurd h2 h

theorem dpRun_subset (l : List Out) : ∀ (dp : DP), NoCreate l → ∀ e, e ∈ dpRun dp l → e ∈ dp := by
  induction l with
  | nil => intro dp _ e he; simpa [dpRun] using he
  | cons o l ih =>
    intro dp hn e he
    have hl : NoCreate l := fun o' ho' => hn o' (by simp [ho'])
    cases o with
    | dp c a =>
      simp only [dpRun] at he
      exact dpApply_subset dp c a (hn _ (by simp) c a rfl) e (ih _ hl e he)
    | send t m =>
      simp only [dpRun] at he
      exact ih dp hl e he

/-- a goal about the table that survives further removals -/
def Down (G : DP → Prop) : Prop := ∀ dp dp', G dp → (∀ e, e ∈ dp' → e ∈ dp) → G dp'

/-- a piece of `Close`: driver calls tagged with the session, none of them a create, keeping `SInv` and
    establishing `G` on the table -/
def Seg (G : DP → Prop) (s s' : Sess) (c c' : Ctx) : Prop :=
  s'.localID = s.localID ∧ ∃ l, c'.outs = c.outs ++ l ∧ DpOnly s.localID l ∧ NoCreate l ∧
    ∀ dp, SInv s dp → natural dp l → SInv s' (dpRun dp l) ∧ G (dpRun dp l)

theorem Seg.refl (s : Sess) (c : Ctx) : Seg (fun _ => True) s s c c :=
  ⟨rfl, [], by simp, (fun o ho => by cases ho), (fun o ho => by cases ho),
    (fun dp h _ => ⟨by simpa [dpRun] using h, trivial⟩)⟩

theorem Seg.weaken {G G' : DP → Prop} {s s' : Sess} {c c' : Ctx} (h : Seg G s s' c c') (hw : ∀ dp, G dp → G' dp) :
    Seg G' s s' c c' := by
  obtain ⟨a, l, e, d, n, p⟩ := h
  exact ⟨a, l, e, d, n, fun dp hs hn => ⟨(p dp hs hn).1, hw _ (p dp hs hn).2⟩⟩

theorem Seg.trans {G1 G2 : DP → Prop} {s s' s'' : Sess} {c c' c'' : Ctx}
    (h1 : Seg G1 s s' c c') (h2 : Seg G2 s' s'' c' c'') (hd : Down G1) :
    Seg (fun dp => G1 dp ∧ G2 dp) s s'' c c'' := by
  obtain ⟨a1, l1, e1, d1, n1, p1⟩ := h1
  obtain ⟨a2, l2, e2, d2, n2, p2⟩ := h2
  refine ⟨by rw [a2, a1], l1 ++ l2, by rw [e2, e1, List.append_assoc], ?_, ?_, ?_⟩
  · intro o ho
    rcases List.mem_append.mp ho with h | h
    · exact d1 o h
    · rw [a1] at d2; exact d2 o h
  · intro o ho
    rcases List.mem_append.mp ho with h | h
    · exact n1 o h
    · exact n2 o h
  · intro dp hs hn
    rw [natural_append] at hn
    rw [dpRun_append]
    obtain ⟨s1, g1⟩ := p1 dp hs hn.1
    obtain ⟨s2, g2⟩ := p2 _ s1 hn.2
    exact ⟨s2, hd _ _ g1 (dpRun_subset l2 _ n2), g2⟩

/-- no entry of kind `K` with an id outside `R` -/
def Within (x : Seid) (K : Kind) (R : List Nat) (dp : DP) : Prop := ∀ i, (x, K, i) ∈ dp → i ∈ R

theorem within_down (x : Seid) (K : Kind) (R : List Nat) : Down (Within x K R) :=
  fun _ _ h hsub i hi => h i (hsub _ hi)

theorem pick_mem (c : Ctx) (x : Seid) (op : Op) (K : Kind) (keys : List Nat) (k : Nat)
    (h : c.pick x op K keys = some k) : k ∈ keys := by
  unfold Ctx.pick at h
  cases keys with
  | nil => simp at h
  | cons k0 rest =>
    simp only [] at h
    split at h
    · split at h
      · rename_i hc
        simp at h; subst h
        simp only [Bool.and_eq_true, decide_eq_true_eq] at hc
        exact hc.2
      · simp at h; subst h; simp
    · simp at h; subst h; simp

/-- a loop of `Close` over the recorded ids `R` of one kind: if each body call `k` leaves no entry `(x, K, k)`, the
    loop leaves no entry of kind `K` at all, provided all such entries had ids in `R` to begin with -/
theorem rangeMap_drain {τ : Type} (op : Op) (K : Kind)
    (body : Nat → Sess × τ → Ctx → (Sess × τ) × Ctx)
    (hb : ∀ k st c, Seg (fun dp => (st.1.localID, K, k) ∉ dp) st.1 (body k st c).1.1 c (body k st c).2) :
    ∀ fuel keys (st : Sess × τ) c, keys.length ≤ fuel →
      Seg (fun dp => True) st.1 (rangeMap st.1.localID op K body fuel keys st c).1.1 c
        (rangeMap st.1.localID op K body fuel keys st c).2 ∧
      ∀ l, (rangeMap st.1.localID op K body fuel keys st c).2.outs = c.outs ++ l →
        ∀ dp, SInv st.1 dp → natural dp l → Within st.1.localID K keys dp → Within st.1.localID K [] (dpRun dp l) := by
  intro fuel
  induction fuel with
  | zero =>
    intro keys st c hlen
    have hk : keys = [] := List.length_eq_zero_iff.mp (Nat.le_zero.mp hlen)
    subst hk
    refine ⟨by simpa [rangeMap] using Seg.refl st.1 c, ?_⟩
    intro l hl dp _ _ hw
    have : l = [] := by simpa [rangeMap] using hl
    subst this
    simpa [dpRun] using hw
  | succ fuel ih =>
    intro keys st c hlen
    unfold rangeMap
    cases hp : c.pick st.1.localID op K keys with
    | none =>
      have hk : keys = [] := by
        cases keys with
        | nil => rfl
        | cons k0 rest => simp [Ctx.pick] at hp; split at hp <;> (try split at hp) <;> simp at hp
      subst hk
      refine ⟨Seg.refl st.1 c, ?_⟩
      intro l hl dp _ _ hw
      have : l = [] := by simpa using hl
      subst this
      simpa [dpRun] using hw
    | some k =>
      simp only []
      have hmem := pick_mem c _ op K keys k hp
      have hstep := hb k st c
      obtain ⟨hid, l1, e1, d1, n1, p1⟩ := hstep
      have hlen' : (keys.erase k).length ≤ fuel := by
        rw [List.length_erase_of_mem hmem]; omega
      have hrec := ih (keys.erase k) (body k st c).1 (body k st c).2 hlen'
      rw [hid] at hrec
      obtain ⟨hseg, hdrain⟩ := hrec
      constructor
      · have := Seg.trans (G1 := fun _ => True) (G2 := fun _ => True)
          (⟨hid, l1, e1, d1, n1, fun dp hs hn => ⟨(p1 dp hs hn).1, trivial⟩⟩ : Seg (fun _ => True) st.1 (body k st c).1.1 c (body k st c).2)
          hseg (fun _ _ _ _ => trivial)
        exact this.weaken (fun _ _ => trivial)
      · intro l hl dp hs hn hw
        obtain ⟨_, l2, e2, _, _, _⟩ := hseg
        have hl' : l = l1 ++ l2 := by
          rw [e2, e1, List.append_assoc] at hl
          exact (List.append_cancel_left hl).symm
        subst hl'
        rw [natural_append] at hn
        rw [dpRun_append]
        obtain ⟨s1, g1⟩ := p1 dp hs hn.1
        apply hdrain l2 e2 _ s1 hn.2
        intro i hi
        have hi' := dpRun_subset l1 dp n1 _ hi
        have hin := hw i hi'
        have hne : i ≠ k := by
          intro hc; subst hc; exact g1 hi
        exact (List.mem_erase_of_ne hne).mpr hin

/-- the same for loops whose state is the session alone (FAR, QER, BAR)
    a loop of `Close` over the recorded ids `R` of one kind: if each body call `k` leaves no entry `(x, K, k)`, the
    loop leaves no entry of kind `K` at all, provided all such entries had ids in `R` to begin with -/
theorem rangeMap_drain' (op : Op) (K : Kind)
    (body : Nat → Sess → Ctx → Sess × Ctx)
    (hb : ∀ k st c, Seg (fun dp => (st.localID, K, k) ∉ dp) st (body k st c).1 c (body k st c).2) :
    ∀ fuel keys (st : Sess) c, keys.length ≤ fuel →
      Seg (fun dp => True) st (rangeMap st.localID op K body fuel keys st c).1 c
        (rangeMap st.localID op K body fuel keys st c).2 ∧
      ∀ l, (rangeMap st.localID op K body fuel keys st c).2.outs = c.outs ++ l →
        ∀ dp, SInv st dp → natural dp l → Within st.localID K keys dp → Within st.localID K [] (dpRun dp l) := by
  intro fuel
  induction fuel with
  | zero =>
    intro keys st c hlen
    have hk : keys = [] := List.length_eq_zero_iff.mp (Nat.le_zero.mp hlen)
    subst hk
    refine ⟨by simpa [rangeMap] using Seg.refl st c, ?_⟩
    intro l hl dp _ _ hw
    have : l = [] := by simpa [rangeMap] using hl
    subst this
    simpa [dpRun] using hw
  | succ fuel ih =>
    intro keys st c hlen
    unfold rangeMap
    cases hp : c.pick st.localID op K keys with
    | none =>
      have hk : keys = [] := by
        cases keys with
        | nil => rfl
        | cons k0 rest => simp [Ctx.pick] at hp; split at hp <;> (try split at hp) <;> simp at hp
      subst hk
      refine ⟨Seg.refl st c, ?_⟩
      intro l hl dp _ _ hw
      have : l = [] := by simpa using hl
      subst this
      simpa [dpRun] using hw
    | some k =>
      simp only []
      have hmem := pick_mem c _ op K keys k hp
      have hstep := hb k st c
      obtain ⟨hid, l1, e1, d1, n1, p1⟩ := hstep
      have hlen' : (keys.erase k).length ≤ fuel := by
        rw [List.length_erase_of_mem hmem]; omega
      have hrec := ih (keys.erase k) (body k st c).1 (body k st c).2 hlen'
      rw [hid] at hrec
      obtain ⟨hseg, hdrain⟩ := hrec
      constructor
      · have := Seg.trans (G1 := fun _ => True) (G2 := fun _ => True)
          (⟨hid, l1, e1, d1, n1, fun dp hs hn => ⟨(p1 dp hs hn).1, trivial⟩⟩ : Seg (fun _ => True) st (body k st c).1 c (body k st c).2)
          hseg (fun _ _ _ _ => trivial)
        exact this.weaken (fun _ _ => trivial)
      · intro l hl dp hs hn hw
        obtain ⟨_, l2, e2, _, _, _⟩ := hseg
        have hl' : l = l1 ++ l2 := by
          rw [e2, e1, List.append_assoc] at hl
          exact (List.append_cancel_left hl).symm
        subst hl'
        rw [natural_append] at hn
        rw [dpRun_append]
        obtain ⟨s1, g1⟩ := p1 dp hs hn.1
        apply hdrain l2 e2 _ s1 hn.2
        intro i hi
        have hi' := dpRun_subset l1 dp n1 _ hi
        have hin := hw i hi'
        have hne : i ≠ k := by
          intro hc; subst hc; exact g1 hi
        exact (List.mem_erase_of_ne hne).mpr hin


end UpfVerif.Core

namespace UpfVerif.Core
open UpfVerif.Spec

/-! ### the calls `Close` makes are removes and queries -/

def RQ (o : Out) : Prop := ∃ c a, o = Out.dp c a ∧ (c.op = .remove ∨ c.op = .query)

def ExtRQ (c c' : Ctx) : Prop := ∃ l, c'.outs = c.outs ++ l ∧ ∀ o ∈ l, RQ o

theorem ExtRQ.refl (c : Ctx) : ExtRQ c c := ⟨[], by simp, fun o ho => by cases ho⟩
theorem ExtRQ.trans {a b c : Ctx} (h1 : ExtRQ a b) (h2 : ExtRQ b c) : ExtRQ a c := by
  obtain ⟨l1, e1, d1⟩ := h1
  obtain ⟨l2, e2, d2⟩ := h2
  refine ⟨l1 ++ l2, by rw [e2, e1, List.append_assoc], ?_⟩
  intro o ho
  rcases List.mem_append.mp ho with h | h
  · exact d1 o h
  · exact d2 o h

theorem call_extRQ (c : Ctx) (call : DpCall) (h : call.op = .remove ∨ call.op = .query) : ExtRQ c (c.call call).1 := by
  unfold Ctx.call
  cases c.pending with
  | nil => exact ⟨[.dp call { ok := false }], by simp, by intro o ho; simp at ho; exact ⟨call, _, ho, h⟩⟩
  | cons p rest => exact ⟨[.dp call p.2], by simp, by intro o ho; simp at ho; exact ⟨call, _, ho, h⟩⟩

theorem extRQ_nocreate {c c' : Ctx} (h : ExtRQ c c') (l : List Out) (hl : c'.outs = c.outs ++ l) : NoCreate l := by
  obtain ⟨l', e, d⟩ := h
  have : l = l' := by rw [e] at hl; exact (List.append_cancel_left hl).symm
  subst this
  intro o ho cc a he
  obtain ⟨c2, a2, he2, hop⟩ := d o ho
  rw [he] at he2; cases he2
  rcases hop with h | h <;> rw [h] <;> simp

theorem removeSimple_rq (s : Sess) (k : Kind) (ie : RuleIE) (c : Ctx) : ExtRQ c (s.removeSimple k ie c).2 := by
  unfold Sess.removeSimple
  split
  · exact ExtRQ.refl c
  · split
    · simp only []; split <;> exact call_extRQ c _ (Or.inl rfl)
    · exact ExtRQ.refl c

theorem removeURR_rq (s : Sess) (ie : RuleIE) (c : Ctx) : ExtRQ c (s.removeURR ie c).2.1 := by
  unfold Sess.removeURR
  split
  · exact ExtRQ.refl c
  · split
    · exact ExtRQ.refl c
    · simp only []; split <;> exact call_extRQ c _ (Or.inl rfl)

theorem diassociate_rq (s : Sess) (u : Nat) (c : Ctx) : ExtRQ c (s.diassociate u c).2.1 := by
  unfold Sess.diassociate
  split
  · exact ExtRQ.refl c
  · split
    · simp only []
      split
      · split <;> exact call_extRQ c _ (Or.inr rfl)
      · exact ExtRQ.refl c
    · exact ExtRQ.refl c

theorem rangeMap_rq {σ : Type} (x : Seid) (op : Op) (kind : Kind) (body : Nat → σ → Ctx → σ × Ctx)
    (hb : ∀ k st c, ExtRQ c (body k st c).2) :
    ∀ fuel keys st c, ExtRQ c (rangeMap x op kind body fuel keys st c).2
  | 0, _, _, c => ExtRQ.refl c
  | fuel + 1, keys, st, c => by
    unfold rangeMap
    cases c.pick x op kind keys with
    | none => exact ExtRQ.refl c
    | some k => exact (hb k st c).trans (rangeMap_rq x op kind body hb fuel _ _ _)

theorem diassociateAll_rq (s : Sess) (us : List Nat) (c : Ctx) : ExtRQ c (s.diassociateAll us c).2.1 := by
  unfold Sess.diassociateAll
  exact rangeMap_rq s.localID .query .urr _ (fun u acc c => diassociate_rq acc.1 u c) _ _ (s, []) c

theorem removePDR_rq (s : Sess) (ie : RuleIE) (c : Ctx) : ExtRQ c (s.removePDR ie c).2.1 := by
  unfold Sess.removePDR
  split
  · exact ExtRQ.refl c
  · split
    · exact ExtRQ.refl c
    · simp only []
      split
      · exact call_extRQ c _ (Or.inl rfl)
      · exact (call_extRQ c _ (Or.inl rfl)).trans (diassociateAll_rq _ _ _)

/-- build a segment from a `Pres` fact, the remove/query shape and a goal on the final table -/
theorem seg_of_pres {G : DP → Prop} {s s' : Sess} {c c' : Ctx} (hP : Pres s s' c c') (hR : ExtRQ c c')
    (hg : ∀ l, c'.outs = c.outs ++ l → ∀ dp, SInv s dp → natural dp l → G (dpRun dp l)) : Seg G s s' c c' := by
  obtain ⟨a, l, e, d, p⟩ := hP
  exact ⟨a, l, e, d, extRQ_nocreate hR l e, fun dp hs hn => ⟨p dp hs hn, hg l e dp hs hn⟩⟩

end UpfVerif.Core

namespace UpfVerif.Core
open UpfVerif.Spec

theorem call_outs (c : Ctx) (call : DpCall) : (c.call call).1.outs = c.outs ++ [Out.dp call (c.call call).2] := by
  unfold Ctx.call; cases c.pending <;> simp

theorem gone_after_remove_call (s : Sess) (c : Ctx) (K : Kind) (k : Nat) (l : List Out)
    (hl : (c.call { seid := s.localID, op := .remove, kind := K, id := k }).1.outs = c.outs ++ l)
    (dp : DP) (hn : natural dp l) : (s.localID, K, k) ∉ dpRun dp l := by
  rw [call_outs] at hl
  have : l = [Out.dp { seid := s.localID, op := .remove, kind := K, id := k } (c.call { seid := s.localID, op := .remove, kind := K, id := k }).2] :=
    (List.append_cancel_left hl).symm
  subst this
  simp only [dpRun]
  simp only [natural] at hn
  exact not_mem_dpApply_remove dp _ _ rfl (hn.1 trivial)

theorem removeSimple_drain (s : Sess) (K : Kind) (hK : K = .far ∨ K = .qer ∨ K = .bar) (k : Nat) (c : Ctx) :
    Seg (fun dp => (s.localID, K, k) ∉ dp) s (s.removeSimple K { id := some k } c).1 c (s.removeSimple K { id := some k } c).2 := by
  apply seg_of_pres (removeSimple_pres s K hK _ c) (removeSimple_rq s K _ c)
  intro l hl dp hs hn
  unfold Sess.removeSimple at hl
  simp only [] at hl
  split at hl
  · -- the id is recorded: the driver is called
    split at hl <;> exact gone_after_remove_call s c K k l hl dp hn
  · rename_i hnot
    have : l = [] := by
      have : c.outs = c.outs ++ l := hl
      have := List.append_cancel_left (as := c.outs) (bs := []) (cs := l) (by simpa using this)
      exact this.symm
    subst this
    simp only [dpRun]
    intro hm
    exact hnot (hs K k hm).1

theorem removeURR_drain (s : Sess) (k : Nat) (c : Ctx) :
    Seg (fun dp => (s.localID, Kind.urr, k) ∉ dp) s (s.removeURR { id := some k } c).1 c (s.removeURR { id := some k } c).2.1 := by
  apply seg_of_pres (removeURR_pres s _ c) (removeURR_rq s _ c)
  intro l hl dp hs hn
  unfold Sess.removeURR at hl
  simp only [] at hl
  split at hl
  · rename_i hnone
    have : l = [] := by
      have := List.append_cancel_left (as := c.outs) (bs := []) (cs := l) (by simpa using hl)
      exact this.symm
    subst this
    simp only [dpRun]
    intro hm
    have := (hs Kind.urr k hm).1
    rw [ids_urr] at this
    -- recorded ids are exactly the keys with a value
    have hk : ∀ (l : List (Nat × URRInfo)), k ∈ l.map (·.1) → alGet l k ≠ none := by
      intro l
      induction l with
      | nil => intro h; simp at h
      | cons p l ih =>
        intro h
        by_cases hp : p.1 = k
        · simp [alGet, hp]
        · have hb : (p.1 == k) = false := by simpa using hp
          simp only [alGet, hb, Bool.false_eq_true, if_false]
          apply ih
          simp only [List.map_cons, List.mem_cons] at h
          rcases h with h | h
          · exact absurd h.symm hp
          · exact h
    exact hk _ this hnone
  · split at hl <;> exact gone_after_remove_call s c Kind.urr k l hl dp hn

theorem removePDR_drain (s : Sess) (k : Nat) (c : Ctx) :
    Seg (fun dp => (s.localID, Kind.pdr, k) ∉ dp) s (s.removePDR { id := some k } c).1 c (s.removePDR { id := some k } c).2.1 := by
  apply seg_of_pres (removePDR_pres s _ c) (removePDR_rq s _ c)
  intro l hl dp hs hn
  unfold Sess.removePDR at hl
  simp only [] at hl
  split at hl
  · rename_i hnone
    have : l = [] := by
      have := List.append_cancel_left (as := c.outs) (bs := []) (cs := l) (by simpa using hl)
      exact this.symm
    subst this
    simp only [dpRun]
    intro hm
    have := (hs Kind.pdr k hm).1
    rw [ids_pdr] at this
    have hk : ∀ (l : List (Nat × List Nat)), k ∈ l.map (·.1) → alGet l k ≠ none := by
      intro l
      induction l with
      | nil => intro h; simp at h
      | cons p l ih =>
        intro h
        by_cases hp : p.1 = k
        · simp [alGet, hp]
        · have hb : (p.1 == k) = false := by simpa using hp
          simp only [alGet, hb, Bool.false_eq_true, if_false]
          apply ih
          simp only [List.map_cons, List.mem_cons] at h
          rcases h with h | h
          · exact absurd h.symm hp
          · exact h
    exact hk _ this hnone
  · rename_i us _
    split at hl
    · exact gone_after_remove_call s c Kind.pdr k l hl dp hn
    · -- the remove call, then queries only
      have hq := diassociateAll_rq ({ s with pdrs := (alDel s.pdrs k), q := alDel s.q k } : Sess) us
        (c.call { seid := s.localID, op := .remove, kind := .pdr, id := k }).1
      obtain ⟨l2, e2, d2⟩ := hq
      rw [e2, call_outs, List.append_assoc] at hl
      have hl' : l = [Out.dp { seid := s.localID, op := .remove, kind := .pdr, id := k }
          (c.call { seid := s.localID, op := .remove, kind := .pdr, id := k }).2] ++ l2 :=
        (List.append_cancel_left hl).symm
      subst hl'
      rw [natural_append] at hn
      rw [dpRun_append]
      intro hm
      have hn2 : NoCreate l2 := by
        intro o ho cc a he
        obtain ⟨c2, a2, he2, hop⟩ := d2 o ho
        rw [he] at he2; cases he2
        rcases hop with h | h <;> rw [h] <;> simp
      have hm' := dpRun_subset l2 _ hn2 _ hm
      simp only [dpRun] at hm'
      simp only [natural] at hn
      exact not_mem_dpApply_remove dp _ _ rfl (hn.1.1 trivial) hm'

end UpfVerif.Core

namespace UpfVerif.Core
open UpfVerif.Spec

/-- after this piece of `Close` no entry of the kinds `Ks` is left for the session -/
def Clears (Ks : List Kind) (s s' : Sess) (c c' : Ctx) : Prop :=
  Seg (fun dp => ∀ K ∈ Ks, ∀ i, (s.localID, K, i) ∉ dp) s s' c c'

theorem clears_nil (s : Sess) (c : Ctx) : Clears [] s s c c :=
  (Seg.refl s c).weaken (fun _ _ K hK => by cases hK)

theorem clears_step (Ks : List Kind) (K : Kind) (s s1 s2 : Sess) (c c1 c2 : Ctx) (keys : List Nat)
    (h0 : Clears Ks s s1 c c1)
    (hseg : Seg (fun _ => True) s1 s2 c1 c2)
    (hdrain : ∀ l, c2.outs = c1.outs ++ l → ∀ dp, SInv s1 dp → natural dp l →
      Within s1.localID K keys dp → Within s1.localID K [] (dpRun dp l))
    (hkeys : keys = s1.ids K) :
    Clears (K :: Ks) s s2 c c2 := by
  obtain ⟨a1, l1, e1, d1, n1, p1⟩ := h0
  obtain ⟨a2, l2, e2, d2, n2, p2⟩ := hseg
  refine ⟨by rw [a2, a1], l1 ++ l2, by rw [e2, e1, List.append_assoc], ?_, ?_, ?_⟩
  · intro o ho
    rcases List.mem_append.mp ho with h | h
    · exact d1 o h
    · rw [a1] at d2; exact d2 o h
  · intro o ho
    rcases List.mem_append.mp ho with h | h
    · exact n1 o h
    · exact n2 o h
  · intro dp hs hn
    rw [natural_append] at hn
    rw [dpRun_append]
    obtain ⟨hs1, hg1⟩ := p1 dp hs hn.1
    obtain ⟨hs2, _⟩ := p2 _ hs1 hn.2
    refine ⟨hs2, ?_⟩
    intro K' hK' i hm
    rcases List.mem_cons.mp hK' with hk | hk
    · subst hk
      have hw : Within s1.localID K' keys (dpRun dp l1) := by
        intro j hj
        rw [hkeys]
        exact (hs1 K' j hj).1
      have := hdrain l2 e2 _ hs1 hn.2 hw i
      rw [a1] at this
      exact absurd (this hm) (by simp)
    · exact hg1 K' hk i (dpRun_subset l2 _ n2 _ hm)

/-- `Sess.Close`: every rule of the session is withdrawn, whatever had failed before -/
theorem close_clears (s : Sess) (c : Ctx) :
    Clears [Kind.pdr, Kind.bar, Kind.urr, Kind.qer, Kind.far] s (s.close c).1 c (s.close c).2.1 := by
  unfold Sess.close
  simp only []
  -- FAR loop
  have f1 := rangeMap_drain' .remove .far (fun id (s : Sess) c => s.removeSimple .far { id := some id } c)
    (fun k st c => removeSimple_drain st .far (Or.inl rfl) k c) s.fars.length s.fars s c (Nat.le_refl _)
  generalize rangeMap s.localID .remove .far (fun id (s : Sess) c => s.removeSimple .far { id := some id } c) s.fars.length s.fars s c = r1 at f1
  have c1 := clears_step [] .far s s r1.1 c c r1.2 s.fars (clears_nil s c) f1.1 f1.2 rfl
  have id1 : r1.1.localID = s.localID := f1.1.1
  -- QER loop
  have f2 := rangeMap_drain' .remove .qer (fun id (s : Sess) c => s.removeSimple .qer { id := some id } c)
    (fun k st c => removeSimple_drain st .qer (Or.inr (Or.inl rfl)) k c) r1.1.qers.length r1.1.qers r1.1 r1.2 (Nat.le_refl _)
  rw [id1] at f2
  generalize rangeMap s.localID .remove .qer (fun id (s : Sess) c => s.removeSimple .qer { id := some id } c) r1.1.qers.length r1.1.qers r1.1 r1.2 = r2 at f2
  have c2 := clears_step _ .qer s r1.1 r2.1 c r1.2 r2.2 r1.1.qers c1 f2.1 (by rw [id1]; exact f2.2) rfl
  have id2 : r2.1.localID = s.localID := by rw [f2.1.1, id1]
  -- URR loop
  have f3 := rangeMap_drain .remove .urr (fun id (acc : Sess × List Report) c =>
      (((acc.1.removeURR { id := some id } c).1, acc.2 ++ ((acc.1.removeURR { id := some id } c).2.2).getD []),
       (acc.1.removeURR { id := some id } c).2.1))
    (fun k st c => removeURR_drain st.1 k c) (r2.1.urrs.map (·.1)).length (r2.1.urrs.map (·.1)) (r2.1, []) r2.2 (Nat.le_refl _)
  simp only [] at f3
  rw [id2] at f3
  generalize rangeMap s.localID .remove .urr (fun id (acc : Sess × List Report) c =>
      (((acc.1.removeURR { id := some id } c).1, acc.2 ++ ((acc.1.removeURR { id := some id } c).2.2).getD []),
       (acc.1.removeURR { id := some id } c).2.1)) (r2.1.urrs.map (·.1)).length (r2.1.urrs.map (·.1)) (r2.1, []) r2.2 = r3 at f3
  have c3 := clears_step _ .urr s r2.1 r3.1.1 c r2.2 r3.2 (r2.1.urrs.map (·.1)) c2 f3.1 (by rw [id2]; exact f3.2) rfl
  have id3 : r3.1.1.localID = s.localID := by rw [f3.1.1, id2]
  -- BAR loop
  have f4 := rangeMap_drain' .remove .bar (fun id (s : Sess) c => s.removeSimple .bar { id := some id } c)
    (fun k st c => removeSimple_drain st .bar (Or.inr (Or.inr rfl)) k c) r3.1.1.bars.length r3.1.1.bars r3.1.1 r3.2 (Nat.le_refl _)
  rw [id3] at f4
  generalize rangeMap s.localID .remove .bar (fun id (s : Sess) c => s.removeSimple .bar { id := some id } c) r3.1.1.bars.length r3.1.1.bars r3.1.1 r3.2 = r4 at f4
  have c4 := clears_step _ .bar s r3.1.1 r4.1 c r3.2 r4.2 r3.1.1.bars c3 f4.1 (by rw [id3]; exact f4.2) rfl
  have id4 : r4.1.localID = s.localID := by rw [f4.1.1, id3]
  -- PDR loop
  have f5 := rangeMap_drain .remove .pdr (fun id (acc : Sess × List Report) c =>
      (((acc.1.removePDR { id := some id } c).1, acc.2 ++ (acc.1.removePDR { id := some id } c).2.2),
       (acc.1.removePDR { id := some id } c).2.1))
    (fun k st c => removePDR_drain st.1 k c) (r4.1.pdrs.map (·.1)).length (r4.1.pdrs.map (·.1)) (r4.1, r3.1.2) r4.2 (Nat.le_refl _)
  simp only [] at f5
  rw [id4] at f5
  generalize rangeMap s.localID .remove .pdr (fun id (acc : Sess × List Report) c =>
      (((acc.1.removePDR { id := some id } c).1, acc.2 ++ (acc.1.removePDR { id := some id } c).2.2),
       (acc.1.removePDR { id := some id } c).2.1)) (r4.1.pdrs.map (·.1)).length (r4.1.pdrs.map (·.1)) (r4.1, r3.1.2) r4.2 = r5 at f5
  have c5 := clears_step _ .pdr s r4.1 r5.1.1 c r4.2 r5.2 (r4.1.pdrs.map (·.1)) c4 f5.1 (by rw [id4]; exact f5.2) rfl
  -- dropping the packet queues does not concern the data plane
  obtain ⟨a, l, e, d, n, p⟩ := c5
  exact ⟨a, l, e, d, n, fun dp hs hn => ⟨by
    have := (p dp hs hn).1
    intro k i hm
    exact this k i hm, (p dp hs hn).2⟩⟩

end UpfVerif.Core
