import UpfVerif.Lemmas.CoreClose
import UpfVerif.Lemmas.CoreHandlers
import UpfVerif.Props.C04
import UpfVerif.Props.C05
/-
The global half of C01's invariant: every data-plane entry belongs to a live session that has it recorded.
-/
namespace UpfVerif.Core
open UpfVerif.Spec

def Inv (st : State) (dp : DP) : Prop :=
  ∀ x k i, (x, k, i) ∈ dp → ∃ s, st.lnode.lookup x = some s ∧ i ∈ s.ids k ∧ (k = Kind.urr → NotRemoved s i)

/-- calls tagged `x` leave the entries of every other SEID alone -/
theorem dpRun_other (x : Seid) (l : List Out) : ∀ (dp : DP), DpOnly x l → ∀ y k i, y ≠ x →
    ((y, k, i) ∈ dpRun dp l ↔ (y, k, i) ∈ dp) := by
  induction l with
  | nil => intro dp _ y k i _; simp [dpRun]
  | cons o l ih =>
    intro dp hd y k i hy
    have hl : DpOnly x l := fun o' ho' => hd o' (by simp [ho'])
    obtain ⟨c, a, he, hs⟩ := hd o (by simp)
    subst he
    simp only [dpRun]
    rw [ih _ hl y k i hy]
    unfold dpApply
    by_cases hok : a.ok
    · simp only [hok, Bool.not_true, Bool.false_eq_true, if_false]
      cases hop : c.op with
      | create =>
        simp only []
        by_cases hk : key c ∈ dp
        · simp [hk]
        · simp only [hk, if_false, List.mem_append, List.mem_singleton]
          constructor
          · rintro (h | h)
            · exact h
            · exfalso; simp only [key, Prod.mk.injEq] at h; exact hy (h.1.trans hs)
          · intro h; exact Or.inl h
      | remove =>
        simp only [List.mem_filter]
        constructor
        · intro h; exact h.1
        · intro h
          refine ⟨h, ?_⟩
          simp only [key, bne_iff_ne, ne_eq, Prod.mk.injEq, not_and]
          intro h1; exact absurd (h1.trans hs) hy
      | update => simp
      | query => simp
    · simp [hok]

/-- the per-session invariant of a live session, read off the global one -/
theorem sinv_of_inv (st : State) (wf : C04.TableWF st.lnode) (dp : DP) (h : Inv st dp) (x : Seid) (s : Sess)
    (hl : st.lnode.lookup x = some s) : SInv s dp := by
  intro k i hm
  have hid := C04.lookup_some_id st.lnode wf x s hl
  rw [hid] at hm
  obtain ⟨s', hl', h1, h2⟩ := h x k i hm
  rw [hl] at hl'; cases hl'
  exact ⟨h1, h2⟩

/-- no entry for a SEID that resolves to nothing -/
theorem no_entries_of_miss (st : State) (dp : DP) (h : Inv st dp) (x : Seid) (hl : st.lnode.lookup x = none) :
    ∀ k i, (x, k, i) ∉ dp := by
  intro k i hm
  obtain ⟨s, hs, _⟩ := h x k i hm
  rw [hl] at hs; cases hs

/-- rewriting one live session's slot with a value that satisfies its own invariant, after calls tagged with its SEID -/
theorem inv_after_session_update (st : State) (wf : C04.TableWF st.lnode) (dp : DP) (h : Inv st dp)
    (x : Seid) (s0 s' : Sess) (hl : st.lnode.lookup x = some s0) (hid : s'.localID = s0.localID)
    (l : List Out) (hd : DpOnly x l) (hs' : SInv s' (dpRun dp l)) (ln' : LNode)
    (hln : ln' = st.lnode.setSess s') (st' : State) (hst : st'.lnode = ln') : Inv st' (dpRun dp l) := by
  have hx := C04.lookup_some_id st.lnode wf x s0 hl
  have hx0 : x ≠ 0 := by intro hc; rw [hc, C04.lookup_zero'] at hl; cases hl
  intro y k i hm
  by_cases hy : y = x
  · subst hy
    refine ⟨s', ?_, ?_⟩
    · rw [hst, hln]
      -- the slot now holds s'
      have hle : y.toNat ≤ st.lnode.sess.length := by
        by_cases hb : y.toNat > st.lnode.sess.length
        · rw [C04.lookup_beyond _ _ hb] at hl; cases hl
        · omega
      have hp := C04.toNat_pos_of_ne_zero y hx0
      unfold LNode.setSess
      rw [hid, hx]
      rw [C04.lookup_eq_slot _ y hx0 (by simpa using hle)]
      exact C04.slot_set_eq _ _ _ _ (by omega)
    · have := hs' k i (by rw [hid, hx]; exact hm)
      exact this
  · have hm' := (dpRun_other x l dp hd y k i hy).mp hm
    obtain ⟨s, hs, h1, h2⟩ := h y k i hm'
    refine ⟨s, ?_, h1, h2⟩
    rw [hst, hln]
    rw [C05.setSess_frame st.lnode s' y (by rw [hid, hx]; exact hy) (by rw [hid, hx]; exact hx0)]
    exact hs

end UpfVerif.Core

namespace UpfVerif.Core
open UpfVerif.Spec

theorem dpRun_send (dp : DP) (l : List Out) (t : String) (m : Msg) : dpRun dp (l ++ [Out.send t m]) = dpRun dp l := by
  rw [dpRun_append]; simp [dpRun]

theorem natural_send (dp : DP) (l : List Out) (t : String) (m : Msg) : natural dp (l ++ [Out.send t m]) ↔ natural dp l := by
  rw [natural_append]; simp [natural]

/-- Inv only looks at the session table -/
theorem inv_of_lnode_eq (st st' : State) (dp : DP) (h : Inv st dp) (e : st'.lnode = st.lnode) : Inv st' dp := by
  intro x k i hm
  obtain ⟨s, hs, h1, h2⟩ := h x k i hm
  exact ⟨s, by rw [e]; exact hs, h1, h2⟩

/-- `DeleteSess`: the session's rules are withdrawn and the global invariant survives the removal of its slot -/
theorem deleteSess_inv (st : State) (wf : C04.TableWF st.lnode) (dp : DP) (inv : Inv st dp)
    (h : Nat) (x : Seid) (env : Env) (c : Ctx) :
    ∃ l, (st.deleteSess h x env c).2.1.outs = c.outs ++ l ∧ (∀ o ∈ l, IsDp o) ∧
      (natural dp l → Inv (st.deleteSess h x env c).1 (dpRun dp l)) := by
  unfold State.deleteSess
  simp only []
  split
  · exact ⟨[], by simp, (fun o ho => by cases ho), fun _ => by simpa [dpRun] using inv⟩
  · split
    · exact ⟨[], by simp, (fun o ho => by cases ho), fun _ => by
        simp only [dpRun]
        exact inv_of_lnode_eq st _ dp inv rfl⟩
    · rename_i s hl
      have hl' : st.lnode.lookup x = some s := hl
      have hx := C04.lookup_some_id st.lnode wf x s hl'
      have hcl := close_clears s c
      generalize s.close c = R at hcl
      obtain ⟨s', c', rs⟩ := R
      simp only [] at hcl ⊢
      obtain ⟨_, l, e, d, _, p⟩ := hcl
      refine ⟨l, e, (fun o ho => by obtain ⟨cc, a, he, _⟩ := d o ho; exact ⟨cc, a, he⟩), ?_⟩
      intro hn
      have hs := sinv_of_inv st wf dp inv x s hl'
      obtain ⟨_, hgone⟩ := p dp hs hn
      intro y k i hm
      have hy : y ≠ x := by
        intro hc; subst hc
        have := hgone k (by cases k <;> simp) i
        rw [hx] at this
        exact this hm
      rw [hx] at d
      have hm' := (dpRun_other x l dp d y k i hy).mp hm
      obtain ⟨sy, hsy, h1, h2⟩ := inv y k i hm'
      refine ⟨sy, ?_, h1, h2⟩
      have := (C04.release_lookup st.lnode wf x s hl').2 y hy
      simp only [C04.release] at this
      show (LNode.lookup { sess := st.lnode.sess.set (x.toNat - 1) none, free := st.lnode.free ++ [x] } y) = some sy
      rw [this]; exact hsy

end UpfVerif.Core

namespace UpfVerif.Core
open UpfVerif.Spec

/-- rewriting a live slot with a session that carries the same SEID keeps the table well-formed -/
theorem setSess_wf (n : LNode) (wf : C04.TableWF n) (x : Seid) (s0 s' : Sess) (hl : n.lookup x = some s0)
    (hid : s'.localID = x) : C04.TableWF (n.setSess s') := by
  have hx0 : x ≠ 0 := by intro hc; rw [hc, C04.lookup_zero'] at hl; cases hl
  have hle : x.toNat ≤ n.sess.length := by
    by_cases hb : x.toNat > n.sess.length
    · rw [C04.lookup_beyond _ _ hb] at hl; cases hl
    · omega
  have hp := C04.toNat_pos_of_ne_zero x hx0
  have hidx : x.toNat - 1 < n.sess.length := by omega
  have hnotfree : x ∉ n.free := by
    intro hc; rw [C04.lookup_free n wf x hc] at hl; cases hl
  unfold LNode.setSess
  rw [hid]
  constructor
  · exact wf.freeNodup
  · intro f hf; simpa using wf.freeRange f hf
  · intro i hi
    simp only [List.length_set] at hi
    by_cases hie : x.toNat - 1 = i
    · subst hie
      rw [C04.slot_set_eq _ _ _ _ hidx]
      have e : x.toNat - 1 + 1 = x.toNat := by omega
      rw [e, C04.ofNat_toNat_self]
      simp [hnotfree]
    · rw [C04.slot_set_ne _ _ n.free _ _ _ hie]
      exact wf.freeIffNil i hi
  · intro i s'' hs''
    by_cases hie : x.toNat - 1 = i
    · subst hie
      rw [C04.slot_set_eq _ _ _ _ hidx] at hs''
      cases hs''
      rw [hid]; omega
    · rw [C04.slot_set_ne _ _ n.free _ _ _ hie] at hs''
      exact wf.ownId i s'' hs''
  · simpa using wf.small

end UpfVerif.Core

namespace UpfVerif.Core
open UpfVerif.Spec

/-- `st'` is a sound successor of `st` for the outputs `l`: the table stays well-formed (it grows by at most one
    slot) and the global invariant is carried along the data-plane effect of `l`, for every table and every answer
    stream respecting the fault model -/
def GoodStep (st st' : State) (l : List Out) : Prop :=
  (C04.TableWF st.lnode → st.lnode.sess.length + 1 < 2 ^ 64 → C04.TableWF st'.lnode) ∧
  st'.lnode.sess.length ≤ st.lnode.sess.length + 1 ∧
  ∀ dp, C04.TableWF st.lnode → st.lnode.sess.length + 1 < 2 ^ 64 → Inv st dp → natural dp l → Inv st' (dpRun dp l)

/-- sending the response changes neither the session table nor the data plane -/
theorem good_sendRsp (st0 st : State) (addr : String) (m : Msg) (c0 c : Ctx) (l : List Out)
    (hl : c.outs = c0.outs ++ l) (hg : GoodStep st0 st l) :
    ∃ l', (st.sendRsp addr m c).2.outs = c0.outs ++ l' ∧ GoodStep st0 (st.sendRsp addr m c).1 l' := by
  have sp := sendRsp_spec st addr m c
  rcases sp.1 with e | e
  · refine ⟨l, by rw [e, hl], ?_⟩
    exact ⟨fun wf hr => by rw [sp.2.1]; exact hg.1 wf hr, by rw [sp.2.1]; exact hg.2.1,
           fun dp wf hr inv hn => inv_of_lnode_eq st _ _ (hg.2.2 dp wf hr inv hn) sp.2.1⟩
  · refine ⟨l ++ [Out.send addr m], by rw [e, hl, List.append_assoc], ?_⟩
    exact ⟨fun wf hr => by rw [sp.2.1]; exact hg.1 wf hr, by rw [sp.2.1]; exact hg.2.1,
           fun dp wf hr inv hn => by
             rw [dpRun_send]
             exact inv_of_lnode_eq st _ _ (hg.2.2 dp wf hr inv ((natural_send dp l addr m).mp hn)) sp.2.1⟩

theorem good_refl (st st' : State) (e : st'.lnode = st.lnode) : GoodStep st st' [] :=
  ⟨fun wf _ => by rw [e]; exact wf, by rw [e]; omega,
   fun dp _ _ inv _ => by simpa [dpRun] using inv_of_lnode_eq st st' dp inv e⟩

theorem handleMod_good (st : State) (addr : String) (seq : BitVec 24) (r : ModReq) (env : Env) (c : Ctx) :
    ∃ l, (handleMod st addr seq r env c).2.outs = c.outs ++ l ∧ GoodStep st (handleMod st addr seq r env c).1 l := by
  unfold handleMod
  split
  · exact good_sendRsp st st addr _ c c [] (by simp) (good_refl st st rfl)
  · rename_i s0 hl
    have hp := runStages_pres (modStages r) (modStages_pres r) s0 c []
    generalize runStages (modStages r) s0 c [] = R at hp
    obtain ⟨s16, c16, u16⟩ := R
    simp only [] at hp ⊢
    obtain ⟨hid, l, el, dl, pl⟩ := hp
    have he := emitUsars_ids s16 u16 0 true
    apply good_sendRsp st _ addr _ c c16 l el
    have hlk : st.lnode.lookup r.seid = some s0 := hl
    have hln : ((st.takeover r.nodeID s0.rnode).setSess (emitUsars s16 u16 0 true).1).lnode
        = st.lnode.setSess (emitUsars s16 u16 0 true).1 := by simp [State.setSess]
    refine ⟨?_, ?_, ?_⟩
    · intro wf _
      have hx := C04.lookup_some_id st.lnode wf r.seid s0 hlk
      rw [hln]
      exact setSess_wf st.lnode wf r.seid s0 _ hlk (by rw [he.1, hid, hx])
    · rw [hln]; simp [LNode.setSess]
    · intro dp wf _ inv hn
      have hx := C04.lookup_some_id st.lnode wf r.seid s0 hlk
      have hs0 := sinv_of_inv st wf dp inv r.seid s0 hlk
      have hs16 := pl dp hs0 hn
      have hs17 := emitUsars_sinv s16 u16 0 true _ hs16
      exact inv_after_session_update st wf dp inv r.seid s0 _ hlk (by rw [he.1, hid]) l (by rw [← hx]; exact dl) hs17
        (st.lnode.setSess (emitUsars s16 u16 0 true).1) rfl _ hln

theorem deleteSess_length (st : State) (h : Nat) (x : Seid) (env : Env) (c : Ctx) :
    (st.deleteSess h x env c).1.lnode.sess.length = st.lnode.sess.length := by
  unfold State.deleteSess
  simp only []
  split
  · rfl
  · split
    · rfl
    · rename_i s _
      generalize s.close c = R
      obtain ⟨s', c', rs⟩ := R
      simp [State.modNode]

theorem handleDel_good (st : State) (addr : String) (seq : BitVec 24) (x : Seid) (env : Env) (c : Ctx) :
    ∃ l, (handleDel st addr seq x env c).2.outs = c.outs ++ l ∧ GoodStep st (handleDel st addr seq x env c).1 l := by
  unfold handleDel
  split
  · exact good_sendRsp st st addr _ c c [] (by simp) (good_refl st st rfl)
  · rename_i s0 hl
    have hwf := fun wf => (C05.deleteSess_frame st wf s0.rnode x env c).1
    have hd := fun wf dp inv => deleteSess_inv st wf dp inv s0.rnode x env c
    have hlen := deleteSess_length st s0.rnode x env c
    obtain ⟨l, el, _⟩ := deleteSess_dpExt st s0.rnode x env c
    generalize st.deleteSess s0.rnode x env c = R at hwf hd el hlen
    obtain ⟨st1, c1, s1, rs⟩ := R
    simp only [] at hwf hd el hlen ⊢
    apply good_sendRsp st st1 addr _ c c1 l el
    refine ⟨fun wf _ => hwf wf, by rw [hlen]; omega, ?_⟩
    intro dp wf _ inv hn
    obtain ⟨l', el', _, hinv⟩ := hd wf dp inv
    have : l' = l := by rw [el] at el'; exact (List.append_cancel_left el').symm
    subst this
    exact hinv hn

end UpfVerif.Core

namespace UpfVerif.Core
open UpfVerif.Spec

theorem GoodStep.trans {a b c : State} {l1 l2 : List Out} (h1 : GoodStep a b l1) (h2 : GoodStep b c l2)
    (hlen : b.lnode.sess.length = a.lnode.sess.length) : GoodStep a c (l1 ++ l2) := by
  refine ⟨fun wf hr => h2.1 (h1.1 wf hr) (by rw [hlen]; exact hr), by rw [← hlen]; exact h2.2.1, ?_⟩
  intro dp wf hr inv hn
  rw [natural_append] at hn
  rw [dpRun_append]
  exact h2.2.2 _ (h1.1 wf hr) (by rw [hlen]; exact hr) (h1.2.2 dp wf hr inv hn.1) hn.2

theorem handleEst_good (st : State) (addr : String) (seq : BitVec 24) (r : EstReq) (env : Env) (c : Ctx) :
    ∃ l, (handleEst st addr seq r env c).2.outs = c.outs ++ l ∧ GoodStep st (handleEst st addr seq r env c).1 l := by
  unfold handleEst
  split
  · exact ⟨[], by simp, good_refl st st rfl⟩
  · split
    · exact ⟨[], by simp, good_refl st st rfl⟩
    · split
      · exact ⟨[], by simp, good_refl st st rfl⟩
      · rename_i nid _ h _ _ cp _
        have hspec := fun wf hr => C04.newSess_spec st.lnode wf h cp hr
        have hlen := C04.newSess_length st.lnode h cp
        generalize st.lnode.newSess h cp = N at hspec hlen
        obtain ⟨ln, s0⟩ := N
        simp only [] at hspec hlen ⊢
        have hp := runStages_pres (estStages r) (estStages_pres r) s0 c []
        generalize runStages (estStages r) s0 c [] = R at hp
        obtain ⟨s5, c5, u5⟩ := R
        simp only [] at hp ⊢
        obtain ⟨hid, l, el, dl, pl⟩ := hp
        apply good_sendRsp st _ addr _ c c5 l el
        -- the intermediate state: table with the fresh session, node set updated
        have hln : ((({ st with lnode := ln } : State).modNode h fun n => { n with sess := setIns n.sess s0.localID }).setSess s5).lnode
            = ln.setSess s5 := rfl
        refine ⟨?_, ?_, ?_⟩
        · intro wf hr
          obtain ⟨wf', hne, hfresh, hhit, _, _⟩ := hspec wf hr
          rw [hln]
          exact setSess_wf ln wf' s0.localID s0 s5 hhit hid
        · rw [hln]; simp [LNode.setSess]; exact hlen
        · intro dp wf hr inv hn
          obtain ⟨wf', hne, hfresh, hhit, _, hother⟩ := hspec wf hr
          -- no entry carries the fresh SEID, so the new session's invariant holds vacuously
          have hnone := no_entries_of_miss st dp inv s0.localID hfresh
          have hs0 : SInv s0 dp := fun k i hm => absurd hm (hnone k i)
          have hs5 := pl dp hs0 hn
          have inv1 : Inv ({ st with lnode := ln } : State) dp := by
            intro y k i hm
            obtain ⟨sy, hsy, h1, h2⟩ := inv y k i hm
            have hy : y ≠ s0.localID := by
              intro hc; subst hc; exact hnone k i hm
            exact ⟨sy, by show ln.lookup y = some sy; rw [hother y hy]; exact hsy, h1, h2⟩
          exact inv_after_session_update ({ st with lnode := ln } : State) wf' dp inv1 s0.localID s0 s5 hhit hid l dl hs5
            (ln.setSess s5) rfl _ hln

theorem resetNode_good (st : State) (h : Nat) (env : Env) (c : Ctx) :
    ∃ l, (st.resetNode h env c).2.outs = c.outs ++ l ∧ GoodStep st (st.resetNode h env c).1 l ∧
      (st.resetNode h env c).1.lnode.sess.length = st.lnode.sess.length := by
  unfold State.resetNode
  simp only []
  generalize arrange (st.nodes.getD h default).sess env.sessOrder = order
  suffices ∀ (acc : State × Ctx) (l0 : List Out), acc.2.outs = c.outs ++ l0 → GoodStep st acc.1 l0 →
      acc.1.lnode.sess.length = st.lnode.sess.length →
      ∃ l, (order.foldl (fun (acc : State × Ctx) x =>
        ((acc.1.deleteSess h x env acc.2).1, (acc.1.deleteSess h x env acc.2).2.1)) acc).2.outs = c.outs ++ l ∧
        GoodStep st (order.foldl (fun (acc : State × Ctx) x =>
          ((acc.1.deleteSess h x env acc.2).1, (acc.1.deleteSess h x env acc.2).2.1)) acc).1 l ∧
        (order.foldl (fun (acc : State × Ctx) x =>
          ((acc.1.deleteSess h x env acc.2).1, (acc.1.deleteSess h x env acc.2).2.1)) acc).1.lnode.sess.length
          = st.lnode.sess.length by
    obtain ⟨l, e, g, hl⟩ := this (st, c) [] (by simp) (good_refl st st rfl) rfl
    refine ⟨l, by simpa using e, ?_, by simpa [State.modNode] using hl⟩
    exact ⟨fun wf hr => by simpa [State.modNode] using g.1 wf hr, by simpa [State.modNode] using g.2.1,
      fun dp wf hr inv hn => inv_of_lnode_eq _ _ _ (g.2.2 dp wf hr inv hn) (by simp [State.modNode])⟩
  induction order with
  | nil => intro acc l0 e g hl; exact ⟨l0, by simpa using e, by simpa using g, by simpa using hl⟩
  | cons x xs ih =>
    intro acc l0 e g hl
    simp only [List.foldl_cons]
    obtain ⟨l1, e1, _⟩ := deleteSess_dpExt acc.1 h x env acc.2
    have hlen1 := deleteSess_length acc.1 h x env acc.2
    apply ih _ (l0 ++ l1) (by rw [e1, e, List.append_assoc]) ?_ (by rw [hlen1, hl])
    have gstep : GoodStep acc.1 (acc.1.deleteSess h x env acc.2).1 l1 := by
      refine ⟨fun wf _ => (C05.deleteSess_frame acc.1 wf h x env acc.2).1, by rw [hlen1]; omega, ?_⟩
      intro dp wf _ inv hn
      obtain ⟨l', el', _, hinv⟩ := deleteSess_inv acc.1 wf dp inv h x env acc.2
      have : l' = l1 := by rw [e1] at el'; exact (List.append_cancel_left el').symm
      subst this
      exact hinv hn
    exact g.trans gstep hl

end UpfVerif.Core

namespace UpfVerif.Core
open UpfVerif.Spec

theorem handleAssoc_good (st : State) (addr : String) (seq : BitVec 24) (nid : Option NodeId) (env : Env) (c : Ctx) :
    ∃ l, (handleAssoc st addr seq nid env c).2.outs = c.outs ++ l ∧ GoodStep st (handleAssoc st addr seq nid env c).1 l := by
  unfold handleAssoc
  split
  · exact ⟨[], by simp, good_refl st st rfl⟩
  · rename_i n
    simp only []
    split
    · rename_i h _
      obtain ⟨l, e, g, hlen⟩ := resetNode_good st h env c
      generalize st.resetNode h env c = R at e g hlen
      obtain ⟨st', c'⟩ := R
      simp only [] at e g hlen ⊢
      apply good_sendRsp st _ addr _ c c' l e
      exact ⟨fun wf hr => g.1 wf hr, g.2.1, fun dp wf hr inv hn => inv_of_lnode_eq st' _ _ (g.2.2 dp wf hr inv hn) rfl⟩
    · simp only []
      apply good_sendRsp st _ addr _ c c [] (by simp)
      exact good_refl st _ rfl

theorem handleReq_good (st : State) (addr : String) (seq : BitVec 24) (r : Req) (env : Env) (c : Ctx) :
    ∃ l, (handleReq st addr seq r env c).2.outs = c.outs ++ l ∧ GoodStep st (handleReq st addr seq r env c).1 l := by
  cases r with
  | heartbeat => exact good_sendRsp st st addr _ c c [] (by simp) (good_refl st st rfl)
  | assoc nid => exact handleAssoc_good st addr seq nid env c
  | est e => exact handleEst_good st addr seq e env c
  | mod m => exact handleMod_good st addr seq m env c
  | del x => exact handleDel_good st addr seq x env c
  | other => exact ⟨[], by simp [handleReq], good_refl st st rfl⟩

/-- rewriting a live session with one that has the same SEID and keeps its own invariant on every table -/
theorem good_setSess (st : State) (x : Seid) (s s' : Sess) (hl : st.lnode.lookup x = some s)
    (hid : s'.localID = s.localID) (hk : ∀ dp, SInv s dp → SInv s' dp) : GoodStep st (st.setSess s') [] := by
  refine ⟨?_, by simp [State.setSess, LNode.setSess], ?_⟩
  · intro wf _
    have hx := C04.lookup_some_id st.lnode wf x s hl
    exact setSess_wf st.lnode wf x s s' hl (by rw [hid, hx])
  · intro dp wf _ inv _
    have hx := C04.lookup_some_id st.lnode wf x s hl
    have hs := sinv_of_inv st wf dp inv x s hl
    exact inv_after_session_update st wf dp inv x s s' hl hid [] (fun o ho => by cases ho)
      (by simpa [dpRun] using hk dp hs) (st.lnode.setSess s') rfl _ rfl

theorem push_sinv (s : Sess) (qlen pdr : Nat) (pkt : Bytes) (dp : DP) (h : SInv s dp) : SInv (s.push qlen pdr pkt) dp := by
  unfold Sess.push
  simp only []
  split <;> exact sinv_mono s _ dp rfl h (fun k i hi => by cases k <;> exact hi) (fun i _ hn => hn)

theorem push_id (s : Sess) (qlen pdr : Nat) (pkt : Bytes) : (s.push qlen pdr pkt).localID = s.localID := by
  unfold Sess.push; simp only []; split <;> rfl

/-- a state reached without driver calls from a sound one, with the same table size -/
def Quiet (st st' : State) : Prop := GoodStep st st' [] ∧ st'.lnode.sess.length = st.lnode.sess.length

theorem Quiet.refl (st : State) : Quiet st st := ⟨good_refl st st rfl, rfl⟩
theorem Quiet.trans {a b c : State} (h1 : Quiet a b) (h2 : Quiet b c) : Quiet a c :=
  ⟨by simpa using h1.1.trans h2.1 h1.2, h2.2.trans h1.2⟩
theorem quiet_of_lnode_eq (st st' : State) (e : st'.lnode = st.lnode) : Quiet st st' :=
  ⟨good_refl st st' e, by rw [e]⟩
theorem quiet_setSess (st : State) (x : Seid) (s s' : Sess) (hl : st.lnode.lookup x = some s)
    (hid : s'.localID = s.localID) (hk : ∀ dp, SInv s dp → SInv s' dp) : Quiet st (st.setSess s') :=
  ⟨good_setSess st x s s' hl hid hk, by simp [State.setSess, LNode.setSess]⟩

theorem serveLoop_quiet (x : Seid) (dest : String) :
    ∀ (items : List RepItem) (st : State) (c : Ctx) (us : List Report),
      Quiet st (serveLoop x dest items st c us).1 ∧ (∀ o ∈ (serveLoop x dest items st c us).2.1.outs, o ∈ c.outs ∨ ¬ IsDp o)
  | [], st, c, us => ⟨Quiet.refl st, fun o ho => Or.inl ho⟩
  | .usar r :: rest, st, c, us => by
    unfold serveLoop
    exact serveLoop_quiet x dest rest st c _
  | .dldr pdr act pkt :: rest, st, c, us => by
    unfold serveLoop
    simp only []
    have q1 : Quiet st (st.pushPkt x pdr act pkt) := by
      unfold State.pushPkt
      split
      · rename_i s hl
        split
        · exact quiet_setSess st x s _ hl (push_id _ _ _ _) (fun dp h => push_sinv s _ _ _ dp h)
        · exact Quiet.refl st
      · exact Quiet.refl st
    generalize st.pushPkt x pdr act pkt = st1 at q1
    split
    · exact ⟨q1, fun o ho => Or.inl ho⟩
    · -- the Session Report Request for the downlink data report, then the rest
      split
      · rename_i s hs
        have q2 : Quiet st1 (st1.sendReq dest { kind := .srReq, seq := 0, seid := some s.remoteID, rtype := some 1, dldr := some pdr } c).1 :=
          quiet_of_lnode_eq _ _ rfl
        have ih := serveLoop_quiet x dest rest
          (st1.sendReq dest { kind := .srReq, seq := 0, seid := some s.remoteID, rtype := some 1, dldr := some pdr } c).1
          (st1.sendReq dest { kind := .srReq, seq := 0, seid := some s.remoteID, rtype := some 1, dldr := some pdr } c).2 us
        refine ⟨(q1.trans q2).trans ih.1, ?_⟩
        intro o ho
        rcases ih.2 o ho with h | h
        · simp only [State.sendReq, Ctx.emit, List.mem_append, List.mem_singleton] at h
          rcases h with h | h
          · exact Or.inl h
          · right; subst h; intro ⟨cc, a, he⟩; cases he
        · exact Or.inr h
      · have ih := serveLoop_quiet x dest rest st1 c us
        exact ⟨q1.trans ih.1, ih.2⟩

end UpfVerif.Core

namespace UpfVerif.Core
open UpfVerif.Spec

theorem dpRun_nodp (l : List Out) (h : ∀ o ∈ l, ¬ IsDp o) : ∀ dp, dpRun dp l = dp ∧ natural dp l := by
  induction l with
  | nil => intro dp; simp [dpRun, natural]
  | cons o l ih =>
    intro dp
    cases o with
    | dp c a => exact absurd ⟨c, a, rfl⟩ (h _ (by simp))
    | send t m =>
      simp only [dpRun, natural]
      exact ih (fun o ho => h o (by simp [ho])) dp

theorem good_of_quiet (st st' : State) (q : Quiet st st') (l : List Out) (h : ∀ o ∈ l, ¬ IsDp o) : GoodStep st st' l := by
  refine ⟨q.1.1, q.1.2.1, ?_⟩
  intro dp wf hr inv _
  rw [(dpRun_nodp l h dp).1]
  simpa [dpRun] using q.1.2.2 dp wf hr inv (by simp [natural])

theorem serveReport_quiet (st : State) (x : Seid) (items : List RepItem) (c : Ctx) :
    Quiet st (serveReport st x items c).1 ∧ ∀ o ∈ (serveReport st x items c).2.outs, o ∈ c.outs ∨ ¬ IsDp o := by
  unfold serveReport
  split
  · exact ⟨Quiet.refl st, fun o ho => Or.inl ho⟩
  · split
    · exact ⟨Quiet.refl st, fun o ho => Or.inl ho⟩
    · rename_i dest _
      have hq := serveLoop_quiet x dest items st c []
      generalize serveLoop x dest items st c [] = R at hq
      obtain ⟨st1, c1, o⟩ := R
      cases o with
      | none => exact hq
      | some us =>
        simp only [] at hq ⊢
        split
        · exact hq
        · split
          · exact hq
          · rename_i s hs
            have he := emitUsars_ids s us 0 false
            have q2 : Quiet st1 (st1.setSess (emitUsars s us 0 false).1) :=
              quiet_setSess st1 x s _ hs he.1 (fun dp h => emitUsars_sinv s us 0 false dp h)
            refine ⟨(hq.1.trans q2).trans (quiet_of_lnode_eq _ _ rfl), ?_⟩
            intro o ho
            simp only [State.sendReq, Ctx.emit, List.mem_append, List.mem_singleton] at ho
            rcases ho with h | h
            · exact hq.2 o h
            · right; subst h; intro ⟨cc, a, he⟩; cases he

/-- every event of the loop is a sound step -/
theorem step_good (st : State) (e : Event) (env : Env) : GoodStep st (step st e env).1 (step st e env).2 := by
  cases e with
  | ignored => simpa [step] using good_refl st st rfl
  | rxTimeout addr seq => (simp only [step]; exact good_refl st _ rfl)
  | otherResponse addr seq =>
    simp only [step]
    split <;> exact good_refl st _ rfl
  | txTimeout addr seq =>
    simp only [step]
    split
    · exact good_refl st _ rfl
    · split
      · exact good_of_quiet st _ (quiet_of_lnode_eq _ _ rfl) _
          (by intro o ho; simp [Ctx.emit] at ho; subst ho; intro ⟨cc, a, he⟩; cases he)
      · exact good_refl st _ rfl
  | report x items =>
    simp only [step]
    have h := serveReport_quiet st x items { pending := env.pending }
    exact good_of_quiet st _ h.1 _ (fun o ho => by
      rcases h.2 o ho with h' | h'
      · simp at h'
      · exact h')
  | request addr seq r =>
    simp only [step]
    split
    · split
      · exact good_of_quiet st _ (Quiet.refl st) _
          (by intro o ho; simp [Ctx.emit] at ho; subst ho; intro ⟨cc, a, he⟩; cases he)
      · exact good_refl st st rfl
    · obtain ⟨l, e, g⟩ := handleReq_good { st with rx := alSet st.rx (addr, seq) {} } addr seq r env { pending := env.pending }
      have : l = (handleReq { st with rx := alSet st.rx (addr, seq) {} } addr seq r env { pending := env.pending }).2.outs := by
        simpa using e.symm
      rw [← this]
      exact ⟨g.1, g.2.1, fun dp wf hr inv hn => g.2.2 dp wf hr (inv_of_lnode_eq st _ dp inv rfl) hn⟩
  | srResponse addr seq seid =>
    simp only [step]
    split
    · exact good_refl st st rfl
    · rename_i tx _
      split
      · split
        · exact good_refl st _ rfl
        · rename_i s _
          have hwf := fun wf => (C05.deleteSess_frame { st with tx := alDel st.tx (addr, seq) } wf s.rnode s.localID env { pending := env.pending }).1
          have hd := fun wf dp inv => deleteSess_inv { st with tx := alDel st.tx (addr, seq) } wf dp inv s.rnode s.localID env { pending := env.pending }
          have hlen := deleteSess_length { st with tx := alDel st.tx (addr, seq) } s.rnode s.localID env { pending := env.pending }
          generalize State.deleteSess { st with tx := alDel st.tx (addr, seq) } s.rnode s.localID env { pending := env.pending } = R at hwf hd hlen
          obtain ⟨st2, c2, s2, rs2⟩ := R
          simp only [] at hwf hd hlen ⊢
          refine ⟨fun wf _ => hwf wf, by rw [hlen]; simp, ?_⟩
          intro dp wf _ inv hn
          obtain ⟨l', el', _, hinv⟩ := hd wf dp (inv_of_lnode_eq st _ dp inv rfl)
          have : l' = c2.outs := by simpa using el'.symm
          subst this
          exact hinv hn
      · exact good_refl st _ rfl

end UpfVerif.Core
