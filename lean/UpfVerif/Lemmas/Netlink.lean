import UpfVerif.Wire.Netlink
/-
Netlink attribute trees read back: the tree decoder `decTree` (what a kernel does with `nla_parse_nested`: split by
length with 4-byte alignment, recurse into attributes that carry `NLA_F_NESTED`) applied to `encList as` returns `as`,
for every well-formed tree — any depth, any number of attributes, any payload.
-/
namespace UpfVerif.Netlink

/-- tree decoder; fuel = an upper bound on the number of bytes -/
def decTree : Nat → Bytes → Option (List Attr)
  | 0, b => if b.isEmpty then some [] else none
  | fuel + 1, b =>
    if b.isEmpty then some [] else
    if b.length < 4 then none else
    if rd16 b < 4 || rd16 b > b.length then none else
    match decTree fuel (b.drop (rd16 b + padLen (rd16 b))) with
    | none => none
    | some rest =>
      if isNested (rd16 (b.drop 2)) then
        match decTree fuel ((b.drop 4).take (rd16 b - 4)) with
        | some cs => some (.nest (typeOf (rd16 (b.drop 2))) cs :: rest)
        | none => none
      else some (.leaf (rd16 (b.drop 2)) ((b.drop 4).take (rd16 b - 4)) :: rest)

mutual
/-- well-formed: types fit (leaf types carry no flag bits we interpret, nested types are below the flag bits),
    lengths fit the 16-bit length field -/
def Attr.wf : Attr → Bool
  | .leaf t v => t < 0x8000 && 4 + v.length < 65536
  | .nest t cs => t < 0x4000 && 4 + (encList cs).length < 65536 && wfList cs
def wfList : List Attr → Bool
  | [] => true
  | a :: rest => a.wf && wfList rest
end

theorem le16_length (n : Nat) : (le16 n).length = 2 := rfl

theorem rd16_le16 (n : Nat) (h : n < 65536) (rest : Bytes) : rd16 (le16 n ++ rest) = n := by
  simp [rd16, le16, BitVec.toNat_ofNat]
  omega

theorem pad_length (n : Nat) : (pad n).length = padLen n := by simp [pad]

theorem padLen_add (n : Nat) : (n + padLen n) % 4 = 0 := by unfold padLen; omega

theorem padLen_lt (n : Nat) : padLen n < 4 := by unfold padLen; omega

theorem padLen_add4 (n : Nat) : padLen (4 + n) = padLen n := by unfold padLen; omega

mutual
theorem Attr.enc_length_mod : (a : Attr) → a.enc.length % 4 = 0
  | .leaf t v => by
    simp [Attr.enc, le16_length, pad_length]
    have := padLen_add v.length; omega
  | .nest t cs => by
    simp [Attr.enc, le16_length]
    have := encList_length_mod cs; omega
theorem encList_length_mod : (as : List Attr) → (encList as).length % 4 = 0
  | [] => by simp [encList]
  | a :: rest => by
    simp [encList]
    have := Attr.enc_length_mod a
    have := encList_length_mod rest
    omega
end

theorem Attr.enc_length_pos (a : Attr) : 4 ≤ a.enc.length := by
  cases a <;> simp [Attr.enc, le16_length] <;> omega

theorem decTree_nil (fuel : Nat) : decTree fuel [] = some [] := by
  cases fuel <;> simp [decTree]

theorem isNested_leaf (t : Nat) (h : t < 0x8000) : isNested t = false := by
  simp [isNested]; omega

theorem isNested_nest (t : Nat) (h : t < 0x4000) : isNested (t + nestedFlag) = true := by
  simp [isNested, nestedFlag]; omega

theorem typeOf_nest (t : Nat) (h : t < 0x4000) : typeOf (t + nestedFlag) = t := by
  simp [typeOf, nestedFlag]; omega

/-- one decoding step on `hdr ++ payload ++ padding ++ rest` -/
theorem decTree_step (fuel : Nat) (l t : Nat) (v p rest : Bytes)
    (hl : l = 4 + v.length) (hl16 : l < 65536) (ht : t < 65536) (hp : p.length = padLen v.length) :
    decTree (fuel + 1) (le16 l ++ le16 t ++ v ++ p ++ rest) =
      match decTree fuel rest with
      | none => none
      | some r =>
        if isNested t then
          match decTree fuel v with
          | some cs => some (.nest (typeOf t) cs :: r)
          | none => none
        else some (.leaf t v :: r) := by
  have e1 : rd16 (le16 l ++ le16 t ++ v ++ p ++ rest) = l := by
    simp only [List.append_assoc]; exact rd16_le16 l hl16 _
  have e2 : rd16 ((le16 l ++ le16 t ++ v ++ p ++ rest).drop 2) = t := by
    simp only [List.append_assoc]
    rw [List.drop_left' (le16_length l)]
    exact rd16_le16 t ht _
  have e3 : ((le16 l ++ le16 t ++ v ++ p ++ rest).drop 4).take (l - 4) = v := by
    have : (le16 l ++ le16 t ++ v ++ p ++ rest) = (le16 l ++ le16 t) ++ (v ++ (p ++ rest)) := by
      simp [List.append_assoc]
    rw [this, List.drop_left' (by simp [le16_length])]
    have : l - 4 = v.length := by omega
    rw [this]; simp
  have e4 : (le16 l ++ le16 t ++ v ++ p ++ rest).drop (l + padLen l) = rest := by
    have : (le16 l ++ le16 t ++ v ++ p ++ rest) = (le16 l ++ le16 t ++ v ++ p) ++ rest := by
      simp [List.append_assoc]
    rw [this, List.drop_left' (by simp [le16_length, hp, hl, padLen_add4]; omega)]
  have hlen : (le16 l ++ le16 t ++ v ++ p ++ rest).length = l + padLen v.length + rest.length := by
    simp [le16_length, hp, hl]; omega
  have hne : (le16 l ++ le16 t ++ v ++ p ++ rest).isEmpty = false := by
    simp [le16]
  generalize (le16 l ++ le16 t ++ v ++ p ++ rest) = b at *
  rw [decTree]
  simp only [hne, e1, e2, e3, e4]
  have h1 : ¬ (b.length < 4) := by rw [hlen]; omega
  have h2 : ¬ (l < 4 ∨ l > b.length) := by rw [hlen]; omega
  simp [h1, h2]

mutual
theorem decTree_enc : (a : Attr) → (rest : List Attr) → (fuel : Nat) → a.wf = true → wfList rest = true →
    (a.enc ++ encList rest).length ≤ fuel → decTree fuel (a.enc ++ encList rest) = some (a :: rest)
  | .leaf t v, rest, fuel, hwf, hr, hf => by
    simp [Attr.wf] at hwf
    cases fuel with
    | zero => simp [Attr.enc, le16_length] at hf
    | succ fuel =>
      simp only [Attr.enc]
      rw [decTree_step fuel (4 + v.length) t v (pad v.length) (encList rest) rfl hwf.2 (by omega) (pad_length _)]
      have hr' : decTree fuel (encList rest) = some rest :=
        decTree_encList rest fuel hr (by simp [Attr.enc, le16_length] at hf; omega)
      simp [hr', isNested_leaf t hwf.1]
  | .nest t cs, rest, fuel, hwf, hr, hf => by
    simp [Attr.wf] at hwf
    cases fuel with
    | zero => simp [Attr.enc, le16_length] at hf
    | succ fuel =>
      simp only [Attr.enc]
      have hmod := encList_length_mod cs
      have hpl : padLen (encList cs).length = 0 := by unfold padLen; omega
      have := decTree_step fuel (4 + (encList cs).length) (t + nestedFlag) (encList cs) [] (encList rest) rfl
        hwf.1.2 (by simp [nestedFlag]; omega) (by simp [hpl])
      simp only [List.append_nil] at this
      rw [this]
      have hr' : decTree fuel (encList rest) = some rest :=
        decTree_encList rest fuel hr (by simp [Attr.enc, le16_length] at hf; omega)
      have hc' : decTree fuel (encList cs) = some cs :=
        decTree_encList cs fuel hwf.2 (by simp [Attr.enc, le16_length] at hf; omega)
      simp [hr', hc', isNested_nest t hwf.1.1, typeOf_nest t hwf.1.1]
theorem decTree_encList : (as : List Attr) → (fuel : Nat) → wfList as = true → (encList as).length ≤ fuel →
    decTree fuel (encList as) = some as
  | [], fuel, _, _ => by simp [encList, decTree_nil]
  | a :: rest, fuel, hwf, hf => by
    simp [wfList] at hwf
    simp only [encList] at hf ⊢
    exact decTree_enc a rest fuel hwf.1 hwf.2 hf
end

/-- the decoder a kernel applies to a request body -/
def decodeTree (b : Bytes) : Option (List Attr) := decTree b.length b

/-- **reads back**: every well-formed attribute tree is recovered from its encoding -/
theorem decodeTree_encList (as : List Attr) (h : wfList as = true) : decodeTree (encList as) = some as :=
  decTree_encList as _ h (Nat.le_refl _)

end UpfVerif.Netlink
