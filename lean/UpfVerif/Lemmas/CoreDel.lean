import UpfVerif.Model.Core
import UpfVerif.Lemmas.Core
import UpfVerif.Lemmas.CoreRef
import UpfVerif.Lemmas.CoreSeq
/-
Session deletion (`Sess.Close`, C12): whatever order the maps are walked in and whatever the data plane answers, every
report that comes back is marked as a termination report, and each URR the session knows is removed from the data plane
by exactly the calls the walk makes for it.
-/
namespace UpfVerif.Core

/-- marked as termination report -/
def Report.termr (r : Report) : Prop := r.trig &&& usarTERMR = usarTERMR

theorem flag_termr (rs : List Report) : ∀ r ∈ flag usarTERMR rs, r.termr := by
  intro r hr
  simp only [flag, List.mem_map] at hr
  obtain ⟨r0, _, rfl⟩ := hr
  simp only [Report.termr]
  ext i hi
  simp only [BitVec.getElem_and, BitVec.getElem_or]
  cases r0.trig[i] <;> cases usarTERMR[i] <;> rfl

theorem diassociate_termr (s : Sess) (u : Nat) (c : Ctx) : ∀ r ∈ (s.diassociate u c).2.2, r.termr := by
  unfold Sess.diassociate
  cases hg : alGet s.urrs u with
  | none => intro r hr; simp at hr
  | some info =>
    simp only []
    split
    · split
      · rcases hc : c.call { seid := s.localID, op := .query, kind := .urr, id := u } with ⟨c', a⟩
        simp only []
        split
        · exact flag_termr a.reports
        · intro r hr; simp at hr
      · intro r hr; simp at hr
    · intro r hr; simp at hr

theorem diassociateAll_termr (s : Sess) (us : List Nat) (c : Ctx) : ∀ r ∈ (s.diassociateAll us c).2.2, r.termr := by
  let body : Nat → Sess × List Report → Ctx → (Sess × List Report) × Ctx := fun u acc c =>
      let (s2, c2, r) := acc.1.diassociate u c
      ((s2, acc.2 ++ r), c2)
  let R : List Nat → Sess × List Report → Ctx → Prop := fun _ st _ => ∀ r ∈ st.2, r.termr
  have hb : ∀ keys k st c', k ∈ keys → R keys st c' → R (keys.erase k) (body k st c').1 (body k st c').2 := by
    intro keys k st c' _ hr r hm
    have hm' : r ∈ st.2 ++ (st.1.diassociate k c').2.2 := hm
    rcases List.mem_append.mp hm' with h | h
    · exact hr r h
    · exact diassociate_termr st.1 k c' r h
  exact rangeMap_inv s.localID .query .urr body R hb us.length us (s, []) c (Nat.le_refl _)
    (by intro r hr; simp at hr)

theorem removePDR_termr (s : Sess) (ie : RuleIE) (c : Ctx) : ∀ r ∈ (s.removePDR ie c).2.2, r.termr := by
  unfold Sess.removePDR
  cases hid : ie.id with
  | none => intro r hr; simp at hr
  | some pdrid =>
    simp only []
    cases hg : alGet s.pdrs pdrid with
    | none => intro r hr; simp at hr
    | some us =>
      simp only []
      rcases hc : c.call { seid := s.localID, op := .remove, kind := .pdr, id := pdrid } with ⟨c1, a⟩
      simp only []
      cases hok : a.ok with
      | false => intro r hr; simp at hr
      | true =>
        simp only [Bool.not_true, Bool.false_eq_true, if_false]
        exact diassociateAll_termr _ us c1

theorem removeURR_termr (s : Sess) (ie : RuleIE) (c : Ctx) : ∀ r ∈ ((s.removeURR ie c).2.2).getD [], r.termr := by
  unfold Sess.removeURR
  cases hid : ie.id with
  | none => intro r hr; simp at hr
  | some id =>
    simp only []
    cases hg : alGet s.urrs id with
    | none => intro r hr; simp at hr
    | some info =>
      simp only []
      rcases hc : c.call { seid := s.localID, op := .remove, kind := .urr, id := id } with ⟨c', a⟩
      simp only []
      split
      · exact flag_termr a.reports
      · intro r hr; simp at hr

/-- **session deletion**: every report `Sess.Close` hands back — from the removal of each URR and from the dissociation
    inside each PDR's removal — is marked as a termination report; for every iteration order and every answer stream -/
theorem close_termr (s : Sess) (c : Ctx) : ∀ r ∈ (s.close c).2.2, r.termr := by
  unfold Sess.close
  simp only []
  -- name the intermediate results
  generalize hA : rangeMap s.localID .remove .far
      (fun id (s : Sess) c => s.removeSimple .far ({ id := some id } : RuleIE) c) s.fars.length s.fars s c = A
  rcases A with ⟨s1, c1⟩
  simp only []
  generalize hB : rangeMap s.localID .remove .qer
      (fun id (s : Sess) c => s.removeSimple .qer ({ id := some id } : RuleIE) c) s1.qers.length s1.qers s1 c1 = B
  rcases B with ⟨s2, c2⟩
  simp only []
  -- the URR loop
  let bodyU : Nat → Sess × List Report → Ctx → (Sess × List Report) × Ctx := fun id acc c =>
      let (s', c', r) := acc.1.removeURR ({ id := some id } : RuleIE) c
      ((s', acc.2 ++ r.getD []), c')
  let R : List Nat → Sess × List Report → Ctx → Prop := fun _ st _ => ∀ r ∈ st.2, r.termr
  have hU : ∀ keys k st c', k ∈ keys → R keys st c' → R (keys.erase k) (bodyU k st c').1 (bodyU k st c').2 := by
    intro keys k st c' _ hr r hm
    have hm' : r ∈ st.2 ++ ((st.1.removeURR ({ id := some k } : RuleIE) c').2.2).getD [] := hm
    rcases List.mem_append.mp hm' with h | h
    · exact hr r h
    · exact removeURR_termr st.1 _ c' r h
  have h3 := rangeMap_inv s.localID .remove .urr bodyU R hU (s2.urrs.map (·.1)).length (s2.urrs.map (·.1)) (s2, []) c2
    (Nat.le_refl _) (by intro r hr; simp at hr)
  generalize hC : rangeMap s.localID .remove .urr bodyU (s2.urrs.map (·.1)).length (s2.urrs.map (·.1)) (s2, []) c2 = C at h3
  rcases C with ⟨⟨s3, r3⟩, c3⟩
  simp only [] at h3 ⊢
  generalize hD : rangeMap s.localID .remove .bar
      (fun id (s : Sess) c => s.removeSimple .bar ({ id := some id } : RuleIE) c) s3.bars.length s3.bars s3 c3 = D
  rcases D with ⟨s4, c4⟩
  simp only []
  -- the PDR loop
  let bodyP : Nat → Sess × List Report → Ctx → (Sess × List Report) × Ctx := fun id acc c =>
      let (s', c', r) := acc.1.removePDR ({ id := some id } : RuleIE) c
      ((s', acc.2 ++ r), c')
  have hP : ∀ keys k st c', k ∈ keys → R keys st c' → R (keys.erase k) (bodyP k st c').1 (bodyP k st c').2 := by
    intro keys k st c' _ hr r hm
    have hm' : r ∈ st.2 ++ (st.1.removePDR ({ id := some k } : RuleIE) c').2.2 := hm
    rcases List.mem_append.mp hm' with h | h
    · exact hr r h
    · exact removePDR_termr st.1 _ c' r h
  have h5 := rangeMap_inv s.localID .remove .pdr bodyP R hP (s4.pdrs.map (·.1)).length (s4.pdrs.map (·.1)) (s4, r3) c4
    (Nat.le_refl _) h3
  generalize hE : rangeMap s.localID .remove .pdr bodyP (s4.pdrs.map (·.1)).length (s4.pdrs.map (·.1)) (s4, r3) c4 = E at h5
  rcases E with ⟨⟨s5, r5⟩, c5⟩
  exact h5

/-! ### each URR is removed from the data plane once -/

/-- number of REMOVE_URR calls for URR `u` of session `x` among the outputs -/
def rcount (c : Ctx) (x : Seid) (u : Nat) : Nat :=
  (c.outs.filter fun o => match o with
    | .dp call _ => call.seid == x && call.op == .remove && call.kind == .urr && call.id == u
    | _ => false).length

theorem rcount_call (c : Ctx) (call : DpCall) (x : Seid) (u : Nat) :
    rcount (c.call call).1 x u = rcount c x u +
      (if call.seid == x && call.op == .remove && call.kind == .urr && call.id == u then 1 else 0) := by
  unfold rcount Ctx.call
  cases c.pending with
  | nil => simp only [List.filter_append, List.length_append]; congr 1; simp [List.filter]; split <;> simp_all
  | cons p rest => simp only [List.filter_append, List.length_append]; congr 1; simp [List.filter]; split <;> simp_all

theorem removeSimple_rcount (s : Sess) (k : Kind) (ie : RuleIE) (c : Ctx) (hk : k ≠ .urr) (x : Seid) (u : Nat) :
    rcount (s.removeSimple k ie c).2 x u = rcount c x u ∧ (s.removeSimple k ie c).1.urrs = s.urrs ∧
    (s.removeSimple k ie c).1.localID = s.localID := by
  unfold Sess.removeSimple
  cases hid : ie.id with
  | none => exact ⟨rfl, rfl, rfl⟩
  | some id =>
    simp only []
    split
    · rcases hc : c.call { seid := s.localID, op := .remove, kind := k, id := id } with ⟨c', a⟩
      have hcnt : rcount c' x u = rcount c x u := by
        have := rcount_call c { seid := s.localID, op := .remove, kind := k, id := id } x u
        rw [hc] at this
        rw [this]
        have hk' : (k == Kind.urr) = false := by cases k <;> simp_all
        simp [hk']
      simp only []
      split
      · refine ⟨hcnt, ?_, ?_⟩ <;> cases k <;> rfl
      · exact ⟨hcnt, rfl, rfl⟩
    · exact ⟨rfl, rfl, rfl⟩

theorem diassociate_rcount (s : Sess) (v : Nat) (c : Ctx) (x : Seid) (u : Nat) :
    rcount (s.diassociate v c).2.1 x u = rcount c x u := by
  unfold Sess.diassociate
  cases hg : alGet s.urrs v with
  | none => rfl
  | some info =>
    simp only []
    split
    · split
      · rcases hc : c.call { seid := s.localID, op := .query, kind := .urr, id := v } with ⟨c', a⟩
        have := rcount_call c { seid := s.localID, op := .query, kind := .urr, id := v } x u
        rw [hc] at this
        simp only [] at this ⊢
        have h0 : rcount c' x u = rcount c x u := by rw [this]; simp
        split <;> exact h0
      · rfl
    · rfl

theorem diassociateAll_rcount (s : Sess) (us : List Nat) (c : Ctx) (x : Seid) (u : Nat) :
    rcount (s.diassociateAll us c).2.1 x u = rcount c x u := by
  let body : Nat → Sess × List Report → Ctx → (Sess × List Report) × Ctx := fun u acc c =>
      let (s2, c2, r) := acc.1.diassociate u c
      ((s2, acc.2 ++ r), c2)
  let R : List Nat → Sess × List Report → Ctx → Prop := fun _ _ c' => rcount c' x u = rcount c x u
  have hb : ∀ keys k st c', k ∈ keys → R keys st c' → R (keys.erase k) (body k st c').1 (body k st c').2 := by
    intro keys k st c' _ hr
    show rcount (st.1.diassociate k c').2.1 x u = rcount c x u
    rw [diassociate_rcount]; exact hr
  exact rangeMap_inv s.localID .query .urr body R hb us.length us (s, []) c (Nat.le_refl _) rfl

theorem removePDR_rcount (s : Sess) (ie : RuleIE) (c : Ctx) (x : Seid) (u : Nat) :
    rcount (s.removePDR ie c).2.1 x u = rcount c x u := by
  unfold Sess.removePDR
  cases hid : ie.id with
  | none => rfl
  | some pdrid =>
    simp only []
    cases hg : alGet s.pdrs pdrid with
    | none => rfl
    | some us =>
      simp only []
      rcases hc : c.call { seid := s.localID, op := .remove, kind := .pdr, id := pdrid } with ⟨c1, a⟩
      have h1 : rcount c1 x u = rcount c x u := by
        have := rcount_call c { seid := s.localID, op := .remove, kind := .pdr, id := pdrid } x u
        rw [hc] at this
        rw [this]; simp
      simp only []
      cases hok : a.ok with
      | false => exact h1
      | true =>
        simp only [Bool.not_true, Bool.false_eq_true, if_false]
        rw [diassociateAll_rcount]; exact h1

theorem alGet_isSome_of_key [DecidableEq κ] (l : List (κ × ν)) (k : κ) (h : k ∈ l.map (·.1)) : (alGet l k).isSome = true := by
  induction l with
  | nil => simp at h
  | cons p l ih =>
    by_cases hp : p.1 = k
    · simp [alGet, hp]
    · have hp' : (p.1 == k) = false := by simpa using hp
      simp only [alGet, hp', Bool.false_eq_true, if_false]
      apply ih
      simp only [List.map_cons, List.mem_cons] at h
      rcases h with h | h
      · exact absurd h.symm hp
      · exact h

/-- Remove URR of a URR the session knows: one REMOVE_URR for it, none for any other; the other URRs stay known -/
theorem removeURR_rcount (s : Sess) (k : Nat) (c : Ctx) (hk : (alGet s.urrs k).isSome = true) (u : Nat) :
    rcount (s.removeURR { id := some k } c).2.1 s.localID u = rcount c s.localID u + (if k = u then 1 else 0) ∧
    (s.removeURR { id := some k } c).1.localID = s.localID ∧
    ∀ k', (alGet s.urrs k').isSome = true → (alGet (s.removeURR { id := some k } c).1.urrs k').isSome = true := by
  unfold Sess.removeURR
  simp only []
  cases hg : alGet s.urrs k with
  | none => rw [hg] at hk; simp at hk
  | some info =>
    simp only []
    rcases hc : c.call { seid := s.localID, op := .remove, kind := .urr, id := k } with ⟨c', a⟩
    have h1 : rcount c' s.localID u = rcount c s.localID u + (if k = u then 1 else 0) := by
      have := rcount_call c { seid := s.localID, op := .remove, kind := .urr, id := k } s.localID u
      rw [hc] at this
      rw [this]
      by_cases hku : k = u
      · simp [hku]
      · simp [hku]
    have h3 : ∀ k', (alGet s.urrs k').isSome = true →
        (alGet (alSet s.urrs k { info with removed := true }) k').isSome = true := by
      intro k' hk'
      by_cases he : k' = k
      · subst he; simp
      · rw [alGet_alSet_other _ _ _ _ he]; exact hk'
    simp only []
    split
    · exact ⟨h1, rfl, h3⟩
    · exact ⟨h1, rfl, h3⟩

/-- **session deletion, once per URR**: whatever the iteration orders and the answers of the data plane, `Sess.Close`
    issues exactly one REMOVE_URR for every URR the session knows, and none for any other id -/
theorem close_removes_each_once (s : Sess) (c : Ctx) (hn : (s.urrs.map (·.1)).Nodup) (u : Nat) :
    rcount (s.close c).2.1 s.localID u = rcount c s.localID u + (if u ∈ s.urrs.map (·.1) then 1 else 0) := by
  unfold Sess.close
  simp only []
  -- FARs, QERs: no REMOVE_URR, URR table and SEID untouched
  let RS : Sess → Ctx → List Nat → Sess → Ctx → Prop := fun s0 c0 _ st c' =>
    rcount c' s.localID u = rcount c0 s.localID u ∧ st.urrs = s0.urrs ∧ st.localID = s0.localID
  have hS : ∀ (K : Kind), K ≠ .urr → ∀ (s0 : Sess) (c0 : Ctx) keys k st c', k ∈ keys → RS s0 c0 keys st c' →
      RS s0 c0 (keys.erase k) (st.removeSimple K ({ id := some k } : RuleIE) c').1 (st.removeSimple K ({ id := some k } : RuleIE) c').2 := by
    intro K hK s0 c0 keys k st c' _ hr
    obtain ⟨a1, a2, a3⟩ := removeSimple_rcount st K ({ id := some k } : RuleIE) c' hK s.localID u
    exact ⟨by rw [a1]; exact hr.1, by rw [a2]; exact hr.2.1, by rw [a3]; exact hr.2.2⟩
  have hA := rangeMap_inv s.localID .remove .far
      (fun id (s : Sess) c => s.removeSimple .far ({ id := some id } : RuleIE) c) (RS s c)
      (hS .far (by decide) s c) s.fars.length s.fars s c (Nat.le_refl _) ⟨rfl, rfl, rfl⟩
  generalize rangeMap s.localID .remove .far
      (fun id (s : Sess) c => s.removeSimple .far ({ id := some id } : RuleIE) c) s.fars.length s.fars s c = A at hA
  rcases A with ⟨s1, c1⟩
  simp only [] at hA ⊢
  have hB := rangeMap_inv s.localID .remove .qer
      (fun id (s : Sess) c => s.removeSimple .qer ({ id := some id } : RuleIE) c) (RS s1 c1)
      (hS .qer (by decide) s1 c1) s1.qers.length s1.qers s1 c1 (Nat.le_refl _) ⟨rfl, rfl, rfl⟩
  generalize rangeMap s.localID .remove .qer
      (fun id (s : Sess) c => s.removeSimple .qer ({ id := some id } : RuleIE) c) s1.qers.length s1.qers s1 c1 = B at hB
  rcases B with ⟨s2, c2⟩
  simp only [] at hB ⊢
  have hu2 : s2.urrs = s.urrs := by rw [hB.2.1, hA.2.1]
  have hl2 : s2.localID = s.localID := by rw [hB.2.2, hA.2.2]
  have hc2 : rcount c2 s.localID u = rcount c s.localID u := by rw [hB.1, hA.1]
  -- the URR loop
  let keys0 := s2.urrs.map (·.1)
  let bodyU : Nat → Sess × List Report → Ctx → (Sess × List Report) × Ctx := fun id acc c =>
      let (s', c', r) := acc.1.removeURR ({ id := some id } : RuleIE) c
      ((s', acc.2 ++ r.getD []), c')
  let RU : List Nat → Sess × List Report → Ctx → Prop := fun keys st c' =>
    keys.Nodup ∧ st.1.localID = s.localID ∧ (∀ k ∈ keys0, (alGet st.1.urrs k).isSome = true) ∧ (∀ k ∈ keys, k ∈ keys0) ∧
    rcount c' s.localID u = rcount c2 s.localID u + (if u ∈ keys0 ∧ u ∉ keys then 1 else 0)
  have hU : ∀ keys k st c', k ∈ keys → RU keys st c' → RU (keys.erase k) (bodyU k st c').1 (bodyU k st c').2 := by
    intro keys k st c' hk ⟨hnd, hl, hsome, hsub, hcnt⟩
    obtain ⟨b1, b2, b3⟩ := removeURR_rcount st.1 k c' (hsome k (hsub k hk)) u
    refine ⟨hnd.erase k, ?_, ?_, ?_, ?_⟩
    · show (st.1.removeURR ({ id := some k } : RuleIE) c').1.localID = s.localID
      rw [b2]; exact hl
    · intro k' hk'
      exact b3 k' (hsome k' hk')
    · intro k' hk'
      exact hsub k' (List.mem_of_mem_erase hk')
    · show rcount (st.1.removeURR ({ id := some k } : RuleIE) c').2.1 s.localID u = _
      rw [← hl, b1, hl, hcnt]
      by_cases hku : k = u
      · subst hku
        have h1 : k ∉ keys.erase k := fun h => (List.Nodup.mem_erase_iff hnd).mp h |>.1 rfl
        simp [hk, h1, hsub k hk]
      · have h2 : u ∈ keys.erase k ↔ u ∈ keys := by
          rw [List.Nodup.mem_erase_iff hnd]
          exact ⟨fun h => h.2, fun h => ⟨fun e => hku e.symm, h⟩⟩
        simp [hku, h2]
  have hn2 : keys0.Nodup := by show (s2.urrs.map (·.1)).Nodup; rw [hu2]; exact hn
  have h3 := rangeMap_inv s.localID .remove .urr bodyU RU hU keys0.length keys0 (s2, []) c2 (Nat.le_refl _)
    ⟨hn2, hl2, fun k hk => alGet_isSome_of_key s2.urrs k hk, fun k hk => hk, by simp⟩
  change (match (rangeMap s.localID .remove .urr bodyU keys0.length keys0 (s2, []) c2) with
    | ((s3, r3), c3) => _) = _
  generalize rangeMap s.localID .remove .urr bodyU keys0.length keys0 (s2, []) c2 = C at h3 ⊢
  rcases C with ⟨⟨s3, r3⟩, c3⟩
  obtain ⟨_, hl3, _, _, hc3⟩ := h3
  simp only [] at hl3 hc3 ⊢
  -- BARs
  have hD := rangeMap_inv s.localID .remove .bar
      (fun id (s : Sess) c => s.removeSimple .bar ({ id := some id } : RuleIE) c) (RS s3 c3)
      (hS .bar (by decide) s3 c3) s3.bars.length s3.bars s3 c3 (Nat.le_refl _) ⟨rfl, rfl, rfl⟩
  generalize rangeMap s.localID .remove .bar
      (fun id (s : Sess) c => s.removeSimple .bar ({ id := some id } : RuleIE) c) s3.bars.length s3.bars s3 c3 = D at hD
  rcases D with ⟨s4, c4⟩
  simp only [] at hD ⊢
  -- PDRs: queries only
  let bodyP : Nat → Sess × List Report → Ctx → (Sess × List Report) × Ctx := fun id acc c =>
      let (s', c', r) := acc.1.removePDR ({ id := some id } : RuleIE) c
      ((s', acc.2 ++ r), c')
  let RP : List Nat → Sess × List Report → Ctx → Prop := fun _ _ c' => rcount c' s.localID u = rcount c4 s.localID u
  have hP : ∀ keys k st c', k ∈ keys → RP keys st c' → RP (keys.erase k) (bodyP k st c').1 (bodyP k st c').2 := by
    intro keys k st c' _ hr
    show rcount (st.1.removePDR ({ id := some k } : RuleIE) c').2.1 s.localID u = _
    rw [removePDR_rcount]; exact hr
  have h5 := rangeMap_inv s.localID .remove .pdr bodyP RP hP (s4.pdrs.map (·.1)).length (s4.pdrs.map (·.1)) (s4, r3) c4
    (Nat.le_refl _) rfl
  generalize rangeMap s.localID .remove .pdr bodyP (s4.pdrs.map (·.1)).length (s4.pdrs.map (·.1)) (s4, r3) c4 = E at h5
  rcases E with ⟨⟨s5, r5⟩, c5⟩
  simp only [] at h5 ⊢
  show rcount c5 s.localID u = _
  rw [h5, hD.1, hc3, hc2]
  congr 1
  have : keys0 = s.urrs.map (·.1) := by show s2.urrs.map (·.1) = _; rw [hu2]
  rw [this]
  by_cases hm : u ∈ s.urrs.map (·.1)
  · rw [if_pos ⟨hm, List.not_mem_nil⟩, if_pos hm]
  · rw [if_neg (fun h => hm h.1), if_neg hm]

/-! ### after deletion every URR the session still records is marked removed -/

def AllRemoved (s : Sess) : Prop := ∀ k info, alGet s.urrs k = some info → info.removed = true

theorem removePDR_allRemoved (s : Sess) (ie : RuleIE) (c : Ctx) (h : AllRemoved s) : AllRemoved (s.removePDR ie c).1 := by
  intro k info' hk
  have hn := apply_num s c (.removePDR ie) k rfl
  simp only [SOp.apply] at hn
  unfold numOf at hn
  rw [hk] at hn
  cases hg : alGet s.urrs k with
  | none => rw [hg] at hn; simp at hn
  | some info =>
    rw [hg] at hn
    simp only [Option.map_some, Option.some.injEq, Prod.mk.injEq] at hn
    rw [hn.2]; exact h k info hg

theorem close_allRemoved (s : Sess) (c : Ctx) : AllRemoved (s.close c).1 := by
  unfold Sess.close
  simp only []
  let RS : Sess → List Nat → Sess → Ctx → Prop := fun s0 _ st _ => st.urrs = s0.urrs
  have hS : ∀ (K : Kind), K ≠ .urr → ∀ (s0 : Sess) keys k st c', k ∈ keys → RS s0 keys st c' →
      RS s0 (keys.erase k) (st.removeSimple K ({ id := some k } : RuleIE) c').1 (st.removeSimple K ({ id := some k } : RuleIE) c').2 := by
    intro K hK s0 keys k st c' _ hr
    obtain ⟨_, a2, _⟩ := removeSimple_rcount st K ({ id := some k } : RuleIE) c' hK 0 0
    show (st.removeSimple K ({ id := some k } : RuleIE) c').1.urrs = s0.urrs
    rw [a2]; exact hr
  have hA := rangeMap_inv s.localID .remove .far
      (fun id (s : Sess) c => s.removeSimple .far ({ id := some id } : RuleIE) c) (RS s)
      (hS .far (by decide) s) s.fars.length s.fars s c (Nat.le_refl _) rfl
  generalize rangeMap s.localID .remove .far
      (fun id (s : Sess) c => s.removeSimple .far ({ id := some id } : RuleIE) c) s.fars.length s.fars s c = A at hA
  rcases A with ⟨s1, c1⟩
  simp only [] at hA ⊢
  have hB := rangeMap_inv s.localID .remove .qer
      (fun id (s : Sess) c => s.removeSimple .qer ({ id := some id } : RuleIE) c) (RS s1)
      (hS .qer (by decide) s1) s1.qers.length s1.qers s1 c1 (Nat.le_refl _) rfl
  generalize rangeMap s.localID .remove .qer
      (fun id (s : Sess) c => s.removeSimple .qer ({ id := some id } : RuleIE) c) s1.qers.length s1.qers s1 c1 = B at hB
  rcases B with ⟨s2, c2⟩
  simp only [] at hB ⊢
  -- the URR loop marks every entry
  let keys0 := s2.urrs.map (·.1)
  let bodyU : Nat → Sess × List Report → Ctx → (Sess × List Report) × Ctx := fun id acc c =>
      let (s', c', r) := acc.1.removeURR ({ id := some id } : RuleIE) c
      ((s', acc.2 ++ r.getD []), c')
  let RU : List Nat → Sess × List Report → Ctx → Prop := fun keys st _ =>
    ∀ k info, alGet st.1.urrs k = some info → k ∈ keys ∨ info.removed = true
  have hU : ∀ keys k st c', k ∈ keys → RU keys st c' → RU (keys.erase k) (bodyU k st c').1 (bodyU k st c').2 := by
    intro keys k st c' _ hr k' info' hk'
    have hk'' : alGet (st.1.removeURR ({ id := some k } : RuleIE) c').1.urrs k' = some info' := hk'
    unfold Sess.removeURR at hk''
    simp only [] at hk''
    cases hg : alGet st.1.urrs k with
    | none =>
      rw [hg] at hk''
      simp only [] at hk''
      rcases hr k' info' hk'' with h | h
      · by_cases he : k' = k
        · subst he; rw [hg] at hk''; cases hk''
        · exact Or.inl ((List.mem_erase_of_ne he).mpr h)
      · exact Or.inr h
    | some info =>
      rw [hg] at hk''
      simp only [] at hk''
      have hk3 : alGet (alSet st.1.urrs k { info with removed := true }) k' = some info' := by
        split at hk'' <;> exact hk''
      by_cases he : k' = k
      · subst he
        rw [alGet_alSet_self] at hk3
        cases hk3
        exact Or.inr rfl
      · rw [alGet_alSet_other _ _ _ _ he] at hk3
        rcases hr k' info' hk3 with h | h
        · exact Or.inl ((List.mem_erase_of_ne he).mpr h)
        · exact Or.inr h
  have h3 := rangeMap_inv s.localID .remove .urr bodyU RU hU keys0.length keys0 (s2, []) c2 (Nat.le_refl _)
    (by
      intro k info hk
      exact Or.inl (List.mem_map.mpr ⟨(k, info), alGet_mem _ _ _ hk, rfl⟩))
  change AllRemoved (match (rangeMap s.localID .remove .urr bodyU keys0.length keys0 (s2, []) c2) with
    | ((s3, r3), c3) => _)
  generalize rangeMap s.localID .remove .urr bodyU keys0.length keys0 (s2, []) c2 = C at h3 ⊢
  rcases C with ⟨⟨s3, r3⟩, c3⟩
  simp only [] at h3 ⊢
  have h3' : AllRemoved s3 := by
    intro k info hk
    rcases h3 k info hk with h | h
    · cases h
    · exact h
  -- BARs
  have hD := rangeMap_inv s.localID .remove .bar
      (fun id (s : Sess) c => s.removeSimple .bar ({ id := some id } : RuleIE) c) (RS s3)
      (hS .bar (by decide) s3) s3.bars.length s3.bars s3 c3 (Nat.le_refl _) rfl
  generalize rangeMap s.localID .remove .bar
      (fun id (s : Sess) c => s.removeSimple .bar ({ id := some id } : RuleIE) c) s3.bars.length s3.bars s3 c3 = D at hD
  rcases D with ⟨s4, c4⟩
  simp only [] at hD ⊢
  have h4 : AllRemoved s4 := by intro k info hk; rw [hD] at hk; exact h3' k info hk
  -- PDRs
  let bodyP : Nat → Sess × List Report → Ctx → (Sess × List Report) × Ctx := fun id acc c =>
      let (s', c', r) := acc.1.removePDR ({ id := some id } : RuleIE) c
      ((s', acc.2 ++ r), c')
  let RP : List Nat → Sess × List Report → Ctx → Prop := fun _ st _ => AllRemoved st.1
  have hP : ∀ keys k st c', k ∈ keys → RP keys st c' → RP (keys.erase k) (bodyP k st c').1 (bodyP k st c').2 := by
    intro keys k st c' _ hr
    exact removePDR_allRemoved st.1 _ c' hr
  have h5 := rangeMap_inv s.localID .remove .pdr bodyP RP hP (s4.pdrs.map (·.1)).length (s4.pdrs.map (·.1)) (s4, r3) c4
    (Nat.le_refl _) h4
  generalize rangeMap s.localID .remove .pdr bodyP (s4.pdrs.map (·.1)).length (s4.pdrs.map (·.1)) (s4, r3) c4 = E at h5
  rcases E with ⟨⟨s5, r5⟩, c5⟩
  exact h5

/-! ### the URR table never holds an id twice -/

def UKeys (s : Sess) : Prop := (s.urrs.map (·.1)).Nodup

theorem bumpRef_keys (us : List (Nat × URRInfo)) (u : Nat) : (bumpRef us u).map (·.1) = us.map (·.1) := by
  simp [bumpRef, List.map_map, Function.comp_def]

theorem foldl_bumpRef_keys (l : List Nat) (us : List (Nat × URRInfo)) : (l.foldl bumpRef us).map (·.1) = us.map (·.1) := by
  induction l generalizing us with
  | nil => rfl
  | cons a l ih => simp only [List.foldl_cons]; rw [ih, bumpRef_keys]

theorem diassociate_keys (s : Sess) (u : Nat) (c : Ctx) (h : UKeys s) : UKeys (s.diassociate u c).1 := by
  unfold Sess.diassociate
  cases hg : alGet s.urrs u with
  | none => exact h
  | some info =>
    simp only []
    have key : UKeys { s with urrs := alSet s.urrs u { info with refPdrNum := info.refPdrNum - 1 } } :=
      keys_alSet_nodup s.urrs u _ h
    split
    · split
      · split <;> exact key
      · exact key
    · exact h

theorem diassociateAll_keys (s : Sess) (us : List Nat) (c : Ctx) (h : UKeys s) : UKeys (s.diassociateAll us c).1 := by
  let body : Nat → Sess × List Report → Ctx → (Sess × List Report) × Ctx := fun u acc c =>
      let (s2, c2, r) := acc.1.diassociate u c
      ((s2, acc.2 ++ r), c2)
  let R : List Nat → Sess × List Report → Ctx → Prop := fun _ st _ => UKeys st.1
  have hb : ∀ keys k st c', k ∈ keys → R keys st c' → R (keys.erase k) (body k st c').1 (body k st c').2 := by
    intro keys k st c' _ hr
    exact diassociate_keys st.1 k c' hr
  exact rangeMap_inv s.localID .query .urr body R hb us.length us (s, []) c (Nat.le_refl _) h

/-- every rule operation keeps the ids of the URR table distinct -/
theorem apply_keys (s : Sess) (c : Ctx) (op : SOp) (h : UKeys s) : UKeys (op.apply s c).1 := by
  cases op with
  | createURR ie =>
    simp only [SOp.apply, Sess.createURR]
    cases hid : ie.id with
    | none => exact h
    | some id => exact keys_alSet_nodup s.urrs id _ h
  | updateURR ie =>
    simp only [SOp.apply, Sess.updateURR]
    cases hid : ie.id with
    | none => exact h
    | some id =>
      simp only []
      cases hg : alGet s.urrs id with
      | none => exact h
      | some info =>
        simp only []
        split <;> exact keys_alSet_nodup s.urrs id _ h
  | removeURR ie =>
    simp only [SOp.apply, Sess.removeURR]
    cases hid : ie.id with
    | none => exact h
    | some id =>
      simp only []
      cases hg : alGet s.urrs id with
      | none => exact h
      | some info =>
        simp only []
        split <;> exact keys_alSet_nodup s.urrs id _ h
  | queryURR ie =>
    simp only [SOp.apply, Sess.queryURR]
    cases hid : ie.id with
    | none => exact h
    | some id =>
      simp only []
      cases hg : alGet s.urrs id with
      | none => exact h
      | some info => simp only []; split <;> exact h
  | createPDR ie =>
    simp only [SOp.apply, Sess.createPDR]
    show ((ie.urrs.eraseDups.foldl bumpRef s.urrs).map (·.1)).Nodup
    rw [foldl_bumpRef_keys]; exact h
  | updatePDR ie =>
    simp only [SOp.apply, Sess.updatePDR]
    cases hg : alGet s.pdrs (ie.id.getD 0) with
    | none => exact h
    | some old =>
      simp only []
      rcases hc : c.call { seid := s.localID, op := .update, kind := .pdr, id := ie.id.getD 0 } with ⟨c1, a⟩
      simp only []
      cases hok : a.ok with
      | false => exact h
      | true =>
        simp only [Bool.not_true, Bool.false_eq_true, if_false]
        have hd := diassociateAll_keys s (old.filter (· ∉ ie.urrs.eraseDups)) c1 h
        rcases hdd : s.diassociateAll (old.filter (· ∉ ie.urrs.eraseDups)) c1 with ⟨s2, c2, rs⟩
        rw [hdd] at hd
        simp only [] at hd ⊢
        show (((ie.urrs.eraseDups.filter (· ∉ old)).foldl bumpRef s2.urrs).map (·.1)).Nodup
        rw [foldl_bumpRef_keys]; exact hd
  | removePDR ie =>
    simp only [SOp.apply, Sess.removePDR]
    cases hid : ie.id with
    | none => exact h
    | some pdrid =>
      simp only []
      cases hg : alGet s.pdrs pdrid with
      | none => exact h
      | some us =>
        simp only []
        rcases hc : c.call { seid := s.localID, op := .remove, kind := .pdr, id := pdrid } with ⟨c1, a⟩
        simp only []
        cases hok : a.ok with
        | false => exact h
        | true =>
          simp only [Bool.not_true, Bool.false_eq_true, if_false]
          exact diassociateAll_keys ({ s with pdrs := alDel s.pdrs pdrid, q := alDel s.q pdrid } : Sess) us c1 h

/-! ### losing a referring PDR does not remove a URR from the session's table -/

theorem alSet_keys_of_some [DecidableEq κ] (l : List (κ × ν)) (k : κ) (v : ν) (h : (alGet l k).isSome = true) :
    (alSet l k v).map (·.1) = l.map (·.1) := by
  induction l with
  | nil => simp [alGet] at h
  | cons p l ih =>
    by_cases hp : p.1 = k
    · simp [alSet, hp]
    · have hp' : (p.1 == k) = false := by simpa using hp
      simp only [alGet, hp', Bool.false_eq_true, if_false] at h
      simp only [alSet, hp', Bool.false_eq_true, if_false, List.map_cons]
      rw [ih h]

theorem diassociate_keysEq (s : Sess) (u : Nat) (c : Ctx) : (s.diassociate u c).1.urrs.map (·.1) = s.urrs.map (·.1) := by
  unfold Sess.diassociate
  cases hg : alGet s.urrs u with
  | none => rfl
  | some info =>
    simp only []
    have key : (alSet s.urrs u { info with refPdrNum := info.refPdrNum - 1 }).map (·.1) = s.urrs.map (·.1) :=
      alSet_keys_of_some s.urrs u _ (by rw [hg]; rfl)
    split
    · split
      · split <;> exact key
      · exact key
    · rfl

theorem diassociateAll_keysEq (s : Sess) (us : List Nat) (c : Ctx) :
    (s.diassociateAll us c).1.urrs.map (·.1) = s.urrs.map (·.1) := by
  let body : Nat → Sess × List Report → Ctx → (Sess × List Report) × Ctx := fun u acc c =>
      let (s2, c2, r) := acc.1.diassociate u c
      ((s2, acc.2 ++ r), c2)
  let R : List Nat → Sess × List Report → Ctx → Prop := fun _ st _ => st.1.urrs.map (·.1) = s.urrs.map (·.1)
  have hb : ∀ keys k st c', k ∈ keys → R keys st c' → R (keys.erase k) (body k st c').1 (body k st c').2 := by
    intro keys k st c' _ hr
    show (st.1.diassociate k c').1.urrs.map (·.1) = s.urrs.map (·.1)
    rw [diassociate_keysEq]; exact hr
  exact rangeMap_inv s.localID .query .urr body R hb us.length us (s, []) c (Nat.le_refl _) rfl

/-- Remove PDR and Update PDR — also when they take a URR's last referring PDR away and its usage is returned as a
    termination report — leave the set of URRs the session knows exactly as it was -/
theorem detach_keeps_urr_table (s : Sess) (ie : RuleIE) (c : Ctx) :
    (s.removePDR ie c).1.urrs.map (·.1) = s.urrs.map (·.1) ∧ (s.updatePDR ie c).1.urrs.map (·.1) = s.urrs.map (·.1) := by
  constructor
  · unfold Sess.removePDR
    cases hid : ie.id with
    | none => rfl
    | some pdrid =>
      simp only []
      cases hg : alGet s.pdrs pdrid with
      | none => rfl
      | some us =>
        simp only []
        rcases hc : c.call { seid := s.localID, op := .remove, kind := .pdr, id := pdrid } with ⟨c1, a⟩
        simp only []
        cases hok : a.ok with
        | false => rfl
        | true =>
          simp only [Bool.not_true, Bool.false_eq_true, if_false]
          exact diassociateAll_keysEq ({ s with pdrs := alDel s.pdrs pdrid, q := alDel s.q pdrid } : Sess) us c1
  · simp only [Sess.updatePDR]
    cases hg : alGet s.pdrs (ie.id.getD 0) with
    | none => rfl
    | some old =>
      simp only []
      rcases hc : c.call { seid := s.localID, op := .update, kind := .pdr, id := ie.id.getD 0 } with ⟨c1, a⟩
      simp only []
      cases hok : a.ok with
      | false => rfl
      | true =>
        simp only [Bool.not_true, Bool.false_eq_true, if_false]
        have hd := diassociateAll_keysEq s (old.filter (· ∉ ie.urrs.eraseDups)) c1
        rcases hdd : s.diassociateAll (old.filter (· ∉ ie.urrs.eraseDups)) c1 with ⟨s2, c2, rs⟩
        rw [hdd] at hd
        simp only [] at hd ⊢
        show ((ie.urrs.eraseDups.filter (· ∉ old)).foldl bumpRef s2.urrs).map (·.1) = s.urrs.map (·.1)
        rw [foldl_bumpRef_keys]; exact hd

/-! ### the SEID of a session is not touched by its rule operations -/

theorem diassociate_localID (s : Sess) (u : Nat) (c : Ctx) : (s.diassociate u c).1.localID = s.localID := by
  unfold Sess.diassociate
  cases hg : alGet s.urrs u with
  | none => rfl
  | some info =>
    simp only []
    split
    · split
      · split <;> rfl
      · rfl
    · rfl

theorem diassociateAll_localID (s : Sess) (us : List Nat) (c : Ctx) : (s.diassociateAll us c).1.localID = s.localID := by
  let body : Nat → Sess × List Report → Ctx → (Sess × List Report) × Ctx := fun u acc c =>
      let (s2, c2, r) := acc.1.diassociate u c
      ((s2, acc.2 ++ r), c2)
  let R : List Nat → Sess × List Report → Ctx → Prop := fun _ st _ => st.1.localID = s.localID
  have hb : ∀ keys k st c', k ∈ keys → R keys st c' → R (keys.erase k) (body k st c').1 (body k st c').2 := by
    intro keys k st c' _ hr
    show (st.1.diassociate k c').1.localID = s.localID
    rw [diassociate_localID]; exact hr
  exact rangeMap_inv s.localID .query .urr body R hb us.length us (s, []) c (Nat.le_refl _) rfl

theorem removePDR_localID (s : Sess) (ie : RuleIE) (c : Ctx) : (SOp.apply s c (.removePDR ie)).1.localID = s.localID := by
  simp only [SOp.apply, Sess.removePDR]
  cases hid : ie.id with
  | none => rfl
  | some pdrid =>
    simp only []
    cases hg : alGet s.pdrs pdrid with
    | none => rfl
    | some us =>
      simp only []
      rcases hc : c.call { seid := s.localID, op := .remove, kind := .pdr, id := pdrid } with ⟨c1, a⟩
      simp only []
      cases hok : a.ok with
      | false => rfl
      | true =>
        simp only [Bool.not_true, Bool.false_eq_true, if_false]
        exact diassociateAll_localID ({ s with pdrs := alDel s.pdrs pdrid, q := alDel s.q pdrid } : Sess) us c1

theorem updatePDR_localID (s : Sess) (ie : RuleIE) (c : Ctx) : (SOp.apply s c (.updatePDR ie)).1.localID = s.localID := by
  simp only [SOp.apply, Sess.updatePDR]
  cases hg : alGet s.pdrs (ie.id.getD 0) with
  | none => rfl
  | some old =>
    simp only []
    rcases hc : c.call { seid := s.localID, op := .update, kind := .pdr, id := ie.id.getD 0 } with ⟨c1, a⟩
    simp only []
    cases hok : a.ok with
    | false => rfl
    | true =>
      simp only [Bool.not_true, Bool.false_eq_true, if_false]
      have hd := diassociateAll_localID s (old.filter (· ∉ ie.urrs.eraseDups)) c1
      rcases hdd : s.diassociateAll (old.filter (· ∉ ie.urrs.eraseDups)) c1 with ⟨s2, c2, rs⟩
      rw [hdd] at hd
      exact hd

end UpfVerif.Core
