import UpfVerif.Spec.Arrange
/-
The content the driver extracts from a child list (`spec…`, used by the run-time predicates of C02/C03) really is carried
by that list: `spec… cs = some p → Arranges… cs p`.  So the predicate evaluated on the implementation's bytes is an
instance of the theorems' hypothesis, not a second definition.
-/
namespace UpfVerif.Arrange
open UpfVerif.Rules UpfVerif.Xlate

theorem atMostOne_toList {α : Type} (l : List α) (o : Option α) (h : atMostOne l = some o) : l = o.toList := by
  match l, h with
  | [], h => simp [atMostOne] at h; subst h; rfl
  | [a], h => simp [atMostOne] at h; subst h; rfl
  | _ :: _ :: _, h => simp [atMostOne] at h

theorem specPdi_arranges (cs : List PdiChild) (q : PdiSpec) (h : specPdi cs = some q) : ArrangesPdi cs q := by
  unfold specPdi at h
  cases h1 : atMostOne (cs.filterMap PdiChild.srcif?) with
  | none => simp [h1] at h
  | some s =>
    cases h2 : atMostOne (cs.filterMap PdiChild.fteid?) with
    | none => simp [h1, h2] at h
    | some f =>
      cases h3 : atMostOne (cs.filterMap PdiChild.ueip?) with
      | none => simp [h1, h2, h3] at h
      | some u =>
        simp [h1, h2, h3] at h
        subst h
        exact ⟨atMostOne_toList _ _ h1, atMostOne_toList _ _ h2, atMostOne_toList _ _ h3, rfl⟩

theorem specPdr_arranges (cs : List PdrChild) (p : PdrSpec) (h : specPdr cs = some p) : ArrangesPdr cs p := by
  unfold specPdr at h
  cases hid : cs.filterMap PdrChild.pdrid? with
  | nil => simp [hid] at h
  | cons i rest =>
    cases rest with
    | cons _ _ => simp [hid] at h
    | nil =>
      cases h1 : atMostOne (cs.filterMap PdrChild.prec?) with
      | none => simp [hid, h1] at h
      | some pr =>
        cases h2 : atMostOne (cs.filterMap PdrChild.ohr?) with
        | none => simp [hid, h1, h2] at h
        | some oh =>
          cases h3 : atMostOne (cs.filterMap PdrChild.farid?) with
          | none => simp [hid, h1, h2, h3] at h
          | some fa =>
            cases h4 : atMostOne (cs.filterMap PdrChild.pdi?) with
            | none => simp [hid, h1, h2, h3, h4] at h
            | some pd =>
              cases pd with
              | none =>
                simp [hid, h1, h2, h3, h4] at h
                subst h
                have e4 := atMostOne_toList _ _ h4
                exact ⟨hid, atMostOne_toList _ _ h1, atMostOne_toList _ _ h2, atMostOne_toList _ _ h3, rfl, rfl,
                  ⟨[], e4, rfl, by intro ps hps; simp at hps⟩⟩
              | some ps =>
                cases h5 : specPdi ps with
                | none => simp [hid, h1, h2, h3, h4, h5] at h
                | some q =>
                  simp [hid, h1, h2, h3, h4, h5] at h
                  subst h
                  have e4 := atMostOne_toList _ _ h4
                  refine ⟨hid, atMostOne_toList _ _ h1, atMostOne_toList _ _ h2, atMostOne_toList _ _ h3, rfl, rfl,
                    ⟨[ps], e4, rfl, ?_⟩⟩
                  intro ps' hps' q' hq'
                  simp at hps' hq'
                  rw [hps', ← hq']
                  exact specPdi_arranges ps q h5

theorem specFwd_arranges (cs : List FpChild) (f : FwdSpec) (h : specFwd cs = some f) : ArrangesFwd cs f := by
  unfold specFwd at h
  cases h1 : atMostOne (cs.filterMap FpChild.ohc?) with
  | none => simp [h1] at h
  | some o =>
    cases h2 : atMostOne (cs.filterMap FpChild.fpol?) with
    | none => simp [h1, h2] at h
    | some p =>
      cases h3 : atMostOne (cs.filterMap FpChild.smreq?) with
      | none => simp [h1, h2, h3] at h
      | some s =>
        simp [h1, h2, h3] at h
        obtain ⟨_, h⟩ := h
        subst h
        exact ⟨atMostOne_toList _ _ h1, atMostOne_toList _ _ h2, atMostOne_toList _ _ h3⟩

theorem specFar_arranges (cs : List FarChild) (p : FarSpec) (h : specFar cs = some p) : ArrangesFar cs p := by
  unfold specFar at h
  cases hid : cs.filterMap FarChild.farid? with
  | nil => simp [hid] at h
  | cons i rest =>
    cases rest with
    | cons _ _ => simp [hid] at h
    | nil =>
      cases h1 : atMostOne (cs.filterMap FarChild.aa?) with
      | none => simp [hid, h1] at h
      | some aa =>
        cases h2 : atMostOne (cs.filterMap FarChild.barid?) with
        | none => simp [hid, h1, h2] at h
        | some ba =>
          cases h3 : atMostOne (cs.filterMap FarChild.fp?) with
          | none => simp [hid, h1, h2, h3] at h
          | some fp =>
            cases fp with
            | none =>
              simp [hid, h1, h2, h3] at h
              subst h
              exact ⟨hid, atMostOne_toList _ _ h1, atMostOne_toList _ _ h2,
                ⟨[], atMostOne_toList _ _ h3, rfl, by intro fs hfs; simp at hfs⟩⟩
            | some fs =>
              cases h4 : specFwd fs with
              | none => simp [hid, h1, h2, h3, h4] at h
              | some f =>
                simp [hid, h1, h2, h3, h4] at h
                subst h
                refine ⟨hid, atMostOne_toList _ _ h1, atMostOne_toList _ _ h2, ⟨[fs], atMostOne_toList _ _ h3, rfl, ?_⟩⟩
                intro fs' hfs' f' hf'
                simp at hfs' hf'
                rw [hfs', ← hf']
                exact specFwd_arranges fs f h4

theorem specBar_arranges (cs : List BarChild) (p : BarSpec) (h : specBar cs = some p) : ArrangesBar cs p := by
  unfold specBar at h
  simp only [bind, Option.bind, pure] at h
  cases hid : cs.filterMap BarChild.barid? with
  | nil => simp [hid] at h
  | cons i rest =>
    cases rest with
    | cons _ _ => simp [hid] at h
    | nil =>
      cases h1 : atMostOne (cs.filterMap BarChild.ddnd?) with
      | none => simp [hid, h1] at h
      | some d =>
        cases h2 : atMostOne (cs.filterMap BarChild.sbpc?) with
        | none => simp [hid, h1, h2] at h
        | some c =>
          simp [hid, h1, h2] at h
          subst h
          exact ⟨hid, atMostOne_toList _ _ h1, atMostOne_toList _ _ h2⟩

theorem specQer_arranges (cs : List QerChild) (p : QerSpec) (h : specQer cs = some p) : ArrangesQer cs p := by
  unfold specQer at h
  simp only [bind, Option.bind, pure] at h
  cases hid : cs.filterMap QerChild.qerid? with
  | nil => simp [hid] at h
  | cons i rest =>
    cases rest with
    | cons _ _ => simp [hid] at h
    | nil =>
      cases h1 : atMostOne (cs.filterMap QerChild.corr?) <;> cases h2 : atMostOne (cs.filterMap QerChild.gate?) <;>
      cases h3 : atMostOne (cs.filterMap QerChild.mbr?) <;> cases h4 : atMostOne (cs.filterMap QerChild.gbr?) <;>
      cases h5 : atMostOne (cs.filterMap QerChild.qfi?) <;> cases h6 : atMostOne (cs.filterMap QerChild.rqi?) <;>
      cases h7 : atMostOne (cs.filterMap QerChild.ppi?) <;> simp [hid, h1, h2, h3, h4, h5, h6, h7] at h
      subst h
      exact ⟨hid, atMostOne_toList _ _ h1, atMostOne_toList _ _ h2, atMostOne_toList _ _ h3, atMostOne_toList _ _ h4,
        atMostOne_toList _ _ h5, atMostOne_toList _ _ h6, atMostOne_toList _ _ h7⟩

theorem specUrr_arranges (cs : List UrrChild) (p : UrrSpec) (h : specUrr cs = some p) : ArrangesUrr cs p := by
  unfold specUrr at h
  simp only [bind, Option.bind, pure] at h
  cases hid : cs.filterMap UrrChild.urrid? with
  | nil => simp [hid] at h
  | cons i rest =>
    cases rest with
    | cons _ _ => simp [hid] at h
    | nil =>
      cases h1 : atMostOne (cs.filterMap UrrChild.mm?) <;> cases h2 : atMostOne (cs.filterMap UrrChild.rt?) <;>
      cases h3 : atMostOne (cs.filterMap UrrChild.mp?) <;> cases h4 : atMostOne (cs.filterMap UrrChild.mi?) <;>
      cases h5 : atMostOne (cs.filterMap UrrChild.vth?) <;> cases h6 : atMostOne (cs.filterMap UrrChild.vqu?) <;>
      simp [hid, h1, h2, h3, h4, h5, h6] at h
      subst h
      exact ⟨hid, atMostOne_toList _ _ h1, atMostOne_toList _ _ h2, atMostOne_toList _ _ h3, atMostOne_toList _ _ h4,
        atMostOne_toList _ _ h5, atMostOne_toList _ _ h6⟩

end UpfVerif.Arrange
