import Lean
/-
Audit meta-program (runs at check time, proves nothing):
`#audit_module M` prints, for every theorem declared in module `M`, its name and the axioms
it depends on, and the number of theorems in `UpfVerif.*` modules that the theorems of `M`
transitively use (the proof obligations behind the property), each with its axioms.
-/
open Lean Elab Command

namespace UpfVerif.Audit

partial def usedTheorems (env : Environment) (roots : Array Name) : NameSet := Id.run do
  let mut seen : NameSet := {}
  let mut todo := roots.toList
  let mut thms : NameSet := {}
  let isOurs (n : Name) : Bool :=
    match env.getModuleIdxFor? n with
    | some idx => (env.header.moduleNames[idx.toNat]!).getRoot == `UpfVerif
    | none => false
  while !todo.isEmpty do
    match todo with
    | [] => pure ()
    | n :: rest =>
      todo := rest
      if seen.contains n then continue
      seen := seen.insert n
      if !isOurs n then continue
      match env.find? n with
      | some ci =>
        if let .thmInfo _ := ci then thms := thms.insert n
        let deps := match ci.value? (allowOpaque := true) with
          | some v => v.getUsedConstants ++ ci.type.getUsedConstants
          | none => ci.type.getUsedConstants
        for d in deps do
          if !seen.contains d then todo := d :: todo
      | none => pure ()
  return thms

elab "#audit_module " m:ident : command => do
  let env ← getEnv
  let modName := m.getId
  let some idx := env.getModuleIdx? modName
    | throwError "module {modName} not imported"
  let mut roots : Array Name := #[]
  for (n, ci) in env.constants.map₁.toList do
    if env.getModuleIdxFor? n == some idx then
      if let .thmInfo _ := ci then
        let last := match n with
          | .str _ s => s
          | _ => ""
        let auto := last.startsWith "eq_" || last.startsWith "match_" || last.startsWith "proof_"
          || last.startsWith "_" || last == "sizeOf_spec" || last == "injEq" || last == "inj"
        if !n.isInternal && !auto then roots := roots.push n
  roots := roots.qsort (fun a b => a.toString < b.toString)
  for r in roots do
    let ax ← liftCoreM (collectAxioms r)
    logInfo m!"AUDIT theorem {r} axioms {ax.toList}"
  let used := usedTheorems env roots
  let mut bad : Nat := 0
  for u in used.toList do
    let ax ← liftCoreM (collectAxioms u)
    let ok := ax.all (fun a => a == ``propext || a == ``Classical.choice || a == ``Quot.sound)
    if !ok then
      bad := bad + 1
      logInfo m!"AUDIT badaxioms {u} {ax.toList}"
  logInfo m!"AUDIT summary module {modName} property_theorems {roots.size} obligations {used.size} bad {bad}"

end UpfVerif.Audit
