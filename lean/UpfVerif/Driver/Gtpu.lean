import UpfVerif.Driver.Util
import UpfVerif.Model.Gtpu
import UpfVerif.Spec.GtpuRef
namespace UpfVerif.Driver
open UpfVerif.Gtpu

/-- `T gtpu.encode <teid> <none|pt,qfi> <payload> = <bytes>` -/
def evalGtpu (args : List String) (impl : String) : Option Verdict := do
  match args with
  | [teidS, extS, plS] =>
    let teid ← parseHexNat teidS
    let pl ← parseDash plS
    let ext : Option (Nat × Nat) ←
      if extS == "none" then pure none else
      match splitOn1 extS ',' with
      | [a, b] => do pure (some ((← a.toNat?), (← b.toNat?)))
      | _ => none
    let m : Msg := { flags := 0x34#8, type := 255#8, teid := BitVec.ofNat 32 teid, seq := 0, npdu := 0,
                     exts := match ext with
                       | none => []
                       | some (pt, q) => [{ pduType := BitVec.ofNat 8 pt, qfi := BitVec.ofNat 8 q }],
                     payload := pl }
    let model := Bytes.toHex (encode m)
    -- property predicate C14 on the implementation's own bytes (only inside the quantifier's domain)
    let inDomain := match ext with
      | none => true
      | some (pt, q) => pt < 16 && q < 64
    let fails :=
      if !inDomain then [] else
      match parseHexBytes impl with
      | none => ["C14 implementation did not produce a packet: " ++ impl]
      | some bs =>
        if GtpuRef.wellFormedGPDU bs teid ext pl then []
        else ["C14 reference decoder rejects the packet or reads other fields"]
    pure { model := model, propFails := fails }
  | _ => none

end UpfVerif.Driver
