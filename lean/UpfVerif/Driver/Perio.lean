import UpfVerif.Driver.Util
import UpfVerif.Model.Perio
import UpfVerif.Lemmas.Netlink
import UpfVerif.Spec.Gtp5gRead
import UpfVerif.Gen.Consts
/- driver for the S-perio stream: runs M-Perio on the event lines, renders what the implementation must have printed;
   evaluates the C15 predicates on the implementation's queries, notifications and GET_MULTI_REPORTS requests -/
namespace UpfVerif.Driver.PerioD
open UpfVerif UpfVerif.Driver UpfVerif.Perio UpfVerif.Netlink

def natHex (n : Nat) : String := String.mk (Nat.toDigits 16 n)

def sortStr (l : List String) : List String := (l.toArray.qsort (· < ·)).toList
def sortNat (l : List Nat) : List Nat := (l.toArray.qsort (· < ·)).toList

/-- seids of a pair list, without repetition, in order of first appearance -/
def seidsOf (m : List (Nat × Nat)) : List Nat := (m.map (·.1)).eraseDups

def groupShow (g : Group) : String :=
  let ents := (seidsOf g.mem).map fun s =>
    natHex s ++ "/" ++ String.intercalate "+" ((sortNat ((g.mem.filter (·.1 == s)).map (·.2))).map toString)
  s!"{g.period}:" ++ String.intercalate "," (sortStr ents)

def dump (st : St) : String :=
  if st.groups.isEmpty then "_" else String.intercalate ";" (sortStr (st.groups.map groupShow))

def stateShow (st : St) : String := s!"g={dump st} t={tickers st}"

def pairsShow (m : List (Nat × Nat)) : String :=
  String.intercalate "," (sortStr (m.map fun (s, u) => s!"{natHex s}/{u}"))

/-- the scripted answer of the harness's query callback -/
def answer (mode : String) (flags : Nat) (m : List (Nat × Nat)) : List (Nat × List (Nat × Nat)) :=
  if mode == "err" || mode == "none" then [] else
  (seidsOf m).map fun s =>
    let us := sortNat ((m.filter (·.1 == s)).map (·.2))
    let us := if mode == "part" then (us.zipIdx.filter fun (_, k) => k % 2 == 0).map (·.1) else us
    (s, us.map fun u => (u, flags))

def notesShow (ns : List (Nat × List (Nat × Nat))) : String :=
  if ns.isEmpty then "-" else
  String.intercalate "," (sortStr (ns.map fun (s, rs) =>
    natHex s ++ ":" ++ String.intercalate "+" (rs.map fun (u, f) => s!"{u}.{natHex f}")))

/-- pairs named by one GET_MULTI_REPORTS request: each URR_MULTI_SEID_URRID nest carries URR_ID and URR_SEID -/
def batchPairs (b : Bytes) : Option (List (Nat × Nat) × Option Nat) := do
  let as ← decodeTree b
  let num := (Gtp5gRead.leaf1 as Gen.gtp5gnl.URR_NUM).map rd32
  let ps ← (Gtp5gRead.nests as Gen.gtp5gnl.URR_MULTI_SEID_URRID).mapM fun n => do
    let u ← Gtp5gRead.leaf1 n Gen.gtp5gnl.URR_ID
    let s ← Gtp5gRead.leaf1 n Gen.gtp5gnl.URR_SEID
    pure (rd64 s, rd32 u)
  pure (ps, num)

def evalBatch (args : List String) (impl0 : String) : Option Verdict := do
  -- `<requests> ret=<reports handed back>/<URRs reported more than once>/<reports for URRs not asked for>`
  let (impl, ret) := match splitOn1 impl0 ' ' with
    | [a, b] => (a, b)
    | _ => (impl0, "")
  let v ← evalBatchReqs args impl
  let total := (args.drop 1).foldl (fun acc t => acc + ((splitOn1 t ':').getD 1 "0").toNat?.getD 0) 0
  let wantRet := s!"ret={total}/0/0"
  if ret == "" then pure v else
  pure { model := v.model ++ " " ++ wantRet,
         propFails := v.propFails ++ (if ret == wantRet then [] else
           [s!"C15 one query of {total} registered URRs (the data plane answers one report per URR asked for) handed back '{ret}' (reports / URRs reported more than once / reports for URRs not asked for); each URR's report is due exactly once: '{wantRet}'"]) }
where
 evalBatchReqs (args : List String) (impl : String) : Option Verdict := do
  let (nS, toks) ← match args with | n :: t => some (n, t) | [] => none
  let n ← nS.toNat?
  let input ← toks.mapM fun t => match splitOn1 t ':' with
    | [s, c] => do pure (← parseHexNat s, ← c.toNat?)
    | _ => none
  let flat : List (Nat × Nat) := input.flatMap fun (s, c) => (List.range c).map fun k => (s, k + 1)
  let want := (batches n flat).map (·.length)
  let wantS := if want.isEmpty then "-" else "sizes=" ++ String.intercalate "," (want.map toString)
  if impl == "-" then
    pure { model := if want.isEmpty then "-" else wantS,
           propFails := if want.isEmpty then [] else ["C15 batching: registered URRs exist but no GET_MULTI_REPORTS request was sent"] }
  else
    let reqs := splitOn1 impl '|'
    let dec := reqs.map fun h => (parseHexBytes h).bind batchPairs
    if dec.any (·.isNone) then
      pure { model := wantS, propFails := ["C15 batching: a GET_MULTI_REPORTS request does not decode"] }
    else
      let bs := dec.filterMap id
      let got := bs.map (·.1.length)
      let all := bs.flatMap (·.1)
      let fails :=
        (if bs.any (fun b => b.1.isEmpty) then ["C15 batching: an empty GET_MULTI_REPORTS request was sent"] else []) ++
        (if bs.any (fun b => b.1.length > n) then [s!"C15 batching: a request names more than {n} URRs"] else []) ++
        (if bs.any (fun b => b.2 != some b.1.length) then ["C15 batching: URR_NUM differs from the number of object ids in the request"] else []) ++
        (if pairsShow all != pairsShow flat then
           [s!"C15 batching: the URRs queried ({all.length}) are not exactly the URRs registered ({flat.length}): some missing, repeated or foreign"] else [])
      -- sizes are order-independent: full batches, then the rest
      pure { model := if got == want && fails.isEmpty then impl else wantS, propFails := fails }

/-! ### C15 predicates on the implementation's own output, against the *specification* state: the set of registrations
     `(seid, urr, period)` implied by the history (ADD registers unless registered, DEL removes, CLOSE clears) -/

structure DState where
  st : St := {}
  reg : List (Nat × Nat × Nat) := []
  closed : Bool := false

def field (impl : String) (key : String) : Option String :=
  ((impl.split (· == ' ')).toList.map (·.toString)).findSome? fun w =>
    if w.startsWith (key ++ "=") then some (w.drop (key.length + 1)).toString else none

def specStep (d : DState) : Ev → DState
  | .add s u p => if d.closed || d.reg.any (fun r => r.1 == s && r.2.1 == u) then d else { d with reg := d.reg ++ [(s, u, p)] }
  | .del s u => if d.closed then d else { d with reg := d.reg.filter fun r => !(r.1 == s && r.2.1 == u) }
  | .tick _ => d
  | .close => { d with reg := [], closed := true }

def specTickers (d : DState) : Nat := ((d.reg.map (·.2.2)).eraseDups).length

def checkTickers (d : DState) (impl : String) : List String :=
  match (field impl "t").bind (·.toNat?) with
  | some t => if t == specTickers d then [] else
      [s!"C15 timers: {t} period ticker(s) running, the registered URRs use {specTickers d} distinct period(s)"]
  | none => []

def checkTick (d : DState) (p : Nat) (impl : String) : List String :=
  let want := (d.reg.filter (·.2.2 == p)).map fun r => (r.1, r.2.1)
  let wantS := if want.isEmpty || d.closed then "-" else pairsShow want
  let q := (field impl "q").getD "?"
  let n := (field impl "n").getD "?"
  (if q == wantS then [] else
     [s!"C15 tick of period {p}: queried [{q}], the URRs registered with that period are [{wantS}]"]) ++
  -- every notified report: own session, a URR that was queried for that session, PERIO set, once
  (if n == "-" || n == "?" then [] else
    let entries := splitOn1 n ','
    let seids := entries.map fun e => (splitOn1 e ':').headD ""
    (if seids.eraseDups.length != seids.length then ["C15 tick: a session was notified more than once for one tick"] else []) ++
    entries.flatMap fun e =>
      match splitOn1 e ':' with
      | [sS, rs] =>
        (splitOn1 rs '+').flatMap fun r =>
          match splitOn1 r '.' with
          | [uS, fS] =>
            (if (splitOn1 q ',').contains s!"{sS}/{uS}" then [] else
               [s!"C15 tick: report for URR {uS} delivered to session {sS}, which was not queried for it"]) ++
            (match parseHexNat fS with
             | some f => if f % 2 == 1 then [] else [s!"C15 tick: report for {sS}/{uS} not flagged PERIO (flags {fS})"]
             | none => [])
          | _ => []
      | _ => [])

/-- the (seid, urr, period) triples of a group dump `period:seid/u+u,seid/u;period:…` -/
def dumpTriples (g : String) : List (Nat × Nat × Nat) :=
  if g == "_" || g == "" then [] else
  (splitOn1 g ';').flatMap fun grp =>
    match splitOn1 grp ':' with
    | [p, ents] =>
      (splitOn1 ents ',').flatMap fun e =>
        match splitOn1 e '/' with
        | [sS, us] => (splitOn1 us '+').filterMap fun u => do pure (← parseHexNat sS, ← u.toNat?, ← p.toNat?)
        | _ => []
    | _ => []

/-- C05 on the periodic server: removing the periodic URR of one session leaves the registrations of every other session
    as they were (specification side: the registrations made so far) -/
def checkOthers (d' : DState) (s u : Nat) (impl : String) : List String :=
  match field impl "g" with
  | none => []
  | some g =>
    let have_ := dumpTriples g
    let lost := d'.reg.filter fun r => r.1 != s && !have_.contains r
    if lost.isEmpty then [] else
      [s!"C05 removing the periodic URR {u} of session {natHex s} ended the periodic reporting of other sessions: " ++
       String.intercalate "," (lost.map fun r => s!"{natHex r.1}/{r.2.1} (period {r.2.2})") ++ " are no longer registered",
       s!"C03 URR(s) " ++ String.intercalate "," (lost.map fun r => s!"{natHex r.1}/{r.2.1}") ++
       s!" still carry the periodic trigger and have not been removed, but are no longer registered for periodic querying (after the removal of URR {u} of session {natHex s})"]

def eval (d : DState) (fn : String) (args : List String) (impl : String) : Option (DState × Verdict) := do
  let st := d.st
  match fn, args with
  | "perio.reset", [] => pure ({}, { model := "ok" })
  | "perio.add", [s, u, p] =>
    let ev := Ev.add (← parseHexNat s) (← u.toNat?) (← p.toNat?)
    let d' := { specStep d ev with st := step st ev }
    pure (d', { model := stateShow d'.st, propFails := checkTickers d' impl })
  | "perio.del", [s, u] =>
    let ev := Ev.del (← parseHexNat s) (← u.toNat?)
    let d' := { specStep d ev with st := step st ev }
    pure (d', { model := stateShow d'.st, propFails := checkTickers d' impl ++ checkOthers d' (← parseHexNat s) (← u.toNat?) impl })
  | "perio.close", [] =>
    let d' := { specStep d .close with st := step st .close }
    pure (d', { model := stateShow d'.st, propFails := checkTickers d' impl })
  | "perio.tick", [p, mode, fl] =>
    let p ← p.toNat?
    let flags ← parseHexNat fl
    let q := query st p
    let (qS, nS) := match q with
      | none => ("-", "-")
      | some m => (pairsShow m, notesShow (notify Gen.report.USAR_TRIG_PERIO (answer mode flags m)))
    pure (d, { model := s!"q={qS} n={nS} {stateShow st}", propFails := checkTick d p impl ++ checkTickers d impl })
  | "perio.batch", _ => (evalBatch args impl).map fun v => (d, v)
  | _, _ => none

end UpfVerif.Driver.PerioD
