import UpfVerif.Driver.Util
import UpfVerif.Model.Flags
import UpfVerif.Spec.TS29244Bits
namespace UpfVerif.Driver
open UpfVerif.Flags UpfVerif.Spec

def bitsStr (bs : List Bool) : String := String.ofList (bs.map fun b => if b then '1' else '0')

def hexW (digits : Nat) (n : Nat) : String :=
  let rec go : Nat → Nat → List Char → List Char
    | 0, _, acc => acc
    | k+1, n, acc => go k (n / 16) (hexDigit (n % 16) :: acc)
  String.ofList (go digits n [])

/-- accessor bits the model computes (constant tested per name) -/
def accBits {w : Nat} (f : BitVec w) (tbl : List (String × Nat)) : String :=
  bitsStr (tbl.map fun (_, c) => test f c)

/-- what TS 29.244 says the flags are, read directly from the IE's octets -/
def specBits (octets : Bytes) (tbl : List BitPos) : String :=
  bitsStr (tbl.map fun p => p.read octets)

def evalFlags (fn : String) (args : List String) (impl : String) : Option Verdict := do
  match fn, args with
  | "flags.apply", [b] =>
    let bs ← parseDash b
    match applyUnmarshal bs with
    | none => pure { model := "err" }
    | some f =>
      let model := hexW 4 f.toNat ++ ":" ++ accBits f applyConsts
      let fails := match splitOn1 impl ':' with
        | [_, ib] => if ib == specBits (bs.take 2) Spec.applyAction then [] else
            ["C19 apply-action accessors differ from TS 29.244 §8.2.26 reading " ++ specBits (bs.take 2) Spec.applyAction]
        | _ => ["C19 apply-action: a non-empty IE was rejected"]
      pure { model, propFails := fails }
  | "flags.rpt", [b] =>
    let bs ← parseDash b
    match rptUnmarshal bs with
    | none => pure { model := "err", propFails := if bs.length ≥ 2 && impl == "err" then ["C19 reporting triggers of permitted length rejected"] else [] }
    | some f =>
      let model := hexW 8 f.toNat ++ ":" ++ accBits f rptConsts ++ ":" ++ Bytes.toHex (trigIE f)
      let want := specBits (bs.take 3) Spec.reportingTriggers
      let fails := match splitOn1 impl ':' with
        | [_, ib, ie] =>
          (if ib == want then [] else ["C19 reporting-trigger accessors differ from TS 29.244 §8.2.19 reading " ++ want]) ++
          (match parseHexBytes ie with
           | some o => if specBits o Spec.reportingTriggers == want && o.length == 3 then [] else
               ["C19 re-encoded reporting triggers read differently per §8.2.19"]
           | none => ["C19 reporting triggers IE payload unreadable"])
        | _ => ["C19 reporting triggers of permitted length rejected"]
      pure { model, propFails := fails }
  | "flags.usar", [fs] =>
    let f := BitVec.ofNat 32 (← parseHexNat fs)
    let model := accBits f usarConsts ++ ":" ++ Bytes.toHex (trigIE f)
    let fails := match splitOn1 impl ':' with
      | [ib, ie] =>
        match parseHexBytes ie with
        | some o => if o.length == 3 && specBits o Spec.usageReportTrigger == ib then [] else
            ["C19 usage-report-trigger octets read per §8.2.41 as " ++ specBits o Spec.usageReportTrigger ++ " but the accessors say " ++ ib]
        | none => ["C19 usage report trigger IE payload unreadable"]
      | _ => ["C19 usage report trigger: no result"]
    pure { model, propFails := fails }
  | "flags.setrpt", [fs, rs] =>
    let f := BitVec.ofNat 32 (← parseHexNat fs)
    let r := BitVec.ofNat 32 (← parseHexNat rs)
    let model := hexW 8 (setReportingTrigger f r).toNat
    -- spec: single cause with a same-named usage report trigger sets exactly that bit; anything else nothing
    let want : BitVec 32 :=
      match Spec.reportingTriggers.find? (fun p => BitVec.ofNat 32 (2 ^ p.index) == r) with
      | some p =>
        match Spec.usageReportTrigger.find? (·.name == p.name) with
        | some q => f ||| BitVec.ofNat 32 (2 ^ q.index)
        | none => f
      | none => f
    let fails := if impl == hexW 8 want.toNat then [] else
      ["C19 cause mapping: expected usage-report flags " ++ hexW 8 want.toNat]
    pure { model, propFails := fails }
  | "flags.vol", [fs, mn, a, b, c, d, e, g] =>
    let f := BitVec.ofNat 8 (← parseHexNat fs)
    let vals ← [a, b, c, d, e, g].mapM fun s => (parseHexNat s).map (BitVec.ofNat 64)
    let f' := volSetFlags f (mn == "1")
    let model := hexW 2 f'.toNat ++ ":" ++ Bytes.toHex (volIE f' vals)
    let fails := match splitOn1 impl ':' with
      | [nf, ie] =>
        match parseHexNat nf, parseHexBytes ie with
        | some nfv, some o =>
          let nfb := BitVec.ofNat 8 nfv
          let wantFlags := f ||| 0x07#8 ||| (if mn == "1" then 0x38#8 else 0#8)
          (if nfb == wantFlags then [] else ["C19 SetFlags: expected flag octet " ++ hexW 2 wantFlags.toNat]) ++
          (match Spec.volDecode o with
           | some (fo, fields) =>
             let want := (vals.zipIdx).map fun (v, j) => if nfb.getLsbD j then some v.toNat else none
             if fo == nfb && fields == want then [] else ["C19 volume measurement IE reads other counters than given"]
           | none => ["C19 volume measurement IE not decodable per §8.2.13"])
        | _, _ => ["C19 volume measurement: unreadable result"]
      | _ => ["C19 volume measurement: no result"]
    pure { model, propFails := fails }
  | "flags.volie", [fs, a, b, c, d, e, g] =>
    let f := BitVec.ofNat 8 (← parseHexNat fs)
    let vals ← [a, b, c, d, e, g].mapM fun s => (parseHexNat s).map (BitVec.ofNat 64)
    let model := Bytes.toHex (volIE f vals)
    let fails := match parseHexBytes impl with
      | some o =>
        match Spec.volDecode o with
        | some (fo, fields) =>
          let want := (vals.zipIdx).map fun (v, j) => if f.getLsbD j then some v.toNat else none
          if fo == f && fields == want then [] else ["C19 volume measurement IE reads other counters than given"]
        | none => ["C19 volume measurement IE not decodable per §8.2.13"]
      | none => ["C19 volume measurement: unreadable result"]
    pure { model, propFails := fails }
  | _, _ => none

end UpfVerif.Driver
