import UpfVerif.Driver.Util
import UpfVerif.Model.Flags
import UpfVerif.Model.Buf
import UpfVerif.Model.Krep
/- driver for the kernel usage-report stream (C10 / C11 on the REPORT multicast path): sessions with their URRs and UR-SEQN
   counters; one REPORT message → one Session Report Request per live session with its own reports, in message order -/
namespace UpfVerif.Driver.KrepD
open UpfVerif UpfVerif.Driver UpfVerif.Flags

structure KSess where
  cp : Nat
  urrs : List (Nat × Nat)      -- URR id ↦ next UR-SEQN
deriving Inhabited

structure KSt where
  sess : List (Nat × KSess) := []
  free : List Nat := []
  slots : Nat := 0
deriving Inhabited

def natHex (n : Nat) : String := String.mk (Nat.toDigits 16 n)

def sortStr (l : List String) : List String := (l.toArray.qsort (· < ·)).toList

/-- `ServeMsg` REPORT branch + `ServeReport` + `serveUSAReport`: group by SEID; per live session one request; reports of
    URRs the session does not have are left out; each emitted report takes the URR's counter -/
def report (st : KSt) (items : List (Nat × Nat × Nat × Nat)) : KSt × List String :=
  -- M-Krep (Model/Krep.lean): one notification per SEID with that session's reports in message order; the C10 grouping
  -- theorems (Props/C10.groups_*) are about exactly this function
  (Krep.groups items).foldl (fun (acc : KSt × List String) (g : Nat × List (Nat × Nat × Nat)) =>
    let up := g.1
    match Buf.alGet acc.1.sess up with
    | none => acc
    | some s =>
      let (s', ies) := g.2.foldl (fun (a : KSess × List String) it =>
        match Buf.alGet a.1.urrs it.1 with
        | none => a
        | some n =>
          let trig := trigIE (setReportingTrigger 0#32 (BitVec.ofNat 32 it.2.2))
          ({ a.1 with urrs := Buf.alSet a.1.urrs it.1 (n + 1) },
           a.2 ++ [s!"{it.1}.{n}.{it.2.1}.{Bytes.toHex trig}"])) (s, [])
      ({ acc.1 with sess := Buf.alSet acc.1.sess up s' },
       acc.2 ++ [natHex s.cp ++ "/" ++ (if ies.isEmpty then "-" else String.intercalate "+" ies)])) (st, [])

def eval (st : KSt) (fn : String) (args : List String) (impl : String) : Option (KSt × Verdict) := do
  match fn, args with
  | "krep.reset", [] => pure ({}, { model := "ok" })
  | "krep.est", [cp, u] =>
    let cp ← parseHexNat cp
    let ids ← (splitOn1 ((u.drop 4).toString) '+').mapM String.toNat?
    let (up, st1) := match st.free.getLast? with
      | some x => (x, { st with free := st.free.dropLast })
      | none => (st.slots + 1, { st with slots := st.slots + 1 })
    pure ({ st1 with sess := Buf.alSet st1.sess up { cp := cp, urrs := ids.map fun i => (i, 0) } }, { model := natHex up })
  | "krep.del", [up] =>
    let up ← parseHexNat up
    match Buf.alGet st.sess up with
    | none => pure (st, { model := "65" })
    | some _ => pure ({ st with sess := Buf.alDel st.sess up, free := st.free ++ [up] }, { model := "1" })
  | "krep.burst", [up, urr, n, cp] =>
    -- n single-report notifications for (up, urr) while the loop is busy with an establishment (control-plane SEID cp)
    let up ← parseHexNat up
    let urr ← urr.toNat?
    let n ← n.toNat?
    let cp ← parseHexNat cp
    -- the establishment
    let (nup, st1) := match st.free.getLast? with
      | some x => (x, { st with free := st.free.dropLast })
      | none => (st.slots + 1, { st with slots := st.slots + 1 })
    let st2 := { st1 with sess := Buf.alSet st1.sess nup { cp := cp, urrs := [] } }
    -- the reports: each is delivered (one usage report each) iff the session knows the URR
    let known := match Buf.alGet st2.sess up with
      | some s => (Buf.alGet s.urrs urr).isSome
      | none => false
    let st3 := if known then
        match Buf.alGet st2.sess up with
        | some s => { st2 with sess := Buf.alSet st2.sess up { s with urrs := Buf.alSet s.urrs urr (((Buf.alGet s.urrs urr).getD 0) + n) } }
        | none => st2
      else st2
    let want := s!"{natHex nup} n={if known then n else 0}"
    pure (st3, { model := want,
                 propFails := if impl == want then [] else
                   [s!"C10 {n} usage-report notifications for URR {urr} of session {natHex up} handed up while the event loop was busy: the SMF received '{impl}' (new session, usage reports); every report is due once: '{want}'"] })
  | "krep.report", toks =>
    let items ← toks.mapM fun t => match splitOn1 t ':' with
      | [a, b, c, d] => do pure (← parseHexNat a, ← b.toNat?, ← c.toNat?, ← parseHexNat d)
      | _ => none
    let (st', srrs) := report st items
    let want := if srrs.isEmpty then "-" else String.intercalate "|" (sortStr srrs)
    -- the same with the trigger words blanked: when only they differ, the data plane's cause (Reporting Triggers layout) was
    -- not carried into the Usage Report Trigger by name (C19)
    let blank (x : String) : String :=
      String.intercalate "|" ((splitOn1 x '|').map fun srr =>
        match splitOn1 srr '/' with
        | [sd, reps] => sd ++ "/" ++ String.intercalate "+" ((splitOn1 reps '+').map fun r =>
            String.intercalate "." ((splitOn1 r '.').take 3))
        | _ => srr)
    pure (st', { model := want,
                 propFails := if impl == want then [] else
                   [s!"C10 kernel usage reports: the Session Report Requests at the SMF are [{impl}], the reports of this notification call for [{want}] (one request per owning session, its own reports, values and triggers intact, UR-SEQN in sequence)"] ++
                   (if blank impl == blank want then
                      [s!"C19 the cause the data plane reported (Reporting Triggers bit layout) must reach the control plane as the Usage Report Trigger flag of the same name: the Session Report Requests carry [{impl}], by name they carry [{want}]"] else []) })
  | _, _ => none

end UpfVerif.Driver.KrepD
